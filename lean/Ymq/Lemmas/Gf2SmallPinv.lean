/-
C14 "small", helper lemmas part 5 (Mathlib): the second phase of `pseudoinverse` (row reduction of the
selected rows, from the last one up) and the assembly of its specification.
-/
import Ymq.Lemmas.Gf2SmallElim

namespace Ymq.Gf2Small
open Matrix Module

/-- a pair `(m[k], minv[k])` in good standing: bounded, supported on `S`, `minv[k] · T = m[k]` -/
structure RowOK (n : Nat) (T : Mat) (S : Nat → Prop) (a d : Nat) : Prop where
  lta : a < 2 ^ n
  ltd : d < 2 ^ n
  coef : vec n d ᵥ* toMat n T = vec n a
  suba : ∀ t, a.testBit t = true → S t
  subd : ∀ t, d.testBit t = true → S t

theorem RowOK.xor {n : Nat} {T : Mat} {S : Nat → Prop} {a d a' d' : Nat} (h : RowOK n T S a d)
    (h' : RowOK n T S a' d') : RowOK n T S (a ^^^ a') (d ^^^ d') where
  lta := Nat.xor_lt_two_pow h.lta h'.lta
  ltd := Nat.xor_lt_two_pow h.ltd h'.ltd
  coef := by rw [vec_xor, vec_xor, Matrix.add_vecMul, h.coef, h'.coef]
  suba := by
    intro t ht
    rw [Nat.testBit_xor] at ht
    cases h1 : a.testBit t with
    | true => exact h.suba t h1
    | false => rw [h1] at ht; exact h'.suba t (by simpa using ht)
  subd := by
    intro t ht
    rw [Nat.testBit_xor] at ht
    cases h1 : d.testBit t with
    | true => exact h.subd t h1
    | false => rw [h1] at ht; exact h'.subd t (by simpa using ht)

theorem length_xorRow (rows : Rows) (i j : Nat) : (xorRow rows i j).length = rows.length := by
  simp [xorRow]

theorem rowAt_xorRow {rows : Rows} {i : Nat} (j : Nat) (hi : i < rows.length) (k : Nat) :
    rowAt (xorRow rows i j) k =
      if k = i then ((rowAt rows i).1 ^^^ (rowAt rows j).1, (rowAt rows i).2 ^^^ (rowAt rows j).2)
      else rowAt rows k := by
  simp only [xorRow, rowAt, List.getD_eq_getElem?_getD, List.getElem?_set]
  by_cases h : k = i
  · subst h; simp [hi]
  · have : ¬ i = k := fun e => h e.symm
    simp [h, this]

/-- the inner loop of the second phase: the listed rows `j` (all equal to `1 << j`, pairwise
distinct, different from `i`) are xored into row `i` when bit `j` of `r` is set -/
theorem inner_fold_spec {n : Nat} {T : Mat} {S : Nat → Prop} (dbg : Bool) (i r : Nat) (js : List Nat) :
    ∀ (rows : Rows), rows.length = n → i < n → js.Nodup →
    (∀ j, j ∈ js → i < j ∧ j < n ∧ fstF rows j = 1 <<< j ∧ RowOK n T S (fstF rows j) (sndF rows j)) →
    RowOK n T S (fstF rows i) (sndF rows i) →
    ∃ rows', js.foldlM (fun (rows : Rows) j =>
        if dbg && !decide (i < j) then none
        else if r.testBit j then some (xorRow rows i j) else some rows) rows = some rows' ∧
      rows'.length = n ∧ (∀ k, k ≠ i → rowAt rows' k = rowAt rows k) ∧
      RowOK n T S (fstF rows' i) (sndF rows' i) ∧
      ∀ t, (fstF rows' i).testBit t = ((fstF rows i).testBit t ^^ (decide (t ∈ js) && r.testBit t)) := by
  induction js with
  | nil =>
    intro rows hlen _ _ _ hok
    exact ⟨rows, rfl, hlen, fun _ _ => rfl, hok, fun t => by simp⟩
  | cons j js ih =>
    intro rows hlen hi hnd hjs hok
    obtain ⟨hij, hjn, hmj, hokj⟩ := hjs j (by simp)
    have hjnot : j ∉ js := (List.nodup_cons.mp hnd).1
    have hnd' := (List.nodup_cons.mp hnd).2
    rw [List.foldlM_cons]
    have hdbg : (dbg && !decide (i < j)) = false := by simp [hij]
    simp only [hdbg, Bool.false_eq_true, if_false]
    by_cases hr : r.testBit j = true
    · simp only [hr, if_true]
      have hlen' : (xorRow rows i j).length = n := by rw [length_xorRow]; exact hlen
      have hrow : ∀ k, rowAt (xorRow rows i j) k =
          if k = i then ((rowAt rows i).1 ^^^ (rowAt rows j).1, (rowAt rows i).2 ^^^ (rowAt rows j).2)
          else rowAt rows k := fun k => rowAt_xorRow j (by omega) k
      have hi' : fstF (xorRow rows i j) i = fstF rows i ^^^ fstF rows j ∧
          sndF (xorRow rows i j) i = sndF rows i ^^^ sndF rows j := by
        constructor <;> simp [fstF, sndF, hrow]
      have hother : ∀ k, k ≠ i → rowAt (xorRow rows i j) k = rowAt rows k := by
        intro k hk; rw [hrow, if_neg hk]
      obtain ⟨rows', hf, hl, hoth, hok', hbits⟩ := ih (xorRow rows i j) hlen' hi hnd'
        (fun j' hj' => by
          obtain ⟨h1, h2, h3, h4⟩ := hjs j' (by simp [hj'])
          have hne : j' ≠ i := by omega
          simp only [fstF, sndF, hother j' hne]
          exact ⟨h1, h2, h3, h4⟩)
        (by rw [hi'.1, hi'.2]; exact hok.xor hokj)
      refine ⟨rows', ?_, hl, fun k hk => by rw [hoth k hk, hother k hk], hok', ?_⟩
      · simpa using hf
      · intro t
        rw [hbits t, hi'.1, Nat.testBit_xor, hmj, Nat.one_shiftLeft, Nat.testBit_two_pow]
        by_cases htj : t = j
        · subst htj
          have : decide (t ∈ js) = false := by simpa using hjnot
          simp [this, hr]
        · have h1 : ¬ j = t := fun e => htj e.symm
          simp [h1, htj]
    · have hr' : r.testBit j = false := by simpa using hr
      simp only [hr', Bool.false_eq_true, if_false]
      obtain ⟨rows', hf, hl, hoth, hok', hbits⟩ := ih rows hlen hi hnd'
        (fun j' hj' => hjs j' (by simp [hj'])) hok
      refine ⟨rows', by simpa using hf, hl, hoth, hok', ?_⟩
      intro t
      rw [hbits t]
      by_cases htj : t = j
      · subst htj
        have : decide (t ∈ js) = false := by simpa using hjnot
        simp [this, hr']
      · simp [htj]

theorem lz_one_shiftLeft {n i : Nat} (hi : i < n) : lz n (1 <<< i) = i := by
  apply lz_eq_of hi
  · rw [Nat.one_shiftLeft, Nat.testBit_two_pow]; simp
  · intro t ht
    rw [Nat.one_shiftLeft, Nat.testBit_two_pow]
    have : ¬ i = t := by omega
    simp [this]

/-- invariant of the second phase: the rows of `R` are reduced to `1 << s` -/
structure BInv (n : Nat) (T : Mat) (S : Nat → Prop) (rows : Rows) (R : Nat → Prop) : Prop where
  len : rows.length = n
  ok : ∀ k, k < n → RowOK n T S (fstF rows k) (sndF rows k)
  zero : ∀ k, k < n → ¬ S k → fstF rows k = 0 ∧ sndF rows k = 0
  piv : ∀ s, s < n → S s → lz n (fstF rows s) = s
  red : ∀ s, s < n → S s → R s → fstF rows s = 1 <<< s

theorem BInv.ofFInv {n : Nat} {T : Mat} {S : Nat → Prop} {rows : Rows} (hlen : rows.length = n)
    (h : FInv n T S (fstF rows) (sndF rows) n) : BInv n T S rows (fun _ => False) where
  len := hlen
  ok := fun k hk => ⟨h.ltm k hk, h.ltc k hk, h.coef k hk, h.subm k hk, h.subc k hk⟩
  zero := h.zero
  piv := fun s hs hS => h.piv s hs hs hS
  red := fun _ _ _ hf => absurd hf id

/-- one row of the second phase of `pseudoinverse`; `s t = idx[t]` lists `S` increasingly -/
theorem pinvBackStep_inv {n : Nat} {T : Mat} {S : Nat → Prop} (dbg : Bool) (idx : List Nat) (rk : Nat)
    (hS : ∀ t, t < rk → S (idx.getD t 0) ∧ idx.getD t 0 < n)
    (hmono : ∀ t t', t < t' → t' < rk → idx.getD t 0 < idx.getD t' 0)
    (hall : ∀ x, x < n → S x → ∃ t, t < rk ∧ idx.getD t 0 = x)
    (idx1 : Nat) (h1 : idx1 < rk) (rows : Rows)
    (h : BInv n T S rows (fun x => ∃ t, rk - idx1 ≤ t ∧ t < rk ∧ idx.getD t 0 = x)) :
    ∃ rows', pinvBackStep n dbg idx rk rows idx1 = some rows' ∧
      BInv n T S rows' (fun x => ∃ t, rk - (idx1 + 1) ≤ t ∧ t < rk ∧ idx.getD t 0 = x) := by
  have hti : rk - 1 - idx1 < rk := by omega
  obtain ⟨hSi, hin⟩ := hS _ hti
  have hlzi := h.piv _ hin hSi
  have hbit : (fstF rows (idx.getD (rk - 1 - idx1) 0)).testBit (idx.getD (rk - 1 - idx1) 0) = true := by
    have := lz_bit (n := n) (w := fstF rows (idx.getD (rk - 1 - idx1) 0)) (by omega)
    rwa [hlzi] at this
  have hjs : ∀ j, j ∈ (List.range idx1).map (fun idx2 => idx.getD (rk - 1 - idx2) 0) →
      idx.getD (rk - 1 - idx1) 0 < j ∧ j < n ∧ fstF rows j = 1 <<< j ∧ RowOK n T S (fstF rows j) (sndF rows j) := by
    intro j hj
    obtain ⟨idx2, h2, rfl⟩ := List.mem_map.mp hj
    rw [List.mem_range] at h2
    obtain ⟨hSj, hjn⟩ := hS (rk - 1 - idx2) (by omega)
    exact ⟨hmono _ _ (by omega) (by omega), hjn,
      h.red _ hjn hSj ⟨rk - 1 - idx2, by omega, by omega, rfl⟩, h.ok _ hjn⟩
  have hnd : ((List.range idx1).map (fun idx2 => idx.getD (rk - 1 - idx2) 0)).Nodup := by
    apply List.Nodup.map_on _ List.nodup_range
    intro a ha b hb he
    rw [List.mem_range] at ha hb
    rcases Nat.lt_trichotomy a b with hlt | heq | hgt
    · have := hmono (rk - 1 - b) (rk - 1 - a) (by omega) (by omega); omega
    · exact heq
    · have := hmono (rk - 1 - a) (rk - 1 - b) (by omega) (by omega); omega
  obtain ⟨rows', hf, hl, hoth, hok', hbits⟩ := inner_fold_spec (T := T) (S := S) dbg (idx.getD (rk - 1 - idx1) 0)
    (fstF rows (idx.getD (rk - 1 - idx1) 0)) _ rows h.len hin hnd hjs (h.ok _ hin)
  rw [List.foldlM_map] at hf
  -- the reduced row is `1 << i`
  have hred : fstF rows' (idx.getD (rk - 1 - idx1) 0) = 1 <<< idx.getD (rk - 1 - idx1) 0 := by
    apply Nat.eq_of_testBit_eq
    intro t'
    rw [hbits t', Nat.one_shiftLeft, Nat.testBit_two_pow]
    by_cases hti' : t' = idx.getD (rk - 1 - idx1) 0
    · subst hti'
      have hnot : ¬ idx.getD (rk - 1 - idx1) 0 ∈ (List.range idx1).map (fun idx2 => idx.getD (rk - 1 - idx2) 0) := by
        intro hm
        have := (hjs _ hm).1
        omega
      rw [hbit, decide_eq_false hnot, decide_eq_true rfl]; rfl
    · have hne : ¬ idx.getD (rk - 1 - idx1) 0 = t' := fun e => hti' e.symm
      cases hr : (fstF rows (idx.getD (rk - 1 - idx1) 0)).testBit t' with
      | false => rw [decide_eq_false hne, Bool.and_false]; rfl
      | true =>
        have hSt := (h.ok _ hin).suba t' hr
        have htn : t' < n := by
          apply Nat.lt_of_not_le
          intro hge
          rw [testBit_of_lt_of_ge (h.ok _ hin).lta hge] at hr
          cases hr
        have hge : idx.getD (rk - 1 - idx1) 0 ≤ t' := by
          apply Nat.le_of_not_lt
          intro hlt
          rw [lz_below (n := n) (by rw [hlzi]; exact hlt)] at hr
          cases hr
        obtain ⟨t'', ht'', hst⟩ := hall t' htn hSt
        have ht''gt : rk - 1 - idx1 < t'' := by
          apply Nat.lt_of_not_le
          intro hle
          rcases Nat.lt_or_eq_of_le hle with h3 | h3
          · have := hmono t'' (rk - 1 - idx1) h3 (by omega); omega
          · rw [h3] at hst; omega
        have hmem : t' ∈ (List.range idx1).map (fun idx2 => idx.getD (rk - 1 - idx2) 0) := by
          apply List.mem_map.mpr
          refine ⟨rk - 1 - t'', List.mem_range.mpr (by omega), ?_⟩
          rw [show rk - 1 - (rk - 1 - t'') = t'' by omega, hst]
        rw [decide_eq_true hmem, decide_eq_false hne]; rfl
  refine ⟨rows', ?_, ?_⟩
  · unfold pinvBackStep
    have e1 : (rows.getD (idx.getD (rk - 1 - idx1) 0) (0, 0)).1 = fstF rows (idx.getD (rk - 1 - idx1) 0) := rfl
    have hd1 : (dbg && (lz n (fstF rows (idx.getD (rk - 1 - idx1) 0)) != idx.getD (rk - 1 - idx1) 0)) = false := by
      rw [hlzi]; simp
    simp only [e1, hd1, Bool.false_eq_true, if_false]
    rw [hf]
    have e2 : (rows'.getD (idx.getD (rk - 1 - idx1) 0) (0, 0)).1 = fstF rows' (idx.getD (rk - 1 - idx1) 0) := rfl
    simp only [e2, hred, bne_self_eq_false, Bool.and_false, Bool.false_eq_true, if_false]
  · have hsame : ∀ k, k ≠ idx.getD (rk - 1 - idx1) 0 → fstF rows' k = fstF rows k ∧ sndF rows' k = sndF rows k := by
      intro k hk
      constructor <;> simp only [fstF, sndF, hoth k hk]
    exact {
      len := hl
      ok := by
        intro k hk
        by_cases e : k = idx.getD (rk - 1 - idx1) 0
        · subst e; exact hok'
        · rw [(hsame k e).1, (hsame k e).2]; exact h.ok k hk
      zero := by
        intro k hk hSk
        have e : k ≠ idx.getD (rk - 1 - idx1) 0 := fun e => hSk (e ▸ hSi)
        rw [(hsame k e).1, (hsame k e).2]; exact h.zero k hk hSk
      piv := by
        intro s hs hSs
        by_cases e : s = idx.getD (rk - 1 - idx1) 0
        · subst e; rw [hred]; exact lz_one_shiftLeft hs
        · rw [(hsame s e).1]; exact h.piv s hs hSs
      red := by
        intro s hs hSs hR
        by_cases e : s = idx.getD (rk - 1 - idx1) 0
        · subst e; exact hred
        · rw [(hsame s e).1]
          obtain ⟨t, ht1, ht2, ht3⟩ := hR
          refine h.red s hs hSs ⟨t, ?_, ht2, ht3⟩
          rcases Nat.lt_or_eq_of_le ht1 with h4 | h4
          · omega
          · exfalso; apply e; rw [← ht3, ← h4]; congr 1; omega }

theorem pinvBackFold_inv {n : Nat} {T : Mat} {S : Nat → Prop} (dbg : Bool) (idx : List Nat) (rk : Nat)
    (hS : ∀ t, t < rk → S (idx.getD t 0) ∧ idx.getD t 0 < n)
    (hmono : ∀ t t', t < t' → t' < rk → idx.getD t 0 < idx.getD t' 0)
    (hall : ∀ x, x < n → S x → ∃ t, t < rk ∧ idx.getD t 0 = x) (len : Nat) :
    ∀ (idx1 : Nat) (rows : Rows), idx1 + len ≤ rk →
    BInv n T S rows (fun x => ∃ t, rk - idx1 ≤ t ∧ t < rk ∧ idx.getD t 0 = x) →
    ∃ rows', (List.range' idx1 len).foldlM (pinvBackStep n dbg idx rk) rows = some rows' ∧
      BInv n T S rows' (fun x => ∃ t, rk - (idx1 + len) ≤ t ∧ t < rk ∧ idx.getD t 0 = x) := by
  induction len with
  | zero => intro idx1 rows _ h; exact ⟨rows, rfl, h⟩
  | succ len ih =>
    intro idx1 rows hle h
    obtain ⟨rows1, h1, hB1⟩ := pinvBackStep_inv dbg idx rk hS hmono hall idx1 (by omega) rows h
    obtain ⟨rows2, h2, hB2⟩ := ih (idx1 + 1) rows1 (by omega) hB1
    refine ⟨rows2, ?_, by rw [show idx1 + (len + 1) = idx1 + 1 + len by omega]; exact hB2⟩
    rw [List.range'_succ, List.foldlM_cons, h1]
    exact h2

/-! ### first phase of `pseudoinverse` over the set bits of the mask -/

/-- outcome of the first phase: either it ends with the invariant at `b + len`, or it stops at a
column of the mask for which no row has its lowest set bit there (the `unwrap` fails) -/
theorem pinvForward_inv {n : Nat} {T : Mat} (mk : Nat) (dbg : Bool) (len : Nat) :
    ∀ (b : Nat) (rows : Rows), b + len ≤ n → rows.length = n →
    FInv n T (fun t => mk.testBit t = true) (fstF rows) (sndF rows) b →
    match pinvForward n dbg ((List.range' b len).filter (fun j => mk.testBit j)) rows with
    | some rows' => rows'.length = n ∧ FInv n T (fun t => mk.testBit t = true) (fstF rows') (sndF rows') (b + len)
    | none => ∃ b' rows'', b' < n ∧ mk.testBit b' = true ∧ rows''.length = n ∧
        FInv n T (fun t => mk.testBit t = true) (fstF rows'') (sndF rows'') b' ∧
        ∀ k, k < n → lz n (fstF rows'' k) ≠ b' := by
  induction len with
  | zero =>
    intro b rows _ hlen h
    simp only [List.range'_zero, List.filter_nil, pinvForward]
    exact ⟨hlen, h⟩
  | succ len ih =>
    intro b rows hle hlen h
    rw [List.range'_succ, List.filter_cons]
    by_cases hb : mk.testBit b = true
    · rw [if_pos hb]
      unfold pinvForward
      cases hp : position n b rows with
      | none =>
        simp only []
        exact ⟨b, rows, by omega, hb, hlen, h, fun k hk => position_none hp k (by omega)⟩
      | some j =>
        obtain ⟨hj, hlz, _⟩ := position_some hp
        obtain ⟨rows1, he, hl1, hF1⟩ := elimCol_inv dbg hlen h (by omega) hb (by omega) hlz
        simp only [he]
        have := ih (b + 1) rows1 (by omega) hl1 hF1
        rw [show b + 1 + len = b + (len + 1) by omega] at this
        exact this
    · rw [if_neg hb]
      have := ih (b + 1) rows (by omega) hlen (h.skip (by omega) hb)
      rw [show b + 1 + len = b + (len + 1) by omega] at this
      exact this

/-- the list `idx` of `pseudoinverse` -/
theorem idx_facts (n mk : Nat) :
    let sel := (List.range n).filter (fun j => mk.testBit j)
    let idx := sel ++ List.replicate (256 - sel.length) 0
    idx.take (popcount n mk) = sel ∧
    (∀ t, t < popcount n mk → mk.testBit (idx.getD t 0) = true ∧ idx.getD t 0 < n) ∧
    (∀ t t', t < t' → t' < popcount n mk → idx.getD t 0 < idx.getD t' 0) ∧
    (∀ x, x < n → mk.testBit x = true → ∃ t, t < popcount n mk ∧ idx.getD t 0 = x) := by
  intro sel idx
  have hlen : sel.length = popcount n mk := rfl
  have hget : ∀ t, (ht : t < popcount n mk) → idx.getD t 0 = sel[t]'(by rw [hlen]; exact ht) := by
    intro t ht
    simp only [idx, List.getD_eq_getElem?_getD]
    rw [List.getElem?_append_left (by rw [hlen]; exact ht), List.getElem?_eq_getElem (by rw [hlen]; exact ht)]
    rfl
  have hsorted : sel.Pairwise (· < ·) := List.Pairwise.filter _ List.pairwise_lt_range
  refine ⟨List.take_left' hlen, ?_, ?_, ?_⟩
  · intro t ht
    rw [hget t ht]
    have hm : sel[t]'(by rw [hlen]; exact ht) ∈ sel := List.getElem_mem _
    rw [List.mem_filter, List.mem_range] at hm
    exact ⟨hm.2, hm.1⟩
  · intro t t' htt ht'
    rw [hget t (by omega), hget t' ht']
    exact (List.pairwise_iff_getElem.mp hsorted) t t' _ _ htt
  · intro x hx hmx
    have hm : x ∈ sel := List.mem_filter.mpr ⟨List.mem_range.mpr hx, hmx⟩
    obtain ⟨t, ht, he⟩ := List.getElem_of_mem hm
    exact ⟨t, by rw [← hlen]; exact ht, by rw [hget t (by rw [← hlen]; exact ht)]; exact he⟩

theorem row_map (f : Nat → Nat) (l : Mat) {k : Nat} (hk : k < l.length) : row (l.map f) k = f (row l k) := by
  simp [row, List.getD_eq_getElem?_getD, List.getElem?_map, List.getElem?_eq_getElem hk]

theorem shiftLeft_and_mask (k mk : Nat) : (1 <<< k) &&& mk = if mk.testBit k then 1 <<< k else 0 := by
  apply Nat.eq_of_testBit_eq
  intro t
  rw [Nat.testBit_and, Nat.one_shiftLeft, Nat.testBit_two_pow]
  by_cases hkt : k = t
  · subst hkt
    cases h : mk.testBit k <;> simp [h]
  · cases h : mk.testBit k <;> simp [hkt]

/-- the matrix `minv` starts from: the identity on the mask -/
def maskedId (n mk : Nat) : Mat := (identity n).map (fun r => r &&& mk)

theorem row_maskedId {n mk k : Nat} (hk : k < n) :
    row (maskedId n mk) k = if mk.testBit k then 1 <<< k else 0 := by
  unfold maskedId
  rw [row_map _ _ (by rw [length_identity]; exact hk), row_identity hk, shiftLeft_and_mask]

theorem vecMul_unit {n : Nat} (T : Mat) {k : Nat} (hk : k < n) :
    vec n (1 <<< k) ᵥ* toMat n T = vec n (row T k) := by
  rw [vec_shiftLeft_one hk, Matrix.single_vecMul, one_smul]
  rfl

/-- the documented domain of `pseudoinverse`: null coefficients outside the index set `mk` -/
structure Supported (n : Nat) (T : Mat) (mk : Nat) : Prop where
  rowsZero : ∀ k, k < n → mk.testBit k = false → row T k = 0
  colsZero : ∀ k, k < n → ∀ t, (row T k).testBit t = true → mk.testBit t = true

theorem FInv.initPinv {n : Nat} {T : Mat} {mk : Nat} (hw : ∀ k, k < n → row T k < 2 ^ n)
    (hD : Supported n T mk) :
    FInv n T (fun t => mk.testBit t = true)
      (fstF ((List.range n).map (fun k => (row T k, row (maskedId n mk) k))))
      (sndF ((List.range n).map (fun k => (row T k, row (maskedId n mk) k)))) 0 := by
  have e1 : ∀ k, k < n → fstF ((List.range n).map (fun k => (row T k, row (maskedId n mk) k))) k = row T k := by
    intro k hk; simp only [fstF]; rw [rowAt_map_range n _ hk]
  have e2 : ∀ k, k < n → sndF ((List.range n).map (fun k => (row T k, row (maskedId n mk) k))) k =
      if mk.testBit k then 1 <<< k else 0 := by
    intro k hk; simp only [sndF]; rw [rowAt_map_range n _ hk]; exact row_maskedId hk
  exact {
    ltm := fun k hk => by rw [e1 k hk]; exact hw k hk
    ltc := fun k hk => by
      rw [e2 k hk]
      split
      · rw [Nat.one_shiftLeft]; exact Nat.pow_lt_pow_right (by omega) hk
      · exact Nat.two_pow_pos n
    coef := fun k hk => by
      rw [e1 k hk, e2 k hk]
      cases h : mk.testBit k with
      | true => simp only [if_true]; exact vecMul_unit T hk
      | false =>
        simp only [Bool.false_eq_true, if_false]
        rw [hD.rowsZero k hk h, vec_zero, Matrix.zero_vecMul]
    zero := fun k hk hS => by
      have h : mk.testBit k = false := by simpa using hS
      rw [e1 k hk, e2 k hk, hD.rowsZero k hk h, h]
      exact ⟨rfl, rfl⟩
    subm := fun k hk t ht => by rw [e1 k hk] at ht; exact hD.colsZero k hk t ht
    subc := fun k hk t ht => by
      rw [e2 k hk] at ht
      cases h : mk.testBit k with
      | true =>
        rw [h] at ht
        simp only [if_true, Nat.one_shiftLeft, Nat.testBit_two_pow, decide_eq_true_eq] at ht
        rw [← ht]; exact h
      | false => rw [h] at ht; simp at ht
    piv := fun s hs _ _ => by omega
    rest := fun k _ _ => Nat.zero_le _
    span := by
      apply le_antisymm
      · apply spanOf_le; intro k hk; rw [e1 k hk]; exact mem_spanOf _ hk
      · apply spanOf_le; intro k hk; rw [← e1 k hk]; exact mem_spanOf _ hk }

/-- what the two phases of `pseudoinverse` produce from a supported matrix -/
theorem pinv_core {n : Nat} {T : Mat} {mk : Nat} (dbg : Bool) (hw : ∀ k, k < n → row T k < 2 ^ n)
    (hD : Supported n T mk) :
    let sel := (List.range n).filter (fun j => mk.testBit j)
    let idx := sel ++ List.replicate (256 - sel.length) 0
    let rows0 : Rows := (List.range n).map (fun k => (row T k, row (maskedId n mk) k))
    match pinvForward n dbg (idx.take (popcount n mk)) rows0 with
    | none => ∃ b' rows'', b' < n ∧ mk.testBit b' = true ∧ rows''.length = n ∧
        FInv n T (fun t => mk.testBit t = true) (fstF rows'') (sndF rows'') b' ∧
        ∀ k, k < n → lz n (fstF rows'' k) ≠ b'
    | some rows1 => ∃ rows2, (List.range (popcount n mk)).foldlM (pinvBackStep n dbg idx (popcount n mk)) rows1 = some rows2 ∧
        BInv n T (fun t => mk.testBit t = true) rows2 (fun x => mk.testBit x = true ∧ x < n) := by
  intro sel idx rows0
  obtain ⟨htake, hS, hmono, hall⟩ := idx_facts n mk
  have hfw := pinvForward_inv (T := T) mk dbg n 0 rows0 (by omega) (by simp [rows0]) (FInv.initPinv hw hD)
  rw [← List.range_eq_range', Nat.zero_add] at hfw
  show match pinvForward n dbg (idx.take (popcount n mk)) rows0 with
    | none => _
    | some rows1 => _
  rw [htake]
  cases hp : pinvForward n dbg sel rows0 with
  | none =>
    simp only [sel] at hp
    rw [hp] at hfw
    exact hfw
  | some rows1 =>
    simp only [sel] at hp
    rw [hp] at hfw
    obtain ⟨hl1, hF1⟩ := hfw
    have hB := BInv.ofFInv hl1 hF1
    obtain ⟨rows2, h2, hB2⟩ := pinvBackFold_inv (T := T) dbg idx (popcount n mk) hS hmono hall (popcount n mk) 0 rows1
      (by omega) { hB with red := fun s hs hSs hR => by obtain ⟨t, ht1, ht2, _⟩ := hR; omega }
    rw [← List.range_eq_range'] at h2
    refine ⟨rows2, h2, { hB2 with red := fun s hs hSs _ => hB2.red s hs hSs ?_ }⟩
    obtain ⟨t, ht, he⟩ := hall s hs hSs
    exact ⟨t, by omega, ht, he⟩

end Ymq.Gf2Small
