/-
C20 — parameter tables satisfy their consumers' preconditions at every size.

Everything quantified below is *generated from the Rust source* (Ymq/Gen/Params.lean,
Ymq/Gen/Stage2.lean, translator translate/params.py).  `Holds o p` = "the Rust expression does
not fail (no underflow, overflow, shift out of range, division by zero, index out of range,
failed assert) and its value satisfies p".  Domain: `factor()` refuses inputs above
`LIB_MAX_BITS = 500` bits; the functions of the ORIGINAL `n` (`qs_fb_size`, `mpqs_fb_size`,
`clsgrp_fb_size`, the hard-wired ECM / P-1 arms) are therefore reached with at most 500 bits, the
functions of the MULTIPLIED `n·k`, `k < MAX_MULTIPLIER = 200 < 2^8` (everything in siqs.rs, and
`mpqs_interval_size`, `large_prime_factor`, `double_large_factor`, `nblocks` of mpqs.rs / qsieve.rs)
with at most 508 bits (`reachable_bits_ok`).  Every theorem is decided for all `sz ≤ 520`, both
values of every flag, every table, every row; `MultiZmodP::new` for `bits ≤ 512` (`ZmodN::new`
refuses more) and the convolution dispatch for `bits ≤ 500` (its own assert).
Finite domains are decided by the kernel (`decide +kernel`); statements with an unbounded
variable (factor base bound, B2, prepared length) are proved symbolically.
Only property theorems live here (helper lemmas: Ymq/Lemmas/Params.lean).
-/
import Ymq.Lemmas.Params
import Ymq.Lemmas.ParamsDefs
import Ymq.Lemmas.ParamsDec1
import Ymq.Lemmas.ParamsDec2
import Ymq.Lemmas.ParamsDec3
import Ymq.Lemmas.ParamsDec4

namespace Ymq.C20
open Ymq.Checked Ymq.Gen Ymq.Gen.Params

/-! ## the reachable domain -/

/-- Sizes that reach the parameter functions: at most `LIB_MAX_BITS` for the original `n`, at most
`LIB_MAX_BITS + 8` for `n·k` with a multiplier `k < MAX_MULTIPLIER` (`bits(n·k) ≤ bits n + bits k`);
both are inside the decided domain `sz ≤ 520` (and inside `ZmodN`'s 512).  SIQS, MPQS and classical
QS refuse earlier (448, 448, 400 bits of `n·k`). -/
theorem reachable_bits_ok :
    LIB_MAX_BITS + bitlen (MAX_MULTIPLIER - 1) = 508 ∧ LIB_MAX_BITS + bitlen (MAX_MULTIPLIER - 1) ≤ 64 * MINT_WORDS ∧
    64 * MINT_WORDS ≤ 520 ∧ SIQS_MAX_BITS ≤ 520 ∧ MPQS_MAX_BITS ≤ 520 ∧ QS_MAX_BITS ≤ 520 := by decide

/-! ## the library functions the translation relies on -/

/-- `isqrt` (the model of `(x as f64).sqrt() as u32`) is the floor square root. -/
theorem isqrt_is_floor_sqrt (n : Nat) (h : n < 2 ^ 64) :
    isqrt n * isqrt n ≤ n ∧ n < (isqrt n + 1) * (isqrt n + 1) := isqrt_spec n h

/-! ## factor base sizes (params.rs) -/

/-- `factor_base_size(n)`: no failure (`a - 10`, `<<` in range, the `f64` detour exact) and a
positive size, for every bit length. -/
theorem factor_base_size_ok : ∀ sz, sz ≤ 520 →
    Holds (params.factor_base_size sz) fun v => 0 < v := by decide +kernel

/-- The three tables are strictly increasing in their key: `partition_point` is used on a
partitioned slice and the interpolation never divides by `next.0 - prev.0 = 0`. -/
theorem fbsizes_keys_increasing : ∀ t ∈ fbTables, (t.map (·.1)).Pairwise (· < ·) := by decide +kernel

/-- `select_fb_size(bitsize, use_double, table)` on each of the three tables, for every bit size a
`Uint` can have: no index out of range, no division by zero, no underflow (`bitsize - 200`,
`next.0 - bitsize`, `bitsize - prev.0`), no `u32` overflow in the interpolation, result in
1..500000. -/
theorem select_fb_size_ok : ∀ t ∈ fbTables, ∀ b, b ≤ 1024 → ∀ d : Bool,
    Holds (params.select_fb_size b d t) fun v => 0 < v ∧ v ≤ 500000 := Dec.select_fb_size

theorem qs_fb_size_ok : ∀ b, b ≤ 520 → ∀ d : Bool,
    Holds (params.qs_fb_size b d) fun v => 0 < v ∧ v ≤ 500000 := by decide +kernel

theorem mpqs_fb_size_ok : ∀ b, b ≤ 520 → ∀ d : Bool,
    Holds (params.mpqs_fb_size b d) fun v => 0 < v ∧ v ≤ 500000 := by decide +kernel

theorem clsgrp_fb_size_ok : ∀ b, b ≤ 520 → ∀ d : Bool,
    Holds (params.clsgrp_fb_size b d) fun v => 0 < v ∧ v ≤ 100000 := by decide +kernel

/-! ## SIQS (siqs.rs) -/

/-- `siqs::fb_size(n, use_double)`; the third argument is the truth value of `n % 8 == 1`
(type-2 polynomials: the size of `n >> 2` is used). -/
theorem siqs_fb_size_ok : ∀ sz, sz ≤ 520 → ∀ d m8 : Bool,
    Holds (siqs.fb_size sz d m8) fun v => 0 < v := by decide +kernel

/-- Note (not a consumer precondition: `prepare_factor_base` keeps 24-bit primes only and
`FBase::new` truncates to what was prepared): unlike `qs_fb_size`/`mpqs_fb_size`, the SIQS request
is not capped at the "maximal factor base size" 500000.  Full statement, refuted: -/
theorem siqs_fb_size_le_cap_fails :
    ¬ (∀ sz, sz ≤ 520 → ∀ d m8 : Bool, Holds (siqs.fb_size sz d m8) fun v => v ≤ 500000) := by
  intro h
  have := h 393 (by decide) true false
  revert this
  decide +kernel

/-- counter-witnesses: the first sizes above the cap are 361 bits without and 391 bits with double
large primes (524288); 393 bits with double large primes request 557056 primes, more than exist
(about 539000 primes `p < 2^24` with `(n/p) ≠ -1`; observed on the real code:
`FBase::new(n, 557056).len() = 539216` for a 393-bit `n`); 512 bits request 7340032. -/
theorem siqs_fb_size_cap_witness :
    siqs.fb_size 361 false false = some 524288 ∧ siqs.fb_size 391 true false = some 524288 ∧
    siqs.fb_size 393 true false = some 557056 ∧ siqs.fb_size 512 true false = some 7340032 := by
  decide +kernel

/-- what holds: the cap is respected up to 360 bits (any flags) and up to 390 bits with double
large primes. -/
theorem siqs_fb_size_le_cap_partial : ∀ sz, sz ≤ 390 → ∀ d m8 : Bool, (sz ≤ 360 ∨ d = true) →
    Holds (siqs.fb_size sz d m8) fun v => v ≤ 500000 := by decide +kernel

/-- `nfactors`: at least one factor (`nfacs - 1` does not underflow) and `1 << (nfacs - 1)` is in
range even for the `i32` the expression defaults to. -/
theorem siqs_nfactors_ok : ∀ sz, sz ≤ 520 →
    Holds (siqs.nfactors sz) fun k => 1 ≤ k ∧ k - 1 < 31 := by decide +kernel

/-- `select_siqs_factors` needs more than `nfacs` primes after dropping the first one: the factor
base (padded to a multiple of 8 by `FBase::new`) is large enough at every size. -/
theorem siqs_nfactors_fits_fbase : ∀ sz, sz ≤ 520 → ∀ d m8 : Bool,
    Holds (siqs.nfactors sz) fun k => Holds (siqs.fb_size sz d m8) fun fb =>
      k + 2 ≤ 8 * ((fb + 7) / 8) := by decide +kernel

/-- `select_a` marks the primes chosen among the `4 * nfacs` selected by `select_siqs_factors` in a
bit mask (`1 << g`, `g < 4 * nfacs`): the mask is wide enough at every size.  (Before the repair
e726329 the mask was a `u64` and `1 << g` overflowed from 425 bits on, `nfacs ≥ 17`.) -/
theorem siqs_select_a_mask_ok : ∀ sz, sz ≤ 520 →
    Holds (siqs.nfactors sz) fun k => SELECT_PER_NFAC * k ≤ SELECT_A_MASK_BITS := by decide +kernel

/-- the former `u64` mask was too narrow exactly from 425 bits on (witness of the repaired defect) -/
theorem siqs_select_a_u64_mask_witness :
    (∀ sz, sz ≤ 424 → Holds (siqs.nfactors sz) fun k => SELECT_PER_NFAC * k ≤ 64) ∧
    (∀ sz, sz ≤ 520 → 425 ≤ sz → Holds (siqs.nfactors sz) fun k => 64 < SELECT_PER_NFAC * k) := by
  decide +kernel

/-- the polynomials of SIQS fit the 256-bit integers they are computed in, for every size SIQS
accepts (`SIQS_MAX_BITS`, refusal added by the repair a235189). -/
theorem siqs_poly_fits_ok : ∀ sz, sz ≤ SIQS_MAX_BITS → ∀ d : Bool,
    Holds (siqs.interval_size sz d) (SiqsPolyFits sz) := by decide +kernel

/-- the refusal is necessary: from 468 bits on the first assertion fails for every type-1 input
(`bits A ≥ bits X - bits(M/2) - 1`); observed on the real code from 465 bits. -/
theorem siqs_poly_overflows_witness : ∀ sz, sz ≤ 520 → 468 ≤ sz → ∀ d : Bool,
    Holds (siqs.interval_size sz d) fun M => 255 ≤ (sz + 2) / 2 - bitlen (M / 2) - 1 + 2 * bitlen M := by
  decide +kernel

theorem siqs_a_value_count_ok : ∀ sz, sz ≤ 520 →
    Holds (siqs.a_value_count sz) fun v => 0 < v := by decide +kernel

/-- the tolerance divisor is used as a divisor -/
theorem siqs_a_tolerance_divisor_ok : ∀ sz, sz ≤ 520 →
    Holds (siqs.a_tolerance_divisor sz) fun v => 0 < v := by decide +kernel

/-- interval size: a positive multiple of `BLOCK_SIZE` that fits `u32` (`nblocks as u32 *
BLOCK_SIZE as u32` in sieve.rs); `mm / 2 ≥ 1` (divisor in `select_siqs_factors`). -/
theorem siqs_interval_size_ok : ∀ sz, sz ≤ 520 → ∀ d : Bool,
    Holds (siqs.interval_size sz d) fun m => 0 < m ∧ m % BLOCK_SIZE = 0 ∧ m < 2 ^ 32 ∧ 1 ≤ m / 2 := by
  decide +kernel

theorem siqs_large_prime_factor_ok : ∀ sz, sz ≤ 520 →
    Holds (siqs.large_prime_factor sz) fun f => 1 ≤ f ∧ f < 2 ^ 32 := by decide +kernel

/-- "B1*B2 must not exceed 2^16": the double large prime factor `D` is at most 2^16. -/
theorem siqs_double_large_factor_ok : ∀ sz, sz ≤ 520 →
    Holds (siqs.double_large_factor sz) fun D => D ≤ 2 ^ 16 := by decide +kernel

/-! ## MPQS (mpqs.rs) -/

/-- `mpqs_interval_size` (an `i64`, cast to `u32` by the caller). -/
theorem mpqs_interval_size_ok : ∀ sz, sz ≤ 520 →
    Holds (mpqs.mpqs_interval_size sz) fun m => 0 < m ∧ m % BLOCK_SIZE = 0 ∧ m < 2 ^ 32 ∧ 1 ≤ m / 2 := by
  decide +kernel

theorem mpqs_large_prime_factor_ok : ∀ sz, sz ≤ 520 →
    Holds (mpqs.large_prime_factor sz) fun f => 1 ≤ f ∧ f < 2 ^ 32 := by decide +kernel

theorem mpqs_double_large_factor_ok : ∀ sz, sz ≤ 520 →
    Holds (mpqs.double_large_factor sz) fun D => D ≤ 2 ^ 16 := by decide +kernel

/-! ## classical QS (qsieve.rs) -/

theorem qs_large_prime_factor_ok : ∀ sz, sz ≤ 520 →
    Holds (qsieve.large_prime_factor sz) fun f => 1 ≤ f ∧ f < 2 ^ 32 := by decide +kernel

/-- `SieveQS::nblocks`: positive, and `nblocks * BLOCK_SIZE` fits `u32`. -/
theorem qs_nblocks_ok : ∀ sz, sz ≤ 520 →
    Holds (qsieve.nblocks sz) fun k => 0 < k ∧ k * BLOCK_SIZE < 2 ^ 32 := by decide +kernel

/-! ## class group (classgroup.rs) -/

/-- `a_params`: at least one `A`, and `1 << (nfacs - 1)` (guarded by `nfacs > 1`) in range. -/
theorem cl_a_params_ok : ∀ sz, sz ≤ 520 →
    Holds (classgroup.a_params sz) fun r => 1 ≤ r.1 ∧ (r.2 ≤ 1 ∨ r.2 - 1 < 31) := by decide +kernel

/-- class group: same mask in `select_a` -/
theorem cl_select_a_mask_ok : ∀ sz, sz ≤ 520 →
    Holds (classgroup.a_params sz) fun r => SELECT_PER_NFAC * r.2 ≤ SELECT_A_MASK_BITS := by decide +kernel

theorem cl_interval_size_ok : ∀ sz, sz ≤ 520 →
    Holds (classgroup.interval_size sz) fun m => 0 < m ∧ m % BLOCK_SIZE = 0 ∧ m < 2 ^ 32 ∧ 1 ≤ m / 2 := by
  decide +kernel

theorem cl_large_prime_factor_ok : ∀ sz, sz ≤ 520 →
    Holds (classgroup.large_prime_factor sz) fun f => 1 ≤ f ∧ f < 2 ^ 32 := by decide +kernel

theorem cl_double_large_factor_ok : ∀ sz, sz ≤ 520 →
    Holds (classgroup.double_large_factor sz) fun D => D ≤ 2 ^ 16 := by decide +kernel

/-! ## large prime bounds: the statements of the four sieve drivers

`B = fbase.bound()` is below `2^FB_PRIME_BITS = 2^24` (`prepare_factor_base` drops larger primes,
`fbase_prime_bits_ok`).  The consumers: `assert!(maxlarge == (maxlarge as u32) as u64)`
(siqs/mpqs/classgroup), `maxlarge * maxlarge` in `fbase::cofactor` (all four), `u64` products
`maxprime * maxprime * D`, `maxlarge * maxprime * 2`. -/

private theorem mul32 {a b : Nat} (ha : a < 2 ^ 32) (hb : b < 2 ^ 32) : a * b < 2 ^ 64 := by
  calc a * b < 2 ^ 32 * 2 ^ 32 := Nat.mul_lt_mul'' ha hb
    _ = 2 ^ 64 := by norm_num

private theorem h_shl : cshl 64 1 32 = some 4294967296 := by decide
private theorem h_sub : csub 4294967296 1 = some 4294967295 := by decide

/-- SIQS: `min(maxprime * factor, (1 << 32) - 1)` does not overflow and fits 32 bits, so
`maxlarge * maxlarge` fits `u64`. -/
theorem siqs_maxlarge_ok (bound f : Nat) (hb : bound < 2 ^ 32) (hf : f < 2 ^ 32) :
    Holds (siqs.maxlarge bound f) fun m => m < 2 ^ 32 ∧ m * m < 2 ^ 64 := by
  simp only [siqs.maxlarge, cmul_some (mul32 hb hf), h_shl, h_sub, Option.bind_some, Holds]
  exact ⟨_, rfl, by omega, mul32 (by omega) (by omega)⟩

/-- SIQS: `maxprime * maxprime * double_large_factor(n)` fits `u64` for every 24-bit bound. -/
theorem siqs_maxdouble_ok (bound : Nat) (hb : bound < 2 ^ FB_PRIME_BITS) : ∀ sz, sz ≤ 520 →
    Holds (siqs.double_large_factor sz) fun D => Holds (siqs.maxdouble bound D) fun m => m = bound * bound * D := by
  intro sz hsz
  obtain ⟨D, hD, hD16⟩ := siqs_double_large_factor_ok sz hsz
  refine ⟨D, hD, ?_⟩
  have hb' : bound < 2 ^ 24 := hb
  have h0 : bound * bound < 2 ^ 64 := mul32 (by omega) (by omega)
  simp only [siqs.maxdouble, cmul_some h0, cmul_some (double_bound_fits bound D hb' hD16), Option.bind_some, Holds]
  exact ⟨_, rfl, rfl⟩

/-- MPQS: clamp to `u32::MAX`, then `2 * maxprime` when double large primes are used. -/
theorem mpqs_maxlarge_ok (bound f : Nat) (d : Bool) (hb : bound < 2 ^ 31) (hf : f < 2 ^ 32) :
    Holds (mpqs.maxlarge bound f d) fun m => m < 2 ^ 32 ∧ m * m < 2 ^ 64 := by
  have h2b : 2 * bound < 2 ^ 64 := by omega
  have key : Holds (mpqs.maxlarge bound f d) fun m => m < 2 ^ 32 := by
    unfold mpqs.maxlarge
    simp only [cmul_some (mul32 (by omega : bound < 2 ^ 32) hf), cmul_some h2b, Option.bind_some, Holds]
    cases d <;> simp <;> split_ifs <;> first | omega | exact ⟨_, rfl, by omega⟩
  exact key.imp fun m hm => ⟨hm, mul32 hm hm⟩

theorem mpqs_maxdouble_ok (bound : Nat) (hb : bound < 2 ^ FB_PRIME_BITS) : ∀ sz, sz ≤ 520 →
    Holds (mpqs.double_large_factor sz) fun D => Holds (mpqs.maxdouble bound D) fun m => m = bound * bound * D := by
  intro sz hsz
  obtain ⟨D, hD, hD16⟩ := mpqs_double_large_factor_ok sz hsz
  refine ⟨D, hD, ?_⟩
  have hb' : bound < 2 ^ 24 := hb
  have h0 : bound * bound < 2 ^ 64 := mul32 (by omega) (by omega)
  simp only [mpqs.maxdouble, cmul_some h0, cmul_some (double_bound_fits bound D hb' hD16), Option.bind_some, Holds]
  exact ⟨_, rfl, rfl⟩

/-- classical QS: `max_large_prime(maxprime, factor)` fits 32 bits (before the repair d7a1b41 the
unclamped product reached 2^32 for 348..400-bit inputs and `maxlarge * maxlarge` overflowed). -/
theorem qs_maxlarge_ok (bound f : Nat) (hb : bound < 2 ^ 32) (hf : f < 2 ^ 32) :
    Holds (qsieve.max_large_prime bound f) fun m => m < 2 ^ 32 ∧ m * m < 2 ^ 64 := by
  simp only [qsieve.max_large_prime, cmul_some (mul32 hb hf), h_shl, h_sub, Option.bind_some, Holds]
  exact ⟨_, rfl, by omega, mul32 (by omega) (by omega)⟩

/-- classical QS: `maxlarge * maxprime * 2` fits `u64`. -/
theorem qs_max_cofactor_ok (maxlarge maxprime : Nat) (hl : maxlarge < 2 ^ 32) (hp : maxprime < 2 ^ FB_PRIME_BITS) :
    Holds (qsieve.max_cofactor_double maxlarge maxprime) fun _ => True := by
  have hp' : maxprime < 2 ^ 24 := hp
  have h1 : maxlarge * maxprime < 2 ^ 56 := by
    calc maxlarge * maxprime < 2 ^ 32 * 2 ^ 24 := Nat.mul_lt_mul'' hl hp'
      _ = 2 ^ 56 := by norm_num
  simp only [qsieve.max_cofactor_double, cmul_some (by omega : maxlarge * maxprime < 2 ^ 64),
    cmul_some (by omega : maxlarge * maxprime * 2 < 2 ^ 64), Option.bind_some, Holds]
  exact ⟨_, rfl, trivial⟩

theorem cl_maxlarge_ok (bound f : Nat) (hb : bound < 2 ^ 32) (hf : f < 2 ^ 32) :
    Holds (classgroup.maxlarge bound f) fun m => m < 2 ^ 32 ∧ m * m < 2 ^ 64 := by
  simp only [classgroup.maxlarge, cmul_some (mul32 hb hf), h_shl, h_sub, Option.bind_some, Holds]
  exact ⟨_, rfl, by omega, mul32 (by omega) (by omega)⟩

theorem cl_maxdouble_ok (bound : Nat) (hb : bound < 2 ^ FB_PRIME_BITS) : ∀ sz, sz ≤ 520 →
    Holds (classgroup.double_large_factor sz) fun D => Holds (classgroup.maxdouble bound D) fun m => m = bound * bound * D := by
  intro sz hsz
  obtain ⟨D, hD, hD16⟩ := cl_double_large_factor_ok sz hsz
  refine ⟨D, hD, ?_⟩
  have hb' : bound < 2 ^ 24 := hb
  have h0 : bound * bound < 2 ^ 64 := mul32 (by omega) (by omega)
  simp only [classgroup.maxdouble, cmul_some h0, cmul_some (double_bound_fits bound D hb' hD16), Option.bind_some, Holds]
  exact ⟨_, rfl, rfl⟩

/-- non-vacuity of the bound hypotheses -/
example : (15485863 : Nat) < 2 ^ FB_PRIME_BITS ∧ (640 : Nat) < 2 ^ 32 := by decide

/-! ## FBase::new (fbase.rs) -/

/-- every factor base size produced by a parameter function is an admissible request. -/
theorem fbase_request_ok : ∀ sz, sz ≤ 520 → ∀ d m8 : Bool,
    Holds (siqs.fb_size sz d m8) FbRequestOk ∧ Holds (params.factor_base_size sz) FbRequestOk ∧
    Holds (params.qs_fb_size sz d) FbRequestOk ∧ Holds (params.mpqs_fb_size sz d) FbRequestOk ∧
    Holds (params.clsgrp_fb_size sz d) FbRequestOk := Dec.fbase_request

/-- the number of primes kept, `8 * min((size + 7) / 8, prepared.len() / 8)`: a multiple of 8
(`assert!(primes.len() % 8 == 0)`, SIMD code), within what was prepared, non-empty as soon as 8
primes were prepared (`FBase::bound()` unwraps the last prime). -/
theorem fbase_padded_len_ok (size plen : Nat) (hs : size + 7 < 2 ^ 32) (hp : plen < 2 ^ 64) :
    Holds (fbase.padded_len size plen) fun l =>
      l % 8 = 0 ∧ l ≤ plen ∧ l ≤ size + 7 ∧ (1 ≤ size → 8 ≤ plen → 8 ≤ l) := by
  have h8 : (8 : Nat) ≠ 0 := by decide
  have hm : 8 * min ((size + 7) / 8) (plen / 8) < 2 ^ 64 := by omega
  simp only [fbase.padded_len, cadd_some hs, cdiv_some h8, Option.bind_some, cmul_some hm, Holds]
  exact ⟨_, rfl, by omega⟩

example : (500000 : Nat) + 7 < 2 ^ 32 ∧ (1000040 : Nat) < 2 ^ 64 := by decide

/-- primes of the factor base are below `2^24` (filter in `prepare_factor_base`), which is within
`Dividers::new`'s `p >> 30 == 0`; their bit length `l ≤ 24` indexes `idx_by_log` (26 entries) in
`FBase::new` and `log + 1 ≤ 25` in `Sieve::new`. -/
theorem fbase_prime_bits_ok :
    FB_PRIME_BITS ≤ DIVIDERS_MAX_BITS ∧ FB_PRIME_BITS + 2 ≤ IDX_BY_LOG_LEN := by decide

/-- `assert!(MAX_MULTIPLIER * MAX_MULTIPLIER < 1 << 16)` of `select_multiplier`. -/
theorem max_multiplier_ok : MAX_MULTIPLIER * MAX_MULTIPLIER < 2 ^ 16 := by decide

/-! ## stage-2 tables -/

theorem stage2_rows_ok : ∀ r ∈ Stage2.ecmTable, RowOk r := by decide +kernel

theorem pm1_rows_ok : ∀ r ∈ Stage2.pm1Table, Pm1RowOk r := by decide +kernel

/-- `params::stage2_params(b2)` is total for every `b2 = num/den ≥ 0`: it returns a row of the
table, the nearest one, which is usable by ECM and P+1. -/
theorem stage2_select_total (num den : Nat) :
    ∃ row, Stage2.stage2Select num den = some row ∧ row ∈ Stage2.ecmTable ∧ RowOk row ∧
      ∀ r ∈ Stage2.ecmTable, absDiff (row.1 * den) num ≤ absDiff (r.1 * den) num := by
  obtain ⟨row, h1, h2, h3⟩ := nearestRow_spec Stage2.ecmTable (by decide) num den
  exact ⟨row, h1, h2, stage2_rows_ok row h2, h3⟩

/-- `pollard_pm1::stage2_params(b2)`: total, nearest, and every row it can return meets the
requirements of `pm1_stage2_polyeval` (which runs for `b2 > MULTIEVAL_THRESHOLD`; the statement
holds for every `b2`). -/
theorem pm1_select_ok (num den : Nat) :
    ∃ row, Stage2.pm1Stage2Select num den = some row ∧ row ∈ Stage2.pm1Table ∧ Pm1RowOk row ∧
      ∀ r ∈ Stage2.pm1Table, absDiff (row.1 * den) num ≤ absDiff (r.1 * den) num := by
  obtain ⟨row, h1, h2, h3⟩ := nearestRow_spec Stage2.pm1Table (by decide) num den
  exact ⟨row, h1, h2, pm1_rows_ok row h2, h3⟩

/-- hard-wired P-1 arms: `assert!(b1 > 3)`, `b1 as u32` and (for the prime-by-prime walk used
when `b2 ≤ MULTIEVAL_THRESHOLD`) `b2 as u32` lose nothing. -/
theorem pm1_arms_ok : ∀ arm ∈ Stage2.pm1QuickArms ++ Stage2.pm1OnlyArms, ∀ run ∈ arm.2.2.2,
    3 < run.1 ∧ run.1 < 2 ^ 32 ∧ 0 < run.2 ∧ (run.2 ≤ Stage2.multievalThreshold → run.2 < 2 ^ 32) := by
  decide +kernel

/-- hard-wired ECM arms (`ecm_auto`, `ecm_only`, `ecm128`, `ecm_semiprime`): at least one curve,
`b1` fits `u32` (`SmoothBase::new`: `b1 as u32`), positive `b2`; the ECM128 arms (which have no
polynomial stage 2) select quadratic rows only (`d1 < 4000`). -/
theorem ecm_arms_ok :
    (∀ arm ∈ Stage2.ecmAutoArms ++ Stage2.ecm128Arms, ∀ run ∈ arm.2.2.2,
      0 < run.1 ∧ 1 < run.2.1 ∧ run.2.1 < 2 ^ 32 ∧ 0 < run.2.2) ∧
    (∀ run ∈ Stage2.ecmOnlyRuns, 0 < run.1 ∧ 1 < run.2.1 ∧ run.2.1 < 2 ^ 32 ∧ 0 < run.2.2) ∧
    (∀ run ∈ Stage2.ecmSemiprimeArms, 0 < run.2.1 ∧ 1 < run.2.2.1 ∧ run.2.2.1 < 2 ^ 32 ∧ 0 < run.2.2.2) ∧
    (∀ arm ∈ Stage2.ecm128Arms, ∀ run ∈ arm.2.2.2,
      Holds (Stage2.stage2Select run.2.2 1) fun row => row.2.1 < Stage2.ecmPolyevalD1) ∧
    (∀ run ∈ Stage2.ecmSemiprimeArms,
      Holds (Stage2.stage2Select run.2.2.2 1) fun row => row.2.1 < Stage2.ecmPolyevalD1) := by
  decide +kernel

/-! ## NTT primes and MultiZmodP::new (arith_fft.rs) -/

/-- every listed modulus is `≡ 1 (mod 2^32)` (indeed mod 2^49), between 2^58 and 2^59 (so `2p`
fits `u64` and 58 bits per prime are available), `p - 2` is the negated inverse of `p` modulo
2^64 (used by `mg_mul64`), the listed element is reduced, and the moduli are distinct. -/
theorem ntt_primes_ok :
    NTT_PRIMES.length = NTT_PRIMES_LEN ∧ NTT_PRIME_VALUES.Pairwise (· < ·) ∧
    ∀ pr ∈ NTT_PRIMES, pr.1 % 2 ^ 32 = 1 ∧ 2 ^ 58 < pr.1 ∧ pr.1 < 2 ^ 59 ∧
      (pr.1 * (pr.1 - 2) + 1) % 2 ^ 64 = 0 ∧ 0 < pr.2 ∧ pr.2 < pr.1 := by decide +kernel

private theorem ntt_roots_order_pm : ∀ pr ∈ NTT_PRIMES,
    powmod pr.2 (2 ^ 32) pr.1 = 1 ∧ powmod pr.2 (2 ^ 31) pr.1 = pr.1 - 1 := by decide +kernel

/-- the listed element has multiplicative order exactly `2^32` modulo its prime:
`r^(2^32) ≡ 1` and `r^(2^31) ≡ -1 ≢ 1`.  (`MultiZmodP::new` squares it `32 - logsize` times to
get a root of order `2^logsize`.) -/
theorem ntt_roots_order : ∀ pr ∈ NTT_PRIMES,
    pr.2 ^ 2 ^ NTT_ROOT_LOG % pr.1 = 1 ∧ pr.2 ^ 2 ^ (NTT_ROOT_LOG - 1) % pr.1 = pr.1 - 1 ∧ pr.1 - 1 ≠ 1 := by
  intro pr hpr
  have h := ntt_roots_order_pm pr hpr
  have hp := (ntt_primes_ok.2.2 pr hpr).2.1
  rw [powmod_eq _ _ _ (by norm_num), powmod_eq _ _ _ (by norm_num)] at h
  have e1 : NTT_ROOT_LOG = 32 := rfl
  rw [e1]
  exact ⟨h.1, h.2, by omega⟩

/-- `MultiZmodP::new(zn, logsize)` for every modulus size and every `logsize ≤ 32`: the
arithmetic does not overflow, `w ≤ NTT_PRIMES.len()` (slice `NTT_PRIMES[..w]`), the assert
`w * primes[w-1] < 2^64` holds, and `58 w > 2 bits + logsize`. -/
theorem mzp_new_ok : ∀ bits, bits ≤ 512 → ∀ logsize, logsize ≤ 32 →
    Holds (arith_fft.mzp_w bits logsize) fun w =>
      1 ≤ w ∧ w ≤ NTT_PRIMES_LEN ∧ 2 * bits + logsize < 58 * w := Dec.mzp_new

/-- the product of the first `w` primes has more than `58 w` bits (so
`assert!(pprod.bits() >= 2 * zn.n.bits() + logsize)` follows from `mzp_new_ok`) and fits the
`U2048` it is computed in. -/
theorem mzp_product_ok : ∀ w, w ≤ NTT_PRIMES_LEN →
    2 ^ (58 * w) ≤ (NTT_PRIME_VALUES.take w).prod ∧ (NTT_PRIME_VALUES.take w).prod < 2 ^ 2048 := by
  decide +kernel

/-! ## convolve_modn dispatch (arith_fft.rs) -/

/-- the dispatch is total on `bits ≤ 500` (the assert that follows it) and `size = 2^k ≤ 2^19`. -/
theorem convolve_dispatch_total : ∀ bits, bits ≤ CONVOLVE_MAX_BITS → ∀ k, k ≤ 19 →
    Holds (arith_fft.convolve_dispatch bits (2 ^ k)) fun _ => True := Dec.convolve_total

/-- every arm's packing hypotheses hold wherever the arm is selected, for sizes `2 ≤ 2^k ≤ 2^19`.
Partial: `size = 1` is excluded, see `convolve_dispatch_packing_fails_size_one`. -/
theorem convolve_dispatch_packing_partial : ∀ bits, bits ≤ CONVOLVE_MAX_BITS → ∀ k, k ≤ 19 → 1 ≤ k →
    Holds (arith_fft.convolve_dispatch bits (2 ^ k)) (DispatchOk bits k) := Dec.convolve_packing

/-- Degenerate size: for `size = 1` and coefficients of at most 150 bits the first arm packs two
coefficients per FFT word, so the FFT length `size >> 1` is `0` and `mulfft` computes `l - 1` with
`l = 0`.  (`convolve_modn` has no caller inside the crate; reported as a note, not as a finding:
a convolution modulo `X - 1` is not a meaningful request.) -/
theorem convolve_dispatch_size_one : ∀ bits, bits ≤ 150 →
    Holds (arith_fft.convolve_dispatch bits 1) fun r => 2 ^ 0 / 2 ^ r.2.1 = 0 := by decide +kernel

/-- the full statement (all `2^k ≤ 2^19`) is false; witness `bits = 100`, `size = 1`.  Observed
on the real code: `convolve_modn(zn, 1, ..)` panics for a 100-bit modulus in both profiles. -/
theorem convolve_dispatch_packing_fails_size_one :
    ¬ (∀ bits, bits ≤ CONVOLVE_MAX_BITS → ∀ k, k ≤ 19 →
        Holds (arith_fft.convolve_dispatch bits (2 ^ k)) (DispatchOk bits k)) := by
  intro h
  have := h 100 (by decide) 0 (by decide)
  revert this
  decide +kernel

/-- the instantiations: `fsize = 64 N`. -/
theorem convolve_fsize_ok : ∀ fn ∈ CONVOLVE_FSIZE_N, fn.2 * 64 = fn.1 := by decide +kernel

end Ymq.C20
