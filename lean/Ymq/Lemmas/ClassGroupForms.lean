/-
The reference enumeration `reducedForms D` of Ymq/Model/ClassGroup.lean lists exactly the reduced
primitive positive definite forms of discriminant `D < 0`, without repetition.
-/
import Ymq.Model.ClassGroup
import Mathlib.Data.Nat.Sqrt
import Mathlib.Data.List.Nodup
import Mathlib.Data.List.Range
import Mathlib.Tactic.Linarith
import Mathlib.Tactic.Ring

namespace Ymq.ClassGroup

/-- `f` is a reduced primitive positive definite form of discriminant `D` -/
def IsReducedPrim (D : Int) (f : Form) : Prop :=
  f.disc = D ∧ 0 < f.a ∧ f.b.natAbs ≤ f.a.natAbs ∧ f.a ≤ f.c ∧
    ((f.b.natAbs = f.a.natAbs ∨ f.a = f.c) → 0 ≤ f.b) ∧ gcd3 f.a f.b f.c = 1

theorem isReducedPrim_iff (f : Form) :
    f.isReducedPrim = true ↔ (0 < f.a ∧ f.b.natAbs ≤ f.a.natAbs ∧ f.a ≤ f.c ∧
      ((f.b.natAbs = f.a.natAbs ∨ f.a = f.c) → 0 ≤ f.b) ∧ gcd3 f.a f.b f.c = 1) := by
  unfold Form.isReducedPrim
  simp only [Bool.and_eq_true, Bool.or_eq_true, Bool.not_eq_true', decide_eq_true_eq,
    decide_eq_false_iff_not, beq_iff_eq]
  constructor
  · rintro ⟨⟨⟨⟨h1, h2⟩, h3⟩, h4⟩, h5⟩
    refine ⟨h1, h2, h3, ?_, h5⟩
    intro h
    rcases h4 with h4 | h4
    · exact absurd h h4
    · exact h4
  · rintro ⟨h1, h2, h3, h4, h5⟩
    refine ⟨⟨⟨⟨h1, h2⟩, h3⟩, ?_⟩, h5⟩
    by_cases h : f.b.natAbs = f.a.natAbs ∨ f.a = f.c
    · exact Or.inr (h4 h)
    · exact Or.inl h

theorem mem_bRange {a : Nat} {b : Int} : b ∈ bRange a ↔ -(a : Int) ≤ b ∧ b ≤ a := by
  unfold bRange
  simp only [List.mem_map, List.mem_range]
  constructor
  · rintro ⟨i, hi, rfl⟩
    constructor <;> omega
  · rintro ⟨h1, h2⟩
    refine ⟨(b + a).toNat, ?_, ?_⟩ <;> omega

theorem bRange_nodup (a : Nat) : (bRange a).Nodup := by
  unfold bRange
  apply List.Nodup.map
  · intro i j h
    simp only at h
    omega
  · exact List.nodup_range

/-- membership in the list of forms with a given first coefficient -/
theorem mem_formsWithA {D : Int} {a : Nat} {f : Form} :
    f ∈ formsWithA D a ↔ ∃ b : Int, -(a : Int) ≤ b ∧ b ≤ a ∧ (b * b - D) % (4 * (a : Int)) = 0 ∧
      f = ⟨a, b, (b * b - D) / (4 * (a : Int))⟩ ∧ f.isReducedPrim = true := by
  unfold formsWithA
  simp only [List.mem_filterMap, mem_bRange]
  constructor
  · rintro ⟨b, ⟨h1, h2⟩, h⟩
    split at h
    · rename_i hm
      split at h
      · rename_i hr
        simp only [Option.some.injEq] at h
        exact ⟨b, h1, h2, hm, h.symm, h ▸ hr⟩
      · simp at h
    · simp at h
  · rintro ⟨b, h1, h2, hm, rfl, hr⟩
    refine ⟨b, ⟨h1, h2⟩, ?_⟩
    simp [hm, hr]

theorem formsWithA_a {D : Int} {a : Nat} {f : Form} (h : f ∈ formsWithA D a) : f.a = a := by
  obtain ⟨b, _, _, _, rfl, _⟩ := mem_formsWithA.1 h
  rfl

theorem formsWithA_nodup (D : Int) (a : Nat) : (formsWithA D a).Nodup := by
  unfold formsWithA
  apply List.Nodup.filterMap _ (bRange_nodup a)
  intro b b' f hb hb'
  simp only [Option.mem_def] at hb hb'
  split at hb
  · split at hb
    · split at hb'
      · split at hb'
        · simp only [Option.some.injEq] at hb hb'
          have := congrArg Form.b (hb.trans hb'.symm)
          simpa using this
        · simp at hb'
      · simp at hb'
    · simp at hb
  · simp at hb

/-- soundness: every listed form is reduced, primitive, of discriminant `D` -/
theorem reducedForms_sound {D : Int} {f : Form} (h : f ∈ reducedForms D) : IsReducedPrim D f := by
  unfold reducedForms at h
  simp only [List.mem_flatMap, List.mem_range] at h
  obtain ⟨a, _, h⟩ := h
  split at h
  · simp at h
  · rename_i ha
    obtain ⟨b, _, _, hm, rfl, hr⟩ := mem_formsWithA.1 h
    obtain ⟨h1, h2, h3, h4, h5⟩ := (isReducedPrim_iff _).1 hr
    refine ⟨?_, h1, h2, h3, h4, h5⟩
    -- discriminant: b^2 - 4 a ((b^2 - D) / (4a)) = D
    have hd : (4 * (a : Int)) * ((b * b - D) / (4 * (a : Int))) = b * b - D :=
      Int.mul_ediv_cancel' (Int.dvd_of_emod_eq_zero hm)
    simp only [Form.disc]
    linarith

/-- completeness: every reduced primitive form of discriminant `D < 0` is listed -/
theorem reducedForms_complete {D : Int} {f : Form} (h : IsReducedPrim D f) : f ∈ reducedForms D := by
  obtain ⟨hd, ha, hb, hac, hbd, hg⟩ := h
  obtain ⟨a, b, c⟩ := f
  simp only [Form.disc] at *
  -- a is a natural number
  obtain ⟨n, rfl⟩ : ∃ n : Nat, a = n := ⟨a.toNat, by omega⟩
  have hn : 0 < n := by omega
  have hb1 : -(n : Int) ≤ b ∧ b ≤ n := by omega
  have hbb : b * b ≤ (n : Int) * n := by
    rcases hb1 with ⟨h1, h2⟩
    nlinarith
  have hnc : (n : Int) * n ≤ n * c := by nlinarith
  -- 3 n^2 ≤ |D|
  have h3 : 3 * ((n : Int) * n) ≤ -D := by nlinarith
  have hDneg : D < 0 := by nlinarith
  have hDabs : ((D.natAbs : Nat) : Int) = -D := by omega
  have h3n : 3 * (n * n) ≤ D.natAbs := by
    have : ((3 * (n * n) : Nat) : Int) ≤ (D.natAbs : Int) := by rw [hDabs]; push_cast; exact h3
    exact_mod_cast this
  unfold reducedForms
  simp only [List.mem_flatMap, List.mem_range]
  refine ⟨n, ?_, ?_⟩
  · have : n ≤ Nat.sqrt (D.natAbs / 3) := by
      rw [Nat.le_sqrt, Nat.le_div_iff_mul_le (by norm_num)]
      omega
    omega
  · rw [if_neg (by omega)]
    rw [mem_formsWithA]
    have hdiv : b * b - D = 4 * (n : Int) * c := by linarith
    have h4n : (4 * (n : Int)) ≠ 0 := by omega
    refine ⟨b, hb1.1, hb1.2, ?_, ?_, ?_⟩
    · rw [hdiv]; exact Int.mul_emod_right _ _
    · rw [hdiv, Int.mul_ediv_cancel_left _ h4n]
    · rw [isReducedPrim_iff]
      exact ⟨ha, hb, hac, hbd, hg⟩

theorem reducedForms_nodup (D : Int) : (reducedForms D).Nodup := by
  unfold reducedForms
  rw [List.nodup_flatMap]
  refine ⟨?_, ?_⟩
  · intro a _
    split
    · exact List.nodup_nil
    · exact formsWithA_nodup D a
  · apply List.Nodup.pairwise_of_forall_ne List.nodup_range
    intro a _ a' _ hne
    simp only [Function.onFun]
    rw [List.disjoint_left]
    intro f hf hf'
    split at hf
    · simp at hf
    · split at hf'
      · simp at hf'
      · have h1 := formsWithA_a hf
        have h2 := formsWithA_a hf'
        rw [h1] at h2
        exact hne (by exact_mod_cast h2)

end Ymq.ClassGroup
