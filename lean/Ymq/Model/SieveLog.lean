/-
Model of the log-accumulation / threshold part of `src/sieve.rs`: the byte array `blk` exactly as
`Sieve::sieve_block` fills it, and the first half of `Sieve::smooths` (which positions are reported).

`u8` (and `u32`/`i32`) semantics are explicit, one model per build profile:
`dbg = true`  = checked profile (overflow-checks / debug assertions): an overflowing `+=` is `none` (panic);
`dbg = false` = release profile: the operation wraps (mod 256, mod 2^32).
Every other panic site (checked index, out-of-bounds `get_unchecked`, `usize` underflow) is `none` in both.

The accumulation is modelled as the list of hits `(position, log)` in the exact order of the code's `+=`
sites, applied one after the other to the zeroed block (`accumulate`).
The cursors read are those of the block being sieved: `s.loPrev` of the state AFTER `Sieve.sieveBlock`
(the code swaps `lo`/`lo_prev` first); `blk` is a public field of `Sieve`, read after `sieve_block()`.
No Mathlib import: this file is linked into the native driver.
-/
import Ymq.Model.Sieve

namespace Ymq.SieveLog
open Ymq.Sieve

/-- `*blk.get_unchecked_mut(off) += log` on one byte. -/
def addU8 (dbg : Bool) (v lg : Nat) : Option Nat :=
  if v + lg ≥ 256 then (if dbg then none else some ((v + lg) % 256)) else some (v + lg)

/-- one `+=` site: `blk[h.1] += h.2` (an index outside the block is `none`: unchecked access). -/
def hitStep (dbg : Bool) (b : Array Nat) (h : Nat × Nat) : Option (Array Nat) := do
  let v ← b[h.1]?
  let v' ← addU8 dbg v h.2
  some (b.setIfInBounds h.1 v')

/-- all `+=` of a list of hits, in order. -/
def accumulate (dbg : Bool) (blk : Array Nat) (hits : List (Nat × Nat)) : Option (Array Nat) :=
  hits.foldlM (hitStep dbg) blk

/-- the 4-at-a-time unrolled loop of one prime of the classes `log ≤ 12` (only when both cursors exist):
positions hit, and the two cursors after `off += kp`. -/
def pairShift (p off1 off2 : Nat) : Option (List Nat × Nat × Nat) :=
  if off1 ≠ NONE ∧ off2 ≠ NONE then
    if BLOCK < p + max off1 off2 then none                            -- len - p - m underflows
    else (unrolled BLOCK p off1 off2 (max off1 off2) (BLOCK + 1) 0).map fun lk =>   -- while kp < len - p - m
      (lk.1, off1 + lk.2, off2 + lk.2)
  else some ([], off1, off2)

/-- `while off < len { blk[off] += log; off += p }` unless the cursor is the marker. -/
def tailHits (p o : Nat) : Option (List Nat) :=
  if o ≠ NONE then arith p BLOCK (BLOCK + 1) o else some []

/-- positions hit by one prime of the classes `log ≤ 12` (both cursors: the unrolled loop, then the two
tail loops), in the order of the code. -/
def pairHits (p off1 off2 : Nat) : Option (List Nat) := do
  let r ← pairShift p off1 off2
  let t1 ← tailHits p r.2.1
  let t2 ← tailHits p r.2.2
  some (r.1 ++ t1 ++ t2)

/-- positions hit by one cursor of the classes 13..15. -/
def singleHits (p off : Nat) : Option (List Nat) :=
  if off = NONE then some [] else arith p BLOCK (BLOCK + 1) off

/-- hits of prime `i` of a class `lg ≤ 12`, with the byte added (`log as u8`). -/
def pairHitStep (fb : FB) (loPrev : Array Nat) (lg : Nat) (i : Nat) : Option (List (Nat × Nat)) := do
  let p ← fb.primes[i]?
  let off1 ← loPrev[2 * i]?
  let off2 ← loPrev[2 * i + 1]?
  let l ← pairHits p off1 off2
  some (l.map fun x => (x, lg % 256))

def pairHitLog (fb : FB) (idxskip : Nat) (loPrev : Array Nat) (log : Nat) : Option (List (Nat × Nat)) := do
  let a ← fb.ibl[log]?
  let iStart := max idxskip (2 * a)
  let iEnd ← if log < 15 then (fb.ibl[log + 1]?).map (2 * ·) else some loPrev.size
  let ls ← (List.range' (iStart / 2) (iEnd / 2 - iStart / 2)).mapM (pairHitStep fb loPrev log)
  some ls.flatten

/-- hits of cursor `i` of a class 13..15. -/
def singleHitStep (fb : FB) (loPrev : Array Nat) (lg : Nat) (i : Nat) : Option (List (Nat × Nat)) := do
  let p ← fb.primes[i / 2]?
  let off ← loPrev[i]?
  let l ← singleHits p off
  some (l.map fun x => (x, lg % 256))

def singleHitLog (fb : FB) (idxskip : Nat) (loPrev : Array Nat) (log : Nat) : Option (List (Nat × Nat)) := do
  let a ← fb.ibl[log]?
  let iStart := max idxskip (2 * a)
  let iEnd ← if log < 15 then (fb.ibl[log + 1]?).map (2 * ·) else some loPrev.size
  let ls ← (List.range' iStart (iEnd - iStart)).mapM (singleHitStep fb loPrev log)
  some ls.flatten

/-- hits of the primes below the block size (the skipped smallest primes, cursor index `< idxskip`, are
not accumulated at all), in the order of the code: classes 2..12, then 13..15. -/
def smallHits (fb : FB) (idxskip : Nat) (loPrev : Array Nat) : Option (List (Nat × Nat)) := do
  let h1 ← (List.range' 2 11).mapM (pairHitLog fb idxskip loPrev)
  let h2 ← (List.range' 13 3).mapM (singleHitLog fb idxskip loPrev)
  some (h1.flatten ++ h2.flatten)

/-- bucket `bidx` of table `tidx` for the current block. -/
def tableBucketHits (s : State) (bidx tidx : Nat) : Option (List (Nat × Nat)) := do
  let t ← s.tables[tidx]?
  let blen ← t.blens[s.blkNo * N_BUCKETS + bidx]?
  let es ← (List.range' (s.blkNo * N_ENTRIES + bidx * BUCKET_SIZE) blen).mapM fun e => t.entries[e]?
  some (es.map fun e => (bidx * BUCKET_WIDTH + e.1, (LARGE_LOG + tidx) % 256))

def ltableBucketHits (s : State) (bucket tidx : Nat) : Option (List (Nat × Nat)) := do
  let t ← s.ltables[tidx]?
  let es ← t.bucket (2 * s.blkNo + bucket)
  some (es.map fun e => (e.1, (VLARGE_LOG + tidx) % 256))

/-- hits read back from the bucket tables: `for bidx in 0..128 { for (tidx, t) .. for entry in bucket .. }`,
then the large tables, two buckets per block. Nothing at all when there is no `SieveTable` (early return).
Overflow slots / overflow vectors are NOT accumulated by the code. -/
def tableHits (s : State) : Option (List (Nat × Nat)) :=
  if s.tables.size = 0 then some []
  else do
    let h1 ← (List.range' 0 N_BUCKETS).mapM fun bidx => do
      let ls ← (List.range' 0 s.tables.size).mapM (tableBucketHits s bidx)
      some ls.flatten
    let h2 ← (List.range' 0 2).mapM fun bucket => do
      let ls ← (List.range' 0 s.ltables.size).mapM (ltableBucketHits s bucket)
      some ls.flatten
    some (h1.flatten ++ h2.flatten)

/-- every `+=` site of `sieve_block`, in order, for the state `s` AFTER `Sieve.sieveBlock`. -/
def allHits (fb : FB) (s : State) : Option (List (Nat × Nat)) := do
  let h1 ← smallHits fb s.idxskip s.loPrev
  let h2 ← tableHits s
  some (h1 ++ h2)

/-- the byte array `blk` after `sieve_block()`. -/
def blkOf (dbg : Bool) (fb : FB) (s : State) : Option (Array Nat) := do
  let hits ← allHits fb s
  accumulate dbg (Array.replicate BLOCK 0) hits

/-- `sieve_block()` with its byte array: the cursor model of `Sieve.sieveBlock` plus `blk`. -/
def sieveBlockLog (dbg : Bool) (fb : FB) (s : State) : Option (State × Array Nat) := do
  let s' ← sieveBlock fb s
  let blk ← blkOf dbg fb s'
  some (s', blk)

/-! ### smooths, first half: which positions are reported -/

/-- `u32::leading_zeros` -/
def lz32 (n : Nat) : Nat := 32 - bitlen (n % 2 ^ 32)

/-- a value cast `as i32` -/
def wrapI32 (n : Int) : Int := (n + 2 ^ 31) % 2 ^ 32 - 2 ^ 31

/-- result of an `i32` addition/subtraction/negation: checked or wrapping. -/
def chkI32 (dbg : Bool) (r : Int) : Option Int :=
  if -2 ^ 31 ≤ r ∧ r < 2 ^ 31 then some r else if dbg then none else some (wrapI32 r)

def absI32 (dbg : Bool) (x : Int) : Option Int := if x < 0 then chkI32 dbg (-x) else some x

/-- `skipbits()`: sum of the bit lengths of the skipped primes. -/
def skipbits (fb : FB) (idxskip : Nat) : Option Nat :=
  (List.range' 0 (idxskip / 2)).foldlM (fun acc i => do
    let p ← fb.primes[i]?
    some (acc + bitlen p)) 0

/-- "Now add missing log(p) for smallest primes": `t` after the loop over the skipped primes. -/
def addSkipped (dbg : Bool) (fb : FB) (s : State) (ij : Nat) (t : Nat) : Option Nat :=
  (List.range' 0 (s.idxskip / 2)).foldlM (fun t i => do
    let pp ← fb.primes[i]?
    let off1 ← s.loPrev[2 * i]?
    let off2 ← s.loPrev[2 * i + 1]?
    let imod := ij % pp                                              -- modu16 (C08)
    if imod = off1 ∨ imod = off2 then addU8 dbg t (bitlen pp % 256) else some t) t

/-- "Compensate for distance to root." -/
def rootComp (dbg : Bool) (s : State) (mzeros : Nat) (root : Option Nat) (ij : Nat) (t : Nat) : Option Nat :=
  match root with
  | none => some t
  | some r => do
    let a ← chkI32 dbg ((ij : Int) + wrapI32 ((s.blkNo * BLOCK : Nat) : Int))
    let x ← chkI32 dbg (a - wrapI32 ((s.nblocks * BLOCK / 2 : Nat) : Int))
    let ax ← absI32 dbg x
    let d ← chkI32 dbg (ax - wrapI32 (r : Int))
    let dist ← absI32 dbg d
    let zeros := lz32 (dist % 2 ^ 32).toNat                          -- `dist as u32`
    if zeros > mzeros then addU8 dbg t ((zeros - mzeros) % 256) else some t

/-- one byte of a chunk that passed the SIMD test: `none` inside = not reported. -/
def scanElem (dbg : Bool) (fb : FB) (s : State) (threshold threshold2 mzeros : Nat) (root : Option Nat)
    (blk : Array Nat) (ij : Nat) : Option (Option Nat) := do
  let t ← blk[ij]?
  if t ≤ threshold2 then some none
  else do
    let t ← addSkipped dbg fb s ij t
    let t ← rootComp dbg s mzeros root ij t
    some (if t ≥ threshold then some ij else none)

/-- one 16-byte chunk: skipped unless some byte exceeds `thr = threshold2 - 1`. -/
def scanChunk (dbg : Bool) (fb : FB) (s : State) (threshold threshold2 thr mzeros : Nat) (root : Option Nat)
    (blk : Array Nat) (c : Nat) : Option (List Nat) := do
  let bytes ← (List.range' (16 * c) 16).mapM fun i => blk[i]?
  if bytes.any (fun b => b > thr) then do
    let r ← (List.range' (16 * c) 16).mapM (scanElem dbg fb s threshold threshold2 mzeros root blk)
    some (r.filterMap id)
  else some []

/-- a `u32` product: checked or wrapping. -/
def mulU32 (dbg : Bool) (m : Nat) : Option Nat :=
  if m ≥ 2 ^ 32 then (if dbg then none else some (m % 2 ^ 32)) else some m

/-- `threshold2 - 1` in `u8`: checked or wrapping. -/
def thrOf (dbg : Bool) (threshold2 : Nat) : Option Nat :=
  if threshold2 = 0 then (if dbg then none else some 255) else some (threshold2 - 1)

/-- the list `res` of reported positions (`threshold : u8`, `root : Option<u32>`). -/
def reportScan (dbg : Bool) (fb : FB) (s : State) (blk : Array Nat) (threshold : Nat) (root : Option Nat) :
    Option (List Nat) := do
  let sb ← skipbits fb s.idxskip
  let threshold2 := threshold - (min (sb + (if root.isSome then 15 else 0)) (threshold / 2)) % 256
  let m ← mulU32 dbg ((s.nblocks % 2 ^ 32) * BLOCK)                  -- nblocks as u32 * BLOCK_SIZE as u32
  let thr ← thrOf dbg threshold2
  let rs ← (List.range' 0 (BLOCK / 16)).mapM
    (scanChunk dbg fb s threshold threshold2 thr (lz32 (m / 2)) root blk)
  some rs.flatten

/-- `smooths(threshold, root, polyroots)`: reported positions and their factor lists. -/
def smooths (dbg : Bool) (fb : FB) (s : State) (blk : Array Nat) (threshold : Nat) (root : Option Nat)
    (r1 r2 : Array Nat) : Option (List Nat × List (List Nat)) := do
  let res ← reportScan dbg fb s blk threshold root
  let facs ← factorsAt fb s r1 r2 res
  some (res, facs)

end Ymq.SieveLog
