/-
The explicit-stack model of `walk_doubles` (Ymq/Model/RelationsWalk.lean, the code since fix
e402536) against the recursive model (Ymq/Model/Relations.lean): `combine_double` is
`combine_double_step` followed by the requested walk; every non-fuel result of the stack loop is
the result of the recursive walk (`walkStack_imp_rec`).
-/
import Ymq.Lemmas.RelationsNoPanic
import Ymq.Model.RelationsWalk

namespace Ymq.Relations

/-! ### `combine_double` = `combine_double_step` + the requested walk -/

/-- continuation of `combine_double` after `combine_double_step` -/
def afterStep (walk : Nat → Store → M Store) (res : Bool × Option Nat × Store) : M (Bool × Store) :=
  match res.2.1 with
  | some x => do
    let s1 ← walk x res.2.2
    pure (res.1, s1)
  | none => pure (res.1, res.2.2)

theorem bind_assoc' {α β γ : Type} (x : M α) (f : α → M β) (g : β → M γ) :
    (x >>= f) >>= g = x >>= fun a => f a >>= g := by
  cases x <;> rfl

theorem error_bind {α β : Type} (e : Err) (f : α → M β) : ((.error e : M α) >>= f) = .error e := rfl

theorem throw_bind {α β : Type} (e : Err) (f : α → M β) : ((throw e : M α) >>= f) = throw e := rfl

theorem pure_bind' {α β : Type} (a : α) (f : α → M β) : ((pure a : M α) >>= f) = f a := rfl

theorem bind_congr' {α β : Type} (x : M α) {f g : α → M β} (h : ∀ a, f a = g a) :
    (x >>= f) = (x >>= g) := by
  cases x with
  | error e => rfl
  | ok a => exact h a

theorem combineDouble_eq_step (walk : Nat → Store → M Store) (r : Relation) (p q : Nat) (s : Store) :
    combineDouble walk r p q s = combineDoubleStep r p q s >>= afterStep walk := by
  unfold combineDouble combineDoubleStep
  by_cases hpq : p = q
  · rw [if_pos hpq, if_pos hpq, bind_assoc']; exact bind_congr' _ (fun _ => rfl)
  · rw [if_neg hpq, if_neg hpq]
    cases alookup p s.partials with
    | none =>
      cases alookup q s.partials with
      | none => rfl
      | some bq =>
        simp only [bind_assoc']
        refine bind_congr' _ (fun rq => bind_congr' _ (fun rp => ?_))
        split
        · rfl
        · rw [bind_assoc']; exact bind_congr' _ (fun _ => rfl)
    | some bp =>
      cases alookup q s.partials with
      | none =>
        simp only [bind_assoc']
        refine bind_congr' _ (fun rp => bind_congr' _ (fun rq => ?_))
        split
        · rfl
        · rw [bind_assoc']; exact bind_congr' _ (fun _ => rfl)
      | some bq =>
        simp only [bind_assoc']
        refine bind_congr' _ (fun rp => bind_congr' _ (fun rq => bind_congr' _ (fun r1 =>
          bind_congr' _ (fun r2 => bind_congr' _ (fun s1 => ?_)))))
        split
        · rw [bind_assoc']
          refine bind_congr' _ (fun rpq => ?_)
          split
          · rfl
          · rw [bind_assoc']; exact bind_congr' _ (fun _ => rfl)
        · split
          · rw [bind_assoc']
            refine bind_congr' _ (fun rqp => ?_)
            split
            · rfl
            · rw [bind_assoc']; exact bind_congr' _ (fun _ => rfl)
          · rfl

/-- continuation of a removal step of the recursive walk after `removeStep` -/
def afterRemove (walk : Nat → Store → M Store) (res : StepRes × Store) : M Store :=
  match res.1 with
  | .next (some x) => walk x res.2
  | _ => pure res.2

/-- `combine_double_step` requests a walk only together with `ok = true` -/
theorem combineDoubleStep_false {r : Relation} {p q : Nat} {s : Store} {res : Bool × Option Nat × Store}
    (h : combineDoubleStep r p q s = .ok res) (hf : res.1 = false) : res.2.1 = none := by
  unfold combineDoubleStep at h
  split at h
  · simp only [bind_eq_ok, pure_eq_ok] at h
    obtain ⟨_, _, h⟩ := h
    rw [← h] at hf; cases hf
  · split at h
    · simp only [bind_eq_ok] at h
      obtain ⟨rp, _, rq, _, r1, _, r2, _, s1, _, h⟩ := h
      split at h
      · simp only [bind_eq_ok] at h
        obtain ⟨rpq, _, h⟩ := h
        split at h
        · simp [throw_ne_ok] at h
        · simp only [bind_eq_ok, pure_eq_ok] at h
          obtain ⟨_, _, h⟩ := h
          rw [← h] at hf; cases hf
      · split at h
        · simp only [bind_eq_ok] at h
          obtain ⟨rqp, _, h⟩ := h
          split at h
          · simp [throw_ne_ok] at h
          · simp only [bind_eq_ok, pure_eq_ok] at h
            obtain ⟨_, _, h⟩ := h
            rw [← h] at hf; cases hf
        · simp only [pure_eq_ok] at h
          rw [← h] at hf; cases hf
    · simp only [bind_eq_ok] at h
      obtain ⟨rp, _, rq, _, h⟩ := h
      split at h
      · simp [throw_ne_ok] at h
      · simp only [bind_eq_ok, pure_eq_ok] at h
        obtain ⟨_, _, h⟩ := h
        rw [← h] at hf; cases hf
    · simp only [bind_eq_ok] at h
      obtain ⟨rq, _, rp, _, h⟩ := h
      split at h
      · simp [throw_ne_ok] at h
      · simp only [bind_eq_ok, pure_eq_ok] at h
        obtain ⟨_, _, h⟩ := h
        rw [← h] at hf; cases hf
    · simp only [pure_eq_ok] at h
      rw [← h]

theorem walkStep_eq_remove (walk : Nat → Store → M Store) (p q : Nat) (s : Store) :
    walkStep walk p q s = removeStep p q s >>= afterRemove walk := by
  unfold walkStep removeStep
  cases alookup (p, q) s.doubles with
  | none => rfl
  | some blob =>
    simp only [bind_assoc']
    refine bind_congr' _ (fun r => ?_)
    rw [combineDouble_eq_step, bind_assoc']
    cases hstep : combineDoubleStep r p q
        { s with doubles := aerase (p, q) s.doubles, doublesRev := serase (q, p) s.doublesRev } with
    | error e => rfl
    | ok res =>
      have hfalse := combineDoubleStep_false hstep
      obtain ⟨ok, nx, s1⟩ := res
      simp only [ok_bind]
      cases ok with
      | false =>
        have : nx = none := hfalse rfl
        subst this
        rfl
      | true =>
        cases nx with
        | none => rfl
        | some x =>
          simp only [afterStep]
          cases hw : walk x s1 with
          | error e => simp [afterRemove, hw, bind, Except.bind, pure, Except.pure]
          | ok s2 => simp [afterRemove, hw, bind, Except.bind, pure, Except.pure]

/-! ### the actions of a frame -/

/-- one step of a call of the recursive `walk_doubles`: a removal (`walkStep`) or a trailing walk -/
inductive Act
  | rem (p q : Nat)
  | go (a b : Nat)

def actsOf (fr : WalkFrame) : List Act :=
  fr.pqs.map (fun k => Act.rem k.1 k.2) ++ (fr.qps.map (fun k => Act.rem k.2 k.1) ++
    (fr.pqs.map (fun k => Act.go k.1 k.2) ++ fr.qps.map (fun k => Act.go k.1 k.2)))

def runActs (walk : Nat → Store → M Store) (root : Nat) : List Act → Store → M Store
  | [], s => pure s
  | .rem p q :: t, s => walkStep walk p q s >>= runActs walk root t
  | .go a b :: t, s => if a ≠ root then throw .panic else walk b s >>= runActs walk root t

theorem runActs_append (walk : Nat → Store → M Store) (root : Nat) :
    ∀ (a b : List Act) (s : Store),
      runActs walk root (a ++ b) s = runActs walk root a s >>= runActs walk root b := by
  intro a
  induction a with
  | nil => intro b s; rfl
  | cons x t ih =>
    intro b s
    cases x with
    | rem p q =>
      simp only [List.cons_append, runActs, bind_assoc']
      exact bind_congr' _ (fun s1 => ih b s1)
    | go a' b' =>
      simp only [List.cons_append, runActs]
      split
      · rfl
      · rw [bind_assoc']; exact bind_congr' _ (fun s1 => ih b s1)

theorem walkLoop1_acts (walk : Nat → Store → M Store) (root : Nat) : ∀ (l : List (Nat × Nat)) (s : Store),
    walkLoop1 walk l s = runActs walk root (l.map (fun k => Act.rem k.1 k.2)) s := by
  intro l
  induction l with
  | nil => intro s; rfl
  | cons k t ih =>
    obtain ⟨p, q⟩ := k
    intro s
    simp only [walkLoop1, List.map_cons, runActs]
    exact bind_congr' _ (fun s1 => ih s1)

theorem walkLoop2_acts (walk : Nat → Store → M Store) (root : Nat) : ∀ (l : List (Nat × Nat)) (s : Store),
    walkLoop2 walk l s = runActs walk root (l.map (fun k => Act.rem k.2 k.1)) s := by
  intro l
  induction l with
  | nil => intro s; rfl
  | cons k t ih =>
    obtain ⟨q, p⟩ := k
    intro s
    simp only [walkLoop2, List.map_cons, runActs]
    exact bind_congr' _ (fun s1 => ih s1)

theorem walkRec_acts (walk : Nat → Store → M Store) (root : Nat) : ∀ (l : List (Nat × Nat)) (s : Store),
    walkRec walk root l s = runActs walk root (l.map (fun k => Act.go k.1 k.2)) s := by
  intro l
  induction l with
  | nil => intro s; rfl
  | cons k t ih =>
    obtain ⟨a, b⟩ := k
    intro s
    simp only [walkRec, List.map_cons, runActs]
    split
    · rfl
    · exact bind_congr' _ (fun s1 => ih s1)

/-- the frame `walk_frame(root)` builds in the store `s` -/
def frame0 (root : Nat) (s : Store) : WalkFrame :=
  { root := root, pqs := pqsOf s root, qps := qpsOf s root, pos := 0 }

theorem walkFrame_eq (root : Nat) (s : Store) :
    walkFrame root s = if root + 1 ≥ W32 then throw .panic else pure (frame0 root s) := rfl

/-- a call of the recursive walk = the actions of its frame -/
theorem walkDoubles_acts (f root : Nat) (s : Store) :
    walkDoubles (f + 1) root s =
      if root + 1 ≥ W32 then throw .panic
      else runActs (walkDoubles f) root (actsOf (frame0 root s)) s := by
  rw [walkDoubles_unfold]
  split
  · rfl
  · unfold actsOf frame0
    simp only
    rw [runActs_append, ← walkLoop1_acts]
    refine bind_congr' _ (fun s1 => ?_)
    rw [runActs_append, ← walkLoop2_acts]
    refine bind_congr' _ (fun s2 => ?_)
    rw [runActs_append, ← walkRec_acts]
    refine bind_congr' _ (fun s3 => ?_)
    rw [← walkRec_acts]

/-! ### one iteration of the loop = the action at `pos` -/

theorem frameStep_acts (fr : WalkFrame) (s : Store) :
    frameStep fr s =
      match (actsOf fr)[fr.pos]? with
      | none => pure (.pop, s)
      | some (.rem p q) => removeStep p q s
      | some (.go a b) => if a ≠ fr.root then throw .panic else pure (.next (some b), s) := by
  unfold frameStep actsOf
  simp only
  by_cases h1 : fr.pos < fr.pqs.length
  · rw [if_pos h1, List.getElem?_append_left (by simpa using h1), List.getElem?_map]
    rw [List.getElem?_eq_getElem h1]
    rfl
  · rw [if_neg h1, List.getElem?_append_right (by simpa using h1)]
    simp only [List.length_map]
    by_cases h2 : fr.pos < fr.pqs.length + fr.qps.length
    · rw [if_pos h2, List.getElem?_append_left (by simp; omega), List.getElem?_map]
      rw [List.getElem?_eq_getElem (by omega)]
      rfl
    · rw [if_neg h2, List.getElem?_append_right (by simp; omega)]
      simp only [List.length_map]
      by_cases h3 : fr.pos < 2 * fr.pqs.length + fr.qps.length
      · rw [if_pos h3, List.getElem?_append_left (by simp; omega), List.getElem?_map]
        rw [show fr.pos - fr.pqs.length - fr.qps.length = fr.pos - fr.pqs.length - fr.qps.length from rfl]
        rw [List.getElem?_eq_getElem (by omega)]
        rfl
      · rw [if_neg h3, List.getElem?_append_right (by simp; omega)]
        simp only [List.length_map]
        by_cases h4 : fr.pos < 2 * fr.pqs.length + 2 * fr.qps.length
        · rw [if_pos h4, List.getElem?_map]
          rw [show fr.pos - fr.pqs.length - fr.qps.length - fr.pqs.length =
            fr.pos - 2 * fr.pqs.length - fr.qps.length by omega]
          rw [List.getElem?_eq_getElem (by omega)]
          rfl
        · rw [if_neg h4, List.getElem?_map, List.getElem?_eq_none (by omega)]
          rfl

/-! ### more fuel does not change a result that is not "out of fuel" -/

/-- `w'` returns whatever `w` returns, except possibly where `w` runs out of fuel -/
def Refines (w w' : Nat → Store → M Store) : Prop :=
  ∀ x s R, w x s = R → R ≠ .error .fuel → w' x s = R

theorem bind_refine {α β : Type} {x : M α} {f f' : α → M β} {R : M β}
    (hf : ∀ a R, f a = R → R ≠ .error .fuel → f' a = R) (h : (x >>= f) = R)
    (hR : R ≠ .error .fuel) : (x >>= f') = R := by
  cases x with
  | error e => exact h
  | ok a => exact hf a R h hR

theorem afterRemove_refine {w w' : Nat → Store → M Store} (hw : Refines w w')
    (res : StepRes × Store) (R : M Store) (h : afterRemove w res = R) (hR : R ≠ .error .fuel) :
    afterRemove w' res = R := by
  obtain ⟨r, s⟩ := res
  cases r with
  | pop => exact h
  | next x =>
    cases x with
    | none => exact h
    | some y => exact hw y s R h hR

theorem runActs_refine {w w' : Nat → Store → M Store} (hw : Refines w w') (root : Nat) :
    ∀ (l : List Act) (s : Store) (R : M Store), runActs w root l s = R → R ≠ .error .fuel →
      runActs w' root l s = R := by
  intro l
  induction l with
  | nil => intro s R h _; exact h
  | cons a t ih =>
    intro s R h hR
    cases a with
    | rem p q =>
      simp only [runActs, walkStep_eq_remove, bind_assoc'] at h ⊢
      refine bind_refine (fun res R' h' hR' => ?_) h hR
      cases hres : afterRemove w res with
      | error e =>
        rw [hres] at h'
        have : afterRemove w' res = .error e :=
          afterRemove_refine hw res _ hres (by rw [← h'] at hR'; exact hR')
        rw [this]; exact h'
      | ok s1 =>
        rw [hres] at h'
        rw [afterRemove_refine hw res _ hres (by intro hc; cases hc)]
        exact ih s1 R' h' hR'
    | go a' b' =>
      simp only [runActs] at h ⊢
      split
      · rename_i hne; rw [if_pos hne] at h; exact h
      · rename_i hne
        rw [if_neg hne] at h
        cases hres : w b' s with
        | error e =>
          rw [hres] at h
          rw [hw b' s _ hres (by rw [← h] at hR; exact hR)]
          exact h
        | ok s1 =>
          rw [hres] at h
          rw [hw b' s _ hres (by intro hc; cases hc)]
          exact ih s1 R h hR

theorem walkDoubles_fuel_succ : ∀ (f : Nat), Refines (walkDoubles f) (walkDoubles (f + 1)) := by
  intro f
  induction f with
  | zero =>
    intro x s R h hR
    simp only [walkDoubles] at h
    exact absurd h.symm hR
  | succ f ih =>
    intro x s R h hR
    rw [walkDoubles_acts] at h ⊢
    split
    · rename_i hc; rw [if_pos hc] at h; exact h
    · rename_i hc
      rw [if_neg hc] at h
      exact runActs_refine ih x _ s R h hR

theorem walkDoubles_fuel_le {f f' : Nat} (hle : f ≤ f') : Refines (walkDoubles f) (walkDoubles f') := by
  induction hle with
  | refl => intro x s R h _; exact h
  | step _ ih =>
    intro x s R h hR
    exact walkDoubles_fuel_succ _ x s R (ih x s R h hR) hR

/-! ### the stack loop computes the recursive walk -/

theorem removeStep_not_pop {p q : Nat} {s : Store} {res : StepRes × Store}
    (h : removeStep p q s = .ok res) : res.1 ≠ .pop := by
  unfold removeStep at h
  split at h
  · simp only [pure_eq_ok] at h
    rw [← h]; intro hc; cases hc
  · simp only [bind_eq_ok] at h
    obtain ⟨r, _, res', _, h⟩ := h
    split at h
    · simp only [pure_eq_ok] at h
      rw [← h]; intro hc; cases hc
    · simp [throw_ne_ok] at h

/-- recursive reading of a stack of frames: finish the top frame, then the ones below -/
def runStack (walk : Nat → Store → M Store) : List WalkFrame → Store → M Store
  | [], s => pure s
  | fr :: rest, s => runActs walk fr.root ((actsOf fr).drop fr.pos) s >>= runStack walk rest

theorem runStack_refine {w w' : Nat → Store → M Store} (hw : Refines w w') :
    ∀ (st : List WalkFrame) (s : Store) (R : M Store), runStack w st s = R → R ≠ .error .fuel →
      runStack w' st s = R := by
  intro st
  induction st with
  | nil => intro s R h _; exact h
  | cons fr rest ih =>
    intro s R h hR
    simp only [runStack] at h ⊢
    cases hres : runActs w fr.root ((actsOf fr).drop fr.pos) s with
    | error e =>
      rw [hres] at h
      rw [runActs_refine hw _ _ _ _ hres (by rw [← h] at hR; exact hR)]
      exact h
    | ok s1 =>
      rw [hres] at h
      rw [runActs_refine hw _ _ _ _ hres (by intro hc; cases hc)]
      exact ih s1 R h hR

theorem actsOf_pos (fr : WalkFrame) : actsOf { fr with pos := fr.pos + 1 } = actsOf fr := rfl

theorem drop_of_getElem? {α : Type} {l : List α} {i : Nat} {a : α} (h : l[i]? = some a) :
    l.drop i = a :: l.drop (i + 1) := by
  induction l generalizing i with
  | nil => simp at h
  | cons x t ih =>
    cases i with
    | zero => simp at h; subst h; rfl
    | succ j => simp at h; simpa using ih h

theorem walkIter_succ (k : Nat) (top : WalkFrame) (rest : List WalkFrame) (s : Store) :
    walkIter (k + 1) (top :: rest) s = frameStep top s >>= fun r =>
      match r.1 with
      | .pop => walkIter k rest r.2
      | .next none => walkIter k ({ top with pos := top.pos + 1 } :: rest) r.2
      | .next (some x) => walkFrame x r.2 >>= fun f =>
          walkIter k (f :: { top with pos := top.pos + 1 } :: rest) r.2 := rfl

/-- Every result of the stack loop other than "out of fuel" is the result of the recursive reading
of the stack with nested walks of recursion fuel `k` (= the iteration fuel). -/
theorem walkIter_imp_runStack : ∀ (k : Nat) (st : List WalkFrame) (s : Store) (R : M Store),
    walkIter k st s = R → R ≠ .error .fuel → runStack (walkDoubles k) st s = R := by
  intro k
  induction k with
  | zero =>
    intro st s R h hR
    cases st with
    | nil => exact h
    | cons top rest => simp only [walkIter] at h; exact absurd h.symm hR
  | succ k ih =>
    intro st s R h hR
    cases st with
    | nil => exact h
    | cons top rest =>
      have hw := walkDoubles_fuel_succ k
      -- lifting the induction hypothesis to nested walks of fuel k + 1
      have ih' : ∀ st s R, walkIter k st s = R → R ≠ .error .fuel →
          runStack (walkDoubles (k + 1)) st s = R :=
        fun st s R h hR => runStack_refine hw st s R (ih st s R h hR) hR
      rw [walkIter_succ, frameStep_acts] at h
      simp only [runStack]
      have htop' : ∀ s1, runStack (walkDoubles (k + 1)) ({ top with pos := top.pos + 1 } :: rest) s1 =
          runActs (walkDoubles (k + 1)) top.root ((actsOf top).drop (top.pos + 1)) s1 >>=
            runStack (walkDoubles (k + 1)) rest := fun _ => rfl
      -- pushing the frame of `x` = calling the recursive walk on `x`
      have hpush : ∀ (x : Nat) (s1 : Store) (R : M Store),
          (walkFrame x s1 >>= fun f => walkIter k (f :: { top with pos := top.pos + 1 } :: rest) s1) = R →
          R ≠ .error .fuel →
          (walkDoubles (k + 1) x s1 >>=
            runStack (walkDoubles (k + 1)) ({ top with pos := top.pos + 1 } :: rest)) = R := by
        intro x s1 R h hR
        rw [walkFrame_eq] at h
        rw [walkDoubles_acts]
        split
        · rename_i hc; rw [if_pos hc] at h; exact h
        · rename_i hc
          rw [if_neg hc] at h
          have h1 := ih _ _ _ h hR
          simp only [runStack, frame0, List.drop_zero] at h1
          -- h1 : runActs (wd k) x acts s1 >>= runStack (wd k) (top' :: rest) = R
          exact bind_refine (fun s2 R' h' hR' => runStack_refine hw _ s2 R' h' hR') h1 hR
      cases hact : (actsOf top)[top.pos]? with
      | none =>
        rw [hact] at h
        have hlen : (actsOf top).length ≤ top.pos := by
          rcases List.getElem?_eq_none_iff.mp hact with h'; exact h'
        rw [List.drop_eq_nil_of_le hlen]
        exact ih' rest s R h hR
      | some a =>
        rw [hact] at h
        rw [drop_of_getElem? hact]
        cases a with
        | rem p q =>
          simp only [runActs, walkStep_eq_remove, bind_assoc']
          simp only at h
          cases hrs : removeStep p q s with
          | error e => rw [hrs] at h; exact h
          | ok res =>
            rw [hrs] at h
            simp only [ok_bind] at h ⊢
            have hnp := removeStep_not_pop hrs
            obtain ⟨r, s1⟩ := res
            cases r with
            | pop => exact absurd rfl hnp
            | next nx =>
              cases nx with
              | none =>
                simp only [afterRemove] at h ⊢
                simp only [pure_bind']
                rw [← htop']
                exact ih' _ s1 R h hR
              | some x =>
                simp only [afterRemove] at h ⊢
                rw [show (fun s2 => runActs (walkDoubles (k + 1)) top.root ((actsOf top).drop (top.pos + 1)) s2 >>=
                  runStack (walkDoubles (k + 1)) rest) =
                  runStack (walkDoubles (k + 1)) ({ top with pos := top.pos + 1 } :: rest) from rfl]
                exact hpush x s1 R h hR
        | go a' b' =>
          simp only [runActs]
          simp only at h
          split
          · rename_i hne; rw [if_pos hne] at h; exact h
          · rename_i hne
            rw [if_neg hne] at h
            simp only [pure_bind'] at h
            rw [bind_assoc']
            exact hpush b' s R h hR

/-! ### the recursive walk is computed by the stack loop (given enough iterations) -/

/-- the stack loop started on the frame of `x` computes `w x`, in `c` iterations -/
def PushSim (w : Nat → Store → M Store) : Prop :=
  ∀ (x : Nat) (s : Store), w x s ≠ .error .fuel → ∃ c, ∀ (m : Nat) (below : List WalkFrame),
    (walkFrame x s >>= fun fr => walkIter (c + m) (fr :: below) s) = w x s >>= walkIter m below

theorem frame_sim {w : Nat → Store → M Store} (hw : PushSim w) (fr : WalkFrame) :
    ∀ (n pos : Nat) (s : Store), (actsOf fr).length - pos = n →
      runActs w fr.root ((actsOf fr).drop pos) s ≠ .error .fuel →
      ∃ c, ∀ (m : Nat) (rest : List WalkFrame),
        walkIter (c + m) ({ fr with pos := pos } :: rest) s =
          runActs w fr.root ((actsOf fr).drop pos) s >>= walkIter m rest := by
  intro n
  induction n with
  | zero =>
    intro pos s hn _
    refine ⟨1, fun m rest => ?_⟩
    have hnone : (actsOf fr)[pos]? = none := List.getElem?_eq_none (by omega)
    rw [show 1 + m = m + 1 by omega, walkIter_succ, frameStep_acts]
    simp only [actsOf_pos]
    rw [show (actsOf { fr with pos := pos }) = actsOf fr from rfl, hnone,
      List.drop_eq_nil_of_le (by omega)]
    rfl
  | succ n ih =>
    intro pos s hn hR
    have hlt : pos < (actsOf fr).length := by omega
    obtain ⟨a, ha⟩ : ∃ a, (actsOf fr)[pos]? = some a := ⟨_, List.getElem?_eq_getElem hlt⟩
    rw [drop_of_getElem? ha] at hR ⊢
    have hstep : ∀ (k : Nat) (rest : List WalkFrame),
        walkIter (k + 1) ({ fr with pos := pos } :: rest) s =
          (match some a with
            | none => pure (.pop, s)
            | some (.rem p q) => removeStep p q s
            | some (.go a b) => if a ≠ fr.root then throw .panic else pure (.next (some b), s)) >>= fun r =>
          match r.1 with
          | .pop => walkIter k rest r.2
          | .next none => walkIter k ({ fr with pos := pos + 1 } :: rest) r.2
          | .next (some x) => walkFrame x r.2 >>= fun f =>
              walkIter k (f :: { fr with pos := pos + 1 } :: rest) r.2 := by
      intro k rest
      rw [walkIter_succ, frameStep_acts, show (actsOf { fr with pos := pos }) = actsOf fr from rfl]
      simp only
      rw [ha]
    -- continuing with the frame at pos + 1 from a store s1
    have hcont : ∀ s1, runActs w fr.root ((actsOf fr).drop (pos + 1)) s1 ≠ .error .fuel →
        ∃ c, ∀ (m : Nat) (rest : List WalkFrame),
          walkIter (c + m) ({ fr with pos := pos + 1 } :: rest) s1 =
            runActs w fr.root ((actsOf fr).drop (pos + 1)) s1 >>= walkIter m rest :=
      fun s1 h => ih (pos + 1) s1 (by omega) h
    -- a requested walk from x in the store s1, then the rest of the frame
    have hwalk : ∀ (x : Nat) (s1 : Store),
        (w x s1 >>= runActs w fr.root ((actsOf fr).drop (pos + 1))) ≠ .error .fuel →
        ∃ c, ∀ (m : Nat) (rest : List WalkFrame),
          (walkFrame x s1 >>= fun f => walkIter (c + m) (f :: { fr with pos := pos + 1 } :: rest) s1) =
            (w x s1 >>= runActs w fr.root ((actsOf fr).drop (pos + 1))) >>= walkIter m rest := by
      intro x s1 hne
      cases hW : w x s1 with
      | error e =>
        have hWne : w x s1 ≠ .error .fuel := by
          intro hc; rw [hc] at hne; exact hne rfl
        obtain ⟨c2, h2⟩ := hw x s1 hWne
        refine ⟨c2, fun m rest => ?_⟩
        rw [h2 m _, hW]; rfl
      | ok s2 =>
        have hWne : w x s1 ≠ .error .fuel := by rw [hW]; intro hc; cases hc
        obtain ⟨c2, h2⟩ := hw x s1 hWne
        rw [hW] at hne
        obtain ⟨c1, h1⟩ := hcont s2 hne
        refine ⟨c2 + c1, fun m rest => ?_⟩
        rw [show c2 + c1 + m = c2 + (c1 + m) by omega, h2 (c1 + m) _, hW]
        simp only [ok_bind]
        exact h1 m rest
    cases a with
    | rem p q =>
      simp only [runActs, walkStep_eq_remove, bind_assoc'] at hR ⊢
      cases hrs : removeStep p q s with
      | error e =>
        refine ⟨1, fun m rest => ?_⟩
        rw [show 1 + m = m + 1 by omega, hstep]
        simp only [hrs]; rfl
      | ok res =>
        rw [hrs] at hR
        simp only [ok_bind] at hR
        have hnp := removeStep_not_pop hrs
        obtain ⟨r, s1⟩ := res
        cases r with
        | pop => exact absurd rfl hnp
        | next nx =>
          cases nx with
          | none =>
            simp only [afterRemove, pure_bind'] at hR
            obtain ⟨c1, h1⟩ := hcont s1 hR
            refine ⟨c1 + 1, fun m rest => ?_⟩
            rw [show c1 + 1 + m = (c1 + m) + 1 by omega, hstep]
            simp only [hrs, ok_bind, afterRemove, pure_bind']
            exact h1 m rest
          | some x =>
            simp only [afterRemove] at hR
            obtain ⟨c, hc⟩ := hwalk x s1 hR
            refine ⟨c + 1, fun m rest => ?_⟩
            rw [show c + 1 + m = (c + m) + 1 by omega, hstep]
            simp only [hrs, ok_bind, afterRemove]
            rw [hc m rest, bind_assoc']
    | go a' b' =>
      simp only [runActs] at hR ⊢
      by_cases hne : a' ≠ fr.root
      · refine ⟨1, fun m rest => ?_⟩
        rw [show 1 + m = m + 1 by omega, hstep]
        simp only [if_pos hne]; rfl
      · rw [if_neg hne] at hR ⊢
        obtain ⟨c, hc⟩ := hwalk b' s hR
        refine ⟨c + 1, fun m rest => ?_⟩
        rw [show c + 1 + m = (c + m) + 1 by omega, hstep]
        simp only [if_neg hne, pure_bind']
        rw [hc m rest, bind_assoc']

theorem pushSim_walkDoubles : ∀ (f : Nat), PushSim (walkDoubles f) := by
  intro f
  induction f with
  | zero => intro x s h; simp only [walkDoubles] at h; exact absurd rfl h
  | succ f ih =>
    intro x s hne
    rw [walkDoubles_acts] at hne ⊢
    rw [walkFrame_eq]
    by_cases hc : x + 1 ≥ W32
    · rw [if_pos hc]
      exact ⟨0, fun m below => by rw [if_pos hc]; rfl⟩
    · rw [if_neg hc] at hne ⊢
      have hdrop : (actsOf (frame0 x s)).drop 0 = actsOf (frame0 x s) := List.drop_zero
      obtain ⟨c, h⟩ := frame_sim ih (frame0 x s) _ 0 s rfl (by rw [hdrop]; exact hne)
      refine ⟨c, fun m below => ?_⟩
      rw [if_neg hc]
      simp only [pure_bind']
      have := h m below
      rw [hdrop] at this
      exact this

end Ymq.Relations
