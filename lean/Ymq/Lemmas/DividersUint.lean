import Ymq.Lemmas.Dividers
import Ymq.Lemmas.Limbs

namespace Ymq.Dividers
open Ymq.Limbs (W val Wf ofNat)

/-! ### mod_uint -/

theorem val_reverse_cons (w : Nat) (ws : List Nat) :
    val (w :: ws).reverse = val ws.reverse + W ^ ws.length * w := by
  rw [List.reverse_cons, Limbs.val_append]
  simp

theorem modUintLoop_ok (d : Div) (h : Ok d) : ∀ (ws : List Nat) (pol : Nat), pol < W → Wf ws →
    ∃ r, modUintLoop d pol ws = some r ∧ r < W ∧
      r % d.p = (pol * W ^ ws.length + val ws.reverse) % d.p := by
  intro ws
  induction ws with
  | nil =>
    intro pol hp _
    exact ⟨pol, rfl, hp, by simp⟩
  | cons w ws ih =>
    intro pol hp hw
    obtain ⟨hw1, hw2⟩ := Limbs.Wf_cons.1 hw
    unfold modUintLoop
    rw [val_reverse_cons]
    by_cases h0 : pol = 0
    · rw [if_pos h0]
      obtain ⟨r, hr1, hr2, hr3⟩ := ih w hw1 hw2
      refine ⟨r, hr1, hr2, ?_⟩
      rw [hr3, h0]
      congr 1
      simp only [List.length_cons]; ring
    · rw [if_neg h0]
      obtain ⟨res, hf1, hf2, hf3⟩ := fold64_ok d h pol w hp hw1
      rw [hf1]
      simp only []
      obtain ⟨r, hr1, hr2, hr3⟩ := ih res hf2 hw2
      refine ⟨r, hr1, hr2, ?_⟩
      rw [hr3]
      have hm : res ≡ pol * W + w [MOD d.p] := hf3
      have : res * W ^ ws.length + val ws.reverse ≡ (pol * W + w) * W ^ ws.length + val ws.reverse [MOD d.p] :=
        Nat.ModEq.add_right _ (Nat.ModEq.mul_right _ hm)
      rw [this]
      congr 1
      simp only [List.length_cons]; ring

theorem W_even : 2 ∣ W := by decide

theorem modUint_ok (d : Div) (h : Ok d) (ds : List Nat) (hne : ds ≠ []) (hw : Wf ds) :
    modUint d ds = some (val ds % d.p) := by
  unfold modUint
  have hrev : ds.reverse ≠ [] := by simpa using hne
  cases hr : ds.reverse with
  | nil => exact absurd hr hrev
  | cons top rest =>
    simp only []
    have hds : ds = (top :: rest).reverse := by rw [← hr, List.reverse_reverse]
    have hwr : Wf (top :: rest) := by rw [← hr]; exact Limbs.Wf_reverse.2 hw
    obtain ⟨ht, hrest⟩ := Limbs.Wf_cons.1 hwr
    by_cases hp2 : d.p = 2
    · rw [if_pos hp2, hp2, Limbs.headD_mod ds hw hne, Nat.mod_mod_of_dvd _ W_even]
    · rw [if_neg hp2]
      obtain ⟨r, hr1, hr2, hr3⟩ := modUintLoop_ok d h rest top ht hrest
      rw [hr1]
      simp only []
      rw [divmod64_ok d h r (by rw [W_eq] at hr2; exact hr2)]
      simp only [Option.map_some]
      rw [hr3, hds, val_reverse_cons]
      congr 2; ring

/-! ### divmod_uint -/

/-- schoolbook long division by `p`, most significant digit first -/
def longDiv (p : Nat) : Nat → List Nat → List Nat × Nat
  | c, [] => ([], c)
  | c, dg :: rest =>
    ((c * W + dg) / p :: (longDiv p ((c * W + dg) % p) rest).1, (longDiv p ((c * W + dg) % p) rest).2)

theorem longDiv_spec (p : Nat) (hp : 0 < p) : ∀ (ds : List Nat) (c : Nat), c < p → Wf ds →
    (longDiv p c ds).1.length = ds.length ∧ Wf (longDiv p c ds).1 ∧ (longDiv p c ds).2 < p ∧
    val (longDiv p c ds).1.reverse * p + (longDiv p c ds).2 = c * W ^ ds.length + val ds.reverse := by
  intro ds
  induction ds with
  | nil => intro c hc _; simp [longDiv, Limbs.Wf_nil, hc]
  | cons dg rest ih =>
    intro c hc hw
    obtain ⟨hw1, hw2⟩ := Limbs.Wf_cons.1 hw
    have hmod : (c * W + dg) % p < p := Nat.mod_lt _ hp
    obtain ⟨i1, i2, i3, i4⟩ := ih ((c * W + dg) % p) hmod hw2
    unfold longDiv
    simp only []
    refine ⟨by simp [i1], ?_, i3, ?_⟩
    · rw [Limbs.Wf_cons]
      refine ⟨?_, i2⟩
      rw [Nat.div_lt_iff_lt_mul hp]
      have : c * W + dg < (c + 1) * W := by nlinarith
      calc c * W + dg < (c + 1) * W := this
        _ ≤ p * W := Nat.mul_le_mul_right _ hc
        _ = W * p := Nat.mul_comm _ _
    · rw [val_reverse_cons, val_reverse_cons, i1]
      have e := Nat.div_add_mod (c * W + dg) p
      generalize (c * W + dg) / p = q at *
      generalize (c * W + dg) % p = m at *
      generalize val (longDiv p m rest).1.reverse = V at *
      generalize (longDiv p m rest).2 = r at *
      simp only [List.length_cons]
      have : (V + W ^ rest.length * q) * p + r = (V * p + r) + W ^ rest.length * (p * q) := by ring
      rw [this, i4]
      have e2 : p * q = c * W + dg - m := by omega
      have e3 : m ≤ c * W + dg := by omega
      rw [e2, Nat.mul_sub, pow_succ]
      have : W ^ rest.length * m ≤ W ^ rest.length * (c * W + dg) := Nat.mul_le_mul_left _ e3
      have e4 : W ^ rest.length * (c * W + dg) = c * (W ^ rest.length * W) + W ^ rest.length * dg := by ring
      rw [Nat.mul_comm m] 
      omega

theorem divmodLoop_eq (d : Div) (g : Good d) : ∀ (ds : List Nat) (carry : Nat), carry < d.p → Wf ds →
    divmodLoop d (W / d.p) carry ds = some (longDiv d.p carry ds) := by
  have hW : W = 2 ^ 64 := W_eq
  have hp3 := g.p3
  have hp30 := g.p30
  have hp0 : 0 < d.p := by omega
  have hr64 := g.r64
  have hnz := g.r64nz
  have eW := Nat.div_add_mod W d.p
  have lW := Nat.mod_lt W hp0
  intro ds
  induction ds with
  | nil => intro c _ _; rfl
  | cons dg rest ih =>
    intro c hc hw
    obtain ⟨hw1, hw2⟩ := Limbs.Wf_cons.1 hw
    unfold divmodLoop longDiv
    by_cases hz : dg = 0 ∧ c = 0
    · rw [if_pos hz]
      obtain ⟨rfl, rfl⟩ := hz
      have := ih 0 hp0 hw2
      simp only [Nat.zero_mul, Nat.add_zero, Nat.zero_div, Nat.zero_mod]
      rw [this]
    · rw [if_neg hz, divmod64_good d g dg (by omega)]
      simp only []
      rw [if_neg (by simp)]
      by_cases hc0 : c = 0
      · subst hc0
        rw [if_neg (by simp)]
        simp only [Nat.zero_mul, Nat.zero_add]
        rw [ih (dg % d.p) (Nat.mod_lt _ hp0) hw2]
      · rw [if_pos hc0]
        -- decomposition of t = c·W + dg
        generalize hQ : W / d.p = Q at *
        generalize hR : W % d.p = R at *
        have e1 := Nat.div_add_mod dg d.p
        have l1 := Nat.mod_lt dg hp0
        generalize hq : dg / d.p = q at *
        generalize hm : dg % d.p = m at *
        have ht : c * W + dg = c * R + m + d.p * (c * Q + q) := by
          rw [← e1, ← eW]; ring
        have hcr : c * R < 2 ^ 60 := by
          calc c * R < 2 ^ 30 * 2 ^ 30 := Nat.mul_lt_mul'' (by omega) (by omega)
            _ = 2 ^ 60 := by norm_num
        have htd : (c * W + dg) / d.p = (c * R + m) / d.p + (c * Q + q) := by
          rw [ht, Nat.add_mul_div_left _ _ hp0]
        have htm : (c * W + dg) % d.p = (c * R + m) % d.p := by
          rw [ht, Nat.add_mul_mod_self_left]
        have htW : (c * W + dg) / d.p < W := by
          rw [Nat.div_lt_iff_lt_mul hp0]
          calc c * W + dg < (c + 1) * W := by nlinarith
            _ ≤ d.p * W := Nat.mul_le_mul_right _ hc
            _ = W * d.p := Nat.mul_comm _ _
        rw [hr64, divmod64_good d g (c * R + m) (by omega)]
        rw [htd] at htW
        rw [htd, htm]
        have hcm := Nat.mod_lt (c * R + m) hp0
        generalize (c * R + m) / d.p = cq at *
        generalize (c * R + m) % d.p = cm at *
        rw [if_neg (by omega), if_neg (by omega), if_neg (by omega), if_neg (by omega)]
        simp only []
        rw [if_neg (by omega), ih _ hcm hw2]
        have : q + c * Q + cq = cq + (c * Q + q) := by ring
        rw [this]

theorem divmodUint_ok (d : Div) (h : Ok d) (ds : List Nat) (hw : Wf ds) :
    ∃ qs r, divmodUint d ds = some (qs, r) ∧ qs.length = ds.length ∧ Wf qs ∧
      val qs = val ds / d.p ∧ r = val ds % d.p := by
  rcases h with rfl | g
  · -- p = 2
    unfold divmodUint d2
    simp only [if_true]
    have hlt := Limbs.val_lt hw
    refine ⟨_, _, rfl, ?_, Limbs.ofNat_Wf _ _, ?_, ?_⟩
    · clear hlt hw
      generalize val ds / 2 = x
      generalize ds.length = k
      induction k generalizing x with
      | zero => rfl
      | succ k ih => simp [ofNat, ih]
    · rw [Limbs.val_ofNat_of_lt (lt_of_le_of_lt (Nat.div_le_self _ _) hlt)]
    · cases ds with
      | nil => simp
      | cons a l =>
        rw [Limbs.headD_mod _ hw (by simp), Nat.mod_mod_of_dvd _ W_even]
  · have hp0 : 0 < d.p := by have := g.p3; omega
    have hp2 : d.p ≠ 2 := by have := g.p3; omega
    have hwr : Wf ds.reverse := Limbs.Wf_reverse.2 hw
    obtain ⟨l1, l2, l3, l4⟩ := longDiv_spec d.p hp0 ds.reverse 0 hp0 hwr
    simp only [Nat.zero_mul, Nat.zero_add, List.reverse_reverse, List.length_reverse] at l1 l4
    unfold divmodUint divmodUintInplace
    rw [if_neg hp2, if_neg (by have := g.m63; omega), if_neg (by have := g.s64; omega), g.mq,
      divmodLoop_eq d g ds.reverse 0 hp0 hwr]
    simp only []
    generalize (longDiv d.p 0 ds.reverse).1 = qs at *
    generalize (longDiv d.p 0 ds.reverse).2 = r at *
    have hdm : val ds / d.p = val qs.reverse ∧ val ds % d.p = r := by
      rw [Nat.div_mod_unique hp0]
      exact ⟨by rw [← l4, Nat.mul_comm]; ring, l3⟩
    have hW : W = 2 ^ 64 := W_eq
    have hp30 := g.p30
    rw [if_neg (by omega), hdm.2, Nat.mod_eq_of_lt (by omega), if_neg (by simp)]
    exact ⟨_, _, rfl, by simp [l1], Limbs.Wf_reverse.2 l2, hdm.1.symm, rfl⟩

end Ymq.Dividers
