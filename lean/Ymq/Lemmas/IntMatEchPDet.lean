/-
`echelon_det` for the reference echelon builder `EchP`: when every row of a square matrix is
accepted, `det()` returns the determinant of the matrix modulo `p`.
-/
import Ymq.Lemmas.IntMatEchP
import Mathlib.Data.Fintype.BigOperators
import Mathlib.Algebra.BigOperators.Fin

namespace Ymq.IntMat

/-- all rows are accepted by `add` (specification-level fold) -/
def acceptAll (inv : Inv) : EchP → List (List Int) → Option EchP
  | e, [] => some e
  | e, v :: vs =>
    match e.add inv v with
    | some (e', true) => acceptAll inv e' vs
    | _ => none

theorem acceptAll_inv (inv : Inv) (p n : Nat) : ∀ (rest : List (List Int)) (e e' : EchP) (rows : List (List Int)),
    EchInv p n e rows → (∀ r ∈ rest, r.length = n) → acceptAll inv e rest = some e' →
    EchInv p n e' (rows ++ rest)
  | [], e, e', rows, hI, _, h => by
    simp only [acceptAll] at h
    rw [← Option.some.inj h]; simpa using hI
  | v :: vs, e, e', rows, hI, hr, h => by
    unfold acceptAll at h
    split at h
    · rename_i e1 hadd
      have h1 := EchInv.add_true inv p n e e1 rows v hI (hr v (by simp)) hadd
      have := acceptAll_inv inv p n vs e1 e' (rows ++ [v]) h1 (fun r hr' => hr r (by simp [hr'])) h
      simpa using this
    · exact absurd h (by simp)

/-- the running product of `det()` -/
theorem foldl_prod_cast (p : Nat) : ∀ (fs : List Nat) (acc : Nat),
    ((fs.foldl (fun acc f => acc * f % p) acc : Nat) : ZMod p) = (acc : ZMod p) * (fs.map (fun f => ((f : Nat) : ZMod p))).prod
  | [], acc => by simp
  | f :: fs, acc => by
    simp only [List.foldl_cons, List.map_cons, List.prod_cons]
    rw [foldl_prod_cast p fs (acc * f % p), ZMod.natCast_mod, Nat.cast_mul]; ring

/-- the matrix of a list of integer rows, modulo `p` -/
def matOf (p n : Nat) (mat : List (List Int)) : Matrix (Fin n) (Fin n) (ZMod p) :=
  fun t => vecI p n (mat.getD t [])

theorem sum_range_eq_filter {n : Nat} {M : Type*} [AddCommMonoid M] (t : Fin n) (g : Nat → M) :
    ∑ s ∈ Finset.range (t : Nat), g s = ∑ s ∈ Finset.univ.filter (· < t), g (s : Nat) := by
  rw [Finset.sum_filter]
  have : ∑ a : Fin n, (if a < t then g (a : Nat) else 0) =
      ∑ a : Fin n, (fun s : Nat => if s < (t : Nat) then g s else 0) (a : Nat) := by
    apply Finset.sum_congr rfl
    intro a _
    by_cases h : a < t
    · have h' : (a : Nat) < (t : Nat) := h
      simp only [h, h', if_true]
    · have h' : ¬ (a : Nat) < (t : Nat) := h
      simp only [h, h', if_false]
  rw [this, Fin.sum_univ_eq_sum_range (fun s => if s < (t : Nat) then g s else 0) n]
  rw [← Finset.sum_filter]
  congr 1
  ext s
  simp only [Finset.mem_filter, Finset.mem_range]
  constructor
  · intro h; exact ⟨by have := t.2; omega, h⟩
  · intro h; exact h.2

/-- **echelon_det** for `EchP`: all `n` rows of the `n × n` matrix accepted, `det() = d` ⇒ `d ≡ det` -/
theorem echP_det (inv : Inv) (p n : Nat) (hn : 0 < n) (mat : List (List Int)) (hlen : mat.length = n)
    (hrows : ∀ r ∈ mat, r.length = n) (e : EchP) (d : Nat)
    (hacc : acceptAll inv { p := p, indices := [], basis := [], factors := [] } mat = some e)
    (hdet : e.det = some d) :
    ((d : Nat) : ZMod p) = (matOf p n mat).det := by
  have hI := acceptAll_inv inv p n mat _ e [] (EchInv.init p n) hrows hacc
  simp only [List.nil_append] at hI
  obtain ⟨hp, len_b, len_f, row_len, _, hppos, σ, c, hidx, hone, hzero, hrow⟩ := hI
  have hne : mat ≠ [] := by intro h; rw [h] at hlen; simp at hlen; omega
  have hp0 : 0 < p := hppos hne
  have hσ := hidx hne
  -- the value computed by det()
  unfold EchP.det at hdet
  split at hdet
  · exact absurd hdet (by simp)
  · split at hdet
    · exact absurd hdet (by simp)
    · rw [hσ] at hdet
      obtain ⟨r, hr1, hr2⟩ := cycleWalk_spec (2 * n + 1) 0 σ 0 (Nat.zero_le _)
        (fun k hk => absurd hk (Nat.not_lt_zero _)) (by have := moved_le σ; omega)
      have hsw : permSwaps (permList σ) = some r := by
        unfold permSwaps; rw [permList_length]; exact hr1
      rw [hsw] at hdet
      simp only [] at hdet
      have hd := (Option.some.inj hdet).symm
      -- product of the pivots
      set P := e.factors.foldl (fun acc f => acc * f % e.p) (1 % e.p) with hP
      have hPcast : ((P : Nat) : ZMod p) = ∏ t : Fin n, ((e.factors.getD (t : Nat) 0 : Nat) : ZMod p) := by
        rw [hP, hp, foldl_prod_cast p e.factors (1 % p), ZMod.natCast_mod, Nat.cast_one, one_mul]
        have hfl : e.factors.length = n := by rw [len_f, hlen]
        rw [← Fin.prod_univ_fun_getElem e.factors (fun f => ((f : Nat) : ZMod p))]
        -- reindex Fin e.factors.length ≃ Fin n
        apply Fintype.prod_equiv (finCongr hfl)
        intro i
        simp [List.getD_eq_getElem?_getD, List.getElem?_eq_getElem i.2]
      have hPlt : P < p := by
        rw [hP, hp]
        -- every step reduces modulo p
        have : ∀ (fs : List Nat) (acc : Nat), acc < p → fs.foldl (fun acc f => acc * f % p) acc < p := by
          intro fs
          induction fs with
          | nil => intro acc h; simpa using h
          | cons f fs ih => intro acc _; exact ih _ (Nat.mod_lt _ hp0)
        exact this _ _ (Nat.mod_lt _ hp0)
      -- the sign
      have hsign : ((d : Nat) : ZMod p) = ((Equiv.Perm.sign σ : ℤ) : ZMod p) * ((P : Nat) : ZMod p) := by
        rw [hd]
        simp only [zero_add, pow_zero, one_mul] at hr2
        rcases Nat.even_or_odd r with hev | hodd
        · have h2 : r % 2 ≠ 1 := by obtain ⟨q, hq⟩ := hev; omega
          rw [if_neg (fun hh => h2 hh.1)]
          have : Equiv.Perm.sign σ = 1 := by rw [← hr2]; exact Even.neg_one_pow hev
          rw [this]; simp
        · have h2 : r % 2 = 1 := by obtain ⟨q, hq⟩ := hodd; omega
          have hs : Equiv.Perm.sign σ = -1 := by rw [← hr2]; exact Odd.neg_one_pow hodd
          rw [hs]
          by_cases hpos : P > 0
          · rw [if_pos ⟨h2, hpos⟩, hp, Nat.cast_sub (Nat.le_of_lt hPlt), ZMod.natCast_self]; simp
          · have : P = 0 := by omega
            rw [if_neg (fun hh => hpos hh.2), this]; simp
      rw [hsign, hPcast]
      -- the determinant formula
      have hdetV := det_of_echelon (matOf p n mat) (fun t => vecN p n (e.basis.getD (t : Nat) [])) σ
        (fun t => ((e.factors.getD (t : Nat) 0 : Nat) : ZMod p)) (fun t s => c (t : Nat) (s : Nat))
        (fun t => hone t (by rw [hlen]; exact t.2) t.2)
        (fun t s hst => hzero t s hst (by rw [hlen]; exact t.2) t.2)
        (fun t => by
          have := hrow t (by rw [hlen]; exact t.2)
          rw [sum_range_eq_filter t (fun s => c (t : Nat) s • vecN p n (e.basis.getD s []))] at this
          exact this)
      rw [hdetV]

end Ymq.IntMat
