/-
C10: the branch `a.len() >= n` of `Poly::roots_eval` (model: `rootsEvalLong`, `barrettStep` in
Ymq/Model/PolyTree.lean): products of chunks of `x - a_i` reduced modulo `Q = ∏ (x - b_j)` by three
`_longmul`s with a precomputed inverse of the reversed `Q` (Barrett reduction).
`barrett_high` is the reversal argument (Mathlib's `reflect`), `barrettStep_spec` one round of the loop
including the `debug_assert!` on the high halves, `rootsEval_long_spec` the whole branch.
`HomC` adds completeness of `==` (equal residues compare equal), needed for the code's assertions.
-/
import Ymq.Lemmas.PolyRootsEval
import Ymq.Lemmas.PolyZMod
import Mathlib.Algebra.Polynomial.Reverse
import Mathlib.Algebra.Polynomial.Degree.Lemmas

namespace Ymq.PolyMul
open Polynomial Finset

variable {α : Type} {R : Type} [CommRing R]

theorem coeff_mul_congr_left (A A' B : R[X]) (m : Nat) (hA : ∀ k, k < m → A.coeff k = A'.coeff k) :
    ∀ k, k < m → (A * B).coeff k = (A' * B).coeff k := by
  intro k hk
  rw [mul_comm A B, mul_comm A' B]
  exact coeff_mul_congr A A' B m hA k hk

/-- **Barrett reduction step (reversal argument).** `Q` monic of degree `n ≥ 2`, `P` below `2n - 1`,
`I` an inverse of `rev Q` modulo `x^n`; `H = P div x^n`, `J` the reversed low `n` coefficients of `I`,
`G` the coefficients `n-1 … 2n-3` of `H·J`. Then `G·Q` and `P` agree from coefficient `n` on. -/
theorem barrett_high (P Q I H J G : R[X]) (n : Nat) (hn : 2 ≤ n) (hdQ : Q.natDegree = n)
    (hP : Below P (2 * n - 1))
    (hI : ∀ k, k < n → (reflect n Q * I).coeff k = if k = 0 then 1 else 0)
    (hH : ∀ i, H.coeff i = if i < n then P.coeff (n + i) else 0)
    (hJ : ∀ j, J.coeff j = if j < n then I.coeff (n - 1 - j) else 0)
    (hG : ∀ t, G.coeff t = if t < n - 1 then (H * J).coeff (n - 1 + t) else 0) :
    ∀ m, n ≤ m → (G * Q).coeff m = P.coeff m := by
  have dH : H.natDegree ≤ n - 2 := by
    rw [natDegree_le_iff_coeff_eq_zero]
    intro i hi
    rw [hH]
    split_ifs with h
    · exact hP _ (by omega)
    · rfl
  have dJ : J.natDegree ≤ n - 1 := by
    rw [natDegree_le_iff_coeff_eq_zero]
    intro i hi
    rw [hJ, if_neg (by omega)]
  have dG : G.natDegree ≤ n - 2 := by
    rw [natDegree_le_iff_coeff_eq_zero]
    intro i hi
    rw [hG, if_neg (by omega)]
  have e1 := reflect_mul H J dH dJ
  have e2 := reflect_mul G Q dG (le_of_eq hdQ)
  set Pr := reflect (2 * n - 2) P with hPr
  -- coefficients of the reflected quotient
  have cA : ∀ u, u < n - 1 → (reflect (n - 2) H).coeff u = Pr.coeff u := by
    intro u hu
    rw [coeff_reflect, coeff_reflect, revAt_le (by omega), revAt_le (by omega), hH, if_pos (by omega)]
    congr 1; omega
  have cB : ∀ l, l < n → (reflect (n - 1) J).coeff l = I.coeff l := by
    intro l hl
    rw [coeff_reflect, revAt_le (by omega), hJ, if_pos (by omega)]
    congr 1; omega
  have cG : ∀ u, u < n - 1 → (reflect (n - 2) G).coeff u = (Pr * I).coeff u := by
    intro u hu
    rw [coeff_reflect, revAt_le (by omega), hG, if_pos (by omega)]
    have : n - 1 + (n - 2 - u) = revAt (n - 2 + (n - 1)) u := by rw [revAt_le (by omega)]; omega
    rw [this, ← coeff_reflect, e1]
    rw [coeff_mul_congr_left _ Pr _ (n - 1) cA u hu]
    exact coeff_mul_congr _ I Pr n cB u (by omega)
  have key : ∀ u, u < n - 1 → (reflect (n - 2 + n) (G * Q)).coeff u = Pr.coeff u := by
    intro u hu
    rw [e2, coeff_mul_congr_left _ (Pr * I) _ (n - 1) cG u hu, mul_assoc, mul_comm I]
    have h1 : ∀ k, k < n → (reflect n Q * I).coeff k = (1 : R[X]).coeff k := by
      intro k hk
      rw [hI k hk, coeff_one]
    rw [coeff_mul_congr _ 1 Pr n h1 u (by omega), mul_one]
  intro m hm
  by_cases hbig : 2 * n - 2 < m
  · rw [hP m (by omega)]
    apply coeff_eq_zero_of_natDegree_lt
    calc (G * Q).natDegree ≤ G.natDegree + Q.natDegree := natDegree_mul_le
      _ ≤ (n - 2) + n := by rw [hdQ]; omega
      _ < m := by omega
  · have hu : 2 * n - 2 - m < n - 1 := by omega
    have := key _ hu
    rw [coeff_reflect, hPr, coeff_reflect, revAt_le (by omega), revAt_le (by omega)] at this
    rw [show n - 2 + n - (2 * n - 2 - m) = m by omega, show 2 * n - 2 - (2 * n - 2 - m) = m by omega] at this
    exact this


/-- `HomE` plus completeness of `==`: equal images compare equal (`MInt`s are reduced residues) -/
structure HomC (o : Ops α) (φ : α → R) : Prop extends HomE o φ where
  eq_complete : ∀ a b, φ a = φ b → o.eq a b = true

/-- `_longmul` on operands of any lengths `≥ 1` (`|z| ≥ |p| + |q|`, `|tmp| ≥ 3·max`), either path -/
theorem longmul_gen_spec {o : Ops α} {φ : α → R} (h : Hom o φ) (c : Ctx) (zlen tmplen : Nat) (p q : List α)
    (h1 : 1 ≤ p.length) (h1' : 1 ≤ q.length) (hpq : 3 ≤ p.length + q.length)
    (h2 : max p.length q.length ≤ 20 * 2 ^ 63)
    (hz : p.length + q.length ≤ zlen) (ht : 3 * max p.length q.length ≤ tmplen)
    (hfit : ∀ k, c.mzp = some k → p.length + q.length - 2 < 2 ^ k) :
    ∃ z', longmul c o zlen tmplen p q = some z' ∧ z'.length = zlen ∧
      ∀ i, i < zlen → φ (z'.getD i o.zero) = (poly (p.map φ) * poly (q.map φ)).coeff i := by
  have hkara : ∃ z', (karatsuba o FUEL (List.replicate zlen o.zero) p q (List.replicate tmplen o.zero)).map (·.1)
      = some z' ∧ z'.length = zlen ∧
      ∀ i, i < zlen → φ (z'.getD i o.zero) = (poly (p.map φ) * poly (q.map φ)).coeff i := by
    obtain ⟨z', tmp', e, lz, _, hp⟩ := karatsuba_spec h 64 (List.replicate zlen o.zero) p q
      (List.replicate tmplen o.zero) (by
        rw [List.length_replicate, List.length_replicate]
        exact karaOk_total 63 _ _ _ _ h1 h1' h2 hz ht)
    refine ⟨z', by unfold FUEL; rw [e]; rfl, by rw [lz, List.length_replicate], ?_⟩
    intro i _
    rw [← hp, coeff_poly, getD_map_hom h]
  unfold longmul
  cases hm : c.mzp with
  | none => exact hkara
  | some k =>
    simp only
    split_ifs with hT
    · exact fftLongmul_spec h k zlen p q h1 h1' hpq (hfit k hm)
    · exact hkara

/-- `resize(1 + n); if c[n] != 0 { c -= q; assert!(c[n] == 0) }; truncate(n)` for `pc` of at most
`n + 1` coefficients whose coefficient `n` is `0` or `1`, `q = top ++ [1]`: the result has `n`
coefficients and differs from `pc` by a multiple (`0` or `1`) of `Q = mon top`. -/
theorem reduceTop_spec {o : Ops α} {φ : α → R} (h : HomC o φ) (n : Nat) (pc top : List α)
    (hlen : pc.length ≤ n + 1) (htop : top.length = n)
    (hlead : pc.length = n + 1 → φ (pc.getD n o.zero) = 1) :
    ∃ r, reduceTop o n pc (top ++ [o.one]) = some r ∧ r.length = n ∧
      (poly (r.map φ) = poly (pc.map φ) ∨ poly (r.map φ) = poly (pc.map φ) - mon φ top) := by
  unfold reduceTop
  simp only
  set c := pc ++ List.replicate (n + 1 - pc.length) o.zero with hc
  have lc : c.length = n + 1 := by rw [hc, List.length_append, List.length_replicate]; omega
  have pcc : poly (c.map φ) = poly (pc.map φ) := by
    rw [hc]; exact poly_map_append_zeros h.toHom pc _
  rw [if_neg (by omega)]
  have hq : poly ((top ++ [o.one]).map φ) = mon φ top := by
    unfold mon
    rw [List.map_append, poly_append, List.length_map]
    simp [poly, h.one]
  by_cases hz : o.eq (c.getD n o.zero) o.zero = true
  · rw [hz]
    simp only [Bool.not_true, Bool.false_eq_true, if_false]
    refine ⟨c.take n, rfl, by rw [List.length_take]; omega, Or.inl ?_⟩
    rw [← pcc, List.map_take]
    have h0 : φ (c.getD n o.zero) = 0 := by rw [h.eq_sound _ _ hz, h.zero]
    apply poly_take_of_zero
    intro k hk
    rw [coeff_poly]
    by_cases hkn : k = n
    · subst hkn; rw [getD_map_hom h.toHom, h0]
    · rw [getD_ge _ _ _ (by rw [List.length_map]; omega)]
  · have hz' : o.eq (c.getD n o.zero) o.zero = false := by simpa using hz
    rw [hz']
    simp only [Bool.not_false, if_true]
    have hne : φ (c.getD n o.zero) ≠ 0 := by
      intro h0
      exact hz (h.eq_complete _ _ (by rw [h0, h.zero]))
    -- so pc has n + 1 coefficients and is monic
    have hpl : pc.length = n + 1 := by
      by_contra hcon
      apply hne
      rw [hc, getD_append_right' _ _ _ _ (by omega)]
      rw [List.getD_eq_getElem?_getD, List.getElem?_replicate]
      split_ifs <;> simp [h.zero]
    have hcn : φ (c.getD n o.zero) = 1 := by
      rw [hc, getD_append_left' _ _ _ _ (by omega)]; exact hlead hpl
    rw [zipOp_eq _ _ _ (by rw [lc, List.length_append, htop]; rfl)]
    simp only
    set c' := List.zipWith o.sub c (top ++ [o.one]) with hc'
    have lc' : c'.length = n + 1 := by
      rw [hc', List.length_zipWith, lc, List.length_append, htop]; simp
    have hc'n : φ (c'.getD n o.zero) = 0 := by
      rw [hc', getD_zipWith_sub _ _ _ (by omega) (by rw [List.length_append, htop]; simp), h.sub, hcn,
        getD_append_right' _ _ _ _ (by omega), htop]
      simp [h.one]
    rw [if_pos (h.eq_complete _ _ (by rw [hc'n, h.zero]))]
    refine ⟨c'.take n, rfl, by rw [List.length_take]; omega, Or.inr ?_⟩
    have pc' : poly (c'.map φ) = poly (pc.map φ) - mon φ top := by
      rw [hc', map_zipWith_sub h.toHom, poly_zipWith_sub _ _ (by
        rw [List.length_map, List.length_map, lc, List.length_append, htop]; rfl), pcc, hq]
    rw [← pc', List.map_take]
    apply poly_take_of_zero
    intro k hk
    rw [coeff_poly]
    by_cases hkn : k = n
    · subst hkn; rw [getD_map_hom h.toHom, hc'n]
    · rw [getD_ge _ _ _ (by rw [List.length_map]; omega)]


variable [Nontrivial R]

theorem rootsPoly_monic (φ : α → R) (l : List α) : (rootsPoly φ l).Monic ∧ (rootsPoly φ l).natDegree = l.length := by
  unfold rootsPoly
  induction l with
  | nil => simp
  | cons r rs ih =>
    rw [List.map_cons, List.prod_cons]
    have h1 : (X - C (φ r)).Monic := monic_X_sub_C _
    exact ⟨h1.mul ih.1, by rw [h1.natDegree_mul ih.1, natDegree_X_sub_C, ih.2, List.length_cons]; omega⟩

theorem getD_reverse_drop_one (l : List α) (d : α) (n j : Nat) (hl : l.length = n + 1) (hj : j < n) :
    (l.reverse.drop 1).getD j d = l.getD (n - 1 - j) d := by
  rw [List.getD_eq_getElem?_getD, List.getD_eq_getElem?_getD, List.getElem?_drop,
    List.getElem?_reverse (by omega)]
  congr 2; omega

/-- **one round of the chunk loop of `roots_eval`** (Barrett reduction with the reversed inverse):
no panic site (the `debug_assert!` on the high halves included) and the new `pmodq` is congruent to
`∏_{r ∈ chk} (x - r) · pmodq` modulo `Q = mon top`. -/
theorem barrettStep_spec {o : Ops α} {φ : α → R} (h : HomC o φ) (c : Ctx) (n e : Nat) (hn : 2 ≤ n)
    (hpow : n = 2 ^ e) (he : e ≤ 61)
    (top qinv pmodq chk : List α) (htop : top.length = n) (lqi : qinv.length = n + 1)
    (lpm : pmodq.length = n) (hchk1 : 1 ≤ chk.length) (hchkn : chk.length ≤ n) (hfit : Fits c n)
    (hI : ∀ k, k < n → (reflect n (mon φ top) * poly (qinv.map φ)).coeff k = if k = 0 then 1 else 0) :
    ∃ r, barrettStep c o n (top ++ [o.one]) qinv.reverse pmodq chk = some r ∧ r.length = n ∧
      mon φ top ∣ poly (r.map φ) - rootsPoly φ chk * poly (pmodq.map φ) := by
  have hn61 : n ≤ 2 ^ 61 := by rw [hpow]; exact Nat.pow_le_pow_right (by decide) he
  have hble : Ymq.Checked.bitlen (chk.length - 1) ≤ e := bitlen_le_of_lt (by omega)
  obtain ⟨pi0, e1, lpi, ppi⟩ := fromRoots_spec h.toHom c chk hchk1 (by omega)
    (hfit.mono (by rw [hpow]; exact Nat.pow_le_pow_right (by decide) hble))
  obtain ⟨hmon, hdeg⟩ := rootsPoly_monic φ chk
  obtain ⟨pic, e2, lpic, ppic⟩ := reduceTop_spec h n pi0 top (by omega) htop (by
    intro hl
    have : chk.length = n := by omega
    have hc := hmon.coeff_natDegree
    rw [hdeg, this, ← ppi, coeff_poly, getD_map_hom h.toHom] at hc
    exact hc)
  set Q := mon φ top with hQ
  set P := poly (pic.map φ) * poly (pmodq.map φ) with hP
  obtain ⟨pp, e3, lpp, cpp⟩ := longmul_spec h.toHom c (2 * n) (6 * n) pic pmodq (by rw [lpic, lpm])
    (by omega) (by omega) (by omega) (by omega) (hfit.mono (by omega))
  rw [← hP] at cpp
  obtain ⟨quo, e4, lquo, cquo⟩ := longmul_spec h.toHom c (2 * n) (6 * n) (pp.drop n) (qinv.reverse.drop 1)
    (by rw [List.length_drop, List.length_drop, List.length_reverse]; omega)
    (by rw [List.length_drop]; omega) (by rw [List.length_drop]; omega) (by rw [List.length_drop]; omega)
    (by rw [List.length_drop]; omega) (hfit.mono (by rw [List.length_drop]; omega))
  set H := poly ((pp.drop n).map φ) with hH
  set J := poly ((qinv.reverse.drop 1).map φ) with hJ
  set qs := (quo.drop (n - 1)).take (n - 1) with hqs
  have lqs : qs.length = n - 1 := by rw [hqs, List.length_take, List.length_drop]; omega
  obtain ⟨pq, e5, lpq, cpq⟩ := longmul_gen_spec h.toHom c (2 * n) (6 * n) qs (top ++ [o.one])
    (by omega) (by simp) (by rw [lqs, List.length_append, htop]; simp; omega)
    (by rw [lqs, List.length_append, htop]; simp; omega)
    (by rw [lqs, List.length_append, htop]; simp; omega)
    (by rw [lqs, List.length_append, htop]; simp; omega)
    (by
      intro k hk
      have := hfit k hk
      rw [lqs, List.length_append, htop]; simp; omega)
  have hq : poly ((top ++ [o.one]).map φ) = Q := by
    rw [hQ]; unfold mon
    rw [List.map_append, poly_append, List.length_map]
    simp [poly, h.one]
  rw [hq] at cpq
  set G := poly (qs.map φ) with hG
  -- the hypotheses of the reversal argument
  have bP : Below P (2 * n - 1) := by
    intro j hj
    exact coeff_mul_vanish _ _ n n j (fun i hi => natDegree_poly_lt _ _ (by rw [List.length_map, lpic]; exact hi))
      (fun i hi => natDegree_poly_lt _ _ (by rw [List.length_map, lpm]; exact hi)) (by omega)
  have cH : ∀ i, H.coeff i = if i < n then P.coeff (n + i) else 0 := by
    intro i
    rw [hH, List.map_drop, coeff_poly_drop, coeff_poly]
    split_ifs with hi
    · rw [getD_map_hom h.toHom, cpp _ (by omega)]
    · rw [getD_ge _ _ _ (by rw [List.length_map]; omega)]
  have cJ : ∀ j, J.coeff j = if j < n then (poly (qinv.map φ)).coeff (n - 1 - j) else 0 := by
    intro j
    rw [hJ, coeff_poly]
    split_ifs with hj
    · rw [getD_map_hom h.toHom, getD_reverse_drop_one qinv _ n j lqi hj, coeff_poly, getD_map_hom h.toHom]
    · rw [getD_ge _ _ _ (by rw [List.length_map, List.length_drop, List.length_reverse]; omega)]
  have cG : ∀ t, G.coeff t = if t < n - 1 then (H * J).coeff (n - 1 + t) else 0 := by
    intro t
    rw [hG, hqs, List.map_take, List.map_drop, coeff_poly_take]
    split_ifs with ht
    · rw [coeff_poly_drop, coeff_poly, getD_map_hom h.toHom, cquo _ (by omega)]
    · rfl
  have hhigh := barrett_high P Q (poly (qinv.map φ)) H J G n hn (by rw [hQ, mon_natDegree, htop]) bP hI cH cJ cG
  -- the assertion on the high halves
  have hall : ((List.range n).all fun i => o.eq (pp.getD (n + i) o.zero) (pq.getD (n + i) o.zero)) = true := by
    rw [List.all_eq_true]
    intro i hi
    have hi' : i < n := List.mem_range.1 hi
    apply h.eq_complete
    rw [cpp _ (by omega), cpq _ (by omega), hhigh _ (by omega)]
  have lt1 : (pp.take n).length = n := by rw [List.length_take]; omega
  have lt2 : (pq.take n).length = n := by rw [List.length_take]; omega
  refine ⟨List.zipWith o.sub (pp.take n) (pq.take n), ?_, by rw [List.length_zipWith, lt1, lt2]; simp, ?_⟩
  · unfold barrettStep
    simp only [e1, e2, e3, e4, ← hqs, e5, hall, Bool.not_true, Bool.false_eq_true, if_false]
    exact zipOp_eq _ _ _ (by rw [lt1, lt2])
  · have hr : poly ((List.zipWith o.sub (pp.take n) (pq.take n)).map φ) = P - G * Q := by
      apply poly_eq_of_coeff
      · intro k hk
        rw [List.length_map, List.length_zipWith, lt1, lt2, Nat.min_self] at hk
        rw [coeff_sub, hhigh k hk, sub_self]
      · intro k hk
        rw [List.length_map, List.length_zipWith, lt1, lt2, Nat.min_self] at hk
        rw [getD_map_hom h.toHom, getD_zipWith_sub _ _ _ (by omega) (by omega), h.sub, coeff_sub]
        rw [List.getD_eq_getElem?_getD, List.getElem?_take_of_lt hk, ← List.getD_eq_getElem?_getD,
          List.getD_eq_getElem?_getD (l := pq.take n), List.getElem?_take_of_lt hk, ← List.getD_eq_getElem?_getD,
          cpp _ (by omega), cpq _ (by omega)]
    rw [hr, hP, ← ppi]
    rcases ppic with hp | hp
    · rw [hp]
      exact ⟨-G, by ring⟩
    · rw [hp]
      exact ⟨-poly (pmodq.map φ) - G, by ring⟩


omit [Nontrivial R] in
theorem rootsPoly_append (φ : α → R) (l1 l2 : List α) :
    rootsPoly φ (l1 ++ l2) = rootsPoly φ l1 * rootsPoly φ l2 := by
  unfold rootsPoly
  rw [List.map_append, List.prod_append]

/-- the loop over the remaining chunks -/
theorem barrettFold_spec {o : Ops α} {φ : α → R} (h : HomC o φ) (c : Ctx) (n e : Nat) (hn : 2 ≤ n)
    (hpow : n = 2 ^ e) (he : e ≤ 61) (top qinv : List α) (htop : top.length = n) (lqi : qinv.length = n + 1)
    (hfit : Fits c n)
    (hI : ∀ k, k < n → (reflect n (mon φ top) * poly (qinv.map φ)).coeff k = if k = 0 then 1 else 0) :
    ∀ (cs : List (List α)) (pm : List α) (A : R[X]), pm.length = n →
      (∀ chk ∈ cs, 1 ≤ chk.length ∧ chk.length ≤ n) → mon φ top ∣ poly (pm.map φ) - A →
      ∃ r, cs.foldlM (barrettStep c o n (top ++ [o.one]) qinv.reverse) pm = some r ∧ r.length = n ∧
        mon φ top ∣ poly (r.map φ) - A * rootsPoly φ cs.flatten := by
  intro cs
  induction cs with
  | nil =>
    intro pm A lpm _ hdiv
    refine ⟨pm, rfl, lpm, ?_⟩
    simpa [rootsPoly] using hdiv
  | cons chk rest ih =>
    intro pm A lpm hall hdiv
    obtain ⟨h1, h2⟩ := hall chk List.mem_cons_self
    obtain ⟨r1, e1, lr1, d1⟩ := barrettStep_spec h c n e hn hpow he top qinv pm chk htop lqi lpm h1 h2 hfit hI
    have d2 : mon φ top ∣ poly (r1.map φ) - A * rootsPoly φ chk := by
      have : poly (r1.map φ) - A * rootsPoly φ chk =
          (poly (r1.map φ) - rootsPoly φ chk * poly (pm.map φ)) + rootsPoly φ chk * (poly (pm.map φ) - A) := by ring
      rw [this]
      exact dvd_add d1 (Dvd.dvd.mul_left hdiv _)
    obtain ⟨r, e2, lr, d3⟩ := ih r1 (A * rootsPoly φ chk) lr1 (fun x hx => hall x (List.mem_cons_of_mem _ hx)) d2
    refine ⟨r, ?_, lr, ?_⟩
    · rw [List.foldlM_cons, e1]; exact e2
    · rw [List.flatten_cons, rootsPoly_append, ← mul_assoc]; exact d3

omit [Nontrivial R] in
theorem revTop_getD (o : Ops α) (n : Nat) (q : List α) (j : Nat) (hj : j < n) :
    (revTop o n q).getD j o.zero = q.getD (n - j) o.zero := by
  unfold revTop
  rw [getD_range_map _ _ _ _ (by omega), if_pos hj]

/-- **`Poly::roots_eval`, branch `|a| ≥ n`**: no panic site and `vals[j] = ∏_i (b_j - a_i)`. -/
theorem rootsEval_long_spec {o : Ops α} {φ : α → R} (h : HomC o φ) (a b : List α)
    (hb2 : 2 ≤ b.length) (hb61 : Ymq.Checked.bitlen (b.length - 1) ≤ 61)
    (hab : 2 ^ Ymq.Checked.bitlen (b.length - 1) ≤ a.length) (hinv : ∃ i, o.inv o.one = some i) :
    ∃ vals, rootsEval o a b = some vals ∧ vals.length = b.length ∧
      ∀ j, j < b.length →
        φ (vals.getD j o.zero) = (a.map fun r => φ (b.getD j o.zero) - φ r).prod := by
  set logn := Ymq.Checked.bitlen (b.length - 1) with hlogn
  set n := 2 ^ logn with hn
  set c := Ctx.new b.length with hc
  have hbn : b.length ≤ n := by
    have := bitlen_lt (b.length - 1); rw [← hlogn, ← hn] at this; omega
  have hn2 : 2 ≤ n := by omega
  obtain ⟨layers, el, llen, hch, top, htop, ltop, hmon⟩ := productTree_spec h.toHom c b (by omega) (by omega)
    (fits_new _ _ (le_refl _))
  have hleaves := productTree_leaves c b layers el
  have hn62 : n ≤ 2 ^ 61 := Nat.pow_le_pow_right (by decide) hb61
  have ltop' : top.length = n := ltop
  have llen' : layers.length = logn + 1 := llen
  have hfitn : Fits c n := fits_new _ _ (le_refl _)
  set q := top ++ [o.one] with hq
  set Q := mon φ top with hQ
  have pq : poly (q.map φ) = Q := by
    rw [hQ, hq]; unfold mon
    rw [List.map_append, poly_append, List.length_map]
    simp [poly, h.one]
  -- the inverse of the reversed top node
  set revq := revTop o n q with hrevq
  have lrev : revq.length = n + 1 := by rw [hrevq]; unfold revTop; simp
  have hrev0 : revq.getD 0 o.zero = o.one := by
    rw [hrevq, revTop_getD o n q 0 (by omega), hq, getD_append_right' _ _ _ _ (by omega), ltop']
    simp
  obtain ⟨qinv, ei, lqi, hinvq⟩ := invModXn_spec h.toHomE c (middleSpec_holds h.toHom c) 63 revq (6 * n)
    (by omega) (by rw [lrev]; have : (2 : Nat) ^ 61 < 2 ^ 63 := by norm_num
                   omega)
    (by rw [lrev]; have : (2 : Nat) ^ 61 < 2 ^ 62 := by norm_num
        omega) (by omega) (hfitn.mono (by omega)) (by rw [hrev0]; exact hinv)
  rw [lrev] at lqi hinvq
  have hI : ∀ k, k < n → (reflect n Q * poly (qinv.map φ)).coeff k = if k = 0 then 1 else 0 := by
    intro k hk
    rw [← hinvq k (by omega)]
    apply coeff_mul_congr_left _ _ _ n _ k hk
    intro j hj
    rw [coeff_reflect, revAt_le (by omega), ← pq, coeff_poly, coeff_poly, getD_map_hom h.toHom,
      getD_map_hom h.toHom, hrevq, revTop_getD o n q j hj]
  -- the chunks
  obtain ⟨hflat, hchk⟩ := chunks_spec a.length n a (by omega) le_rfl
  have hane : a ≠ [] := by intro h0; rw [h0] at hab; simp at hab; omega
  obtain ⟨c0, cs, ecs⟩ : ∃ c0 cs, chunks a.length n a = c0 :: cs := by
    cases ha : a with
    | nil => exact absurd ha hane
    | cons x xs =>
      exact ⟨(x :: xs).take n, chunks xs.length n ((x :: xs).drop n), by simp only [List.length_cons, chunks]⟩
  rw [ecs] at hflat hchk
  have lc0 : c0.length = n := by
    cases ha : a with
    | nil => exact absurd ha hane
    | cons x xs =>
      rw [ha] at ecs hab
      simp only [List.length_cons, chunks, List.cons.injEq] at ecs
      rw [← ecs.1, List.length_take]
      simp only [List.length_cons] at hab ⊢
      omega
  obtain ⟨p0, ep0, lp0, pp0⟩ := fromRoots_spec h.toHom c c0 (by omega) (by
      have : Ymq.Checked.bitlen (c0.length - 1) ≤ logn := bitlen_le_of_lt (by rw [lc0, ← hn]; omega)
      omega)
    (hfitn.mono (by
      have : Ymq.Checked.bitlen (c0.length - 1) ≤ logn := bitlen_le_of_lt (by rw [lc0, ← hn]; omega)
      exact Nat.pow_le_pow_right (by decide) this))
  obtain ⟨hmon0, hdeg0⟩ := rootsPoly_monic φ c0
  obtain ⟨pm0, epm0, lpm0, ppm0⟩ := reduceTop_spec h n p0 top (by omega) ltop' (by
    intro _
    have hc := hmon0.coeff_natDegree
    rw [hdeg0, lc0, ← pp0, coeff_poly, getD_map_hom h.toHom] at hc
    exact hc)
  have d0 : Q ∣ poly (pm0.map φ) - rootsPoly φ c0 := by
    rcases ppm0 with hp | hp
    · rw [hp, pp0, sub_self]; exact dvd_zero _
    · rw [hp, pp0]; exact ⟨-1, by ring⟩
  obtain ⟨pmodq, ef, lpmq, dq⟩ := barrettFold_spec h c n logn hn2 hn hb61 top qinv ltop' lqi hfitn hI cs pm0
    (rootsPoly φ c0) lpm0 (fun x hx => hchk x (List.mem_cons_of_mem _ hx)) d0
  rw [← rootsPoly_append, ← List.flatten_cons, hflat] at dq
  -- evaluation
  obtain ⟨vals, ev, lv, hv⟩ := multiEvalTree_spec h.toHomE c pmodq layers top hch htop
    (by rw [llen', ltop', hn, Nat.log2_two_pow]) (by rw [ltop']; omega) (by rw [ltop']; exact hn62) (by omega)
    (by rw [ltop', lpmq]; omega) (by rw [ltop']; exact hfitn.mono (by omega)) hinv
  have hlv : vals.length = n := by
    rw [lv, hleaves, List.length_map, List.length_range]
  refine ⟨vals.take b.length, ?_, by rw [List.length_take]; omega, ?_⟩
  · unfold rootsEval
    simp only
    rw [el]
    simp only
    rw [htop]
    simp only
    rw [if_neg (by rw [ltop']; omega)]
    unfold rootsEvalLong
    simp only
    rw [ltop', ← hq, ← hrevq]
    have : invModXn c o FUEL revq (6 * n) = some qinv := ei
    rw [this]
    simp only
    rw [hrev0, h.eq_complete _ _ rfl]
    simp only [Bool.not_true, Bool.false_eq_true, if_false]
    rw [ecs]
    simp only
    rw [ep0]
    simp only
    rw [epm0]
    simp only
    rw [ef]
    simp only
    rw [ev]
    simp only
    rw [if_neg (by omega)]
  · intro j hj
    rw [List.getD_eq_getElem?_getD, List.getElem?_take_of_lt hj, ← List.getD_eq_getElem?_getD,
      hv j (by rw [hleaves, List.length_map, List.length_range]; omega)]
    have hleaf : (layers.getD 0 []).getD j [] = [o.sub o.zero (b.getD j o.zero)] := by
      rw [hleaves, getD_range_map _ _ _ _ (by omega), if_pos hj]
    rw [hleaf, List.getD_cons_zero, h.sub, h.zero, zero_sub, neg_neg]
    obtain ⟨K, hK⟩ := dq
    have hpm : poly (pmodq.map φ) = rootsPoly φ a + Q * K := by rw [← hK]; ring
    rw [hpm, eval_add, eval_mul, eval_rootsPoly]
    have hQ0 : Q.eval (φ (b.getD j o.zero)) = 0 := by
      rw [hmon, eval_mul, eval_rootsPoly]
      have : (b.map fun r => φ (b.getD j o.zero) - φ r).prod = 0 := by
        apply List.prod_eq_zero
        rw [List.mem_map]
        refine ⟨b.getD j o.zero, ?_, sub_self _⟩
        rw [List.getD_eq_getElem?_getD, List.getElem?_eq_getElem hj]
        simp
      rw [this, zero_mul]
    rw [hQ0, zero_mul, add_zero]

omit [Nontrivial R] in
/-- the driver's operations with `==` = equality of residues -/
theorem natOps_homC (n : Nat) (hn : 0 < n) : HomC (natOps n) (Nat.cast : ℕ → ZMod n) where
  toHomE := natOps_homE n hn
  eq_complete a b hab := natOps_eq_complete n a b hab

end Ymq.PolyMul
