/-
A kernel-checkable primality test (trial division by 2 and by the odd numbers up to the square
root) with its correctness proof, used to *compute* facts about `primesBelow` inside Lean (C17):
π(65536) = 6542 (in 16 chunks), hence `HSmall`: the model's `primes(6542)` is the list of all
primes below 2^16; the list of the primes below 464.
-/
import Mathlib.Data.Nat.Prime.Basic
import Mathlib.Data.Nat.Sqrt
import Ymq.Lemmas.PrimesTop

namespace Ymq.Primes

/-- trial division by `d, d+2, …` while `d² ≤ n` -/
def noDivOdd : Nat → Nat → Nat → Bool
  | 0, _, _ => true
  | f + 1, n, d =>
    bif Nat.blt n (d * d) then true
    else bif Nat.beq (n % d) 0 then false else noDivOdd f n (d + 2)

/-- Boolean primality test -/
def isPrimeB (n : Nat) : Bool :=
  Nat.ble 2 n && (Nat.beq n 2 || (!Nat.beq (n % 2) 0 && noDivOdd n n 3))

theorem nat_blt_iff (a b : Nat) : Nat.blt a b = true ↔ a < b := by rw [Nat.blt_eq]
theorem nat_beq_iff (a b : Nat) : Nat.beq a b = true ↔ a = b := by rw [Nat.beq_eq]
theorem nat_ble_iff (a b : Nat) : Nat.ble a b = true ↔ a ≤ b := by rw [Nat.ble_eq]
theorem bool_false_of_not {b : Bool} (h : ¬ b = true) : b = false := by
  cases b
  · rfl
  · exact absurd rfl h

theorem noDivOdd_spec : ∀ f n d, noDivOdd f n d = true ↔
    ∀ t, t < f → (d + 2 * t) * (d + 2 * t) ≤ n → ¬ (d + 2 * t) ∣ n := by
  intro f
  induction f with
  | zero => intro n d; simp [noDivOdd]
  | succ f ih =>
    intro n d
    rw [noDivOdd]
    by_cases h1 : n < d * d
    · have : Nat.blt n (d * d) = true := (nat_blt_iff _ _).mpr h1
      rw [this]
      simp only [cond_true, true_iff]
      intro t _ hle
      exfalso
      have : d * d ≤ (d + 2 * t) * (d + 2 * t) := Nat.mul_le_mul (by omega) (by omega)
      omega
    · have : Nat.blt n (d * d) = false :=
        bool_false_of_not (fun hc => h1 ((nat_blt_iff _ _).mp hc))
      rw [this]
      simp only [cond_false]
      by_cases h2 : n % d = 0
      · have : Nat.beq (n % d) 0 = true := (nat_beq_iff _ _).mpr h2
        rw [this]
        simp only [cond_true, Bool.false_eq_true, false_iff]
        intro hall
        exact hall 0 (by omega) (by simpa using Nat.le_of_not_lt h1)
          (by simpa using Nat.dvd_of_mod_eq_zero h2)
      · have : Nat.beq (n % d) 0 = false :=
          bool_false_of_not (fun hc => h2 ((nat_beq_iff _ _).mp hc))
        rw [this]
        simp only [cond_false]
        rw [ih n (d + 2)]
        constructor
        · intro hall t ht
          cases t with
          | zero =>
            intro _ hd
            exact h2 (Nat.mod_eq_zero_of_dvd (by simpa using hd))
          | succ t =>
            have := hall t (by omega)
            rw [show d + 2 + 2 * t = d + 2 * (t + 1) by ring] at this
            exact this
        · intro hall t ht
          have := hall (t + 1) (by omega)
          rw [show d + 2 * (t + 1) = d + 2 + 2 * t by ring] at this
          exact this

theorem isPrimeB_iff (n : Nat) : isPrimeB n = true ↔ n.Prime := by
  unfold isPrimeB
  rw [Bool.and_eq_true, Bool.or_eq_true, Bool.and_eq_true, noDivOdd_spec, nat_ble_iff,
    nat_beq_iff, Bool.not_eq_true']
  have hodd_iff : Nat.beq (n % 2) 0 = false ↔ ¬ n % 2 = 0 := by
    constructor
    · intro h hc
      rw [(nat_beq_iff _ _).mpr hc] at h
      exact absurd h (by decide)
    · intro h
      exact bool_false_of_not (fun hc => h ((nat_beq_iff _ _).mp hc))
  rw [hodd_iff]
  constructor
  · rintro ⟨h2, h | ⟨hodd, hall⟩⟩
    · rw [h]; exact Nat.prime_two
    · rw [Nat.prime_def_le_sqrt]
      refine ⟨h2, ?_⟩
      intro m hm2 hms hmd
      have hmm : m * m ≤ n := Nat.le_sqrt.mp hms
      rcases Nat.even_or_odd' m with ⟨j, rfl | rfl⟩
      · -- even divisor: then 2 ∣ n
        have : 2 ∣ n := dvd_trans ⟨j, rfl⟩ hmd
        exact hodd (Nat.mod_eq_zero_of_dvd this)
      · have hj : 1 ≤ j := by omega
        have := hall (j - 1) (by
          have : 2 * j + 1 ≤ (2 * j + 1) * (2 * j + 1) := Nat.le_mul_self _
          omega)
        rw [show 3 + 2 * (j - 1) = 2 * j + 1 by omega] at this
        exact this hmm hmd
  · intro hp
    refine ⟨hp.two_le, ?_⟩
    by_cases h2 : n = 2
    · exact Or.inl h2
    · right
      constructor
      · intro h
        have := Nat.Prime.eq_one_or_self_of_dvd hp 2 (Nat.dvd_of_mod_eq_zero h)
        omega
      · intro t _ hle hd
        have := Nat.Prime.eq_one_or_self_of_dvd hp _ hd
        rcases this with h | h
        · omega
        · rw [h] at hle
          have : n * 3 ≤ n * n := Nat.mul_le_mul_left _ (by omega)
          have := hp.two_le
          omega

theorem primesBelow_eq_filter (m : Nat) : primesBelow m = (List.range m).filter isPrimeB := by
  unfold primesBelow
  apply List.filter_congr
  intro x _
  by_cases h : x.Prime
  · simp [h, (isPrimeB_iff x).mpr h]
  · have : isPrimeB x = false := by
      cases hb : isPrimeB x
      · rfl
      · exact absurd ((isPrimeB_iff x).mp hb) h
    simp [h, this]

theorem primesFrom_eq_filter (a n : Nat) :
    primesFrom a n = ((List.range n).map (a + ·)).filter isPrimeB := by
  unfold primesFrom
  apply List.filter_congr
  intro x _
  by_cases h : x.Prime
  · simp [h, (isPrimeB_iff x).mpr h]
  · have : isPrimeB x = false := by
      cases hb : isPrimeB x
      · rfl
      · exact absurd ((isPrimeB_iff x).mp hb) h
    simp [h, this]

/-- number of primes in `[a, a + n)`, in computable form -/
def cntFrom (a n : Nat) : Nat := (((List.range n).map (a + ·)).filter isPrimeB).length

theorem length_primesFrom (a n : Nat) : (primesFrom a n).length = cntFrom a n := by
  rw [primesFrom_eq_filter]; rfl

/-- the primes below 464 (the first 90 primes) -/
def first90 : List Nat := [2, 3, 5, 7, 11, 13, 17, 19, 23, 29, 31, 37, 41, 43, 47, 53, 59, 61, 67, 71, 73, 79, 83, 89, 97, 101, 103, 107, 109, 113, 127, 131, 137, 139, 149, 151, 157, 163, 167, 173, 179, 181, 191, 193, 197, 199, 211, 223, 227, 229, 233, 239, 241, 251, 257, 263, 269, 271, 277, 281, 283, 293, 307, 311, 313, 317, 331, 337, 347, 349, 353, 359, 367, 373, 379, 383, 389, 397, 401, 409, 419, 421, 431, 433, 439, 443, 449, 457, 461, 463]

theorem primesBelow_464 : primesBelow 464 = first90 := by
  rw [primesBelow_eq_filter]
  decide +kernel

/-! ### π(65536) = 6542, in chunks of 4096 numbers -/

theorem cnt_chunk_0 : cntFrom 0 4096 = 564 := by decide +kernel
theorem cnt_chunk_1 : cntFrom 4096 4096 = 464 := by decide +kernel
theorem cnt_chunk_2 : cntFrom 8192 4096 = 441 := by decide +kernel
theorem cnt_chunk_3 : cntFrom 12288 4096 = 431 := by decide +kernel
theorem cnt_chunk_4 : cntFrom 16384 4096 = 412 := by decide +kernel
theorem cnt_chunk_5 : cntFrom 20480 4096 = 413 := by decide +kernel
theorem cnt_chunk_6 : cntFrom 24576 4096 = 399 := by decide +kernel
theorem cnt_chunk_7 : cntFrom 28672 4096 = 388 := by decide +kernel
theorem cnt_chunk_8 : cntFrom 32768 4096 = 396 := by decide +kernel
theorem cnt_chunk_9 : cntFrom 36864 4096 = 380 := by decide +kernel
theorem cnt_chunk_10 : cntFrom 40960 4096 = 390 := by decide +kernel
theorem cnt_chunk_11 : cntFrom 45056 4096 = 373 := by decide +kernel
theorem cnt_chunk_12 : cntFrom 49152 4096 = 381 := by decide +kernel
theorem cnt_chunk_13 : cntFrom 53248 4096 = 382 := by decide +kernel
theorem cnt_chunk_14 : cntFrom 57344 4096 = 365 := by decide +kernel
theorem cnt_chunk_15 : cntFrom 61440 4096 = 363 := by decide +kernel

theorem length_primesBelow_chunk (j c : Nat) (h : cntFrom (4096 * j) 4096 = c) :
    (primesBelow (4096 * (j + 1))).length = (primesBelow (4096 * j)).length + c := by
  rw [show 4096 * (j + 1) = 4096 * j + 4096 by ring, primesBelow_append, List.length_append,
    length_primesFrom, h]

/-- there are exactly 6542 primes below 2^16 -/
theorem length_primesBelow_65536 : (primesBelow 65536).length = 6542 := by
  have h0 : (primesBelow (4096 * 0)).length = 0 := by simp [primesBelow]
  have h1 : (primesBelow (4096 * 1)).length = 564 := by
    rw [length_primesBelow_chunk 0 564 cnt_chunk_0, h0]
  have h2 : (primesBelow (4096 * 2)).length = 1028 := by
    rw [length_primesBelow_chunk 1 464 cnt_chunk_1, h1]
  have h3 : (primesBelow (4096 * 3)).length = 1469 := by
    rw [length_primesBelow_chunk 2 441 cnt_chunk_2, h2]
  have h4 : (primesBelow (4096 * 4)).length = 1900 := by
    rw [length_primesBelow_chunk 3 431 cnt_chunk_3, h3]
  have h5 : (primesBelow (4096 * 5)).length = 2312 := by
    rw [length_primesBelow_chunk 4 412 cnt_chunk_4, h4]
  have h6 : (primesBelow (4096 * 6)).length = 2725 := by
    rw [length_primesBelow_chunk 5 413 cnt_chunk_5, h5]
  have h7 : (primesBelow (4096 * 7)).length = 3124 := by
    rw [length_primesBelow_chunk 6 399 cnt_chunk_6, h6]
  have h8 : (primesBelow (4096 * 8)).length = 3512 := by
    rw [length_primesBelow_chunk 7 388 cnt_chunk_7, h7]
  have h9 : (primesBelow (4096 * 9)).length = 3908 := by
    rw [length_primesBelow_chunk 8 396 cnt_chunk_8, h8]
  have h10 : (primesBelow (4096 * 10)).length = 4288 := by
    rw [length_primesBelow_chunk 9 380 cnt_chunk_9, h9]
  have h11 : (primesBelow (4096 * 11)).length = 4678 := by
    rw [length_primesBelow_chunk 10 390 cnt_chunk_10, h10]
  have h12 : (primesBelow (4096 * 12)).length = 5051 := by
    rw [length_primesBelow_chunk 11 373 cnt_chunk_11, h11]
  have h13 : (primesBelow (4096 * 13)).length = 5432 := by
    rw [length_primesBelow_chunk 12 381 cnt_chunk_12, h12]
  have h14 : (primesBelow (4096 * 14)).length = 5814 := by
    rw [length_primesBelow_chunk 13 382 cnt_chunk_13, h13]
  have h15 : (primesBelow (4096 * 15)).length = 6179 := by
    rw [length_primesBelow_chunk 14 365 cnt_chunk_14, h14]
  have h16 : (primesBelow (4096 * 16)).length = 6542 := by
    rw [length_primesBelow_chunk 15 363 cnt_chunk_15, h15]
  exact h16

end Ymq.Primes
