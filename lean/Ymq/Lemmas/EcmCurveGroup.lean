/-
The whole-curve model (Model/EcmCurve.lean) over an additive commutative group in which the point operations
are the group law: what stage 1 reaches, what the baby and giant tables hold.
-/
import Ymq.Model.EcmCurve
import Ymq.Lemmas.ChainGroup
import Ymq.Lemmas.ChainLong
import Mathlib.Algebra.BigOperators.Group.List.Basic
import Mathlib.Tactic.Ring
import Mathlib.Tactic.Abel

namespace Ymq.EcmCurve
open Ymq.Chain

section Group
variable {G : Type} [AddCommGroup G]

/-- the point operations of `Curve` read in a group: both coordinate systems are the group, doubling is `x + x` -/
def grpOps : Ops G G where
  zero := 0
  toExt := id
  toProj := id
  double := dbl
  dblext := dbl
  addext := fun a b => a + b
  addp := fun a b => a + b
  subp := fun a b => a - b

/-- the 64-bit chain builder on a non-zero word (the statement of `C15.chain_eval` without the length) -/
theorem makeChain_spec (k : Nat) (h0 : ¬ k = 0) (hk : k < 2 ^ 64) :
    ∃ c, makeChain k = some c ∧ evalChain c = (k : Int) ∧ WF 7 c := by
  have hW : k < W := by rw [W_eq]; exact hk
  have hcap : 33 ≤ Ymq.Gen.Curves.chainCap := by decide
  unfold makeChain makeChainCap
  generalize Ymq.Gen.Curves.chainCap = cap at hcap
  simp only [h0, if_false]
  by_cases hodd : k % 2 = 1
  · obtain ⟨c, h1, h2, _, h4⟩ := mk64_odd cap 16 (cap + 1) 0 k hodd
      (by have : (8 : Nat) * 16 ^ 16 = 2 ^ 67 := by norm_num
          rw [this]; exact lt_trans hk (by norm_num)) hW (by omega) (by omega)
    exact ⟨c, h1, h2, h4⟩
  · obtain ⟨t, m, ht1, ht, hm, hmo, hstep⟩ := mk64_even cap cap 0 k (by omega) hW (by omega) (by omega)
    have hm63 : m < 8 * 16 ^ 15 := by
      have h15 : (8 : Nat) * 16 ^ 15 = 2 ^ 63 := by norm_num
      rw [h15]
      by_contra hc
      have h2t : 2 ≤ 2 ^ t := by
        calc 2 = 2 ^ 1 := by norm_num
          _ ≤ 2 ^ t := Nat.pow_le_pow_right (by norm_num) ht1
      have : 2 * 2 ^ 63 ≤ 2 ^ t * m := Nat.mul_le_mul h2t (by omega)
      have h64 : (2 : Nat) * 2 ^ 63 = 2 ^ 64 := by norm_num
      omega
    have hmW : m < W := by
      have : m ≤ 2 ^ t * m := Nat.le_mul_of_pos_left m (Nat.pow_pos (by decide : 0 < 2))
      omega
    obtain ⟨c, h1, h2, _, h4⟩ := mk64_odd cap 15 cap 1 m hmo hm63 hmW (by omega) (by omega)
    obtain ⟨hev, hwf⟩ := even_then (m7 := 7) t m c ht1 ht h4 h2
    refine ⟨(2 * (t : Int)) :: c, ?_, ?_, hwf⟩
    · rw [hstep, h1]; rfl
    · rw [hev, ← hm]

theorem grp_mul64 (k : Nat) (hk : k < 2 ^ 64) (P : G) : (grpOps : Ops G G).mul64 k P = some (k • P) := by
  unfold Ops.mul64 grpOps
  simp only
  unfold scalar64Chainmul
  by_cases h0 : k = 0
  · subst h0; simp
  · simp only [h0, if_false]
    obtain ⟨c, h1, h2, h4⟩ := makeChain_spec k h0 hk
    have hg := gapsOk_mkGaps P 4
    rw [h1]
    simp only
    rw [runChain_spec _ P _ hg c (by simpa using h4), h2, natCast_zsmul]

theorem grp_mul1024 (k : Nat) (hk : k < 2 ^ 1024) (P : G) : (grpOps : Ops G G).mul1024 k P = some (k • P) := by
  unfold Ops.mul1024 grpOps
  simp only
  unfold scalar1024Chainmul
  by_cases h0 : k = 0
  · subst h0; simp
  · simp only [h0, if_false]
    have hcap : 295 ≤ Ymq.Gen.Curves.chainLongCap := by decide
    obtain ⟨c, h1, h2, h3, _⟩ := makeChainLongCap_spec (by omega : 0 < k) hk hcap
    have hg := gapsOk_mkGaps P 32
    unfold makeChainLong
    rw [h1]
    simp only
    rw [runChain_spec _ P _ hg c (by simpa using h3), h2, natCast_zsmul]

/-- a block of scalar multiplications multiplies by the product of the block -/
theorem mulBlock_spec {X : Type} (mul : Nat → G → Option G) (B : Nat) (hmul : ∀ k, k < B → ∀ P, mul k P = some (k • P))
    (xOf : G → X) : ∀ (fs : List Nat) (g : G), (∀ f ∈ fs, f < B) →
    ∃ xs, mulBlock mul xOf fs g = some (fs.prod • g, xs) ∧ xs.length = fs.length
  | [], g, _ => ⟨[], by simp [mulBlock, one_nsmul], rfl⟩
  | f :: fs, g, h => by
    obtain ⟨xs, h1, h2⟩ := mulBlock_spec mul B hmul xOf fs (f • g) (fun x hx => h x (List.mem_cons_of_mem _ hx))
    refine ⟨xOf (f • g) :: xs, ?_, by simp [h2]⟩
    simp only [mulBlock, hmul f (h f List.mem_cons_self), h1, List.prod_cons, mul_nsmul]

theorem chunksAux_flatten {α : Type} (k : Nat) (hk : 0 < k) : ∀ (f : Nat) (l : List α), l.length ≤ f →
    (chunksAux k f l).flatten = l ∧ ∀ c ∈ chunksAux k f l, c ≠ [] ∧ c.length ≤ k
  | 0, l, h => by
    have : l = [] := List.eq_nil_of_length_eq_zero (by omega)
    subst this; simp [chunksAux]
  | f + 1, l, h => by
    unfold chunksAux
    by_cases hl : l.isEmpty
    · have : l = [] := List.isEmpty_iff.mp hl
      subst this; simp
    · simp only [hl, Bool.false_eq_true, if_false]
      have hne : l ≠ [] := fun h0 => hl (by simp [h0])
      have hpos : 0 < l.length := List.length_pos_iff.mpr hne
      obtain ⟨ih1, ih2⟩ := chunksAux_flatten k hk f (l.drop k) (by simp; omega)
      refine ⟨by simp [ih1], ?_⟩
      intro c hc
      rcases List.mem_cons.mp hc with rfl | hc
      · refine ⟨?_, by simp⟩
        intro h0
        rcases List.take_eq_nil_iff.mp h0 with h | h
        · omega
        · exact hne h
      · exact ih2 c hc

theorem chunks_flatten {α : Type} (k : Nat) (hk : 0 < k) (l : List α) : (chunks k l).flatten = l :=
  (chunksAux_flatten k hk l.length l (le_refl _)).1

/-- "if the part goes on, it goes on with `g`" -/
def GoesTo {α : Type} (s : Step α) (g : α) : Prop :=
  match s with
  | .go v => v = g
  | _ => True

/-- "the part panics only where `check_gcd_factor` does" -/
def NoPanic {α : Type} (s : Step α) : Prop :=
  match s with
  | .panic => False
  | _ => True

/-- `check_gcd_factor` returns normally, and never the factor 0 -/
def CheckTotal {X : Type} (check : List X → Option (Option Nat)) : Prop :=
  ∀ xs, check xs ≠ none ∧ check xs ≠ some (some 0)

theorem checked_goesTo {α X : Type} (n : Nat) (check : List X → Option (Option Nat)) (xs : List X) (k : Step α) (g : α)
    (h : GoesTo k g) : GoesTo (checked n check xs k) g := by
  unfold checked
  split
  · trivial
  · split <;> trivial
  · exact h

theorem checked_noPanic {α X : Type} (n : Nat) (check : List X → Option (Option Nat)) (hc : CheckTotal check)
    (xs : List X) (k : Step α) (h : NoPanic k) : NoPanic (checked n check xs k) := by
  unfold checked
  split
  · rename_i h0; exact absurd h0 (hc xs).1
  · rename_i d h0
    split
    · rename_i hd; subst hd; exact absurd h0 (hc xs).2
    · trivial
  · exact h

theorem stage1Blocks_spec {X : Type} (n : Nat) (xOf : G → X) (check : List X → Option (Option Nat)) :
    ∀ (blocks : List (List Nat)) (g : G) (lastx : X), (∀ b ∈ blocks, ∀ f ∈ b, f < 2 ^ 64) →
    GoesTo (stage1Blocks n (grpOps : Ops G G).mul64 xOf check blocks g lastx) (blocks.flatten.prod • g) ∧
    (CheckTotal check → NoPanic (stage1Blocks n (grpOps : Ops G G).mul64 xOf check blocks g lastx))
  | [], g, _, _ => by simp [stage1Blocks, GoesTo, NoPanic, one_nsmul]
  | blk :: rest, g, lastx, h => by
    obtain ⟨xs, h1, _⟩ := mulBlock_spec (grpOps : Ops G G).mul64 (2 ^ 64) (fun k hk P => grp_mul64 k hk P) xOf blk g
      (h blk List.mem_cons_self)
    obtain ⟨ih1, ih2⟩ := stage1Blocks_spec n xOf check rest (blk.prod • g) (xOf (blk.prod • g))
      (fun b hb => h b (List.mem_cons_of_mem _ hb))
    simp only [stage1Blocks, h1]
    constructor
    · apply checked_goesTo
      rw [List.flatten_cons, List.prod_append, mul_nsmul]
      exact ih1
    · intro hc
      exact checked_noPanic n check hc _ _ (ih2 hc)

/-! ### baby steps -/

/-- `gaps[k] = (2k + 2) Q` -/
def GapsEven (gaps : List G) (Q : G) : Prop := ∀ k (h : k < gaps.length), gaps[k] = (2 * k + 2) • Q

theorem growGaps_spec (Q : G) : ∀ (f : Nat) (gaps : List G) (tgt : Nat), GapsEven gaps Q → 1 ≤ gaps.length →
    tgt + 1 ≤ f + gaps.length → 1 ≤ f →
    ∃ gaps', growGaps (fun a b : G => a + b) f gaps tgt = some gaps' ∧ GapsEven gaps' Q ∧ 1 ≤ gaps'.length ∧
      tgt ≤ gaps'.length
  | 0, gaps, tgt, _, _, h, hf => by omega
  | f + 1, gaps, tgt, hg, h1, h, _ => by
    unfold growGaps
    by_cases hlt : gaps.length < tgt
    · simp only [hlt, if_true]
      have hne : gaps ≠ [] := List.ne_nil_of_length_pos (by omega)
      obtain ⟨a, ha⟩ : ∃ a, gaps.head? = some a := ⟨gaps.head hne, List.head?_eq_some_head hne⟩
      obtain ⟨b, hb⟩ : ∃ b, gaps.getLast? = some b := ⟨gaps.getLast hne, List.getLast?_eq_some_getLast hne⟩
      simp only [ha, hb]
      have ha' : a = (2 * 0 + 2) • Q := by
        have := hg 0 (by omega)
        rw [← this]
        have h0 : gaps[0]? = some a := by rw [← List.head?_eq_getElem?]; exact ha
        have := List.getElem?_eq_some_iff.mp h0
        obtain ⟨_, h2⟩ := this
        exact h2.symm
      have hb' : b = (2 * (gaps.length - 1) + 2) • Q := by
        have := hg (gaps.length - 1) (by omega)
        rw [← this]
        rw [List.getLast?_eq_getElem?] at hb
        obtain ⟨_, h2⟩ := List.getElem?_eq_some_iff.mp hb
        exact h2.symm
      apply growGaps_spec Q f (gaps ++ [a + b]) tgt
      · intro k hk
        rw [List.length_append, List.length_singleton] at hk
        by_cases hk2 : k < gaps.length
        · rw [List.getElem_append_left hk2]; exact hg k hk2
        · have hk3 : k = gaps.length := by omega
          subst hk3
          rw [List.getElem_append_right (le_refl _)]
          simp only [Nat.sub_self, List.getElem_singleton]
          rw [ha', hb', ← add_nsmul]
          congr 1; omega
      · simp
      · simp; omega
      · omega
    · simp only [hlt, if_false]
      exact ⟨gaps, rfl, hg, h1, by omega⟩

theorem babyLoop_spec (Q : G) : ∀ (bs : List Nat) (bexp : Nat) (bg : G) (gaps : List G), bexp % 2 = 1 →
    (∀ b ∈ bs, b % 2 = 1) → bs.Pairwise (· < ·) → (∀ b ∈ bs, bexp < b) → bg = bexp • Q → GapsEven gaps Q →
    1 ≤ gaps.length → babyLoop (grpOps : Ops G G) bs bexp bg gaps = some (bs.map (· • Q))
  | [], _, _, _, _, _, _, _, _, _, _ => by simp [babyLoop]
  | b :: bs, bexp, bg, gaps, ho, hodd, hpw, hgt, hbg, hg, h1 => by
    have hb : bexp < b := hgt b List.mem_cons_self
    have hbo : b % 2 = 1 := hodd b List.mem_cons_self
    obtain ⟨gaps', e1, hg', h1', hlen⟩ := growGaps_spec Q ((b - bexp) / 2 + 1) gaps ((b - bexp) / 2) hg h1 (by omega) (by omega)
    have hidx : (b - bexp) / 2 - 1 < gaps'.length := by omega
    have hget : gaps'[(b - bexp) / 2 - 1]? = some ((b - bexp) • Q) := by
      rw [List.getElem?_eq_getElem hidx, hg' _ hidx]
      congr 2; omega
    have ih := babyLoop_spec Q bs b (bg + (b - bexp) • Q) gaps' hbo
      (fun x hx => hodd x (List.mem_cons_of_mem _ hx)) (List.Pairwise.of_cons hpw)
      (fun x hx => List.rel_of_pairwise_cons hpw hx)
      (by rw [hbg, ← add_nsmul]; congr 1; omega) hg' h1'
    unfold babyLoop
    have hnlt : ¬ b < bexp := by omega
    have hne : ¬ (b - bexp) / 2 = 0 := by omega
    simp only [hnlt, if_false, hne]
    have e1' : growGaps (grpOps : Ops G G).addext ((b - bexp) / 2 + 1) gaps ((b - bexp) / 2) = some gaps' := e1
    rw [e1']
    simp only [hget]
    have e2 : (grpOps : Ops G G).addext bg ((b - bexp) • Q) = bg + (b - bexp) • Q := rfl
    rw [e2, ih]
    simp only [List.map_cons, Option.some.injEq, List.cons.injEq, and_true]
    show bg + (b - bexp) • Q = b • Q
    rw [hbg, ← add_nsmul]; congr 1; omega

theorem babyIdx_mem {d1 b : Nat} : b ∈ babyIdx d1 ↔ 1 ≤ b ∧ b < d1 / 2 ∧ Nat.gcd b d1 = 1 := by
  unfold babyIdx
  simp only [List.mem_filter, List.mem_range, Bool.and_eq_true, decide_eq_true_eq, beq_iff_eq]
  tauto

theorem babyIdx_sorted (d1 : Nat) : (babyIdx d1).Pairwise (· < ·) := by
  unfold babyIdx
  exact List.Pairwise.filter _ List.pairwise_lt_range

theorem babyIdx_head {d1 : Nat} (h : 4 ≤ d1) : ∃ rest, babyIdx d1 = 1 :: rest := by
  have hmem : 1 ∈ babyIdx d1 := babyIdx_mem.mpr ⟨le_refl _, by omega, by simp⟩
  cases hb : babyIdx d1 with
  | nil => rw [hb] at hmem; simp at hmem
  | cons b0 rest =>
    refine ⟨rest, ?_⟩
    have hs := babyIdx_sorted d1
    rw [hb] at hs hmem
    have hb0 : b0 ∈ babyIdx d1 := by rw [hb]; exact List.mem_cons_self
    have hb1 : 1 ≤ b0 := (babyIdx_mem.mp hb0).1
    rcases List.mem_cons.mp hmem with h1 | h1
    · rw [← h1]
    · have := List.rel_of_pairwise_cons hs h1
      omega

theorem babySteps_spec (Q : G) {d1 : Nat} (hev : 2 ∣ d1) (h4 : 4 ≤ d1) :
    babySteps (grpOps : Ops G G) d1 Q = some ((babyIdx d1).map (· • Q)) := by
  obtain ⟨rest, hr⟩ := babyIdx_head h4
  have hs := babyIdx_sorted d1
  have hodd : ∀ b ∈ babyIdx d1, b % 2 = 1 := by
    intro b hb
    have hg := (babyIdx_mem.mp hb).2.2
    by_contra hcon
    have : 2 ∣ Nat.gcd b d1 := Nat.dvd_gcd (by omega) hev
    rw [hg] at this; omega
  unfold babySteps
  rw [hr] at hs hodd ⊢
  simp only [ne_eq, not_true_eq_false, if_false]
  have hgaps : GapsEven [(grpOps : Ops G G).toExt ((grpOps : Ops G G).double Q),
      (grpOps : Ops G G).toExt ((grpOps : Ops G G).double ((grpOps : Ops G G).double Q))] Q := by
    intro k hk
    simp only [List.length_cons, List.length_nil] at hk
    have : k = 0 ∨ k = 1 := by omega
    rcases this with rfl | rfl
    · show dbl Q = _
      unfold dbl; rw [← two_nsmul]
    · show dbl (dbl Q) = _
      unfold dbl; rw [← two_nsmul, ← two_nsmul, ← mul_nsmul]
  have := babyLoop_spec Q rest 1 ((grpOps : Ops G G).toExt Q) _ (by decide)
    (fun b hb => hodd b (List.mem_cons_of_mem _ hb)) (List.Pairwise.of_cons hs)
    (fun x hx => List.rel_of_pairwise_cons hs hx) (by show Q = 1 • Q; rw [one_nsmul]) hgaps (by simp)
  rw [this]
  simp [one_nsmul]

/-! ### giant steps -/

theorem giantLoop_spec (Q : G) (d1 : Nat) : ∀ (k j : Nat),
    giantLoop (grpOps : Ops G G) (d1 • Q) k ((j * d1) • Q) = (List.range k).map (fun t => ((j + 1 + t) * d1) • Q)
  | 0, _ => by simp [giantLoop]
  | k + 1, j => by
    have e : (grpOps : Ops G G).addext ((j * d1) • Q) (d1 • Q) = ((j + 1) * d1) • Q := by
      show (j * d1) • Q + d1 • Q = _
      rw [← add_nsmul]; congr 1; ring
    simp only [giantLoop, e]
    rw [giantLoop_spec Q d1 k (j + 1), List.range_succ_eq_map]
    simp only [List.map_cons, List.map_map, add_zero]
    congr 1
    apply List.map_congr_left
    intro t _
    simp only [Function.comp]
    congr 2; simp only [Nat.succ_eq_add_one]; ring

theorem giantSteps_spec (Q : G) {d1 : Nat} (hd : d1 < 2 ^ 64) (d2 : Nat) :
    giantSteps (grpOps : Ops G G) d1 d2 Q = some ((giantIdx d2).map (fun i => (i * d1) • Q)) := by
  unfold giantSteps
  rw [grp_mul64 d1 hd Q]
  simp only
  have e2 : (grpOps : Ops G G).double (d1 • Q) = (2 * d1) • Q := by
    show dbl (d1 • Q) = _
    unfold dbl; rw [← two_nsmul, ← mul_nsmul]; congr 1; ring
  have e1 : (grpOps : Ops G G).toExt (d1 • Q) = d1 • Q := rfl
  rw [e2, e1]
  have e3 : (grpOps : Ops G G).toExt ((2 * d1) • Q) = (2 * d1) • Q := rfl
  rw [e3, giantLoop_spec Q d1 (d2 - 2) 2]
  unfold giantIdx
  simp only [List.map_cons, List.map_map, one_mul]
  congr 3
  apply List.map_congr_left
  intro t _
  simp only [Function.comp]
  congr 2; omega

theorem giantIdx_mem {d2 i : Nat} (h2 : 2 ≤ d2) : i ∈ giantIdx d2 ↔ 1 ≤ i ∧ i ≤ d2 := by
  unfold giantIdx
  simp only [List.mem_cons, List.mem_map, List.mem_range]
  constructor
  · rintro (h | h | ⟨t, ht, rfl⟩) <;> omega
  · intro ⟨h1, h3⟩
    by_cases hi1 : i = 1
    · exact Or.inl hi1
    · by_cases hi2 : i = 2
      · exact Or.inr (Or.inl hi2)
      · exact Or.inr (Or.inr ⟨i - 3, by omega, by omega⟩)

end Group

/-! ### products of differences -/

section Ring
variable {X : Type} [CommRing X]

theorem rowProd_zero (pgy : X) : ∀ (bys : List X), rowProd (· * ·) (· - ·) pgy bys 0 = 0
  | [] => rfl
  | b :: t => by simp only [rowProd, zero_mul]; exact rowProd_zero pgy t

theorem rowProd_hit (pgy : X) : ∀ (bys : List X) (buf : X), pgy ∈ bys → rowProd (· * ·) (· - ·) pgy bys buf = 0
  | [], _, h => by simp at h
  | b :: t, buf, h => by
    simp only [rowProd]
    rcases List.mem_cons.mp h with rfl | h
    · rw [sub_self, mul_zero]; exact rowProd_zero _ t
    · exact rowProd_hit pgy t _ h

theorem prodRows_zero (bys : List X) : ∀ (gys : List X) (v : X), v ∈ prodRows (· * ·) (· - ·) bys gys 0 → v = 0
  | [], _, h => by simp [prodRows] at h
  | g :: t, v, h => by
    simp only [prodRows, rowProd_zero] at h
    rcases List.mem_cons.mp h with rfl | h
    · rfl
    · exact prodRows_zero bys t v h

/-- once a giant step has the `y` of a baby step, that row's product and every later one is 0 -/
theorem prodRows_hit (bys : List X) : ∀ (gys : List X) (buf : X) (k : Nat) (gy : X), gys[k]? = some gy → gy ∈ bys →
    ∀ j, k ≤ j → ∀ v, (prodRows (· * ·) (· - ·) bys gys buf)[j]? = some v → v = 0
  | [], _, _, _, h, _, _, _, _, _ => by simp at h
  | g :: t, buf, 0, gy, h, hmem, j, _, v, hv => by
    simp only [List.getElem?_cons_zero, Option.some.injEq] at h
    subst h
    simp only [prodRows, rowProd_hit g bys buf hmem] at hv
    cases j with
    | zero => simp at hv; exact hv.symm
    | succ j =>
      simp only [List.getElem?_cons_succ] at hv
      exact prodRows_zero bys t v (List.mem_of_getElem? hv)
  | g :: t, buf, k + 1, gy, h, hmem, j, hj, v, hv => by
    simp only [List.getElem?_cons_succ] at h
    cases j with
    | zero => omega
    | succ j =>
      simp only [prodRows, List.getElem?_cons_succ] at hv
      exact prodRows_hit bys t _ k gy h hmem j (by omega) v hv

theorem prodRows_length (bys : List X) : ∀ (gys : List X) (buf : X),
    (prodRows (· * ·) (· - ·) bys gys buf).length = gys.length
  | [], _ => rfl
  | g :: t, buf => by simp [prodRows, prodRows_length bys t]

end Ring

end Ymq.EcmCurve
