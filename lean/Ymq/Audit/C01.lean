import Ymq.Props.C01
import Ymq.Props.C01Closed
import Ymq.Props.C01Closed2
import Ymq.Props.C01Closed3
import Ymq.Props.C03Rho
#print axioms Ymq.C01.factor_no_one
#print axioms Ymq.C01.factor_sound
#print axioms Ymq.C01.retain_residue_one
#print axioms Ymq.C01.combineDiv_prod
#print axioms Ymq.C01.combineDiv_no_panic
#print axioms Ymq.C01.factorImpl_prod
#print axioms Ymq.C01.factor_exact
#print axioms Ymq.C01.oracleOK_of_models
#print axioms Ymq.C01.factor_exact_closed
#print axioms Ymq.C01.factor_total_closed
#print axioms Ymq.C01.oracleOK_of_models_v2
#print axioms Ymq.C01.factor_exact_closed_v2
#print axioms Ymq.C01.factor_total_closed_v2
#print axioms Ymq.C01.trial_divided_noSmall
#print axioms Ymq.C01.squfofModel_exactSeed
#print axioms Ymq.C01.qs64_model_violates_oracleOK_clause
#print axioms Ymq.C01.usesPerfectPower_of_model
#print axioms Ymq.C01.usesRho64_of_model
#print axioms Ymq.C01.oracleOK_of_models_v3
#print axioms Ymq.C01.factor_exact_closed_v3
#print axioms Ymq.C01.factor_total_closed_v3
#print axioms Ymq.C01.pp_none_not_tried_power
#print axioms Ymq.C03Rho.rho64_no_panic
#print axioms Ymq.C03Rho.rho_no_panic
#print axioms Ymq.C03Rho.rho_no_panic_call_site
#print axioms Ymq.C03Rho.rho_proper
#print axioms Ymq.C03Rho.rho_uses_rho64
#print axioms Ymq.C03Rho.rho_large_none
#print axioms Ymq.C03Rho.rho_prime_none
#print axioms Ymq.C03Rho.rho_prime_square
#print axioms Ymq.C03Rho.rho_semiprime_no_panic
#print axioms Ymq.C03Rho.rho_semiprime_proper
#print axioms Ymq.C03Rho.noSmall_below_top
#print axioms Ymq.C01.rho_call_sites_return
#print axioms Ymq.C01.rho_call_sites_total
#print axioms Ymq.C01.rho_join_harmless
#print axioms Ymq.C01.pp_join_harmless
#print axioms Ymq.C01.rho_model_exact_on_guard
