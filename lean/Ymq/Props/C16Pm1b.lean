/-
C16, second pass on the whole-function models of Pollard P-1 (Model/Pm1Impl.lean) and Williams P+1
(Model/Pp1Impl.lean): what the first pass left unproved.

  * `pp1_baby_complete`: the baby-step list of `pp1` holds EVERY `b` the loop condition admits; with it
    `pp1_stage2_found` is the full form of `pp1_stage2_found_partial` (both the giant entry and the baby entry are
    entries of the model's lists), and `pp1_stage2_product_zero` says that the double product `roots_eval` is specified
    to compute over those lists vanishes.
-/
import Ymq.Lemmas.Pp1Baby
import Ymq.Props.C16Pp1
import Ymq.Props.C16Pm1

namespace Ymq.C16
open Ymq.Pp1Impl Ymq.ExpModn Ymq.Gen Ymq.Stage2
open Ymq.Pm1Impl (mulm subm onem)

/-! ## P+1: completeness of the baby steps, stage 2 in full -/

/-- **The baby-step list is complete.** Whatever the ring operations: `b = 1` and every odd `b < d1/2` with
`b % 3 ≠ 0` and `gcd(b, d1) = 1` (the exact condition of the loop in pp1.rs) has an entry in the list `pp1` hands to
`roots_eval` as baby steps.  (`pp1_baby_values` is the converse plus the value.) -/
theorem pp1_baby_complete {α : Type*} (mul sub : α → α → α) (g g2 : α) (d1 : Nat) {b : Nat}
    (hb : b = 1 ∨ (b % 2 = 1 ∧ b < d1 / 2 ∧ b % 3 ≠ 0 ∧ Nat.gcd b d1 = 1)) :
    b ∈ (Pp1Impl.babySteps mul sub g g2 d1).map (·.1) := by
  obtain ⟨v, hv⟩ := babySteps_complete mul sub g g2 d1 hb
  exact List.mem_map.mpr ⟨(b, v), hv, rfl⟩

example : (7 : Nat) % 2 = 1 ∧ 7 < 30 / 2 ∧ 7 % 3 ≠ 0 ∧ Nat.gcd 7 30 = 1 := by decide

/-- for `6 ∣ d1` the condition is `gcd(b, d1) = 1` alone: the list is exactly `{b < d1/2 : gcd(b, d1) = 1}` (the set
`pp1_cover` / `pp1_grid_exact` quantify over), with `1` added when `d1 = 6` makes `d1/2 ≤ 1`… (`1 < d1/2` as soon as `d1 ≥ 6`) -/
theorem pp1_baby_exact {α : Type*} (mul sub : α → α → α) (g g2 : α) {d1 : Nat} (h6 : 6 ∣ d1) (hd : 0 < d1) (b : Nat) :
    b ∈ (Pp1Impl.babySteps mul sub g g2 d1).map (·.1) ↔ (1 ≤ b ∧ b < d1 / 2 ∧ Nat.gcd b d1 = 1) := by
  obtain ⟨k, rfl⟩ := h6
  have hk : 1 ≤ k := by omega
  constructor
  · intro hmem
    obtain ⟨x, hx, rfl⟩ := List.mem_map.mp hmem
    have := babySteps_mem_idx mul sub g g2 (6 * k) x hx
    rcases this with h1 | ⟨h2, hlt, h3, hg⟩
    · rw [h1]; exact ⟨by omega, by omega, by simp⟩
    · exact ⟨by omega, hlt, hg⟩
  · rintro ⟨h1, hlt, hg⟩
    refine pp1_baby_complete mul sub g g2 _ (Or.inr ⟨?_, hlt, ?_, hg⟩)
    · rcases Nat.mod_two_eq_zero_or_one b with h | h
      · exfalso
        have : 2 ∣ Nat.gcd b (6 * k) := Nat.dvd_gcd (Nat.dvd_of_mod_eq_zero h) ⟨3 * k, by ring⟩
        rw [hg] at this; omega
      · exact h
    · intro h
      have : 3 ∣ Nat.gcd b (6 * k) := Nat.dvd_gcd (Nat.dvd_of_mod_eq_zero h) ⟨2 * k, by ring⟩
      rw [hg] at this; omega

example : (6 : Nat) ∣ 30 ∧ (1 ≤ 11 ∧ 11 < 30 / 2 ∧ Nat.gcd 11 30 = 1) := by decide

/-- **What stage 2 of `pp1` finds** (full form of `pp1_stage2_found_partial`): for a prime `l` prime to `d1` with
`d1/2 < l ≤ d2·d1 + d1/2 − 1` and `x^(E·l) = 1` (`x·y = 1`; in `F_{p²}`: `x` a root of `X² − seed·X + 1`, `E` the
stage-1 exponent, `l ∣ p + 1` or `l ∣ p − 1`), an entry `(i, v)` of the model's giant steps and an entry `(b, w)` of the
model's baby steps, both computed from `Q = V_E(x + y)` as `pp1` computes them, satisfy `v − w = 0`. -/
theorem pp1_stage2_found {R : Type*} [CommRing R] {x y : R} (hxy : x * y = 1) {E l d1 d2 : Nat}
    (h6 : 6 ∣ d1) (hd : 0 < d1) (hd2 : 1 ≤ d2) (hl : l.Prime) (hnd : ¬ l ∣ d1) (hlo : d1 / 2 < l)
    (hhi : l ≤ d2 * d1 + d1 / 2 - 1) (hm1 : x ^ (E * l) = 1) :
    ∃ iv ∈ giantSteps (· * ·) (· - ·) (2 : R) (chebV (chebV (x + y) E) d1) d2,
      ∃ bw ∈ Pp1Impl.babySteps (· * ·) (· - ·) (chebV (x + y) E) (chebV (chebV (x + y) E) 2) d1, iv.2 - bw.2 = 0 := by
  obtain ⟨iv, hiv, b, hb1, hblt, hbg, hz⟩ := pp1_stage2_found_partial hxy h6 hd hd2 hl hnd hlo hhi hm1
  have hmem := (pp1_baby_exact (· * ·) (· - ·) (chebV (x + y) E) (chebV (chebV (x + y) E) 2) h6 hd b).mpr ⟨hb1, hblt, hbg⟩
  obtain ⟨bw, hbw, hidx⟩ := List.mem_map.mp hmem
  refine ⟨iv, hiv, bw, hbw, ?_⟩
  have hval := (pp1_baby_values (chebV (x + y) E) d1 bw hbw).1
  rw [hval, hidx]
  exact hz

example : (6 : Nat) ∣ 510 ∧ Nat.Prime 601 ∧ ¬ 601 ∣ 510 ∧ 510 / 2 < 601 ∧ 601 ≤ 64 * 510 + 510 / 2 - 1 :=
  ⟨by decide, by norm_num, by decide, by decide, by decide⟩

/-- … hence the double product `∏_j ∏_i (baby_j − giant_i)` that `roots_eval` is specified to compute over the two lists
(`rootsEvalSpec`, cumulated by `stage2Vals`) is `0` in every ring where `x^(E·l) = 1`: modulo a prime factor `p` of `n`
with `l ∣ p ± 1` the last cumulative product is divisible by `p`. -/
theorem pp1_stage2_product_zero {R : Type*} [CommRing R] {x y : R} (hxy : x * y = 1) {E l d1 d2 : Nat}
    (h6 : 6 ∣ d1) (hd : 0 < d1) (hd2 : 1 ≤ d2) (hl : l.Prime) (hnd : ¬ l ∣ d1) (hlo : d1 / 2 < l)
    (hhi : l ≤ d2 * d1 + d1 / 2 - 1) (hm1 : x ^ (E * l) = 1) :
    ((Pp1Impl.babySteps (· * ·) (· - ·) (chebV (x + y) E) (chebV (chebV (x + y) E) 2) d1).map (fun bw =>
      ((giantSteps (· * ·) (· - ·) (2 : R) (chebV (chebV (x + y) E) d1) d2).map (fun iv => bw.2 - iv.2)).prod)).prod = 0 := by
  obtain ⟨iv, hiv, bw, hbw, hz⟩ := pp1_stage2_found hxy h6 hd hd2 hl hnd hlo hhi hm1
  apply List.prod_eq_zero
  refine List.mem_map.mpr ⟨bw, hbw, ?_⟩
  apply List.prod_eq_zero
  refine List.mem_map.mpr ⟨iv, hiv, ?_⟩
  have : bw.2 - iv.2 = -(iv.2 - bw.2) := by ring
  rw [this, hz, neg_zero]

example : ((-1 : ZMod 7) * (-1) = 1) ∧ ((-1 : ZMod 7) ^ (4 * 2) = 1) := by decide

end Ymq.C16
