/-
Closing the oracle contract of the `Factor` control-flow model, third pass: two more fields become
"the field IS the model of the whole function" —

  `UsesPerfectPower o`  ⟵  `PerfectPowerModel o`: `(o.pp t n).1 = (Arith.perfectPower n).join`
                            (Ymq/Model/Arith.lean, C08; ALL answers, `None` included)
  `UsesRho64 o`         ⟵  `RhoModel o`: `(o.rho t n).1 = (PollardRho.rho n).join`
                            (Ymq/Model/PollardRho.lean over the word-exact `rho64` of C16: the budget
                            table, the nine polynomials, first success)

`.join` maps "the real function does not return" (outer `none` of a model) to `None`; the no-panic
theorems (C08 `perfect_power_no_panic`, C03Rho `rho_no_panic_call_site`) show that this case does not
occur for the arguments `factor_impl` passes. Both functions are deterministic, so the premises are
tested on every real run: the follow-up requests of the C01 trace replay re-ask the recorded `pp` and
`rho` answers to the models (props/c01_rho.py `model_followups`).
-/
import Ymq.Lemmas.FactorClosed2
import Ymq.Props.C03Rho

namespace Ymq.Factor

variable {σ : Type}

/-- the `pp` field IS the model of `arith::perfect_power` (every answer, `None` included) -/
def PerfectPowerModel (o : Oracle σ) : Prop :=
  ∀ t n, (o.pp t n).1 = (Ymq.Arith.perfectPower n).join

/-- the `rho` field IS the model of `pollard_rho::rho` (every answer, `None` included) -/
def RhoModel (o : Oracle σ) : Prop :=
  ∀ t n, (o.rho t n).1 = (Ymq.PollardRho.rho n).join

theorem join_eq_some {α} {x : Option (Option α)} {r : α} (h : x.join = some r) : x = some (some r) := by
  cases x with
  | none => simp at h
  | some y => simp only [Option.join_some] at h; rw [h]

theorem usesPerfectPower_of_model' {o : Oracle σ} (h : PerfectPowerModel o) : UsesPerfectPower o := by
  intro t n r hr
  rw [h t n] at hr
  exact join_eq_some hr

theorem usesRho64_of_model' {o : Oracle σ} (h : RhoModel o) : UsesRho64 o := by
  intro t n as b hr
  rw [h t n] at hr
  obtain ⟨c, iters, a, h64, has, _⟩ := Ymq.C03Rho.rho_uses_rho64 n as b (join_eq_some hr)
  exact ⟨c, iters, a, h64, has⟩

/-- what the whole-function model of `perfect_power` gives beyond the `pp` clause: after a `None`
answer the argument is not an e-th power for any tried exponent — in particular not a square, so no
square reaches `rho` / `squfof` / `qsieve64` / the sieves -/
theorem pp_none_not_power {o : Oracle σ} (h : PerfectPowerModel o) (t : σ) (n : Nat)
    (hn : n < 2 ^ 1024) (hnone : (o.pp t n).1 = none) :
    ∀ e ∈ Ymq.Arith.ppExps, ¬ ∃ r, r ^ e = n := by
  obtain ⟨res, hres⟩ := Ymq.C08.perfect_power_no_panic n hn
  rw [h t n, hres] at hnone
  simp only [Option.join_some] at hnone
  subst hnone
  exact Ymq.C08.perfect_power_spec n none hres

end Ymq.Factor
