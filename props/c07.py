"""C07 — Montgomery modular arithmetic equals ordinary arithmetic modulo n."""
from vlib.pipeline import Case
from vlib import gen

PID = "C07"
GEN = []
LEAN = ["Ymq.Props.C07"]
AUDIT = "Ymq.Audit.C07"
THEOREMS = ["Ymq.C07.mgRedc_spec", "Ymq.C07.mgMul_spec"]
PROFILES = ["release", "chk"]
W = 1 << 64
RULE = ("structured moduli (2^64-s, 2^63+s, all-ones, single-bit, random) x operands (0,1,n-1,n/2,near n,random); "
        "non-trivial = request whose operands are not all in {0,1}; distinct by request line")
MODELLED = ["arith_montgomery::{mg_2adic_inv, mg_redc, mg_mul} word-exact (Ymq/Model/Mg64.lean)"]
UNMODELLED = ["u128 arithmetic of rustc/LLVM is taken to be arithmetic mod 2^128"]


def ninv_of(n):
    return (-pow(n, -1, W)) % W


def cases(tier, rng, extended=False):
    N = 4000 if tier == "quick" else 200000
    if extended:
        N *= 10
    for i in range(N):
        n = gen.odd_modulus(rng, 1)
        ninv = ninv_of(n)
        c = i % 4
        if c == 0:
            yield Case(f"mg_2adic_inv {n}")
        elif c == 1:
            x = gen.residue(rng, n) * W + rng.choice([0, 1, W - 1, rng.getrandbits(64)])
            yield Case(f"mg_redc {n} {ninv} {x}")
        else:
            yield Case(f"mg_mul {n} {ninv} {gen.residue(rng, n)} {gen.residue(rng, n)}")
    # outside the documented domain (wrong ninv): only the checked profile has a defined answer
    for i in range(50):
        n = gen.odd_modulus(rng, 1)
        yield Case(f"mg_redc {n} {rng.getrandbits(64)} {rng.randrange(n * W)}", o=False, profiles=["chk"])


def oracle(case, ans):
    a = [int(x) for x in case.args]
    if not ans.isdigit():
        return f"no value returned ({ans})"
    r = int(ans)
    if case.op == "mg_2adic_inv":
        return None if (a[0] * r + 1) % W == 0 and r < W else "n*ninv != -1 mod 2^64"
    if case.op == "mg_redc":
        n, _, x = a
        return None if r < n and (r * W - x) % n == 0 else "r*2^64 != x mod n or r >= n"
    if case.op == "mg_mul":
        n, _, x, y = a
        return None if r < n and (r * W - x * y) % n == 0 else "r*2^64 != x*y mod n or r >= n"
    return "unknown op"


def klass(case, ans):
    return case.op + ("/" + ans if not ans.isdigit() else "")


def nontrivial(case, ans):
    return any(int(x) > 1 for x in case.args[2:]) or case.op == "mg_2adic_inv"

CLAIM = ("Lean theorems (all inputs) that the 64-bit Montgomery reduction/multiplication model never panics on its "
         "domain and returns r < n with r*2^64 = x (mod n); the word-exact model is tied to the code by differential "
         "runs in both build profiles; a Python big-integer oracle checks every implementation answer.")
LEVEL_NOTE = ("Trusted: Lean kernel (+propext, Classical.choice, Quot.sound), the hand-written model's correspondence to "
              "the Rust code (sampled by the harness, not proved), Python integers in the oracle. bnum operators are modelled as Nat arithmetic.")
TECHNIQUE = "Lean 4 proof about a hand model + differential correspondence check + spec oracle"
