/-
Totality of the reference echelon builder `EchP` (Ymq/Model/IntMat.lean) for a prime modulus below
2^63: on a state satisfying the invariant `EchInv`, `add` reaches no panic site
(`assert_eq!(v.len(), …)`, the index accesses of the elimination loop, `inv_mod64(..).unwrap()`,
`assert_eq!(vp[i], self.r)`, `position(..).unwrap()`, `indices.swap`), and `det()` after `n`
accepted rows of length `n` passes its assertion.
-/
import Ymq.Lemmas.IntMatEchPDet
import Ymq.Lemmas.IntMatCrt
import Mathlib.Data.Nat.Prime.Basic

namespace Ymq.IntMat

/-- the elimination loop reaches no index panic when the pivot columns are in range -/
theorem elimP_total (p : Nat) : ∀ (rows : List (List Nat)) (idxs vp : List Nat),
    (∀ r ∈ rows, r.length = vp.length) →
    (∀ a, a < rows.length → ∃ c, idxs[a]? = some c ∧ c < vp.length) →
    ∃ vp', elimP p rows idxs vp = some vp'
  | [], _, vp, _, _ => ⟨vp, by simp [elimP]⟩
  | row :: rows, [], vp, _, h => by
    obtain ⟨c, hc, _⟩ := h 0 (by simp)
    simp at hc
  | row :: rows, idx :: idxs, vp, hr, h => by
    obtain ⟨c, hc, hcl⟩ := h 0 (by simp)
    simp only [List.getElem?_cons_zero, Option.some.injEq] at hc
    subst hc
    unfold elimP
    rw [List.getElem?_eq_getElem hcl]
    simp only []
    have hrow : row.length = vp.length := hr row (by simp)
    have hl : (if vp[idx] = 0 then vp else rowSubMul p vp row vp[idx]).length = vp.length := by
      split
      · rfl
      · exact rowSubMul_length p vp row _ (by omega)
    apply elimP_total p rows idxs _
    · intro r hr'; rw [hl]; exact hr r (by simp [hr'])
    · intro a ha
      obtain ⟨c, hc, hcl'⟩ := h (a + 1) (by simp; omega)
      exact ⟨c, by simpa using hc, by rw [hl]; exact hcl'⟩

theorem rowSubMul_lt (p : Nat) (hp : 0 < p) (v w : List Nat) (m : Nat) : ∀ x ∈ rowSubMul p v w m, x < p := by
  intro x hx
  unfold rowSubMul at hx
  obtain ⟨i, hi, rfl⟩ := List.getElem_of_mem hx
  simp only [List.getElem_zipWith]
  exact Nat.mod_lt _ hp

/-- the elimination loop keeps residues reduced -/
theorem elimP_lt (p : Nat) (hp : 0 < p) : ∀ (rows : List (List Nat)) (idxs vp vp' : List Nat),
    (∀ x ∈ vp, x < p) → elimP p rows idxs vp = some vp' → ∀ x ∈ vp', x < p
  | [], _, vp, vp', hv, h => by
    simp only [elimP] at h; rw [← Option.some.inj h]; exact hv
  | _ :: _, [], _, _, _, h => by simp [elimP] at h
  | row :: rows, idx :: idxs, vp, vp', hv, h => by
    unfold elimP at h
    split at h
    · exact absurd h (by simp)
    · rename_i vi _
      apply elimP_lt p hp rows idxs _ vp' _ h
      split
      · exact hv
      · exact rowSubMul_lt p hp vp row vi

/-- the column order of the builder once `start` has run -/
theorem EchInv.start_perm {p n : Nat} {e : EchP} {rows : List (List Int)} (hI : EchInv p n e rows) (len : Nat)
    (hlen : len = n) :
    ∃ σ : Equiv.Perm (Fin n), (e.start len).indices = permList σ ∧
      (∀ t (_ : t < rows.length) (htn : t < n), vecN p n (e.basis.getD t []) (σ ⟨t, htn⟩) = 1) ∧
      (∀ t s (hst : s < t) (_ : t < rows.length) (htn : t < n),
        vecN p n (e.basis.getD t []) (σ ⟨s, by omega⟩) = 0) := by
  obtain ⟨hp, len_b, len_f, row_len, k_le, _, σ0, c, hidx, hone, hzero, hrow⟩ := hI
  by_cases hr : rows = []
  · refine ⟨1, ?_, ?_, ?_⟩
    · have : e.basis.isEmpty = true := by
        rw [List.isEmpty_iff]; exact List.eq_nil_of_length_eq_zero (by rw [len_b, hr]; rfl)
      unfold EchP.start
      rw [if_pos this, hlen]; exact (permList_one n).symm
    · intro t ht; rw [hr] at ht; simp at ht
    · intro t s _ ht; rw [hr] at ht; simp at ht
  · refine ⟨σ0, ?_, hone, hzero⟩
    have : ¬ e.basis.isEmpty = true := by
      rw [List.isEmpty_iff]; intro hb
      apply hr; exact List.eq_nil_of_length_eq_zero (by rw [← len_b, hb]; rfl)
    unfold EchP.start
    rw [if_neg this]; exact hidx hr

theorem shapeOkP_of_inv {p n : Nat} {e : EchP} {rows : List (List Int)} (hI : EchInv p n e rows) :
    shapeOkP e.basis n = true := by
  unfold shapeOkP
  split
  · rfl
  · rename_i b0 bs hb
    have := hI.row_len b0 (by rw [hb]; simp)
    simp [this]

theorem mem_permList {n : Nat} (σ : Equiv.Perm (Fin n)) (i : Nat) (hi : i < n) : i ∈ permList σ := by
  unfold permList
  rw [List.mem_ofFn]
  exact ⟨σ.symm ⟨i, hi⟩, by simp⟩

/-- **`add` is total** for a prime modulus below 2^63 on a state satisfying the invariant -/
theorem EchInv.add_total (inv : Inv) (hinv : InvSpec inv) (p n : Nat) (hpr : p.Prime) (hp63 : p < I63)
    (e : EchP) (rows : List (List Int)) (v : List Int)
    (hI : EchInv p n e rows) (hv : v.length = n) :
    ∃ e' b, e.add inv v = some (e', b) := by
  have hp0 : 0 < p := hpr.pos
  have hep : e.p = p := hI.hp
  obtain ⟨σ, hσ, hone', hzero'⟩ := hI.start_perm v.length hv
  have hshape := shapeOkP_of_inv hI
  obtain ⟨_, len_b, len_f, row_len, k_le, _, _⟩ := hI
  unfold EchP.add
  rw [if_neg (by rw [hep]; omega), hv, hshape]
  simp only [Bool.not_true, Bool.false_eq_true, if_false]
  rw [← hv]
  simp only [EchP.start_basis, EchP.start_p, EchP.start_factors, hep, hσ]
  set vp0 := v.map (fun x => (x % (p : Int)).toNat) with hvp0
  have hl0 : vp0.length = n := by simp [hvp0, hv]
  have hk : e.basis.length ≤ n := by rw [len_b]; exact k_le
  have hvp0lt : ∀ x ∈ vp0, x < p := by
    intro x hx
    rw [hvp0] at hx
    obtain ⟨y, _, rfl⟩ := List.mem_map.mp hx
    have h0 : 0 ≤ y % (p : Int) := Int.emod_nonneg _ (by omega)
    have h1 : y % (p : Int) < p := Int.emod_lt_of_pos _ (by omega)
    omega
  obtain ⟨vp', helim⟩ := elimP_total p e.basis (permList σ) vp0
    (fun r hr => by rw [hl0]; exact row_len r hr)
    (fun a ha => ⟨_, permList_getElem? σ a (by omega), by rw [hl0]; exact (σ ⟨a, by omega⟩).2⟩)
  have hlt' := elimP_lt p hp0 e.basis (permList σ) vp0 vp' hvp0lt helim
  have hlen' : vp'.length = n := by
    rw [elimP_length p e.basis (permList σ) vp0 vp' (fun r hr => by rw [hl0]; exact row_len r hr) helim, hl0]
  rw [helim]
  simp only []
  cases hfirst : firstNonzero vp' 0 with
  | none => exact ⟨_, _, rfl⟩
  | some iv =>
    obtain ⟨i, vi⟩ := iv
    obtain ⟨_, hi', hvi, hvi0⟩ := firstNonzero_spec vp' 0 i vi hfirst
    simp only [Nat.sub_zero] at hi' hvi
    have hin : i < n := by rw [← hlen']; exact hi'
    have hn0 : 0 < n := by omega
    have hvilt : vi < p := by rw [← hvi]; exact hlt' _ (List.getElem_mem hi')
    have hcop : Nat.Coprime vi p := by
      apply Nat.Coprime.symm
      rw [Nat.Prime.coprime_iff_not_dvd hpr]
      intro hd
      have := Nat.le_of_dvd (by omega) hd
      omega
    have hU : p < U64 := by unfold I63 at hp63; unfold U64; omega
    obtain ⟨iv, hiv, _, hmul⟩ := hinv vi p (by omega) hU hpr.one_lt hcop
    simp only []
    rw [hiv]
    simp only []
    have hrowi : (vp'.map (fun x => x * iv % p))[i]? = some 1 := by
      simp [List.getElem?_map, List.getElem?_eq_getElem hi', hvi, hmul]
    rw [if_neg (by rw [hrowi]; simp)]
    -- the position of the pivot column
    have hmem : i ∈ permList σ := mem_permList σ i hin
    cases hpos : (permList σ).idxOf? i with
    | none =>
      rw [List.idxOf?_eq_none_iff] at hpos
      exact absurd hmem hpos
    | some pos =>
      simp only []
      have hpos' := hpos
      rw [List.idxOf?_eq_some_iff] at hpos'
      obtain ⟨hposl, hposv, _⟩ := hpos'
      have hposn : pos < n := by rw [permList_length] at hposl; exact hposl
      -- the basis is not yet full: otherwise vp' vanishes on every column
      have hkn : e.basis.length < n := by
        by_contra hge
        have hkeq : e.basis.length = n := by omega
        let piv : Nat → Fin n := fun a => if ha : a < n then σ ⟨a, ha⟩ else σ ⟨0, hn0⟩
        have hpiv : ∀ a (ha : a < n), piv a = σ ⟨a, ha⟩ := fun a ha => by simp [piv, ha]
        obtain ⟨_, _, _, hpz⟩ := elimP_spec p n hp0 e.basis (permList σ) piv vp0 vp' hl0 row_len
          (fun a ha => by
            rw [hpiv a (by omega)]
            exact permList_getElem? σ a (by omega))
          (fun a ha => by
            rw [hpiv a (by omega)]
            exact hone' a (by rw [← len_b]; exact ha) (by omega))
          (fun a b hab hb => by
            rw [hpiv a (by omega)]
            exact hzero' b a hab (by rw [← len_b]; exact hb) (by omega))
          helim
        have hσpos : σ ⟨pos, hposn⟩ = ⟨i, hin⟩ := by
          apply Fin.ext
          have := permList_getElem? σ pos hposn
          rw [List.getElem?_eq_getElem hposl, hposv] at this
          exact (Option.some.inj this).symm
        have := hpz pos (by omega)
        rw [hpiv pos hposn, hσpos, vecN_apply _ _ _ _ (by simpa using hi')] at this
        simp only [hvi] at this
        rw [ZMod.natCast_eq_zero_iff] at this
        have := Nat.le_of_dvd (by omega) this
        omega
      have hsw := swapIdx_permList σ ⟨pos, hposn⟩ ⟨e.basis.length, hkn⟩
      simp only [] at hsw
      rw [hsw]
      exact ⟨_, _, rfl⟩

theorem foldl_mulmod_lt (p : Nat) (hp : 0 < p) : ∀ (fs : List Nat) (acc : Nat), acc < p →
    fs.foldl (fun acc f => acc * f % p) acc < p
  | [], acc, h => by simpa using h
  | f :: fs, acc, _ => by
    simp only [List.foldl_cons]
    exact foldl_mulmod_lt p hp fs _ (Nat.mod_lt _ hp)

/-- `det()` passes its assertion and the cycle walk once `n > 0` rows of length `n` are accepted;
the value is a reduced residue -/
theorem echInv_det_total (p n : Nat) (hn : 0 < n) (mat : List (List Int)) (hlen : mat.length = n)
    (e : EchP) (hI : EchInv p n e mat) : ∃ d, e.det = some d ∧ d < p := by
  obtain ⟨hp, len_b, len_f, row_len, _, hppos, σ, c, hidx, _, _, _⟩ := hI
  have hne : mat ≠ [] := by intro h; rw [h] at hlen; simp at hlen; omega
  have hp0 : 0 < p := hppos hne
  have hσ := hidx hne
  unfold EchP.det
  cases hb : e.basis with
  | nil => rw [hb] at len_b; simp at len_b; omega
  | cons b0 bs =>
    simp only []
    have hb0 : b0.length = n := row_len b0 (by rw [hb]; simp)
    rw [if_neg (by rw [len_f, hb0, hlen]; simp), hσ]
    obtain ⟨r, hr1, _⟩ := cycleWalk_spec (2 * n + 1) 0 σ 0 (Nat.zero_le _)
      (fun k hk => absurd hk (Nat.not_lt_zero _)) (by have := moved_le σ; omega)
    have hsw : permSwaps (permList σ) = some r := by
      unfold permSwaps; rw [permList_length]; exact hr1
    rw [hsw]
    simp only []
    refine ⟨_, rfl, ?_⟩
    have hPlt := foldl_mulmod_lt e.p (by rw [hp]; exact hp0) e.factors (1 % e.p) (Nat.mod_lt _ (by rw [hp]; exact hp0))
    rw [hp] at hPlt ⊢
    split
    · omega
    · exact hPlt

/-- **`detModPlain` is total** for a prime modulus below 2^63 and an `n × n` matrix -/
theorem detModPlain_total (inv : Inv) (hinv : InvSpec inv) (p n : Nat) (hn : 0 < n) (hpr : p.Prime) (hp63 : p < I63) :
    ∀ (rest : List (List Int)) (e : EchP) (rows : List (List Int)),
      EchInv p n e rows → (rows ++ rest).length = n → (∀ r ∈ rest, r.length = n) →
      ∃ d, detModPlain inv p e rest = some d ∧ d < p
  | [], e, rows, hI, hlen, _ => by
    simp only [detModPlain]
    simp only [List.append_nil] at hlen
    exact echInv_det_total p n hn rows hlen e hI
  | v :: vs, e, rows, hI, hlen, hr => by
    unfold detModPlain
    have hv : v.length = n := hr v (by simp)
    obtain ⟨e', b, hadd⟩ := hI.add_total inv hinv p n hpr hp63 e rows v hv
    rw [hadd]
    cases b with
    | false => exact ⟨0, rfl, hpr.pos⟩
    | true =>
      simp only []
      have h1 := EchInv.add_true inv p n e e' rows v hI hv hadd
      exact detModPlain_total inv hinv p n hn hpr hp63 vs e' (rows ++ [v]) h1 (by simpa using hlen)
        (fun r hr' => hr r (by simp [hr']))

end Ymq.IntMat
