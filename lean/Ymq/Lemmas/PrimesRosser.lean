/-
The Rosser-type bound `p_k < k·bitlen k` that `fbase::primes` relies on, checked in the kernel for
the first 564 primes (all primes below 4096) with the verified test `isPrimeB` (C17).
-/
import Mathlib.Data.Nat.Prime.Nth
import Ymq.Lemmas.PrimesCount

namespace Ymq.Primes

/-- `l[i] < (k0 + i)·bitlen(k0 + i)` for every `i` with `k0 + i ≥ 2` -/
def rosserOK : Nat → List Nat → Bool
  | _, [] => true
  | k, p :: ps => (Nat.blt k 2 || Nat.blt p (k * bitlen k)) && rosserOK (k + 1) ps

theorem rosserOK_spec : ∀ (l : List Nat) (k0 : Nat), rosserOK k0 l = true →
    ∀ i (hi : i < l.length), 2 ≤ k0 + i → l[i] < (k0 + i) * bitlen (k0 + i) := by
  intro l
  induction l with
  | nil => intro k0 _ i hi; simp at hi
  | cons p ps ih =>
    intro k0 h i hi h2
    rw [rosserOK, Bool.and_eq_true, Bool.or_eq_true, nat_blt_iff, nat_blt_iff] at h
    cases i with
    | zero =>
      rcases h.1 with h1 | h1
      · omega
      · simpa using h1
    | succ i =>
      have := ih (k0 + 1) h.2 i (by simpa using hi) (by omega)
      rw [show k0 + 1 + i = k0 + (i + 1) by omega] at this
      simpa using this

/-- the primes below 4096, in computable form -/
def small564 : List Nat := (List.range 4096).filter isPrimeB

theorem primesBelow_4096 : primesBelow 4096 = small564 := primesBelow_eq_filter 4096

attribute [irreducible] small564

theorem small564_length : small564.length = 564 := by decide +kernel

theorem small564_rosser : rosserOK 1 small564 = true := by decide +kernel

theorem small564_eq : small564 = (List.range 564).map (Nat.nth Nat.Prime) := by
  have h := primesBelow_eq_map_nth 4096
  rw [primesBelow_4096] at h
  have hlen : Nat.count Nat.Prime 4096 = 564 := by
    have := congrArg List.length h
    rw [List.length_map, List.length_range, small564_length] at this
    exact this.symm
  rw [hlen] at h
  exact h

/-- the bound the code relies on, for the first 564 primes -/
theorem rosser_564 (k : Nat) (h2 : 2 ≤ k) (hk : k ≤ 564) :
    Nat.nth Nat.Prime (k - 1) < k * bitlen k := by
  have hi : k - 1 < small564.length := by rw [small564_length]; omega
  have := rosserOK_spec small564 1 small564_rosser (k - 1) hi (by omega)
  rw [show 1 + (k - 1) = k by omega] at this
  have e : small564[k - 1] = Nat.nth Nat.Prime (k - 1) := by
    have h := small564_eq
    have : small564[k - 1]? = ((List.range 564).map (Nat.nth Nat.Prime))[k - 1]? := by rw [← h]
    rw [List.getElem?_eq_getElem hi, List.getElem?_map, List.getElem?_range (by omega)] at this
    simpa using this
  rw [← e]; exact this

end Ymq.Primes
