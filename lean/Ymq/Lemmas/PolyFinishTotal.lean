/-
SIQS (C12): the checks of `_finish_polynomial` hold on the parameter domain (bit lengths, rounded root).
-/
import Ymq.Lemmas.PolySizesWalk
namespace Ymq.PolySizes
open Ymq.SiqsPoly Ymq.PolyInv Ymq.PolyBits Ymq.PolySiqs Ymq.PolyCrt Ymq.PolyWalkB

set_option exponentiation.threshold 1100

theorem bitlen_le_of_lt {m k : Nat} (h : m < 2 ^ k) : bitlen m ≤ k := by
  unfold bitlen
  split
  · omega
  · rename_i h0
    have := (Nat.log2_lt h0).mpr h
    omega

theorem allSome_isSome {α} : ∀ (l : List (Option α)), (∀ x ∈ l, ∃ v, x = some v) → ∃ l', allSome l = some l' := by
  intro l
  induction l with
  | nil => intro _; exact ⟨[], rfl⟩
  | cons x xs ih =>
    intro h
    obtain ⟨v, rfl⟩ := h x (List.mem_cons_self)
    obtain ⟨l', hl⟩ := ih (fun y hy => h y (List.mem_cons_of_mem _ hy))
    exact ⟨v :: l', by simp [allSome, hl]⟩

theorem finishRoot_isSome {s : Sieve} {type2 : Bool} {b : Nat} {c : Int} {first : Bool} {pp : PP}
    {r12 : Nat × Nat}
    (hinv : pp.divA = true → ∃ v, invMod ((if type2 then 1 else 2) * (b % pp.p)) pp.p = some v) :
    ∃ v, finishRoot s type2 b c first pp r12 = some v := by
  unfold finishRoot
  dsimp only
  split
  · rename_i hdiv
    obtain ⟨v, hv⟩ := hinv hdiv
    rw [hv]
    exact ⟨_, rfl⟩
  · exact ⟨_, rfl⟩

/-- `_finish_polynomial` returns as soon as its checks hold -/
theorem finish_isSome {s : Sieve} {pa : APrep} {pol0 : Poly}
    (hb0 : 0 < pol0.b) (ha0 : pa.a ≠ 0)
    (hdvd : polyM pol0.type2 pa.a ∣ ((pol0.b.toNat * pol0.b.toNat : Nat) : Int) - pol0.n)
    (hinv : ∀ pp ∈ pa.pps, pp.divA = true →
      ∃ v, invMod ((if pol0.type2 then 1 else 2) * (pol0.b.toNat % pp.p)) pp.p = some v)
    (hroot : pa.factors.length ≥ 5 → polyRoot s.nsqrt pol0.type2 pa.a < s.intervalSize / 2)
    (h1 : bitlen pa.a + 2 * bitlen s.intervalSize < 255)
    (h2 : bitlen pol0.b.natAbs + bitlen s.intervalSize < 255)
    (h3 : bitlen pol0.c.natAbs < 255) :
    ∃ pol, finish s pa pol0 = some pol := by
  unfold finish
  rw [if_neg (by omega)]
  dsimp only
  rw [if_neg ha0, if_neg (by
    intro hne
    exact hne (Int.emod_eq_zero_of_dvd hdvd))]
  obtain ⟨rs, hrs⟩ := allSome_isSome (finishRoots s pol0.type2 pol0.b.toNat
    (Int.tdiv (((pol0.b.toNat * pol0.b.toNat : Nat) : Int) - pol0.n) (polyM pol0.type2 pa.a)) pa.pps pol0.rs) (by
    intro x hx
    unfold finishRoots at hx
    obtain ⟨i, hi, rfl⟩ := List.mem_iff_getElem.mp hx
    rw [List.getElem_zipWith, withIdx_getElem]
    apply finishRoot_isSome
    intro hdiv
    exact hinv _ (List.getElem_mem _) hdiv)
  rw [hrs]
  dsimp only
  rw [if_neg (by
    rintro ⟨h5, hnot⟩
    exact hnot (hroot h5)), if_neg (by omega), if_neg (by omega), if_neg (by omega)]
  exact ⟨_, rfl⟩

/-- `assert!(a.a.bits() + 2 * mlog < 255)` and `assert!(pol.b.bits() + mlog < 255)` on the domain -/
theorem dom_bits {n : Int} {mm A nf : Nat} (d : SizeDom n mm A nf) (b : Int) (hb0 : 0 ≤ b)
    (hb : b ≤ 2 * nf * A) :
    bitlen A + 2 * bitlen mm < 255 ∧ bitlen b.natAbs + bitlen mm < 255 := by
  have hA := dom_A_lt d
  have h1 : bitlen A ≤ 213 := bitlen_le_of_lt hA
  have h2 : bitlen mm ≤ 20 := bitlen_le_of_lt d.mhi
  have hb' : b.natAbs < 2 ^ 219 := by
    have : (nf : Int) ≤ 32 := by exact_mod_cast d.nfhi
    have hA' : (A : Int) < 2 ^ 213 := by exact_mod_cast hA
    have : b < 2 ^ 219 := by
      have e : (2 : Int) ^ 219 = 64 * 2 ^ 213 := by norm_num
      nlinarith
    omega
  have h3 : bitlen b.natAbs ≤ 219 := bitlen_le_of_lt hb'
  omega

/-- arithmetic core of the root assertion: with `X = A·h`, `3(s+1) ≤ 4X + 3h + 3`, `A ≥ 1500`, the inequality
`2X² < (s+1)²` is impossible -/
theorem root_key {A h s : Nat} (hA1500 : 1500 ≤ A) (h1 : 1 ≤ h)
    (h3s : 3 * (s + 1) ≤ 4 * (A * h) + 3 * h + 3) :
    ¬ (2 * (A * h * (A * h)) < (s + 1) * (s + 1)) := by
  intro hc
  generalize hX : A * h = X at *
  have hX1 : 250 * (3 * h + 3) ≤ X := by
    have : 1500 * h ≤ X := by rw [← hX]; exact Nat.mul_le_mul_right h hA1500
    omega
  have h9 : 9 * ((s + 1) * (s + 1)) ≤ (4 * X + 3 * h + 3) * (4 * X + 3 * h + 3) := by
    have := Nat.mul_le_mul h3s h3s
    nlinarith
  have h250 : 250 * (4 * X + 3 * h + 3) ≤ 1001 * X := by omega
  have hsq := Nat.mul_le_mul h250 h250
  nlinarith

theorem target_3s {A h s T : Nat} (hh : 0 < h) (hT : T = max 2000 (s / h)) (h34 : 3 * T ≤ 4 * A) :
    1500 ≤ A ∧ 3 * (s + 1) ≤ 4 * (A * h) + 3 * h + 3 := by
  have h2000 : 2000 ≤ T := by rw [hT]; exact le_max_left _ _
  have hsh : 3 * (s / h) ≤ 4 * A := by
    have : s / h ≤ T := by rw [hT]; exact le_max_right _ _
    omega
  have hdiv2 : s < (s / h + 1) * h := by
    have := Nat.div_add_mod s h
    have := Nat.mod_lt s hh
    nlinarith
  refine ⟨by omega, ?_⟩
  have e : 3 * ((s / h + 1) * h) = 3 * (s / h) * h + 3 * h := by ring
  have : 3 * (s / h) * h ≤ 4 * A * h := Nat.mul_le_mul_right h hsh
  have e2 : 4 * A * h = 4 * (A * h) := by ring
  omega

/-- `assert!((root as usize) < s.interval_size / 2)`: holds when `A ≥ ¾·target` (tolerance divisor ≥ 4) -/
theorem dom_root {n : Int} {mm A nf : Nat} (d : SizeDom n mm A nf)
    (h34 : 3 * siqsTarget n mm ≤ 4 * A) :
    polyRoot (mkSieve n mm).nsqrt (isType2 n) A < mm / 2 := by
  obtain ⟨npos, _, mlo, _, _, _, _⟩ := d
  obtain ⟨N, habs, hNn⟩ : ∃ N : Nat, n.natAbs = N ∧ n.toNat = N := ⟨n.toNat, by omega, rfl⟩
  have hns : (mkSieve n mm).nsqrt = isqrt N := by
    simp only [mkSieve]; rw [if_pos npos, hNn]
  rw [hns]
  obtain ⟨r1, r2⟩ := isqrt_spec N
  generalize isqrt N = r at r1 r2 ⊢
  have hh : 0 < mm / 2 := by omega
  have hmod : ∀ x : Nat, x % 2 ^ 64 ≤ x := fun x => Nat.mod_le _ _
  unfold polyRoot
  by_cases htyp : isType2 n = true
  · have hT : siqsTarget n mm = max 2000 (isqrt (N / 2) / (mm / 2)) := by
      unfold siqsTarget; rw [if_pos htyp, habs]
    obtain ⟨_, a2⟩ := isqrt_spec (N / 2)
    generalize isqrt (N / 2) = s at hT a2
    obtain ⟨hA, h3s⟩ := target_3s hh hT h34
    rw [if_pos htyp]
    refine lt_of_le_of_lt (hmod _) ?_
    rw [Nat.div_lt_iff_lt_mul (by omega)]
    by_contra hc
    have hc' : 2 * (A * (mm / 2)) ≤ r := by
      have := Nat.le_of_not_lt hc
      have e : mm / 2 * (2 * A) = 2 * (A * (mm / 2)) := by ring
      omega
    have hsq : 2 * (A * (mm / 2)) * (2 * (A * (mm / 2))) ≤ r * r := Nat.mul_le_mul hc' hc'
    have e : 2 * (A * (mm / 2)) * (2 * (A * (mm / 2))) = 4 * (A * (mm / 2) * (A * (mm / 2))) := by ring
    apply root_key hA hh h3s
    omega
  · have hT : siqsTarget n mm = max 2000 (isqrt (N * 2) / (mm / 2)) := by
      unfold siqsTarget; rw [if_neg htyp, habs]
    obtain ⟨_, a2⟩ := isqrt_spec (N * 2)
    generalize isqrt (N * 2) = s at hT a2
    obtain ⟨hA, h3s⟩ := target_3s hh hT h34
    rw [if_neg htyp]
    refine lt_of_le_of_lt (hmod _) ?_
    rw [Nat.div_lt_iff_lt_mul (by omega)]
    by_contra hc
    have hc' : A * (mm / 2) ≤ r := by
      have := Nat.le_of_not_lt hc
      have e : mm / 2 * A = A * (mm / 2) := by ring
      omega
    have hsq : A * (mm / 2) * (A * (mm / 2)) ≤ r * r := Nat.mul_le_mul hc' hc'
    apply root_key hA hh h3s
    omega

end Ymq.PolySizes
