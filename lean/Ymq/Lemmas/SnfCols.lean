/-
Column operations of the model of `SmithNormalForm` on the `i128` path (`0 < h < 2^63`):
`colsub` and `colswap`. A column operation is an automorphism `φ` of `(Z/h)^n` applied to every row
of `rows` and, simultaneously, to every row of `q`; `colswap` follows it by row operations
(`eliminate`, `normalize`), which keep the relation module and do not touch `q`.
-/
import Ymq.Lemmas.SnfOps
import Mathlib.LinearAlgebra.Pi

namespace Ymq.Snf
open Ymq.Arith (chk128)

/-- `RowEquiv s s'`: same frame and same relation module (what row operations preserve) -/
def RowEquiv (s s' : St) : Prop :=
  SameFrame s s' ∧ rowSpan s.h s.gens.length s'.rows = rowSpan s.h s.gens.length s.rows

theorem RowEquiv.refl (s : St) : RowEquiv s s := ⟨SameFrame.refl s, rfl⟩

theorem RowEquiv.trans {a b c : St} (h1 : RowEquiv a b) (h2 : RowEquiv b c) : RowEquiv a c := by
  refine ⟨h1.1.trans h2.1, ?_⟩
  have e1 : b.h = a.h := h1.1.2.2.1
  have e2 : b.gens = a.gens := h1.1.2.1
  have := h2.2
  rw [e1, e2] at this
  rw [this, h1.2]

/-- `zeroToH` replaces a zero diagonal entry by `h ≡ 0`: nothing changes modulo `h` -/
theorem zeroToH_spec (s s' : St) (k : Nat) (h : s.zeroToH k = some s') : RowEquiv s s' := by
  unfold St.zeroToH at h
  split at h
  · exact absurd h (by simp)
  · rename_i v hv
    split at h
    · rename_i hv0
      cases hset : set2 s.rows k k s.h with
      | none => rw [hset] at h; exact absurd h (by simp)
      | some rows' =>
        rw [hset] at h
        have := (Option.some.inj h).symm; subst this
        unfold set2 at hset
        split at hset
        · exact absurd hset (by simp)
        · rename_i r hr
          split at hset
          · rename_i hk
            have := (Option.some.inj hset).symm; subst this
            obtain ⟨hi, hj, hval⟩ := get2_some hv
            have er : s.rows[k] = r := by
              rw [List.getElem?_eq_getElem hi] at hr; exact Option.some.inj hr
            have hvec : rowVec s.h s.gens.length (r.set k (s.h : Int)) = rowVec s.h s.gens.length r := by
              funext c
              unfold rowVec
              by_cases hc : (c : Nat) = k
              · have h1 : (r.set k (s.h : Int)).getD c 0 = (s.h : Int) := by
                  rw [hc]; simp [List.getD_eq_getElem?_getD, hk]
                have h2 : r.getD c 0 = 0 := by
                  rw [hc]
                  have : r[k] = 0 := by rw [← hv0, ← hval]; simp [er]
                  simp [List.getD_eq_getElem?_getD, List.getElem?_eq_getElem hk, this]
                rw [h1, h2]; simp
              · have : (r.set k (s.h : Int)).getD c 0 = r.getD c 0 := by
                  simp [List.getD_eq_getElem?_getD, List.getElem?_set, Ne.symm hc]
                rw [this]
            refine ⟨⟨rfl, rfl, rfl, rfl, rfl, rfl, by simp⟩, ?_⟩
            apply rowSpan_set _ _ _ _ hi
            · rw [hvec]; exact rowVec_mem_rowSpan _ _ _ _ (by rw [← er]; exact List.getElem_mem _)
            · rw [er, ← hvec]; exact rowVec_mem_rowSpan _ _ _ _ (mem_set_self' _ _ hi _)
          · exact absurd hset (by simp)
    · have e : s = s' := Option.some.inj h
      rw [← e]; exact RowEquiv.refl s

/-- an invariant is preserved by `forM` when every step preserves it -/
theorem forM_inv {σ α} (P : σ → Prop) (f : σ → α → Option σ)
    (hf : ∀ s a s', P s → f s a = some s' → P s') :
    ∀ (l : List α) (s s' : σ), P s → forM l s f = some s' → P s'
  | [], s, s', hp, h => by
    simp [forM] at h; rw [← h]; exact hp
  | a :: as, s, s', hp, h => by
    unfold forM at h
    split at h
    · exact absurd h (by simp)
    · rename_i s1 h1
      exact forM_inv P f hf as s1 s' (hf s a s1 hp h1) h

/-! ### colsub -/

/-- the column transvection `v_i ← v_i - k·v_j` as a linear map -/
def colSubMap (h n : Nat) (i j : Fin n) (k : ZMod h) : (Fin n → ZMod h) →ₗ[ZMod h] (Fin n → ZMod h) where
  toFun v := Function.update v i (v i - k * v j)
  map_add' v w := by
    funext c
    by_cases hc : c = i
    · subst hc; simp; ring
    · simp [Function.update_of_ne hc]
  map_smul' a v := by
    funext c
    by_cases hc : c = i
    · subst hc; simp; ring
    · simp [Function.update_of_ne hc]

theorem colSubMap_comp (h n : Nat) (i j : Fin n) (hij : i ≠ j) (k : ZMod h) :
    (colSubMap h n i j k).comp (colSubMap h n i j (-k)) = LinearMap.id := by
  apply LinearMap.ext
  intro v
  funext c
  simp only [colSubMap, LinearMap.comp_apply, LinearMap.coe_mk, AddHom.coe_mk, LinearMap.id_apply]
  by_cases hc : c = i
  · subst hc
    simp [Function.update_of_ne (Ne.symm hij)]
  · simp [Function.update_of_ne hc]

/-- the column transvection is an automorphism of `(Z/h)^n` (its inverse adds `k·v_j` back) -/
def colSubEquiv (h n : Nat) (i j : Fin n) (hij : i ≠ j) (k : ZMod h) :
    (Fin n → ZMod h) ≃ₗ[ZMod h] (Fin n → ZMod h) :=
  LinearEquiv.ofLinear (colSubMap h n i j k) (colSubMap h n i j (-k))
    (colSubMap_comp h n i j hij k) (by simpa using colSubMap_comp h n i j hij (-k))

/-- `M'` is `M` with `φ` applied to every row -/
def RowsMapped (h n : Nat) (φ : (Fin n → ZMod h) → (Fin n → ZMod h)) (M M' : Mat) : Prop :=
  M'.length = M.length ∧ ∀ r (h1 : r < M.length) (h2 : r < M'.length), rowVec h n M'[r] = φ (rowVec h n M[r])

theorem colsubRow_spec (s : St) (hs : s.small = true) (i j : Fin s.gens.length) (k : Int) (row row' : List Int)
    (h : s.colsubRow i j k row = some row') :
    rowVec s.h s.gens.length row' = colSubMap s.h s.gens.length i j (k : ZMod s.h) (rowVec s.h s.gens.length row) := by
  unfold St.colsubRow at h
  split at h
  · rename_i yi yj hyi hyj
    cases hr : s.subMulMod yi k yj with
    | none => rw [hr] at h; exact absurd h (by simp)
    | some r =>
      rw [hr] at h
      have := (Option.some.inj h).symm; subst this
      have hi : (i : Nat) < row.length := by
        by_contra hne
        rw [List.getElem?_eq_none (by omega)] at hyi
        exact absurd hyi (by simp)
      have hj : (j : Nat) < row.length := by
        by_contra hne
        rw [List.getElem?_eq_none (by omega)] at hyj
        exact absurd hyj (by simp)
      have eyi : row[(i : Nat)] = yi := by
        rw [List.getElem?_eq_getElem hi] at hyi; exact Option.some.inj hyi
      have eyj : row[(j : Nat)] = yj := by
        rw [List.getElem?_eq_getElem hj] at hyj; exact Option.some.inj hyj
      funext c
      simp only [colSubMap, LinearMap.coe_mk, AddHom.coe_mk]
      by_cases hc : c = i
      · subst hc
        rw [Function.update_self, rowVec_apply _ _ _ _ (by simpa using hi), rowVec_apply _ _ _ _ hi,
          rowVec_apply _ _ _ _ hj]
        simp only [List.getElem_set_self]
        rw [subMulMod_small s hs _ _ _ _ hr, eyi, eyj]
      · rw [Function.update_of_ne hc]
        unfold rowVec
        have hci : (i : Nat) ≠ (c : Nat) := fun e => hc (Fin.ext e.symm)
        simp [List.getD_eq_getElem?_getD, List.getElem?_set, hci]
  · exact absurd h (by simp)

/-- **colsub** (`0 < h < 2^63`, square state): the automorphism `v_i ← v_i - k·v_j` of `(Z/h)^n`
is applied to every row of `rows` and of `q`. -/
theorem colsub_spec (s s' : St) (i j : Nat) (k : Int) (hs : s.small = true)
    (hi : i < s.gens.length) (hj : j < s.gens.length) (hij : i ≠ j)
    (hrows : s.rows.length ≤ s.gens.length) (hq : s.q.length ≤ s.gens.length)
    (h : s.colsub i j k = some s') :
    s'.gens = s.gens ∧ s'.h = s.h ∧ s'.qm = s.qm ∧ s'.qe = s.qe ∧ s'.removed = s.removed ∧
    ∃ φ : (Fin s.gens.length → ZMod s.h) ≃ₗ[ZMod s.h] (Fin s.gens.length → ZMod s.h),
      RowsMapped s.h s.gens.length φ s.rows s'.rows ∧ RowsMapped s.h s.gens.length φ s.q s'.q := by
  have hfin : (⟨i, hi⟩ : Fin s.gens.length) ≠ ⟨j, hj⟩ := fun e => hij (by simpa using congrArg Fin.val e)
  unfold St.colsub at h
  split at h
  · rename_i hk0
    have e : s = s' := Option.some.inj h
    rw [← e]
    refine ⟨rfl, rfl, rfl, rfl, rfl, colSubEquiv s.h s.gens.length ⟨i, hi⟩ ⟨j, hj⟩ hfin 0, ?_, ?_⟩ <;>
    · refine ⟨rfl, ?_⟩
      intro r h1 h2
      funext c
      simp only [colSubEquiv, LinearEquiv.ofLinear_apply, colSubMap, LinearMap.coe_mk, AddHom.coe_mk]
      by_cases hc : c = ⟨i, hi⟩
      · subst hc; simp
      · simp [Function.update_of_ne hc]
  · split at h
    · rename_i rows' q' hr hqq
      have := (Option.some.inj h).symm; subst this
      refine ⟨rfl, rfl, rfl, rfl, rfl, colSubEquiv s.h s.gens.length ⟨i, hi⟩ ⟨j, hj⟩ hfin (k : ZMod s.h), ?_, ?_⟩
      · obtain ⟨hl, hn, hent⟩ := updRange_some _ 0 s.gens.length s.rows 0 rows' hr
        refine ⟨hl, ?_⟩
        intro r h1 h2
        have := (hent r h1 h2).1 ⟨Nat.zero_le _, by omega⟩
        simp only [colSubEquiv, LinearEquiv.ofLinear_apply]
        exact colsubRow_spec s hs ⟨i, hi⟩ ⟨j, hj⟩ k _ _ this
      · obtain ⟨hl, hn, hent⟩ := updRange_some _ 0 s.gens.length s.q 0 q' hqq
        refine ⟨hl, ?_⟩
        intro r h1 h2
        have := (hent r h1 h2).1 ⟨Nat.zero_le _, by omega⟩
        simp only [colSubEquiv, LinearEquiv.ofLinear_apply]
        exact colsubRow_spec s hs ⟨i, hi⟩ ⟨j, hj⟩ k _ _ this
    · exact absurd h (by simp)

/-! ### colswap -/

/-- exchanging two columns as an automorphism of `(Z/h)^n` -/
def colSwapEquiv (h n : Nat) (i j : Fin n) : (Fin n → ZMod h) ≃ₗ[ZMod h] (Fin n → ZMod h) :=
  LinearEquiv.funCongrLeft (ZMod h) (ZMod h) (Equiv.swap i j)

theorem colSwapEquiv_apply (h n : Nat) (i j : Fin n) (v : Fin n → ZMod h) (c : Fin n) :
    colSwapEquiv h n i j v c = v (Equiv.swap i j c) := rfl

theorem swapIdx_rowVec (h n : Nat) (i j : Fin n) (row row' : List Int)
    (hsw : swapIdx row i j = some row') :
    rowVec h n row' = colSwapEquiv h n i j (rowVec h n row) := by
  unfold swapIdx at hsw
  split at hsw
  · rename_i a b ha hb
    have := (Option.some.inj hsw).symm; subst this
    have hi : (i : Nat) < row.length := by
      by_contra hne
      rw [List.getElem?_eq_none (by omega)] at ha
      exact absurd ha (by simp)
    have hj : (j : Nat) < row.length := by
      by_contra hne
      rw [List.getElem?_eq_none (by omega)] at hb
      exact absurd hb (by simp)
    have ea : row[(i : Nat)] = a := by
      rw [List.getElem?_eq_getElem hi] at ha; exact Option.some.inj ha
    have eb : row[(j : Nat)] = b := by
      rw [List.getElem?_eq_getElem hj] at hb; exact Option.some.inj hb
    funext c
    rw [colSwapEquiv_apply]
    unfold rowVec
    congr 1
    by_cases hcj : c = j
    · subst hcj
      rw [Equiv.swap_apply_right]
      simp [List.getD_eq_getElem?_getD, List.getElem?_set, hj, hi, ea]
    · by_cases hci : c = i
      · subst hci
        rw [Equiv.swap_apply_left]
        have hne : (j : Nat) ≠ (c : Nat) := fun e => hcj (Fin.ext e.symm)
        simp [List.getD_eq_getElem?_getD, List.getElem?_set, hj, hi, eb, hne]
      · rw [Equiv.swap_apply_of_ne_of_ne hci hcj]
        have h1 : (j : Nat) ≠ (c : Nat) := fun e => hcj (Fin.ext e.symm)
        have h2 : (i : Nat) ≠ (c : Nat) := fun e => hci (Fin.ext e.symm)
        simp [List.getD_eq_getElem?_getD, List.getElem?_set, h1, h2]
  · exact absurd hsw (by simp)

theorem mapOpt_swap_mapped (h n : Nat) (i j : Fin n) (M M' : Mat)
    (hm : mapOpt (swapIdx · (i : Nat) (j : Nat)) M = some M') :
    RowsMapped h n (colSwapEquiv h n i j) M M' := by
  obtain ⟨hl, hent⟩ := mapOpt_some _ M M' hm
  refine ⟨hl, ?_⟩
  intro r h1 h2
  exact swapIdx_rowVec h n i j _ _ (hent r h1 h2)

/-- the relation module of rows mapped by a linear map is the image of the relation module -/
theorem rowSpan_mapped (h n : Nat) (φ : (Fin n → ZMod h) →ₗ[ZMod h] (Fin n → ZMod h)) (M M' : Mat)
    (hm : RowsMapped h n φ M M') : rowSpan h n M' = (rowSpan h n M).map φ := by
  unfold rowSpan
  rw [Submodule.map_span]
  congr 1
  ext v
  constructor
  · rintro ⟨row', hr', rfl⟩
    obtain ⟨r, hr, rfl⟩ := List.getElem_of_mem hr'
    have h1 : r < M.length := by rw [← hm.1]; exact hr
    exact ⟨rowVec h n M[r], ⟨M[r], List.getElem_mem _, rfl⟩, (hm.2 r h1 hr).symm⟩
  · rintro ⟨w, ⟨row, hrow, rfl⟩, rfl⟩
    obtain ⟨r, hr, rfl⟩ := List.getElem_of_mem hrow
    have h2 : r < M'.length := by rw [hm.1]; exact hr
    exact ⟨M'[r], List.getElem_mem _, (hm.2 r hr h2).symm⟩

/-- a chain of row operations: the step function of the loops of `colswap` keeps `RowEquiv` -/
theorem rowops_step (s0 : St) (hs0 : s0.small = true) (k j : Nat) :
    ∀ s s', (RowEquiv s0 s) →
      (match forM (rangeFrom (k + 1) (j + 1)) s (fun s l => s.eliminate k l k) with
        | none => none
        | some s =>
          match s.normalize k k with
          | none => none
          | some s => s.zeroToH k) = some s' → RowEquiv s0 s' := by
  intro s s' hP h
  split at h
  · exact absurd h (by simp)
  · rename_i s1 h1
    have hP1 : RowEquiv s0 s1 := by
      apply forM_inv (fun t => RowEquiv s0 t) _ _ _ s s1 hP h1
      intro t a t' ht hstep
      have hsm : t.small = true := small_of_sameFrame ht.1 hs0
      have := eliminate_spec t t' k a k hsm hstep
      exact ht.trans this
    split at h
    · exact absurd h (by simp)
    · rename_i s2 h2
      have hsm1 : s1.small = true := small_of_sameFrame hP1.1 hs0
      have hP2 : RowEquiv s0 s2 := hP1.trans (normalize_spec s1 s2 k k hsm1 h2)
      exact hP2.trans (zeroToH_spec s2 s' k h)

/-- **colswap** (`0 < h < 2^63`): the two columns are exchanged in `rows` and in `q` (an automorphism
`φ` of `(Z/h)^n`), then rows `i..=j` are re-triangularised by row operations that keep the relation
module and leave `q` alone: the new relation module is the image of the old one under `φ`, and
every row of `q` is mapped by the same `φ`. -/
theorem colswap_spec (s s' : St) (i j : Nat) (hs : s.small = true)
    (hi : i < s.gens.length) (hj : j < s.gens.length) (h : s.colswap i j = some s') :
    s'.gens = s.gens ∧ s'.h = s.h ∧ s'.rows.length = s.rows.length ∧
    ∃ φ : (Fin s.gens.length → ZMod s.h) ≃ₗ[ZMod s.h] (Fin s.gens.length → ZMod s.h),
      RowsMapped s.h s.gens.length φ s.q s'.q ∧
      rowSpan s.h s.gens.length s'.rows = (rowSpan s.h s.gens.length s.rows).map φ.toLinearMap := by
  unfold St.colswap at h
  split at h
  · rename_i rows1 q1 hr1 hq1
    simp only [] at h
    set s1 : St := { s with rows := rows1, q := q1 } with hs1
    have hsm1 : s1.small = true := hs
    have hmr := mapOpt_swap_mapped s.h s.gens.length ⟨i, hi⟩ ⟨j, hj⟩ s.rows rows1 hr1
    have hmq := mapOpt_swap_mapped s.h s.gens.length ⟨i, hi⟩ ⟨j, hj⟩ s.q q1 hq1
    split at h
    · exact absurd h (by simp)
    · rename_i s2 h2
      have hP2 : RowEquiv s1 s2 := by
        apply forM_inv (fun t => RowEquiv s1 t) _ _ _ s1 s2 (RowEquiv.refl s1) h2
        intro t a t' ht hstep
        exact rowops_step s1 hsm1 a j t t' ht hstep
      split at h
      · exact absurd h (by simp)
      · rename_i s3 h3
        have hsm2 : s2.small = true := small_of_sameFrame hP2.1 hsm1
        have hP3 : RowEquiv s1 s3 := hP2.trans (normalize_spec s2 s3 j j hsm2 h3)
        have hP4 : RowEquiv s1 s' := hP3.trans (zeroToH_spec s3 s' j h)
        obtain ⟨⟨e1, e2, e3, _, _, _, e7⟩, hspan⟩ := hP4
        refine ⟨e2, e3, by rw [e7]; exact hmr.1, colSwapEquiv s.h s.gens.length ⟨i, hi⟩ ⟨j, hj⟩, ?_, ?_⟩
        · rw [e1]; exact hmq
        · have : rowSpan s.h s.gens.length s'.rows = rowSpan s.h s.gens.length rows1 := hspan
          rw [this]
          exact rowSpan_mapped s.h s.gens.length _ s.rows rows1 hmr
  · exact absurd h (by simp)

end Ymq.Snf
