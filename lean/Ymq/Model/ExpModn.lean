/-
Models of the exponentiation helpers and of the result-extraction routines of the
group-order methods (C16):

  src/pollard_pm1.rs  `exp_modn`        (3-bit windows on the bit-reversed exponent)
  src/pp1.rs          `chebyshev_modn`  (binary Lucas ladder)
  src/arith_montgomery.rs `gcd_factors` / `find_factors` (binary search over cumulative gcds)
  src/pollard_rho.rs  `rho64`           (Brent's cycle finding on Montgomery words; return guards)

The ring is abstract: `exp_modn` and `chebyshev_modn` only call `zn.mul`, `zn.sub`, `zn.add`,
`zn.one()`; the model takes these operations as parameters (the driver instantiates them with
arithmetic modulo n, the theorems with any commutative monoid / ring).  ZmodN itself is C07.
`none` = panic in the checked profile.  No Mathlib import.
-/
import Ymq.Model.Mg64
import Ymq.Gen.Stage2Arms

namespace Ymq.ExpModn
open Ymq.Gen

/-! ### exp_modn -/

/-- `revBits k x`: the low `k` bits of `x` in reverse order (`u64::reverse_bits` is `revBits 64`). -/
def revBits : Nat → Nat → Nat
  | 0, _ => 0
  | k + 1, x => (x / 2 ^ k) % 2 + 2 * revBits k (x % 2 ^ k)

/-- `x.trailing_zeros()` followed by `x >>= tz` for `x ≠ 0` (fuel = word size): (shifted x, tz). -/
def stripZeros : Nat → Nat → Nat → Nat × Nat
  | 0, x, i => (x, i)
  | f + 1, x, i => if x % 2 = 1 then (x, i) else stripZeros f (x / 2) (i + 1)

/-- the `while i < 64` loop of `exp_modn` -/
def expLoop {α} (mul : α → α → α) (g g3 g5 g7 : α) : Nat → Nat → Nat → α → Option α
  | 0, _, _, _ => none
  | f + 1, exprev, i, res =>
    if i ≥ 64 then some res
    else if exprev % 2 = 0 then
      expLoop mul g g3 g5 g7 f (exprev / 2) (i + 1) (mul res res)
    else
      match exprev % 8 with
      | 1 => expLoop mul g g3 g5 g7 f (exprev / 2) (i + 1) (mul (mul res res) g)
      | 3 => expLoop mul g g3 g5 g7 f (exprev / 4) (i + 2) (mul (mul (mul res res) (mul res res)) g3)
      | 5 =>
        let r2 := mul res res; let r4 := mul r2 r2; let r8 := mul r4 r4
        expLoop mul g g3 g5 g7 f (exprev / 8) (i + 3) (mul r8 g5)
      | 7 =>
        let r2 := mul res res; let r4 := mul r2 r2; let r8 := mul r4 r4
        expLoop mul g g3 g5 g7 f (exprev / 8) (i + 3) (mul r8 g7)
      | _ => none                                   -- unreachable!("impossible")

/-- `exp_modn(zn, g, exp)` for a `u64` exponent. -/
def expModn {α} (mul : α → α → α) (one g : α) (exp : Nat) : Option α :=
  if exp = 0 then some one
  else
    let g2 := mul g g
    let g3 := mul g g2
    let g5 := mul g3 g2
    let g7 := mul g5 g2
    let (exprev, i) := stripZeros 64 (revBits 64 exp) 0
    let first : Option (α × Nat) :=
      match exprev % 8 with
      | 1 => if i > 60 then some (g, 1) else some (g2, 2)
      | 3 => some (g3, 2)
      | 5 => some (g5, 3)
      | 7 => some (g7, 3)
      | _ => none
    match first with
    | none => none
    | some (res, consumed) => expLoop mul g g3 g5 g7 65 (exprev / 2 ^ consumed) (i + consumed) res

def bitlen (n : Nat) : Nat := if n = 0 then 0 else Nat.log2 n + 1

/-! ### exp_modn_large -/

/-- `g_smalls`: `[g, g^3, .., g^63]` built by `gk = gk * g2` -/
def smallPows {α} (mul : α → α → α) (g2 : α) : Nat → α → List α
  | 0, _ => []
  | n + 1, gk => gk :: smallPows mul g2 n (mul gk g2)

/-- `n` squarings -/
def sqN {α} (mul : α → α → α) : Nat → α → α
  | 0, x => x
  | n + 1, x => sqN mul n (mul x x)

/-- `blk.trailing_zeros()` for `0 < blk < 64` -/
def tz6 : Nat → Nat → Nat
  | 0, _ => 0
  | f + 1, b => if b % 2 = 1 then 0 else 1 + tz6 f (b / 2)

/-- the 6-bit block `(exp >> offset) & 63` (`expblock`: the three word-extraction cases all compute this) -/
def expBlock (exp offset : Nat) : Nat := exp / 2 ^ offset % 64

/-- the main loop of `exp_modn_large`; `none` = index out of range in `g_smalls` -/
def largeLoop {α} (mul : α → α → α) (g : α) (smalls : List α) (exp : Nat) : Nat → Nat → α → Option α
  | 0, _, _ => none
  | f + 1, rem, gk =>
    if rem = 0 then some gk
    else if exp / 2 ^ (rem - 1) % 2 = 0 then largeLoop mul g smalls exp f (rem - 1) (mul gk gk)
    else if rem ≥ 6 then
      let blk := expBlock exp (rem - 6)
      let tz := tz6 6 blk
      match smalls[blk / 2 ^ (tz + 1)]? with
      | none => none
      | some s => largeLoop mul g smalls exp f (rem - 6) (sqN mul tz (mul (sqN mul (6 - tz) gk) s))
    else largeLoop mul g smalls exp f (rem - 1) (mul (mul gk gk) g)

/-- `exp_modn_large(zn, g, exp)` for a 1024-bit exponent -/
def expModnLarge {α} (mul : α → α → α) (one g : α) (exp : Nat) : Option α :=
  let bl := bitlen exp
  if bl = 0 then some one
  else if bl = 1 then some g
  else if bl ≤ 64 then expModn mul one g (exp % 2 ^ 64)
  else
    let g2 := mul g g
    let smalls := smallPows mul g2 32 g
    let blk := expBlock exp (bl - 6)
    let tz := tz6 6 blk
    match smalls[blk / 2 ^ (tz + 1)]? with
    | none => none
    | some s => largeLoop mul g smalls exp 1025 (bl - 6) (sqN mul tz s)

/-! ### chebyshev_modn -/

/-- `for i in 1..expbits`: state `(p_k, p_kp1)` -/
def chebLoop {α} (mul sub : α → α → α) (two g : α) (exp expbits : Nat) : Nat → Nat → α × α → α × α
  | 0, _, st => st
  | f + 1, i, (pk, pk1) =>
    let k := exp / 2 ^ (expbits - i)
    let st' := if k % 2 = 0 then (sub (mul pk pk) two, sub (mul pk pk1) g)
               else (sub (mul pk pk1) g, sub (mul pk1 pk1) two)
    chebLoop mul sub two g exp expbits f (i + 1) st'

/-- `chebyshev_modn(zn, g, exp)`; `zero` is the value returned for `exp = 0`. -/
def chebyshevModn {α} (mul sub : α → α → α) (two g zero : α) (exp : Nat) : α :=
  if exp = 0 then zero
  else
    let expbits := bitlen exp
    let (pk, pk1) := chebLoop mul sub two g exp expbits (expbits - 1) 1 (two, g)
    if exp % 2 = 0 then sub (mul pk pk) two else sub (mul pk pk1) g

/-! ### gcd_factors -/

/-- `find_factors`: `G i = gcd(n, vals[i])`, the slice is `vals[lo .. lo+len)`, `pp` = `pseudoprime`.
The `debug_assert!(gcd2 > gcd1 && gcd2 == p*gcd1)` is a panic of the checked profile. -/
def findFactors (G : Nat → Nat) (pp : Nat → Bool) : Nat → Nat → Nat → Nat → Nat → List Nat → Option (List Nat)
  | 0, _, _, _, _, _ => none
  | f + 1, lo, len, g1, g2, acc =>
    if g1 = g2 then some acc
    else if g1 = 0 then none                         -- division by zero
    else
      let p := g2 / g1
      if ¬ (g2 > g1 ∧ g2 = p * g1) then none
      else if pp p || len ≤ 2 then some (acc ++ [p])
      else
        let mid := len / 2
        let d := G (lo + mid)
        match findFactors G pp f lo (mid + 1) g1 d acc with
        | none => none
        | some acc' => findFactors G pp f (lo + mid) (len - mid) d g2 acc'

/-- successive `n /= f` -/
def divAll : Nat → List Nat → Option Nat
  | n, [] => some n
  | n, f :: fs => if f = 0 then none else divAll (n / f) fs

/-- `gcd_factors(n, vals)` where `vals[i]` is given by any integer having the same gcd with `n`. -/
def gcdFactors (n : Nat) (vals : List Nat) (pp : Nat → Bool) : Option (List Nat × Nat) :=
  match vals with
  | [] => none                                        -- vals[0]
  | _ =>
    let G := fun i => Nat.gcd n (vals.getD i 0)
    match findFactors G pp (vals.length + 2) 0 vals.length (G 0) (G (vals.length - 1)) [] with
    | none => none
    | some facs =>
      match divAll n facs with
      | none => none
      | some rest => some (facs, rest)


/-! ### check_gcd_factors (pollard_pm1.rs, pp1.rs), check_gcd_factor (ecm.rs), rho_impl return guard -/

structure CgfState where
  factors : List Nat
  nred : Nat
  vals : List Nat
  deriving DecidableEq

/-- `check_gcd_factors(n, factors, nred, values, _)`: `(returned bool, state after the call)`; `none` = panic.
`gcd_factors` is called on the *reduced* modulus; a factor list containing `n` itself stops the run without
recording anything (`fs.contains(n)`); otherwise the factors are appended, `nred` replaced, and the value list
is cut down to its last element unless the run is complete (`nred == 1 || pseudoprime(nred)`). -/
def checkGcdFactors (n : Nat) (pp : Nat → Bool) (st : CgfState) : Option (Bool × CgfState) :=
  match gcdFactors st.nred st.vals pp with
  | none => none
  | some (fs, nred') =>
    if fs.contains n then some (true, st)
    else
      let st1 : CgfState := if fs.isEmpty then st else { st with factors := st.factors ++ fs, nred := nred' }
      if !fs.isEmpty && (nred' == 1 || pp nred') then some (true, st1)
      else
        match st.vals.getLast? with
        | none => none
        | some last => some (false, { st1 with vals := [last] })

/-- the polynomial path of `pm1_impl` (`b2 > MULTIEVAL_THRESHOLD`): `gcd_factors(nred, vals)` of `pm1_stage2_polyeval` is
appended without `check_gcd_factors`; since commit 9b94f92 a list containing `n` is refused (`return None`).
`none` = panic, `some none` = `return None` by that guard. -/
def pm1PolyStep (n : Nat) (pp : Nat → Bool) (st : CgfState) : Option (Option CgfState) :=
  match gcdFactors st.nred st.vals pp with
  | none => none
  | some (f2, n2) =>
    if Stage2Arms.pm1PolyGuard && f2.contains n then some none
    else some (some { factors := st.factors ++ f2, nred := n2, vals := [] })

/-- what `pm1_impl` / `pp1` return from the accumulated state -/
def splitResult (st : CgfState) : Option (List Nat × Nat) :=
  if st.factors.isEmpty then none else some (st.factors, st.nred)

/-- `ecm::check_gcd_factor(n, values)`: the largest returned factor different from `n` -/
def checkGcdFactor (n : Nat) (vals : List Nat) (pp : Nat → Bool) : Option (Option Nat) :=
  match gcdFactors n vals pp with
  | none => none
  | some (fs, _) => some ((fs.filter (· != n)).max?)

/-- the end of `rho_impl`: `gcd_factors(n, prods)`, refused when nothing or everything was found -/
def rhoImplResult (n : Nat) (prods : List Nat) (pp : Nat → Bool) : Option (Option (List Nat × Nat)) :=
  match gcdFactors n prods pp with
  | none => none
  | some (fs, nred) => if nred == 1 || nred == n then some none else some (some (fs, nred))

/-! `rho_impl` itself, on raw Montgomery words (`R = 2^(64k)`, k words): `x ↦ x²/R + 1`, `x2` two steps per
iteration, `prod ← prod · (x2 − x1) / R`. -/

/-- `-n⁻¹ mod R` by Newton iteration (`R = 2^bits`, n odd) -/
def negInvPow2 (n R : Nat) : Nat :=
  let x := (List.range 11).foldl (fun x _ => x * (2 * R + 2 - n * x % R) % R) 1
  (R - x) % R

def montMul (n R ninv a b : Nat) : Nat :=
  let t := a * b
  let m := t % R * ninv % R
  let u := (t + m * n) / R
  if u ≥ n then u - n else u

def rhoImplLoop (n R ninv : Nat) : Nat → Nat → Nat → Nat → List Nat → List Nat
  | 0, _, _, _, acc => acc.reverse
  | f + 1, x1, x2, prod, acc =>
    let x1 := (montMul n R ninv x1 x1 + 1) % n
    let x2 := (montMul n R ninv x2 x2 + 1) % n
    let x2 := (montMul n R ninv x2 x2 + 1) % n
    let prod := montMul n R ninv prod ((x2 + n - x1) % n)
    rhoImplLoop n R ninv f x1 x2 prod (prod :: acc)

/-- `rho_impl(n, seed, iters)` for odd `n ≥ 3` below 2^512 -/
def rhoImpl (n seed iters : Nat) (pp : Nat → Bool) : Option (Option (List Nat × Nat)) :=
  if n < 2 ^ 63 ∧ ¬ seed < n then none                 -- assert!(n.bits() >= 64 || seed < n.digits()[0])
  else
    let k := (bitlen n + 63) / 64
    let R := 2 ^ (64 * k)
    let ninv := negInvPow2 n R
    let s := seed * R % n
    rhoImplResult n (rhoImplLoop n R ninv iters s s (R % n) []) pp

/-! ### y-normalisation of `ecm_curve` (both implementations): steps are pairs `(y, z)` -/

/-- `for i in 1..l { y[i] *= u; u *= z[i] }` from a given `u` -/
def ynPass {α} (mul : α → α → α) : α → List (α × α) → List (α × α)
  | _, [] => []
  | u, (y, z) :: t => (mul y u, z) :: ynPass mul (mul u z) t

/-- one direction: the first element is left alone and `u` starts as its `z` -/
def ynHead {α} (mul : α → α → α) : List (α × α) → List (α × α)
  | [] => []
  | (y, z) :: t => (y, z) :: ynPass mul z t

/-- forward pass (`u = steps[0].2`, indices `1..l`), then backward pass (`u = steps[l-1].2`, indices `l-2 .. 0`) -/
def ynorm {α} (mul : α → α → α) (l : List (α × α)) : List (α × α) :=
  (ynHead mul (ynHead mul l).reverse).reverse

/-! ### PM1Base::factor (64-bit two-stage P-1): which exponents stage 2 tests -/

/-- `fmax`: number of small-prime blocks applied in stage 1. `c = (1024, 1001, 1000, 64, 503)` are the constants
of the source (`Gen/Stage2Arms.pm1base`). -/
def pm1baseFmax (c : Nat × Nat × Nat × Nat × Nat) (nf budget : Nat) : Nat := min nf (budget * nf / c.1)

/-- the gap walk: `h` is `xr^e` with `e` the *actual* exponent (`jumps[gap/2 - 1] = xr^(2*(gap/2))`), `exp` the nominal
one (`exp = p`). `none` = `jumps` index out of range or `p - exp` underflows. -/
def pm1baseGaps (njumps : Nat) : Nat → Nat → List Nat → List Nat → Option (List Nat)
  | _, _, [], acc => some acc.reverse
  | exp, e, p :: t, acc =>
    if p < exp then none
    else
      let gap := p - exp
      if gap / 2 = 0 ∨ gap / 2 - 1 ≥ njumps then none
      else pm1baseGaps njumps p (e + 2 * (gap / 2)) t ((e + 2 * (gap / 2)) :: acc)

/-- exponents `e` for which `h^e - 1` enters the product (`[]` when `budget < 1001`: no stage 2) -/
def pm1baseTested (c : Nat × Nat × Nat × Nat × Nat) (larges : List Nat) (budget : Nat) : Option (List Nat) :=
  match c with
  | (_, minBudget, off, njumps, first) =>
    if budget < minBudget then some []
    else
      let pmax := min larges.length (budget - off)
      if pmax < 1 then none                                  -- `self.larges[1..pmax]`
      else if larges.head? != some first then none           -- debug_assert!(self.larges[0] == 503)
      else pm1baseGaps njumps first first ((larges.take pmax).drop 1) [first]

/-! ### rho64 -/

def absDiff (a b : Nat) : Nat := if a ≤ b then b - a else a - b

/-- the return guard used at every exit of `rho64` (and of `PM1Base::factor`, `ecm128::ecm_curve`) -/
def guard (n d : Nat) : Option (Nat × Nat) := if 1 < d ∧ d < n then some (d, n / d) else none

structure RhoState where
  x1 : Nat
  x2 : Nat
  prod : Nat
  nstart : Nat
  nend : Nat

/-- body of `for e2 in 1..iters`; outer `none` = panic, `some (.inl r)` = `return r`. -/
def rhoStep (n ninv c : Nat) (s : RhoState) (e2 : Nat) : Option (Sum (Nat × Nat) RhoState) := do
  let sq ← Mg64.mgMul n ninv s.x2 s.x2
  let x2 := sq + c
  if x2 ≥ Mg64.W then none                           -- `x2 += c` overflows
  else if e2 < s.nstart then some (.inr { s with x2 := x2 })
  else do
    let prodnext ← Mg64.mgMul n ninv s.prod (absDiff s.x1 x2)
    let r1 := if prodnext = 0 then guard n (Nat.gcd n (absDiff s.x1 x2)) else none
    match r1 with
    | some r => some (.inl r)
    | none =>
      let r2 := if e2 ≥ 512 ∧ e2 % 128 = 127 then guard n (Nat.gcd n s.prod) else none
      match r2 with
      | some r => some (.inl r)
      | none =>
        if e2 = s.nend then
          let pow2k := e2 + 1
          if pow2k ≠ 2 ^ Nat.log2 pow2k then none      -- debug_assert!(pow2k & (pow2k - 1) == 0)
          else some (.inr { x1 := x2, x2 := x2, prod := prodnext, nstart := pow2k + pow2k / 2, nend := 2 * pow2k - 1 })
        else some (.inr { s with x2 := x2, prod := prodnext })

def rhoLoop (n ninv c iters : Nat) : Nat → Nat → RhoState → Option (Option (Nat × Nat))
  | 0, _, s => some (guard n (Nat.gcd n s.prod))
  | f + 1, e2, s =>
    if e2 ≥ iters then some (guard n (Nat.gcd n s.prod))
    else
      match rhoStep n ninv c s e2 with
      | none => none
      | some (.inl r) => some (some r)
      | some (.inr s') => rhoLoop n ninv c iters f (e2 + 1) s'

/-- `rho64(n, c, iters)`; outer `none` = panic (or `mg_2adic_inv` does not terminate: even `n`). -/
def rho64 (n c iters : Nat) : Option (Option (Nat × Nat)) := do
  let ninv ← Mg64.mg2adicInv n
  rhoLoop n ninv c iters iters 1 { x1 := 2, x2 := 2, prod := 1, nstart := 0, nend := 1 }

end Ymq.ExpModn
