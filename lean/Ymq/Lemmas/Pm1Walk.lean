/-
The prime walk of `pm1_impl` (stage 2 for `b2 <= MULTIEVAL_THRESHOLD`, Model/Pm1Impl.lean `walk*`) on residues:

  * `expModn_natural`: `exp_modn` commutes with every multiplicative map; with `Nat → ZMod m` this transports
    `exp_modn_spec` (stated over a commutative monoid) to the residues `a*b % m` the model computes with
    (`expModn_mod`: no `unreachable!`, value `≡ g^e`);
  * `extendGaps_spec`: the gap table `gaps[i] ≡ g^(2i+2)` is long enough after `extendGaps`: the index `gap/2 − 1`
    of the walk (and of the baby steps of `pm1_stage2_polyeval`) is in range;
  * `walkStep_spec` / `walkBlock_spec`: over a block of increasing odd numbers the walk does not panic, keeps
    `x ≡ g^p_prev`, and every `l` of the block with `p_prev < l ≤ b2` has its term `g^l − 1` in the product.
-/
import Ymq.Lemmas.Pm1Impl
import Ymq.Lemmas.Stage2Exp
import Mathlib.Data.ZMod.Basic

namespace Ymq.Pm1Impl
open Ymq.ExpModn

/-! ### `exp_modn` on residues -/

theorem expLoop_natural {α β} (f : α → β) (mul : α → α → α) (mul' : β → β → β)
    (hf : ∀ a b, f (mul a b) = mul' (f a) (f b)) (g g3 g5 g7 : α) :
    ∀ (fu er i : Nat) (res : α),
      (expLoop mul g g3 g5 g7 fu er i res).map f = expLoop mul' (f g) (f g3) (f g5) (f g7) fu er i (f res)
  | 0, _, _, _ => rfl
  | fu + 1, er, i, res => by
    unfold expLoop
    split
    · rfl
    · split
      · rw [expLoop_natural f mul mul' hf g g3 g5 g7 fu, hf]
      · split
        · rw [expLoop_natural f mul mul' hf g g3 g5 g7 fu, hf, hf]
        · rw [expLoop_natural f mul mul' hf g g3 g5 g7 fu, hf, hf, hf]
        · simp only
          rw [expLoop_natural f mul mul' hf g g3 g5 g7 fu, hf, hf, hf, hf]
        · simp only
          rw [expLoop_natural f mul mul' hf g g3 g5 g7 fu, hf, hf, hf, hf]
        · rfl

theorem expModn_natural {α β} (f : α → β) (mul : α → α → α) (mul' : β → β → β)
    (hf : ∀ a b, f (mul a b) = mul' (f a) (f b)) (one g : α) (e : Nat) :
    (expModn mul one g e).map f = expModn mul' (f one) (f g) e := by
  unfold expModn
  split
  · rfl
  · simp only
    generalize stripZeros 64 (revBits 64 e) 0 = sz
    obtain ⟨er, i⟩ := sz
    simp only
    generalize er % 8 = k
    have hk : k = 1 ∨ k = 3 ∨ k = 5 ∨ k = 7 ∨ (k ≠ 1 ∧ k ≠ 3 ∧ k ≠ 5 ∧ k ≠ 7) := by omega
    rcases hk with rfl | rfl | rfl | rfl | ⟨h1, h3, h5, h7⟩
    · by_cases hc : i > 60 <;> simp [hc, expLoop_natural f mul mul' hf, hf]
    · simp [expLoop_natural f mul mul' hf, hf]
    · simp [expLoop_natural f mul mul' hf, hf]
    · simp [expLoop_natural f mul mul' hf, hf]
    · split
      · split <;> simp_all
      · split <;> simp_all

theorem expModn_mod {m : Nat} (g e : Nat) (he : e < 2 ^ 64) :
    ∃ x, expModn (mulm m) (onem m) g e = some x ∧ x ≡ g ^ e [MOD m] := by
  have hnat := expModn_natural (fun a : Nat => (a : ZMod m)) (mulm m) (· * ·)
    (by intro a b; simp [mulm]) (onem m) g e
  have h1 : ((onem m : Nat) : ZMod m) = 1 := by simp [onem]
  simp only [h1] at hnat
  rw [expModn_eq (g : ZMod m) e he] at hnat
  cases hx : expModn (mulm m) (onem m) g e with
  | none => rw [hx] at hnat; simp at hnat
  | some x =>
    rw [hx] at hnat
    simp only [Option.map_some, Option.some.injEq] at hnat
    refine ⟨x, rfl, ?_⟩
    rw [← ZMod.natCast_eq_natCast_iff]
    rw [hnat]; push_cast; rfl

/-! ### the gap table -/

/-- `gaps[i] ≡ g^(2i+2)` -/
def GInv (m g : Nat) (gaps : List Nat) : Prop :=
  gaps ≠ [] ∧ ∀ i v, gaps[i]? = some v → v ≡ g ^ (2 * i + 2) [MOD m]

theorem extendGaps_spec {m g g2 : Nat} (hg2 : g2 ≡ g ^ 2 [MOD m]) :
    ∀ (f : Nat) (gaps : List Nat) (half : Nat), GInv m g gaps → half + 1 ≤ gaps.length + f →
      ∃ gaps', extendGaps m g2 f gaps half = some gaps' ∧ half < gaps'.length ∧ GInv m g gaps'
  | 0, gaps, half, hinv, hlen => ⟨gaps, rfl, by omega, hinv⟩
  | f + 1, gaps, half, hinv, hlen => by
    rw [extendGaps]
    split
    · rename_i hle
      have hne := hinv.1
      have hpos : 0 < gaps.length := List.length_pos_iff.mpr hne
      have hlast : gaps.getLast? = some (gaps[gaps.length - 1]'(by omega)) := by
        rw [List.getLast?_eq_getElem?, List.getElem?_eq_getElem]
      rw [hlast]
      simp only
      apply extendGaps_spec hg2 f _ half _ (by simp; omega)
      refine ⟨by simp, fun i v hv => ?_⟩
      by_cases hi : i < gaps.length
      · rw [List.getElem?_append_left hi] at hv
        exact hinv.2 i v hv
      · rw [List.getElem?_append_right (by omega)] at hv
        have hi0 : i - gaps.length = 0 := by
          by_contra hc
          rw [List.getElem?_eq_none (by simp; omega)] at hv
          exact absurd hv (by simp)
        rw [hi0] at hv
        simp only [List.getElem?_cons_zero, Option.some.injEq] at hv
        subst hv
        have hl := hinv.2 (gaps.length - 1) _ (List.getElem?_eq_getElem (by omega))
        have hie : i = gaps.length := by omega
        subst hie
        unfold mulm
        refine (Nat.mod_modEq _ _).trans ?_
        have := hl.mul hg2
        rw [← pow_add] at this
        rw [show 2 * gaps.length + 2 = 2 * (gaps.length - 1) + 2 + 2 by omega]
        exact this
    · rename_i hgt
      exact ⟨gaps, rfl, by omega, hinv⟩

/-- the walk invariant: `x ≡ g^p_prev`, `gaps[i] ≡ g^(2i+2)` modulo the ring modulus -/
def WInv (m g : Nat) (w : W) : Prop := w.x ≡ g ^ w.pPrev [MOD m] ∧ GInv m g w.gaps

/-- one prime of the walk: no panic for an even positive gap, the invariant is kept, the new term is `g^p − 1` -/
theorem walkStep_spec {m g g2 b2 : Nat} (hg2 : g2 ≡ g ^ 2 [MOD m]) {w : W} (hinv : WInv m g w) {p : Nat}
    (hp : w.pPrev < p) (heven : (p - w.pPrev) % 2 = 0) :
    ∃ w', walkStep m g2 b2 w p = some (w', decide (p > b2)) ∧ WInv m g w' ∧ w'.pPrev = p ∧
      w'.product = mulm m w.product (subm m w'.x (onem m)) := by
  unfold walkStep
  rw [if_neg (by omega)]
  simp only
  obtain ⟨gaps', hext, hlen, hg'⟩ := extendGaps_spec hg2 ((p - w.pPrev) / 2 + 1) w.gaps ((p - w.pPrev) / 2) hinv.2 (by omega)
  rw [hext]
  simp only
  have hhalf : 0 < (p - w.pPrev) / 2 := by omega
  rw [if_neg (by omega)]
  have hidx : (p - w.pPrev) / 2 - 1 < gaps'.length := by omega
  rw [List.getElem?_eq_getElem hidx]
  simp only
  refine ⟨_, rfl, ⟨?_, hg'⟩, rfl, rfl⟩
  simp only
  have hgp := hg'.2 _ _ (List.getElem?_eq_getElem hidx)
  unfold mulm
  refine (Nat.mod_modEq _ _).trans ?_
  have := hinv.1.mul hgp
  rw [← pow_add] at this
  have hpe : w.pPrev + (2 * ((p - w.pPrev) / 2 - 1) + 2) = p := by omega
  rw [hpe] at this
  exact this

theorem dvd_subm_one {q m a : Nat} (hq : q ∣ m) (hm : 0 < m) (ha : a ≡ 1 [MOD q]) : q ∣ subm m a (onem m) := by
  unfold subm onem
  rw [Nat.dvd_mod_iff hq]
  rcases Nat.lt_or_ge 1 m with h1 | h1
  · rw [Nat.mod_mod, Nat.mod_eq_of_lt h1]
    have h2 : a + (m - 1) ≡ 1 + (m - 1) [MOD q] := ha.add_right _
    rw [show 1 + (m - 1) = m by omega] at h2
    exact (Nat.modEq_zero_iff_dvd.mp (h2.trans (Nat.modEq_zero_iff_dvd.mpr hq)))
  · have : m = 1 := by omega
    subst this
    have : q = 1 := Nat.dvd_one.mp hq
    subst this
    exact one_dvd _

theorem dvd_mulm_right {q m a b : Nat} (hq : q ∣ m) (hb : q ∣ b) : q ∣ mulm m a b := by
  unfold mulm
  rw [Nat.dvd_mod_iff hq]
  exact Dvd.dvd.mul_left hb a

theorem dvd_mulm_left {q m a b : Nat} (hq : q ∣ m) (ha : q ∣ a) : q ∣ mulm m a b := by
  unfold mulm
  rw [Nat.dvd_mod_iff hq]
  exact Dvd.dvd.mul_right ha b

/-! ### a sieve block of the walk -/

theorem walkBlock_spec {m g g2 b2 : Nat} (hm : 0 < m) (hg2 : g2 ≡ g ^ 2 [MOD m]) :
    ∀ (blk : List Nat) (w : W), WInv m g w → blk.Pairwise (· < ·) → (∀ p ∈ blk, p % 2 = 1) → w.pPrev % 2 = 1 →
      ∃ w', walkBlock m g2 b2 blk w = some w' ∧ WInv m g w' ∧ w'.pPrev % 2 = 1 ∧ w.pPrev ≤ w'.pPrev ∧
        (∀ q, q ∣ m → q ∣ w.product → q ∣ w'.product) ∧
        ∀ l ∈ blk, w.pPrev < l → l ≤ b2 → ∀ q, q ∣ m → g ^ l ≡ 1 [MOD q] → q ∣ w'.product
  | [], w, hinv, _, _, hodd => ⟨w, rfl, hinv, hodd, le_rfl, fun _ _ h => h, fun l hl => absurd hl (by simp)⟩
  | p :: ps, w, hinv, hsorted, hodds, hodd => by
    rw [List.pairwise_cons] at hsorted
    have hodds' : ∀ p ∈ ps, p % 2 = 1 := fun x hx => hodds x (List.mem_cons_of_mem _ hx)
    rw [walkBlock]
    by_cases hle : p ≤ w.pPrev
    · have hs : walkStep m g2 b2 w p = some (w, false) := by unfold walkStep; rw [if_pos hle]
      rw [hs]
      simp only
      obtain ⟨w', h1, h2, h3, h4, h5, h6⟩ := walkBlock_spec hm hg2 ps w hinv hsorted.2 hodds' hodd
      refine ⟨w', h1, h2, h3, h4, h5, fun l hl hlt => ?_⟩
      rcases List.mem_cons.mp hl with rfl | hl
      · omega
      · exact h6 l hl hlt
    · have hpo := hodds p List.mem_cons_self
      obtain ⟨w1, hs, hinv1, hp1, hprod1⟩ := walkStep_spec (b2 := b2) hg2 hinv (p := p) (by omega) (by omega)
      rw [hs]
      have hmono1 : ∀ q, q ∣ m → q ∣ w.product → q ∣ w1.product := fun q hq hd => by
        rw [hprod1]; exact dvd_mulm_left hq hd
      have hfound1 : ∀ q, q ∣ m → g ^ p ≡ 1 [MOD q] → q ∣ w1.product := fun q hq hd => by
        rw [hprod1]
        refine dvd_mulm_right hq (dvd_subm_one hq hm ?_)
        have hx := hinv1.1
        rw [hp1] at hx
        exact (Nat.ModEq.of_dvd hq hx).trans hd
      by_cases hb : p > b2
      · simp only [hb, decide_true]
        refine ⟨w1, rfl, hinv1, by omega, by omega, hmono1, fun l hl hlt hlb => ?_⟩
        rcases List.mem_cons.mp hl with rfl | hl
        · omega
        · have := hsorted.1 l hl; omega
      · simp only [hb, decide_false]
        obtain ⟨w', h1, h2, h3, h4, h5, h6⟩ := walkBlock_spec hm hg2 ps w1 hinv1 hsorted.2 hodds' (by omega)
        refine ⟨w', h1, h2, h3, by omega, fun q hq hd => h5 q hq (hmono1 q hq hd), fun l hl hlt hlb q hq hd => ?_⟩
        rcases List.mem_cons.mp hl with rfl | hl
        · exact h5 q hq (hfound1 q hq hd)
        · exact h6 l hl (by have := hsorted.1 l hl; omega) hlb q hq hd

/-- the state the walk starts from: `exp_modn` does not panic, the invariant holds, and the first product holds the
stop prime's term -/
theorem walk_init {m : Nat} (hm : 0 < m) (g pPrev : Nat) (hp : pPrev < 2 ^ 64) :
    ∃ x, expModn (mulm m) (onem m) g pPrev = some x ∧
      WInv m g { x := x, product := subm m x (onem m), productsRev := [onem m], gaps := [mulm m g g], pPrev := pPrev } ∧
      ∀ q, q ∣ m → g ^ pPrev ≡ 1 [MOD q] → q ∣ subm m x (onem m) := by
  obtain ⟨x, hx, hmod⟩ := expModn_mod (m := m) g pPrev hp
  refine ⟨x, hx, ⟨hmod, by simp, fun i v hv => ?_⟩, fun q hq hd => dvd_subm_one hq hm ((Nat.ModEq.of_dvd hq hmod).trans hd)⟩
  match i, hv with
  | 0, hv =>
    simp only [List.getElem?_cons_zero, Option.some.injEq] at hv
    subst hv
    unfold mulm
    refine (Nat.mod_modEq _ _).trans ?_
    rw [show 2 * 0 + 2 = 2 by rfl, pow_two]
  | i + 1, hv => simp at hv

theorem g2_modEq (m g : Nat) : mulm m g g ≡ g ^ 2 [MOD m] := by
  unfold mulm
  rw [pow_two]
  exact Nat.mod_modEq _ _

end Ymq.Pm1Impl
