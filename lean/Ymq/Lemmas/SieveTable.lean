/-
C13 helper lemmas: the bucket tables `SieveTable` / `SieveTableLarge` (add, reset, lookup).
-/
import Ymq.Lemmas.SieveArith

namespace Ymq.Sieve

/-! ### generic helpers -/

theorem mapM_range'_mem {α} (g : Nat → Option α) :
    ∀ (n s : Nat) (l : List α), (List.range' s n).mapM g = some l →
      ∀ e, e ∈ l ↔ ∃ j, j < n ∧ g (s + j) = some e := by
  intro n
  induction n with
  | zero =>
    intro s l h e
    simp at h
    subst h
    simp
  | succ n ih =>
    intro s l h e
    rw [List.range'_succ, List.mapM_cons] at h
    simp only [bind, Option.bind_eq_some_iff, pure, Option.some.injEq] at h
    obtain ⟨b, hb, bs, hbs, rfl⟩ := h
    rw [List.mem_cons, ih (s + 1) bs hbs e]
    constructor
    · rintro (rfl | ⟨j, hj, hg⟩)
      · exact ⟨0, by omega, by simpa using hb⟩
      · exact ⟨j + 1, by omega, by rw [← hg]; congr 1; omega⟩
    · rintro ⟨j, hj, hg⟩
      cases j with
      | zero => left; simp at hg; rw [hb] at hg; exact (Option.some.inj hg).symm
      | succ j => right; exact ⟨j, by omega, by rw [← hg]; congr 1; omega⟩

theorem foldlM_inv {σ α} (f : σ → α → Option σ) (P : σ → Prop)
    (hstep : ∀ s x s', P s → f s x = some s' → P s') :
    ∀ (l : List α) (s s' : σ), P s → l.foldlM f s = some s' → P s' := by
  intro l
  induction l with
  | nil => intro s s' hp h; simp at h; subst h; exact hp
  | cons x xs ih =>
    intro s s' hp h
    rw [List.foldlM_cons] at h
    simp only [bind, Option.bind_eq_some_iff] at h
    obtain ⟨s1, h1, h2⟩ := h
    exact ih s1 s' (hstep s x s1 hp h1) h2

/-- invariant indexed by the processed prefix -/
theorem foldlM_inv_mem {σ α} (f : σ → α → Option σ) (l : List α) (P : σ → Prop)
    (hstep : ∀ s x s', x ∈ l → P s → f s x = some s' → P s') :
    ∀ (s s' : σ), P s → l.foldlM f s = some s' → P s' := by
  induction l with
  | nil => intro s s' hp h; simp at h; subst h; exact hp
  | cons x xs ih =>
    intro s s' hp h
    rw [List.foldlM_cons] at h
    simp only [bind, Option.bind_eq_some_iff] at h
    obtain ⟨s1, h1, h2⟩ := h
    exact ih (fun s y s' hy => hstep s y s' (List.mem_cons_of_mem _ hy)) s1 s'
      (hstep s x s1 (List.mem_cons_self) hp h1) h2

/-! ### SieveTable -/

/-- bucket lengths never exceed the capacity; 32 overflow slots. -/
def Table.WF (t : Table) : Prop := (∀ (b v : Nat), t.blens[b]? = some v → v ≤ 32) ∧ t.overflows.size = 32

/-- `(off % 256, p8)` is a visible entry of the bucket of `off`. -/
def Table.InBucket (t : Table) (off p8 : Nat) : Prop :=
  ∃ blen j, t.blens[off / 256]? = some blen ∧ j < blen ∧ t.entries[off / 256 * 32 + j]? = some (off % 256, p8)

/-- `(off % BLOCK, p8)` is one of the overflow slots `smooths` looks at. -/
def Table.InOv (t : Table) (off p8 : Nat) : Prop :=
  ∃ j, j < t.nOverflows ∧ j < 32 ∧ t.overflows[j]? = some (off % BLOCK, p8)

/-- the pair is visible to the lookup of `smooths`. -/
def Table.Has (t : Table) (off p8 : Nat) : Prop := t.InBucket off p8 ∨ t.InOv off p8

theorem Table.new_WF (n : Nat) : (Table.new n).WF := by
  refine ⟨?_, by simp [Table.new]⟩
  intro b v h
  simp only [Table.new, Array.getElem?_replicate] at h
  split at h <;> simp at h
  omega

theorem Table.reset_WF (t : Table) (h : t.overflows.size = 32) : t.reset.WF := by
  refine ⟨?_, by simpa [Table.reset] using h⟩
  intro b v hb
  simp only [Table.reset, Array.getElem?_replicate] at hb
  split at hb <;> simp at hb
  omega

/-- `recycled_clean`, table level: after `reset` nothing is visible, whatever the arrays contain. -/
theorem Table.reset_not_has (t : Table) (off p8 : Nat) : ¬ t.reset.Has off p8 := by
  rintro (⟨blen, j, hb, hj, _⟩ | ⟨j, hj, _, _⟩)
  · simp only [Table.reset, Array.getElem?_replicate] at hb
    split at hb <;> simp at hb
    omega
  · simp [Table.reset] at hj

theorem Table.new_not_has (n off p8 : Nat) : ¬ (Table.new n).Has off p8 := by
  rintro (⟨blen, j, hb, hj, _⟩ | ⟨j, hj, _, _⟩)
  · simp only [Table.new, Array.getElem?_replicate] at hb
    split at hb <;> simp at hb
    omega
  · simp [Table.new] at hj

theorem Table.reset_nOverflows (t : Table) : t.reset.nOverflows = 0 := rfl
theorem Table.reset_entries_size (t : Table) : t.reset.entries.size = t.entries.size := rfl
theorem Table.reset_blens_size (t : Table) : t.reset.blens.size = t.blens.size := by simp [Table.reset]

/-- effect of one `add`. -/
theorem Table.add_spec {t t' : Table} {off pidx : Nat} (hwf : t.WF) (h : t.add off pidx = some t') :
    t'.WF ∧ (∀ o p8, t.Has o p8 → t'.Has o p8) ∧
    (∀ o p8, t'.Has o p8 → t.Has o p8 ∨ (o % BLOCK = off % BLOCK ∧ p8 = pidx % 256)) ∧
    ((t'.Has off (pidx % 256) ∧ t'.nOverflows - 32 = t.nOverflows - 32) ∨
      t'.nOverflows - 32 = t.nOverflows - 32 + 1) ∧
    t.nOverflows ≤ t'.nOverflows ∧ t'.entries.size = t.entries.size ∧ t'.blens.size = t.blens.size ∧
    off < t.entries.size * BLOCK / N_ENTRIES := by
  obtain ⟨entries, blens, ovs, nOv⟩ := t
  obtain ⟨hle, hsz⟩ := hwf
  simp only at hle hsz
  unfold Table.add at h
  simp only [BUCKET_WIDTH, BUCKET_SIZE] at h
  split at h
  · simp at h
  rename_i hdbg
  simp only [not_not] at hdbg
  split at h
  · simp at h
  rename_i blen hbl
  have hb_lt : off / 256 < blens.size := by
    have := Array.getElem?_eq_some_iff.1 hbl
    exact this.1
  by_cases hroom : blen < 32
  · -- the bucket has room
    simp only [hroom, if_true] at h
    by_cases hidx : off / 256 * 32 + blen < entries.size
    · simp only [hidx, if_true, Option.some.injEq] at h
      subst h
      have hmod : off % 256 % 256 = off % 256 := Nat.mod_mod _ _
      refine ⟨⟨?_, hsz⟩, ?_, ?_, Or.inl ⟨Or.inl ?_, rfl⟩, le_refl _, by simp, by simp, hdbg⟩
      · intro b v hv
        by_cases hbq : off / 256 = b
        · subst hbq
          simp only [Array.getElem?_setIfInBounds, if_true, hb_lt, Option.some.injEq] at hv
          omega
        · rw [Array.getElem?_setIfInBounds_ne hbq] at hv
          exact hle b v hv
      · rintro o p8 (⟨bl, j, h1, h2, h3⟩ | ⟨j, h1, h2, h3⟩)
        · left
          by_cases hq : o / 256 = off / 256
          · rw [hq] at h1 h3
            rw [hbl] at h1
            have := Option.some.inj h1
            subst this
            refine ⟨blen + 1, j, ?_, by omega, ?_⟩
            · simp only [hq, Array.getElem?_setIfInBounds, if_true, hb_lt]
            · simp only [hq]
              rw [Array.getElem?_setIfInBounds_ne (by omega)]
              exact h3
          · have hj32 : j < 32 := lt_of_lt_of_le h2 (hle _ _ h1)
            refine ⟨bl, j, ?_, h2, ?_⟩
            · simp only
              rw [Array.getElem?_setIfInBounds_ne (fun e => hq e.symm)]
              exact h1
            · simp only
              rw [Array.getElem?_setIfInBounds_ne (by omega)]
              exact h3
        · right; exact ⟨j, h1, h2, h3⟩
      · rintro o p8 (⟨bl, j, h1, h2, h3⟩ | ⟨j, h1, h2, h3⟩)
        · simp only at h1 h3
          by_cases hq : o / 256 = off / 256
          · rw [hq] at h1 h3
            simp only [Array.getElem?_setIfInBounds, if_true, hb_lt, Option.some.injEq] at h1
            subst h1
            by_cases hj : j = blen
            · subst hj
              simp only [Array.getElem?_setIfInBounds, if_true, hidx, Option.some.injEq, Prod.mk.injEq, hmod] at h3
              right
              refine ⟨?_, h3.2.symm⟩
              have e1 := Nat.div_add_mod o 256
              have e2 := Nat.div_add_mod off 256
              have : o = off := by omega
              rw [this]
            · left; left
              refine ⟨blen, j, ?_, by omega, ?_⟩
              · rw [hq]; exact hbl
              · rw [hq]
                rw [Array.getElem?_setIfInBounds_ne (by omega)] at h3
                exact h3
          · left; left
            rw [Array.getElem?_setIfInBounds_ne (fun e => hq e.symm)] at h1
            have hj32 : j < 32 := lt_of_lt_of_le h2 (hle _ _ h1)
            rw [Array.getElem?_setIfInBounds_ne (by omega)] at h3
            exact ⟨bl, j, h1, h2, h3⟩
        · left; right; exact ⟨j, h1, h2, h3⟩
      · refine ⟨blen + 1, blen, ?_, by omega, ?_⟩
        · simp only [Array.getElem?_setIfInBounds, if_true, hb_lt]
        · simp only [Array.getElem?_setIfInBounds, if_true, hidx, hmod]
    · simp [hidx] at h
  · -- overflow
    simp only [hroom, if_false, Option.some.injEq] at h
    subst h
    have hBm : off % BLOCK % 65536 = off % BLOCK := by
      have : off % BLOCK < BLOCK := Nat.mod_lt _ (by decide)
      simp only [BLOCK] at *; omega
    refine ⟨⟨hle, ?_⟩, ?_, ?_, ?_, by simp, rfl, rfl, hdbg⟩
    · simp only; split <;> simp [hsz]
    · rintro o p8 (hb | ⟨j, h1, h2, h3⟩)
      · left; exact hb
      · right
        simp only at h1 h3
        refine ⟨j, Nat.lt_succ_of_lt h1, h2, ?_⟩
        simp only
        split
        · rw [Array.getElem?_setIfInBounds_ne (by omega)]; exact h3
        · exact h3
    · rintro o p8 (hb | ⟨j, h1, h2, h3⟩)
      · left; left; exact hb
      · simp only at h1 h3
        by_cases hj : j < nOv
        · left; right
          refine ⟨j, hj, h2, ?_⟩
          split at h3
          · rw [Array.getElem?_setIfInBounds_ne (by omega)] at h3; exact h3
          · exact h3
        · have hjn : j = nOv := by omega
          subst hjn
          have hlt : j < ovs.size := by omega
          simp only [hlt, if_true, Array.getElem?_setIfInBounds, Option.some.injEq, Prod.mk.injEq, hBm] at h3
          right; exact ⟨h3.1.symm, h3.2.symm⟩
    · simp only
      by_cases hlt : nOv < 32
      · left
        refine ⟨Or.inr ⟨nOv, Nat.lt_succ_self _, hlt, ?_⟩, by omega⟩
        have hlt' : nOv < ovs.size := by omega
        simp only [hlt', if_true, Array.getElem?_setIfInBounds, hBm]
      · right; omega

/-- `t'` recovers the pairs of `S` relative to `t`: everything visible stays visible, and the pairs of
`S` that are not visible are on a list whose length is the number of overflows beyond the 32 slots. -/
def Table.Rec (t t' : Table) (S : Nat × Nat → Prop) : Prop :=
  t'.WF ∧ (∀ o p8, t.Has o p8 → t'.Has o p8) ∧ t.nOverflows ≤ t'.nOverflows ∧
  t'.entries.size = t.entries.size ∧ t'.blens.size = t.blens.size ∧
  ∃ lost : List (Nat × Nat), lost.length = (t'.nOverflows - 32) - (t.nOverflows - 32) ∧
    ∀ a, S a → t'.Has a.1 (a.2 % 256) ∨ a ∈ lost

theorem Table.Rec.refl (t : Table) (h : t.WF) : Table.Rec t t (fun _ => False) :=
  ⟨h, fun _ _ h => h, le_refl _, rfl, rfl, [], by simp, fun _ h => h.elim⟩

theorem Table.Rec.trans {t t1 t2 : Table} {S1 S2 : Nat × Nat → Prop}
    (h1 : Table.Rec t t1 S1) (h2 : Table.Rec t1 t2 S2) : Table.Rec t t2 (fun a => S1 a ∨ S2 a) := by
  obtain ⟨_, m1, n1, e1, b1, l1, hl1, c1⟩ := h1
  obtain ⟨w2, m2, n2, e2, b2, l2, hl2, c2⟩ := h2
  refine ⟨w2, fun o p h => m2 o p (m1 o p h), le_trans n1 n2, e2.trans e1, b2.trans b1, l1 ++ l2, ?_, ?_⟩
  · rw [List.length_append, hl1, hl2]; omega
  · rintro a (ha | ha)
    · rcases c1 a ha with h | h
      · exact Or.inl (m2 _ _ h)
      · exact Or.inr (List.mem_append_left _ h)
    · rcases c2 a ha with h | h
      · exact Or.inl h
      · exact Or.inr (List.mem_append_right _ h)

theorem Table.Rec.mono {t t' : Table} {S S' : Nat × Nat → Prop} (h : Table.Rec t t' S)
    (hs : ∀ a, S' a → S a) : Table.Rec t t' S' := by
  obtain ⟨w, m, n, e, b, l, hl, c⟩ := h
  exact ⟨w, m, n, e, b, l, hl, fun a ha => c a (hs a ha)⟩

theorem Table.add_rec {t t' : Table} {off pidx : Nat} (hwf : t.WF) (h : t.add off pidx = some t') :
    Table.Rec t t' (fun a => a = (off, pidx)) := by
  obtain ⟨w, m, _, c, n, e, b, _⟩ := Table.add_spec hwf h
  refine ⟨w, m, n, e, b, ?_⟩
  rcases c with ⟨hh, hc⟩ | hc
  · exact ⟨[], by simp; omega, fun a ha => Or.inl (by subst ha; exact hh)⟩
  · exact ⟨[(off, pidx)], by simp; omega, fun a ha => Or.inr (by subst ha; simp)⟩

/-- `table_recovery` for a sequence of adds of one prime index. -/
theorem Table.foldl_add_rec (pidx : Nat) :
    ∀ (offs : List Nat) (t t' : Table), t.WF →
      offs.foldlM (fun t off => t.add off pidx) t = some t' →
      Table.Rec t t' (fun a => a.1 ∈ offs ∧ a.2 = pidx) := by
  intro offs
  induction offs with
  | nil =>
    intro t t' hwf h
    simp at h; subst h
    exact (Table.Rec.refl t hwf).mono (by simp)
  | cons x xs ih =>
    intro t t' hwf h
    rw [List.foldlM_cons] at h
    simp only [bind, Option.bind_eq_some_iff] at h
    obtain ⟨t1, h1, h2⟩ := h
    have r1 := Table.add_rec hwf h1
    have r2 := ih t1 t' r1.1 h2
    refine (r1.trans r2).mono ?_
    rintro ⟨o, p⟩ ⟨ho, hp⟩
    simp only at ho hp
    subst hp
    rcases List.mem_cons.1 ho with rfl | ho
    · left; rfl
    · right; exact ⟨ho, rfl⟩

/-- everything visible after a sequence of adds was visible before or was added (`recycled_clean`). -/
theorem Table.foldl_add_sound (pidx : Nat) :
    ∀ (offs : List Nat) (t t' : Table), t.WF →
      offs.foldlM (fun t off => t.add off pidx) t = some t' →
      ∀ o p8, t'.Has o p8 → t.Has o p8 ∨ ((∃ x ∈ offs, o % BLOCK = x % BLOCK) ∧ p8 = pidx % 256) := by
  intro offs
  induction offs with
  | nil => intro t t' _ h o p8 hh; simp at h; subst h; exact Or.inl hh
  | cons x xs ih =>
    intro t t' hwf h o p8 hh
    rw [List.foldlM_cons] at h
    simp only [bind, Option.bind_eq_some_iff] at h
    obtain ⟨t1, h1, h2⟩ := h
    obtain ⟨w, _, s, _⟩ := Table.add_spec hwf h1
    rcases ih t1 t' w h2 o p8 hh with h3 | ⟨⟨y, hy, hy2⟩, hp⟩
    · rcases s o p8 h3 with h4 | ⟨h4, h5⟩
      · exact Or.inl h4
      · exact Or.inr ⟨⟨x, List.mem_cons_self, h4⟩, h5⟩
    · exact Or.inr ⟨⟨y, List.mem_cons_of_mem _ hy, hy2⟩, hp⟩

theorem Table.mem_ovList {t : Table} {e : Nat × Nat} (hsz : t.overflows.size = 32) :
    e ∈ t.ovList ↔ ∃ j, j < t.nOverflows ∧ j < 32 ∧ t.overflows[j]? = some e := by
  unfold Table.ovList
  rw [List.mem_take_iff_getElem]
  constructor
  · rintro ⟨i, hi, he⟩
    simp only [Array.length_toList, hsz] at hi
    refine ⟨i, by omega, by omega, ?_⟩
    rw [← he]
    simp only [Array.getElem_toList]
    exact Array.getElem?_eq_getElem _
  · rintro ⟨j, h1, h2, h3⟩
    have hj : j < t.overflows.size := by omega
    refine ⟨j, by simp only [Array.length_toList, hsz]; omega, ?_⟩
    simp only [Array.getElem_toList]
    rw [Array.getElem?_eq_getElem hj] at h3
    exact Option.some.inj h3

/-- a visible pair is returned by the lookup of `smooths` at its position. -/
theorem Table.lookup_of_has {t : Table} {blkNo r p8 : Nat} {l : List Nat} (hwf : t.WF) (hr : r < BLOCK)
    (h : t.lookup (blkNo * BLOCK) r = some l) (hh : t.Has (blkNo * BLOCK + r) p8) : p8 ∈ l := by
  unfold Table.lookup at h
  simp only [BUCKET_WIDTH, Option.bind_eq_bind, Option.bind_eq_some_iff, Option.some.injEq] at h
  obtain ⟨bk, hbk, rfl⟩ := h
  rw [List.mem_append]
  rcases hh with ⟨blen, j, h1, h2, h3⟩ | ⟨j, h1, h2, h3⟩
  · left
    unfold Table.bucket at hbk
    rw [h1] at hbk
    simp only [BUCKET_SIZE] at hbk
    have := (mapM_range'_mem _ _ _ _ hbk ((blkNo * BLOCK + r) % 256, p8)).2 ⟨j, h2, h3⟩
    rw [List.mem_map]
    exact ⟨_, List.mem_filter.2 ⟨this, by simp⟩, rfl⟩
  · right
    have hm : (blkNo * BLOCK + r) % BLOCK = r := by
      rw [Nat.mul_add_mod_self_right]; exact Nat.mod_eq_of_lt hr
    rw [hm] at h3
    have := (Table.mem_ovList hwf.2).2 ⟨j, h1, h2, h3⟩
    rw [List.mem_map]
    exact ⟨_, List.mem_filter.2 ⟨this, by simp⟩, rfl⟩

/-- the true prime index is among the candidates rebuilt from its low byte. -/
theorem mem_candidates {idx1 idx2 pidx : Nat} (h1 : idx1 ≤ pidx) (h2 : pidx < idx2) :
    pidx ∈ candidates idx1 idx2 (pidx % 256) := by
  unfold candidates
  rw [List.mem_filter]
  refine ⟨?_, by simp [h1, h2]⟩
  rw [List.mem_map]
  refine ⟨pidx / 256, ?_, ?_⟩
  · rw [List.mem_range'_1]
    omega
  · have := Nat.div_add_mod pidx 256
    omega

/-! ### SieveTableLarge -/

def LTable.WF (t : LTable) : Prop := ∀ (b v : Nat), t.lengths[b]? = some v → v ≤ 1024

def LTable.Has (t : LTable) (off p16 : Nat) : Prop :=
  (∃ len j, t.lengths[off / 16384]? = some len ∧ j < len ∧
    t.hits[off / 16384 * 1024 + j]? = some (off % BLOCK, p16)) ∨
  (off % BLOCK, p16) ∈ t.overflows.toList

theorem LTable.new_WF (n : Nat) : (LTable.new n).WF := by
  intro b v h
  simp only [LTable.new, Array.getElem?_replicate] at h
  split at h <;> simp at h
  omega

theorem LTable.reset_WF (t : LTable) : t.reset.WF := by
  intro b v h
  simp only [LTable.reset, Array.getElem?_replicate] at h
  split at h <;> simp at h
  omega

theorem LTable.reset_not_has (t : LTable) (off p16 : Nat) : ¬ t.reset.Has off p16 := by
  rintro (⟨len, j, hb, hj, _⟩ | h)
  · simp only [LTable.reset, Array.getElem?_replicate] at hb
    split at hb <;> simp at hb
    omega
  · simp [LTable.reset] at h

theorem LTable.new_not_has (n off p16 : Nat) : ¬ (LTable.new n).Has off p16 := by
  rintro (⟨len, j, hb, hj, _⟩ | h)
  · simp only [LTable.new, Array.getElem?_replicate] at hb
    split at hb <;> simp at hb
    omega
  · simp [LTable.new] at h

/-- large tables never lose an entry. -/
theorem LTable.add_spec {t t' : LTable} {off pidx : Nat} (hwf : t.WF) (h : t.add off pidx = some t') :
    t'.WF ∧ (∀ o p, t.Has o p → t'.Has o p) ∧ t'.Has off (pidx % 65536) ∧
    (∀ o p, t'.Has o p → t.Has o p ∨ (o % BLOCK = off % BLOCK ∧ p = pidx % 65536)) := by
  obtain ⟨hits, lengths, ovs⟩ := t
  unfold LTable.WF at hwf
  simp only at hwf
  unfold LTable.add at h
  simp only [LBW, LBS] at h
  split at h
  · simp at h
  split at h
  · simp at h
  rename_i len hlen
  have hb_lt : off / 16384 < lengths.size := (Array.getElem?_eq_some_iff.1 hlen).1
  have hBm : off % BLOCK % 65536 = off % BLOCK := by
    have : off % BLOCK < BLOCK := Nat.mod_lt _ (by decide)
    simp only [BLOCK] at *; omega
  by_cases hroom : len < 1024
  · simp only [hroom, if_true] at h
    by_cases hidx : off / 16384 * 1024 + len < hits.size
    · simp only [hidx, if_true, Option.some.injEq] at h
      subst h
      refine ⟨?_, ?_, Or.inl ?_, ?_⟩
      · intro b v hv
        by_cases hbq : off / 16384 = b
        · subst hbq
          simp only [Array.getElem?_setIfInBounds, if_true, hb_lt, Option.some.injEq] at hv
          omega
        · rw [Array.getElem?_setIfInBounds_ne hbq] at hv
          exact hwf b v hv
      · rintro o p (⟨bl, j, h1, h2, h3⟩ | h1)
        · left
          simp only at h1 h3
          by_cases hq : o / 16384 = off / 16384
          · rw [hq] at h1 h3
            rw [hlen] at h1
            have := Option.some.inj h1
            subst this
            refine ⟨len + 1, j, ?_, by omega, ?_⟩
            · simp only [hq, Array.getElem?_setIfInBounds, if_true, hb_lt]
            · simp only [hq]
              rw [Array.getElem?_setIfInBounds_ne (by omega)]
              exact h3
          · have hj : j < 1024 := lt_of_lt_of_le h2 (hwf _ _ h1)
            refine ⟨bl, j, ?_, h2, ?_⟩
            · simp only
              rw [Array.getElem?_setIfInBounds_ne (fun e => hq e.symm)]
              exact h1
            · simp only
              rw [Array.getElem?_setIfInBounds_ne (by omega)]
              exact h3
        · right; exact h1
      · refine ⟨len + 1, len, ?_, by omega, ?_⟩
        · simp only [Array.getElem?_setIfInBounds, if_true, hb_lt]
        · simp only [Array.getElem?_setIfInBounds, if_true, hidx, hBm]
      · rintro o p (⟨bl, j, h1, h2, h3⟩ | h1)
        · simp only at h1 h3
          by_cases hq : o / 16384 = off / 16384
          · rw [hq] at h1 h3
            simp only [Array.getElem?_setIfInBounds, if_true, hb_lt, Option.some.injEq] at h1
            subst h1
            by_cases hj : j = len
            · subst hj
              simp only [Array.getElem?_setIfInBounds, if_true, hidx, Option.some.injEq, Prod.mk.injEq, hBm] at h3
              right; exact ⟨h3.1.symm, h3.2.symm⟩
            · left; left
              refine ⟨len, j, ?_, by omega, ?_⟩
              · rw [hq]; exact hlen
              · rw [hq]
                rw [Array.getElem?_setIfInBounds_ne (by omega)] at h3
                exact h3
          · left; left
            rw [Array.getElem?_setIfInBounds_ne (fun e => hq e.symm)] at h1
            have hj : j < 1024 := lt_of_lt_of_le h2 (hwf _ _ h1)
            rw [Array.getElem?_setIfInBounds_ne (by omega)] at h3
            exact ⟨bl, j, h1, h2, h3⟩
        · left; right; exact h1
    · simp [hidx] at h
  · simp only [hroom, if_false, Option.some.injEq] at h
    subst h
    refine ⟨hwf, ?_, Or.inr ?_, ?_⟩
    · rintro o p (hb | h1)
      · left; exact hb
      · right; simp only [Array.toList_push, List.mem_append]; exact Or.inl h1
    · simp only [Array.toList_push, List.mem_append, List.mem_singleton, hBm]; exact Or.inr trivial
    · rintro o p (hb | h1)
      · left; left; exact hb
      · simp only [Array.toList_push, List.mem_append, List.mem_singleton, Prod.mk.injEq, hBm] at h1
        rcases h1 with h1 | ⟨h1, h2⟩
        · left; right; exact h1
        · right; exact ⟨h1, h2⟩

theorem LTable.foldl_add_spec (pidx : Nat) :
    ∀ (offs : List Nat) (t t' : LTable), t.WF →
      offs.foldlM (fun t off => t.add off pidx) t = some t' →
      t'.WF ∧ (∀ o p, t.Has o p → t'.Has o p) ∧ (∀ x ∈ offs, t'.Has x (pidx % 65536)) ∧
      (∀ o p, t'.Has o p → t.Has o p ∨ ((∃ x ∈ offs, o % BLOCK = x % BLOCK) ∧ p = pidx % 65536)) := by
  intro offs
  induction offs with
  | nil =>
    intro t t' hwf h
    simp at h; subst h
    exact ⟨hwf, fun _ _ h => h, by simp, fun _ _ h => Or.inl h⟩
  | cons x xs ih =>
    intro t t' hwf h
    rw [List.foldlM_cons] at h
    simp only [bind, Option.bind_eq_some_iff] at h
    obtain ⟨t1, h1, h2⟩ := h
    obtain ⟨w1, m1, n1, s1⟩ := LTable.add_spec hwf h1
    obtain ⟨w2, m2, n2, s2⟩ := ih t1 t' w1 h2
    refine ⟨w2, fun o p h => m2 o p (m1 o p h), ?_, ?_⟩
    · intro y hy
      rcases List.mem_cons.1 hy with rfl | hy
      · exact m2 _ _ n1
      · exact n2 y hy
    · intro o p hh
      rcases s2 o p hh with h3 | ⟨⟨y, hy, hy2⟩, hp⟩
      · rcases s1 o p h3 with h4 | ⟨h4, h5⟩
        · exact Or.inl h4
        · exact Or.inr ⟨⟨x, List.mem_cons_self, h4⟩, h5⟩
      · exact Or.inr ⟨⟨y, List.mem_cons_of_mem _ hy, hy2⟩, hp⟩

theorem LTable.lookup_of_has {t : LTable} {blkNo r p16 : Nat} {l : List Nat} (hr : r < BLOCK)
    (h : t.lookup blkNo r = some l) (hh : t.Has (blkNo * BLOCK + r) p16) : p16 ∈ l := by
  unfold LTable.lookup at h
  simp only [LBW, Option.bind_eq_bind, Option.bind_eq_some_iff, Option.some.injEq] at h
  obtain ⟨bk, hbk, rfl⟩ := h
  have hm : (blkNo * BLOCK + r) % BLOCK = r := by
    rw [Nat.mul_add_mod_self_right]; exact Nat.mod_eq_of_lt hr
  have hd : (blkNo * BLOCK + r) / 16384 = 2 * blkNo + r / 16384 := by
    simp only [BLOCK] at *; omega
  rw [List.mem_map]
  refine ⟨(r, p16), List.mem_filter.2 ⟨?_, by simp⟩, rfl⟩
  rw [List.mem_append]
  rcases hh with ⟨len, j, h1, h2, h3⟩ | h1
  · left
    rw [hd] at h1 h3
    rw [hm] at h3
    unfold LTable.bucket at hbk
    rw [h1] at hbk
    simp only [LBS] at hbk
    exact (mapM_range'_mem _ _ _ _ hbk (r, p16)).2 ⟨j, h2, h3⟩
  · right; rw [hm] at h1; exact h1

theorem mem_lcandidates {len pidx : Nat} (h : pidx < len) : pidx ∈ lcandidates len (pidx % 65536) := by
  unfold lcandidates
  rw [List.mem_map]
  refine ⟨pidx / 65536, ?_, ?_⟩
  · rw [List.mem_range'_1]
    have := Nat.div_add_mod pidx 65536
    omega
  · have := Nat.div_add_mod pidx 65536
    omega

end Ymq.Sieve
