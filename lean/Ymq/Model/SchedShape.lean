/-
Worker programs of the sieve drivers, built from the protocol SHAPES that the translator
translate/sched.py reads in src/siqs.rs and src/mpqs.rs (Ymq/Gen/SchedShape.lean: where a work unit
polls the abort predicate, reads the completion flags, adds relations, publishes completion).

A worker owns a list of work units (SIQS: A values; MPQS: blocks of polynomials); a unit is a list
of polynomials; a polynomial is the list of relations it yields (an input of the model: which
relations a polynomial gives is number theory, not scheduling). The unit's program is
`pre ++ (body per polynomial) ++ post`, the kind `add` standing for the polynomial's adds.
The actions, configurations, steps and schedules are those of Ymq/Model/Sched.lean.
No Mathlib import.
-/
import Ymq.Model.Sched
import Ymq.Gen.SchedShape

namespace Ymq.Sched
open Ymq.Gen.SchedShape

variable {ρ σ : Type}

/-- the actions of one kind; `rs` are the relations of the polynomial at hand -/
def expandK (rs : List ρ) : K → List (Act ρ)
  | K.poll => [Act.poll]
  | K.check => [Act.check]
  | K.add => rs.map Act.add
  | K.publish => [Act.publish]

def expand (ks : List K) (rs : List ρ) : List (Act ρ) := ks.flatMap (expandK rs)

/-- program of one work unit -/
def compileUnit (sh : Shape) (u : List (List ρ)) : List (Act ρ) :=
  expand sh.pre [] ++ (u.flatMap (expand sh.body) ++ expand sh.post [])

/-- program of one worker: its units one after the other -/
def compileShape (sh : Shape) (prog : List (List (List ρ))) : List (Act ρ) :=
  prog.flatMap (compileUnit sh)

def initShape (sh : Shape) (s0 : σ) (progs : List (List (List (List ρ)))) : Cfg ρ σ :=
  { store := s0, log := [], done := false, pcs := progs.map (compileShape sh) }

/-- a unit polls the abort predicate outside its polynomial loop -/
def pollsPerUnit (sh : Shape) : Bool := sh.pre.contains K.poll || sh.post.contains K.poll

/-- relations are added in the polynomial loop only, once per polynomial -/
def addsOnce (sh : Shape) : Bool :=
  sh.body.count K.add == 1 && !sh.pre.contains K.add && !sh.post.contains K.add

/-- every polynomial is followed by a completion decision -/
def publishesPerPoly (sh : Shape) : Bool := sh.body.contains K.publish

/-! ### second generation of shapes (classgroup, classical QS, ECM read as a unit) -/

/-- the poll comes before any add of the unit and outside the polynomial loop: required of every shape whose poll only
leaves the UNIT (closure `return`): after an abort request the later units run their `pre` up to the poll and nothing else -/
def pollFirst (sh : Shape) : Bool := sh.pre.contains K.poll && !sh.pre.contains K.add

/-- interleaving of the adds of the two arms of a fork-join as chosen by the scheduler (`true` = the next add comes from the
first arm); when an arm or the choices are exhausted the rest follows in order -/
def merge : List ρ → List ρ → List Bool → List ρ
  | [], b, _ => b
  | x :: a, [], _ => x :: a
  | x :: a, y :: b, [] => x :: a ++ y :: b
  | x :: a, y :: b, c :: cs => if c then x :: merge a (y :: b) cs else y :: merge (x :: a) b cs

/-- each arm of the fork-join only adds (per small block), and there are two of them -/
def forkOk (f : ForkShape) : Bool := f.arms == [[K.add], [K.add]]

/-- the coordinating loop of a fork-join driver as a shape: the arms add, then `after` -/
def forkShape (f : ForkShape) : Shape := { pre := [], body := [K.add], post := f.after }

/-- one large block pair as a unit: without a pool the two arms one after the other; with a pool ONE sequence of adds, the
interleaving `ch` of the two arms (lock order) -/
def forkUnit (f : ForkShape) (b : List ρ × List ρ × List Bool) : List (List ρ) :=
  if f.forked then [merge b.1 b.2.1 b.2.2] else [b.1, b.2.1]

/-- program of the coordinating thread: `blocks` = (relations of the forward arm, of the backward arm, interleaving) per large block -/
def compileFork (f : ForkShape) (blocks : List (List ρ × List ρ × List Bool)) : List (Act ρ) :=
  compileShape (forkShape f) (blocks.map (forkUnit f))

def initFork (f : ForkShape) (s0 : σ) (blocks : List (List ρ × List ρ × List Bool)) : Cfg ρ σ :=
  initShape (forkShape f) s0 [blocks.map (forkUnit f)]

/-- a curve of ECM as a unit of `ecmUnit`: no polynomial when it reports nothing, one polynomial with the one report otherwise -/
def curveUnit : Option ρ → List (List ρ)
  | none => []
  | some r => [[r]]

/-- every driver's shape under the name used in the generated list `leavesLoop` -/
def namedShapes : List (String × Shape) :=
  Ymq.Gen.SchedShape.all ++ [("qs-mt", forkShape qsMtFork), ("qs-st", forkShape qsStFork), ("ecm", ecmUnit)]

end Ymq.Sched
