/-
Model of the generic arithmetic helpers of src/arith.rs (`sqrt_mod`, `pow_mod`, `mulmod`,
`inv_mod64`, `perfect_power`, `isqrt`) and of `squfof::isqrt` (src/squfof.rs:92-108).

The functions that are generic over `T: Num` (`u64` or `BUint<N>`) take the size of the type as a
parameter `B = 2^bits`: a product that does not fit (`≥ B`) is a panic of the checked profile and
returns `none`. Division by zero, `assert!`, `unreachable!` and `unwrap` return `none`.

Library code that is *not* part of the repository is modelled by its specification:
* `num_integer::Roots::nth_root` / `sqrt` (and the `bnum` instance): `nthRoot`, the floor root,
  defined by bisection (theorem `nthRoot_spec` shows it is the floor root);
* `num_integer::Integer::extended_gcd` for `i128` is modelled step by step (`egcdLoop`).
For `squfof::isqrt` the floating point seed `(n as f64).sqrt() as u64` is an input of the model.
No Mathlib import.
-/
import Ymq.Model.Limbs

namespace Ymq.Arith
open Ymq.Limbs (W)

/-! ### mulmod, pow_mod -/

/-- `mulmod(a, b, p) = (a * b) % p` in a type with `B` values. -/
def mulmod (B a b p : Nat) : Option Nat :=
  if a * b ≥ B then none                            -- a * b overflows
  else if p = 0 then none                           -- % 0
  else some (a * b % p)

/-- `while k > zero { … }` of `pow_mod`. -/
def powLoop (B p : Nat) : Nat → Nat → Nat → Nat → Option Nat
  | 0, _, _, _ => none
  | f + 1, res, nn, k =>
    if k = 0 then some res
    else
      match (if k % 2 = 1 then mulmod B res nn p else some res) with
      | none => none
      | some res' =>
        match mulmod B nn nn p with
        | none => none
        | some nn' => powLoop B p f res' nn' (k / 2)

/-- `pow_mod(n, k, p)`. -/
def powMod (B n k p : Nat) : Option Nat :=
  if p = 0 then none                                -- n % p
  else powLoop B p (k + 1) 1 (n % p) k

/-! ### sqrt_mod -/

/-- `u64::trailing_zeros`. -/
def tzAux : Nat → Nat → Nat
  | 0, _ => 0
  | f + 1, n => if n % 2 = 1 then 0 else 1 + tzAux f (n / 2)

def tz64 (n : Nat) : Nat := if n = 0 then 64 else tzAux 64 n

/-- `while q.low_u64() % 2 == 0 { q = q >> 1 }` -/
def oddPart : Nat → Nat → Option Nat
  | 0, _ => none
  | f + 1, q => if q % 2 = 0 then oddPart f (q / 2) else some q

/-- `for k in 1..(1 << 24)` of `sqrt_mod` (`fuel` = remaining iterations);
running out of iterations is `unreachable!()`. -/
def tsLoop (B n p q1 : Nat) : Nat → Nat → Option (Option Nat)
  | 0, _ => none
  | f + 1, k =>
    match mulmod B n k p with
    | none => none
    | some nk0 =>
      match mulmod B nk0 k p with
      | none => none
      | some nk =>
        match powMod B nk q1 p with
        | none => none
        | some root =>
          match mulmod B root root p with
          | none => none
          | some rr =>
            if rr = nk then
              if p < 2 then none                    -- p - 2
              else
                match powMod B k (p - 2) p with
                | none => none
                | some ki => (mulmod B root ki p).map some
            else tsLoop B n p q1 f (k + 1)

/-- number of iterations of `for k in 1..(1 << 24)` -/
def tsIters : Nat := 16777215

/-- `sqrt_mod(n, p)`; outer `Option` = panic, inner = the Rust return value. -/
def sqrtMod (B n p : Nat) : Option (Option Nat) :=
  if p = 0 then none                                -- n % p
  else
    let n := n % p
    if n = 0 then some (some 0)
    else if p = 2 then some (some (n % p))
    else if p % 4 = 3 then
      match powMod B n (p / 4 + 1) p with
      | none => none
      | some r =>
        match mulmod B r r p with
        | none => none
        | some rr => some (if rr = n then some r else none)
    else
      match powMod B n (p / 2) p with
      | none => none
      | some e =>
        if e ≠ 1 then some none
        else if p % W = 0 then none                 -- p.low_u64() - 1
        else if tz64 (p % W - 1) ≥ 24 then none     -- assert!(exp2 < 24)
        else
          match oddPart (p + 1) (p / 2) with
          | none => none
          | some q => tsLoop B n p (q / 2 + 1) tsIters 1

/-! ### inv_mod64 -/

def I128MIN : Int := -170141183460469231731687303715884105728
def I128MAX : Int := 170141183460469231731687303715884105727

/-- checked `i128` result -/
def chk128 (x : Int) : Option Int := if I128MIN ≤ x ∧ x ≤ I128MAX then some x else none

/-- `a - q * b` with both operations checked -/
def subMul (a q b : Int) : Option Int :=
  match chk128 (q * b) with
  | none => none
  | some m => chk128 (a - m)

/-- the `while !r.0.is_zero()` loop of `num_integer::Integer::extended_gcd` on `i128`:
state `(s0,s1,t0,t1,r0,r1)`; returns `(r1, s1, t1)`. -/
def egcdLoop : Nat → Int → Int → Int → Int → Int → Int → Option (Int × Int × Int)
  | 0, _, _, _, _, _, _ => none
  | f + 1, s0, s1, t0, t1, r0, r1 =>
    if r0 = 0 then some (r1, s1, t1)
    else if r1 = I128MIN ∧ r0 = -1 then none        -- i128::MIN / -1
    else
      let q := Int.tdiv r1 r0
      match subMul r1 q r0, subMul s1 q s0, subMul t1 q t0 with
      | some r0', some s0', some t0' => egcdLoop f s0' s0 t0' t0 r0' r0
      | _, _, _ => none

/-- `extended_gcd(a, b)` → `(gcd, x, y)` -/
def extendedGcd (a b : Int) : Option (Int × Int × Int) :=
  match egcdLoop (b.natAbs + 2) 0 1 1 0 b a with
  | none => none
  | some (g, x, y) =>
    if g ≥ 0 then some (g, x, y)
    else
      match chk128 (0 - g), chk128 (0 - x), chk128 (0 - y) with
      | some g', some x', some y' => some (g', x', y')
      | _, _, _ => none

/-- `inv_mod64(n, p)`, `n p : u64` (the operands are widened to `i128`). -/
def invMod64 (n p : Nat) : Option (Option Nat) :=
  match extendedGcd (n : Int) (p : Int) with
  | none => none
  | some (g, ex, _) =>
    if g = 1 then
      match (if ex < 0 then chk128 (ex + (p : Int)) else some ex) with
      | none => none
      | some x =>
        if x < 0 then none                          -- assert!(x >= 0)
        else if p = 0 then none                     -- % p
        else some (some (x.toNat % 2 ^ 128 % p % 2 ^ 64))   -- (x as u128 % p as u128) as u64
    else some none

/-! ### roots and perfect powers -/

/-- bisection: invariant `lo^k ≤ n < hi^k` -/
def rootAux (n k : Nat) : Nat → Nat → Nat → Nat
  | 0, lo, _ => lo
  | f + 1, lo, hi =>
    if hi ≤ lo + 1 then lo
    else
      let mid := (lo + hi) / 2
      if mid ^ k ≤ n then rootAux n k f mid hi else rootAux n k f lo mid

/-- specification function for `nth_root(k)` (k ≥ 1): the floor of the k-th root. -/
def nthRoot (n k : Nat) : Nat :=
  let hi := 2 ^ (Nat.log2 n / k + 1)
  rootAux n k hi 0 hi

/-- specification function for `arith::isqrt = num_integer::sqrt`. -/
def isqrt (n : Nat) : Nat := nthRoot n 2

/-- the exponents tried by `perfect_power` -/
def ppExps : List Nat := [2, 3, 5, 7, 11, 13, 17, 19]

/-- `for k in [2, 3, 5, …, 19]` of `perfect_power`; `self` is the recursive call. -/
def ppTry (self : Nat → Option (Option (Nat × Nat))) (n : Nat) :
    List Nat → Option (Option (Nat × Nat))
  | [] => some none
  | k :: ks =>
    let r := nthRoot n k
    if r ^ k = n then
      if r = n then some (some (r, k))              -- n ∈ {0, 1}: no recursion
      else
        match self r with
        | none => none
        | some (some (rr, kk)) =>
          if k * kk ≥ 2 ^ 32 then none else some (some (rr, k * kk))
        | some none => some (some (r, k))
    else ppTry self n ks

/-- `perfect_power(n)` with recursion depth at most `fuel` (`none` = deeper recursion). -/
def ppFuel : Nat → Nat → Option (Option (Nat × Nat))
  | 0, _ => none
  | f + 1, n => ppTry (ppFuel f) n ppExps

/-- `perfect_power(n)` -/
def perfectPower (n : Nat) : Option (Option (Nat × Nat)) := ppFuel (n + 1) n

/-! ### squfof::isqrt -/

/-- the `loop` of `squfof::isqrt` -/
def sqLoop (n : Nat) : Nat → Nat → Option Nat
  | 0, _ => none
  | f + 1, r =>
    if r = 0 then none                              -- n / 0
    else
      let q := n / r
      if q = r then some r
      else if r + 1 ≥ W then none
      else if q = r + 1 then some r
      else if q = r - 1 then some (r - 1)
      else if r + q ≥ W then none
      else sqLoop n f ((r + q) / 2)

/-- `squfof::isqrt(n)` with `seed = (n as f64).sqrt() as u64` and `fuel` iterations allowed. -/
def squfofIsqrt (fuel n seed : Nat) : Option Nat :=
  if n < 4 then some (min n 1) else sqLoop n fuel seed

end Ymq.Arith
