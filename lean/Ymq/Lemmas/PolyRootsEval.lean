/-
C10: the public evaluation entry points of src/arith_poly.rs (model: Ymq/Model/PolyTree.lean).
`multiEval_spec`: `Poly::multi_eval` (chunking, padding of a short chunk, tree, remainder tree,
truncation) returns the values of the polynomial at all the points, in order.
`rootsEval_direct_spec`: the branch `a.len() < n` of `Poly::roots_eval`.
-/
import Ymq.Lemmas.PolyEval

namespace Ymq.PolyMul
open Polynomial Finset

variable {α : Type} {R : Type} [CommRing R] [Nontrivial R]

omit [Nontrivial R] in
theorem fits_new (size m : Nat) (hm : m ≤ 2 ^ Ymq.Checked.bitlen (size - 1)) : Fits (Ctx.new size) m := by
  intro k hk
  unfold Ctx.new at hk
  split_ifs at hk with h
  · simp only [Option.some.injEq] at hk
    rw [← hk, pow_succ]; omega

omit [Nontrivial R] in
theorem productTree_leaves {o : Ops α} (c : Ctx) (roots : List α) (layers : List (List (List α)))
    (h : productTree c o roots = some layers) :
    layers.getD 0 [] = (List.range (2 ^ Ymq.Checked.bitlen (roots.length - 1))).map fun i =>
      if i < roots.length then [o.sub o.zero (roots.getD i o.zero)] else [o.zero] := by
  unfold productTree at h
  split_ifs at h with h0
  simp only at h
  cases hb : buildLayers c o (6 * 2 ^ Ymq.Checked.bitlen (roots.length - 1))
      (Ymq.Checked.bitlen (roots.length - 1)) 1 _ with
  | none => rw [hb] at h; simp at h
  | some ls =>
    rw [hb] at h
    simp only [Option.map_some, Option.some.injEq] at h
    rw [← h, List.getD_cons_zero]

omit [Nontrivial R] in
theorem eval_rootsPoly (φ : α → R) (a : List α) (x : R) :
    (rootsPoly φ a).eval x = (a.map fun r => x - φ r).prod := by
  unfold rootsPoly
  induction a with
  | nil => simp
  | cons r rs ih => simp [ih]

/-- **`Poly::roots_eval`, branch `|a| < n`** (`n` = size of the tree over `b`): the product
`∏ (x - a_i)` is formed by `from_roots` and evaluated by the scaled remainder tree; the result is
`∏_i (b_j - a_i)` for every point. -/
theorem rootsEval_direct_spec {o : Ops α} {φ : α → R} (h : HomE o φ) (a b : List α)
    (hb1 : 1 ≤ b.length) (ha1 : 1 ≤ a.length) (hb61 : Ymq.Checked.bitlen (b.length - 1) ≤ 61)
    (hab : a.length < 2 ^ Ymq.Checked.bitlen (b.length - 1)) (hinv : ∃ i, o.inv o.one = some i) :
    ∃ vals, rootsEval o a b = some vals ∧ vals.length = b.length ∧
      ∀ j, j < b.length →
        φ (vals.getD j o.zero) = (a.map fun r => φ (b.getD j o.zero) - φ r).prod := by
  set logn := Ymq.Checked.bitlen (b.length - 1) with hlogn
  set n := 2 ^ logn with hn
  set c := Ctx.new b.length with hc
  have hbn : b.length ≤ n := by
    have := bitlen_lt (b.length - 1); rw [← hlogn, ← hn] at this; omega
  obtain ⟨layers, el, llen, hch, top, htop, ltop, _⟩ := productTree_spec h.toHom c b hb1 (by omega)
    (fits_new _ _ (le_refl _))
  have hleaves := productTree_leaves c b layers el
  have hla : Ymq.Checked.bitlen (a.length - 1) ≤ logn := bitlen_le_of_lt (by omega)
  obtain ⟨p, ep, lp, pp⟩ := fromRoots_spec h.toHom c a ha1 (by omega)
    (fits_new _ _ (Nat.pow_le_pow_right (by decide) hla))
  have hn62 : n ≤ 2 ^ 61 := Nat.pow_le_pow_right (by decide) hb61
  have hn1 : 1 ≤ n := Nat.one_le_two_pow
  have ltop' : top.length = n := ltop
  have llen' : layers.length = logn + 1 := llen
  obtain ⟨vals, ev, lv, hv⟩ := multiEvalTree_spec h c p layers top hch htop
    (by rw [llen', ltop', hn, Nat.log2_two_pow]) (by rw [ltop']; exact hn1) (by rw [ltop']; exact hn62) (by omega)
    (by rw [ltop', lp]; omega) (by
      rw [ltop']
      apply fits_new
      show n / 2 + 1 ≤ n
      rcases Nat.lt_or_ge n 2 with h2 | h2
      · have : n = 1 := by omega
        rw [this]
      · omega) hinv
  unfold rootsEval
  simp only
  rw [el]
  simp only
  rw [htop]
  simp only
  rw [if_pos (by rw [ltop']; exact hab), ep]
  simp only
  rw [ev]
  simp only
  have hlv : vals.length = n := by
    rw [lv, hleaves, List.length_map, List.length_range]
  rw [if_neg (by omega)]
  refine ⟨_, rfl, by rw [List.length_take]; omega, ?_⟩
  intro j hj
  rw [List.getD_eq_getElem?_getD, List.getElem?_take_of_lt hj, ← List.getD_eq_getElem?_getD,
    hv j (by rw [hleaves, List.length_map, List.length_range]; omega), pp, eval_rootsPoly]
  have : (layers.getD 0 []).getD j [] = [o.sub o.zero (b.getD j o.zero)] := by
    rw [hleaves, getD_range_map _ _ _ _ (by omega), if_pos hj]
  rw [this, List.getD_cons_zero, h.sub, h.zero]
  simp


/-- one chunk of `multi_eval`: the values of `p` at the points of the chunk -/
theorem multiEvalChunk_spec {o : Ops α} {φ : α → R} (h : HomE o φ) (c : Ctx) (p chk : List α)
    (hp1 : 1 ≤ p.length) (hc1 : 1 ≤ chk.length) (h61 : max chk.length (p.length - 1) ≤ 2 ^ 60)
    (hfit : ∀ m, m ≤ 2 * max chk.length (p.length - 1) → Fits c m) (hinv : ∃ i, o.inv o.one = some i) :
    ∃ v, multiEvalChunk c o p chk = some v ∧ v.length = chk.length ∧
      ∀ j, j < chk.length → φ (v.getD j o.zero) = (poly (p.map φ)).eval (φ (chk.getD j o.zero)) := by
  unfold multiEvalChunk
  simp only
  set pts := (if chk.length + 1 < p.length then chk ++ List.replicate (p.length - 1 - chk.length) o.zero else chk)
    with hpts
  have lpts : pts.length = max chk.length (p.length - 1) := by
    rw [hpts]; split_ifs with hc
    · rw [List.length_append, List.length_replicate]; omega
    · omega
  have hM1 := le_max_left chk.length (p.length - 1)
  have hM2 := le_max_right chk.length (p.length - 1)
  have hpj : ∀ j, j < chk.length → pts.getD j o.zero = chk.getD j o.zero := by
    intro j hj
    rw [hpts]; split_ifs
    · exact getD_append_left' _ _ _ _ hj
    · rfl
  set logn := Ymq.Checked.bitlen (pts.length - 1) with hlogn
  set n := 2 ^ logn with hn
  have hptn : pts.length ≤ n := by
    have := bitlen_lt (pts.length - 1); rw [← hlogn, ← hn] at this; omega
  have hlog61 : logn ≤ 60 := by
    rcases Nat.eq_zero_or_pos (pts.length - 1) with h0 | hpos
    · rw [hlogn, h0]; simp [Ymq.Checked.bitlen]
    · exact bitlen_le_of_lt (by omega)
  have hn2 : n ≤ 2 * pts.length := by
    rcases Nat.eq_zero_or_pos logn with h0 | hpos
    · rw [hn, h0]; omega
    · -- 2^(logn - 1) ≤ pts.length - 1
      have hne : pts.length - 1 ≠ 0 := by
        intro h0
        rw [hlogn, h0] at hpos
        simp [Ymq.Checked.bitlen] at hpos
      have : 2 ^ (logn - 1) ≤ pts.length - 1 := by
        have hl : logn = (pts.length - 1).log2 + 1 := by
          rw [hlogn]; unfold Ymq.Checked.bitlen; rw [if_neg hne]
        rw [hl, Nat.add_sub_cancel]
        exact Nat.log2_self_le hne
      have h2 : n = 2 * 2 ^ (logn - 1) := by
        rw [hn, ← pow_succ']; congr 1; omega
      omega
  obtain ⟨layers, el, llen, hch, top, htop, ltop, _⟩ := productTree_spec h.toHom c pts (by omega) (by omega)
    (hfit _ (by rw [← lpts]; exact hn2))
  have hleaves := productTree_leaves c pts layers el
  rw [el]
  simp only
  have ltop' : top.length = n := ltop
  have llen' : layers.length = logn + 1 := llen
  have hn1 : 1 ≤ n := Nat.one_le_two_pow
  obtain ⟨vals, ev, lv, hv⟩ := multiEvalTree_spec h c p layers top hch htop
    (by rw [llen', ltop', hn, Nat.log2_two_pow]) (by rw [ltop']; exact hn1)
    (by rw [ltop']; exact le_trans (Nat.pow_le_pow_right (by decide) hlog61) (by norm_num)) hp1
    (by rw [ltop']; omega) (by rw [ltop']; exact hfit _ (by omega)) hinv
  rw [ev]
  simp only
  have hlv : vals.length = n := by rw [lv, hleaves, List.length_map, List.length_range]
  refine ⟨_, rfl, by rw [List.length_take]; omega, ?_⟩
  intro j hj
  rw [List.getD_eq_getElem?_getD, List.getElem?_take_of_lt hj, ← List.getD_eq_getElem?_getD,
    hv j (by rw [hleaves, List.length_map, List.length_range]; omega)]
  have : (layers.getD 0 []).getD j [] = [o.sub o.zero (pts.getD j o.zero)] := by
    rw [hleaves, getD_range_map _ _ _ _ (by omega), if_pos (by omega)]
  rw [this, List.getD_cons_zero, h.sub, h.zero, hpj j hj]
  simp

omit [Nontrivial R] in
theorem chunks_spec : ∀ (f k : Nat) (l : List α), 1 ≤ k → l.length ≤ f →
    (chunks f k l).flatten = l ∧ ∀ chk ∈ chunks f k l, 1 ≤ chk.length ∧ chk.length ≤ k := by
  intro f
  induction f with
  | zero =>
    intro k l _ hl
    have : l = [] := List.length_eq_zero_iff.1 (by omega)
    subst this
    exact ⟨rfl, fun chk hc => by simp [chunks] at hc⟩
  | succ f ih =>
    intro k l hk hl
    cases l with
    | nil => exact ⟨rfl, fun chk hc => by simp [chunks] at hc⟩
    | cons x xs =>
      unfold chunks
      obtain ⟨h1, h2⟩ := ih k ((x :: xs).drop k) hk (by rw [List.length_drop]; simp at hl ⊢; omega)
      refine ⟨by rw [List.flatten_cons, h1, List.take_append_drop], ?_⟩
      intro chk hc
      rcases List.mem_cons.1 hc with rfl | hc
      · rw [List.length_take]; simp; omega
      · exact h2 chk hc


omit [Nontrivial R] in
theorem foldlM_chunks {o : Ops α} {φ : α → R} (P : R[X]) (G : List α → Option (List α)) :
    ∀ (l : List (List α)) (acc : List α),
      (∀ chk ∈ l, ∃ v, G chk = some v ∧ v.length = chk.length ∧
        ∀ j, j < chk.length → φ (v.getD j o.zero) = P.eval (φ (chk.getD j o.zero))) →
      ∃ out, l.foldlM (fun (vals : List α) chk => (G chk).map fun vs => vals ++ vs) acc = some (acc ++ out) ∧
        out.length = l.flatten.length ∧
        ∀ j, j < out.length → φ (out.getD j o.zero) = P.eval (φ (l.flatten.getD j o.zero)) := by
  intro l
  induction l with
  | nil => intro acc _; exact ⟨[], by simp, rfl, fun j hj => by simp at hj⟩
  | cons chk rest ih =>
    intro acc hall
    obtain ⟨v, ev, lv, hv⟩ := hall chk (List.mem_cons_self)
    obtain ⟨out, eo, lo, ho⟩ := ih (acc ++ v) (fun c hc => hall c (List.mem_cons_of_mem _ hc))
    refine ⟨v ++ out, ?_, ?_, ?_⟩
    · rw [List.foldlM_cons, ev]
      simp only [Option.map_some, Option.bind_eq_bind, Option.bind_some]
      rw [eo, List.append_assoc]
    · rw [List.length_append, List.flatten_cons, List.length_append, lv, lo]
    · intro j hj
      rw [List.flatten_cons]
      by_cases hjv : j < v.length
      · rw [getD_append_left' _ _ _ _ hjv, getD_append_left' _ _ _ _ (by omega)]
        exact hv j (by omega)
      · rw [getD_append_right' _ _ _ _ (by omega), getD_append_right' _ _ _ _ (by omega), lv]
        rw [List.length_append] at hj
        exact ho (j - chk.length) (by omega)

/-- `Poly::multi_eval`: the values of `p` at all the points, in order -/
theorem multiEval_spec {o : Ops α} {φ : α → R} (h : HomE o φ) (c : Ctx) (p a : List α)
    (hp1 : 1 ≤ p.length) (ha1 : 1 ≤ a.length) (h61 : max a.length (p.length - 1) ≤ 2 ^ 60)
    (hfit : Fits c (2 * max a.length (p.length - 1))) (hinv : ∃ i, o.inv o.one = some i) :
    ∃ v, multiEval c o p a = some v ∧ v.length = a.length ∧
      ∀ j, j < a.length → φ (v.getD j o.zero) = (poly (p.map φ)).eval (φ (a.getD j o.zero)) := by
  unfold multiEval
  rw [if_neg (by omega)]
  simp only
  set n := 2 ^ Ymq.Checked.bitlen (p.length - 1) with hn
  set nchunks := (a.length - 1) / n + 1 with hnc
  set chunklen := (a.length - 1) / nchunks + 1 with hcl
  have hnc1 : 1 ≤ nchunks := Nat.le_add_left 1 _
  have hassert : a.length ≤ nchunks * chunklen := by
    have h1 := Nat.div_add_mod (a.length - 1) nchunks
    have h2 := Nat.mod_lt (a.length - 1) (show nchunks > 0 by omega)
    rw [hcl, Nat.mul_add, Nat.mul_one]
    generalize nchunks * ((a.length - 1) / nchunks) = e at h1 ⊢
    generalize (a.length - 1) % nchunks = r at h1 h2
    omega
  rw [if_neg (by omega)]
  have hcla : chunklen ≤ a.length := by
    have := Nat.div_le_self (a.length - 1) nchunks
    rw [hcl]
    generalize (a.length - 1) / nchunks = e at this ⊢
    omega
  obtain ⟨hflat, hchk⟩ := chunks_spec a.length chunklen a (Nat.le_add_left 1 _) le_rfl
  obtain ⟨out, eo, lo, ho⟩ := foldlM_chunks (o := o) (φ := φ) (poly (p.map φ)) (multiEvalChunk c o p)
    (chunks a.length chunklen a) [] (by
      intro chk hc
      obtain ⟨h1, h2⟩ := hchk chk hc
      have hmax : max chk.length (p.length - 1) ≤ max a.length (p.length - 1) :=
        max_le_max (by omega) le_rfl
      exact multiEvalChunk_spec h c p chk hp1 h1 (le_trans hmax h61)
        (fun m hm => hfit.mono (by omega)) hinv)
  rw [hflat] at lo ho
  rw [List.nil_append] at eo
  exact ⟨out, eo, lo, fun j hj => ho j (by omega)⟩

open Ymq.PolySpec in
omit [CommRing R] [Nontrivial R] in
/-- `zn.inv(1)` succeeds for every modulus `> 1` -/
theorem invMod_one (n : Nat) (hn : 1 < n) : invMod 1 n = some (1 % n) := by
  have h1 : (1 % n : Nat) = 1 := Nat.mod_eq_of_lt hn
  have hn0 : (n : Int) ≠ 0 := by omega
  have h2 : (1 : Int) % (n : Int) = 1 := Int.emod_eq_of_lt (by decide) (by omega)
  have hx : ∀ f, xgcdAux (f + 3) (1 : Int) (n : Int) 1 0 = (1, 1) := by
    intro f
    simp only [xgcdAux]
    rw [if_neg hn0, h2, if_neg (by decide), Int.emod_one, if_pos rfl]
    simp
  unfold invMod
  rw [h1, show 2 * n.log2 + 4 = (2 * n.log2 + 1) + 3 by omega]
  simp only [Nat.cast_one]
  rw [hx]
  simp only [if_true]
  rw [h2]; rfl

end Ymq.PolyMul
