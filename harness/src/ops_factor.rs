//! The factoring entry point (C01-C05).
//!
//! `factor <n> <alg> [key=value ...]` with keys
//!    threads=<t>  fb=<u32>  lf=<u64>  dbl=<0|1>  isz=<u32>
//!    abortpolls=<k>   abort predicate returns true from its k-th poll on (k = 0: always)
//!    abortms=<ms>     abort predicate returns true once <ms> milliseconds have elapsed
//! answer: `<result> | <trace> | polls=<total polls> late=<polls answered true> lat_ms=<ms between first true poll and return>`
//!   result = `ok f1,f2,...` | `failure`   (a panic answers `panic` for the whole line)
//!   trace  = sub-algorithm results recorded by yamaquasi::verif_hooks (events `;`, fields `:`)
use crate::util::*;
use std::sync::atomic::{AtomicU64, Ordering};
use std::sync::Arc;
use std::time::Instant;
use yamaquasi::{factor, Algo, Preferences, Verbosity};

pub fn algo_of(s: &str) -> Option<Algo> {
    use std::str::FromStr;
    Algo::from_str(s).ok()
}

pub fn handle(op: &str, a: &[&str]) -> Option<String> {
    match op {
        "factor" => {
            let n = uint_of(a.first()?)?;
            let alg = algo_of(a.get(1)?)?;
            let mut prefs = Preferences::default();
            prefs.verbosity = Verbosity::Silent;
            let polls = Arc::new(AtomicU64::new(0));
            let late = Arc::new(AtomicU64::new(0));
            let first_true_us = Arc::new(AtomicU64::new(0));
            let start = Instant::now();
            for kv in &a[2..] {
                let (k, v) = kv.split_once('=')?;
                match k {
                    "threads" => prefs.threads = Some(v.parse().ok()?),
                    "fb" => prefs.fb_size = Some(v.parse().ok()?),
                    "lf" => prefs.large_factor = Some(v.parse().ok()?),
                    "dbl" => prefs.use_double = Some(v == "1"),
                    "isz" => prefs.interval_size = Some(v.parse().ok()?),
                    "abortpolls" | "abortms" => {
                        let lim: u64 = v.parse().ok()?;
                        let by_time = k == "abortms";
                        let (polls, late, ft) = (polls.clone(), late.clone(), first_true_us.clone());
                        prefs.should_abort = Some(Box::new(move || {
                            let c = polls.fetch_add(1, Ordering::SeqCst);
                            let now = start.elapsed().as_micros() as u64;
                            let fire = if by_time { now >= lim * 1000 } else { c >= lim };
                            if fire {
                                late.fetch_add(1, Ordering::SeqCst);
                                let _ = ft.compare_exchange(0, now.max(1), Ordering::SeqCst, Ordering::SeqCst);
                            }
                            fire
                        }));
                    }
                    _ => return None,
                }
            }
            yamaquasi::verif_hooks::start();
            let r = std::panic::catch_unwind(std::panic::AssertUnwindSafe(|| factor(n, alg, &prefs)));
            let end = start.elapsed().as_micros() as u64;
            let tr = yamaquasi::verif_hooks::take();
            let trace = if tr.is_empty() {
                "-".to_string()
            } else {
                tr.iter().map(|e| e.replace(' ', ":")).collect::<Vec<_>>().join(";")
            };
            let res = match r {
                Ok(Ok(v)) => format!("ok {}", show_list(&v)),
                Ok(Err(_)) => "failure".to_string(),
                Err(_) => "panic".to_string(),
            };
            let ft = first_true_us.load(Ordering::SeqCst);
            let lat = if ft == 0 { 0 } else { (end - ft.min(end)) / 1000 };
            Some(format!(
                "{res} | {trace} | polls={} late={} lat_ms={}",
                polls.load(Ordering::SeqCst),
                late.load(Ordering::SeqCst),
                lat
            ))
        }
        _ => None,
    }
}
