/-
C10: the Montgomery operations of `ZmodN` as an instance of the coefficient operations of the arith_poly models
(`montOps_homC`), and the refinement of the models' exact NTT step by the word-level `convolve_modn_ntt`
(`fftLongmul_refines`, `fftMidmul_refines`, on top of `convolveNtt_spec`).
-/
import Ymq.Lemmas.PolyBarrett
import Ymq.Lemmas.NttConvolve

namespace Ymq.PolyMul
open Polynomial Finset

/-- the residue a Montgomery form stands for -/
noncomputable def mphi (n rinv : Nat) (x : Nat) : ZMod n := (x : ZMod n) * (rinv : ZMod n)

theorem R_rinv (n kw rinv : Nat) (hR : 2 ^ (64 * kw) * rinv % n = 1 % n) :
    (((2 ^ (64 * kw) : Nat)) : ZMod n) * (rinv : ZMod n) = 1 := by
  have := (ZMod.natCast_eq_natCast_iff' (2 ^ (64 * kw) * rinv) 1 n).2 hR
  push_cast at this
  exact_mod_cast this

/-- **the Montgomery operations of `ZmodN` map to `ZMod n`** (`x ↦ x·R⁻¹`), with sound and complete `==` and
sound `inv`: every ring-generic theorem of C10 applies to them -/
theorem montOps_homC (n kw rinv : Nat) (hn : 0 < n) (hR : 2 ^ (64 * kw) * rinv % n = 1 % n) :
    HomC (montOps n kw rinv) (mphi n rinv) where
  zero := by simp [montOps, mphi]
  one := by
    show mphi n rinv (2 ^ (64 * kw) % n) = 1
    unfold mphi; rw [ZMod.natCast_mod]; exact R_rinv n kw rinv hR
  add a b := by
    show mphi n rinv ((a + b) % n) = _
    unfold mphi; rw [ZMod.natCast_mod]; push_cast; ring
  sub a b := by
    show mphi n rinv ((a + n - b % n) % n) = _
    unfold mphi
    rw [ZMod.natCast_mod, Nat.cast_sub (by have := Nat.mod_lt b hn; omega)]
    push_cast
    rw [ZMod.natCast_mod, ZMod.natCast_self]; ring
  mul a b := by
    show mphi n rinv (a * b * rinv % n) = _
    unfold mphi; rw [ZMod.natCast_mod]; push_cast; ring
  eq_sound a b h := by
    have : a % n = b % n := by simpa [montOps] using h
    unfold mphi
    rw [(ZMod.natCast_eq_natCast_iff' a b n).2 this]
  inv_sound a i h := by
    have hinv : (Ymq.PolySpec.invMod a n).map (fun i => i * (2 ^ (64 * kw) * 2 ^ (64 * kw) % n) % n) = some i := h
    rw [Option.map_eq_some_iff] at hinv
    obtain ⟨i0, hi0, rfl⟩ := hinv
    have hs := invMod_sound a n i0 hn hi0
    have hRr := R_rinv n kw rinv hR
    unfold mphi
    rw [ZMod.natCast_mod]
    push_cast
    rw [ZMod.natCast_mod]
    push_cast
    set Rz := ((2 : ZMod n) ^ (64 * kw)) with hRz
    have hRr' : Rz * (rinv : ZMod n) = 1 := by rw [hRz]; exact_mod_cast hRr
    calc (a : ZMod n) * (rinv : ZMod n) * ((i0 : ZMod n) * (Rz * Rz) * (rinv : ZMod n))
        = ((a : ZMod n) * (i0 : ZMod n)) * (Rz * (rinv : ZMod n)) * (Rz * (rinv : ZMod n)) := by ring
      _ = 1 := by rw [hs, hRr', mul_one, mul_one]
  eq_complete a b h := by
    unfold mphi at h
    have hRr := R_rinv n kw rinv hR
    have hab : (a : ZMod n) = (b : ZMod n) := by
      calc (a : ZMod n) = (a : ZMod n) * (rinv : ZMod n) * ((2 ^ (64 * kw) : Nat) : ZMod n) := by
            rw [mul_assoc, mul_comm (rinv : ZMod n), hRr, mul_one]
        _ = (b : ZMod n) * (rinv : ZMod n) * ((2 ^ (64 * kw) : Nat) : ZMod n) := by rw [h]
        _ = _ := by rw [mul_assoc, mul_comm (rinv : ZMod n), hRr, mul_one]
    have : a % n = b % n := (ZMod.natCast_eq_natCast_iff' a b n).1 hab
    simp [montOps, this]


/-- the exact inner product of the models under the Montgomery operations -/
theorem dot_mont (n kw rinv : Nat) (f g : Nat → Nat) : ∀ m,
    dot (montOps n kw rinv) f g m = (∑ a ∈ range m, f a * g a) * rinv % n := by
  intro m
  unfold dot
  induction m with
  | zero => simp [montOps]
  | succ m ih =>
    rw [List.range_succ, List.foldl_append, ih, sum_range_succ]
    show ((∑ a ∈ range m, f a * g a) * rinv % n + f m * g m * rinv % n) % n = _
    rw [← Nat.add_mod, ← Nat.add_mul]

theorem cycCoefO_mont (n kw rinv size : Nat) (p q : List Nat) (k : Nat) :
    cycCoefO (montOps n kw rinv) size p q k = Ymq.Crt.cycNat size p q k * rinv % n := by
  unfold cycCoefO
  rw [dot_mont]
  rfl

/-- without wrap-around the plain product coefficient is the cyclic one -/
theorem mulCoef_eq_cyc (size : Nat) (p q : List Nat) (hsz : p.length + q.length ≤ size + 1) (i : Nat)
    (hi : i < size) :
    ∑ a ∈ range (i + 1), p.getD a 0 * q.getD (i - a) 0 = Ymq.Crt.cycNat size p q i := by
  unfold Ymq.Crt.cycNat
  rw [← Finset.sum_subset (s₁ := range (i + 1)) (s₂ := range size)]
  · apply Finset.sum_congr rfl
    intro a ha
    have ha' : a ≤ i := by simp at ha; omega
    congr 2
    rw [show i + size - a = size + (i - a) by omega, Nat.add_mod_left, Nat.mod_eq_of_lt (by omega)]
  · intro a ha; simp at ha ⊢; omega
  · intro a ha hna
    simp only [mem_range, not_lt] at ha hna
    have hidx : (i + size - a) % size = i + size - a := Nat.mod_eq_of_lt (by omega)
    rw [hidx]
    by_cases hap : a < p.length
    · rw [List.getD_eq_getElem?_getD (l := q), List.getElem?_eq_none (by omega)]; simp
    · rw [List.getD_eq_getElem?_getD (l := p), List.getElem?_eq_none (by omega)]; simp

theorem mulCoefO_mont (n kw rinv size : Nat) (p q : List Nat) (hsz : p.length + q.length ≤ size + 1) (i : Nat)
    (hi : i < size) :
    mulCoefO (montOps n kw rinv) p q i = Ymq.Crt.cycNat size p q i * rinv % n := by
  unfold mulCoefO
  rw [dot_mont, ← mulCoef_eq_cyc size p q hsz i hi]
  rfl


theorem list_eq_map_range (l : List Nat) : l = (List.range l.length).map fun t => l.getD t 0 := by
  apply List.ext_getElem
  · simp
  · intro i h1 h2
    simp [List.getD_eq_getElem?_getD, List.getElem?_eq_getElem h1]

open Ymq.Crt in
/-- **the NTT branch of `_middlemul` (`_fft_midmul`) in the arith_poly models is the word-level
`convolve_modn_ntt`**: under the Montgomery operations the exact cyclic coefficients the model writes are,
entry by entry, the output of the word-level model (root tables, `from_mint`, transforms, `_crt`, `zn.redc`) -/
theorem fftMidmul_refines (n k : Nat) (m : Mzp) (hm : Ymq.Crt.new n k = some m) (hn : 0 < n)
    (hbits : Ymq.Checked.bitlen n ≤ 512) (hk31 : k ≤ 31) (kw rinv zlen e : Nat) (p q : List Nat)
    (hq : q.length = 2 ^ e) (hp : p.length = 2 * q.length - 1) (he : e + 1 ≤ k)
    (hpn : ∀ v ∈ p, v < n) (hqn : ∀ v ∈ q, v < n) :
    ∃ rts, rootsPacked m = some rts ∧
      convolveNtt m rts rinv (2 * q.length) (p.map (Ymq.Limbs.ofNat 8)) (q.map (Ymq.Limbs.ofNat 8)) zlen
        (q.length - 1) = fftMidmul k (montOps n kw rinv) zlen p q := by
  have hpq : 0 < 2 ^ e := Nat.pow_pos (by decide)
  have hsize : 2 * q.length = 2 ^ (e + 1) := by rw [hq, pow_succ]; ring
  obtain ⟨rts, res, e1, e2, e3, e4⟩ := convolveNtt_spec n k m hm hn hbits hk31 (e + 1) (by omega) he p q hpn hqn
    (by rw [hp, hq, pow_succ]; omega) (by rw [hq, pow_succ]; omega) rinv zlen (q.length - 1)
  refine ⟨rts, e1, ?_⟩
  rw [hsize, e2]
  unfold fftMidmul
  have hpow : isPow2 q.length = true := by
    unfold isPow2
    rw [hq, Nat.log2_two_pow]
    simp
  rw [hpow]
  simp only [Bool.not_true, Bool.false_eq_true, if_false]
  rw [if_neg (by omega), if_neg (by rw [hq, Nat.log2_two_pow]; omega)]
  congr 1
  rw [list_eq_map_range res, e3]
  apply List.map_congr_left
  intro t ht
  have ht' : t < zlen := List.mem_range.1 ht
  rw [e4 t ht', hsize, cycCoefO_mont]
  rfl

open Ymq.Crt in
/-- **the NTT branch of `_longmul` (`_fft_longmul`) in the arith_poly models is the word-level
`convolve_modn_ntt`** (size `2^bitlen(deg p + deg q)`, no wrap-around) -/
theorem fftLongmul_refines (n k : Nat) (m : Mzp) (hm : Ymq.Crt.new n k = some m) (hn : 0 < n)
    (hbits : Ymq.Checked.bitlen n ≤ 512) (hk31 : k ≤ 31) (kw rinv zlen : Nat) (p q : List Nat)
    (hp1 : 1 ≤ p.length) (hq1 : 1 ≤ q.length) (hpq : 3 ≤ p.length + q.length)
    (hk : Ymq.Checked.bitlen (p.length - 1 + (q.length - 1)) ≤ k)
    (hpn : ∀ v ∈ p, v < n) (hqn : ∀ v ∈ q, v < n) :
    ∃ rts, rootsPacked m = some rts ∧
      convolveNtt m rts rinv (2 ^ Ymq.Checked.bitlen (p.length - 1 + (q.length - 1)))
        (p.map (Ymq.Limbs.ofNat 8)) (q.map (Ymq.Limbs.ofNat 8)) zlen 0 =
      fftLongmul k (montOps n kw rinv) zlen p q := by
  set L := Ymq.Checked.bitlen (p.length - 1 + (q.length - 1)) with hL
  have hlt := bitlen_lt (p.length - 1 + (q.length - 1))
  rw [← hL] at hlt
  have hL1 : 1 ≤ L := by
    by_contra hcon
    have : L = 0 := by omega
    rw [this] at hlt; omega
  obtain ⟨rts, res, e1, e2, e3, e4⟩ := convolveNtt_spec n k m hm hn hbits hk31 L hL1 hk p q hpn hqn
    (by omega) (by omega) rinv zlen 0
  refine ⟨rts, e1, ?_⟩
  rw [e2]
  unfold fftLongmul
  rw [if_neg (by omega)]
  simp only [← hL]
  rw [if_neg (by omega), if_neg (by omega)]
  congr 1
  rw [list_eq_map_range res, e3]
  apply List.map_congr_left
  intro t ht
  have ht' : t < zlen := List.mem_range.1 ht
  rw [e4 t ht', Nat.zero_add]
  by_cases hts : t < 2 ^ L
  · rw [if_pos hts, if_pos hts, mulCoefO_mont n kw rinv (2 ^ L) p q (by omega) t hts]
  · rw [if_neg hts, if_neg hts]; rfl

end Ymq.PolyMul
