/-
`exp_modn_large(g, e) = g^e` for every exponent below 2^1024 (C16): 6-bit windows from the top.
Model: Ymq/Model/ExpModn.lean.
-/
import Ymq.Lemmas.Stage2Exp

namespace Ymq.ExpModn

section
variable {M : Type*} [CommMonoid M]

theorem sqN_eq (x : M) : ∀ n, sqN (· * ·) n x = x ^ (2 ^ n)
  | 0 => by simp [sqN]
  | n + 1 => by
    rw [sqN, sqN_eq (x * x) n, ← pow_two, ← pow_mul, pow_succ, Nat.mul_comm]

theorem smallPows_get (g2 : M) : ∀ (n : Nat) (gk : M) (j : Nat), j < n →
    (smallPows (· * ·) g2 n gk)[j]? = some (gk * g2 ^ j)
  | 0, _, _, h => by omega
  | n + 1, gk, 0, _ => by simp [smallPows]
  | n + 1, gk, j + 1, h => by
    rw [smallPows, List.getElem?_cons_succ, smallPows_get g2 n (gk * g2) j (by omega), pow_succ, mul_assoc, mul_comm g2]

/-- trailing zeros of a non-zero 6-bit block: `b = (2j+1) * 2^tz` with `j = b >> (tz+1) < 32` -/
theorem tz6_spec : ∀ b, b < 64 → 0 < b →
    tz6 6 b ≤ 5 ∧ b = (2 * (b / 2 ^ (tz6 6 b + 1)) + 1) * 2 ^ tz6 6 b ∧ b / 2 ^ (tz6 6 b + 1) < 32 := by
  decide

theorem mod_pow_split (e a : Nat) : e % 2 ^ (a + 6) = e / 2 ^ a % 64 * 2 ^ a + e % 2 ^ a := by
  have h1 : e % 2 ^ (a + 6) = e % (2 ^ a * 64) := by rw [pow_add]; rfl
  rw [h1, Nat.mod_mul]
  ring

theorem mod_pow_succ_split (e a : Nat) : e % 2 ^ (a + 1) = e / 2 ^ a % 2 * 2 ^ a + e % 2 ^ a := by
  have h1 : e % 2 ^ (a + 1) = e % (2 ^ a * 2) := by rw [pow_succ]
  rw [h1, Nat.mod_mul]
  ring

/-- one 6-bit window: `(gk^(2^(6-tz)) * g^(2j+1))^(2^tz) = gk^64 * g^blk` -/
theorem window6 (g gk : M) {blk : Nat} (hb : blk < 64) (hb0 : 0 < blk) :
    ∃ s, (smallPows (· * ·) (g * g) 32 g)[blk / 2 ^ (tz6 6 blk + 1)]? = some s ∧
      sqN (· * ·) (tz6 6 blk) (sqN (· * ·) (6 - tz6 6 blk) gk * s) = gk ^ 64 * g ^ blk := by
  obtain ⟨h1, h2, h3⟩ := tz6_spec blk hb hb0
  refine ⟨_, smallPows_get (g * g) 32 g _ h3, ?_⟩
  rw [sqN_eq, sqN_eq]
  set j := blk / 2 ^ (tz6 6 blk + 1) with hj
  set t := tz6 6 blk with ht
  have e1 : g * (g * g) ^ j = g ^ (2 * j + 1) := by
    rw [← pow_two, ← pow_mul, pow_succ, mul_comm]
  rw [e1, mul_pow, ← pow_mul, ← pow_mul, ← pow_add 2, show 6 - t + t = 6 from by omega]
  congr 2
  exact h2.symm

theorem largeLoop_spec (g : M) (exp : Nat) : ∀ (rem : Nat) (gk : M) (fuel : Nat), rem < fuel →
    largeLoop (· * ·) g (smallPows (· * ·) (g * g) 32 g) exp fuel rem gk = some (gk ^ (2 ^ rem) * g ^ (exp % 2 ^ rem)) := by
  intro rem
  induction rem using Nat.strong_induction_on with
  | _ rem ih =>
    intro gk fuel hf
    obtain ⟨f, rfl⟩ : ∃ f, fuel = f + 1 := ⟨fuel - 1, by omega⟩
    rw [largeLoop]
    by_cases h0 : rem = 0
    · subst h0; simp [Nat.mod_one]
    · rw [if_neg h0]
      obtain ⟨r, rfl⟩ : ∃ r, rem = r + 1 := ⟨rem - 1, by omega⟩
      have hsplit := mod_pow_succ_split exp r
      simp only [Nat.add_sub_cancel]
      by_cases hbit : exp / 2 ^ r % 2 = 0
      · rw [if_pos hbit, ih r (by omega) _ f (by omega), hsplit, hbit, Nat.zero_mul, Nat.zero_add,
          ← pow_two, ← pow_mul, ← pow_succ']
      · rw [if_neg hbit]
        have hbit1 : exp / 2 ^ r % 2 = 1 := by omega
        by_cases h6 : r + 1 ≥ 6
        · rw [if_pos h6]
          obtain ⟨a, ha⟩ : ∃ a, r + 1 = a + 6 := ⟨r + 1 - 6, by omega⟩
          have hblk : expBlock exp (r + 1 - 6) < 64 := Nat.mod_lt _ (by decide)
          have hra : r + 1 - 6 = a := by omega
          have hblk0 : 0 < expBlock exp (r + 1 - 6) := by
            -- bit r of exp is bit 5 of the block
            rw [hra]
            unfold expBlock
            have : r = a + 5 := by omega
            rw [this, pow_add, ← Nat.div_div_eq_div_mul] at hbit1
            have h32 : exp / 2 ^ a / 2 ^ 5 % 2 = exp / 2 ^ a % 64 / 32 := by
              have := Nat.div_add_mod (exp / 2 ^ a) 64
              omega
            rw [h32] at hbit1
            omega
          obtain ⟨s, hs, hw⟩ := window6 g gk hblk hblk0
          simp only [hs, hw]
          rw [hra, ih a (by omega) _ f (by omega), ha, mod_pow_split exp a]
          rw [mul_pow, ← pow_mul, ← pow_mul, mul_assoc, ← pow_add, pow_add 2 a 6]
          have e64 : (64 : Nat) * 2 ^ a = 2 ^ a * 2 ^ 6 := by norm_num [Nat.mul_comm]
          rw [e64]
          rfl
        · rw [if_neg h6, ih r (by omega) _ f (by omega), hsplit, hbit1, Nat.one_mul]
          rw [mul_pow, ← pow_two, ← pow_mul, ← pow_succ', mul_assoc, ← pow_add]

theorem bitlen_bounds {e : Nat} (he : e ≠ 0) : 2 ^ (bitlen e - 1) ≤ e ∧ e < 2 ^ bitlen e ∧ 1 ≤ bitlen e := by
  unfold bitlen
  rw [if_neg he]
  exact ⟨by simpa using Nat.log2_self_le he, Nat.lt_log2_self, by omega⟩

theorem expModnLarge_eq (g : M) (e : Nat) (h1024 : e < 2 ^ 1024) : expModnLarge (· * ·) 1 g e = some (g ^ e) := by
  unfold expModnLarge
  by_cases he : e = 0
  · subst he; simp [bitlen]
  · obtain ⟨hlo, hhi, h1⟩ := bitlen_bounds he
    set bl := bitlen e with hbl
    simp only
    rw [if_neg (by omega)]
    by_cases hb1 : bl = 1
    · rw [if_pos hb1]
      rw [hb1] at hlo hhi
      have : e = 1 := by simp at hlo hhi; omega
      rw [this, pow_one]
    · rw [if_neg hb1]
      by_cases hb64 : bl ≤ 64
      · rw [if_pos hb64]
        have hlt : e < 2 ^ 64 := lt_of_lt_of_le hhi (Nat.pow_le_pow_right (by decide) hb64)
        rw [Nat.mod_eq_of_lt hlt]
        exact expModn_eq g e hlt
      · rw [if_neg hb64]
        obtain ⟨a, ha⟩ : ∃ a, bl = a + 6 := ⟨bl - 6, by omega⟩
        have hra : bl - 6 = a := by omega
        have hbl1024 : bl - 1 < 1024 := (Nat.pow_lt_pow_iff_right (by decide : 1 < 2)).mp (lt_of_le_of_lt hlo h1024)
        have hdivlt : e / 2 ^ a < 64 := by
          rw [Nat.div_lt_iff_lt_mul (by positivity), Nat.mul_comm]
          rw [ha, pow_add] at hhi
          have e64 : (2 : Nat) ^ 6 = 64 := by norm_num
          rw [e64] at hhi; exact hhi
        have hblk : expBlock e (bl - 6) = e / 2 ^ a := by
          rw [hra]; unfold expBlock; exact Nat.mod_eq_of_lt hdivlt
        have hblk0 : 0 < e / 2 ^ a := by
          apply Nat.div_pos _ (by positivity)
          have : 2 ^ a ≤ 2 ^ (bl - 1) := Nat.pow_le_pow_right (by decide) (by omega)
          exact le_trans this hlo
        obtain ⟨s, hs, hw⟩ := window6 g (1 : M) (blk := e / 2 ^ a) hdivlt hblk0
        rw [hblk]
        simp only [hs]
        rw [hra, largeLoop_spec g e a _ 1025 (by omega)]
        have hw' : sqN (· * ·) (tz6 6 (e / 2 ^ a)) s = g ^ (e / 2 ^ a) := by
          have := hw
          rw [sqN_eq (1 : M), one_pow, one_mul, one_pow, one_mul] at this
          exact this
        rw [hw', ← pow_mul, ← pow_add]
        congr 2
        have := Nat.div_add_mod e (2 ^ a)
        rw [Nat.mul_comm] at this
        exact this

end

end Ymq.ExpModn
