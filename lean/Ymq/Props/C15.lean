/-
C15 — elliptic-curve arithmetic implements the group law.
Part A: addition chains (models: Ymq/Model/Chain.lean; helper lemmas: Ymq/Lemmas/Chain*.lean).
Part B: curve formulas (translated: Ymq/Gen/Curves.lean; one Lemmas/Curve* module per identity).
Only property theorems live here.
-/
import Ymq.Lemmas.ChainGroup
import Ymq.Lemmas.ChainLong
import Ymq.Lemmas.CurveAddClosed
import Ymq.Lemmas.CurveDoubleClosed
import Ymq.Lemmas.CurveDblextClosed
import Ymq.Lemmas.CurveAddextClosed
import Ymq.Lemmas.CurveAddDouble
import Ymq.Lemmas.CurveDblextDouble
import Ymq.Lemmas.CurveAddextAdd
import Ymq.Lemmas.CurveSuyama
import Ymq.Lemmas.CurveMisc

namespace Ymq.C15
open Ymq.Chain

/-! ## A. addition chains -/

/-- `make_addition_chain` is total on the non-zero 64-bit scalars — including 2^64-1 … 2^64-7 and
the scalars that need 33 opcodes —, never overflows or indexes out of its buffer (the model
returns `none` at every such site), and the chain it returns denotes `k`; it has at most 33
opcodes (= the buffer its callers allocate), every opcode but the last is odd with `|x| ≤ 7` or even
in `[2, 126]`, the last one is odd in `[1, 7]` (`WF 7`). -/
theorem chain_eval (k : Nat) (h0 : 0 < k) (hk : k < 2 ^ 64) :
    ∃ c, makeChain k = some c ∧ evalChain c = (k : Int) ∧ c.length ≤ 33 ∧ WF 7 c := by
  have hcap : 33 ≤ Ymq.Gen.Curves.chainCap := by decide
  have hW : k < W := by rw [W_eq]; exact hk
  unfold makeChain makeChainCap
  generalize Ymq.Gen.Curves.chainCap = cap at hcap
  have hk0 : ¬ (k = 0) := by omega
  simp only [hk0, if_false]
  by_cases hodd : k % 2 = 1
  · obtain ⟨c, h1, h2, h3, h4⟩ := mk64_odd cap 16 (cap + 1) 0 k hodd
      (by have : (8 : Nat) * 16 ^ 16 = 2 ^ 67 := by norm_num
          rw [this]; exact lt_trans hk (by norm_num)) hW (by omega) (by omega)
    exact ⟨c, h1, h2, by omega, h4⟩
  · obtain ⟨t, m, ht1, ht, hm, hmo, hstep⟩ := mk64_even cap cap 0 k h0 hW (by omega) (by omega)
    have hm63 : m < 8 * 16 ^ 15 := by
      have h15 : (8 : Nat) * 16 ^ 15 = 2 ^ 63 := by norm_num
      rw [h15]
      by_contra hc
      have h2t : 2 ≤ 2 ^ t := by
        calc 2 = 2 ^ 1 := by norm_num
          _ ≤ 2 ^ t := Nat.pow_le_pow_right (by norm_num) ht1
      have : 2 * 2 ^ 63 ≤ 2 ^ t * m := Nat.mul_le_mul h2t (by omega)
      have h64 : (2 : Nat) * 2 ^ 63 = 2 ^ 64 := by norm_num
      omega
    have hmW : m < W := by
      have : m ≤ 2 ^ t * m := Nat.le_mul_of_pos_left m (Nat.pow_pos (by decide : 0 < 2))
      omega
    obtain ⟨c, h1, h2, h3, h4⟩ := mk64_odd cap 15 cap 1 m hmo hm63 hmW (by omega) (by omega)
    obtain ⟨hev, hwf⟩ := even_then (m7 := 7) t m c ht1 ht h4 h2
    refine ⟨(2 * (t : Int)) :: c, ?_, ?_, ?_, hwf⟩
    · rw [hstep, h1]; rfl
    · rw [hev, ← hm]
    · simp only [List.length_cons]; omega

/-- non-vacuity / sharpness of the length bound: this scalar takes all 33 opcodes -/
theorem chain_eval_len33_witness :
    (makeChain 10453154975102079249).map List.length = some 33 := by decide

/-- Counter-witness for the buffer of 32 opcodes the pinned tree used ("the chain length is never
more than 32"): with capacity 32 the builder indexes `chain[32]` for k = 0x9111111111111111
(observed on the real code: panic in both profiles; repaired by a `fix:` commit). -/
theorem chain_cap32_witness : makeChainCap 32 10453154975102079249 = none := by decide

example : makeChain (2 ^ 64 - 1) = some [-1, 126, 1] := by decide

/-- `make_addition_chain_long` is total on the non-zero 1024-bit scalars: no u128/u32/i8 overflow or
underflow (`exp += ..`, `nbits - bits`, `curbits -= 1`), no index outside its 384-entry buffer — the
chain has at most 294 opcodes —, and the chain it returns denotes `n`; every opcode but the last is
odd with `|x| ≤ 63` or even in `[2, 126]`, the last one is odd in `[1, 63]` (`WF 63`). -/
theorem chain_long_eval (n : Nat) (h0 : 0 < n) (hn : n < 2 ^ 1024) :
    ∃ c, makeChainLong n = some c ∧ evalChain c = (n : Int) ∧ c.length ≤ 294 ∧ WF 63 c := by
  have hcap : 295 ≤ Ymq.Gen.Curves.chainLongCap := by decide
  obtain ⟨c, h1, h2, h3, h4⟩ := makeChainLongCap_spec h0 hn hcap
  exact ⟨c, h1, h2, h4, h3⟩

example : makeChainLong (2 ^ 64) = some [120, 8, 1] := by decide

section Group
variable {G : Type} [AddCommGroup G]

/-- Any well-formed chain, run by the interpreter loop of `scalar64_chainmul` /
`scalar1024_chainmul` in an additive commutative group (doubling = `x + x`) over a table
`gaps[i] = (2i+1) P`, computes `(evalChain c) P`. -/
theorem chain_interp_spec (gaps : List G) (P : G) (m : Int) (hg : GapsOk gaps P m) (c : List Int)
    (hc : WF m c) :
    runChain id dbl dbl (fun a b => a + b) (fun a b => a - b) gaps c = some (evalChain c • P) :=
  runChain_spec gaps P m hg c hc

/-- `scalar64_chainmul(k, P)` over a group: returns normally and computes `k P` for every 64-bit
scalar (0 included). -/
theorem chainmul_spec (k : Nat) (hk : k < 2 ^ 64) (P : G) :
    scalar64Chainmul (0 : G) id id dbl dbl (fun a b => a + b) (fun a b => a + b) (fun a b => a - b) k P
      = some (k • P) := by
  unfold scalar64Chainmul
  by_cases h0 : k = 0
  · subst h0; simp
  · simp only [h0, if_false]
    obtain ⟨c, h1, h2, _, h4⟩ := chain_eval k (by omega) hk
    have hg := gapsOk_mkGaps P 4
    rw [h1]
    simp only
    rw [runChain_spec _ P _ hg c (by simpa using h4), h2, natCast_zsmul]

/-- `scalar64_mul_dbladd(k, P)` over a group computes `k P`. -/
theorem dbladd_spec (k : Nat) (hk : k < 2 ^ 64) (P : G) :
    scalar64MulDbladd (0 : G) (fun a b => a + b) dbl k P = some (k • P) := by
  unfold scalar64MulDbladd
  have := dblAddLoop_spec P 64 k 0 1 hk
  rw [zero_zsmul, one_zsmul] at this
  rw [this, zero_add, mul_one, natCast_zsmul]

/-- chain multiplication = double-and-add, for every 64-bit scalar -/
theorem chainmul_eq_dbladd (k : Nat) (hk : k < 2 ^ 64) (P : G) :
    scalar64Chainmul (0 : G) id id dbl dbl (fun a b => a + b) (fun a b => a + b) (fun a b => a - b) k P
      = scalar64MulDbladd (0 : G) (fun a b => a + b) dbl k P := by
  rw [chainmul_spec k hk, dbladd_spec k hk]

/-- `ecm128::Curve::scalar64_mul(k, P)` (fused double-add, subtraction through the negated table
entry) computes `k P` for every 64-bit scalar. -/
theorem mul128_spec (k : Nat) (hk : k < 2 ^ 64) (P : G) :
    scalar64Mul128 (0 : G) id id dbl dbl (fun a b => a + b) (fun q g => dbl q + g) (fun g => -g) k P
      = some (k • P) := by
  unfold scalar64Mul128
  by_cases h0 : k = 0
  · subst h0; simp
  · simp only [h0, if_false]
    obtain ⟨c, h1, h2, _, h4⟩ := chain_eval k (by omega) hk
    have hg := gapsOk_mkGaps P 4
    rw [h1]
    simp only
    have hstep : stepOp dbl id (fun q g => dbl q + g) (fun q g => dbl q + -g) (mkGaps (fun a b => a + b) (dbl P) 4 (id P))
        = stepOp dbl dbl (fun a b => a + b) (fun a b => a - b) (mkGaps (fun a b => a + b) (dbl P) 4 (id P)) := by
      funext q op
      simp only [stepOp, id, sub_eq_add_neg]
    unfold runChain
    rw [hstep]
    have := runChain_spec _ P _ hg c (by simpa using h4)
    unfold runChain at this
    rw [this, h2, natCast_zsmul]

/-- Defect witness kept for the record: without the `k == 0` special case (pinned tree) the chain
`[0]` selects `gaps[0]` and the 128-bit routine returned `P` instead of the neutral element
(repaired by a `fix:` commit; no caller passes 0). -/
theorem mul128_zero_witness (P : G) :
    runChain id dbl id (fun q g => dbl q + g) (fun q g => dbl q + -g)
      (mkGaps (fun a b => a + b) (dbl P) 4 (id P)) [0] = some P := by
  simp [runChain, mkGaps, foldOps]

/-- `scalar1024_chainmul(n, P)` over a group: returns normally and computes `n P` for every
1024-bit scalar (0 included). -/
theorem chainmul1024_spec (n : Nat) (hn : n < 2 ^ 1024) (P : G) :
    scalar1024Chainmul (0 : G) id id dbl dbl (fun a b => a + b) (fun a b => a + b) (fun a b => a - b) n P
      = some (n • P) := by
  unfold scalar1024Chainmul
  by_cases h0 : n = 0
  · subst h0; simp
  · simp only [h0, if_false]
    obtain ⟨c, h1, h2, _, h4⟩ := chain_long_eval n (by omega) hn
    have hg := gapsOk_mkGaps P 32
    rw [h1]
    simp only
    rw [runChain_spec _ P _ hg c (by simpa using h4), h2, natCast_zsmul]

example : GapsOk (mkGaps (fun a b => a + b) (dbl (1 : Int)) 4 (id 1)) (1 : Int) 7 := by
  simpa using gapsOk_mkGaps (1 : Int) 4

end Group

/-! ## B. curve formulas

`ecmAdd`, `ecmDouble`, … are the bodies of the Rust functions, translated on every run by
translate/curves.py (Gen/Curves.lean); `ecmIsValid d tw p` is the code's own `is_valid`
(`(±x²+y²)z² = z⁴ + d x²y²`, `tw = true` for a = -1), `ecmIsValidext` its `is_validext`
(`±x²+y² = z² + d t²`), `OnQuadric` is `t z = x y`, `ProjEq` the three cross products of
`projective_equal`. All statements hold over every commutative ring (so over Z/n for composite n). -/

section Curves
open Ymq.Gen.Curves Ymq.Curve
variable {R : Type} [CommRing R]

/-- `Curve::add` maps curve points to curve points (a = +1 and a = -1). -/
theorem add_closed (d : R) (tw : Bool) (p q : Pt R) (hp : ecmIsValid d tw p) (hq : ecmIsValid d tw q) :
    ecmIsValid d tw (ecmAdd d tw p q) := by
  obtain ⟨X1, Y1, Z1⟩ := p; obtain ⟨X2, Y2, Z2⟩ := q
  cases tw
  · exact add_closed_a1 d X1 Y1 Z1 X2 Y2 Z2 hp hq
  · exact add_closed_tw d X1 Y1 Z1 X2 Y2 Z2 hp hq

/-- `Curve::double` maps curve points to curve points. -/
theorem double_closed (d : R) (tw : Bool) (p : Pt R) (hp : ecmIsValid d tw p) :
    ecmIsValid d tw (ecmDouble d tw p) := by
  obtain ⟨X1, Y1, Z1⟩ := p
  cases tw
  · exact double_closed_a1 d X1 Y1 Z1 hp
  · exact double_closed_tw d X1 Y1 Z1 hp

/-- `Curve::dblext`: the result satisfies the extended curve equation and lies on the quadric. -/
theorem dblext_closed (d : R) (tw : Bool) (p : Pt R) (hp : ecmIsValid d tw p) :
    ecmIsValidext d tw (ecmDblext d tw p) ∧ OnQuadric (ecmDblext d tw p) := by
  obtain ⟨X1, Y1, Z1⟩ := p
  cases tw
  · exact dblext_closed_a1 d X1 Y1 Z1 hp
  · exact dblext_closed_tw d X1 Y1 Z1 hp

/-- `Curve::to_extended` -/
theorem to_extended_closed (d : R) (tw : Bool) (p : Pt R) (hp : ecmIsValid d tw p) :
    ecmIsValidext d tw (ecmToExtended d tw p) ∧ OnQuadric (ecmToExtended d tw p) := by
  obtain ⟨X1, Y1, Z1⟩ := p
  cases tw
  · exact to_extended_closed_a1 d X1 Y1 Z1 hp
  · exact to_extended_closed_tw d X1 Y1 Z1 hp

/-- `Curve::addext` (extended coordinates): curve equation and `T Z = X Y` are preserved. -/
theorem addext_closed (d : R) (tw : Bool) (p q : Ext R) (hp : ecmIsValidext d tw p) (hpq : OnQuadric p)
    (hq : ecmIsValidext d tw q) (hqq : OnQuadric q) :
    ecmIsValidext d tw (ecmAddext d tw p q) ∧ OnQuadric (ecmAddext d tw p q) := by
  obtain ⟨X1, Y1, Z1, T1⟩ := p; obtain ⟨X2, Y2, Z2, T2⟩ := q
  cases tw
  · exact addext_closed_a1 d X1 Y1 Z1 T1 X2 Y2 Z2 T2 hp hpq hq hqq
  · exact addext_closed_tw d X1 Y1 Z1 T1 X2 Y2 Z2 T2 hp hpq hq hqq

/-- `Curve::addextproj`: the projective result is on the curve. -/
theorem addextproj_closed (d : R) (tw : Bool) (p q : Ext R) (hp : ecmIsValidext d tw p) (hpq : OnQuadric p)
    (hq : ecmIsValidext d tw q) (hqq : OnQuadric q) : ecmIsValid d tw (ecmAddextproj d tw p q) := by
  rw [addextproj_eq]
  obtain ⟨h1, h2⟩ := addext_closed d tw p q hp hpq hq hqq
  exact toProj_valid d tw _ h1 h2

/-- `Curve::subextproj P Q = addextproj P (-Q)` with `-(x, y, z, t) = (-x, y, z, -t)` (syntactic). -/
theorem subextproj_neg (d : R) (tw : Bool) (p q : Ext R) :
    ecmSubextproj d tw p q = ecmAddextproj d tw p (negExt q) := subextproj_eq d tw p q

/-- `Curve::subextproj`: the result is on the curve. -/
theorem subextproj_closed (d : R) (tw : Bool) (p q : Ext R) (hp : ecmIsValidext d tw p) (hpq : OnQuadric p)
    (hq : ecmIsValidext d tw q) (hqq : OnQuadric q) : ecmIsValid d tw (ecmSubextproj d tw p q) := by
  rw [subextproj_eq]
  obtain ⟨h1, h2⟩ := negExt_valid d tw q hq hqq
  exact addextproj_closed d tw p _ hp hpq h1 h2

/-- `add P P ~ double P` (both formulas are unified; informative wherever neither triple is zero) -/
theorem add_self_double (d : R) (tw : Bool) (p : Pt R) (hp : ecmIsValid d tw p) :
    ProjEq (ecmAdd d tw p p) (ecmDouble d tw p) := by
  obtain ⟨X1, Y1, Z1⟩ := p
  cases tw
  · exact add_self_double_a1 d X1 Y1 Z1 hp
  · exact add_self_double_tw d X1 Y1 Z1 hp

/-- `dblext ~ double` -/
theorem dblext_double (d : R) (tw : Bool) (p : Pt R) (hp : ecmIsValid d tw p) :
    ProjEq (ecmDblext d tw p).toProj (ecmDouble d tw p) := by
  obtain ⟨X1, Y1, Z1⟩ := p
  cases tw
  · exact dblext_double_a1 d X1 Y1 Z1 hp
  · exact dblext_double_tw d X1 Y1 Z1 hp

/-- `addext ~ add` (on the projections): equal as projective points, or `addext` degenerate (the zero
triple, see `addext_self_zero`; then the statement is vacuous) -/
theorem addext_add (d : R) (tw : Bool) (p q : Ext R) (hp : ecmIsValidext d tw p) (hpq : OnQuadric p)
    (hq : ecmIsValidext d tw q) (hqq : OnQuadric q) :
    ProjEq (ecmAddext d tw p q).toProj (ecmAdd d tw p.toProj q.toProj) := by
  obtain ⟨X1, Y1, Z1, T1⟩ := p; obtain ⟨X2, Y2, Z2, T2⟩ := q
  cases tw
  · exact addext_add_a1 d X1 Y1 Z1 T1 X2 Y2 Z2 T2 hp hpq hq hqq
  · exact addext_add_tw d X1 Y1 Z1 T1 X2 Y2 Z2 T2 hp hpq hq hqq

/-- the 128-bit formulas are the a = -1 formulas of ecm.rs, and `dbladd = add ∘ dblext` without `t` -/
theorem e128_eq_ecm (g : Pt R) (d : R) (p : Pt R) (pe qe : Ext R) :
    e128Add g pe qe = ecmAddext d true pe qe ∧ e128Dblext g p = ecmDblext d true p ∧
    e128Double g p = ecmDouble d true p ∧ e128Ext g p = ecmToExtended d true p ∧
    e128Dbladd g p qe = (ecmAddext d true (ecmDblext d true p) qe).toProj := by
  refine ⟨e128_add_eq g d pe qe, e128_dblext_eq g d p, e128_double_eq g d p, e128_ext_eq g d p, ?_⟩
  rw [e128_dbladd_eq, e128_add_eq g d, e128_dblext_eq g d]

/-- `ecm128::Curve::dbladd` maps curve points to curve points and `dbladd P Q ~ add (double P) Q` -/
theorem e128_dbladd_spec (g : Pt R) (d : R) (p : Pt R) (q : Ext R) (hp : ecmIsValid d true p)
    (hq : ecmIsValidext d true q) (hqq : OnQuadric q) :
    ecmIsValid d true (e128Dbladd g p q) ∧
      ProjEq (e128Dbladd g p q) (ecmAdd d true (ecmDblext d true p).toProj q.toProj) := by
  obtain ⟨h1, h2⟩ := dblext_closed d true p hp
  rw [(e128_eq_ecm g d p q q).2.2.2.2]
  exact ⟨by rw [← addextproj_eq]; exact addextproj_closed d true _ q h1 h2 hq hqq,
    addext_add d true _ q h1 h2 hq hqq⟩

/-- `ecm128::Curve::is_valid` accepts every point of the generator's curve -/
theorem e128_is_valid_of_curve (g : Pt R) (d : R) (p : Ext R) (hg : ecmIsValid d true g)
    (hp : ecmIsValidext d true p) : e128IsValid g p := by
  refine e128_is_valid_of g d p ?_ hp
  rw [e128_ext_eq g d]
  exact (to_extended_closed d true g hg).1

/-- Suyama-11 parameter curve `y² z = x³ + a x z² + b z³`: `Suyama11::double` is closed -/
theorem suyama_double_on_curve (a b gx gy : R) (p : Pt R) (hp : suyamaIsValid a b gx gy p) :
    suyamaIsValid a b gx gy (suyamaDouble a b gx gy p) := by
  obtain ⟨X1, Y1, Z1⟩ := p
  exact suyama_double_closed a b gx gy X1 Y1 Z1 hp

/-- `Suyama11::add_g` (mixed addition of the generator) is closed -/
theorem suyama_add_g_on_curve (a b gx gy : R) (p : Pt R) (hp : suyamaIsValid a b gx gy p)
    (hg : suyamaIsValid a b gx gy ⟨gx, gy, 1⟩) : suyamaIsValid a b gx gy (suyamaAddG a b gx gy p) := by
  obtain ⟨X1, Y1, Z1⟩ := p
  exact suyama_add_g_closed a b gx gy X1 Y1 Z1 hp hg

/-- the generator (12 - 1/3, 24) built by `Suyama11::new` is on its curve (`3 · one_third = 1` is
the code's own debug assertion) -/
theorem suyama_generator_on_curve (t : R) (h3 : ((3 : Nat) : R) * t = 1) :
    suyamaIsValid (suyamaConsts t).1 (suyamaConsts t).2.1 (suyamaConsts t).2.2.1 (suyamaConsts t).2.2.2
      ⟨(suyamaConsts t).2.2.1, (suyamaConsts t).2.2.2, 1⟩ := suyama_generator_valid t h3

/-- `params_point` followed by `twisted_from_point` (as `ecm()` composes them): the translated
generator `suyamaParamsPoint ..` lies on the a = -1 curve with the `d` that the translated
`ecmTwistedFromPoint` computes from it, whenever the inverse taken by `twisted_from_point` exists.
(The membership itself holds for any point with invertible `x²y²`: `d` is defined from the point; what
is specific to the Suyama family — `d` depending on σ only, torsion Z/12 — is not part of C15.) -/
theorem params_point_on_curve (inv : R → R) (a b gx gy : R) (pt : Pt R)
    (h : ((suyamaParamsPoint inv a b gx gy pt).x * (suyamaParamsPoint inv a b gx gy pt).x *
          ((suyamaParamsPoint inv a b gx gy pt).y * (suyamaParamsPoint inv a b gx gy pt).y)) *
        inv ((suyamaParamsPoint inv a b gx gy pt).x * (suyamaParamsPoint inv a b gx gy pt).x *
          ((suyamaParamsPoint inv a b gx gy pt).y * (suyamaParamsPoint inv a b gx gy pt).y)) = 1) :
    ecmIsValid (ecmTwistedFromPoint inv 0 true (suyamaParamsPoint inv a b gx gy pt)) true
      (suyamaParamsPoint inv a b gx gy pt) :=
  twisted_from_point_valid inv 0 true _ h

/-- `Suyama11::params`: the returned `(σ, r)` satisfy `σ = 72z/(3x+z) - 1`, `r = 432 y z/(3x+z)²`
(denominators cleared), whenever the inverse it takes exists. -/
theorem suyama_params_spec (inv : R → R) (a b gx gy : R) (pt : Pt R)
    (hinv : ((pt.z + pt.x + (pt.x + pt.x)) * (pt.z + pt.x + (pt.x + pt.x))) *
      inv ((pt.z + pt.x + (pt.x + pt.x)) * (pt.z + pt.x + (pt.x + pt.x))) = 1) :
    ((suyamaParams inv a b gx gy pt).1 + 1) * (3 * pt.x + pt.z) = 72 * pt.z ∧
    (suyamaParams inv a b gx gy pt).2 * ((3 * pt.x + pt.z) * (3 * pt.x + pt.z)) = 432 * (pt.y * pt.z) :=
  suyama_params_rel inv a b gx gy pt hinv

/-- Incompleteness of the dedicated extended addition, stated so that the agreement theorems are not
over-read: on equal arguments `addext` returns the zero quadruple, for which `ProjEq` (all
`addext_add`, `add_self_double`, `e128_dbladd_spec` conclusions) is vacuous. -/
theorem addext_self_zero (d : R) (tw : Bool) (p : Ext R) : ecmAddext d tw p p = ⟨0, 0, 0, 0⟩ :=
  addext_self d tw p

/-- `Curve::from_point(x, y)`: `(x, y, 1)` lies on the a = +1 curve with the returned `d`. -/
theorem from_point_on_curve (inv : R → R) (x y : R) (h1 : (1 : R) * inv 1 = 1)
    (hxy : (x * y) * inv (x * y) = 1) :
    ecmIsValid (ecmFromPoint inv x y).1 false (ecmFromPoint inv x y).2 := from_point_valid inv x y h1 hxy

end Curves

/-! non-vacuity: the hypotheses are satisfiable by non-trivial points (over ℤ) -/
section NonVacuity
open Ymq.Gen.Curves Ymq.Curve

example : ecmIsValid (1 : Int) false ⟨1, 2, 1⟩ := by
  simp [ecmIsValid, ecmIsValidSides]
example : ecmIsValid (-1 : Int) true ⟨1, 2, 2⟩ := by
  simp [ecmIsValid, ecmIsValidSides]
example : ecmIsValidext (-1 : Int) true (ecmToExtended (-1) true ⟨1, 2, 2⟩) ∧
    OnQuadric (ecmToExtended (-1 : Int) true ⟨1, 2, 2⟩) :=
  to_extended_closed (-1) true ⟨1, 2, 2⟩ (by simp [ecmIsValid, ecmIsValidSides])
example : suyamaIsValid (-3 : Int) 3 1 1 ⟨1, 1, 1⟩ := by
  simp [suyamaIsValid, suyamaIsValidSides]
example : ∃ (inv : Int → Int) (x y : Int), (1 : Int) * inv 1 = 1 ∧ (x * y) * inv (x * y) = 1 :=
  ⟨fun _ => 1, 1, 1, by simp, by simp⟩

/-- Finding witness (model level, over ℤ): on the point (1, 0, 1) of order 4 of x² + y² = 1 + 5x²y² the
chain multiplication by 3 returns the zero triple while double-and-add returns 3P = (-1 : 0 : 1) up to
scaling. Same behaviour of the real code (K); see the report for a witness of order 1269. -/
theorem chainmul_degenerate_witness :
    ((scalar64Chainmul (⟨0, 1, 1⟩ : Pt Int) (ecmToExtended 5 false) Ext.toProj (ecmDouble 5 false)
        (ecmDblext 5 false) (ecmAddext 5 false) (ecmAddextproj 5 false) (ecmSubextproj 5 false) 3 ⟨1, 0, 1⟩).map
        (fun p => (p.x, p.y, p.z)) = some (0, 0, 0)) ∧
    ((scalar64MulDbladd (⟨0, 1, 1⟩ : Pt Int) (ecmAdd 5 false) (ecmDouble 5 false) 3 ⟨1, 0, 1⟩).map
        (fun p => (p.x + p.z, p.y)) = some (0, 0)) := by
  decide

end NonVacuity

end Ymq.C15
