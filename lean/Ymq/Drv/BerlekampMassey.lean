import Ymq.Drv.Util
import Ymq.Model.BerlekampMassey

/-!
Driver ops of the Berlekamp–Massey model (C19):
* `bm <p> <seq>`      → `panic` | `-` (empty vector) | `c0,c1,...`   (`berlekamp_massey`)
* `bm_big <p> <seq>`  → the same for `berlekamp_massey_big::<U256, U512>`
* `bm_trace <p> <seq>` (model only) → `swaps one-term-steps two-term-steps` of the run
-/
namespace Ymq.Drv
open Ymq.BM

def showBm : Option (List Nat) → String
  | none => "panic"
  | some l => showList l

def handleBm : Handler
  | ["bm", p, seq] => do
    let p ← parseNat p; let seq ← parseNatList seq
    some (showBm (bm p seq))
  | ["bm_big", p, seq] => do
    let p ← parseNat p; let seq ← parseNatList seq
    some (showBm (bmBig p seq))
  | ["bm_trace", p, seq] => do
    let p ← parseNat p; let seq ← parseNatList seq
    match Ymq.Mg64.mg2adicInv p with
    | none => some "panic"
    | some pinv =>
      let r := Ymq.Mg64.W % p
      match initSt seq with
      | some (some s) =>
        let (a, b, c) := trace (mgOps p pinv (r * r % p)) seq.length (2 * seq.length) s (0, 0, 0)
        some s!"{a} {b} {c}"
      | _ => some "-"
  | _ => none

end Ymq.Drv
