/-
The discrete Fourier transform behind `mulfft` (Fermat transform) and `convolve_modn_ntt`
(multi-prime NTT), in an arbitrary commutative ring (property C10, theorem `dft_conv`): the
radix-2 recursion of `fft`/`ntt_inplace` computes the DFT for a root with `ω^(2^(k-1)) = -1`, such a
root is principal (orthogonality), the transform with the inverse root inverts up to the factor
`2^k`, and pointwise products correspond to cyclic convolutions.
-/
import Mathlib.Algebra.BigOperators.Group.Finset.Basic
import Mathlib.Algebra.BigOperators.Ring.Finset
import Mathlib.Algebra.BigOperators.Intervals
import Mathlib.Algebra.Ring.Parity
import Mathlib.Tactic.Ring
import Mathlib.Tactic.Linarith
import Ymq.Lemmas.KroneckerSum

namespace Ymq.Dft
open Finset

variable {R : Type*} [CommRing R]

/-- the discrete Fourier transform of length `n` with root `ω`: `Σ_{i<n} f i · ω^(i·j)` -/
def dft (n : Nat) (ω : R) (f : Nat → R) (j : Nat) : R := ∑ i ∈ range n, f i * ω ^ (i * j)

/-- the radix-2 recursion of `arith_fft::fft` / `ntt_inplace` on the strided view `f`:
transform the even and the odd entries with the root `ω²`, twiddle the odd half by `ω^j` and
combine with a butterfly. -/
def fftRec : Nat → R → (Nat → R) → Nat → R
  | 0, _, f, _ => f 0
  | k + 1, ω, f, j =>
    let e := fftRec k (ω * ω) (fun i => f (2 * i))
    let o := fftRec k (ω * ω) (fun i => f (2 * i + 1))
    if j < 2 ^ k then e j + ω ^ j * o j else e (j - 2 ^ k) - ω ^ (j - 2 ^ k) * o (j - 2 ^ k)

/-- splitting a sum over `range (2n)` into even and odd indices -/
theorem sum_even_odd (n : Nat) (h : Nat → R) :
    ∑ i ∈ range (2 * n), h i = ∑ i ∈ range n, h (2 * i) + ∑ i ∈ range n, h (2 * i + 1) := by
  induction n with
  | zero => simp
  | succ n ih =>
    rw [show 2 * (n + 1) = 2 * n + 1 + 1 by ring, sum_range_succ, sum_range_succ, ih,
      sum_range_succ, sum_range_succ]
    ring

/-- **The radix-2 recursion computes the DFT**: for a root with `ω^(2^(k-1)) = -1` (size `2^k`,
`k ≥ 1`; nothing is needed for size 1), every output `j < 2^k` of the recursion is
`Σ_{i<2^k} f i · ω^(i·j)`. -/
theorem fftRec_eq_dft (k : Nat) (ω : R) (hω : k = 0 ∨ ω ^ 2 ^ (k - 1) = -1) (f : Nat → R) (j : Nat)
    (hj : j < 2 ^ k) : fftRec k ω f j = dft (2 ^ k) ω f j := by
  induction k generalizing ω f j with
  | zero =>
    have : j = 0 := by simpa using hj
    subst this
    simp [fftRec, dft]
  | succ k ih =>
    have hneg : ω ^ 2 ^ k = -1 := by
      rcases hω with h | h
      · omega
      · simpa using h
    have hω' : k = 0 ∨ (ω * ω) ^ 2 ^ (k - 1) = -1 := by
      rcases Nat.eq_zero_or_pos k with h0 | hpos
      · exact Or.inl h0
      · right
        rw [← pow_two, ← pow_mul, ← pow_succ']
        have : k - 1 + 1 = k := by omega
        rw [this, hneg]
    have hsq : ∀ i m : Nat, (ω * ω) ^ (i * m) = ω ^ (2 * i * m) := by
      intro i m; rw [← pow_two, ← pow_mul]; congr 1; ring
    unfold fftRec
    simp only
    unfold dft
    rw [show 2 ^ (k + 1) = 2 * 2 ^ k by ring, sum_even_odd]
    by_cases hlow : j < 2 ^ k
    · rw [if_pos hlow, ih (ω * ω) hω' _ j hlow, ih (ω * ω) hω' _ j hlow]
      unfold dft
      rw [Finset.mul_sum]
      congr 1
      · apply Finset.sum_congr rfl; intro i _; rw [hsq]
      · apply Finset.sum_congr rfl; intro i _
        rw [hsq, show (2 * i + 1) * j = j + 2 * i * j by ring, pow_add]; ring
    · rw [if_neg hlow]
      have hj' : j - 2 ^ k < 2 ^ k := by
        have : 2 ^ (k + 1) = 2 * 2 ^ k := by ring
        omega
      rw [ih (ω * ω) hω' _ _ hj', ih (ω * ω) hω' _ _ hj']
      unfold dft
      have hjj : j = 2 ^ k + (j - 2 ^ k) := by omega
      set j' := j - 2 ^ k with hjdef
      have hper : ∀ i : Nat, ω ^ (2 * i * j) = ω ^ (2 * i * j') := by
        intro i
        rw [hjj, show 2 * i * (2 ^ k + j') = 2 ^ k * (2 * i) + 2 * i * j' by ring, pow_add, pow_mul, hneg]
        simp
      have hodd : ω ^ j = -ω ^ j' := by rw [hjj, pow_add, hneg]; ring
      rw [Finset.mul_sum, sub_eq_add_neg, ← Finset.sum_neg_distrib]
      congr 1
      · apply Finset.sum_congr rfl; intro i _; rw [hsq, hper]
      · apply Finset.sum_congr rfl; intro i _
        rw [hsq, show (2 * i + 1) * j = j + 2 * i * j by ring, pow_add, hper, hodd]; ring


theorem root_sq (k : Nat) (ω : R) (hω : k + 1 = 0 ∨ ω ^ 2 ^ (k + 1 - 1) = -1) :
    k = 0 ∨ (ω * ω) ^ 2 ^ (k - 1) = -1 := by
  have hneg : ω ^ 2 ^ k = -1 := by
    rcases hω with h | h
    · omega
    · simpa using h
  rcases Nat.eq_zero_or_pos k with h0 | hpos
  · exact Or.inl h0
  · right
    rw [← pow_two, ← pow_mul, ← pow_succ']
    have : k - 1 + 1 = k := by omega
    rw [this, hneg]

theorem root_pow_one (k : Nat) (ω : R) (hω : k = 0 ∨ ω ^ 2 ^ (k - 1) = -1) (h1 : k = 0 → ω = 1) :
    ω ^ 2 ^ k = 1 := by
  rcases Nat.eq_zero_or_pos k with h0 | hpos
  · subst h0; simp [h1 rfl]
  · rcases hω with h | h
    · omega
    · have : 2 ^ k = 2 ^ (k - 1) * 2 := by rw [← pow_succ]; congr 1; omega
      rw [this, pow_mul, h]; ring

/-- **Orthogonality** (`ω` is a principal `2^k`-th root of unity): `Σ_{j<2^k} ω^(e·j) = 0` unless
`2^k ∣ e`. -/
theorem geom_zero (k : Nat) (ω : R) (hω : k = 0 ∨ ω ^ 2 ^ (k - 1) = -1) (e : Nat) (he : ¬ 2 ^ k ∣ e) :
    ∑ j ∈ range (2 ^ k), ω ^ (e * j) = 0 := by
  induction k generalizing ω e with
  | zero => simp at he
  | succ k ih =>
    have hneg : ω ^ 2 ^ k = -1 := by
      rcases hω with h | h
      · omega
      · simpa using h
    rw [show 2 ^ (k + 1) = 2 ^ k + 2 ^ k by ring, sum_range_add]
    have hshift : ∀ j, ω ^ (e * (2 ^ k + j)) = (-1) ^ e * ω ^ (e * j) := by
      intro j
      rw [Nat.mul_add, pow_add, Nat.mul_comm e (2 ^ k), pow_mul, hneg]
    simp only [hshift]
    rw [← Finset.mul_sum]
    rcases Nat.even_or_odd e with hev | hodd
    · obtain ⟨e', he'⟩ := hev
      have hne : ¬ 2 ^ k ∣ e' := by
        intro hd
        apply he
        rw [he', ← two_mul, pow_succ']
        exact Nat.mul_dvd_mul_left 2 hd
      have := ih (ω * ω) (root_sq k ω hω) e' hne
      have hrw : ∀ j, ω ^ (e * j) = (ω * ω) ^ (e' * j) := by
        intro j; rw [← pow_two, ← pow_mul, he']; congr 1; ring
      simp only [hrw, this]; ring
    · rw [hodd.neg_one_pow]; ring

theorem geom_full (k : Nat) (ω : R) (h1 : ω ^ 2 ^ k = 1) (e : Nat) (he : 2 ^ k ∣ e) :
    ∑ j ∈ range (2 ^ k), ω ^ (e * j) = (2 ^ k : R) := by
  obtain ⟨c, rfl⟩ := he
  have : ∀ j, ω ^ (2 ^ k * c * j) = 1 := by
    intro j; rw [Nat.mul_assoc, pow_mul, h1, one_pow]
  simp [this]

/-- **The inverse transform divides by `2^k`.** With `ω·ω' = 1` (the code multiplies by
`ω^(2^k - idx)` in the inverse direction) the transform with root `ω'` of the transform with root
`ω` is `2^k·f` — the code's `shr(k)` then divides by `2^k`. -/
theorem dft_inverse (k : Nat) (ω ω' : R) (hω : k = 0 ∨ ω ^ 2 ^ (k - 1) = -1) (hinv : ω * ω' = 1)
    (f : Nat → R) (m : Nat) (hm : m < 2 ^ k) :
    dft (2 ^ k) ω' (dft (2 ^ k) ω f) m = (2 ^ k : R) * f m := by
  -- ω' is a principal root as well
  have hω' : k = 0 ∨ ω' ^ 2 ^ (k - 1) = -1 := by
    rcases hω with h | h
    · exact Or.inl h
    · right
      have : (ω * ω') ^ 2 ^ (k - 1) = 1 := by rw [hinv, one_pow]
      rw [mul_pow, h] at this
      have : ω' ^ 2 ^ (k - 1) = -1 := by
        have h2 : -(ω' ^ 2 ^ (k - 1)) = 1 := by simpa using this
        rw [← h2]; ring
      exact this
  unfold dft
  -- swap the sums
  have hswap : ∑ j ∈ range (2 ^ k), (∑ i ∈ range (2 ^ k), f i * ω ^ (i * j)) * ω' ^ (j * m) =
      ∑ i ∈ range (2 ^ k), f i * ∑ j ∈ range (2 ^ k), ω ^ (i * j) * ω' ^ (j * m) := by
    simp only [Finset.sum_mul, Finset.mul_sum]
    rw [Finset.sum_comm]
    apply Finset.sum_congr rfl; intro i _
    apply Finset.sum_congr rfl; intro j _
    ring
  rw [hswap, Finset.sum_eq_single m]
  · -- i = m: every term is 1
    have : ∀ j, ω ^ (m * j) * ω' ^ (j * m) = 1 := by
      intro j; rw [Nat.mul_comm j m, ← mul_pow, hinv, one_pow]
    simp [this]; ring
  · intro i hi hne
    have hi' : i < 2 ^ k := by simpa using hi
    have hz : ∑ j ∈ range (2 ^ k), ω ^ (i * j) * ω' ^ (j * m) = 0 := by
      rcases Nat.lt_or_ge i m with hlt | hge
      · -- ω'^((m - i) j)
        have hrw : ∀ j, ω ^ (i * j) * ω' ^ (j * m) = ω' ^ ((m - i) * j) := by
          intro j
          have : j * m = i * j + (m - i) * j := by
            rw [← Nat.add_mul, Nat.add_sub_cancel' (le_of_lt hlt), Nat.mul_comm]
          rw [this, pow_add, ← mul_assoc, ← mul_pow, hinv, one_pow, one_mul]
        simp only [hrw]
        exact geom_zero k ω' hω' (m - i) (fun hd => by
          have := Nat.le_of_dvd (by omega) hd; omega)
      · have hrw : ∀ j, ω ^ (i * j) * ω' ^ (j * m) = ω ^ ((i - m) * j) := by
          intro j
          have : i * j = (i - m) * j + j * m := by
            rw [Nat.mul_comm j m, ← Nat.add_mul, Nat.sub_add_cancel hge]
          rw [this, pow_add, mul_assoc, ← mul_pow, hinv, one_pow, mul_one]
        simp only [hrw]
        exact geom_zero k ω hω (i - m) (fun hd => by
          have := Nat.le_of_dvd (by omega) hd; omega)
    rw [hz, mul_zero]
  · intro h; exact absurd (by simpa using hm) h

/-- cyclic convolution of length `n` in a ring: `Σ_{a<n} f a · g ((k - a) mod n)` -/
def cyc (n : Nat) (f g : Nat → R) (k : Nat) : R := ∑ a ∈ range n, f a * g ((k + n - a) % n)

/-- **Convolution theorem**: for `ω^n = 1` the transform of the cyclic convolution is the pointwise
product of the transforms. -/
theorem dft_cyc (n : Nat) (hn : 0 < n) (ω : R) (h1 : ω ^ n = 1) (f g : Nat → R) (j : Nat) :
    dft n ω (cyc n f g) j = dft n ω f j * dft n ω g j := by
  unfold dft cyc
  have hmod : ∀ x : Nat, ω ^ (x % n * j) = ω ^ (x * j) := by
    intro x
    have : x * j = n * (x / n * j) + x % n * j := by
      rw [← Nat.mul_assoc, ← Nat.add_mul, Nat.div_add_mod]
    rw [this, pow_add, pow_mul ω n, h1, one_pow, one_mul]
  calc ∑ k ∈ range n, (∑ a ∈ range n, f a * g ((k + n - a) % n)) * ω ^ (k * j)
      = ∑ a ∈ range n, ∑ k ∈ range n, f a * g ((k + n - a) % n) * ω ^ (k * j) := by
        simp only [Finset.sum_mul]; rw [Finset.sum_comm]
    _ = ∑ a ∈ range n, ∑ b ∈ range n, f a * g b * ω ^ ((a + b) * j) := by
        apply Finset.sum_congr rfl
        intro a ha
        have ha' : a < n := by simpa using ha
        apply Finset.sum_nbij' (fun k => (k + n - a) % n) (fun b => (a + b) % n)
        · intro k _; simp only [mem_range]; exact Nat.mod_lt _ hn
        · intro b _; simp only [mem_range]; exact Nat.mod_lt _ hn
        · intro k hk
          have hk' : k < n := by simpa using hk
          rw [Ymq.Kronecker.sub_mod_cases k a n hk' ha']
          split_ifs with h
          · rw [Ymq.Kronecker.add_mod_cases a (k - a) n ha' (by omega)]; split_ifs <;> omega
          · rw [Ymq.Kronecker.add_mod_cases a (k + n - a) n ha' (by omega)]; split_ifs <;> omega
        · intro b hb
          have hb' : b < n := by simpa using hb
          rw [Ymq.Kronecker.add_mod_cases a b n ha' hb']
          split_ifs with h
          · rw [Ymq.Kronecker.sub_mod_cases (a + b) a n h ha']; split_ifs <;> omega
          · rw [Ymq.Kronecker.sub_mod_cases (a + b - n) a n (by omega) ha']; split_ifs <;> omega
        · intro k hk
          have hk' : k < n := by simpa using hk
          have : (a + (k + n - a) % n) % n = k := by
            rw [Ymq.Kronecker.sub_mod_cases k a n hk' ha']
            split_ifs with h
            · rw [Ymq.Kronecker.add_mod_cases a (k - a) n ha' (by omega)]; split_ifs <;> omega
            · rw [Ymq.Kronecker.add_mod_cases a (k + n - a) n ha' (by omega)]; split_ifs <;> omega
          rw [← hmod (a + (k + n - a) % n), this]
    _ = (∑ a ∈ range n, f a * ω ^ (a * j)) * ∑ b ∈ range n, g b * ω ^ (b * j) := by
        rw [Finset.sum_mul_sum]
        apply Finset.sum_congr rfl; intro a _
        apply Finset.sum_congr rfl; intro b _
        rw [Nat.add_mul, pow_add]; ring


theorem inv_root (k : Nat) (ω ω' : R) (hω : k = 0 ∨ ω ^ 2 ^ (k - 1) = -1) (hinv : ω * ω' = 1) :
    k = 0 ∨ ω' ^ 2 ^ (k - 1) = -1 := by
  rcases hω with h | h
  · exact Or.inl h
  · right
    have : (ω * ω') ^ 2 ^ (k - 1) = 1 := by rw [hinv, one_pow]
    rw [mul_pow, h] at this
    have h2 : -(ω' ^ 2 ^ (k - 1)) = 1 := by simpa using this
    rw [← h2]; ring

theorem dft_congr (n : Nat) (ω : R) (h1 h2 : Nat → R) (h : ∀ i < n, h1 i = h2 i) (j : Nat) :
    dft n ω h1 j = dft n ω h2 j := by
  unfold dft
  apply Finset.sum_congr rfl
  intro i hi
  rw [h i (by simpa using hi)]

/-- **FFT multiplication is the cyclic convolution** (the structure of `mulfft` and of
`convolve_modn_ntt`): forward radix-2 transforms with a principal `2^k`-th root `ω`, pointwise
product, radix-2 transform with the inverse root `ω'`: the result is `2^k` times the cyclic
convolution (the code's inverse direction divides by `2^k`: `shr` / `div_pow2`). -/
theorem fft_mul_eq_cyc (k : Nat) (ω ω' : R) (hω : k = 0 ∨ ω ^ 2 ^ (k - 1) = -1) (h0 : k = 0 → ω = 1)
    (hinv : ω * ω' = 1) (f g : Nat → R) (m : Nat) (hm : m < 2 ^ k) :
    fftRec k ω' (fun j => fftRec k ω f j * fftRec k ω g j) m = (2 ^ k : R) * cyc (2 ^ k) f g m := by
  have hω' := inv_root k ω ω' hω hinv
  have h1 : ω ^ 2 ^ k = 1 := root_pow_one k ω hω h0
  rw [fftRec_eq_dft k ω' hω' _ m hm]
  rw [dft_congr (2 ^ k) ω' _ (dft (2 ^ k) ω (cyc (2 ^ k) f g)) ?_ m]
  · exact dft_inverse k ω ω' hω hinv _ m hm
  · intro j hj
    rw [fftRec_eq_dft k ω hω f j hj, fftRec_eq_dft k ω hω g j hj,
      dft_cyc (2 ^ k) (Nat.pow_pos (by decide)) ω h1 f g j]

end Ymq.Dft
