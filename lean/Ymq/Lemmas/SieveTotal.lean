/-
C13 helper lemmas: the sieve model does not reach a panic site on valid inputs (totality).
-/
import Ymq.Lemmas.SieveRun

namespace Ymq.Sieve

/-! ### generic -/

theorem foldlM_some {σ α} (f : σ → α → Option σ) (I : σ → Prop) :
    ∀ (l : List α), (∀ x ∈ l, ∀ s, I s → ∃ s', f s x = some s' ∧ I s') →
      ∀ s, I s → ∃ s', l.foldlM f s = some s' ∧ I s' := by
  intro l
  induction l with
  | nil => intro _ s hs; exact ⟨s, by simp, hs⟩
  | cons x xs ih =>
    intro h s hs
    obtain ⟨s1, h1, i1⟩ := h x List.mem_cons_self s hs
    obtain ⟨s2, h2, i2⟩ := ih (fun y hy => h y (List.mem_cons_of_mem _ hy)) s1 i1
    exact ⟨s2, by rw [List.foldlM_cons]; simp [bind, h1, h2], i2⟩

/-- fold over `range' a n` with an invariant indexed by the position. -/
theorem foldlM_range_some {σ} (f : σ → Nat → Option σ) (I : Nat → σ → Prop) :
    ∀ (n a : Nat), (∀ i, a ≤ i → i < a + n → ∀ s, I i s → ∃ s', f s i = some s' ∧ I (i + 1) s') →
      ∀ s, I a s → ∃ s', (List.range' a n).foldlM f s = some s' ∧ I (a + n) s' := by
  intro n
  induction n with
  | zero => intro a _ s hs; exact ⟨s, by simp, by simpa using hs⟩
  | succ n ih =>
    intro a h s hs
    obtain ⟨s1, h1, i1⟩ := h a (le_refl _) (by omega) s hs
    obtain ⟨s2, h2, i2⟩ := ih (a + 1) (fun i hi1 hi2 => h i (by omega) (by omega)) s1 i1
    have e : a + 1 + n = a + (n + 1) := by omega
    refine ⟨s2, ?_, e ▸ i2⟩
    rw [List.range'_succ, List.foldlM_cons]
    simp [bind, h1, h2]

/-! ### tables -/

/-- a `SieveTable` allocated for `n` blocks. -/
def Table.Sized (n : Nat) (t : Table) : Prop :=
  t.entries.size = 4096 * n ∧ t.blens.size = 128 * n ∧ t.WF

def LTable.Sized (n : Nat) (t : LTable) : Prop :=
  t.lengths.size = n * BLOCK / LBW + 1 ∧ t.hits.size = (n * BLOCK / LBW + 1) * LBW ∧ t.WF

theorem Table.new_sized (n : Nat) : (Table.new n).Sized n :=
  ⟨by simp [Table.new, N_ENTRIES], by simp [Table.new, N_BUCKETS], Table.new_WF n⟩

theorem Table.reset_sized {n : Nat} {t : Table} (h : t.Sized n) : t.reset.Sized n :=
  ⟨h.1, by simp [Table.reset, h.2.1], Table.reset_WF t h.2.2.2⟩

theorem LTable.new_sized (n : Nat) : (LTable.new n).Sized n :=
  ⟨by simp [LTable.new], by simp [LTable.new], LTable.new_WF n⟩

theorem LTable.reset_sized {n : Nat} {t : LTable} (h : t.Sized n) : t.reset.Sized n :=
  ⟨by simp [LTable.reset, h.1], h.2.1, LTable.reset_WF t⟩

theorem Table.add_some {n : Nat} {t : Table} (h : t.Sized n) {off : Nat} (hoff : off < n * BLOCK) (pidx : Nat) :
    ∃ t', t.add off pidx = some t' ∧ t'.Sized n := by
  obtain ⟨entries, blens, ovs, nOv⟩ := t
  obtain ⟨he, hb, hle, hsz⟩ := h
  simp only at he hb hle hsz
  have hdbg : off < entries.size * BLOCK / N_ENTRIES := by
    rw [he]; simp only [BLOCK, N_ENTRIES] at *; omega
  have hbi : off / 256 < blens.size := by rw [hb]; simp only [BLOCK] at hoff; omega
  have hbl : blens[off / 256]? = some blens[off / 256] := Array.getElem?_eq_getElem hbi
  have hle32 := hle _ _ hbl
  unfold Table.add
  simp only [hdbg, not_true_eq_false, if_false, BUCKET_WIDTH, BUCKET_SIZE, hbl]
  by_cases hroom : blens[off / 256] < 32
  · have hidx : off / 256 * 32 + blens[off / 256] < entries.size := by rw [he]; omega
    simp only [hroom, if_true, hidx]
    refine ⟨_, rfl, by simp [he], by simp [hb], ?_, hsz⟩
    intro b v hv
    simp only at hv
    by_cases hbq : off / 256 = b
    · subst hbq
      simp only [Array.getElem?_setIfInBounds, if_true, hbi, Option.some.injEq] at hv
      omega
    · rw [Array.getElem?_setIfInBounds_ne hbq] at hv
      exact hle b v hv
  · simp only [hroom, if_false]
    refine ⟨_, rfl, he, hb, hle, ?_⟩
    simp only
    split <;> simp [hsz]

theorem LTable.add_some {n : Nat} {t : LTable} (h : t.Sized n) {off : Nat} (hoff : off < n * BLOCK) {pidx : Nat}
    (hp : pidx < 2 ^ 30) : ∃ t', t.add off pidx = some t' ∧ t'.Sized n := by
  obtain ⟨hits, lengths, ovs⟩ := t
  obtain ⟨hl, hh, hwf⟩ := h
  unfold LTable.WF at hwf
  simp only at hl hh hwf
  have hbi : off / 16384 < lengths.size := by
    rw [hl]; simp only [BLOCK, LBW] at *; omega
  have hbl : lengths[off / 16384]? = some lengths[off / 16384] := Array.getElem?_eq_getElem hbi
  have hle := hwf _ _ hbl
  unfold LTable.add
  simp only [hp, not_true_eq_false, if_false, LBW, LBS, hbl]
  by_cases hroom : lengths[off / 16384] < 1024
  · have hidx : off / 16384 * 1024 + lengths[off / 16384] < hits.size := by
      rw [hh]; simp only [BLOCK, LBW] at *; omega
    simp only [hroom, if_true, hidx]
    refine ⟨_, rfl, by simp [hl], by simp [hh], ?_⟩
    intro b v hv
    simp only at hv
    by_cases hbq : off / 16384 = b
    · subst hbq
      simp only [Array.getElem?_setIfInBounds, if_true, hbi, Option.some.injEq] at hv
      omega
    · rw [Array.getElem?_setIfInBounds_ne hbq] at hv
      exact hwf b v hv
  · simp only [hroom, if_false]
    exact ⟨_, rfl, hl, hh, hwf⟩

theorem Table.foldl_add_some {n : Nat} (pidx : Nat) :
    ∀ (offs : List Nat) (t : Table), t.Sized n → (∀ x ∈ offs, x < n * BLOCK) →
      ∃ t', offs.foldlM (fun t off => t.add off pidx) t = some t' ∧ t'.Sized n := by
  intro offs t ht hoffs
  exact foldlM_some (fun t off => t.add off pidx) (Table.Sized n) offs
    (fun x hx s hs => Table.add_some hs (hoffs x hx) pidx) t ht

theorem LTable.foldl_add_some {n : Nat} {pidx : Nat} (hp : pidx < 2 ^ 30) :
    ∀ (offs : List Nat) (t : LTable), t.Sized n → (∀ x ∈ offs, x < n * BLOCK) →
      ∃ t', offs.foldlM (fun t off => t.add off pidx) t = some t' ∧ t'.Sized n := by
  intro offs t ht hoffs
  exact foldlM_some (fun t off => t.add off pidx) (LTable.Sized n) offs
    (fun x hx s hs => LTable.add_some hs (hoffs x hx) hp) t ht

/-! ### offset lists -/

theorem unrolled_some (interval p o1 o2 rmax : Nat) (hp : 0 < p) :
    ∀ (f kp : Nat), interval ≤ f + kp → ∃ r, unrolled interval p o1 o2 rmax (f + 1) kp = some r := by
  intro f
  induction f with
  | zero =>
    intro kp h
    have : ¬ kp + p + rmax < interval := by omega
    exact ⟨([], kp), by simp [unrolled, this]⟩
  | succ f ih =>
    intro kp h
    by_cases hlt : kp + p + rmax < interval
    · obtain ⟨r, hr⟩ := ih (kp + 2 * p) (by omega)
      exact ⟨((kp + o1) :: (kp + o2) :: (kp + p + o1) :: (kp + p + o2) :: r.1, r.2), by rw [unrolled]; simp [hlt, hr]⟩
    · exact ⟨([], kp), by rw [unrolled]; simp [hlt]⟩

theorem largeOffsets_some (interval p o1 o2 : Nat) (hp : 0 < p) : ∃ l, largeOffsets interval p o1 o2 = some l := by
  obtain ⟨⟨l0, kp⟩, h0⟩ := unrolled_some interval p o1 o2 (max o1 o2) hp interval 0 (by omega)
  obtain ⟨t1, h1⟩ := arith_some p interval hp interval (o1 + kp) (by omega)
  obtain ⟨t2, h2⟩ := arith_some p interval hp interval (o2 + kp) (by omega)
  exact ⟨l0 ++ t1 ++ t2, by simp [largeOffsets, h0, h1, h2]⟩

theorem vlargeOffsets_some (interval p o1 o2 : Nat) (hp : 0 < p) : ∃ l, vlargeOffsets interval p o1 o2 = some l := by
  obtain ⟨t1, h1⟩ := arith_some p interval hp interval o1 (by omega)
  obtain ⟨t2, h2⟩ := arith_some p interval hp interval o2 (by omega)
  exact ⟨t1 ++ t2, by simp [vlargeOffsets, h1, h2]⟩

theorem modifyM_some {α} [Inhabited α] {a : Array α} {i : Nat} {f : α → Option α} {x y : α}
    (hx : a[i]? = some x) (hf : f x = some y) :
    ∃ a', modifyM a i f = some a' ∧ a'.size = a.size ∧ a'[i]? = some y ∧ ∀ j, j ≠ i → a'[j]? = a[j]? := by
  have hi : i < a.size := (Array.getElem?_eq_some_iff.1 hx).1
  refine ⟨(a.setIfInBounds i default).setIfInBounds i y, by simp [modifyM, hx, hf], by simp, ?_, ?_⟩
  · simp [Array.getElem?_setIfInBounds, hi]
  · intro j hj
    rw [Array.getElem?_setIfInBounds_ne (fun e => hj e.symm), Array.getElem?_setIfInBounds_ne (fun e => hj e.symm)]

/-! ### Sieve::new -/

theorem FB.WF.idx_add_two_le {fb : FB} (h : fb.WF) : ∀ (i p : Nat), fb.primes[i]? = some p → i + 2 ≤ p := by
  intro i
  induction i with
  | zero => intro p hp; have := h.ge2 0 p hp; omega
  | succ i ih =>
    intro p hp
    have hi : i + 1 < fb.primes.size := (Array.getElem?_eq_some_iff.1 hp).1
    obtain ⟨q, hq⟩ := h.prime_at (i := i) (by omega)
    have := ih q hq
    have := h.sorted i (i + 1) q p (by omega) hq hp
    omega

theorem FB.WF.size_lt {fb : FB} (h : fb.WF) : fb.primes.size < 2 ^ 24 := by
  by_contra hc
  obtain ⟨p, hp⟩ := h.prime_at (i := 2 ^ 24 - 1) (by omega)
  have := h.idx_add_two_le _ _ hp
  have := h.lt24 _ _ hp
  omega

/-- hypotheses of the totality statements: both roots reduced, and different for the primes that are
registered in the bucket tables (the debug assertion of `new`). -/
def RootsDistinct (fb : FB) (r1 r2 : Array Nat) : Prop :=
  ∀ (i p : Nat), fb.primes[i]? = some p → 32768 ≤ p → r1[i]? ≠ r2[i]?

theorem roots_size {fb : FB} {r1 r2 : Array Nat} (hr : RootsOK fb r1 r2) :
    fb.primes.size ≤ r1.size ∧ fb.primes.size ≤ r2.size := by
  by_cases h0 : fb.primes.size = 0
  · omega
  · have hi : fb.primes.size - 1 < fb.primes.size := by omega
    obtain ⟨o1, o2, h1, h2, _⟩ := hr _ _ (Array.getElem?_eq_getElem hi)
    have := (Array.getElem?_eq_some_iff.1 h1).1
    have := (Array.getElem?_eq_some_iff.1 h2).1
    omega

/-- state of the loop of `new` before class `log`. -/
def NewInv (fb : FB) (n : Nat) (T0 : Array Table) (L0 : Array LTable) (log : Nat)
    (st : Array Nat × Array Table × Array LTable) : Prop :=
  (∃ v, fb.ibl[min log 16]? = some v ∧ st.1.size = 2 * v) ∧
  st.2.1.size = T0.size ∧ (∀ (ti : Nat) (t : Table), st.2.1[ti]? = some t → t.Sized n) ∧
  st.2.2.size = L0.size ∧ (∀ (li : Nat) (t : LTable), st.2.2[li]? = some t → t.Sized n)

theorem newStep_some {fb : FB} {r1 r2 : Array Nat} {n maxlog : Nat} {T0 : Array Table} {L0 : Array LTable}
    (hfb : fb.WF) (hr : RootsOK fb r1 r2) (hd : RootsDistinct fb r1 r2)
    (hTs : T0.size = min 18 maxlog + 1 - 16) (hLs : L0.size = maxlog + 1 - 19) (hml : maxlog ≤ 24)
    {log : Nat} (hlog : log ≤ maxlog) {st : Array Nat × Array Table × Array LTable}
    (hinv : NewInv fb n T0 L0 log st) :
    ∃ st', newStep fb r1 r2 (n * BLOCK) st log = some st' ∧ NewInv fb n T0 L0 (log + 1) st' := by
  obtain ⟨offs, tables, ltables⟩ := st
  obtain ⟨⟨v, hv, hos⟩, hts, htz, hls, hlz⟩ := hinv
  simp only at hos hts htz hls hlz
  obtain ⟨idx1, h1⟩ := hfb.ibl_some log (by omega)
  obtain ⟨idx2, h2⟩ := hfb.ibl_some (log + 1) (by omega)
  have hle2 := hfb.ibl_le _ _ h2
  have h12 : idx1 ≤ idx2 := hfb.ibl_mono (by omega) h1 h2
  obtain ⟨hs1, hs2⟩ := roots_size hr
  have hass : ¬ ¬ (idx2 ≤ r1.size ∧ idx2 ≤ r2.size ∧ idx2 ≤ fb.primes.size) := by
    simp only [not_not]; exact ⟨by omega, by omega, hle2⟩
  have hclass : ∀ pidx, pidx ∈ List.range' idx1 (idx2 - idx1) → ∃ p o1 o2, fb.primes[pidx]? = some p ∧
      r1[pidx]? = some o1 ∧ r2[pidx]? = some o2 ∧ bitlen p = log := by
    intro pidx hm
    have hm' := List.mem_range'_1.1 hm
    obtain ⟨p, hp⟩ := hfb.prime_at (i := pidx) (by omega)
    obtain ⟨o1, o2, ho1, ho2, _⟩ := hr _ _ hp
    exact ⟨p, o1, o2, hp, ho1, ho2, (hfb.class_of hp h1 h2).1 ⟨hm'.1, by omega⟩⟩
  unfold newStep
  simp only [h1, h2, hass, if_false, Option.bind_eq_bind, Option.bind_some, Option.pure_def]
  by_cases hl : log < LARGE_LOG
  · simp only [hl, if_true]
    simp only [LARGE_LOG] at hl
    have hm16 : min log 16 = log := by omega
    rw [hm16, h1] at hv
    have := Option.some.inj hv; subst this
    -- the cursors of the class are appended one prime at a time
    obtain ⟨offs', hf, hsz'⟩ := foldlM_range_some (newSmallStep r1 r2) (fun idx (a : Array Nat) => a.size = 2 * idx)
      (idx2 - idx1) idx1 (fun idx hi1 hi2 a ha => by
        obtain ⟨p, o1, o2, _, ho1, ho2, _⟩ := hclass idx (List.mem_range'_1.2 ⟨hi1, hi2⟩)
        refine ⟨(a.push (o1 % 65536)).push (if o1 ≠ o2 then o2 % 65536 else NONE), ?_, by simp; omega⟩
        simp only [newSmallStep, ho1, ho2, Option.bind_eq_bind, Option.bind_some]
        have : ¬ ((a.push (o1 % 65536)).push (if o1 ≠ o2 then o2 % 65536 else NONE)).size ≠ 2 * idx + 2 := by
          simp; omega
        simp only [this, if_false]) offs hos
    refine ⟨(offs', tables, ltables), by simp [hf], ⟨idx2, ?_, by rw [hsz']; congr 1; omega⟩, hts, htz, hls, hlz⟩
    have : min (log + 1) 16 = log + 1 := by omega
    rw [this]; exact h2
  · simp only [hl, if_false]
    simp only [LARGE_LOG] at hl
    have hm16 : min log 16 = 16 := by omega
    have hm16' : min (log + 1) 16 = 16 := by omega
    have hoffs : ∃ v, fb.ibl[min (log + 1) 16]? = some v ∧ offs.size = 2 * v := by
      rw [hm16']; rw [hm16] at hv; exact ⟨v, hv, hos⟩
    have hpB : ∀ p, bitlen p = log → 32768 ≤ p := by
      intro p hb
      have := two_pow_le_of_bitlen (p := p) (l := 15) (by omega)
      omega
    by_cases hvl : log < VLARGE_LOG
    · simp only [hvl, if_true]
      simp only [VLARGE_LOG] at hvl
      have hti : log - LARGE_LOG < tables.size := by rw [hts, hTs]; simp only [LARGE_LOG]; omega
      have hx : tables[log - LARGE_LOG]? = some tables[log - LARGE_LOG] := Array.getElem?_eq_getElem hti
      obtain ⟨y, hy, hys⟩ := foldlM_some (newLargeStep fb r1 r2 (n * BLOCK)) (Table.Sized n)
        (List.range' idx1 (idx2 - idx1)) (fun pidx hm t ht => by
          obtain ⟨p, o1, o2, hp, ho1, ho2, hb⟩ := hclass pidx hm
          have hne : ¬ o1 = o2 := by
            intro e; subst e
            exact hd pidx p hp (hpB p hb) (by rw [ho1, ho2])
          obtain ⟨l, hl⟩ := largeOffsets_some (n * BLOCK) p o1 o2 (by have := hfb.ge2 _ _ hp; omega)
          obtain ⟨t', ht', hs'⟩ := Table.foldl_add_some (pidx % 2 ^ 32) l t ht
            (fun x hx => ((largeOffsets_spec hl).2.2 x hx).1)
          refine ⟨t', ?_, hs'⟩
          unfold newLargeStep
          simp only [ho1, ho2, hp, Option.bind_eq_bind, Option.bind_some, hne, if_false, hl, Option.pure_def]
          exact ht')
        _ (htz _ _ hx)
      obtain ⟨tables', hm, hsz, hti', hne⟩ := modifyM_some
        (f := fun table => (List.range' idx1 (idx2 - idx1)).foldlM (newLargeStep fb r1 r2 (n * BLOCK)) table) hx hy
      refine ⟨(offs, tables', ltables), by simp [hm], hoffs, hsz.trans hts, ?_, hls, hlz⟩
      intro ti t ht
      by_cases e : ti = log - LARGE_LOG
      · subst e; rw [hti'] at ht; rw [← Option.some.inj ht]; exact hys
      · rw [hne ti e] at ht; exact htz ti t ht
    · simp only [hvl, if_false]
      simp only [VLARGE_LOG] at hvl
      have hli : log - VLARGE_LOG < ltables.size := by rw [hls, hLs]; simp only [VLARGE_LOG]; omega
      have hx : ltables[log - VLARGE_LOG]? = some ltables[log - VLARGE_LOG] := Array.getElem?_eq_getElem hli
      obtain ⟨y, hy, hys⟩ := foldlM_some (newVLargeStep fb r1 r2 (n * BLOCK)) (LTable.Sized n)
        (List.range' idx1 (idx2 - idx1)) (fun pidx hm t ht => by
          obtain ⟨p, o1, o2, hp, ho1, ho2, hb⟩ := hclass pidx hm
          have hne : ¬ o1 = o2 := by
            intro e; subst e
            exact hd pidx p hp (hpB p hb) (by rw [ho1, ho2])
          obtain ⟨l, hl⟩ := vlargeOffsets_some (n * BLOCK) p o1 o2 (by have := hfb.ge2 _ _ hp; omega)
          have hpi : pidx < 2 ^ 30 := by
            have := (Array.getElem?_eq_some_iff.1 hp).1
            have := hfb.size_lt
            omega
          obtain ⟨t', ht', hs'⟩ := LTable.foldl_add_some hpi l t ht
            (fun x hx => ((vlargeOffsets_spec hl).2.2 x hx).1)
          refine ⟨t', ?_, hs'⟩
          unfold newVLargeStep
          simp only [ho1, ho2, hp, Option.bind_eq_bind, Option.bind_some, hne, if_false, hl, Option.pure_def]
          exact ht')
        _ (hlz _ _ hx)
      obtain ⟨ltables', hm, hsz, hli', hne⟩ := modifyM_some
        (f := fun table => (List.range' idx1 (idx2 - idx1)).foldlM (newVLargeStep fb r1 r2 (n * BLOCK)) table) hx hy
      refine ⟨(offs, tables, ltables'), by simp [hm], hoffs, hts, htz, hsz.trans hls, ?_⟩
      intro li t ht
      by_cases e : li = log - VLARGE_LOG
      · subst e; rw [hli'] at ht; rw [← Option.some.inj ht]; exact hys
      · rw [hne li e] at ht; exact hlz li t ht

/-- the bucket tables of the state are allocated for `n` blocks. -/
structure StateSized (n : Nat) (s : State) : Prop where
  nb : s.nblocks = n
  tabs : ∀ (ti : Nat) (t : Table), s.tables[ti]? = some t → t.Sized n
  ltabs : ∀ (li : Nat) (t : LTable), s.ltables[li]? = some t → t.Sized n

theorem idxskip_le {fb : FB} (hfb : fb.WF) {nS : Nat} (hnS : fb.ibl[16]? = some nS) (k : Nat) (hk : k ≤ 17) :
    (fb.primes.toList.findIdx? (fun p => decide (p > k))).getD fb.primes.size ≤ nS := by
  have hsmall : ∀ i p, fb.primes[i]? = some p → p ≤ k → i < nS := by
    intro i p hp hle
    exact (hfb.ibl_spec 16 i nS p hnS hp).2 ((bitlen_lt_succ_iff p 15).2 (by omega))
  cases hf : fb.primes.toList.findIdx? (fun p => decide (p > k)) with
  | some i =>
    show i ≤ nS
    rw [List.findIdx?_eq_some_iff_getElem] at hf
    obtain ⟨hi, _, hall⟩ := hf
    by_contra hc
    have hlt : nS < i := by omega
    have := hall nS hlt
    simp only [decide_eq_true_eq, not_lt] at this
    have hn : nS < fb.primes.size := by simp at hi; omega
    have := hsmall nS _ (Array.getElem?_eq_getElem hn) (by simpa using this)
    omega
  | none =>
    show fb.primes.size ≤ nS
    rw [List.findIdx?_eq_none_iff] at hf
    by_contra hc
    have hn : nS < fb.primes.size := by omega
    have := hf fb.primes[nS] (by simp)
    have hle : fb.primes[nS] ≤ k := by simpa using this
    have := hsmall nS _ (Array.getElem?_eq_getElem hn) hle
    omega

theorem getElem?_replicate_eq {α} {k i : Nat} {x t : α} (h : (Array.replicate k x)[i]? = some t) : t = x := by
  rw [Array.getElem?_replicate] at h
  split at h
  · exact (Option.some.inj h).symm
  · simp at h

theorem new_total {fb : FB} {r1 r2 : Array Nat} {offset : Int} {nblocks nS : Nat}
    (hfb : fb.WF) (hne : fb.primes.size ≠ 0) (hr : RootsOK fb r1 r2) (hd : RootsDistinct fb r1 r2)
    (hN : nblocks ≤ 2 ^ 17) (hnS : fb.ibl[16]? = some nS) :
    ∃ s, new offset nblocks fb r1 r2 none = some s ∧ StateSized nblocks s ∧ s.idxskip ≤ 2 * nS := by
  have hback : fb.primes.back? = some fb.primes[fb.primes.size - 1] := by
    rw [Array.back?_eq_getElem?]; exact Array.getElem?_eq_getElem (by omega)
  generalize hmp : fb.primes[fb.primes.size - 1] = maxprime at hback
  have hml : bitlen maxprime ≤ 24 := by
    have := hfb.lt24 (fb.primes.size - 1) maxprime (by rw [← hmp]; exact Array.getElem?_eq_getElem (by omega))
    have := (bitlen_lt_succ_iff maxprime 24).2 this
    omega
  obtain ⟨v0, hv0⟩ := hfb.ibl_some 0 (by omega)
  have hv00 : v0 = 0 := by
    by_contra hc
    have hle := hfb.ibl_le _ _ hv0
    obtain ⟨p, hp⟩ := hfb.prime_at (i := 0) (by omega)
    have := (hfb.ibl_spec 0 0 v0 p hv0 hp).1 (by omega)
    omega
  subst hv00
  have hbig : ¬ nblocks * BLOCK ≥ 2 ^ 62 := by simp only [BLOCK]; omega
  obtain ⟨st, hf, hinv⟩ := foldlM_range_some (newStep fb r1 r2 (nblocks * BLOCK))
    (NewInv fb nblocks (Array.replicate (min (VLARGE_LOG - 1) (bitlen maxprime) + 1 - LARGE_LOG) (Table.new nblocks))
      (Array.replicate (bitlen maxprime + 1 - VLARGE_LOG) (LTable.new nblocks)))
    (bitlen maxprime + 1) 0
    (fun log _ hl st hst => newStep_some hfb hr hd (by simp [VLARGE_LOG, LARGE_LOG]) (by simp [VLARGE_LOG]) hml
      (by omega) hst)
    (#[], _, _)
    ⟨⟨0, by simpa using hv0, by simp⟩, rfl,
      fun ti t ht => by rw [getElem?_replicate_eq ht]; exact Table.new_sized _,
      rfl, fun li t ht => by rw [getElem?_replicate_eq ht]; exact LTable.new_sized _⟩
  obtain ⟨offs, tables, ltables⟩ := st
  obtain ⟨_, _, htz, _, hlz⟩ := hinv
  simp only at htz hlz
  refine ⟨{ offset := offset, nblocks := nblocks, blkNo := 0,
            idxskip := 2 * ((fb.primes.toList.findIdx? (fun p => decide (p > pskip fb.primes.size))).getD fb.primes.size),
            lo := offs, loPrev := offs, tables := tables, ltables := ltables }, ?_, ⟨rfl, htz, hlz⟩, ?_⟩
  · unfold new
    simp only [LARGE_LOG] at hnS ⊢
    simp only [hnS, hback, newTables, hbig, if_false, Option.bind_eq_bind, Option.bind_some, Option.pure_def]
    have hf' : List.foldlM (newStep fb r1 r2 (nblocks * BLOCK))
        (#[], Array.replicate (min (VLARGE_LOG - 1) (bitlen maxprime) + 1 - LARGE_LOG) (Table.new nblocks),
          Array.replicate (bitlen maxprime + 1 - VLARGE_LOG) (LTable.new nblocks))
        (List.range' 0 (bitlen maxprime + 1)) = some (offs, tables, ltables) := hf
    rw [hf']
    rfl
  · simp only
    have := idxskip_le hfb hnS (pskip fb.primes.size) (by unfold pskip; split_ifs <;> omega)
    omega

/-! ### sieve_block -/

section CursorTotal
variable {fb : FB} {r1 r2 : Array Nat} {idxskip nS : Nat}

theorem writeOpt_some {a : Array Nat} {j : Nat} (hj : j < a.size) (w : Option Nat) :
    ∃ a', writeOpt a j w = some a' ∧ a'.size = a.size := by
  cases w with
  | none => exact ⟨a, rfl, rfl⟩
  | some v => exact ⟨a.setIfInBounds j v, by simp [writeOpt, hj], by simp⟩

theorem skipStep_some (hfb : fb.WF) (hnS : fb.ibl[16]? = some nS) {B : Nat} {lo0 a : Array Nat}
    (hcur : CurInv fb r1 r2 idxskip nS B lo0) (ha : a.size = 2 * nS) {i : Nat} (hi : i < 2 * nS) :
    ∃ a', skipStep fb lo0 a i = some a' ∧ a'.size = 2 * nS := by
  have hn := hfb.ibl_le _ _ hnS
  obtain ⟨p, hp⟩ := hfb.prime_at (i := i / 2) (by omega)
  have hisz : i < lo0.size := by rw [hcur.1]; exact hi
  obtain ⟨c, hc⟩ : ∃ c, lo0[i]? = some c := ⟨lo0[i], Array.getElem?_eq_getElem hisz⟩
  have hp2 := hfb.ge2 _ _ hp
  have hb : BLOCK % p < p := Nat.mod_lt _ (by omega)
  have hs : ¬ c + p < BLOCK % p := by omega
  have hia : i < a.size := by omega
  refine ⟨a.setIfInBounds i ((if c + p - BLOCK % p ≥ p then c + p - BLOCK % p - p else c + p - BLOCK % p) % 65536),
    ?_, by simp [ha]⟩
  unfold skipStep stepSkipped
  simp only [hp, hc, hs, if_false, Option.bind_eq_bind, Option.bind_some, hia, if_true]

theorem singleStep_some (hfb : fb.WF) (hnS : fb.ibl[16]? = some nS) {B : Nat} {lo0 a : Array Nat}
    (hcur : CurInv fb r1 r2 idxskip nS B lo0) (ha : a.size = 2 * nS) {i : Nat} (hi : i < 2 * nS)
    (hge : idxskip ≤ i) : ∃ a', singleStep fb lo0 a i = some a' ∧ a'.size = 2 * nS := by
  obtain ⟨p, o1, o2, hp, h1, h2, hif⟩ := hcur.2 i hi
  have hps := prime_small hfb hnS hi hp
  have hp2 := hfb.ge2 _ _ hp
  have hw : ∃ c w, lo0[i]? = some c ∧ stepSingle p c = some w := by
    by_cases hl : i % 2 = 0 ∨ o1 ≠ o2
    · rw [if_pos hl] at hif
      obtain ⟨c, hc, hlt, _⟩ := hif
      obtain ⟨c', e', _⟩ := stepSingle_next (p := p) (by omega) (by simp only [BLOCK]; omega) hlt
      exact ⟨c, _, hc, e'⟩
    · rw [if_neg hl] at hif
      exact ⟨NONE, none, hif hge, by simp [stepSingle]⟩
  obtain ⟨c, w, hc, hw⟩ := hw
  obtain ⟨a', ha', hs'⟩ := writeOpt_some (a := a) (j := i) (by omega) w
  exact ⟨a', by simp [singleStep, hp, hc, hw, ha'], hs'.trans ha⟩

theorem pairStep_some (hfb : fb.WF) (hnS : fb.ibl[16]? = some nS) {B : Nat} {lo0 a : Array Nat}
    (hcur : CurInv fb r1 r2 idxskip nS B lo0) (ha : a.size = 2 * nS) {i : Nat} (hi : 2 * i < 2 * nS)
    (hge : idxskip ≤ 2 * i) (hp4 : ∀ p, fb.primes[i]? = some p → p ≤ 4096) :
    ∃ a', pairStep fb lo0 a i = some a' ∧ a'.size = 2 * nS := by
  have e0 : (2 * i) / 2 = i := by omega
  have e1 : (2 * i + 1) / 2 = i := by omega
  have m0 : (2 * i) % 2 = 0 := by omega
  have m1 : ¬ (2 * i + 1) % 2 = 0 := by omega
  obtain ⟨p, o1, o2, hp, h1, h2, hif0⟩ := hcur.2 (2 * i) hi
  obtain ⟨p', o1', o2', hp', h1', h2', hif1⟩ := hcur.2 (2 * i + 1) (by omega)
  rw [e0] at hp h1 h2
  rw [e1] at hp' h1' h2'
  rw [hp] at hp'; rw [h1] at h1'; rw [h2] at h2'
  have := Option.some.inj hp'; subst this
  have := Option.some.inj h1'; subst this
  have := Option.some.inj h2'; subst this
  rw [if_pos (Or.inl m0)] at hif0
  obtain ⟨c1, hc1, hlt1, _⟩ := hif0
  have hp2 := hfb.ge2 _ _ hp
  have hpl := hp4 _ hp
  have hw : ∃ c2 w1 w2, lo0[2 * i + 1]? = some c2 ∧ stepPair p c1 c2 = some (w1, w2) := by
    by_cases hl : o1 ≠ o2
    · rw [if_pos (Or.inr hl)] at hif1
      obtain ⟨c2, hc2, hlt2, _⟩ := hif1
      obtain ⟨v1, v2, e, _, _⟩ := stepPair_two (p := p) (by omega) hpl hlt1 hlt2
      exact ⟨c2, _, _, hc2, e⟩
    · rw [if_neg (by rintro (hx | hx); exact m1 hx; exact hl hx)] at hif1
      obtain ⟨v1, e, _⟩ := stepPair_one (p := p) (by omega) hpl hlt1
      exact ⟨NONE, _, _, hif1 (by omega), e⟩
  obtain ⟨c2, w1, w2, hc2, hw⟩ := hw
  obtain ⟨a1, ha1, hs1⟩ := writeOpt_some (a := a) (j := 2 * i) (by omega) w1
  obtain ⟨a2, ha2, hs2⟩ := writeOpt_some (a := a1) (j := 2 * i + 1) (by omega) w2
  exact ⟨a2, by simp [pairStep, hp, hc1, hc2, hw, ha1, ha2], by omega⟩

theorem sieveCursors_some (hfb : fb.WF) (hnS : fb.ibl[16]? = some nS) (hev : idxskip % 2 = 0)
    (hsk : idxskip ≤ 2 * nS) {B : Nat} {lo0 lp0 : Array Nat} (hcur : CurInv fb r1 r2 idxskip nS B lo0)
    (hnone : NoneInv r1 r2 idxskip nS lp0) : ∃ r, sieveCursors fb idxskip lo0 lp0 = some r := by
  -- skipped primes
  obtain ⟨la, hla, sa⟩ := foldlM_some (skipStep fb lo0) (fun a => a.size = 2 * nS) (List.range' 0 idxskip)
    (fun i hi a ha => skipStep_some hfb hnS hcur ha (by have := List.mem_range'_1.1 hi; omega)) lp0 hnone.1
  -- classes 2..12
  obtain ⟨lb, hlb, sb⟩ := foldlM_some (pairLog fb idxskip lo0) (fun a => a.size = 2 * nS) (List.range' 2 11)
    (fun log hl a ha => by
      have hlog := List.mem_range'_1.1 hl
      obtain ⟨va, hva⟩ := hfb.ibl_some log (by omega)
      obtain ⟨vb, hvb⟩ := hfb.ibl_some (log + 1) (by omega)
      have hvbn : vb ≤ nS := hfb.ibl_mono (by omega) hvb hnS
      obtain ⟨a', ha', hs'⟩ := foldlM_some (pairStep fb lo0) (fun a => a.size = 2 * nS)
        (List.range' (max idxskip (2 * va) / 2) (2 * vb / 2 - max idxskip (2 * va) / 2))
        (fun i hi a ha => by
          have hm := List.mem_range'_1.1 hi
          refine pairStep_some hfb hnS hcur ha (by omega) (by omega) ?_
          intro p hp
          have := (hfb.ibl_spec (log + 1) i vb p hvb hp).1 (by omega)
          have h13 : bitlen p < 12 + 1 := by omega
          have := (bitlen_lt_succ_iff p 12).1 h13
          omega) a ha
      refine ⟨a', ?_, hs'⟩
      have hl15 : log < 15 := by omega
      simp only [pairLog, hva, hvb, hl15, if_true, Option.bind_eq_bind, Option.bind_some, Option.map_some]
      exact ha') la sa
  -- classes 13..15
  obtain ⟨lc, hlc, _⟩ := foldlM_some (singleLog fb idxskip lo0) (fun a => a.size = 2 * nS) (List.range' 13 3)
    (fun log hl a ha => by
      have hlog := List.mem_range'_1.1 hl
      obtain ⟨va, hva⟩ := hfb.ibl_some log (by omega)
      obtain ⟨vb, hvb⟩ := hfb.ibl_some (log + 1) (by omega)
      have hvbn : vb ≤ nS := hfb.ibl_mono (by omega) hvb hnS
      by_cases hl15 : log < 15
      · obtain ⟨a', ha', hs'⟩ := foldlM_some (singleStep fb lo0) (fun a => a.size = 2 * nS)
          (List.range' (max idxskip (2 * va)) (2 * vb - max idxskip (2 * va)))
          (fun i hi a ha => by
            have hm := List.mem_range'_1.1 hi
            exact singleStep_some hfb hnS hcur ha (by omega) (by omega)) a ha
        refine ⟨a', ?_, hs'⟩
        simp only [singleLog, hva, hvb, hl15, if_true, Option.bind_eq_bind, Option.bind_some, Option.map_some]
        exact ha'
      · obtain ⟨a', ha', hs'⟩ := foldlM_some (singleStep fb lo0) (fun a => a.size = 2 * nS)
          (List.range' (max idxskip (2 * va)) (a.size - max idxskip (2 * va)))
          (fun i hi a' ha' => by
            have hm := List.mem_range'_1.1 hi
            exact singleStep_some hfb hnS hcur ha' (by omega) (by omega)) a ha
        refine ⟨a', ?_, hs'⟩
        simp only [singleLog, hva, hl15, if_false, Option.bind_eq_bind, Option.bind_some]
        exact ha') lb sb
  exact ⟨(lc, lo0), by simp [sieveCursors, hla, hlb, hlc]⟩

end CursorTotal

/-! ### lookups -/

theorem mapM_range'_some {α} (g : Nat → Option α) :
    ∀ (n s : Nat), (∀ j, j < n → ∃ v, g (s + j) = some v) → ∃ l, (List.range' s n).mapM g = some l := by
  intro n
  induction n with
  | zero => intro s _; exact ⟨[], by simp⟩
  | succ n ih =>
    intro s h
    obtain ⟨v, hv⟩ := h 0 (by omega)
    obtain ⟨l, hl⟩ := ih (s + 1) (fun j hj => by
      obtain ⟨w, hw⟩ := h (j + 1) (by omega)
      exact ⟨w, by rw [← hw]; congr 1; omega⟩)
    refine ⟨v :: l, ?_⟩
    rw [List.range'_succ, List.mapM_cons]
    simp only [Nat.add_zero] at hv
    simp [hv, hl]

theorem Table.bucket_some {n : Nat} {t : Table} (h : t.Sized n) {b : Nat} (hb : b < 128 * n) :
    ∃ bk, t.bucket b = some bk := by
  obtain ⟨he, hbl, hle, _⟩ := h
  have hbi : b < t.blens.size := by omega
  have hbl' : t.blens[b]? = some t.blens[b] := Array.getElem?_eq_getElem hbi
  have h32 := hle _ _ hbl'
  unfold Table.bucket
  simp only [hbl', BUCKET_SIZE]
  exact mapM_range'_some _ _ _ (fun j hj => ⟨t.entries[b * 32 + j]'(by omega), Array.getElem?_eq_getElem (by omega)⟩)

theorem Table.lookup_some {n : Nat} {t : Table} (h : t.Sized n) {blkNo r : Nat} (hb : blkNo < n) (hr : r < BLOCK) :
    ∃ l, t.lookup (blkNo * BLOCK) r = some l := by
  obtain ⟨bk, hbk⟩ := Table.bucket_some h (b := (blkNo * BLOCK + r) / 256) (by simp only [BLOCK] at *; omega)
  simp only [Table.lookup, BUCKET_WIDTH, hbk, Option.bind_eq_bind, Option.bind_some]
  exact ⟨_, rfl⟩

theorem LTable.bucket_some {n : Nat} {t : LTable} (h : t.Sized n) {b : Nat} (hb : b < 2 * n + 1) :
    ∃ bk, t.bucket b = some bk := by
  obtain ⟨hl, hh, hwf⟩ := h
  have e : n * BLOCK / LBW = 2 * n := by simp only [BLOCK, LBW]; omega
  rw [e] at hl hh
  have hbi : b < t.lengths.size := by omega
  have hbl' : t.lengths[b]? = some t.lengths[b] := Array.getElem?_eq_getElem hbi
  have hle := hwf _ _ hbl'
  unfold LTable.bucket
  simp only [hbl', LBS]
  have hsz : b * 1024 + 1024 ≤ t.hits.size := by rw [hh]; simp only [LBW]; omega
  exact mapM_range'_some _ _ _ (fun j hj => ⟨t.hits[b * 1024 + j]'(by omega), Array.getElem?_eq_getElem (by omega)⟩)

theorem LTable.lookup_some {n : Nat} {t : LTable} (h : t.Sized n) {blkNo r : Nat} (hb : blkNo < n) (hr : r < BLOCK) :
    ∃ l, t.lookup blkNo r = some l := by
  obtain ⟨bk, hbk⟩ := LTable.bucket_some h (b := 2 * blkNo + r / LBW) (by simp only [BLOCK, LBW] at *; omega)
  simp only [LTable.lookup, hbk, Option.bind_eq_bind, Option.bind_some]
  exact ⟨_, rfl⟩

/-! ### sieve_block / next_block / smooths -/

theorem sieveBlock_some {fb : FB} {nS n : Nat} {rS1 rS2 rL1 rL2 : Array Nat} {B : Nat} {s : State}
    (hfb : fb.WF) (hnS : fb.ibl[16]? = some nS) (hinv : Inv fb nS rS1 rS2 rL1 rL2 B s)
    (hsk : s.idxskip ≤ 2 * nS) (hsz : StateSized n s) (hb : s.blkNo < n) :
    ∃ s', sieveBlock fb s = some s' := by
  obtain ⟨⟨lo, lp⟩, hc⟩ := sieveCursors_some hfb hnS hinv.skip_even hsk hinv.cur hinv.prev
  unfold sieveBlock
  simp only [hc, Option.bind_eq_bind, Option.bind_some]
  by_cases h0 : s.tables.size = 0
  · simp only [h0, if_true]
    exact ⟨_, rfl⟩
  · simp only [h0, if_false]
    have h1 : (s.tables.any fun t => decide (t.entries.size < (s.blkNo + 1) * N_ENTRIES ∨
        t.blens.size < (s.blkNo + 1) * N_BUCKETS)) = false := by
      rw [Array.any_eq_false]
      intro i hi
      obtain ⟨he, hbl, _⟩ := hsz.tabs i _ (Array.getElem?_eq_getElem hi)
      have : (s.blkNo + 1) * 4096 ≤ 4096 * n := by omega
      have : (s.blkNo + 1) * 128 ≤ 128 * n := by omega
      simp only [decide_eq_true_eq, N_ENTRIES, N_BUCKETS, he, hbl]
      omega
    have e : n * BLOCK / LBW = 2 * n := by simp only [BLOCK, LBW]; omega
    have h2 : (s.ltables.any fun t => decide (t.lengths.size < 2 * s.blkNo + 2)) = false := by
      rw [Array.any_eq_false]
      intro i hi
      obtain ⟨hl, _, _⟩ := hsz.ltabs i _ (Array.getElem?_eq_getElem hi)
      rw [e] at hl
      simp only [decide_eq_true_eq, hl]
      omega
    have h3 : (s.ltables.any fun t => decide ((t.bucket (2 * s.blkNo)).isNone = true ∨
        (t.bucket (2 * s.blkNo + 1)).isNone = true)) = false := by
      rw [Array.any_eq_false]
      intro i hi
      have hs := hsz.ltabs i _ (Array.getElem?_eq_getElem hi)
      obtain ⟨b1, hb1⟩ := LTable.bucket_some hs (b := 2 * s.blkNo) (by omega)
      obtain ⟨b2, hb2⟩ := LTable.bucket_some hs (b := 2 * s.blkNo + 1) (by omega)
      simp [hb1, hb2]
    simp only [h1, h2, h3]
    exact ⟨_, rfl⟩

theorem isFactor_some {fb : FB} {s : State} {r1 r2 : Array Nat} (hr : RootsOK fb r1 r2) {r pidx : Nat}
    (hp : pidx < fb.primes.size) (hblk : s.blkNo < 2 ^ 17) : ∃ b, isFactor fb s r1 r2 r pidx = some b := by
  have hpp : fb.primes[pidx]? = some fb.primes[pidx] := Array.getElem?_eq_getElem hp
  obtain ⟨o1, o2, h1, h2, _⟩ := hr _ _ hpp
  have hb32 : s.blkNo % 2 ^ 32 = s.blkNo := Nat.mod_eq_of_lt (by omega)
  have hbig : ¬ s.blkNo * BLOCK ≥ 2 ^ 32 := by simp only [BLOCK]; omega
  unfold isFactor
  simp only [hpp, hb32, hbig, if_false, h1, h2, Option.bind_eq_bind, Option.bind_some, Option.pure_def]
  split
  · exact ⟨true, rfl⟩
  · exact ⟨_, rfl⟩

theorem filt_some {fb : FB} {s : State} {r1 r2 : Array Nat} (hr : RootsOK fb r1 r2) {r : Nat}
    (hblk : s.blkNo < 2 ^ 17) (cands : List Nat) (hc : ∀ pidx ∈ cands, pidx < fb.primes.size) (acc : List Nat) :
    ∃ acc', filt fb s r1 r2 r acc cands = some acc' := by
  unfold filt
  obtain ⟨a', h, _⟩ := foldlM_some (fun (acc : List Nat) pidx => do
      let ok ← isFactor fb s r1 r2 r pidx
      some (if ok then pidx :: acc else acc)) (fun _ => True) cands
    (fun pidx hm a _ => by
      obtain ⟨b, hb⟩ := isFactor_some (s := s) (r := r) hr (hc pidx hm) hblk
      simp only [hb, Option.bind_eq_bind, Option.bind_some]
      exact ⟨_, rfl, trivial⟩) acc trivial
  exact ⟨a', h⟩

theorem factorsOf_some {fb : FB} {nS n B : Nat} {rS1 rS2 rL1 rL2 : Array Nat} {s : State}
    (hfb : fb.WF) (hnS : fb.ibl[16]? = some nS) (hrL : RootsOK fb rL1 rL2)
    (hprev : CurInv fb rS1 rS2 s.idxskip nS B s.loPrev)
    (htsize : ∃ maxprime, fb.primes.back? = some maxprime ∧ s.tables.size = min 18 (bitlen maxprime) + 1 - 16 ∧
      s.ltables.size = bitlen maxprime + 1 - 19)
    (hsz : StateSized n s) (hb : s.blkNo < n) (hn : n ≤ 2 ^ 17) {r : Nat} (hr : r < BLOCK) :
    ∃ facs, factorsOf fb s rL1 rL2 r = some facs := by
  obtain ⟨n15, hn15⟩ := hfb.ibl_some 15 (by omega)
  have hn15le : n15 ≤ nS := hfb.ibl_mono (by omega) hn15 hnS
  have hnSle := hfb.ibl_le _ _ hnS
  have hblk : s.blkNo < 2 ^ 17 := by omega
  have hlp : ∀ k, k < 2 * nS → ∃ c, s.loPrev[k]? = some c := fun k hk =>
    ⟨s.loPrev[k]'(by rw [hprev.1]; exact hk), Array.getElem?_eq_getElem (by rw [hprev.1]; exact hk)⟩
  obtain ⟨small, hsmall, _⟩ := foldlM_some (smallTest fb s r) (fun _ => True) (List.range' 0 n15)
    (fun i hi a _ => by
      have hm := List.mem_range'_1.1 hi
      obtain ⟨p, hp⟩ := hfb.prime_at (i := i) (by omega)
      obtain ⟨c1, hc1⟩ := hlp (2 * i) (by omega)
      obtain ⟨c2, hc2⟩ := hlp (2 * i + 1) (by omega)
      simp only [smallTest, hp, hc1, hc2, Option.bind_eq_bind, Option.bind_some]
      exact ⟨_, rfl, trivial⟩) [] trivial
  obtain ⟨mid, hmid, _⟩ := foldlM_some (midTest fb s r) (fun _ => True)
    (List.range' (2 * n15) (s.loPrev.size - 2 * n15))
    (fun i hi a _ => by
      have hm := List.mem_range'_1.1 hi
      have hi2 : i < 2 * nS := by rw [hprev.1] at hm; omega
      obtain ⟨p, hp⟩ := hfb.prime_at (i := i / 2) (by omega)
      obtain ⟨c, hc⟩ := hlp i hi2
      simp only [midTest, hp, hc, Option.bind_eq_bind, Option.bind_some]
      exact ⟨_, rfl, trivial⟩) small trivial
  unfold factorsOf
  simp only [hn15, hsmall, hmid, Option.bind_eq_bind, Option.bind_some]
  by_cases h0 : s.tables.size = 0
  · simp only [h0, if_true]
    exact ⟨_, rfl⟩
  · simp only [h0, if_false]
    obtain ⟨maxprime, hmax, hts, hls⟩ := htsize
    obtain ⟨a1, h1, _⟩ := foldlM_some (tableStep fb s rL1 rL2 r) (fun _ => True) (List.range' 0 s.tables.size)
      (fun ti hi a _ => by
        have hm := List.mem_range'_1.1 hi
        have hti : ti < s.tables.size := by omega
        have ht : s.tables[ti]? = some s.tables[ti] := Array.getElem?_eq_getElem hti
        obtain ⟨idx1, hi1⟩ := hfb.ibl_some (ti + 16) (by omega)
        obtain ⟨idx2, hi2⟩ := hfb.ibl_some (ti + 16 + 1) (by omega)
        have hle2 := hfb.ibl_le _ _ hi2
        obtain ⟨p8s, hlook⟩ := Table.lookup_some (hsz.tabs ti _ ht) hb hr
        obtain ⟨a', ha', _⟩ := foldlM_some (fun acc p8 => filt fb s rL1 rL2 r acc (candidates idx1 idx2 p8))
          (fun _ => True) p8s
          (fun p8 _ acc _ => by
            obtain ⟨acc', h⟩ := filt_some (s := s) (r := r) hrL hblk (candidates idx1 idx2 p8)
              (fun pidx hm => by
                unfold candidates at hm
                have := (List.mem_filter.1 hm).2
                simp only [decide_eq_true_eq] at this
                omega) acc
            exact ⟨acc', h, trivial⟩) a trivial
        refine ⟨a', ?_, trivial⟩
        simp only [tableStep, ht, LARGE_LOG, hi1, hi2, hlook, Option.bind_eq_bind, Option.bind_some]
        exact ha') mid trivial
    obtain ⟨a2, h2, _⟩ := foldlM_some (ltableStep fb s rL1 rL2 r) (fun _ => True) s.ltables.toList
      (fun t ht a _ => by
        obtain ⟨li, hli, rfl⟩ := List.getElem_of_mem ht
        have hli' : li < s.ltables.size := by simpa using hli
        have hts' : s.ltables[li]? = some s.ltables.toList[li] := by
          rw [Array.getElem?_eq_getElem hli']; simp
        obtain ⟨p16s, hlook⟩ := LTable.lookup_some (hsz.ltabs li _ hts') hb hr
        obtain ⟨a', ha', _⟩ := foldlM_some
          (fun acc p16 => filt fb s rL1 rL2 r acc (lcandidates fb.primes.size p16)) (fun _ => True) p16s
          (fun p16 _ acc _ => by
            obtain ⟨acc', h⟩ := filt_some (s := s) (r := r) hrL hblk (lcandidates fb.primes.size p16)
              (fun pidx hm => by
                unfold lcandidates at hm
                obtain ⟨k, hk, rfl⟩ := List.mem_map.1 hm
                have := List.mem_range'_1.1 hk
                omega) acc
            exact ⟨acc', h, trivial⟩) a trivial
        refine ⟨a', ?_, trivial⟩
        simp only [ltableStep, hlook, Option.bind_eq_bind, Option.bind_some]
        exact ha') a1 trivial
    simp only [h1, h2, Option.bind_some]
    exact ⟨_, rfl⟩

end Ymq.Sieve
