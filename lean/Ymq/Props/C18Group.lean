/-
C18 — the reference form arithmetic of the driver is the arithmetic of the class group.

`Form.compose` (Cohen, Algorithm 5.4.7 with the model's own extended gcd, followed by `Form.reduce`) is what the
Lean driver uses to re-check every relation line of the real runs (`cg_relcheck`, `relationValue`). Here:
* `xgcd_correct`: the extended gcd of the model (fuel included) returns the gcd with Bezout coefficients;
* `compose_is_composition`: for forms with positive first coefficients and the same discriminant `D` (primitive or
  not) the result has discriminant `D` and is a composition in the sense of Gauss' bilinear identity
  `f1(x1,y1) · f2(x2,y2) = f3(X, Y)`, `X`, `Y` integer bilinear forms;
* `compose_raw_identity`: the same before reduction with the explicit substitution;
* `compose_dirichlet`: when `gcd(a1, a2, (b1+b2)/2) = 1` the result is, up to proper equivalence, the Dirichlet
  composition of two forms properly equivalent to the inputs (`Comp`, the relation `relation_genuine` is stated with);
* `compose_concordant`: on literally concordant inputs it is properly equivalent to `(a1 a2, b, c)`.
-/
import Ymq.Props.C18Forms
import Ymq.Lemmas.ClassGroupGauss

namespace Ymq.C18
open Ymq.ClassGroup

/-- The extended gcd of the model, `xgcd a b` for `b ≥ 0` (the only way `Form.compose` calls it on positive
definite forms): `u a + v b = g`, `g ∣ a`, `g ∣ b`, `g ≥ 0` — so `g = gcd(a, b)`; in particular the fuel
`2 (log2 |a| + log2 |b|) + 8` of the model is enough (the remainder halves every two steps). -/
theorem xgcd_correct (a b : Int) (hb : 0 ≤ b) (g u v : Int) (h : xgcd a b = (g, u, v)) :
    u * a + v * b = g ∧ g ∣ a ∧ g ∣ b ∧ 0 ≤ g ∧ (∀ d : Int, d ∣ a → d ∣ b → d ∣ g) := by
  obtain ⟨h1, h2, h3, h4⟩ := xgcd_spec a b hb g u v h
  refine ⟨h1, h2, h3, h4, ?_⟩
  intro d da db
  rw [← h1]; exact dvd_add (da.mul_left u) (db.mul_left v)

/-- `Form.compose` before the final reduction, with the explicit bilinear substitution: for `a1 ≤ a2` (the order
the algorithm works in), `e = gcd(a1, a2, s)`, `s = (b1 + b2)/2`, `v_i = a_i / e`, `σ = s / e`, there are integers
`r, m, k3` with `composeRaw f1 f2 = (v1 v2, b2 + 2 v2 r, r m - e k3)` and
`f1(x1,y1) f2(x2,y2) = g(e x1x2 - r x1y2 - m y1x2 + k3 y1y2, v1 x1y2 + v2 y1x2 + σ y1y2)`. -/
theorem compose_raw_identity (f1 f2 : Form) (h1 : 0 < f1.a) (h12 : f1.a ≤ f2.a) (hd : f1.disc = f2.disc) :
    ∃ e v1 v2 σ r m k3 : Int, 0 < e ∧ f1.a = e * v1 ∧ f2.a = e * v2 ∧ f1.b + f2.b = 2 * (e * σ) ∧
      (∀ d : Int, d ∣ f1.a → d ∣ f2.a → d ∣ e * σ → d ∣ e) ∧
      f1.composeRaw f2 = ⟨v1 * v2, f2.b + 2 * v2 * r, r * m - e * k3⟩ ∧
      (f1.composeRaw f2).disc = f1.disc ∧
      ∀ x1 y1 x2 y2 : Int, f1.eval x1 y1 * f2.eval x2 y2
        = (f1.composeRaw f2).eval (e * x1 * x2 - r * x1 * y2 - m * y1 * x2 + k3 * y1 * y2)
            (v1 * x1 * y2 + v2 * y1 * x2 + σ * y1 * y2) := by
  have hraw : f1.composeRaw f2 = composeCore f1 f2 := by
    unfold Form.composeRaw; rw [if_neg (by omega)]
  obtain ⟨e, v1, v2, σ, r, m, k3, x2, P, t, he0, hv10, hv1, hv2, h2s, hbez, F1, F2, hg⟩ :=
    composeCore_spec f1 f2 h1 hd
  have hD : f1.b * f1.b - 4 * f1.a * f1.c = f2.b * f2.b - 4 * f2.a * f2.c := by
    have := hd; simpa only [Form.disc] using this
  obtain ⟨-, hdisc, hid⟩ := gauss_identity f1.a f1.b f1.c f2.a f2.b f2.c e v1 v2 σ r m k3 (by omega) hv10
    hv1 hv2 h2s hD F1 F2
  refine ⟨e, v1, v2, σ, r, m, k3, he0, hv1, hv2, h2s, ?_, by rw [hraw, hg], ?_, ?_⟩
  · intro d d1 d2 d3
    rw [hbez, ← hv1, ← hv2]
    exact dvd_sub (dvd_sub (d3.mul_left _) (d2.mul_left _)) (d1.mul_left _)
  · rw [hraw, hg, hdisc, hd]
  · intro x1 y1 x2 y2
    rw [hraw, hg]; exact hid x1 y1 x2 y2

/-- (1) `Form.compose` IS A COMPOSITION. Forms `f1`, `f2` with positive first coefficients and the same
discriminant (no primitivity needed for this part): the form `f3 = f1.compose f2` the driver computes (Cohen 5.4.7,
own `xgcd`, then `Form.reduce` with the model's fuel) has the same discriminant and satisfies the bilinear identity
of Gauss: there are integer bilinear forms `X = bil α`, `Y = bil β` in `(x1, y1)`, `(x2, y2)` with
`f1(x1, y1) · f2(x2, y2) = f3(X, Y)` for all integers. (Explicit `X`, `Y` before reduction: `compose_raw_identity`;
the reduction composes them with the inverse of its SL2(Z) matrix.) -/
theorem compose_is_composition (f1 f2 : Form) (h1 : 0 < f1.a) (h2 : 0 < f2.a) (hd : f1.disc = f2.disc) :
    (f1.compose f2).disc = f1.disc ∧ GaussComposes f1 f2 (f1.compose f2) := by
  rw [compose_eq_raw]
  have hred := (reduce_pequiv (f1.composeRaw f2) (reduceFuel (f1.composeRaw f2))).2
  have key : (f1.composeRaw f2).disc = f1.disc ∧ GaussComposes f1 f2 (f1.composeRaw f2) := by
    unfold Form.composeRaw
    by_cases h : f1.a > f2.a
    · rw [if_pos h]
      obtain ⟨hd', hc⟩ := composeCore_gauss f2 f1 h2 hd.symm
      exact ⟨by rw [hd', hd], hc.swap⟩
    · rw [if_neg h]
      exact composeCore_gauss f1 f2 h1 hd
  exact ⟨by rw [hred.2, key.1], key.2.pequiv hred.1⟩

/-- (1') When `gcd(a1, a2, (b1 + b2)/2) = 1` (in particular for concordant forms, and whenever `gcd(a1, a2) = 1`)
`f1.compose f2` is a Dirichlet composition up to proper equivalence: `Comp f1 f2 (f1.compose f2)` — the relation
`IsProduct` / `relation_genuine` are built from. -/
theorem compose_dirichlet (f1 f2 : Form) (h1 : 0 < f1.a) (h2 : 0 < f2.a) (hd : f1.disc = f2.disc)
    (hg : gcd3 f1.a f2.a ((f1.b + f2.b) / 2) = 1) : Comp f1 f2 (f1.compose f2) := by
  rw [compose_eq_raw]
  have hred := (reduce_pequiv (f1.composeRaw f2) (reduceFuel (f1.composeRaw f2))).2.1
  have key : Comp f1 f2 (f1.composeRaw f2) := by
    unfold Form.composeRaw
    by_cases h : f1.a > f2.a
    · rw [if_pos h]
      have hg' : gcd3 f2.a f1.a ((f2.b + f1.b) / 2) = 1 := by rw [gcd3_comm12, add_comm]; exact hg
      obtain ⟨f', g', h', e1, e2, e3, a1, a2, b, c, rfl, rfl, rfl, hc⟩ :=
        composeCore_comp f2 f1 h2 (by omega) hd.symm hg'
      refine ⟨_, _, _, e2, e1, e3, a2, a1, b, c, rfl, rfl, ?_, by rw [gcd3_comm12]; exact hc⟩
      rw [mul_comm]
    · rw [if_neg h]
      exact composeCore_comp f1 f2 h1 (by omega) hd hg
  obtain ⟨f', g', h', e1, e2, e3, hdc⟩ := key
  exact ⟨f', g', h', e1, e2, e3.trans hred, hdc⟩

/-- (1'') On concordant inputs `(a1, b, a2 c)`, `(a2, b, a1 c)` with `gcd(a1, a2, b) = 1` the driver's composition is
properly equivalent to the Dirichlet composition `(a1 a2, b, c)` of `dirichlet_composition`. -/
theorem compose_concordant (a1 a2 b c : Int) (h1 : 0 < a1) (h2 : 0 < a2) (hg : gcd3 a1 a2 b = 1) :
    PEquiv ⟨a1 * a2, b, c⟩ ((⟨a1, b, a2 * c⟩ : Form).compose ⟨a2, b, a1 * c⟩) := by
  rw [compose_eq_raw]
  refine PEquiv.trans ?_ (reduce_pequiv _ _).2.1
  unfold Form.composeRaw
  simp only
  by_cases h : a1 > a2
  · rw [if_pos h]
    have := composeCore_concordant a2 a1 b c h2 (by omega) (by rw [gcd3_comm12]; exact hg)
    rwa [mul_comm a2 a1] at this
  · rw [if_neg h]
    exact composeCore_concordant a1 a2 b c h1 (by omega) hg

/-! ### non-vacuity -/

example : xgcd 240 46 = (2, -9, 47) := by decide +kernel
/-- D = -23: `(2,1,3) ∘ (2,1,3) = (2,-1,3)` (the class of order 3), `e = gcd(2,2,1) = 1` -/
example : (⟨2, 1, 3⟩ : Form).compose ⟨2, 1, 3⟩ = ⟨2, -1, 3⟩ ∧ (⟨2, 1, 3⟩ : Form).disc = -23
    ∧ gcd3 2 2 ((1 + 1) / 2) = 1 := by decide +kernel
/-- a case with `e > 1`: D = -84, `(2,2,11) ∘ (2,2,11)` = principal, `e = gcd(2,2,2) = 2` -/
example : (⟨2, 2, 11⟩ : Form).compose ⟨2, 2, 11⟩ = ⟨1, 0, 21⟩ ∧ (⟨2, 2, 11⟩ : Form).disc = -84 := by decide +kernel
/-- concordant: D = -23, (2, 1, 3) and (3, 1, 2): a1 a2 = 6, c = 1 -/
example : gcd3 2 3 1 = 1 ∧ (⟨2, 1, 3 * 1⟩ : Form).compose ⟨3, 1, 2 * 1⟩ = ⟨1, 1, 6⟩ := by decide +kernel

end Ymq.C18
