/-
C13 helper lemmas: the class loops of `sieve_block` visit every non-skipped cursor exactly once
(`smallHits_sum`: closed form of the small-prime part of the byte array).
-/
import Ymq.Lemmas.SieveLog
import Ymq.Lemmas.SieveLogSum

namespace Ymq.SieveLog
open Ymq.Sieve

/-- `Σ_{k = s}^{s+n-1} f k` -/
def rangeSum (f : Nat → Nat) (s n : Nat) : Nat := ((List.range' s n).map f).sum

theorem rangeSum_zero (f : Nat → Nat) (s : Nat) : rangeSum f s 0 = 0 := rfl

theorem rangeSum_succ (f : Nat → Nat) (s n : Nat) : rangeSum f s (n + 1) = f s + rangeSum f (s + 1) n := by
  simp [rangeSum, List.range'_succ]

theorem rangeSum_append (f : Nat → Nat) (s m n : Nat) :
    rangeSum f s (m + n) = rangeSum f s m + rangeSum f (s + m) n := by
  unfold rangeSum
  have := List.range'_append (s := s) (m := m) (n := n) (step := 1)
  simp only [Nat.one_mul] at this
  rw [← this, List.map_append, List.sum_append]

theorem rangeSum_congr {f g : Nat → Nat} {s n : Nat} (h : ∀ k, s ≤ k → k < s + n → f k = g k) :
    rangeSum f s n = rangeSum g s n := by
  unfold rangeSum
  congr 1
  apply List.map_congr_left
  intro k hk
  have := List.mem_range'_1.1 hk
  exact h k this.1 this.2

/-- two adjacent clipped ranges. -/
theorem rangeSum_concat (f : Nat → Nat) (s A B C : Nat) (h1 : A ≤ B) (h2 : B ≤ C) :
    rangeSum f (max s A) (B - max s A) + rangeSum f (max s B) (C - max s B) =
      rangeSum f (max s A) (C - max s A) := by
  by_cases hs : s ≤ B
  · have e1 : max s B = B := by omega
    have e2 : C - max s A = (B - max s A) + (C - B) := by omega
    have e3 : max s A + (B - max s A) = B := by omega
    rw [e1, e2, rangeSum_append, e3]
  · have e1 : B - max s A = 0 := by omega
    have e2 : max s B = s := by omega
    have e3 : max s A = s := by omega
    rw [e1, e2, e3, rangeSum_zero, Nat.zero_add]

theorem mono_chain (A : Nat → Nat) : ∀ (n a : Nat), (∀ l, a ≤ l → l < a + n → A l ≤ A (l + 1)) → A a ≤ A (a + n) := by
  intro n
  induction n with
  | zero => intro a _; simp
  | succ n ih =>
    intro a hm
    have h1 := ih a (fun l h1 h2 => hm l h1 (by omega))
    have h2 := hm (a + n) (by omega) (by omega)
    have e : a + (n + 1) = a + n + 1 := rfl
    rw [e]; omega

/-- telescoping over consecutive classes. -/
theorem rangeSum_chain (f : Nat → Nat) (s : Nat) (A : Nat → Nat) :
    ∀ (n a : Nat), (∀ l, a ≤ l → l < a + n → A l ≤ A (l + 1)) →
      ((List.range' a n).map fun l => rangeSum f (max s (A l)) (A (l + 1) - max s (A l))).sum =
        rangeSum f (max s (A a)) (A (a + n) - max s (A a)) := by
  intro n
  induction n with
  | zero => intro a _; simp [rangeSum]
  | succ n ih =>
    intro a hm
    rw [List.range'_concat, List.map_append, List.sum_append, ih a (fun l h1 h2 => hm l h1 (by omega))]
    simp only [List.map_cons, List.map_nil, List.sum_cons, List.sum_nil, Nat.add_zero, Nat.one_mul]
    have hmono := mono_chain A n a (fun l h1 h2 => hm l h1 (by omega))
    have := rangeSum_concat f s (A a) (A (a + n)) (A (a + n + 1)) hmono (hm (a + n) (by omega) (by omega))
    have e : a + (n + 1) = a + n + 1 := rfl
    rw [e]
    exact this

/-- pairs of consecutive indices. -/
theorem rangeSum_pairs (F : Nat → Nat) :
    ∀ (n lo : Nat), ((List.range' lo n).map fun i => F (2 * i) + F (2 * i + 1)).sum = rangeSum F (2 * lo) (2 * n) := by
  intro n
  induction n with
  | zero => intro lo; simp [rangeSum]
  | succ n ih =>
    intro lo
    rw [List.range'_succ, List.map_cons, List.sum_cons, ih (lo + 1)]
    have e : 2 * (n + 1) = 2 * n + 1 + 1 := by ring
    rw [e, rangeSum_succ, rangeSum_succ]
    have e2 : 2 * (lo + 1) = 2 * lo + 1 + 1 := by ring
    rw [e2]; omega

theorem mapM_flatten_sum {α} (g : α → Option (List (Nat × Nat))) (f : α → Nat) (x : Nat) :
    ∀ (L : List α) (ls : List (List (Nat × Nat))), L.mapM g = some ls →
      (∀ i ∈ L, ∀ l, g i = some l → hitSum l x = f i) → hitSum ls.flatten x = (L.map f).sum := by
  intro L
  induction L with
  | nil => intro ls h _; simp at h; subst h; rfl
  | cons a t ih =>
    intro ls h hf
    rw [List.mapM_cons] at h
    simp only [bind, Option.bind_eq_some_iff, pure, Option.some.injEq] at h
    obtain ⟨l, hl, ls', hls', rfl⟩ := h
    rw [List.flatten_cons, hitSum_append, List.map_cons, List.sum_cons,
      hf a List.mem_cons_self l hl, ih ls' hls' (fun i hi => hf i (List.mem_cons_of_mem _ hi))]

/-- what cursor slot `k` adds at position `x`: the bit length of its prime when `x ≡ cursor (mod p)`
(nothing for the marker `OFFSET_NONE`). -/
def slotF (fb : FB) (loPrev : Array Nat) (x k : Nat) : Nat :=
  match fb.primes[k / 2]?, loPrev[k]? with
  | some p, some c => if c ≠ NONE ∧ x % p = c then bitlen p else 0
  | _, _ => 0

section Cover
variable {fb : FB} {r1 r2 : Array Nat} {idxskip nS B : Nat} {loPrev : Array Nat}

theorem bitlen_small_mod {p : Nat} (h : p < 32768) : bitlen p % 256 = bitlen p := by
  have := (bitlen_lt_succ_iff p 15).2 (by simpa using h)
  omega

theorem pairHitStep_sum (hfb : fb.WF) (hnS : fb.ibl[16]? = some nS)
    (hcur : CurInv fb r1 r2 idxskip nS B loPrev) {i x lg : Nat} {l : List (Nat × Nat)}
    (hi : 2 * i + 1 < 2 * nS) (hge : idxskip ≤ 2 * i) (hx : x < BLOCK)
    (hlg : ∀ p, fb.primes[i]? = some p → bitlen p = lg ∧ p ≤ 4096)
    (h : pairHitStep fb loPrev lg i = some l) :
    hitSum l x = slotF fb loPrev x (2 * i) + slotF fb loPrev x (2 * i + 1) := by
  unfold pairHitStep at h
  simp only [Option.bind_eq_bind, Option.bind_eq_some_iff, Option.some.injEq] at h
  obtain ⟨p, hp, c1, hc1, c2, hc2, l0, hl0, rfl⟩ := h
  have e0 : (2 * i) / 2 = i := by omega
  have e1 : (2 * i + 1) / 2 = i := by omega
  have m0 : (2 * i) % 2 = 0 := by omega
  have m1 : ¬ (2 * i + 1) % 2 = 0 := by omega
  obtain ⟨hbl, hp4⟩ := hlg p hp
  have hp2 := hfb.ge2 _ _ hp
  obtain ⟨p', o1, o2, hp', h1, h2, hif0⟩ := hcur.2 (2 * i) (by omega)
  obtain ⟨p'', o1', o2', hp'', h1', h2', hif1⟩ := hcur.2 (2 * i + 1) hi
  rw [e0] at hp' h1 h2
  rw [e1] at hp'' h1' h2'
  rw [hp] at hp' hp''
  have := Option.some.inj hp'; subst this
  have := Option.some.inj hp''; subst this
  rw [h1] at h1'; rw [h2] at h2'
  have := Option.some.inj h1'; subst this
  have := Option.some.inj h2'; subst this
  rw [if_pos (Or.inl m0)] at hif0
  obtain ⟨c, hc, hlt1, hinv1⟩ := hif0
  rw [hc1] at hc
  have := Option.some.inj hc; subst this
  simp only [m0, if_true] at hinv1
  have hlgm : lg % 256 = lg := by rw [← hbl]; exact bitlen_small_mod (by omega)
  rw [hlgm]
  have n1 : c1 ≠ NONE := by unfold NONE; omega
  have hc2' : (c2 < p ∧ c2 ≠ c1) ∨ c2 = NONE := by
    by_cases hl : (2 * i + 1) % 2 = 0 ∨ o1 ≠ o2
    · rw [if_pos hl] at hif1
      obtain ⟨c', hc', hlt2, hinv2⟩ := hif1
      rw [hc2] at hc'
      have := Option.some.inj hc'; subst this
      simp only [m1, if_false] at hinv2
      left
      refine ⟨hlt2, ?_⟩
      intro e
      subst e
      rcases hl with hl | hl
      · exact absurd hl m1
      · exact hl (hinv1.symm.trans hinv2)
    · rw [if_neg hl] at hif1
      right
      have := hif1 (by omega)
      rw [hc2] at this
      exact Option.some.inj this
  rw [pairHits_sum (lg := lg) (by omega) hp4 hlt1 hc2' hx hl0]
  unfold slotF
  simp only [e0, e1, hp, hc1, hc2, n1, ne_eq, not_false_eq_true, true_and, hbl]

theorem singleHitStep_sum (hfb : fb.WF) (hnS : fb.ibl[16]? = some nS)
    (hcur : CurInv fb r1 r2 idxskip nS B loPrev) {i x lg : Nat} {l : List (Nat × Nat)}
    (hi : i < 2 * nS) (hge : idxskip ≤ i) (hx : x < BLOCK)
    (hlg : ∀ p, fb.primes[i / 2]? = some p → bitlen p = lg)
    (h : singleHitStep fb loPrev lg i = some l) : hitSum l x = slotF fb loPrev x i := by
  unfold singleHitStep at h
  simp only [Option.bind_eq_bind, Option.bind_eq_some_iff, Option.some.injEq] at h
  obtain ⟨p, hp, c, hc, l0, hl0, rfl⟩ := h
  have hbl := hlg p hp
  have hp2 := hfb.ge2 _ _ hp
  have hps := prime_small hfb hnS hi hp
  obtain ⟨p', o1, o2, hp', _, _, hif⟩ := hcur.2 i hi
  rw [hp] at hp'
  have := Option.some.inj hp'; subst this
  have hlgm : lg % 256 = lg := by rw [← hbl]; exact bitlen_small_mod hps
  rw [hlgm]
  unfold slotF
  simp only [hp, hc]
  by_cases hl : i % 2 = 0 ∨ o1 ≠ o2
  · rw [if_pos hl] at hif
    obtain ⟨c', hc', hlt, _⟩ := hif
    rw [hc] at hc'
    have := Option.some.inj hc'; subst this
    have n1 : c ≠ NONE := by unfold NONE; omega
    rw [singleHits_sum (lg := lg) (by omega) hlt n1 hx hl0]
    simp only [n1, ne_eq, not_false_eq_true, true_and, hbl]
  · rw [if_neg hl] at hif
    have := hif hge
    rw [hc] at this
    have := Option.some.inj this; subst this
    simp only [singleHits, if_true, Option.some.injEq] at hl0
    subst hl0
    simp [hitSum]

/-- the class loops `log ≤ 12` (both cursors of each prime). -/
theorem pairHitLog_sum (hfb : fb.WF) (hnS : fb.ibl[16]? = some nS) (hev : idxskip % 2 = 0)
    (hcur : CurInv fb r1 r2 idxskip nS B loPrev) {log x a b : Nat} {l : List (Nat × Nat)} (hlog : log ≤ 12)
    (ha : fb.ibl[log]? = some a) (hb : fb.ibl[log + 1]? = some b) (hx : x < BLOCK)
    (h : pairHitLog fb idxskip loPrev log = some l) :
    hitSum l x = rangeSum (slotF fb loPrev x) (max idxskip (2 * a)) (2 * b - max idxskip (2 * a)) := by
  unfold pairHitLog at h
  have hl15 : log < 15 := by omega
  simp only [ha, hb, hl15, if_true, Option.map_some, Option.bind_eq_bind, Option.bind_some, Option.bind_eq_some_iff,
    Option.some.injEq] at h
  obtain ⟨ls, hls, rfl⟩ := h
  have hbn : b ≤ nS := hfb.ibl_mono (by omega) hb hnS
  rw [mapM_flatten_sum _ (fun i => slotF fb loPrev x (2 * i) + slotF fb loPrev x (2 * i + 1)) x _ _ hls]
  · rw [rangeSum_pairs]
    congr 1 <;> omega
  · intro i hi l hl
    have hm := List.mem_range'_1.1 hi
    refine pairHitStep_sum hfb hnS hcur (by omega) (by omega) hx ?_ hl
    intro p hp
    have hcl := (hfb.class_of hp ha hb).1 ⟨by omega, by omega⟩
    have := (bitlen_lt_succ_iff p 12).1 (by omega)
    exact ⟨hcl, by omega⟩

/-- the class loops 13..15 (one cursor at a time). -/
theorem singleHitLog_sum (hfb : fb.WF) (hnS : fb.ibl[16]? = some nS)
    (hcur : CurInv fb r1 r2 idxskip nS B loPrev) {log x a b : Nat} {l : List (Nat × Nat)} (hlog : log ≤ 15)
    (ha : fb.ibl[log]? = some a) (hb : fb.ibl[log + 1]? = some b) (hx : x < BLOCK)
    (h : singleHitLog fb idxskip loPrev log = some l) :
    hitSum l x = rangeSum (slotF fb loPrev x) (max idxskip (2 * a)) (2 * b - max idxskip (2 * a)) := by
  unfold singleHitLog at h
  have hbn : b ≤ nS := hfb.ibl_mono (by omega) hb hnS
  have key : ∀ ls E, E = 2 * b →
      (List.range' (max idxskip (2 * a)) (E - max idxskip (2 * a))).mapM (singleHitStep fb loPrev log) = some ls →
      hitSum ls.flatten x = rangeSum (slotF fb loPrev x) (max idxskip (2 * a)) (2 * b - max idxskip (2 * a)) := by
    intro ls E hE hls
    subst hE
    rw [mapM_flatten_sum _ (fun i => slotF fb loPrev x i) x _ _ hls]
    · rfl
    · intro i hi l hl
      have hm := List.mem_range'_1.1 hi
      refine singleHitStep_sum hfb hnS hcur (by omega) (by omega) hx ?_ hl
      intro p hp
      exact (hfb.class_of hp ha hb).1 ⟨by omega, by omega⟩
  by_cases hl15 : log < 15
  · simp only [ha, hb, hl15, if_true, Option.map_some, Option.bind_eq_bind, Option.bind_some,
      Option.bind_eq_some_iff, Option.some.injEq] at h
    obtain ⟨ls, hls, rfl⟩ := h
    exact key ls _ rfl hls
  · simp only [ha, hl15, if_false, Option.bind_eq_bind, Option.bind_some, Option.bind_eq_some_iff,
      Option.some.injEq] at h
    obtain ⟨ls, hls, rfl⟩ := h
    have : log = 15 := by omega
    subst this
    rw [hnS] at hb
    have := Option.some.inj hb; subst this
    exact key ls _ hcur.1 hls

/-- twice `idx_by_log[l]` (0 outside the table). -/
def A2 (fb : FB) (l : Nat) : Nat := 2 * (fb.ibl[l]?).getD 0

/-- `class_loops_cover`, sum form: the class loops of `sieve_block` (2..12 with the unrolled loop and the two
tails, 13..15 per cursor) add at position `x` exactly the contributions of the cursor slots
`idxskip ≤ k < 2·nS`, each slot once. -/
theorem smallHits_sum (hfb : fb.WF) (hnS : fb.ibl[16]? = some nS) (hev : idxskip % 2 = 0)
    (hcur : CurInv fb r1 r2 idxskip nS B loPrev) {x : Nat} {l : List (Nat × Nat)} (hx : x < BLOCK)
    (h : smallHits fb idxskip loPrev = some l) :
    hitSum l x = rangeSum (slotF fb loPrev x) idxskip (2 * nS - idxskip) := by
  unfold smallHits at h
  simp only [Option.bind_eq_bind, Option.bind_eq_some_iff, Option.some.injEq] at h
  obtain ⟨h1, hh1, h2, hh2, rfl⟩ := h
  have hA : ∀ l v, fb.ibl[l]? = some v → A2 fb l = 2 * v := by
    intro l v hv; simp [A2, hv]
  have hmono : ∀ l, l < 25 → A2 fb l ≤ A2 fb (l + 1) := by
    intro l hl
    obtain ⟨v, hv⟩ := hfb.ibl_some l (by omega)
    obtain ⟨v', hv'⟩ := hfb.ibl_some (l + 1) (by omega)
    rw [hA l v hv, hA (l + 1) v' hv']
    have := hfb.ibl_mono (by omega : l ≤ l + 1) hv hv'
    omega
  have R : ∀ log, log ≤ 15 → ∀ a b, fb.ibl[log]? = some a → fb.ibl[log + 1]? = some b →
      rangeSum (slotF fb loPrev x) (max idxskip (2 * a)) (2 * b - max idxskip (2 * a)) =
      rangeSum (slotF fb loPrev x) (max idxskip (A2 fb log)) (A2 fb (log + 1) - max idxskip (A2 fb log)) := by
    intro log _ a b ha hb; rw [hA log a ha, hA (log + 1) b hb]
  rw [hitSum_append,
    mapM_flatten_sum _ (fun log => rangeSum (slotF fb loPrev x) (max idxskip (A2 fb log))
      (A2 fb (log + 1) - max idxskip (A2 fb log))) x _ _ hh1 (fun log hl l hl' => by
        have hm := List.mem_range'_1.1 hl
        obtain ⟨a, ha⟩ := hfb.ibl_some log (by omega)
        obtain ⟨b, hb⟩ := hfb.ibl_some (log + 1) (by omega)
        rw [pairHitLog_sum hfb hnS hev hcur (by omega) ha hb hx hl', R log (by omega) a b ha hb]),
    mapM_flatten_sum _ (fun log => rangeSum (slotF fb loPrev x) (max idxskip (A2 fb log))
      (A2 fb (log + 1) - max idxskip (A2 fb log))) x _ _ hh2 (fun log hl l hl' => by
        have hm := List.mem_range'_1.1 hl
        obtain ⟨a, ha⟩ := hfb.ibl_some log (by omega)
        obtain ⟨b, hb⟩ := hfb.ibl_some (log + 1) (by omega)
        rw [singleHitLog_sum hfb hnS hcur (by omega) ha hb hx hl', R log (by omega) a b ha hb]),
    rangeSum_chain _ idxskip (A2 fb) 11 2 (fun l h1 h2 => hmono l (by omega)),
    rangeSum_chain _ idxskip (A2 fb) 3 13 (fun l h1 h2 => hmono l (by omega))]
  have := rangeSum_concat (slotF fb loPrev x) idxskip (A2 fb 2) (A2 fb 13) (A2 fb 16)
    (mono_chain (A2 fb) 11 2 (fun l h1 h2 => hmono l (by omega)))
    (mono_chain (A2 fb) 3 13 (fun l h1 h2 => hmono l (by omega)))
  have e1 : (2 : Nat) + 11 = 13 := rfl
  have e2 : (13 : Nat) + 3 = 16 := rfl
  rw [e1, e2, this]
  -- idx_by_log[2] = 0 (every prime has at least 2 bits), 2·idx_by_log[16] = 2·nS
  have h16 : A2 fb 16 = 2 * nS := hA 16 nS hnS
  have h2' : A2 fb 2 = 0 := by
    obtain ⟨v, hv⟩ := hfb.ibl_some 2 (by omega)
    rw [hA 2 v hv]
    by_contra hc
    have hle := hfb.ibl_le _ _ hv
    obtain ⟨p, hp⟩ := hfb.prime_at (i := 0) (by omega)
    have := (hfb.ibl_spec 2 0 v p hv hp).1 (by omega)
    have := hfb.ge2 _ _ hp
    have := (bitlen_lt_succ_iff p 1).1 (by omega)
    omega
  rw [h16, h2']
  congr 1 <;> omega

/-- the two cursors of one prime never both match a position: the prime adds its bit length at most once. -/
theorem pair_slot_le (hcur : CurInv fb r1 r2 idxskip nS B loPrev) {i x p : Nat}
    (hi : 2 * i + 1 < 2 * nS) (hge : idxskip ≤ 2 * i) (hp : fb.primes[i]? = some p) :
    slotF fb loPrev x (2 * i) + slotF fb loPrev x (2 * i + 1) ≤ bitlen p := by
  have e0 : (2 * i) / 2 = i := by omega
  have e1 : (2 * i + 1) / 2 = i := by omega
  have m0 : (2 * i) % 2 = 0 := by omega
  have m1 : ¬ (2 * i + 1) % 2 = 0 := by omega
  obtain ⟨p', o1, o2, hp', h1, h2, hif0⟩ := hcur.2 (2 * i) (by omega)
  obtain ⟨p'', o1', o2', hp'', h1', h2', hif1⟩ := hcur.2 (2 * i + 1) hi
  rw [e0] at hp' h1 h2
  rw [e1] at hp'' h1' h2'
  rw [hp] at hp' hp''
  have := Option.some.inj hp'; subst this
  have := Option.some.inj hp''; subst this
  rw [h1] at h1'; rw [h2] at h2'
  have := Option.some.inj h1'; subst this
  have := Option.some.inj h2'; subst this
  rw [if_pos (Or.inl m0)] at hif0
  obtain ⟨c1, hc1, hlt1, hinv1⟩ := hif0
  simp only [m0, if_true] at hinv1
  unfold slotF
  simp only [e0, e1, hp, hc1]
  by_cases hl : (2 * i + 1) % 2 = 0 ∨ o1 ≠ o2
  · rw [if_pos hl] at hif1
    obtain ⟨c2, hc2, hlt2, hinv2⟩ := hif1
    simp only [m1, if_false] at hinv2
    simp only [hc2]
    have hne : c2 ≠ c1 := by
      intro e; subst e
      rcases hl with hl | hl
      · exact m1 hl
      · exact hl (hinv1.symm.trans hinv2)
    by_cases a1 : x % p = c1
    · have : ¬ (c2 ≠ NONE ∧ x % p = c2) := fun h => hne (h.2.symm.trans a1)
      rw [if_neg this]; split <;> omega
    · have : ¬ (c1 ≠ NONE ∧ x % p = c1) := fun h => a1 h.2
      rw [if_neg this]; split <;> omega
  · rw [if_neg hl] at hif1
    have := hif1 (by omega)
    simp only [this, ne_eq, not_true_eq_false, false_and, if_false, Nat.add_zero]
    split <;> omega

/-- sum of per-index contributions bounded by the bit lengths of a finite set of distinct primes. -/
theorem list_sum_le_finset (P g : Nat → Nat) :
    ∀ (L : List Nat) (ps : Finset ℕ), L.Nodup → (∀ i ∈ L, g i ≤ bitlen (P i)) → (∀ i ∈ L, 0 < g i → P i ∈ ps) →
      (∀ i ∈ L, ∀ j ∈ L, P i = P j → i = j) → (L.map g).sum ≤ ∑ p ∈ ps, bitlen p := by
  intro L
  induction L with
  | nil => intro ps _ _ _ _; simp
  | cons a t ih =>
    intro ps hn hle hmem hinj
    rw [List.nodup_cons] at hn
    rw [List.map_cons, List.sum_cons]
    by_cases h0 : g a = 0
    · rw [h0, Nat.zero_add]
      exact ih ps hn.2 (fun i hi => hle i (List.mem_cons_of_mem _ hi))
        (fun i hi => hmem i (List.mem_cons_of_mem _ hi))
        (fun i hi j hj => hinj i (List.mem_cons_of_mem _ hi) j (List.mem_cons_of_mem _ hj))
    · have hpa : P a ∈ ps := hmem a List.mem_cons_self (by omega)
      rw [← Finset.add_sum_erase ps _ hpa]
      have := ih (ps.erase (P a)) hn.2 (fun i hi => hle i (List.mem_cons_of_mem _ hi))
        (fun i hi hg => by
          rw [Finset.mem_erase]
          refine ⟨?_, hmem i (List.mem_cons_of_mem _ hi) hg⟩
          intro e
          have := hinj i (List.mem_cons_of_mem _ hi) a List.mem_cons_self e
          subst this
          exact hn.1 hi)
        (fun i hi j hj => hinj i (List.mem_cons_of_mem _ hi) j (List.mem_cons_of_mem _ hj))
      have := hle a List.mem_cons_self
      omega

/-- the small-prime part of the byte at `x` is bounded by the bit lengths of any finite set of primes that
contains every non-skipped prime below the block size with a cursor matching `x`. -/
theorem smallSum_le (hfb : fb.WF) (hnS : fb.ibl[16]? = some nS) (hev : idxskip % 2 = 0)
    (hcur : CurInv fb r1 r2 idxskip nS B loPrev) {x : Nat} (ps : Finset ℕ)
    (hps : ∀ i p, idxskip ≤ 2 * i → i < nS → fb.primes[i]? = some p →
      0 < slotF fb loPrev x (2 * i) + slotF fb loPrev x (2 * i + 1) → p ∈ ps) :
    rangeSum (slotF fb loPrev x) idxskip (2 * nS - idxskip) ≤ ∑ p ∈ ps, bitlen p := by
  have hnn := hfb.ibl_le _ _ hnS
  have e : rangeSum (slotF fb loPrev x) idxskip (2 * nS - idxskip) =
      ((List.range' (idxskip / 2) (nS - idxskip / 2)).map fun i =>
        slotF fb loPrev x (2 * i) + slotF fb loPrev x (2 * i + 1)).sum := by
    rw [rangeSum_pairs]
    congr 1 <;> omega
  rw [e]
  refine list_sum_le_finset (fun i => (fb.primes[i]?).getD 0) _ _ ps (List.nodup_range' (step := 1) (by omega)) ?_ ?_ ?_
  · intro i hi
    have hm := List.mem_range'_1.1 hi
    obtain ⟨p, hp⟩ := hfb.prime_at (i := i) (by omega)
    simp only [hp, Option.getD_some]
    exact pair_slot_le hcur (by omega) (by omega) hp
  · intro i hi hg
    have hm := List.mem_range'_1.1 hi
    obtain ⟨p, hp⟩ := hfb.prime_at (i := i) (by omega)
    simp only [hp, Option.getD_some]
    exact hps i p (by omega) (by omega) hp hg
  · intro i hi j hj hij
    have hmi := List.mem_range'_1.1 hi
    have hmj := List.mem_range'_1.1 hj
    obtain ⟨p, hp⟩ := hfb.prime_at (i := i) (by omega)
    obtain ⟨q, hq⟩ := hfb.prime_at (i := j) (by omega)
    simp only [hp, hq, Option.getD_some] at hij
    subst hij
    by_contra hne
    rcases Nat.lt_or_gt_of_ne hne with h | h
    · exact absurd (hfb.sorted i j p p h hp hq) (lt_irrefl _)
    · exact absurd (hfb.sorted j i p p h hq hp) (lt_irrefl _)

end Cover

/-- what cursor slot `k` adds at position `x` of block `B`, in terms of the ROOTS given to `Sieve::new`: slot `2i`
belongs to root `r1[i]`, slot `2i+1` to `r2[i]` and exists only when the two roots differ; the slot adds the bit
length of its prime exactly when `B·32768 + x ≡ root (mod p)`. -/
def rootF (fb : FB) (r1 r2 : Array Nat) (B x k : Nat) : Nat :=
  match fb.primes[k / 2]?, r1[k / 2]?, r2[k / 2]? with
  | some p, some o1, some o2 =>
    if (k % 2 = 0 ∨ o1 ≠ o2) ∧ (B * BLOCK + x) % p = (if k % 2 = 0 then o1 else o2) then bitlen p else 0
  | _, _, _ => 0

theorem slotF_eq_rootF {fb : FB} {r1 r2 : Array Nat} {idxskip nS B : Nat} {loPrev : Array Nat}
    (hfb : fb.WF) (hnS : fb.ibl[16]? = some nS)
    (hcur : CurInv fb r1 r2 idxskip nS B loPrev) {x k : Nat} (hk : k < 2 * nS) (hge : idxskip ≤ k) :
    slotF fb loPrev x k = rootF fb r1 r2 B x k := by
  obtain ⟨p, o1, o2, hp, h1, h2, hif⟩ := hcur.2 k hk
  have hps := prime_small hfb hnS hk hp
  unfold slotF rootF
  simp only [hp, h1, h2]
  by_cases hl : k % 2 = 0 ∨ o1 ≠ o2
  · rw [if_pos hl] at hif
    obtain ⟨c, hc, hlt, hinv⟩ := hif
    simp only [hc]
    have hcn : c ≠ NONE := by unfold NONE; omega
    have := recover_small (r := x) hlt hinv
    by_cases hx : x % p = c
    · rw [if_pos ⟨hcn, hx⟩, if_pos ⟨hl, this.1 hx⟩]
    · rw [if_neg (fun h => hx h.2), if_neg (fun h => hx (this.2 h.2))]
  · rw [if_neg hl] at hif
    have hc := hif hge
    simp only [hc]
    rw [if_neg (fun h => h.1 rfl), if_neg (fun h => hl h.1)]

end Ymq.SieveLog
