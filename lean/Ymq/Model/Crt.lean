/-
Model of the residue number system `MultiZmodP` of src/arith_fft.rs (property C10): the tables
built by `MultiZmodP::new` (except the roots of unity), `from_mint`, `_crt` with the three
precision branches of its quotient estimate, and `redc`.

Level of detail
* `u64`/`u128` values are `Nat`s; every checked-profile panic site (overflow of `+`, `*`, `-`,
  index and slice ranges, `assert!`, `debug_assert!`, `unwrap`) is `none`; `<<` on a `u64` drops
  the high bits (`% 2^64`) exactly as Rust does;
* `mg_mul64`/`mg_redc` are the word-exact models of property C07 (Ymq/Model/Mg64.lean);
* bnum `U1024`/`U2048` operators (`*`, `%`, `-`, `+=`, `bits`, `digits`) are the mathematical `Nat`
  operations; `arith::inv_mod64` (property C08) is the mathematical modular inverse;
* the prime table and the prologue of `new` (`w`, its asserts) come from the regenerated
  `Ymq.Gen.Params` (`NTT_PRIME_VALUES`, `arith_fft.mzp_w`);
* `zn.redc` (property C07, `redc_spec`) is exact: `x / R mod n` for `x < n·R`, `none` outside.
No Mathlib import: this file is linked into the native driver.
-/
import Ymq.Model.Mg64
import Ymq.Model.PolySpec
import Ymq.Gen.Params

namespace Ymq.Crt
open Ymq.Mg64 (W mgMul mgRedc)
open Ymq.Checked (bitlen)

structure Mzp where
  n : Nat
  /-- `zn.words()` -/
  kw : Nat
  w : Nat
  /-- `logsize` -/
  k : Nat
  primes : List Nat
  /-- `rpowers[i][j] = R^(j+1) mod p_i`, `R = 2^64`, `j ≤ w + 1` -/
  rpowers : List (List Nat)
  /-- `(P/p_i)⁻¹ mod p_i` -/
  crtPinv : List Nat
  /-- `P/p_i` -/
  crtP : List Nat
  pprod : Nat
  plen : Nat
  /-- `P/p_i mod n` -/
  crtPModn : List Nat
  /-- `-j·P mod n`, `j < max 2 w` -/
  pprodsModn : List Nat
deriving Repr

/-- `mg_mul64(p, x, y) = mg_mul(p, p - 2, x, y)` -/
def mgMul64 (p x y : Nat) : Option Nat := mgMul p (p - 2) x y

/-- digit `j` (64-bit word) of a bnum integer -/
def dig (x j : Nat) : Nat := x / W ^ j % W

def iterM {α} (f : α → Option α) : Nat → α → List α → Option (List α)
  | 0, _, acc => some acc.reverse
  | c + 1, a, acc =>
    match f a with
    | none => none
    | some b => iterM f c b (b :: acc)

/-- `rpowers[i]` for the prime `pi`: `[r, r2, R^3, …]` (`w + 2` entries) -/
def rpowersOf (w pi : Nat) : Option (List Nat) :=
  let r := W % pi
  let r2 := r * r % pi
  (iterM (fun rj => mgMul64 pi rj r2) w r2 []).map fun l => r :: r2 :: l

def prodExcept (ps : List Nat) (i : Nat) : Nat :=
  ((List.range ps.length).filter (· ≠ i)).foldl (fun m j => m * ps.getD j 1) 1

/-- multiples `0, -P, -2P, … mod n` as built by the `for _ in 2..w` loop -/
def pprodsLoop (n pm : Nat) : Nat → Nat → List Nat → List Nat
  | 0, _, acc => acc.reverse
  | c + 1, pk, acc =>
    let pk' := if pk + pm ≥ n then pk + pm - n else pk + pm
    pprodsLoop n pm c pk' (pk' :: acc)

/-- `pprod_modn = n - pprod % n`, replaced by zero when it equals `n` -/
def pprodModn (n pprod : Nat) : Nat := if n - pprod % n = n then 0 else n - pprod % n

/-- `MultiZmodP::new(zn, logsize)` without the roots of unity -/
def new (n logsize : Nat) : Option Mzp :=
  let nbits := bitlen n
  match Ymq.Gen.Params.arith_fft.mzp_w nbits logsize with
  | none => none
  | some w =>
    let primes := Ymq.Gen.Params.NTT_PRIME_VALUES.take w
    match primes.mapM (rpowersOf w) with
    | none => none
    | some rpowers =>
      if nbits > 1024 then none
      else
        let crtP := (List.range w).map (prodExcept primes)
        match (List.range w).mapM (fun i =>
            Ymq.PolySpec.invMod (prodExcept primes i % primes.getD i 1) (primes.getD i 1)) with
        | none => none                                             -- inv_mod64(..).unwrap()
        | some crtPinv =>
          let pprod := primes.foldl (· * ·) 1
          if bitlen pprod < 2 * nbits + logsize then none          -- assert!(pprod.bits() >= ..)
          else
            let pm := pprodModn n pprod
            some {
              n := n, kw := (nbits + 63) / 64, w := w, k := logsize, primes := primes,
              rpowers := rpowers, crtPinv := crtPinv, crtP := crtP, pprod := pprod,
              plen := (bitlen pprod + 63) / 64,
              crtPModn := crtP.map (· % n),
              pprodsModn := 0 :: pm :: pprodsLoop n pm (w - 2) pm [] }

/-- `zi += x[j] as u128 * ri[j + 1] as u128` for `j = j' + 1` (overflow checked) -/
def fromMintStep (ri x : List Nat) (z j' : Nat) : Option Nat :=
  match ri[j' + 2]? with
  | none => none
  | some rij =>
    let t := z + x.getD (j' + 1) 0 * rij
    if t ≥ 2 ^ 128 then none else some t

/-- residue `i` of `from_mint` -/
def fromMint1 (m : Mzp) (x : List Nat) (i : Nat) : Option Nat :=
  match m.primes[i]?, m.rpowers[i]? with
  | some pi, some ri =>
    match ri[1]?, ri[0]? with
    | some r1, some r =>
      match (List.range (m.kw - 1)).foldlM (fromMintStep ri x) (x.getD 0 0 * r1) with
      | none => none
      | some zi =>
        let z2 := zi / W * r + zi % W
        if z2 ≥ 2 ^ 128 then none else mgRedc pi (pi - 2) z2
    | _, _ => none
  | _, _ => none

/-- `from_mint(z, x)`: the residues (Montgomery form modulo each prime) of the 8-word value `x` -/
def fromMint (m : Mzp) (x : List Nat) : Option (List Nat) :=
  if m.kw > 8 then none                                            -- assert!(sz <= 8)
  else if m.kw < x.length ∧ x.getD m.kw 0 ≠ 0 then none            -- debug_assert!
  else (List.range m.w).mapM (fromMint1 m x)

/-- one term of the 128-bit sum `top += xs[i] as u128 * (crti + 1) as u128` (overflow checked) -/
def sumTopStep (xs crtP : List Nat) (f : Nat → Option Nat) (top i : Nat) : Option Nat :=
  match f (crtP.getD i 0) with
  | none => none
  | some c =>
    let t := top + xs.getD i 0 * c
    if t ≥ 2 ^ 128 then none else some t

/-- `top = Σ_i xs[i]·f(crt_p[i])` -/
def sumTop (m : Mzp) (xs : List Nat) (f : Nat → Option Nat) : Option Nat :=
  (List.range m.w).foldlM (sumTopStep xs m.crtP f) 0

/-- the three branches of the quotient estimate of `_crt`; `xs[i] = x_i·(P/p_i)⁻¹ mod p_i` -/
def qEstimate (m : Mzp) (xs : List Nat) : Option Nat :=
  let plen := m.plen
  if plen < 2 ∨ dig m.pprod plen ≠ 0 then none                     -- debug_assert!
  else
    let hi := dig m.pprod (plen - 1)
    let lo := dig m.pprod (plen - 2)
    let ptop := hi * W + lo
    if hi ≥ 2 ^ 56 then
      -- 0. P/p_i has bits in word [plen-1]
      match sumTop m xs (fun crt =>
          let crti := dig crt (plen - 1) * 2 ^ 32 % W + dig crt (plen - 2) / 2 ^ 32
          if crti + 1 ≥ W then none else some (crti + 1)) with
      | none => none
      | some top =>
        let d := ptop / 2 ^ 96 % W
        if d = 0 then none else some (top / W % W / d)
    else if hi ≥ 2 ^ 8 then
      -- 1. top word only
      match sumTop m xs (fun crt => some (dig crt (plen - 2) + 1)) with
      | none => none
      | some top => if hi = 0 then none else some (top / W % W / hi)
    else
      -- 2. shift left by 32 bits
      if plen < 3 then none                                        -- crt[plen - 3]
      else
        match sumTop m xs (fun crt =>
            let crti := dig crt (plen - 2) * 2 ^ 32 % W + dig crt (plen - 3) / 2 ^ 32
            if crti + 1 ≥ W then none else some (crti + 1)) with
        | none => none
        | some top =>
          let d := ptop / 2 ^ 32 % W
          if d = 0 then none else some (top / W % W / d)

/-- column loop of `_crt`: `z = carry + qp[i] + Σ_j xs[j]·crt_p_modn[j][i]` -/
def crtColumns (m : Mzp) (xs : List Nat) (qp : Nat) : Nat → Nat → Nat → List Nat → Option (List Nat × Nat)
  | 0, _, carry, acc => some (acc.reverse, carry)
  | c + 1, i, carry, acc =>
    match (List.range m.w).foldlM (fun z j =>
        let t := z + xs.getD j 0 * dig (m.crtPModn.getD j 0) i
        if t ≥ 2 ^ 128 then none else some t) (carry + dig qp i) with
    | none => none
    | some z => crtColumns m xs qp c (i + 1) (z / W) (z % W :: acc)

/-- `_crt(res, x)`: the `kw + 1` low words written to `res` -/
def crt (m : Mzp) (x : List Nat) : Option (List Nat) :=
  if x.length ≠ m.w then none                                      -- debug_assert!
  else if m.w = 1 then
    match m.primes[0]? with
    | none => none
    | some pi => (mgRedc pi (pi - 2) (x.getD 0 0)).map fun v => v :: List.replicate m.kw 0
  else
    match (List.range m.w).mapM (fun i =>
        mgMul64 (m.primes.getD i 0) (x.getD i 0) (m.crtPinv.getD i 0)) with
    | none => none
    | some xs =>
      match qEstimate m xs with
      | none => none
      | some q =>
        match m.pprodsModn[q]? with
        | none => none                                             -- pprods_modn[q as usize]
        | some qp =>
          match crtColumns m xs qp (m.kw + 1) 0 0 [] with
          | none => none
          | some (ws, carry) => if carry ≠ 0 then none else some ws   -- assert!(carry == 0)

def valWords : List Nat → Nat
  | [] => 0
  | a :: as => a + W * valWords as

/-- `MultiZmodP::redc(x) = zn.redc(_crt(x))`: `T / R mod n` (`rinv·R ≡ 1 mod n`, `R = W^kw`) -/
def redc (m : Mzp) (rinv : Nat) (x : List Nat) : Option Nat :=
  match crt m x with
  | none => none
  | some ws =>
    let t := valWords ws
    if t < m.n * W ^ m.kw then some (t * rinv % m.n) else none

end Ymq.Crt
