/-
Lemmas for the mechanism model of `_middlemul` (Ymq/Model/PolySeries.lean, property C10): the NTT
middle product has no wrap-around on the extracted slice, the `2^k + 1` shortcut with its edge
terms, the Hanrot–Quercia–Zimmermann recombination as a polynomial identity (`hqz`), and the
theorem `middlemul_spec`; `middleSpec_holds` discharges the hypothesis of the Newton theorems.
-/
import Ymq.Lemmas.PolySeries

namespace Ymq.PolyMul
open Polynomial Finset

variable {α : Type} {R : Type} [CommRing R]

theorem isPow2_spec {x : Nat} (h : isPow2 x = true) : x ≠ 0 ∧ x = 2 ^ x.log2 := by
  unfold isPow2 at h
  simp only [Bool.and_eq_true, decide_eq_true_eq, beq_iff_eq, ne_eq] at h
  exact h

/-- `_fft_midmul`: coefficients `n-1 …` of the cyclic product of length `2n` are those of the plain
product (the wrap-around terms vanish) -/
theorem fftMidmul_spec {o : Ops α} {φ : α → R} (h : Hom o φ) (k zlen : Nat) (p q : List α)
    (hpow : isPow2 q.length = true) (hp : p.length = 2 * q.length - 1) (hk : 2 * q.length ≤ 2 ^ k) :
    ∃ z', fftMidmul k o zlen p q = some z' ∧ z'.length = zlen ∧
      ∀ t, t < zlen → t < q.length →
        φ (z'.getD t o.zero) = (poly (p.map φ) * poly (q.map φ)).coeff (q.length - 1 + t) := by
  obtain ⟨hn0, hn⟩ := isPow2_spec hpow
  unfold fftMidmul
  rw [hpow]
  simp only [Bool.not_true, Bool.false_eq_true, if_false]
  rw [if_neg (by omega)]
  have hklog : ¬ k < q.length.log2 + 1 := by
    intro hcon
    have : 2 ^ k ≤ 2 ^ q.length.log2 := Nat.pow_le_pow_right (by decide) (by omega)
    rw [← hn] at this
    omega
  rw [if_neg hklog]
  refine ⟨_, rfl, by simp, ?_⟩
  intro t ht htn
  rw [getD_range_map _ _ _ _ ht, if_pos (by omega)]
  unfold cycCoefO
  rw [dot_hom h, coeff_poly_mul]
  simp only [getD_map_hom h]
  set n := q.length with hnn
  set i := n - 1 + t with hi
  have hisz : i < 2 * n := by omega
  rw [← Finset.sum_subset (Finset.range_subset_range.2 (by omega : i + 1 ≤ 2 * n))]
  · apply Finset.sum_congr rfl
    intro a ha
    have ha' : a ≤ i := by simp at ha; omega
    rw [Ymq.Kronecker.sub_mod_cases i a (2 * n) hisz (by omega), if_pos ha']
  · intro a ha hna
    have ha1 : a < 2 * n := by simpa using ha
    have ha2 : i < a := by simp at hna; omega
    rw [Ymq.Kronecker.sub_mod_cases i a (2 * n) hisz ha1, if_neg (by omega),
      getD_ge q _ _ (by omega), h.zero, mul_zero]


/-- a product of polynomials vanishing from `da` resp. `db` on vanishes from `da + db - 1` on -/
theorem coeff_mul_vanish (A B : R[X]) (da db k : Nat) (hA : ∀ j, da ≤ j → A.coeff j = 0)
    (hB : ∀ j, db ≤ j → B.coeff j = 0) (hk : da + db ≤ k + 1) : (A * B).coeff k = 0 := by
  rw [coeff_mul]
  apply Finset.sum_eq_zero
  intro x hx
  have hs : x.1 + x.2 = k := Finset.mem_antidiagonal.1 hx
  by_cases h1 : da ≤ x.1
  · rw [hA _ h1, zero_mul]
  · rw [hB _ (by omega), mul_zero]

theorem coeff_shift (A : R[X]) (m d e : Nat) (hd : d = m + e) : (X ^ m * A).coeff d = A.coeff e := by
  rw [coeff_X_pow_mul', if_pos (by omega)]; congr 1; omega

/-- **The Hanrot–Quercia–Zimmermann recombination.** `P = Plow + x^u·D = P2 + x^(2u)·D2`,
`Q = Q0 + x^h·Q1` (`deg Plow < u`, `deg P2 < 2u`, `deg Q0 < h`, `deg Q1 < u`, `1 ≤ h ≤ u`). With
`a = MP((P + D), Q1)`, `b = MP(D, Q1 - x^(u-h)·Q0)`, `c = MP(D + D2, Q0)` (coefficients
`u-1+i` resp. `h-1+i`), the middle coefficients of `P·Q` are `a - b` and `c + b`. -/
theorem hqz (P Plow D P2 D2 Q0 Q1 : R[X]) (u h : Nat) (hh : 1 ≤ h) (hhu : h ≤ u)
    (eP : P = Plow + X ^ u * D) (eP2 : P = P2 + X ^ (2 * u) * D2)
    (vPlow : ∀ j, u ≤ j → Plow.coeff j = 0) (vP2 : ∀ j, 2 * u ≤ j → P2.coeff j = 0)
    (vQ0 : ∀ j, h ≤ j → Q0.coeff j = 0) (vQ1 : ∀ j, u ≤ j → Q1.coeff j = 0) :
    (∀ i, i < u → (P * (Q0 + X ^ h * Q1)).coeff (u + h - 1 + i) =
      ((P + D) * Q1).coeff (u - 1 + i) - (D * (Q1 - X ^ (u - h) * Q0)).coeff (u - 1 + i)) ∧
    (∀ i, i < h → (P * (Q0 + X ^ h * Q1)).coeff (u + h - 1 + (u + i)) =
      ((D + D2) * Q0).coeff (h - 1 + i) + (D * (Q1 - X ^ (u - h) * Q0)).coeff (u - 1 + i)) := by
  have eb : ∀ i, (D * (Q1 - X ^ (u - h) * Q0)).coeff (u - 1 + i) =
      (D * Q1).coeff (u - 1 + i) - (D * Q0).coeff (h - 1 + i) := by
    intro i
    have : D * (Q1 - X ^ (u - h) * Q0) = D * Q1 - X ^ (u - h) * (D * Q0) := by ring
    rw [this, coeff_sub, coeff_shift (D * Q0) (u - h) (u - 1 + i) (h - 1 + i) (by omega)]
  constructor
  · intro i hi
    have e1 : P * (Q0 + X ^ h * Q1) = Plow * Q0 + X ^ u * (D * Q0) + X ^ h * (P * Q1) := by
      rw [eP]; ring
    rw [e1, coeff_add, coeff_add, coeff_mul_vanish Plow Q0 u h _ vPlow vQ0 (by omega),
      coeff_shift (D * Q0) u _ (h - 1 + i) (by omega), coeff_shift (P * Q1) h _ (u - 1 + i) (by omega),
      eb i, add_mul, coeff_add]
    ring
  · intro i hi
    have e1 : P * (Q0 + X ^ h * Q1) = P2 * Q0 + X ^ (2 * u) * (D2 * Q0) +
        X ^ h * (Plow * Q1) + X ^ (h + u) * (D * Q1) := by
      conv_lhs => rw [mul_add, eP2]
      rw [pow_add]
      have : X ^ h * ((P2 + X ^ (2 * u) * D2) * Q1) = X ^ h * (P * Q1) := by rw [← eP2]
      rw [mul_comm (P2 + X ^ (2 * u) * D2) (X ^ h * Q1), mul_assoc, mul_comm Q1, this, eP]
      ring
    rw [e1, coeff_add, coeff_add, coeff_add, coeff_mul_vanish P2 Q0 (2 * u) h _ vP2 vQ0 (by omega),
      coeff_shift (D2 * Q0) (2 * u) _ (h - 1 + i) (by omega),
      coeff_shift (Plow * Q1) h _ (2 * u - 1 + i) (by omega),
      coeff_mul_vanish Plow Q1 u u _ vPlow vQ1 (by omega),
      coeff_shift (D * Q1) (h + u) _ (u - 1 + i) (by omega), eb i, add_mul, coeff_add]
    ring


theorem mmMode_cases (c : Ctx) (n : Nat) :
    (mmMode c n = (0, 0)) ∨
    (∃ k, mmMode c n = (1, k) ∧ c.mzp = some k ∧ isPow2 n = true) ∨
    (∃ k, mmMode c n = (2, k) ∧ c.mzp = some k ∧ isPow2 (n - 1) = true ∧ 28 ≤ n) := by
  unfold mmMode
  cases hm : c.mzp with
  | none => left; rfl
  | some k =>
    simp only
    split_ifs with h1 h2 h3
    · right; left; exact ⟨k, rfl, rfl, h2⟩
    · right; right; exact ⟨k, rfl, rfl, h3, h1⟩
    · left; rfl
    · left; rfl

theorem edgeSum_hom {o : Ops α} {φ : α → R} (h : Hom o φ) (p q : List α) (n : Nat) :
    φ (edgeSum o p q n) = (poly (p.map φ) * poly (q.map φ)).coeff n := by
  rw [coeff_poly_mul, Finset.sum_range_succ']
  simp only [getD_map_hom h, Nat.sub_zero]
  unfold edgeSum
  have : ∀ m, φ ((List.range m).foldl (fun acc i => o.add acc (o.mul (p.getD (i + 1) o.zero)
      (q.getD (n - (i + 1)) o.zero))) (o.mul (p.getD 0 o.zero) (q.getD n o.zero))) =
      ∑ i ∈ range m, φ (p.getD (i + 1) o.zero) * φ (q.getD (n - (i + 1)) o.zero) +
        φ (p.getD 0 o.zero) * φ (q.getD n o.zero) := by
    intro m
    induction m with
    | zero => simp [h.mul]
    | succ m ih =>
      rw [List.range_succ, List.foldl_append, sum_range_succ]
      simp only [List.foldl_cons, List.foldl_nil]
      rw [h.add, h.mul, ih]; ring
  exact this n

/-- `|q|` a power of two: the NTT middle product -/
theorem mm_pow2 {o : Ops α} {φ : α → R} (h : Hom o φ) (k zlen : Nat) (p q : List α)
    (hpow : isPow2 q.length = true) (hp : p.length = 2 * q.length - 1) (hz : q.length ≤ zlen)
    (hk : 2 * q.length ≤ 2 ^ k) :
    ∃ m, (fftMidmul k o zlen p q).map (·.take q.length) = some m ∧ m.length = q.length ∧
      ∀ i, i < q.length → φ (m.getD i o.zero) = (poly (p.map φ) * poly (q.map φ)).coeff (q.length - 1 + i) := by
  obtain ⟨z', e, lz, hz'⟩ := fftMidmul_spec h k zlen p q hpow hp hk
  rw [e]
  refine ⟨z'.take q.length, rfl, by rw [List.length_take]; omega, ?_⟩
  intro i hi
  rw [List.getD_eq_getElem?_getD, List.getElem?_take_of_lt hi, ← List.getD_eq_getElem?_getD]
  exact hz' i (by omega) hi

/-- `|q| - 1` a power of two: NTT middle product of the inner parts plus the edge terms -/
theorem mm_pow2p1 {o : Ops α} {φ : α → R} (h : Hom o φ) (k zlen : Nat) (p0 q0 : α) (prest qrest : List α)
    (hpow : isPow2 qrest.length = true) (hn : 2 ≤ qrest.length)
    (hp : prest.length = 2 * qrest.length) (hz : qrest.length + 1 ≤ zlen) (hk : 2 * qrest.length ≤ 2 ^ k) :
    ∃ z', fftMidmul k o (zlen - 1) (prest.take (2 * qrest.length - 1)) qrest = some z' ∧
      ∀ i, i < qrest.length + 1 →
        φ ((edgeSum o (p0 :: prest) (q0 :: qrest) qrest.length ::
            (List.range qrest.length).map fun t =>
              o.add (z'.getD t o.zero) (o.mul ((p0 :: prest).getD (qrest.length + t + 1) o.zero)
                ((q0 :: qrest).getD 0 o.zero))).getD i o.zero) =
        (poly ((p0 :: prest).map φ) * poly ((q0 :: qrest).map φ)).coeff (qrest.length + i) := by
  set n := qrest.length with hnn
  obtain ⟨z', e, lz, hz'⟩ := fftMidmul_spec h k (zlen - 1) (prest.take (2 * n - 1)) qrest hpow
    (by rw [List.length_take]; omega) hk
  refine ⟨z', e, ?_⟩
  intro i hi
  rcases i with _ | t
  · rw [List.getD_cons_zero, edgeSum_hom h, Nat.add_zero]
  · have ht : t < n := by omega
    rw [List.getD_cons_succ, getD_range_map _ _ _ _ ht, h.add, h.mul, hz' t (by omega) ht,
      List.getD_cons_zero]
    -- expand P = p0 + X·P1, Q = q0 + X·Q1
    have eexp : poly ((p0 :: prest).map φ) * poly ((q0 :: qrest).map φ) =
        C (φ p0 * φ q0) + X * (C (φ p0) * poly (qrest.map φ) + C (φ q0) * poly (prest.map φ) +
          X * (poly (prest.map φ) * poly (qrest.map φ))) := by
      simp only [List.map_cons, poly_cons, map_mul]; ring
    have hidx : n + (t + 1) = (n - 1 + t + 1) + 1 := by omega
    rw [eexp, coeff_add, coeff_C, if_neg (by omega), zero_add, hidx, coeff_X_mul, coeff_add, coeff_add,
      coeff_X_mul, coeff_C_mul, coeff_C_mul]
    have hq0 : (poly (qrest.map φ)).coeff (n - 1 + t + 1) = 0 :=
      natDegree_poly_lt _ _ (by rw [List.length_map]; omega)
    have hp1 : (poly (prest.map φ)).coeff (n - 1 + t + 1) = φ ((p0 :: prest).getD (n + t + 1) o.zero) := by
      rw [coeff_poly, getD_map_hom h, List.getD_cons_succ]
      congr 2; omega
    have hag : (poly ((prest.take (2 * n - 1)).map φ) * poly (qrest.map φ)).coeff (n - 1 + t) =
        (poly (prest.map φ) * poly (qrest.map φ)).coeff (n - 1 + t) := by
      rw [mul_comm, mul_comm (poly (prest.map φ))]
      apply coeff_mul_congr _ _ _ (2 * n - 1) _ _ (by omega)
      intro j hj
      rw [List.map_take, coeff_poly_take, if_pos hj]
    rw [hq0, hp1, hag, mul_zero, zero_add]
    ring


theorem getD_zipWith_sub {o : Ops α} (a b : List α) (i : Nat) (ha : i < a.length) (hb : i < b.length) :
    (List.zipWith o.sub a b).getD i o.zero = o.sub (a.getD i o.zero) (b.getD i o.zero) := by
  simp [List.getD_eq_getElem?_getD, List.getElem?_zipWith, List.getElem?_eq_getElem ha,
    List.getElem?_eq_getElem hb]

theorem getD_append_left' (a b : List α) (i : Nat) (d : α) (hi : i < a.length) :
    (a ++ b).getD i d = a.getD i d := by
  rw [List.getD_eq_getElem?_getD, List.getD_eq_getElem?_getD, List.getElem?_append_left hi]

theorem getD_append_right' (a b : List α) (i : Nat) (d : α) (hi : a.length ≤ i) :
    (a ++ b).getD i d = b.getD (i - a.length) d := by
  rw [List.getD_eq_getElem?_getD, List.getD_eq_getElem?_getD, List.getElem?_append_right hi]

theorem coeff_mul_take_left (l : List R) (B : R[X]) (m k : Nat) (hk : k < m) :
    (poly (l.take m) * B).coeff k = (poly l * B).coeff k := by
  rw [mul_comm, mul_comm (poly l)]
  apply coeff_mul_congr _ _ _ m _ k hk
  intro j hj
  rw [coeff_poly_take, if_pos hj]

theorem coeff0_hom {o : Ops α} {φ : α → R} (h : Hom o φ) (p q : List α) :
    (poly (p.map φ) * poly (q.map φ)).coeff 0 = φ (p.getD 0 o.zero) * φ (q.getD 0 o.zero) := by
  rw [coeff_poly_mul, Finset.sum_range_one]; simp only [getD_map_hom h, Nat.sub_zero]

theorem coeff1_hom {o : Ops α} {φ : α → R} (h : Hom o φ) (p q : List α) :
    (poly (p.map φ) * poly (q.map φ)).coeff 1 =
      φ (p.getD 0 o.zero) * φ (q.getD 1 o.zero) + φ (p.getD 1 o.zero) * φ (q.getD 0 o.zero) := by
  rw [coeff_poly_mul, Finset.sum_range_succ, Finset.sum_range_one]
  simp only [getD_map_hom h, Nat.sub_zero, Nat.sub_self]

theorem coeff2_hom {o : Ops α} {φ : α → R} (h : Hom o φ) (p q : List α) :
    (poly (p.map φ) * poly (q.map φ)).coeff 2 =
      φ (p.getD 0 o.zero) * φ (q.getD 2 o.zero) + φ (p.getD 1 o.zero) * φ (q.getD 1 o.zero) +
        φ (p.getD 2 o.zero) * φ (q.getD 0 o.zero) := by
  rw [coeff_poly_mul, Finset.sum_range_succ, Finset.sum_range_succ, Finset.sum_range_one]
  simp only [getD_map_hom h, Nat.sub_zero, Nat.sub_self]

/-- **`_middlemul` is the middle product**: for `|q| = n ≥ 1` (`n ≤ 2^f`, fuel `f + 1`),
`|p| = 2n - 1`, `|z| ≥ n`, scratch `≥ mmNeed n` and a large enough NTT context, no panic site is
reached and the `n` outputs are the coefficients `n-1 … 2n-2` of `p·q` — through the base cases
`n = 1, 2`, the two NTT shortcuts (`n` resp. `n - 1` a power of two) and the
Hanrot–Quercia–Zimmermann recursion with the code's split `half = ⌊n/2⌋`, its operand slices and its
recombination `a - b`, `c + b`. -/
theorem middlemul_spec {o : Ops α} {φ : α → R} (h : Hom o φ) (c : Ctx) :
    ∀ (f zlen : Nat) (p q : List α) (tmplen : Nat), 1 ≤ q.length → q.length ≤ 2 ^ f →
      p.length = 2 * q.length - 1 → q.length ≤ zlen → mmNeed q.length ≤ tmplen → Fits c q.length →
      ∃ m, middlemul c o (f + 1) zlen p q tmplen = some m ∧ m.length = q.length ∧
        ∀ i, i < q.length →
          φ (m.getD i o.zero) = (poly (p.map φ) * poly (q.map φ)).coeff (q.length - 1 + i) := by
  intro f
  induction f with
  | zero =>
    intro zlen p q tmplen h1 h2 hp hz _ _
    have hn : q.length = 1 := by simp at h2; omega
    unfold middlemul
    rw [if_neg (by omega), if_neg (by omega), if_neg (by omega), if_pos hn]
    refine ⟨_, rfl, by rw [hn]; rfl, ?_⟩
    intro i hi
    have : i = 0 := by omega
    subst this
    rw [hn, show 1 - 1 + 0 = 0 from rfl, coeff0_hom h, List.getD_cons_zero, h.mul]
  | succ f ih =>
    intro zlen p q tmplen h1 h2 hp hz htmp hfit
    unfold middlemul
    rw [if_neg (by omega), if_neg (by omega), if_neg (by omega)]
    by_cases hn1 : q.length = 1
    · rw [if_pos hn1]
      refine ⟨_, rfl, by rw [hn1]; rfl, ?_⟩
      intro i hi
      have : i = 0 := by omega
      subst this
      rw [hn1, show 1 - 1 + 0 = 0 from rfl, coeff0_hom h, List.getD_cons_zero, h.mul]
    · rw [if_neg hn1]
      by_cases hn2 : q.length = 2
      · rw [if_pos hn2]
        refine ⟨_, rfl, by rw [hn2]; rfl, ?_⟩
        intro i hi
        have hq2 : q.getD 2 o.zero = o.zero := getD_ge q 2 _ (by omega)
        have hi' : i = 0 ∨ i = 1 := by omega
        rcases hi' with rfl | rfl
        · rw [hn2, show 2 - 1 + 0 = 1 from rfl, coeff1_hom h, List.getD_cons_zero, h.add, h.mul, h.mul]; ring
        · rw [hn2, show 2 - 1 + 1 = 2 from rfl, coeff2_hom h, List.getD_cons_succ, List.getD_cons_zero, h.add,
            h.mul, h.mul, hq2, h.zero]; ring
      · rw [if_neg hn2]
        set n := q.length with hnn
        have hn3 : 3 ≤ n := by omega
        rcases mmMode_cases c n with h0 | ⟨k, hm, hk, hpow⟩ | ⟨k, hm, hk, hpow, h28⟩
        · -- the recursion
          rw [h0]
          simp only
          have hneed : mmNeed n = max (2 * (2 * n - 1)) (2 * n - 1 + max (mmNeed (n - n / 2)) (mmNeed (n / 2))) := by
            rw [mmNeed, dif_neg (by omega)]
          rw [if_neg (by omega)]
          set hh := n / 2 with hhh
          set u := n - hh with hu
          have hh1 : 1 ≤ hh := by omega
          have hhu : hh ≤ u := by omega
          have hu1 : u ≤ hh + 1 := by omega
          have huh : u + hh = n := by omega
          have hpow2 : 2 ^ (f + 1) = 2 * 2 ^ f := by rw [pow_succ]; ring
          set D := p.drop u with hD
          have lD : D.length = p.length - u := List.length_drop
          set tl := List.zipWith o.add (p.take (p.length - u)) (p.drop u) ++ p.drop (p.length - u) with htl
          have htl' : tl = List.zipWith o.add (p.take D.length) D ++ p.drop D.length := by rw [lD]
          have ptl : poly (tl.map φ) = poly (p.map φ) + poly (D.map φ) := by
            rw [htl']; exact poly_addPrefix h p D (by rw [lD]; omega)
          have ltl : tl.length = p.length := by
            rw [htl]; simp only [List.length_append, List.length_zipWith, List.length_take, List.length_drop]; omega
          set t2 := (q.drop hh).take (u - hh) ++
            List.zipWith o.sub ((q.drop hh).drop (u - hh)) (q.take hh) with ht2
          have lt2 : t2.length = u := by
            rw [ht2]; simp only [List.length_append, List.length_zipWith, List.length_take, List.length_drop]; omega
          have pt2 : poly (t2.map φ) = poly ((q.drop hh).map φ) - X ^ (u - hh) * poly ((q.take hh).map φ) := by
            rw [ht2, List.map_append, poly_append, map_zipWith_sub h, poly_zipWith_sub _ _ (by simp; omega),
              List.length_map, List.length_take, List.length_drop,
              poly_take_drop ((q.drop hh).map φ) (u - hh) (by simp; omega)]
            simp only [List.map_take, List.map_drop]
            rw [Nat.min_eq_left (by omega)]
            ring
          -- the three recursive middle products
          obtain ⟨a, ea, la, ha⟩ := ih u (tl.take (2 * u - 1)) (q.drop hh) (tmplen - p.length)
            (by rw [List.length_drop]; omega) (by rw [List.length_drop]; omega)
            (by rw [List.length_take, List.length_drop, ltl]; omega) (le_of_eq (by rw [List.length_drop]))
            (by rw [List.length_drop]; have : n - hh = u := rfl; rw [this]; omega)
            (by rw [List.length_drop]; exact hfit.mono (by omega))
          obtain ⟨cc, ec, lc, hc⟩ := ih hh ((tl.drop u).take (p.length - 2 * u)) (q.take hh) (tmplen - p.length)
            (by rw [List.length_take]; omega) (by rw [List.length_take]; omega)
            (by rw [List.length_take, List.length_take, List.length_drop, ltl]; omega)
            (by rw [List.length_take]; omega)
            (by rw [List.length_take, Nat.min_eq_left (by omega)]; omega)
            (by rw [List.length_take]; exact hfit.mono (by omega))
          obtain ⟨b, eb, lb, hb⟩ := ih u ((p.drop u).take (2 * u - 1)) t2 (tmplen - p.length)
            (by rw [lt2]; omega) (by rw [lt2]; omega)
            (by rw [List.length_take, List.length_drop, lt2]; omega) (by rw [lt2]) (by rw [lt2]; omega)
            (by rw [lt2]; exact hfit.mono (by omega))
          rw [ea, ec, eb]
          simp only
          rw [List.length_drop] at la ha
          rw [List.length_take, Nat.min_eq_left (by omega)] at lc hc
          rw [lt2] at lb hb
          have hnu : n - hh = u := rfl
          rw [hnu] at la ha
          refine ⟨_, rfl, ?_, ?_⟩
          · simp only [List.length_append, List.length_zipWith, List.length_take, la, lb, lc]; omega
          · -- HQZ
            set P := poly (p.map φ) with hP
            set Dp := poly (D.map φ) with hDp
            set Q0 := poly ((q.take hh).map φ) with hQ0
            set Q1 := poly ((q.drop hh).map φ) with hQ1
            have eQ : poly (q.map φ) = Q0 + X ^ hh * Q1 := by
              rw [poly_take_drop (q.map φ) hh (by rw [List.length_map]; omega), hQ0, hQ1]
              simp only [List.map_take, List.map_drop]
            obtain ⟨H1, H2⟩ := hqz P (poly ((p.take u).map φ)) Dp (poly ((p.take (2 * u)).map φ))
              (poly ((p.drop (2 * u)).map φ)) Q0 Q1 u hh hh1 hhu
              (by rw [hP, poly_take_drop (p.map φ) u (by rw [List.length_map]; omega)]
                  simp only [List.map_take, List.map_drop, hDp, hD])
              (by rw [hP, poly_take_drop (p.map φ) (2 * u) (by rw [List.length_map]; omega)]
                  simp only [List.map_take, List.map_drop])
              (fun j hj => natDegree_poly_lt _ _ (by rw [List.length_map, List.length_take]; omega))
              (fun j hj => natDegree_poly_lt _ _ (by rw [List.length_map, List.length_take]; omega))
              (fun j hj => natDegree_poly_lt _ _ (by rw [List.length_map, List.length_take]; omega))
              (fun j hj => natDegree_poly_lt _ _ (by rw [List.length_map, List.length_drop]; omega))
            -- the operands of the three products, up to truncation
            have ha' : ∀ i, i < u → φ (a.getD i o.zero) = ((P + Dp) * Q1).coeff (u - 1 + i) := by
              intro i hi
              rw [ha i hi, List.map_take, coeff_mul_take_left _ _ _ _ (by omega), ptl]
            have hb' : ∀ i, i < u → φ (b.getD i o.zero) =
                (Dp * (Q1 - X ^ (u - hh) * Q0)).coeff (u - 1 + i) := by
              intro i hi
              rw [hb i hi, List.map_take, coeff_mul_take_left _ _ _ _ (by omega), pt2]
            have hc' : ∀ i, i < hh → φ (cc.getD i o.zero) =
                ((Dp + poly ((p.drop (2 * u)).map φ)) * Q0).coeff (hh - 1 + i) := by
              intro i hi
              rw [hc i hi, List.map_take, coeff_mul_take_left _ _ _ _ (by omega)]
              have : poly ((tl.drop u).map φ) = Dp + poly ((p.drop (2 * u)).map φ) := by
                ext j
                rw [List.map_drop, coeff_poly_drop, ptl, coeff_add, coeff_add, hDp, hD, List.map_drop,
                  List.map_drop, coeff_poly_drop, coeff_poly_drop, coeff_poly_drop]
                congr 2; omega
              rw [this]
            intro i hi
            rw [eQ]
            have hnn1 : n - 1 + i = u + hh - 1 + i := by omega
            rcases Nat.lt_or_ge i u with hiu | hiu
            · rw [getD_append_left' _ _ _ _ (by rw [List.length_zipWith, la, lb]; omega),
                getD_zipWith_sub _ _ _ (by omega) (by omega), h.sub, ha' i hiu, hb' i hiu, hnn1, H1 i hiu]
            · obtain ⟨i', rfl⟩ : ∃ i', i = u + i' := ⟨i - u, by omega⟩
              have hi' : i' < hh := by omega
              rw [getD_append_right' _ _ _ _ (by rw [List.length_zipWith, la, lb]; omega),
                List.length_zipWith, la, lb, Nat.min_self, Nat.add_sub_cancel_left,
                getD_zipWith_add _ _ _ (by omega) (by rw [List.length_take]; omega), h.add, hc' i' hi']
              have hbt : (b.take hh).getD i' o.zero = b.getD i' o.zero := by
                rw [List.getD_eq_getElem?_getD, List.getElem?_take_of_lt hi', ← List.getD_eq_getElem?_getD]
              rw [hbt, hb' i' (by omega), hnn1, H2 i' hi']
        · -- NTT, |q| a power of two
          rw [hm]
          simp only
          exact mm_pow2 h k zlen p q hpow hp hz (hfit k hk)
        · -- NTT, |q| - 1 a power of two
          rw [hm]
          simp only
          obtain ⟨p0, prest, rfl⟩ : ∃ p0 prest, p = p0 :: prest :=
            List.exists_cons_of_ne_nil (by intro hpe; rw [hpe] at hp; simp at hp; omega)
          obtain ⟨q0, qrest, hqe⟩ : ∃ q0 qrest, q = q0 :: qrest :=
            List.exists_cons_of_ne_nil (by intro hqe; rw [hqe] at hnn; simp at hnn; omega)
          have hqn : qrest.length + 1 = n := by rw [hnn, hqe]; rfl
          have hn1' : n - 1 = qrest.length := by omega
          rw [hn1'] at hpow
          obtain ⟨z', ez, hz'⟩ := mm_pow2p1 h k zlen p0 q0 prest qrest hpow (by omega)
            (by simp at hp; omega) (by omega) (by have := hfit k hk; omega)
          rw [hqe]
          simp only [List.drop_succ_cons, List.drop_zero, hn1']
          rw [ez]
          simp only
          refine ⟨_, rfl, by simp; omega, ?_⟩
          intro i hi
          rw [hz' i (by omega), ← hqe]


/-- `_middlemul` meets the specification the series routines rely on -/
theorem middleSpec_holds {o : Ops α} {φ : α → R} (h : Hom o φ) (c : Ctx) : MiddleSpec c o φ := by
  intro zlen p q tmplen h1 h62 hp hz htmp hfit
  exact middlemul_spec h c 63 zlen p q tmplen h1
    (le_trans h62 (Nat.pow_le_pow_right (by decide) (by decide))) hp hz htmp hfit

theorem mmNeed_depth : ∀ (d n : Nat), n ≤ 2 ^ (d + 1) → mmNeed n ≤ 4 * n + d := by
  intro d
  induction d with
  | zero => intro n hn; rw [mmNeed_small n (by simpa using hn)]; omega
  | succ d ih =>
    intro n hn
    rcases Nat.lt_or_ge n 3 with h3 | h3
    · rw [mmNeed_small n (by omega)]; omega
    · rw [mmNeed, dif_neg (by omega)]
      have hpow : 2 ^ (d + 1 + 1) = 2 * 2 ^ (d + 1) := by rw [pow_succ]; ring
      have h1 := ih (n - n / 2) (by omega)
      have h2 := ih (n / 2) (by omega)
      omega

/-- **`Poly::middlemul(p, q)`** (scratch `2·|p| + 16`) for `1 ≤ |q| ≤ 2^15`, `|p| = 2|q| - 1` -/
theorem middlemulPub_spec {o : Ops α} {φ : α → R} (h : Hom o φ) (c : Ctx) (p q : List α)
    (h1 : 1 ≤ q.length) (h2 : q.length ≤ 2 ^ 15) (hp : p.length = 2 * q.length - 1) (hfit : Fits c q.length) :
    ∃ m, middlemulPub c o p q = some m ∧ m.length = q.length ∧
      ∀ i, i < q.length → φ (m.getD i o.zero) = (poly (p.map φ) * poly (q.map φ)).coeff (q.length - 1 + i) := by
  unfold middlemulPub
  rw [if_neg (by omega), if_neg (by omega)]
  exact middlemul_spec h c 63 q.length p q (2 * p.length + 16) h1
    (le_trans h2 (Nat.pow_le_pow_right (by decide) (by decide))) hp (le_refl _)
    (by have := mmNeed_depth 14 q.length (by simpa using h2); omega) hfit

end Ymq.PolyMul
