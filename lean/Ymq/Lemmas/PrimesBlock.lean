/-
Correctness of one `PrimeSieve::next` step (C17): with the offsets of block `b` (for every small
prime `p` the least `o` with `p ∣ 65536·b + o`), the marking loops mark exactly the multiples of
the small primes inside the block and leave the offsets of block `b + 1`.
-/
import Ymq.Lemmas.PrimesSieve

namespace Ymq.Primes

/-- least `o` with `p ∣ 65536·b + o` -/
def off (b p : Nat) : Nat := (p - 65536 * b % p) % p

theorem offsetsAt_eq (smalls : List Nat) (b : Nat) : offsetsAt smalls b = smalls.map (off b) := rfl

theorem off_lt (b p : Nat) (hp : 0 < p) : off b p < p := Nat.mod_lt _ hp

theorem off_dvd (b p : Nat) (hp : 0 < p) : (65536 * b + off b p) % p = 0 := by
  unfold off
  have hc : 65536 * b % p < p := Nat.mod_lt _ hp
  rw [Nat.add_mod]
  by_cases h0 : 65536 * b % p = 0
  · rw [h0]; simp
  · have e : (p - 65536 * b % p) % p = p - 65536 * b % p := Nat.mod_eq_of_lt (by omega)
    have : 65536 * b % p + (p - 65536 * b % p) = p := by omega
    rw [Nat.mod_mod, e, this, Nat.mod_self]

/-- residues: if `o < p` and `p ∣ x + o` then `p ∣ x + i` iff `i = o + t·p` for some `t` -/
theorem dvd_add_iff_progression (x o i p : Nat) (hp : 0 < p) (ho : o < p)
    (hx : (x + o) % p = 0) : (x + i) % p = 0 ↔ ∃ t, i = o + t * p := by
  have hc : x % p < p := Nat.mod_lt _ hp
  have hr : i % p < p := Nat.mod_lt _ hp
  have key : ∀ y, y < p → ((x + y) % p = 0 ↔ (x % p + y = 0 ∨ x % p + y = p)) := by
    intro y hy
    rw [Nat.add_mod, Nat.mod_eq_of_lt hy]
    by_cases hlt : x % p + y < p
    · rw [Nat.mod_eq_of_lt hlt]; omega
    · rw [Nat.mod_eq_sub_mod (by omega), Nat.mod_eq_of_lt (by omega)]; omega
  have h1 := (key o ho).mp hx
  have h2 : (x + i) % p = 0 ↔ (x % p + i % p = 0 ∨ x % p + i % p = p) := by
    rw [← key (i % p) hr, Nat.add_mod x (i % p), Nat.mod_mod, ← Nat.add_mod]
  rw [h2]
  constructor
  · intro h
    have : i % p = o := by omega
    exact ⟨i / p, by rw [← this, Nat.mul_comm]; exact (Nat.mod_add_div i p).symm⟩
  · rintro ⟨t, rfl⟩
    rw [Nat.add_mul_mod_self_right, Nat.mod_eq_of_lt ho]
    exact h1

/-- the offset is determined by being `< p` and making `65536·b + o` a multiple of `p` -/
theorem off_unique (b p o : Nat) (hp : 0 < p) (ho : o < p) (hd : (65536 * b + o) % p = 0) :
    o = off b p := by
  obtain ⟨t, ht⟩ := (dvd_add_iff_progression (65536 * b) (off b p) o p hp (off_lt b p hp)
    (off_dvd b p hp)).mp hd
  obtain ⟨u, hu⟩ := (dvd_add_iff_progression (65536 * b) o (off b p) p hp ho hd).mp
    (off_dvd b p hp)
  have h1 := off_lt b p hp
  cases t with
  | zero => simpa using ht
  | succ t =>
    exfalso
    have : p ≤ (t + 1) * p := Nat.le_mul_of_pos_left p (by omega)
    omega

/-- the offsets with which `PrimeSieve::new` starts are those of block 1 -/
theorem off_init (p : Nat) (hp : 0 < p) : p - 1 - 65535 % p = off 1 p := by
  have hr : 65535 % p < p := Nat.mod_lt _ hp
  apply off_unique 1 p _ hp (by omega)
  have e : 65536 * 1 + (p - 1 - 65535 % p) = (65535 / p + 1) * p := by
    have := Nat.div_add_mod 65535 p
    have e2 : (65535 / p + 1) * p = p * (65535 / p) + p := by ring
    omega
  rw [e, Nat.mul_mod_left]

/-- one small prime: marks the multiples of `p` in block `b`, moves the offset to block `b+1` -/
theorem sievePrime_spec (s : Array Bool) (b p : Nat) (hs : s.size = 65536) (hp : 0 < p)
    (hp16 : p ≤ 65536) :
    let r3 := mark3 s.size s (off b p) p
    let r1 := mark1 r3.1.size r3.1 r3.2 p
    r1.1.size = 65536 ∧
    (∀ i, i < 65536 → (flag r1.1 i = true ↔ (flag s i = true ∨ (65536 * b + i) % p = 0))) ∧
    ¬ r1.2 < 65536 ∧ r1.2 - 65536 = off (b + 1) p := by
  intro r3 r1
  have ho := off_lt b p hp
  have hf3 : s.size ≤ off b p + s.size * (3 * p) := by
    have : s.size * 1 ≤ s.size * (3 * p) := Nat.mul_le_mul_left _ (by omega)
    omega
  obtain ⟨a1, ⟨t3, a2, a3⟩, _, a5⟩ := mark3_spec p hp s.size s (off b p) hf3
  have hf1 : r3.1.size ≤ r3.2 + r3.1.size * p := by
    have : r3.1.size * 1 ≤ r3.1.size * p := Nat.mul_le_mul_left _ hp
    omega
  obtain ⟨b1, b2, b3, b4, _, t1, b6⟩ := mark1_spec p r3.1.size r3.1 r3.2 hf1
  have hsz3 : r3.1.size = 65536 := by rw [← hs]; exact a1
  have hr3lt : r3.2 < 65536 := by rw [← hs]; exact a5 (by rw [hs]; omega)
  have b1' : r1.1.size = r3.1.size := b1
  have b3' : r3.1.size ≤ r1.2 := b3
  have b4' : r3.2 < r3.1.size → r1.2 < r3.1.size + p := b4
  have b6' : r1.2 = r3.2 + t1 * p := b6
  have a2' : r3.2 = off b p + t3 * p := a2
  refine ⟨by rw [b1', hsz3], ?_, by omega, ?_⟩
  · intro i hi
    rw [b2 i (by rw [hsz3]; exact hi), a3 i (by rw [hs]; exact hi),
      dvd_add_iff_progression (65536 * b) (off b p) i p hp ho (off_dvd b p hp)]
    constructor
    · rintro ((h | ⟨u, _, hu⟩) | ⟨t, ht⟩)
      · exact Or.inl h
      · exact Or.inr ⟨u, hu⟩
      · exact Or.inr ⟨t3 + t, by rw [ht, a2']; ring⟩
    · rintro (h | ⟨t, ht⟩)
      · exact Or.inl (Or.inl h)
      · by_cases hlt : t < t3
        · exact Or.inl (Or.inr ⟨t, hlt, ht⟩)
        · refine Or.inr ⟨t - t3, ?_⟩
          rw [a2', ht]
          have : t = t3 + (t - t3) := by omega
          conv_lhs => rw [this]
          ring
  · -- the new offset
    have hlt : r1.2 < 65536 + p := by
      have := b4' (by omega)
      omega
    have hge : 65536 ≤ r1.2 := by omega
    apply off_unique (b + 1) p _ hp (by omega)
    have e : 65536 * (b + 1) + (r1.2 - 65536) = 65536 * b + r1.2 := by omega
    rw [e]
    have e2 : r1.2 = off b p + (t3 + t1) * p := by
      rw [b6', a2']; ring
    rw [(dvd_add_iff_progression (65536 * b) (off b p) r1.2 p hp ho (off_dvd b p hp))]
    exact ⟨t3 + t1, e2⟩

/-- the loop over all small primes -/
theorem sieveStep_spec (b : Nat) :
    ∀ (ps : List Nat) (s : Array Bool), s.size = 65536 → (∀ p ∈ ps, 0 < p ∧ p ≤ 65536) →
      ∃ s', sieveStep s ps (ps.map (off b)) = some (s', ps.map (off (b + 1))) ∧
        s'.size = 65536 ∧
        ∀ i, i < 65536 → (flag s' i = true ↔
          (flag s i = true ∨ ∃ p ∈ ps, (65536 * b + i) % p = 0)) := by
  intro ps
  induction ps with
  | nil =>
    intro s hs _
    exact ⟨s, rfl, hs, fun i _ => by simp⟩
  | cons p ps ih =>
    intro s hs hps
    obtain ⟨hp, hp16⟩ := hps p (by simp)
    obtain ⟨c1, c2, c3, c4⟩ := sievePrime_spec s b p hs hp hp16
    simp only [List.map_cons]
    rw [sieveStep]
    rw [if_neg c3]
    obtain ⟨s', hs', hsz', hfl'⟩ := ih _ c1 (fun q hq => hps q (by simp [hq]))
    rw [hs']
    simp only
    refine ⟨s', by rw [c4], hsz', ?_⟩
    intro i hi
    rw [hfl' i hi, c2 i hi]
    constructor
    · rintro ((h | h) | ⟨q, hq, hqd⟩)
      · exact Or.inl h
      · exact Or.inr ⟨p, by simp, h⟩
      · exact Or.inr ⟨q, by simp [hq], hqd⟩
    · rintro (h | ⟨q, hq, hqd⟩)
      · exact Or.inl (Or.inl h)
      · simp only [List.mem_cons] at hq
        rcases hq with rfl | hq
        · exact Or.inl (Or.inr hqd)
        · exact Or.inr ⟨q, hq, hqd⟩

end Ymq.Primes
