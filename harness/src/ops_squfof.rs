//! squfof::squfof on u64 (C03 / C01: SQUFOF inside the model, lean/Ymq/Model/Squfof.lean).
//!
//!   squfof <n>       -> `none` | `some <a> <b>`   (a panic of the real code answers `panic`:
//!                       main.rs runs every request under catch_unwind)
//!   squfof_seed <n>  -> the f64 seed of squfof::isqrt, `(n as f64).sqrt() as u64`, computed with
//!                       the same expression as squfof.rs:103 (the model takes it as a parameter)
use crate::util::*;

pub fn handle(op: &str, a: &[&str]) -> Option<String> {
    match (op, a) {
        ("squfof", [n]) => Some(match yamaquasi::squfof::squfof(u64_of(n)?) {
            None => "none".to_string(),
            Some((a, b)) => format!("some {} {}", a, b),
        }),
        ("squfof_seed", [n]) => {
            let n = u64_of(n)?;
            Some(((n as f64).sqrt() as u64).to_string())
        }
        _ => None,
    }
}
