/- `reduce64`: the product of the sizes of the two rows of the returned matrix is at most
`(11/12) * 2^70`. Reason: in every column `(p, s)` of the matrix (previous / current cofactor) the
previous entry is at most `2/3` of the current one (nearest-integer quotients), so the last step
`s' = k s -+ p` with `k <= q + 1` gives `|s'| <= (q + 5/3) |s| + 1`, and the matrix-size test that was
passed bounds `(q + 2) * max(|c|, |d|) < 2^36` with `max(|c|, |d|) < 2^34`. -/
import Ymq.Lemmas.GcdRow

namespace Ymq.Gcd

/-- column invariant: ratio previous / current cofactor (`|s| <= 1`: the first steps) -/
def CI (p s : Int) : Prop :=
  (0 < p * s → 2 * |p| ≤ |s|) ∧ (p * s ≤ 0 → 3 * |p| ≤ 2 * |s| ∨ |s| ≤ 1)

theorem Col.small {p s : Int} (h : Col p s) (hs : |s| ≤ 1) : |p| ≤ 1 := by
  rcases h with h | ⟨_, h⟩
  · linarith
  · exact h

theorem ci_floor {p s q : Int} (hq : 2 ≤ q) (hcol : Col p s) (hci : CI p s) :
    CI s (p - q * s) ∧ 3 * |p - q * s| ≤ (3 * q + 5) * |s| + 3 := by
  obtain ⟨_, hsg, _⟩ := col_floor (q := q) (by omega) hcol
    (by rcases le_or_gt (p * s) 0 with h | h
        · exact Or.inl h
        · exact Or.inr ⟨le_of_lt h, hq⟩)
  have hS := abs_nonneg s
  have hP := abs_nonneg p
  have hqS : 2 * |s| ≤ q * |s| := mul_le_mul_of_nonneg_right hq hS
  have eneg : |p - q * s| = |q * s - p| := abs_sub_comm _ _
  rcases le_or_gt (p * s) 0 with hps | hps
  · have e := abs_mul_sub_opp (k := q) (by omega) hps
    rw [eneg, e]
    have hPb : 3 * |p| ≤ 2 * |s| + 3 := by
      rcases hci.2 hps with h | h
      · linarith
      · have := hcol.small h; linarith
    refine ⟨⟨fun h => absurd h (not_lt.2 hsg), fun _ => Or.inl ?_⟩, ?_⟩
    · rw [eneg, e]; linarith
    · linarith
  · have h2 := hci.1 hps
    have e := abs_mul_sub_same (k := q) (by omega) (le_of_lt hps) (by linarith)
    rw [eneg, e]
    refine ⟨⟨fun h => absurd h (not_lt.2 hsg), fun _ => Or.inl ?_⟩, ?_⟩
    · rw [eneg, e]; linarith
    · linarith

theorem ci_ceil {p s q : Int} (hq : 1 ≤ q) (hcol : Col p s) (hci : CI p s)
    (hmode : p * s ≤ 0 ∨ (0 ≤ p * s ∧ 2 ≤ q)) :
    CI s ((q + 1) * s - p) ∧ 3 * |(q + 1) * s - p| ≤ (3 * q + 5) * |s| + 3 := by
  have hS := abs_nonneg s
  have hP := abs_nonneg p
  have hqS : 2 * |s| ≤ (q + 1) * |s| := mul_le_mul_of_nonneg_right (by omega) hS
  have key : 2 * |s| ≤ |(q + 1) * s - p| ∧ 3 * |(q + 1) * s - p| ≤ (3 * q + 5) * |s| + 3 := by
    rcases le_or_gt (p * s) 0 with hps | hps
    · have e := abs_mul_sub_opp (k := q + 1) (by omega) hps
      rw [e]
      have hPb : 3 * |p| ≤ 2 * |s| + 3 := by
        rcases hci.2 hps with h | h
        · linarith
        · have := hcol.small h; linarith
      constructor <;> linarith
    · have h2 := hci.1 hps
      have hq2 : 2 ≤ q := by
        rcases hmode with h | ⟨_, h⟩
        · exact absurd hps (not_lt.2 h)
        · exact h
      have hqS3 : 3 * |s| ≤ (q + 1) * |s| := mul_le_mul_of_nonneg_right (by omega) hS
      have e := abs_mul_sub_same (k := q + 1) (by omega) (le_of_lt hps) (by linarith)
      rw [e]
      constructor <;> linarith
  exact ⟨⟨fun _ => key.1, fun _ => Or.inl (by linarith)⟩, key.2⟩

/-- arithmetic core: `e1 <= mu`, `3 e2 <= (3q+5) mu + 3`, `(q+2) mu < 2^36`, `mu < 2^34` give
`3 e1 e2 <= 11 * 2^68` -/
theorem row_prod_step {mu q e1 e2 : Int} (hmu0 : 0 ≤ mu) (hq : 0 ≤ q)
    (hnb : (q + 2) * mu ≤ 68719476735) (hmu : mu ≤ 17179869184)
    (h1 : e1 ≤ mu) (h10 : 0 ≤ e1) (h20 : 0 ≤ e2) (h2 : 3 * e2 ≤ (3 * q + 5) * mu + 3) :
    3 * (e1 * e2) ≤ 3246626956972881084416 := by
  have a1 : 3 * (e1 * e2) ≤ mu * (3 * e2) := by
    have := mul_le_mul_of_nonneg_right h1 (by linarith : (0 : Int) ≤ 3 * e2)
    linarith
  have a2 : mu * (3 * e2) ≤ mu * ((3 * q + 5) * mu + 3) := mul_le_mul_of_nonneg_left h2 hmu0
  have a3 : ((q + 2) * mu) * mu ≤ 68719476735 * mu := mul_le_mul_of_nonneg_right hnb hmu0
  have a4 : 0 ≤ (17179869184 - mu) * (3 * 68719476736 - 17179869184 - mu) :=
    mul_nonneg (by linarith) (by linarith)
  nlinarith

/-- the extra loop invariant -/
structure R2 (a b c d : Int) : Prop where
  ciac : CI a c
  cibd : CI b d
  pac : 3 * (|a| * |c|) ≤ 3246626956972881084416
  pad : 3 * (|a| * |d|) ≤ 3246626956972881084416
  pbc : 3 * (|b| * |c|) ≤ 3246626956972881084416
  pbd : 3 * (|b| * |d|) ≤ 3246626956972881084416

theorem R2_id : R2 1 0 0 1 := by
  refine ⟨⟨?_, ?_⟩, ⟨?_, ?_⟩, ?_, ?_, ?_, ?_⟩ <;> norm_num

theorem R2_small {a b c d : Int} (hac : CI a c) (hbd : CI b d) (ha : |a| ≤ 2) (hb : |b| ≤ 2)
    (hc : |c| ≤ 2) (hd : |d| ≤ 2) : R2 a b c d := by
  have h0a := abs_nonneg a
  have h0b := abs_nonneg b
  have h0c := abs_nonneg c
  have h0d := abs_nonneg d
  refine ⟨hac, hbd, ?_, ?_, ?_, ?_⟩ <;> nlinarith

theorem R2_cont {x y : Nat} {a b c d : Int} {u v : Nat} {a' b' c' d' : Int} {u' v' : Nat}
    (hinv : RInv x y a b c d u v) (h2 : R2 a b c d) (hu : u < W) (hv : 2 ^ 24 ≤ v)
    (h : reduce64Body x y a b c d u v = some (.cont a' b' c' d' u' v')) : R2 a' b' c' d' := by
  rcases reduce64Body_cont h hu hv with
    ⟨huv, e1, e2, e3, e4, _, _, _⟩ | ⟨hvu, e1, e2, _, _, _, hnb, hc⟩
  · -- swap: only from the initial matrix
    rcases hinv.phase with ⟨rfl, rfl, rfl, rfl, _, _⟩ | ⟨_, _, _, _, rfl, rfl, hlt⟩ | ⟨_, h3, _⟩
    · rw [e1, e2, e3, e4]
      refine R2_small ⟨?_, ?_⟩ ⟨?_, ?_⟩ ?_ ?_ ?_ ?_ <;> norm_num
    · omega
    · omega
  · have hvpos : 0 < v := by
      have : 0 < 2 ^ 24 := Nat.pow_pos (by decide)
      omega
    have hq1 : 1 ≤ u / v := (Nat.le_div_iff_mul_le hvpos).2 (by omega)
    by_cases hq2 : 2 ≤ u / v
    · -- regular step with quotient at least 2
      have hb2 := two_le_bits (n := u / v + 1) (by omega)
      have hm34 := lt_of_bits_le (n := max c.natAbs d.natAbs) (k := 34) (by omega)
      have hnbm := nobreak_bound hnb
      generalize hmu : max c.natAbs d.natAbs = mu at *
      generalize hq : u / v = q at *
      have hcmu : |c| ≤ (mu : Int) := by rw [← hmu]; exact abs_le_max_natAbs_left c d
      have hdmu : |d| ≤ (mu : Int) := by rw [← hmu]; exact abs_le_max_natAbs_right c d
      have hq2I : (2 : Int) ≤ (q : Int) := by exact_mod_cast hq2
      have hmu0 : (0 : Int) ≤ mu := Int.natCast_nonneg _
      have hnbI : ((q : Int) + 2) * mu ≤ 68719476735 := by
        have : (q + 2) * mu ≤ 68719476735 := by norm_num at hnbm; omega
        exact_mod_cast this
      have hmuI : (mu : Int) ≤ 17179869184 := by
        have : mu ≤ 17179869184 := by norm_num at hm34; omega
        exact_mod_cast this
      have hmodeac : a * c ≤ 0 ∨ (0 ≤ a * c ∧ 2 ≤ (q : Int)) := by
        rcases hinv.mode with ⟨h1, _⟩ | ⟨h1, _, _⟩
        · exact Or.inl h1
        · exact Or.inr ⟨h1, hq2I⟩
      have hmodebd : b * d ≤ 0 ∨ (0 ≤ b * d ∧ 2 ≤ (q : Int)) := by
        rcases hinv.mode with ⟨_, h1⟩ | ⟨_, h1, _⟩
        · exact Or.inl h1
        · exact Or.inr ⟨h1, hq2I⟩
      have fin : ∀ c1 d1 : Int, CI c c1 → CI d d1 → 3 * |c1| ≤ (3 * (q : Int) + 5) * |c| + 3 →
          3 * |d1| ≤ (3 * (q : Int) + 5) * |d| + 3 → R2 c d c1 d1 := by
        intro c1 d1 k1 k2 u1 u2
        have hc0 := abs_nonneg c
        have hd0 := abs_nonneg d
        have hq0 : (0 : Int) ≤ 3 * (q : Int) + 5 := by linarith
        have u1' : 3 * |c1| ≤ (3 * (q : Int) + 5) * mu + 3 := by
          have := mul_le_mul_of_nonneg_left hcmu hq0; linarith
        have u2' : 3 * |d1| ≤ (3 * (q : Int) + 5) * mu + 3 := by
          have := mul_le_mul_of_nonneg_left hdmu hq0; linarith
        exact ⟨k1, k2,
          row_prod_step hmu0 (by linarith) hnbI hmuI hcmu hc0 (abs_nonneg _) u1',
          row_prod_step hmu0 (by linarith) hnbI hmuI hcmu hc0 (abs_nonneg _) u2',
          row_prod_step hmu0 (by linarith) hnbI hmuI hdmu hd0 (abs_nonneg _) u1',
          row_prod_step hmu0 (by linarith) hnbI hmuI hdmu hd0 (abs_nonneg _) u2'⟩
      rw [e1, e2]
      rcases hc with ⟨_, ec, ed, _⟩ | ⟨_, ec, ed, _⟩
      · obtain ⟨k1, u1⟩ := ci_ceil (q := (q : Int)) (by linarith) hinv.colac h2.ciac hmodeac
        obtain ⟨k2, u2⟩ := ci_ceil (q := (q : Int)) (by linarith) hinv.colbd h2.cibd hmodebd
        rw [ec, ed]
        exact fin _ _ k1 k2 u1 u2
      · obtain ⟨k1, u1⟩ := ci_floor (q := (q : Int)) hq2I hinv.colac h2.ciac
        obtain ⟨k2, u2⟩ := ci_floor (q := (q : Int)) hq2I hinv.colbd h2.cibd
        rw [ec, ed]
        exact fin _ _ k1 k2 u1 u2
    · -- quotient 1: only in the first regular step (matrix = identity or swap)
      have hq : u / v = 1 := by omega
      rw [e1, e2]
      rcases hinv.phase with ⟨rfl, rfl, rfl, rfl, _, _⟩ | ⟨rfl, rfl, rfl, rfl, _, _, _⟩ | ⟨_, h3, _⟩
      · rcases hc with ⟨_, ec, ed, _⟩ | ⟨_, ec, ed, _⟩ <;> rw [ec, ed, hq] <;>
          (refine R2_small ⟨?_, ?_⟩ ⟨?_, ?_⟩ ?_ ?_ ?_ ?_ <;> norm_num)
      · rcases hc with ⟨_, ec, ed, _⟩ | ⟨_, ec, ed, _⟩ <;> rw [ec, ed, hq] <;>
          (refine R2_small ⟨?_, ?_⟩ ⟨?_, ?_⟩ ?_ ?_ ?_ ?_ <;> norm_num)
      · exfalso
        have : 2 * v ≤ u := h3
        have : 2 ≤ u / v := (Nat.le_div_iff_mul_le hvpos).2 (by omega)
        omega

theorem reduce64Loop_R2 (x y : Nat) : ∀ (f : Nat) (a b c d : Int) (u v : Nat),
    RInv x y a b c d u v → R2 a b c d → u < W → v < W → ∀ a' b' c' d',
    reduce64Loop x y f a b c d u v = some (a', b', c', d') → R2 a' b' c' d' := by
  intro f
  induction f with
  | zero => intro a b c d u v _ _ _ _ a' b' c' d' h; simp [reduce64Loop] at h
  | succ f ih =>
    intro a b c d u v hinv hJ hu hv a' b' c' d' h
    unfold reduce64Loop at h
    have hexit : ∀ r, reduce64Exit a b c d = some r → r = (a', b', c', d') → R2 a' b' c' d' := by
      intro r hr he
      have := (reduce64Exit_some hr).1
      rw [this] at he
      simp only [Prod.mk.injEq] at he
      obtain ⟨rfl, rfl, rfl, rfl⟩ := he
      exact hJ
    by_cases hg : u / 2 ^ 24 > 0 ∧ v / 2 ^ 24 > 0
    · rw [if_pos hg] at h
      have hv24 := guard_ge hg.2
      cases hst : reduce64Body x y a b c d u v with
      | none => rw [hst] at h; simp at h
      | some st =>
        rw [hst] at h
        cases st with
        | brk => exact hexit _ h rfl
        | cont a1 b1 c1 d1 u1 v1 =>
          simp only at h
          have hlt := reduce64Body_cont_lt hst hu hv hv24
          exact ih a1 b1 c1 d1 u1 v1 (RInv_cont hinv hu hv24 hst) (R2_cont hinv hJ hu hv24 hst)
            hlt.1 hlt.2 a' b' c' d' h
    · rw [if_neg hg] at h
      exact hexit _ h rfl

/-- the products of the entries of the first row by those of the second row of the matrix returned by
`reduce64` are at most `(11/12) * 2^70` (all word pairs) -/
theorem reduce64_rowprod {x y : Nat} {a b c d : Int} (hx : x < W) (hy : y < W)
    (h : reduce64 x y = some (a, b, c, d)) : R2 a b c d := by
  unfold reduce64 at h
  exact reduce64Loop_R2 x y _ 1 0 0 1 x y (RInv_init x y) R2_id hx hy a b c d h

end Ymq.Gcd
