/-
Lemmas about the model of `ZmodN`, part 3: multiprecision Montgomery reduction `ZmodN::redc`.

Row invariant on the live suffix `s = m[i..]`: `val s' · W = val s + m_i·n`; the carry ripple
(`addWord`) cannot leave the 16-word array as long as `x + R·n ≤ W^16`, which holds for all
`x < n·R` when `2n ≤ 2^512`, and for all `x < 2^512` (the `to_int` case) for every modulus.
-/
import Ymq.Lemmas.ZmodNMul

namespace Ymq.ZmodN
open Ymq.Limbs

theorem two_pow_64 (k : Nat) : 2 ^ (64 * k) = W ^ k := by
  rw [pow_mul]; rfl

theorem redcRow_spec (k ninv N : Nat) (n s : List Nat) (hk : 1 ≤ k) (hnl : n.length = k)
    (hnv : val n = N) (hninv : (N * ninv + 1) % W = 0)
    (hs : Wf s) (hsl : k < s.length) (hfit : val s + W * N < W ^ s.length + N) :
    ∃ s', redcRow k ninv n s = some s' ∧ s'.length = s.length - 1 ∧ Wf s' ∧
      ∃ m, m < W ∧ val s' * W = val s + m * N := by
  obtain ⟨k', rfl⟩ : ∃ k', k = k' + 1 := ⟨k - 1, by omega⟩
  have hsne : s ≠ [] := by intro h; rw [h] at hsl; simp at hsl
  have hh := headD_mod s hs hsne
  have htl : (s.take (k' + 1)).length = k' + 1 := by rw [List.length_take]; omega
  obtain ⟨e1, l1, w1⟩ := macRow_spec (s.headD 0 * ninv % W) n (s.take (k' + 1)) 0 (by rw [hnl, htl])
  rw [hnl] at e1 l1
  rw [hnv] at e1
  simp only [Nat.add_zero] at e1
  have es := val_take_drop s (k' + 1)
  have hdl : (s.drop (k' + 1)).length = s.length - (k' + 1) := by simp
  obtain ⟨a1, a2⟩ := addWord_spec (s.drop (k' + 1)) (macRow (s.headD 0 * ninv % W) n (s.take (k' + 1)) 0).2
    (Wf_drop hs _)
  unfold redcRow
  simp only []
  rw [hh] at e1 l1 w1 a1 a2 ⊢
  have hmW : val s % W * ninv % W < W := Nat.mod_lt _ W_pos
  generalize hm : val s % W * ninv % W = m at *
  generalize hr : macRow m n (s.take (k' + 1)) 0 = r at *
  have hmc := mont_cancel N ninv (val s) hninv
  rw [hm] at hmc
  have hpow : W ^ s.length = W ^ (k' + 1) * W ^ (s.length - (k' + 1)) := by
    rw [← pow_add]; congr 1; omega
  -- the carry ripple does not leave the array
  have hmN : m * N + N ≤ W * N := by
    have : (m + 1) * N ≤ W * N := Nat.mul_le_mul_right _ (by omega)
    linarith only [this]
  have hsum : val r.1 + W ^ (k' + 1) * (val (s.drop (k' + 1)) + r.2) < W ^ s.length := by
    linarith only [e1, es, hfit, hmN]
  have hfit2 : val (s.drop (k' + 1)) + r.2 < W ^ (s.drop (k' + 1)).length := by
    rw [hdl]
    rw [hpow] at hsum
    have : W ^ (k' + 1) * (val (s.drop (k' + 1)) + r.2) < W ^ (k' + 1) * W ^ (s.length - (k' + 1)) := by
      omega
    exact Nat.lt_of_mul_lt_mul_left this
  obtain ⟨hi, hhi⟩ := a2 hfit2
  obtain ⟨b1, b2, b3⟩ := a1 hi hhi
  rw [hhi]
  simp only []
  have hne : r.1 ≠ [] := by intro h; rw [h] at l1; simp at l1
  have hz : val r.1 % W = 0 := by
    have h1 : (val r.1 + W ^ (k' + 1) * r.2) % W = val r.1 % W := by
      rw [pow_succ, Nat.mul_comm (W ^ k') W, Nat.mul_assoc, Nat.add_mul_mod_self_left]
    have h2 : (val s + m * N) % W = (m * N + val (s.take (k' + 1))) % W := by
      rw [es, pow_succ, Nat.mul_comm (W ^ k') W, Nat.mul_assoc]
      rw [Nat.add_comm (val (s.take (k' + 1))), Nat.add_assoc, Nat.add_comm (W * _), Nat.add_mul_mod_self_left,
        Nat.add_comm]
    rw [← h1, e1, ← h2]; exact hmc
  have htail := val_tail r.1 w1
  have hdiv : val r.1 = W * (val r.1 / W) := by
    have := Nat.div_add_mod (val r.1) W; omega
  refine ⟨_, rfl, ?_, Wf_append.2 ⟨Wf_tail w1, b3⟩, m, hmW, ?_⟩
  · simp [l1, b2]; omega
  · rw [val_append, htail, b1]
    have : r.1.tail.length = k' := by simp [l1]
    rw [this]
    rw [pow_succ] at e1 es
    generalize W ^ k' = P at *
    generalize val r.1 / W = q at *
    linarith only [e1, es, hdiv]

theorem redcRows_spec (k ninv N : Nat) (n : List Nat) (hk : 1 ≤ k) (hnl : n.length = k)
    (hnv : val n = N) (hninv : (N * ninv + 1) % W = 0) (t : Nat) (s : List Nat)
    (hs : Wf s) (hsl : k + t ≤ s.length) (hfit : val s + W ^ t * N < W ^ s.length + N) :
    ∃ s', redcRows k ninv n t s = some s' ∧ s'.length = s.length - t ∧ Wf s' ∧
      ∃ M, M < W ^ t ∧ val s' * W ^ t = val s + M * N := by
  induction t generalizing s with
  | zero => exact ⟨s, rfl, rfl, hs, 0, by simp, by simp⟩
  | succ t ih =>
    have hWt : 1 ≤ W ^ t := Nat.pow_pos W_pos
    have hfit1 : val s + W * N < W ^ s.length + N := by
      have : W * N * 1 ≤ W * N * W ^ t := Nat.mul_le_mul_left _ hWt
      rw [pow_succ] at hfit
      linarith only [this, hfit]
    obtain ⟨s1, e1, e2, e3, m, e4, e5⟩ := redcRow_spec k ninv N n s hk hnl hnv hninv hs (by omega) hfit1
    have hlen : s.length = (s.length - 1) + 1 := by omega
    have hfit' : val s1 + W ^ t * N < W ^ s1.length + N := by
      rw [e2]
      rw [hlen, pow_succ, pow_succ] at hfit
      have h1 : m * N + N ≤ W * N := by
        have : (m + 1) * N ≤ W * N := Nat.mul_le_mul_right _ (by omega)
        linarith only [this]
      have : (val s1 + W ^ t * N) * W < (W ^ (s.length - 1) + N) * W := by
        linarith only [hfit, e5, h1]
      exact Nat.lt_of_mul_lt_mul_right this
    obtain ⟨s2, f1, f2, f3, M, f4, f5⟩ := ih s1 e3 (by omega) hfit'
    simp only [redcRows, e1]
    refine ⟨s2, f1, by omega, f3, m + W * M, ?_, ?_⟩
    · rw [pow_succ]
      have : W * (M + 1) ≤ W * W ^ t := Nat.mul_le_mul_left _ (by omega)
      linarith only [this, e4]
    · rw [pow_succ, ← Nat.mul_assoc, f5]
      linarith only [e5]


/-- `ZmodN::redc`: for `x < n·R` whose reduction fits (`x + R·n ≤ W^16`, automatic when
`2n ≤ 2^512` or `x < n`). -/
theorem redc_spec' {c : Ctx} (h : Valid c) (x : List Nat) (hx : Wf x) (hlx : x.length = 16)
    (hvx : val x < c.n * W ^ c.k) (hfit : val x + W ^ c.k * c.n ≤ W ^ 16) :
    ∃ m, redc c x = some m ∧ val m < c.n ∧ val m * W ^ c.k % c.n = val x % c.n ∧
      m.length = 8 ∧ Wf m := by
  have hk := h.kle
  have hk1 := h.kpos
  have hn := h.nlt
  have hnp := h.npos
  have hnw := nd_take_val h c.k (le_refl _) (by omega)
  have hnwl : (c.nd.take c.k).length = c.k := by rw [List.length_take, nd_length]; omega
  obtain ⟨s, e1, e2, e3, M, e4, e5⟩ := redcRows_spec c.k c.ninv c.n (c.nd.take c.k) hk1 hnwl hnw h.hninv
    c.k x hx (by omega) (by rw [hlx]; omega)
  have hs2 : val s < 2 * c.n := by
    have h1 : M * c.n + c.n ≤ W ^ c.k * c.n := by
      have : (M + 1) * c.n ≤ W ^ c.k * c.n := Nat.mul_le_mul_right _ (by omega)
      linarith only [this]
    have : val s * W ^ c.k < 2 * c.n * W ^ c.k := by linarith only [e5, hvx, h1, hnp]
    exact Nat.lt_of_mul_lt_mul_right this
  have hs8 : val s < W ^ 8 := by
    by_cases h8 : c.k = 8
    · have := val_lt e3; rw [e2, hlx, h8] at this; exact this
    · have h1 : W ^ (c.k + 1) ≤ W ^ 8 := Nat.pow_le_pow_right W_pos (by omega)
      have hW : 2 ≤ W := by decide
      have h2 : 2 * W ^ c.k ≤ W ^ (c.k + 1) := by
        rw [pow_succ, Nat.mul_comm]; exact Nat.mul_le_mul_left _ hW
      omega
  have hst : val (s.take 8) = val s := by
    have := val_take_drop s 8
    rw [val_drop_eq_zero hs8] at this; omega
  obtain ⟨m, f1, f2, f3, f4, f5⟩ := condSub_spec h (s.take MW) (Wf_take e3 _)
    (by simp only [MW]; rw [List.length_take, e2, hlx]; omega) (by simp only [MW]; rw [hst]; exact hs2)
  simp only [MW] at f1 f3
  rw [hst] at f3
  unfold redc
  rw [two_pow_64]
  simp only [hvx, not_true_eq_false, if_false, e1, MW, f1]
  refine ⟨m, rfl, f2, ?_, f4, f5⟩
  have hmod : val s * W ^ c.k % c.n = val x % c.n := by rw [e5, Nat.add_mul_mod_self_right]
  rcases f3 with f3 | f3
  · rw [f3]; exact hmod
  · rw [← hmod, ← f3, Nat.add_mul, Nat.add_mul_mod_self_left]

/-- the fit condition of `redc_spec'` holds for every `x < n·R` when `2n ≤ 2^512` -/
theorem redc_fit_of_small {c : Ctx} (h : Valid c) (X : Nat) (hvx : X < c.n * W ^ c.k)
    (h2n : 2 * c.n ≤ W ^ 8) : X + W ^ c.k * c.n ≤ W ^ 16 := by
  have hk := h.kle
  have h1 : W ^ c.k ≤ W ^ 8 := Nat.pow_le_pow_right W_pos hk
  have h2 : 2 * c.n * W ^ c.k ≤ W ^ 8 * W ^ 8 := Nat.mul_le_mul h2n h1
  have h3 : W ^ 8 * W ^ 8 = W ^ 16 := by rw [← pow_add]
  linarith only [hvx, h2, h3]

/-- the fit condition of `redc_spec'` holds for every modulus when `x < W^8` (`to_int`) -/
theorem redc_fit_of_lt {c : Ctx} (h : Valid c) (X : Nat) (hvx : X < W ^ 8) :
    X + W ^ c.k * c.n ≤ W ^ 16 := by
  have hk := h.kle
  have hn := h.nlt8
  have h1 : W ^ c.k ≤ W ^ 8 := Nat.pow_le_pow_right W_pos hk
  have h2 : W ^ c.k * c.n ≤ W ^ 8 * c.n := Nat.mul_le_mul_right _ h1
  have h6 : W ^ 8 * (c.n + 1) ≤ W ^ 8 * W ^ 8 := Nat.mul_le_mul_left _ (by omega)
  have h3 : W ^ 8 * W ^ 8 = W ^ 16 := by rw [← pow_add]
  linarith only [hvx, h2, h3, h6]

end Ymq.ZmodN
