/-
Lemmas about the whole-function model of Pollard P-1 (Ymq/Model/Pm1Impl.lean):
whatever the extraction routines return keeps `factors.prod * nred = n` — derived from the
`debug_assert!`s of `find_factors` alone, with no assumption on the value list — and the loops of
`pm1_impl` thread that invariant to every exit.
-/
import Ymq.Model.Pm1Impl
import Ymq.Lemmas.Stage2Extract

namespace Ymq.Pm1Impl
open Ymq.Primes Ymq.ExpModn Ymq.Gen

/-! ### `find_factors` / `gcd_factors` from the mere fact that they returned -/

theorem findFactors_of_some (G : Nat → Nat) (pp : Nat → Bool) : ∀ (fuel lo len g1 g2 : Nat) (acc acc' : List Nat),
    0 < g1 → findFactors G pp fuel lo len g1 g2 acc = some acc' →
    ∃ new, acc' = acc ++ new ∧ new.prod * g1 = g2 ∧ (∀ f ∈ new, 1 < f) ∧ 0 < g2
  | 0, _, _, _, _, _, _, _, h => by simp [findFactors] at h
  | f + 1, lo, len, g1, g2, acc, acc', hg1, h => by
    rw [findFactors] at h
    by_cases heq : g1 = g2
    · rw [if_pos heq] at h
      simp only [Option.some.injEq] at h
      exact ⟨[], by simp [h], by simpa using heq, by simp, heq ▸ hg1⟩
    · rw [if_neg heq, if_neg (by omega)] at h
      by_cases hass : g2 > g1 ∧ g2 = g2 / g1 * g1
      · simp only [if_neg (not_not.mpr hass)] at h
        have hpgt : 1 < g2 / g1 := by
          obtain ⟨h1, h2⟩ := hass
          generalize g2 / g1 = q at h2
          rcases q with _ | _ | q
          · omega
          · omega
          · omega
        by_cases hstop : (pp (g2 / g1) || decide (len ≤ 2)) = true
        · rw [if_pos hstop] at h
          simp only [Option.some.injEq] at h
          exact ⟨[g2 / g1], h.symm, by simpa using hass.2.symm, by simpa using hpgt, by omega⟩
        · rw [if_neg hstop] at h
          cases h1 : findFactors G pp f lo (len / 2 + 1) g1 (G (lo + len / 2)) acc with
          | none => simp [h1] at h
          | some acc1 =>
            simp only [h1] at h
            obtain ⟨new1, e1, p1, gt1, pos1⟩ := findFactors_of_some G pp f lo (len / 2 + 1) g1 _ acc acc1 hg1 h1
            obtain ⟨new2, e2, p2, gt2, pos2⟩ :=
              findFactors_of_some G pp f (lo + len / 2) (len - len / 2) _ g2 acc1 acc' pos1 h
            refine ⟨new1 ++ new2, by rw [e2, e1, List.append_assoc], ?_, ?_, pos2⟩
            · rw [List.prod_append, ← p2, ← p1]; ring
            · intro x hx
              rcases List.mem_append.mp hx with hx | hx
              · exact gt1 x hx
              · exact gt2 x hx
      · simp only [if_pos hass] at h
        exact absurd h (by simp)

theorem divAll_of_some : ∀ (facs : List Nat) (n r : Nat), divAll n facs = some r → r = n / facs.prod
  | [], n, r, h => by simp [divAll] at h; simp [h]
  | f :: fs, n, r, h => by
    rw [divAll] at h
    split at h
    · exact absurd h (by simp)
    · rw [divAll_of_some fs (n / f) r h, List.prod_cons, Nat.div_div_eq_div_mul]

theorem gcdFactors_of_some {n : Nat} {vals : List Nat} {pp : Nat → Bool} {fs : List Nat} {rest : Nat} (hn : 0 < n)
    (h : gcdFactors n vals pp = some (fs, rest)) :
    fs.prod * rest = n ∧ (∀ f ∈ fs, 1 < f) ∧ 0 < rest := by
  unfold gcdFactors at h
  cases vals with
  | nil => simp at h
  | cons a t =>
    simp only at h
    split at h
    · exact absurd h (by simp)
    · rename_i facs hff
      split at h
      · exact absurd h (by simp)
      · rename_i r hdiv
        simp only [Option.some.injEq, Prod.mk.injEq] at h
        obtain ⟨rfl, rfl⟩ := h
        obtain ⟨new, e, hp, hgt, _⟩ := findFactors_of_some _ pp _ _ _ _ _ [] facs
          (Nat.gcd_pos_of_pos_left _ hn) hff
        simp only [List.nil_append] at e
        subst e
        have hdvd : facs.prod ∣ n := Dvd.dvd.trans ⟨_, hp.symm⟩ (Nat.gcd_dvd_left n _)
        have hr := divAll_of_some facs n r hdiv
        subst hr
        refine ⟨Nat.mul_div_cancel' hdvd, hgt, ?_⟩
        have hpos : 0 < facs.prod := List.prod_pos (fun x hx => by have := hgt x hx; omega)
        exact Nat.div_pos (Nat.le_of_dvd hn hdvd) hpos

/-! ### `check_gcd_factors`, the polynomial step: invariant from the mere fact that they returned -/

theorem checkGcdFactors_inv_of_some {n : Nat} {pp : Nat → Bool} {st st' : CgfState} {b : Bool} (hinv : CgfInv n st)
    (h : checkGcdFactors n pp st = some (b, st')) : CgfInv n st' := by
  obtain ⟨hprod, hgt, hpos, hnot⟩ := hinv
  unfold checkGcdFactors at h
  split at h
  · exact absurd h (by simp)
  · rename_i fs rest hg
    obtain ⟨hfr, hfgt, hrest⟩ := gcdFactors_of_some hpos hg
    by_cases hc : fs.contains n = true
    · rw [if_pos hc] at h
      simp only [Option.some.injEq, Prod.mk.injEq] at h
      rw [← h.2]; exact ⟨hprod, hgt, hpos, hnot⟩
    · rw [if_neg hc] at h
      have hnfs : n ∉ fs := by simpa using hc
      have hinv1 : CgfInv n (if fs.isEmpty = true then st else { st with factors := st.factors ++ fs, nred := rest }) := by
        by_cases he : fs.isEmpty = true
        · rw [if_pos he]; exact ⟨hprod, hgt, hpos, hnot⟩
        · rw [if_neg he]
          refine ⟨?_, ?_, hrest, ?_⟩
          · simp only [List.prod_append]; rw [mul_assoc, hfr]; exact hprod
          · intro f hf
            rcases List.mem_append.mp hf with h | h
            · exact hgt f h
            · exact hfgt f h
          · intro h
            rcases List.mem_append.mp h with h | h
            · exact hnot h
            · exact hnfs h
      simp only at h
      split at h
      · simp only [Option.some.injEq, Prod.mk.injEq] at h
        rw [← h.2]; exact hinv1
      · split at h
        · exact absurd h (by simp)
        · simp only [Option.some.injEq, Prod.mk.injEq] at h
          rw [← h.2]
          obtain ⟨h1, h2, h3, h4⟩ := hinv1
          exact ⟨h1, h2, h3, h4⟩

theorem pm1PolyStep_inv_of_some {n : Nat} {pp : Nat → Bool} {st st' : CgfState} (hinv : CgfInv n st)
    (h : pm1PolyStep n pp st = some (some st')) : CgfInv n st' := by
  obtain ⟨hprod, hgt, hpos, hnot⟩ := hinv
  have hguard : Stage2Arms.pm1PolyGuard = true := by delta Stage2Arms.pm1PolyGuard; rfl
  unfold pm1PolyStep at h
  split at h
  · exact absurd h (by simp)
  · rename_i fs rest hg
    obtain ⟨hfr, hfgt, hrest⟩ := gcdFactors_of_some hpos hg
    simp only [hguard, Bool.true_and] at h
    by_cases hc : fs.contains n = true
    · rw [if_pos hc] at h; exact absurd h (by simp)
    · rw [if_neg hc] at h
      simp only [Option.some.injEq] at h
      subst h
      have hnfs : n ∉ fs := by simpa using hc
      refine ⟨?_, ?_, hrest, ?_⟩
      · show (st.factors ++ fs).prod * rest = n
        rw [List.prod_append, mul_assoc, hfr]; exact hprod
      · intro f hf
        rcases List.mem_append.mp hf with h | h
        · exact hgt f h
        · exact hfgt f h
      · intro h
        rcases List.mem_append.mp h with h | h
        · exact hnot h
        · exact hnfs h

/-! ### the loops of `pm1_impl` thread the invariant to every exit -/

/-- what a caller of `pm1_impl` may rely on for a returned `Some((factors, cofactor))` -/
def Proper (n : Nat) (r : Option (List Nat × Nat)) : Prop :=
  ∀ fs rest, r = some (fs, rest) → fs.prod * rest = n ∧ (∀ f ∈ fs, 1 < f) ∧ 0 < rest ∧ n ∉ fs ∧ fs ≠ []

theorem proper_splitResult {n : Nat} {st : CgfState} (hinv : CgfInv n st) : Proper n (splitResult st) :=
  fun _ _ h => splitResult_proper hinv h

theorem proper_none (n : Nat) : Proper n none := fun _ _ h => absurd h (by simp)

theorem outer_inv (n b1 : Nat) (pp : Nat → Bool) : ∀ (fuel : Nat) (ps : PrimeSieve) (blk : List Nat) (m : Nat) (s : S1)
    (factors : List Nat) (nred : Nat) (out : S1Out),
    CgfInv n ⟨factors, nred, []⟩ → m = nred → outer n b1 pp fuel ps blk m s factors nred = some out →
    match out with
    | .ret r => Proper n r
    | .stage2 m' _ _ _ _ factors' nred' => CgfInv n ⟨factors', nred', []⟩ ∧ m' = nred'
  | 0, _, _, _, _, _, _, _, _, _, h => by simp [outer] at h
  | f + 1, ps, blk, m, s, factors, nred, out, hinv, hm, h => by
    rw [outer] at h
    split at h
    · exact absurd h (by simp)
    · rename_i s' _
      split at h
      · exact absurd h (by simp)
      · rename_i st hc
        simp only [Option.some.injEq] at h
        subst h
        refine proper_splitResult (checkGcdFactors_inv_of_some ?_ hc)
        exact hinv
      · rename_i st hc
        have hst : CgfInv n st := by
          refine checkGcdFactors_inv_of_some ?_ hc
          exact hinv
        have hst' : CgfInv n ⟨st.factors, st.nred, []⟩ := hst
        split at h
        · exact absurd h (by simp)
        · have hm' : (if m ≠ st.nred then st.nred else m) = st.nred := by
            by_cases e : m = st.nred <;> simp [e]
          dsimp only at h
          simp only [hm'] at h
          generalize (if m ≠ st.nred then s'.g % st.nred else s'.g) = g' at h
          split at h
          · simp only [Option.some.injEq] at h
            subst h
            exact ⟨hst', rfl⟩
          · split at h
            · exact absurd h (by simp)
            · exact outer_inv n b1 pp f _ _ _ _ _ _ out hst' rfl h

theorem walkOuter_inv (n b2 : Nat) (pp : Nat → Bool) (m g2 : Nat) : ∀ (fuel : Nat) (ps : PrimeSieve) (blk : List Nat) (w : W)
    (factors : List Nat) (nred : Nat) (r : Option (List Nat × Nat)),
    CgfInv n ⟨factors, nred, []⟩ → walkOuter n b2 pp m g2 fuel ps blk w factors nred = some r → Proper n r
  | 0, _, _, _, _, _, _, _, h => by simp [walkOuter] at h
  | f + 1, ps, blk, w, factors, nred, r, hinv, h => by
    rw [walkOuter] at h
    split at h
    · exact absurd h (by simp)
    · rename_i w' _
      split at h
      · exact absurd h (by simp)
      · rename_i st hc
        simp only [Option.some.injEq] at h
        subst h
        refine proper_splitResult (checkGcdFactors_inv_of_some ?_ hc)
        exact hinv
      · rename_i st hc
        have hst : CgfInv n st := by
          refine checkGcdFactors_inv_of_some ?_ hc
          exact hinv
        split at h
        · simp only [Option.some.injEq] at h
          subst h
          exact proper_splitResult hst
        · split at h
          · exact absurd h (by simp)
          · exact walkOuter_inv n b2 pp m g2 f _ _ _ _ _ r hst h

theorem pm1Impl_proper {n b1 b2 : Nat} {pp : Nat → Bool} {r : Option (List Nat × Nat)} (hn : 0 < n)
    (h : pm1Impl n b1 b2 pp = some r) : Proper n r := by
  have hinv0 : CgfInv n ⟨[], n, []⟩ := ⟨by simp, by simp, hn, by simp⟩
  unfold pm1Impl at h
  split at h
  · exact absurd h (by simp)
  · split at h
    · exact absurd h (by simp)
    · split at h
      · exact absurd h (by simp)
      · split at h
        · exact absurd h (by simp)
        · split at h
          · exact absurd h (by simp)
          · split at h
            · exact absurd h (by simp)
            · rename_i r' ho
              simp only [Option.some.injEq] at h
              subst h
              exact outer_inv n b1 pp _ _ _ _ _ _ _ _ hinv0 rfl ho
            · rename_i m g pPrev blk ps factors nred ho
              obtain ⟨hinv, hm⟩ := outer_inv n b1 pp _ _ _ _ _ _ _ _ hinv0 rfl ho
              split at h
              · split at h
                · exact absurd h (by simp)
                · split at h
                  · exact absurd h (by simp)
                  · simp only [Option.some.injEq] at h
                    subst h
                    exact proper_none n
                  · rename_i st hp
                    simp only [Option.some.injEq] at h
                    subst h
                    have : CgfInv n ⟨factors, m, []⟩ := hm ▸ hinv
                    refine proper_splitResult (pm1PolyStep_inv_of_some ?_ hp)
                    exact this
              · unfold walk at h
                split at h
                · exact absurd h (by simp)
                · exact walkOuter_inv n b2 pp m _ _ _ _ _ _ _ r hinv h

theorem viaArms_proper {arms : List (Nat × Nat × Nat × List (Nat × Nat))} {n : Nat} {pp : Nat → Bool}
    {r : Option (List Nat × Nat)} (hn : 0 < n) (h : viaArms arms n pp = some r) : Proper n r := by
  unfold viaArms at h
  split at h
  · exact absurd h (by simp)
  · simp only [Option.some.injEq] at h
    subst h
    exact proper_none n
  · exact pm1Impl_proper hn h

/-! ### the prime walk: first term and accumulation -/

theorem walkStep_keeps {m g2 b2 : Nat} {w w' : W} {p : Nat} {fl : Bool} (h : walkStep m g2 b2 w p = some (w', fl)) :
    Nat.gcd m w.product ∣ Nat.gcd m w'.product ∧
      (w' = w ∨ (w.pPrev < p ∧ w'.pPrev = p ∧ w'.productsRev = w'.product :: w.productsRev ∧
        w'.product = mulm m w.product (subm m w'.x (onem m)))) := by
  unfold walkStep at h
  split at h
  · simp only [Option.some.injEq, Prod.mk.injEq] at h
    rw [← h.1]; exact ⟨dvd_rfl, Or.inl rfl⟩
  · rename_i hp
    simp only at h
    split at h
    · exact absurd h (by simp)
    · split at h
      · exact absurd h (by simp)
      · split at h
        · exact absurd h (by simp)
        · simp only [Option.some.injEq, Prod.mk.injEq] at h
          obtain ⟨rfl, _⟩ := h
          exact ⟨gcd_dvd_gcd_mul_mod m _ _, Or.inr ⟨by omega, rfl, rfl, rfl⟩⟩

theorem walk_first_term (n b2 : Nat) (pp : Nat → Bool) (m g pPrev : Nat) (blk : List Nat) (ps : PrimeSieve)
    (factors : List Nat) (nred : Nat) :
    walk n b2 pp m g pPrev blk ps factors nred =
      (expModn (mulm m) (onem m) g pPrev).bind fun x =>
        walkOuter n b2 pp m (mulm m g g) 65600 ps blk
          { x := x, product := subm m x (onem m), productsRev := [onem m], gaps := [mulm m g g], pPrev := pPrev } factors nred := by
  unfold walk
  cases expModn (mulm m) (onem m) g pPrev <;> rfl

end Ymq.Pm1Impl
