/-
MPQS (C12): `make_poly` returns (no assertion, underflow, missing inverse) under explicit conditions on `(n, D, r)`.
-/
import Ymq.Lemmas.PolyMpqs
import Ymq.Lemmas.PolyFinishTotal
open Ymq.SiqsPoly (invMod wrap256 bitlen P255 chk256)
namespace Ymq.PolyMpqs
open Ymq.PolyInv Ymq.PolyRoots Ymq.MpqsPoly Ymq.PolySizes

set_option exponentiation.threshold 1100

theorem chkU_isSome {x : Nat} (h : x < 2 ^ 1024) : chkU x = some x := by
  have e : (2 : Nat) ^ 1024 = U1024 := by unfold U1024; norm_num
  unfold chkU
  rw [if_pos (by rw [← e]; exact h)]

/-- `make_poly` returns under explicit arithmetic conditions on `(n, D, r)` -/
theorem makePoly_isSome {n d r : Nat} (hd0 : 1 < d) (hdodd : d % 2 = 1) (hd : d < 2 ^ 127) (hr : r < d)
    (hsq : r * r % d = n % d) (hle : r * r ≤ n) (hg1 : Nat.gcd (2 * r) d = 1) (hg2 : Nat.gcd d n = 1)
    (hn1 : 1 < n) (hnd : n < 2 ^ 254 * (d * d)) : ∃ pol, makePoly n d r = some pol := by
  have hd1 : 0 < d := by omega
  have hr1 : 1 ≤ r := by
    by_contra hc
    have : r = 0 := by omega
    subst this
    simp at hg1
    omega
  have hdd : d * d < 2 ^ 254 := by
    have : d * d < 2 ^ 127 * 2 ^ 127 := Nat.mul_lt_mul'' hd hd
    have e : (2 : Nat) ^ 127 * 2 ^ 127 = 2 ^ 254 := by norm_num
    omega
  have hrr : r * r < 2 ^ 1024 := by
    have : r * r < d * d := Nat.mul_lt_mul'' hr hr
    have : (2 : Nat) ^ 254 < 2 ^ 1024 := by norm_num
    omega
  obtain ⟨i, hi⟩ := invMod_isSome hd1 hg1
  -- the lifted root
  set b0 := r + (n - r * r) / d % d * i % d * d with hb0
  have hb0lt : b0 < d * d := by
    have h2 : (n - r * r) / d % d * i % d ≤ d - 1 := by
      have := Nat.mod_lt ((n - r * r) / d % d * i) hd1; omega
    have : (n - r * r) / d % d * i % d * d ≤ (d - 1) * d := Nat.mul_le_mul_right d h2
    have e : (d - 1) * d = d * d - d := by
      rw [Nat.sub_mul, Nat.one_mul]
    have : d ≤ d * d := Nat.le_mul_self d
    omega
  have hhb : henselB n d r = some b0 := by
    unfold henselB
    rw [if_neg (by omega), if_neg (by simpa using hsq), chkU_isSome hrr]
    dsimp only
    rw [if_pos hle, hi]
    dsimp only
    exact chkU_isSome (by
      have : (2 : Nat) ^ 254 < 2 ^ 1024 := by norm_num
      omega)
  have hb0pos : 1 ≤ b0 := by omega
  have hbsq := henselB_sq hhb
  obtain ⟨dinv, hdinv⟩ := invMod_isSome (by omega : 0 < n) hg2
  have hbitd : bitlen d < 128 := by have := bitlen_le_of_lt hd; omega
  have hbitb : bitlen b0 < 256 := by
    have : b0 < 2 ^ 254 := by omega
    have := bitlen_le_of_lt this; omega
  unfold makePoly
  rw [hhb]
  dsimp only
  rw [if_neg (by omega), hdinv]
  dsimp only
  rw [if_neg (by omega), if_neg (by omega), if_neg (by simpa using hbsq)]
  -- size of c for any b < d²
  have hc : ∀ (b M : Nat), b < d * d → d * d ≤ M → bitlen (Int.tdiv (((b * b : Nat) : Int) - (n : Int)) (M : Int)).natAbs < 256 := by
    intro b M hb hM
    have hMpos : 0 < M := by nlinarith
    have hbb : b * b < d * d * M := by
      calc b * b < d * d * (d * d) := Nat.mul_lt_mul'' hb hb
        _ ≤ d * d * M := Nat.mul_le_mul_left _ hM
    have hnM : n < 2 ^ 254 * M := lt_of_lt_of_le hnd (Nat.mul_le_mul_left _ hM)
    have habs : (Int.tdiv (((b * b : Nat) : Int) - (n : Int)) (M : Int)).natAbs < 2 ^ 254 := by
      rw [Int.natAbs_tdiv]
      have h1 : (((b * b : Nat) : Int) - (n : Int)).natAbs < 2 ^ 254 * M := by
        have hdd' : d * d * M ≤ 2 ^ 254 * M := Nat.mul_le_mul_right M (le_of_lt hdd)
        omega
      simp only [Int.natAbs_natCast]
      exact (Nat.div_lt_iff_lt_mul hMpos).mpr h1
    have := bitlen_le_of_lt habs
    omega
  split
  · rename_i hn4
    -- odd branch
    unfold mkOdd
    rw [if_neg (by omega)]
    dsimp only
    have hob : oddB d b0 < d * d := by unfold oddB; split <;> omega
    have hobodd : oddB d b0 % 2 = 1 := by
      unfold oddB
      have hddodd : d * d % 2 = 1 := by rw [Nat.mul_mod, hdodd]
      split <;> omega
    have hobsq : oddB d b0 * oddB d b0 % (d * d) = n % (d * d) := by
      unfold oddB
      split
      · have hle' : b0 ≤ d * d := le_of_lt hb0lt
        have : ((d * d - b0) * (d * d - b0)) % (d * d) = b0 * b0 % (d * d) := by
          have hz : (((d * d - b0) * (d * d - b0) : Nat) : Int) ≡ ((b0 * b0 : Nat) : Int) [ZMOD ((d * d : Nat) : Int)] := by
            apply Int.modEq_iff_dvd.mpr
            refine ⟨2 * (b0 : Int) - (d * d : Nat), ?_⟩
            push_cast [Nat.cast_sub hle']; ring
          exact Int.natCast_modEq_iff.mp hz
        rw [this]; exact hbsq
      · exact hbsq
    have h4 : oddB d b0 * oddB d b0 % (4 * (d * d)) = n % (4 * (d * d)) := by
      -- 4 | b² − n and d² | b² − n, coprime
      obtain ⟨k, hk⟩ : ∃ k, oddB d b0 = 2 * k + 1 := ⟨oddB d b0 / 2, by omega⟩
      have hb4 : oddB d b0 * oddB d b0 % 4 = 1 := by
        rw [hk]
        have : (2 * k + 1) * (2 * k + 1) = 4 * (k * k + k) + 1 := by ring
        rw [this]; omega
      have hz1 : ((4 : Nat) : Int) ∣ ((n : Nat) : Int) - ((oddB d b0 * oddB d b0 : Nat) : Int) := by
        have : (oddB d b0 * oddB d b0) % 4 = n % 4 := by omega
        exact Int.modEq_iff_dvd.mp (Int.natCast_modEq_iff.mpr this)
      have hz2 : ((d * d : Nat) : Int) ∣ ((n : Nat) : Int) - ((oddB d b0 * oddB d b0 : Nat) : Int) :=
        Int.modEq_iff_dvd.mp (Int.natCast_modEq_iff.mpr hobsq)
      have hcop : IsCoprime ((4 : Nat) : Int) ((d * d : Nat) : Int) := by
        apply Nat.isCoprime_iff_coprime.mpr
        have : Nat.Coprime 2 d := (Nat.Prime.coprime_iff_not_dvd Nat.prime_two).mpr (by omega)
        exact Nat.Coprime.pow_left 2 (Nat.Coprime.mul_right this this)
      have := hcop.mul_dvd hz1 hz2
      have e : ((4 : Nat) : Int) * ((d * d : Nat) : Int) = ((4 * (d * d) : Nat) : Int) := by push_cast; ring
      rw [e] at this
      exact Int.natCast_modEq_iff.mp (Int.modEq_iff_dvd.mpr this)
    rw [if_neg (by simpa using h4), if_neg (by
      rw [not_not]
      exact hc (oddB d b0) (4 * (d * d)) hob (by omega))]
    exact ⟨_, rfl⟩
  · unfold mkEven
    rw [if_neg (by omega)]
    dsimp only
    have heb : evenB d b0 < d * d := by
      unfold evenB
      split
      · have : 0 < b0 := by omega
        omega
      · omega
    rw [if_neg (by
      rw [not_not]
      exact hc (evenB d b0) (d * d) heb (le_refl _))]
    exact ⟨_, rfl⟩

/-- what `sieve_for_polys` promises for every pair it returns -/
theorem sieveForPolys_sound (n bmin width : Nat) : ∀ dr ∈ sieveForPolys n bmin width,
    bmin ≤ dr.1 ∧ dr.1 < bmin + width ∧ dr.1 % 4 = 3 ∧ dr.2 * dr.2 % dr.1 = n % dr.1 ∧
    Nat.gcd (n % dr.1) dr.1 = 1 ∧
    (∀ p ∈ Ymq.Gen.Primality.smallPrimes, p ∣ dr.1 → ¬ (bmin > p ∨ dr.1 ≥ 2 * p)) := by
  intro dr hdr
  unfold sieveForPolys at hdr
  obtain ⟨i, hi, hf⟩ := List.mem_filterMap.mp hdr
  have hiw : i < width := List.mem_range.mp hi
  dsimp only at hf
  split at hf
  · cases hf
  · rename_i hmark
    split at hf
    · cases hf
    · rename_i h4
      split at hf
      · cases hf
      · rename_i hd0
        split at hf
        · cases hf
        · rename_i hg
          split at hf
          · rename_i hsq
            injection hf with hf
            subst hf
            simp only
            refine ⟨by omega, by omega, by omega, hsq, by omega, ?_⟩
            intro p hp hdvd hcond
            apply hmark
            apply List.any_eq_true.mpr
            refine ⟨p, hp, ?_⟩
            unfold marked
            simp only [Bool.and_eq_true, beq_iff_eq, Bool.or_eq_true, decide_eq_true_eq]
            exact ⟨Nat.mod_eq_zero_of_dvd hdvd, hcond⟩
          · cases hf

end Ymq.PolyMpqs
