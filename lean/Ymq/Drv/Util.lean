/-
Shared helpers of the line-protocol driver (no Mathlib; must link natively).
Numbers are decimal, lists are comma separated, the empty list is `-`.
-/
namespace Ymq.Drv

def parseNat (s : String) : Option Nat := s.toNat?

def parseInt (s : String) : Option Int := s.toInt?

def parseNatList (s : String) : Option (List Nat) :=
  if s = "-" then some [] else (s.splitOn ",").mapM parseNat

def parseIntList (s : String) : Option (List Int) :=
  if s = "-" then some [] else (s.splitOn ",").mapM parseInt

def showList {α} [ToString α] (l : List α) : String :=
  if l.isEmpty then "-" else ",".intercalate (l.map toString)

def showOptNat : Option Nat → String
  | none => "none"
  | some x => s!"some {x}"

def showBool (b : Bool) : String := if b then "true" else "false"

/-- A handler answers the ops it knows and returns `none` otherwise. -/
abbrev Handler := List String → Option String

end Ymq.Drv
