#![allow(dead_code)]
use std::str::FromStr;
use yamaquasi::Uint;

pub fn u64_of(s: &str) -> Option<u64> {
    s.parse().ok()
}
pub fn u32_of(s: &str) -> Option<u32> {
    s.parse().ok()
}
pub fn i64_of(s: &str) -> Option<i64> {
    s.parse().ok()
}
pub fn u128_of(s: &str) -> Option<u128> {
    s.parse().ok()
}
pub fn uint_of(s: &str) -> Option<Uint> {
    Uint::from_str(s).ok()
}
pub fn bool_of(s: &str) -> Option<bool> {
    match s {
        "true" | "1" => Some(true),
        "false" | "0" => Some(false),
        _ => None,
    }
}
pub fn list_of<T: FromStr>(s: &str) -> Option<Vec<T>> {
    if s == "-" {
        return Some(vec![]);
    }
    s.split(',').map(|x| x.parse().ok()).collect()
}
pub fn show_list<T: ToString>(l: &[T]) -> String {
    if l.is_empty() {
        "-".to_string()
    } else {
        l.iter().map(|x| x.to_string()).collect::<Vec<_>>().join(",")
    }
}
pub fn show_opt<T: ToString>(o: Option<T>) -> String {
    match o {
        None => "none".to_string(),
        Some(x) => format!("some {}", x.to_string()),
    }
}
