/-
Inductions over the recursion of `factorImpl`, all driven by the shape lemma:
* `factorImpl_ext`   (ANY oracle): a successful run only appends; every appended element was
  accepted by `o.prime` (in some oracle state) or is logged as a give-up; 1 is never appended;
* `factorImpl_mul` (under `OracleOK`): a block of product `n` is appended to the vector;
* `factorImpl_total_aux` (under `OracleOK`, selector precondition, enough fuel): the run ends
  with `.ok`.
-/
import Ymq.Lemmas.FactorShape
import Ymq.Lemmas.FactorCombine

namespace Ymq.Factor

variable {σ : Type}

/-! ### `bits` -/

theorem bits_pos {n : Nat} (h : 1 ≤ n) : 1 ≤ bits n := by
  unfold bits; split <;> omega

theorem bits_le_of_le {m n : Nat} (h : m ≤ n) : bits m ≤ bits n := by
  unfold bits
  by_cases hm : m = 0
  · simp [hm]
  · have hn : n ≠ 0 := by omega
    simp only [hm, hn, if_false]
    have : Nat.log2 m ≤ Nat.log2 n :=
      (Nat.le_log2 hn).mpr (Nat.le_trans (Nat.log2_self_le hm) h)
    omega

theorem bits_lt_of_two_mul_le {m n : Nat} (hm : 1 ≤ m) (h : 2 * m ≤ n) : bits m < bits n := by
  unfold bits
  have hm0 : m ≠ 0 := by omega
  have hn0 : n ≠ 0 := by omega
  simp only [hm0, hn0, if_false]
  have h1 : n < 2 ^ (Nat.log2 n + 1) := Nat.lt_log2_self
  have h2 : m < 2 ^ Nat.log2 n := by rw [Nat.pow_succ] at h1; omega
  have : Nat.log2 m < Nat.log2 n := (Nat.log2_lt hm0).mpr h2
  omega

theorem two_mul_le_of_dvd_lt {m n : Nat} (hd : m ∣ n) (hlt : m < n) : 2 * m ≤ n := by
  obtain ⟨c, rfl⟩ := hd
  have hc : 2 ≤ c := by
    rcases Nat.lt_or_ge c 2 with h | h
    · have : c = 0 ∨ c = 1 := by omega
      rcases this with rfl | rfl <;> simp at hlt
    · exact h
  calc 2 * m = m * 2 := Nat.mul_comm _ _
    _ ≤ m * c := Nat.mul_le_mul_left m hc

theorem bits_lt_of_dvd_lt {m n : Nat} (hm : 1 ≤ m) (hd : m ∣ n) (hlt : m < n) : bits m < bits n :=
  bits_lt_of_two_mul_le hm (two_mul_le_of_dvd_lt hd hlt)

/-! ### small facts -/

theorem factorStep_one (o : Oracle σ) (rec : Nat → St σ → Res (St σ)) (alg : Algo) (s : St σ) :
    factorStep o rec 1 alg s = .ok s := by
  simp [factorStep]

theorem replicateAppend_prod (k : Nat) (l : List Nat) : (replicateAppend k l).prod = l.prod ^ k := by
  unfold replicateAppend
  induction k with
  | zero => simp
  | succ k ih => simp [List.replicate_succ, ih, Nat.pow_succ, Nat.mul_comm]

theorem mem_replicateAppend {k : Nat} {l : List Nat} {x : Nat} (h : x ∈ replicateAppend k l) :
    x ∈ l := by
  unfold replicateAppend at h
  obtain ⟨l', hl', hx⟩ := List.mem_flatten.mp h
  rw [List.eq_of_mem_replicate hl'] at hx
  exact hx

theorem ppResult_ok {s s' : St σ} {k : Nat} {r : Res (St σ)} (h : ppResult s k r = .ok s') :
    ∃ s'', r = .ok s'' ∧
      s' = { s'' with factors := s.factors ++ replicateAppend k s''.factors } := by
  cases r with
  | ok s'' =>
    simp only [ppResult] at h
    injection h with h
    exact ⟨s'', rfl, h.symm⟩
  | panic e => simp [ppResult] at h
  | fuel => simp [ppResult] at h

/-! ### A. structure of what is appended (any oracle) -/

/-- `s'` extends `s`: only appended elements; each appended element was accepted by the
pseudoprime oracle in some state or is logged in `giveups`; 1 is never appended. -/
def Ext (o : Oracle σ) (s s' : St σ) : Prop :=
  ∃ new gnew : List Nat, s'.factors = s.factors ++ new ∧ s'.giveups = s.giveups ++ gnew ∧
    (∀ x ∈ new, (∃ t, (o.prime t x).1 = true) ∨ x ∈ gnew) ∧ 1 ∉ new

theorem Ext.of_sim {o : Oracle σ} {s s1 : St σ} (h : s.sim s1) : Ext o s s1 :=
  ⟨[], [], by simp [h.1], by simp [h.2], by simp, by simp⟩

theorem Ext.trans {o : Oracle σ} {s s1 s2 : St σ} (h1 : Ext o s s1) (h2 : Ext o s1 s2) :
    Ext o s s2 := by
  obtain ⟨n1, g1, hf1, hg1, hp1, ho1⟩ := h1
  obtain ⟨n2, g2, hf2, hg2, hp2, ho2⟩ := h2
  refine ⟨n1 ++ n2, g1 ++ g2, by rw [hf2, hf1, List.append_assoc],
    by rw [hg2, hg1, List.append_assoc], ?_, ?_⟩
  · intro x hx
    rcases List.mem_append.mp hx with hx | hx
    · rcases hp1 x hx with h | h
      · exact Or.inl h
      · exact Or.inr (List.mem_append_left _ h)
    · rcases hp2 x hx with h | h
      · exact Or.inl h
      · exact Or.inr (List.mem_append_right _ h)
  · intro h
    rcases List.mem_append.mp h with h | h
    · exact ho1 h
    · exact ho2 h

theorem Ext.push {o : Oracle σ} {s s1 : St σ} {n : Nat} (h : s.sim s1) (hn : n ≠ 1) (t : σ)
    (hp : (o.prime t n).1 = true) : Ext o s (s1.push n) :=
  ⟨[n], [], by simp [St.push, h.1], by simp [St.push, h.2],
    by intro x hx; simp at hx; subst hx; exact Or.inl ⟨t, hp⟩,
    by simp; exact fun h => hn h.symm⟩

theorem Ext.giveup {o : Oracle σ} {s s1 : St σ} {n : Nat} (h : s.sim s1) (hn : n ≠ 1) :
    Ext o s (s1.giveup n) :=
  ⟨[n], [n], by simp [St.giveup, h.1], by simp [St.giveup, h.2],
    by intro x hx; exact Or.inr hx,
    by simp; exact fun h => hn h.symm⟩

theorem bindList_ext {o : Oracle σ} {f : St σ → Nat → Res (St σ)} {L : List Nat}
    (hf : ∀ m ∈ L, ∀ s s', f s m = .ok s' → Ext o s s') {s s' : St σ}
    (h : bindList f L s = .ok s') : Ext o s s' := by
  induction L generalizing s with
  | nil =>
    simp only [bindList] at h
    injection h with h; subst h
    exact Ext.of_sim (St.sim_refl _)
  | cons a as ih =>
    rw [bindList] at h
    split at h
    · rename_i s1 h1
      exact (hf a (by simp) s s1 h1).trans
        (ih (fun m hm => hf m (by simp [hm])) h)
    · exact absurd h (by simp)
    · exact absurd h (by simp)

/-- **A.** For ANY oracle, selector, fuel. -/
theorem factorImpl_ext (o : Oracle σ) (alg : Algo) :
    ∀ (fuel n : Nat) (s s' : St σ), factorImpl o fuel n alg s = .ok s' → Ext o s s' := by
  intro fuel
  induction fuel with
  | zero => intro n s s' h; rw [factorImpl_zero] at h; exact absurd h (by simp)
  | succ fuel ih =>
    intro n s s' h
    have sh := factorImpl_shape o fuel n alg s
    generalize factorImpl o (fuel + 1) n alg s = r at sh h
    cases sh with
    | one _ => injection h with h; subst h; exact Ext.of_sim (St.sim_refl _)
    | pp p k s0 hn hpp hf0 hg0 =>
      obtain ⟨s'', hr, hs'⟩ := ppResult_ok h
      obtain ⟨new, gnew, hf, hg, hp, ho⟩ := ih p s0 s'' hr
      rw [hf0, List.nil_append] at hf
      refine ⟨replicateAppend k new, gnew, by rw [hs', hf], by rw [hs']; simp [hg, hg0], ?_, ?_⟩
      · intro x hx; exact hp x (mem_replicateAppend hx)
      · intro h1; exact ho (mem_replicateAppend h1)
    | prime s1 t hn hsim hp => injection h with h; subst h; exact Ext.push hsim hn t hp
    | giveup s1 hn hsim => injection h with h; subst h; exact Ext.giveup hsim hn
    | split s1 L hn hsim _ =>
      exact (Ext.of_sim hsim).trans (bindList_ext (fun m _ s s' hm => ih m s s' hm) h)
    | sieve s1 t a ds facs hn hsim _ hc =>
      obtain ⟨_, hfacs⟩ := combineDivs_single hc
      refine (Ext.of_sim hsim).trans (bindList_ext ?_ h)
      intro f hf s2 s2' hstep
      have hf1 : f ≠ 1 := fun h1 => hn ((hfacs f hf).2 h1)
      unfold finalStep at hstep
      split at hstep
      · injection hstep with hstep; subst hstep
        exact Ext.giveup (St.sim_refl _) hf1
      · split at hstep
        · exact (Ext.of_sim (s1 := { s2 with os := (o.prime s2.os f).2 }) ⟨rfl, rfl⟩).trans
            (ih f _ s2' hstep)
        · rename_i hp
          injection hstep with hstep; subst hstep
          exact Ext.push ⟨rfl, rfl⟩ hf1 s2.os (by simpa using hp)
    | panicBits => exact absurd h (by simp)
    | panicUnexpected => exact absurd h (by simp)
    | panicCombine => exact absurd h (by simp)
    | fuelCombine => exact absurd h (by simp)

/-! ### B. exact product (under the oracle contract) -/

/-- `s'` is `s` with a block of product `m` appended to the vector -/
def Mul (s s' : St σ) (m : Nat) : Prop :=
  ∃ new : List Nat, s'.factors = s.factors ++ new ∧ new.prod = m

theorem Mul.of_sim {s s1 : St σ} (h : s.sim s1) : Mul s s1 1 := ⟨[], by simp [h.1], rfl⟩

theorem Mul.trans {s s1 s2 : St σ} {a b : Nat} (h1 : Mul s s1 a) (h2 : Mul s1 s2 b) :
    Mul s s2 (a * b) := by
  obtain ⟨n1, hf1, hp1⟩ := h1
  obtain ⟨n2, hf2, hp2⟩ := h2
  exact ⟨n1 ++ n2, by rw [hf2, hf1, List.append_assoc], by rw [List.prod_append, hp1, hp2]⟩

theorem Mul.sim_left {s s1 s2 : St σ} {a : Nat} (h : s.sim s1) (h2 : Mul s1 s2 a) : Mul s s2 a := by
  have := (Mul.of_sim h).trans h2
  rwa [Nat.one_mul] at this

theorem Mul.push {s s1 : St σ} (h : s.sim s1) (n : Nat) : Mul s (s1.push n) n :=
  ⟨[n], by simp [St.push, h.1], by simp⟩

theorem Mul.giveup {s s1 : St σ} (h : s.sim s1) (n : Nat) : Mul s (s1.giveup n) n :=
  ⟨[n], by simp [St.giveup, h.1], by simp⟩

theorem bindList_mul {f : St σ → Nat → Res (St σ)} {L : List Nat}
    (hf : ∀ m ∈ L, ∀ s s', f s m = .ok s' → Mul s s' m) {s s' : St σ}
    (h : bindList f L s = .ok s') : Mul s s' L.prod := by
  induction L generalizing s with
  | nil =>
    simp only [bindList] at h
    injection h with h; subst h
    exact Mul.of_sim (St.sim_refl _)
  | cons a as ih =>
    rw [bindList] at h
    split at h
    · rename_i s1 h1
      rw [List.prod_cons]
      exact (hf a (by simp) s s1 h1).trans (ih (fun m hm => hf m (by simp [hm])) h)
    · exact absurd h (by simp)
    · exact absurd h (by simp)

/-- **B.** Under `OracleOK`, for `n ≥ 1`: a successful run appends a block of product `n`. -/
theorem factorImpl_mul {o : Oracle σ} (hok : OracleOK o) (alg : Algo) :
    ∀ (fuel n : Nat) (s s' : St σ), 1 ≤ n → factorImpl o fuel n alg s = .ok s' → Mul s s' n := by
  intro fuel
  induction fuel with
  | zero => intro n s s' _ h; rw [factorImpl_zero] at h; exact absurd h (by simp)
  | succ fuel ih =>
    intro n s s' hn1 h
    have sh := factorImpl_shape o fuel n alg s
    generalize factorImpl o (fuel + 1) n alg s = r at sh h
    cases sh with
    | one h1 => injection h with h; subst h; rw [h1]; exact Mul.of_sim (St.sim_refl _)
    | pp p k s0 hn hpp hf0 hg0 =>
      obtain ⟨s'', hr, hs'⟩ := ppResult_ok h
      obtain ⟨hpk, _, hp2⟩ := hok.pp s.os n p k (by omega) hpp
      obtain ⟨new, hf, hp⟩ := ih p s0 s'' (by omega) hr
      rw [hf0, List.nil_append] at hf
      exact ⟨replicateAppend k new, by rw [hs', hf], by rw [replicateAppend_prod, hp, hpk]⟩
    | prime s1 t hn hsim hp => injection h with h; subst h; exact Mul.push hsim n
    | giveup s1 hn hsim => injection h with h; subst h; exact Mul.giveup hsim n
    | split s1 L hn hsim hL =>
      have hn2 : 2 ≤ n := by omega
      have hparts := hL.parts hok hn2
      have := bindList_mul (fun m hm s s' hm' => ih m s s' (hparts m hm).1 hm') h
      rw [(hL.ok hok hn2).1] at this
      exact Mul.sim_left hsim this
    | sieve s1 t a ds facs hn hsim _ hc =>
      obtain ⟨hprod, hfacs⟩ := combineDivs_single hc
      have := bindList_mul (f := finalStep o (fun m s => factorImpl o fuel m alg s) n) (L := facs)
        ?_ h
      · rw [hprod] at this; exact Mul.sim_left hsim this
      intro f hf s2 s2' hstep
      have hf1 : 1 ≤ f := Nat.pos_of_dvd_of_pos (hfacs f hf).1 (by omega)
      unfold finalStep at hstep
      split at hstep
      · injection hstep with hstep; subst hstep; exact Mul.giveup (St.sim_refl _) f
      · split at hstep
        · exact Mul.sim_left (s1 := { s2 with os := (o.prime s2.os f).2 }) ⟨rfl, rfl⟩
            (ih f _ s2' hf1 hstep)
        · injection hstep with hstep; subst hstep; exact Mul.push ⟨rfl, rfl⟩ f
    | panicBits => exact absurd h (by simp)
    | panicUnexpected => exact absurd h (by simp)
    | panicCombine => exact absurd h (by simp)
    | fuelCombine => exact absurd h (by simp)

/-! ### C. totality (under the oracle contract) -/

theorem bindList_total {f : St σ → Nat → Res (St σ)} {L : List Nat}
    (hf : ∀ m ∈ L, ∀ s, ∃ s', f s m = .ok s') (s : St σ) : ∃ s', bindList f L s = .ok s' := by
  induction L generalizing s with
  | nil => exact ⟨s, rfl⟩
  | cons a as ih =>
    obtain ⟨s1, h1⟩ := hf a (by simp) s
    rw [bindList, h1]
    exact ih (fun m hm => hf m (by simp [hm])) s1

/-- selector precondition (lib.rs:411, 429, 450: `assert!(n.bits() <= 64)`) -/
def SelectorPre (alg : Algo) (n : Nat) : Prop :=
  (alg = .qs64 ∨ alg = .rho ∨ alg = .squfof) → bits n ≤ 64

theorem SelectorPre.mono {alg : Algo} {m n : Nat} (h : SelectorPre alg n) (hmn : m ≤ n) :
    SelectorPre alg m := fun ha => Nat.le_trans (bits_le_of_le hmn) (h ha)

/-- **C.** Under `OracleOK`: with the selector precondition and fuel at least `bits n`, the run
ends with `.ok` — no panic site, no fuel exhaustion. Every recursive call is on a proper
divisor, hence at least one bit shorter. -/
theorem factorImpl_total_aux {o : Oracle σ} (hok : OracleOK o) (alg : Algo) :
    ∀ (fuel n : Nat) (s : St σ), 1 ≤ n → bits n ≤ fuel → SelectorPre alg n →
      ∃ s', factorImpl o fuel n alg s = .ok s' := by
  intro fuel
  induction fuel with
  | zero => intro n s hn hb _; have := bits_pos hn; omega
  | succ fuel ih =>
    intro n s hn1 hb hsel
    by_cases h1 : n = 1
    · subst h1; exact ⟨s, by rw [factorImpl_succ, factorStep_one]⟩
    have hn2 : 2 ≤ n := by omega
    -- recursive calls on proper divisors are fine
    have hrec : ∀ m, 1 ≤ m → m ∣ n → m < n → ∀ s, ∃ s', factorImpl o fuel m alg s = .ok s' := by
      intro m hm hd hlt s
      have := bits_lt_of_dvd_lt hm hd hlt
      exact ih m s hm (by omega) (hsel.mono (Nat.le_of_lt hlt))
    have sh := factorImpl_shape o fuel n alg s
    generalize factorImpl o (fuel + 1) n alg s = r at sh
    cases sh with
    | one _ => exact ⟨_, rfl⟩
    | pp p k s0 hn hpp hf0 hg0 =>
      obtain ⟨hpk, hk2, hp2⟩ := hok.pp s.os n p k hn2 hpp
      have hlt : p < n := by
        rw [← hpk]
        calc p = p ^ 1 := (Nat.pow_one p).symm
          _ < p ^ k := Nat.pow_lt_pow_right (by omega) (by omega)
      obtain ⟨s'', hs''⟩ := hrec p (by omega) (hpk ▸ Dvd.intro_left (p ^ (k - 1)) (by
        rw [← Nat.pow_succ]; congr 1; omega)) hlt s0
      exact ⟨_, by rw [hs'']; rfl⟩
    | prime s1 t hn hsim hp => exact ⟨_, rfl⟩
    | giveup s1 hn hsim => exact ⟨_, rfl⟩
    | split s1 L hn hsim hL =>
      have hparts := hL.parts hok hn2
      exact bindList_total (fun m hm s => hrec m (hparts m hm).1 (hparts m hm).2.1 (hparts m hm).2.2 s) s1
    | sieve s1 t a ds facs hn hsim _ hc =>
      obtain ⟨hprod, hfacs⟩ := combineDivs_single hc
      refine bindList_total ?_ s1
      intro f hf s2
      unfold finalStep
      split
      · exact ⟨_, rfl⟩
      · rename_i hfn
        split
        · have hd := (hfacs f hf).1
          have hle := Nat.le_of_dvd (by omega) hd
          exact hrec f (Nat.pos_of_dvd_of_pos hd (by omega)) hd (by omega) _
        · exact ⟨_, rfl⟩
    | panicBits e ha hb64 => exact absurd (hsel ha) (by omega)
    | panicUnexpected t a e hs =>
      have := (hok.sieveUnexpected t a n 0 hn2 hs).2.1
      omega
    | panicCombine t a ds e hs hc =>
      obtain ⟨facs, hfacs⟩ := combineDivs_no_panic [n] ds (by simp; omega)
        (fun d hd => by simpa using (hok.sieveDivs t a n ds hn2 hs d hd).1)
      rw [hfacs] at hc; exact absurd hc (by simp)
    | fuelCombine ds hc => exact absurd hc (combineDivs_ne_fuel _ _)

end Ymq.Factor
