/-
C04 instantiated with the relation store of C11 (kept in its own module so that C04's generic
theorems do not depend on C11's files).
-/
import Ymq.Props.C04
import Ymq.Props.C11

namespace Ymq.C04
open Ymq.Sched Ymq.Relations

/-- the relation store of C11 as a store of the scheduling model: an `add` that panics poisons
the store (the real process would have aborted) -/
def addE (s : M Store) (op : Relation × Option (Nat × Nat)) : M Store :=
  match s with
  | .ok st => Ymq.Relations.add op.1 op.2 st
  | .error e => .error e

/-- **C04 ∘ C11**: for EVERY interleaving of the workers' atomic `add`s and every pattern of stale
completion-flag reads, if the relations found by the work units satisfy the callers' contract
(`InputOK`: true congruences with the cofactor data the sieve supplies) then whenever the shared
store has not panicked it satisfies the relation-store invariant of C11 — in particular every
published cycle is a true congruence — and it equals the sequential replay of the lock-order
history. -/
theorem sched_relations_valid (n fbsize maxlarge : Nat) (hn : n ≤ 2 ^ 512)
    (enough : M Store → Bool) (progs : List (List (List (Relation × Option (Nat × Nat)))))
    (hgood : ∀ prog ∈ progs, ∀ u ∈ prog, ∀ op ∈ u, InputOK n op.1 op.2)
    (sched : List (Nat × Bool × Bool)) :
    let c := run addE enough (init (.ok (Store.new n fbsize maxlarge)) progs) sched
    c.store = c.log.foldl addE (.ok (Store.new n fbsize maxlarge)) ∧
    (∀ st, c.store = .ok st → Inv st ∧ st.n = n ∧
      ∀ r ∈ st.cycles, r.cofactor = 1 ∧ (r.x : Int) * r.x ≡ fprod r.factors [ZMOD n]) := by
  intro c
  have h := sched_inv (ρ := Relation × Option (Nat × Nat)) (σ := M Store) addE enough
    (fun s => ∀ st, s = .ok st → Inv st ∧ st.n = n)
    (fun op => InputOK n op.1 op.2)
    (by
      intro s op hs hop st' hst'
      cases s with
      | error e => simp [addE] at hst'
      | ok st =>
        obtain ⟨hi, hnn⟩ := hs st rfl
        simp only [addE] at hst'
        have := C11.add_inv st st' op.1 op.2 hi (by rw [hnn]; exact hn) (by rw [hnn]; exact hop) hst'
        exact ⟨this.1, by rw [this.2.1, hnn]⟩)
    (.ok (Store.new n fbsize maxlarge)) progs
    (by
      intro st hst
      injection hst with hst; subst hst
      exact (C11.history_inv n fbsize maxlarge hn [] (by intro op hop; simp at hop) _ rfl))
    hgood sched
  obtain ⟨h1, h2, _, _⟩ := h
  refine ⟨h1, ?_⟩
  intro st hst
  obtain ⟨hi, hnn⟩ := h2 st hst
  refine ⟨hi, hnn, ?_⟩
  intro r hr
  obtain ⟨c1, c2⟩ := hi.cyc r hr
  refine ⟨c1, ?_⟩
  unfold Valid at c2
  rw [c1, hnn] at c2
  simpa using c2

theorem foldl_addE_error (e : Err) (l : List (Relation × Option (Nat × Nat))) :
    l.foldl addE (.error e) = .error e := by
  induction l with
  | nil => rfl
  | cons a t ih => simp only [List.foldl_cons, addE]; exact ih

theorem foldl_addE_runHistory : ∀ (l : List (Relation × Option (Nat × Nat))) (s : Store),
    l.foldl addE (.ok s) = runHistory l s
  | [], s => rfl
  | (r, pq) :: t, s => by
    simp only [List.foldl_cons, addE, runHistory]
    cases h : Ymq.Relations.add r pq s with
    | error e => rw [foldl_addE_error]; rfl
    | ok s1 => rw [foldl_addE_runHistory t s1]; rfl

/-- **No consistency assertion of the shared store can fire under any schedule**: if every relation
the work units produce satisfies the callers' contract `InputOK2` (what siqs/mpqs/qs and
`fbase::cofactor` guarantee: C11), then for EVERY interleaving and every pattern of stale flag reads
the shared relation store never reaches an assert, unwrap or debug assertion of `RelationSet::add`
— the only error the model can return is the `u64` counter overflow. -/
theorem sched_no_panic (n fbsize maxlarge : Nat) (hn : n ≤ 2 ^ 512)
    (enough : M Store → Bool) (progs : List (List (List (Relation × Option (Nat × Nat)))))
    (hgood : ∀ prog ∈ progs, ∀ u ∈ prog, ∀ op ∈ u,
      ∀ s : Store, s.n = n → s.maxlarge = maxlarge → InputOK2 s op.1 op.2)
    (sched : List (Nat × Bool × Bool)) :
    ∀ e, (run addE enough (init (.ok (Store.new n fbsize maxlarge)) progs) sched).store = .error e →
      e = .overflow := by
  intro e he
  have h := sched_inv (ρ := Relation × Option (Nat × Nat)) (σ := M Store) addE enough
    (fun _ => True) (fun _ => True) (fun _ _ _ _ => trivial)
    (.ok (Store.new n fbsize maxlarge)) progs trivial (fun _ _ _ _ _ _ => trivial) sched
  obtain ⟨h1, _, _, h4⟩ := h
  rw [h1, foldl_addE_runHistory] at he
  refine C11.history_no_panic n fbsize maxlarge hn _ ?_ e he
  intro op hop s hs hm
  obtain ⟨prog, hp, u, hu, hou⟩ := h4 op hop
  exact hgood prog hp u hu op hou s hs hm

end Ymq.C04
