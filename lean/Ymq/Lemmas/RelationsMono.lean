/-
Structural monotonicity of the relation store (C11): `partial` only gains keys, `doubles` only
loses entries, and a double that disappears leaves both its primes as keys of `partial`.
Used by `doubles_disjoint` and by `add_no_panic` (fuel and `assert!(ok)`).
-/
import Ymq.Lemmas.RelationsStore

namespace Ymq.Relations

/-- `p` is a key of `partial` -/
def pkey (s : Store) (k : Nat) : Prop := ∃ b, (k, b) ∈ s.partials

/-- `(p, q)` is a key of `doubles` -/
def dkey (s : Store) (k : Nat × Nat) : Prop := ∃ b, (k, b) ∈ s.doubles

theorem pkey_of_lookup {s : Store} {k : Nat} {b : List Nat} (h : alookup k s.partials = some b) :
    pkey s k := ⟨b, alookup_mem h⟩

theorem not_pkey_of_lookup {s : Store} {k : Nat} (h : alookup k s.partials = none) : ¬ pkey s k := by
  rintro ⟨b, hb⟩; exact alookup_none h b hb

theorem alookup_isSome_of_mem {κ β : Type} [DecidableEq κ] {k : κ} :
    ∀ {l : List (κ × β)} {v : β}, (k, v) ∈ l → ∃ v', alookup k l = some v' := by
  intro l
  induction l with
  | nil => intro v h; cases h
  | cons e t ih =>
    obtain ⟨k', v'⟩ := e
    intro v h
    unfold alookup
    split
    · exact ⟨v', rfl⟩
    · rename_i hk
      rcases List.mem_cons.mp h with h | h
      · simp only [Prod.mk.injEq] at h; exact absurd h.1.symm hk
      · exact ih h

theorem pkey_setPartial {s : Store} {p k : Nat} {b : List Nat} :
    pkey (s.setPartial p b) k ↔ k = p ∨ pkey s k := by
  unfold pkey Store.setPartial
  simp only [mem_ainsert]
  constructor
  · rintro ⟨b', h | ⟨h, _⟩⟩
    · simp only [Prod.mk.injEq] at h; exact Or.inl h.1
    · exact Or.inr ⟨b', h⟩
  · rintro (h | ⟨b', h⟩)
    · exact ⟨b, Or.inl (by rw [h])⟩
    · by_cases hk : k = p
      · exact ⟨b, Or.inl (by rw [hk])⟩
      · exact ⟨b', Or.inr ⟨h, hk⟩⟩

structure Mono (s s' : Store) : Prop where
  pmono : ∀ k, pkey s k → pkey s' k
  dsub : ∀ e ∈ s'.doubles, e ∈ s.doubles
  dlen : s'.doubles.length ≤ s.doubles.length
  removed : ∀ k, dkey s k → ¬ dkey s' k → k.1 ≠ k.2 → pkey s' k.1 ∧ pkey s' k.2

theorem Mono.refl (s : Store) : Mono s s :=
  ⟨fun _ h => h, fun _ h => h, Nat.le_refl _, fun _ h1 h2 _ => absurd h1 h2⟩

theorem Mono.trans {s s1 s2 : Store} (h1 : Mono s s1) (h2 : Mono s1 s2) : Mono s s2 := by
  refine ⟨fun k h => h2.pmono k (h1.pmono k h), fun e h => h1.dsub e (h2.dsub e h),
    Nat.le_trans h2.dlen h1.dlen, ?_⟩
  intro k hk hnk hne
  by_cases hk1 : dkey s1 k
  · exact h2.removed k hk1 hnk hne
  · obtain ⟨a, b⟩ := h1.removed k hk hk1 hne
    exact ⟨h2.pmono _ a, h2.pmono _ b⟩

/-- a store that differs only in `partial` (more keys), cycles and counters -/
theorem mono_of_same_doubles {s s' : Store} (hp : ∀ k, pkey s k → pkey s' k)
    (hd : s'.doubles = s.doubles) : Mono s s' := by
  refine ⟨hp, by rw [hd]; exact fun _ h => h, by rw [hd], ?_⟩
  intro k hk hnk _
  exact absurd (by unfold dkey at *; rw [hd]; exact hk) hnk

theorem mono_setPartial (s : Store) (p : Nat) (b : List Nat) : Mono s (s.setPartial p b) :=
  mono_of_same_doubles (fun _ h => pkey_setPartial.mpr (Or.inr h)) rfl

theorem addCycle_mono {r : Relation} {s s' : Store} (h : addCycle r s = .ok s') :
    Mono s s' ∧ s'.partials = s.partials ∧ s'.doubles = s.doubles ∧ s'.doublesRev = s.doublesRev := by
  obtain ⟨_, _, hs⟩ := addCycle_ok h
  subst hs
  exact ⟨mono_of_same_doubles (fun _ h => h) rfl, rfl, rfl, rfl⟩

theorem combineSingle_mono {r : Relation} {s s' : Store} {done : Bool}
    (h : combineSingle r s = .ok (done, s')) :
    Mono s s' ∧ (∀ k, pkey s' k ↔ pkey s k) ∧ s'.doubles = s.doubles ∧
      s'.doublesRev = s.doublesRev := by
  unfold combineSingle at h
  split at h
  · simp only [pure_eq_ok, Prod.mk.injEq] at h
    rw [← h.2]; exact ⟨Mono.refl s, fun _ => Iff.rfl, rfl, rfl⟩
  · rename_i blob hlook
    simp only [bind_eq_ok] at h
    obtain ⟨r0, _, rr, _, h⟩ := h
    split at h
    · simp only [pure_eq_ok, Prod.mk.injEq] at h
      rw [← h.2]; exact ⟨Mono.refl s, fun _ => Iff.rfl, rfl, rfl⟩
    · split at h
      · simp only [bind_eq_ok] at h
        obtain ⟨s1, hs1, h⟩ := h
        obtain ⟨hm, hp, hd, hr⟩ := addCycle_mono hs1
        have hpk : ∀ k, pkey s1 k ↔ pkey s k := by intro k; unfold pkey; rw [hp]
        split at h
        · simp only [bind_eq_ok, pure_eq_ok, Prod.mk.injEq] at h
          obtain ⟨b, _, _, h⟩ := h
          rw [← h]
          refine ⟨hm.trans (mono_setPartial _ _ _), ?_, hd, hr⟩
          intro k
          rw [pkey_setPartial, hpk]
          constructor
          · rintro (hk | hk)
            · rw [hk]; exact pkey_of_lookup hlook
            · exact hk
          · exact fun hk => Or.inr hk
        · simp only [pure_eq_ok, Prod.mk.injEq] at h
          rw [← h.2]; exact ⟨hm, hpk, hd, hr⟩
      · simp [throw_ne_ok] at h

theorem combineDouble_mono {walk : Nat → Store → M Store}
    (hwalk : ∀ root s s', walk root s = .ok s' → Mono s s')
    {r : Relation} {p q : Nat} {s s' : Store} {done : Bool}
    (h : combineDouble walk r p q s = .ok (done, s')) :
    Mono s s' ∧ (done = true → p ≠ q → pkey s' p ∧ pkey s' q) ∧
      (done = false → s' = s ∧ ¬ pkey s p ∧ ¬ pkey s q) := by
  unfold combineDouble at h
  split at h
  · rename_i hpq
    simp only [bind_eq_ok, pure_eq_ok, Prod.mk.injEq] at h
    obtain ⟨s1, hs1, hd, h⟩ := h
    rw [← h, ← hd]
    exact ⟨(addCycle_mono hs1).1, fun _ hne => absurd hpq hne, (fun hf => by cases hf)⟩
  · split at h
    · rename_i bp bq hlp hlq
      simp only [bind_eq_ok] at h
      obtain ⟨rp, _, rq, _, r1, _, r2, _, s1, hs1, h⟩ := h
      obtain ⟨hm, hp, _, _⟩ := addCycle_mono hs1
      have hpp : pkey s1 p := hm.pmono _ (pkey_of_lookup hlp)
      have hpq : pkey s1 q := hm.pmono _ (pkey_of_lookup hlq)
      split at h
      · simp only [bind_eq_ok] at h
        obtain ⟨rpq, _, h⟩ := h
        split at h
        · simp [throw_ne_ok] at h
        · simp only [bind_eq_ok, pure_eq_ok, Prod.mk.injEq] at h
          obtain ⟨b, _, hd, h⟩ := h
          rw [← h, ← hd]
          have hm2 := mono_setPartial s1 q b
          exact ⟨hm.trans hm2, fun _ _ => ⟨hm2.pmono _ hpp, hm2.pmono _ hpq⟩, (fun hf => by cases hf)⟩
      · split at h
        · simp only [bind_eq_ok] at h
          obtain ⟨rqp, _, h⟩ := h
          split at h
          · simp [throw_ne_ok] at h
          · simp only [bind_eq_ok, pure_eq_ok, Prod.mk.injEq] at h
            obtain ⟨b, _, hd, h⟩ := h
            rw [← h, ← hd]
            have hm2 := mono_setPartial s1 p b
            exact ⟨hm.trans hm2, fun _ _ => ⟨hm2.pmono _ hpp, hm2.pmono _ hpq⟩, (fun hf => by cases hf)⟩
        · simp only [pure_eq_ok, Prod.mk.injEq] at h
          rw [← h.2, ← h.1]
          exact ⟨hm, fun _ _ => ⟨hpp, hpq⟩, (fun hf => by cases hf)⟩
    · rename_i bp hlp hlq
      simp only [bind_eq_ok] at h
      obtain ⟨rp, _, rq, _, h⟩ := h
      split at h
      · simp [throw_ne_ok] at h
      · simp only [bind_eq_ok, pure_eq_ok, Prod.mk.injEq] at h
        obtain ⟨b, _, s1, hs1, hd, h⟩ := h
        rw [← h, ← hd]
        have hm0 : Mono s ({ s with nCombined12 := s.nCombined12 + 1 }.setPartial q b) :=
          mono_of_same_doubles (fun k hk => pkey_setPartial.mpr (Or.inr hk)) rfl
        have hm1 := hwalk _ _ _ hs1
        refine ⟨hm0.trans hm1, fun _ _ => ⟨?_, ?_⟩, (fun hf => by cases hf)⟩
        · exact hm1.pmono _ (pkey_setPartial.mpr (Or.inr (pkey_of_lookup hlp)))
        · exact hm1.pmono _ (pkey_setPartial.mpr (Or.inl rfl))
    · rename_i bq hlp hlq
      simp only [bind_eq_ok] at h
      obtain ⟨rq, _, rp, _, h⟩ := h
      split at h
      · simp [throw_ne_ok] at h
      · simp only [bind_eq_ok, pure_eq_ok, Prod.mk.injEq] at h
        obtain ⟨b, _, s1, hs1, hd, h⟩ := h
        rw [← h, ← hd]
        have hm0 : Mono s ({ s with nCombined12 := s.nCombined12 + 1 }.setPartial p b) :=
          mono_of_same_doubles (fun k hk => pkey_setPartial.mpr (Or.inr hk)) rfl
        have hm1 := hwalk _ _ _ hs1
        refine ⟨hm0.trans hm1, fun _ _ => ⟨?_, ?_⟩, (fun hf => by cases hf)⟩
        · exact hm1.pmono _ (pkey_setPartial.mpr (Or.inl rfl))
        · exact hm1.pmono _ (pkey_setPartial.mpr (Or.inr (pkey_of_lookup hlq)))
    · rename_i hlp hlq
      simp only [pure_eq_ok, Prod.mk.injEq] at h
      rw [← h.2, ← h.1]
      exact ⟨Mono.refl s, (fun hf => by cases hf),
        fun _ => ⟨rfl, not_pkey_of_lookup hlp, not_pkey_of_lookup hlq⟩⟩

theorem aerase_length_lt {κ β : Type} [DecidableEq κ] {k : κ} {v : β} {l : List (κ × β)}
    (h : (k, v) ∈ l) : (aerase k l).length < l.length := by
  unfold aerase
  induction l with
  | nil => cases h
  | cons e t ih =>
    simp only [List.filter_cons]
    split
    · rename_i hk
      rcases List.mem_cons.mp h with h | h
      · subst h; simp at hk
      · simp only [List.length_cons]; exact Nat.succ_lt_succ (ih h)
    · simp only [List.length_cons]
      exact Nat.lt_succ_of_le (List.length_filter_le _ _)

/-- erasing one double -/
theorem mono_erase (s : Store) (p q : Nat) :
    let s1 : Store := { s with doubles := aerase (p, q) s.doubles, doublesRev := serase (q, p) s.doublesRev }
    (∀ k, pkey s1 k ↔ pkey s k) ∧ (∀ e ∈ s1.doubles, e ∈ s.doubles) ∧
      s1.doubles.length ≤ s.doubles.length ∧ ¬ dkey s1 (p, q) ∧
      (∀ k, dkey s k → k ≠ (p, q) → dkey s1 k) := by
  refine ⟨fun _ => Iff.rfl, fun e he => (mem_aerase.mp he).1, List.length_filter_le _ _, ?_, ?_⟩
  · rintro ⟨b, hb⟩
    exact (mem_aerase.mp hb).2 rfl
  · rintro k ⟨b, hb⟩ hne
    exact ⟨b, mem_aerase.mpr ⟨hb, hne⟩⟩

theorem walkStep_mono {walk : Nat → Store → M Store}
    (hwalk : ∀ root s s', walk root s = .ok s' → Mono s s')
    {p q : Nat} {s s' : Store} (h : walkStep walk p q s = .ok s') :
    Mono s s' ∧ ¬ dkey s' (p, q) ∧
      (dkey s (p, q) → s'.doubles.length < s.doubles.length) := by
  unfold walkStep at h
  split at h
  · rename_i hlook
    simp only [pure_eq_ok] at h
    rw [← h]
    have hno : ¬ dkey s (p, q) := by rintro ⟨b, hb⟩; exact alookup_none hlook b hb
    exact ⟨Mono.refl s, hno, fun hd => absurd hd hno⟩
  · rename_i blob hlook
    simp only [bind_eq_ok] at h
    obtain ⟨r, _, res, hres, h⟩ := h
    split at h
    · rename_i hdone
      simp only [pure_eq_ok] at h
      rw [← h]
      obtain ⟨hpk, hsub, hlen, hnk, hkeep⟩ := mono_erase s p q
      obtain ⟨hm, hdone', _⟩ := combineDouble_mono hwalk (done := res.1) (s' := res.2) hres
      have hnk' : ¬ dkey res.2 (p, q) := by
        rintro ⟨b, hb⟩; exact hnk ⟨b, hm.dsub _ hb⟩
      refine ⟨⟨?_, ?_, ?_, ?_⟩, hnk', ?_⟩
      · intro k hk; exact hm.pmono k ((hpk k).mpr hk)
      · intro e he; exact hsub e (hm.dsub e he)
      · exact Nat.le_trans hm.dlen hlen
      · intro k hk hnk2 hne
        by_cases hkk : k = (p, q)
        · rw [hkk] at hne ⊢; exact hdone' hdone hne
        · exact hm.removed k (hkeep k hk hkk) hnk2 hne
      · intro _
        exact lt_of_le_of_lt hm.dlen (aerase_length_lt (alookup_mem hlook))
    · simp [throw_ne_ok] at h

/-- a loop of `walkStep`s over keys: all of them are gone afterwards -/
theorem walkLoop1_mono {walk : Nat → Store → M Store}
    (hwalk : ∀ root s s', walk root s = .ok s' → Mono s s') :
    ∀ (l : List (Nat × Nat)) (s s' : Store), walkLoop1 walk l s = .ok s' →
      Mono s s' ∧ (∀ k ∈ l, ¬ dkey s' k) ∧
        ((∃ k ∈ l, dkey s k) → s'.doubles.length < s.doubles.length) := by
  intro l
  induction l with
  | nil =>
    intro s s' h
    simp only [walkLoop1, pure_eq_ok] at h
    rw [← h]
    exact ⟨Mono.refl s, (fun k hk => by cases hk), (fun ⟨k, hk, _⟩ => by cases hk)⟩
  | cons e t ih =>
    obtain ⟨p, q⟩ := e
    intro s s' h
    simp only [walkLoop1, bind_eq_ok] at h
    obtain ⟨s1, hs1, h⟩ := h
    obtain ⟨hm1, hn1, hl1⟩ := walkStep_mono hwalk hs1
    obtain ⟨hm2, hn2, hl2⟩ := ih s1 s' h
    refine ⟨hm1.trans hm2, ?_, ?_⟩
    · intro k hk
      rcases List.mem_cons.mp hk with hk | hk
      · rw [hk]; rintro ⟨b, hb⟩; exact hn1 ⟨b, hm2.dsub _ hb⟩
      · exact hn2 k hk
    · rintro ⟨k, hk, hd⟩
      rcases List.mem_cons.mp hk with hk | hk
      · rw [hk] at hd
        exact lt_of_le_of_lt hm2.dlen (hl1 hd)
      · by_cases hd1 : dkey s1 k
        · exact lt_of_lt_of_le (hl2 ⟨k, hk, hd1⟩) hm1.dlen
        · by_cases hpq : dkey s (p, q)
          · exact lt_of_le_of_lt hm2.dlen (hl1 hpq)
          · -- k was a key of s but not of s1, although walkStep(p, q) found nothing to do
            exfalso
            unfold walkStep at hs1
            have hlook : alookup (p, q) s.doubles = none := by
              cases hl : alookup (p, q) s.doubles with
              | none => rfl
              | some b => exact absurd ⟨b, alookup_mem hl⟩ hpq
            rw [hlook] at hs1
            simp only [pure_eq_ok] at hs1
            rw [← hs1] at hd1
            exact hd1 hd

theorem walkLoop2_mono {walk : Nat → Store → M Store}
    (hwalk : ∀ root s s', walk root s = .ok s' → Mono s s') :
    ∀ (l : List (Nat × Nat)) (s s' : Store), walkLoop2 walk l s = .ok s' →
      Mono s s' ∧ (∀ k ∈ l, ¬ dkey s' (k.2, k.1)) ∧
        ((∃ k ∈ l, dkey s (k.2, k.1)) → s'.doubles.length < s.doubles.length) := by
  intro l
  induction l with
  | nil =>
    intro s s' h
    simp only [walkLoop2, pure_eq_ok] at h
    rw [← h]
    exact ⟨Mono.refl s, (fun k hk => by cases hk), (fun ⟨k, hk, _⟩ => by cases hk)⟩
  | cons e t ih =>
    obtain ⟨q, p⟩ := e
    intro s s' h
    simp only [walkLoop2, bind_eq_ok] at h
    obtain ⟨s1, hs1, h⟩ := h
    obtain ⟨hm1, hn1, hl1⟩ := walkStep_mono hwalk hs1
    obtain ⟨hm2, hn2, hl2⟩ := ih s1 s' h
    refine ⟨hm1.trans hm2, ?_, ?_⟩
    · intro k hk
      rcases List.mem_cons.mp hk with hk | hk
      · rw [hk]; rintro ⟨b, hb⟩; exact hn1 ⟨b, hm2.dsub _ hb⟩
      · exact hn2 k hk
    · rintro ⟨k, hk, hd⟩
      rcases List.mem_cons.mp hk with hk | hk
      · rw [hk] at hd
        exact lt_of_le_of_lt hm2.dlen (hl1 hd)
      · by_cases hd1 : dkey s1 (k.2, k.1)
        · exact lt_of_lt_of_le (hl2 ⟨k, hk, hd1⟩) hm1.dlen
        · by_cases hpq : dkey s (p, q)
          · exact lt_of_le_of_lt hm2.dlen (hl1 hpq)
          · exfalso
            unfold walkStep at hs1
            have hlook : alookup (p, q) s.doubles = none := by
              cases hl : alookup (p, q) s.doubles with
              | none => rfl
              | some b => exact absurd ⟨b, alookup_mem hl⟩ hpq
            rw [hlook] at hs1
            simp only [pure_eq_ok] at hs1
            rw [← hs1] at hd1
            exact hd1 hd

theorem walkRec_mono {walk : Nat → Store → M Store}
    (hwalk : ∀ root s s', walk root s = .ok s' → Mono s s') (root : Nat) :
    ∀ (l : List (Nat × Nat)) (s s' : Store), walkRec walk root l s = .ok s' → Mono s s' := by
  intro l
  induction l with
  | nil =>
    intro s s' h
    simp only [walkRec, pure_eq_ok] at h
    rw [← h]; exact Mono.refl s
  | cons e t ih =>
    obtain ⟨a, b⟩ := e
    intro s s' h
    unfold walkRec at h
    split at h
    · simp [throw_ne_ok] at h
    · simp only [bind_eq_ok] at h
      obtain ⟨s1, hs1, h⟩ := h
      exact (hwalk _ _ _ hs1).trans (ih s1 s' h)

/-- the keys `walk_doubles(root)` works on -/
def pqsOf (s : Store) (root : Nat) : List (Nat × Nat) :=
  (s.doubles.filter (fun e => e.1.1 = root)).map (fun e => e.1)

def qpsOf (s : Store) (root : Nat) : List (Nat × Nat) :=
  s.doublesRev.filter (fun e => e.1 = root)

theorem mem_pqsOf {s : Store} {root : Nat} {k : Nat × Nat} :
    k ∈ pqsOf s root ↔ dkey s k ∧ k.1 = root := by
  unfold pqsOf dkey
  simp only [List.mem_map, List.mem_filter, decide_eq_true_eq]
  constructor
  · rintro ⟨e, ⟨he, hr⟩, rfl⟩
    exact ⟨⟨e.2, he⟩, hr⟩
  · rintro ⟨⟨b, hb⟩, hr⟩
    exact ⟨(k, b), ⟨hb, hr⟩, rfl⟩

theorem mem_qpsOf {s : Store} (hi : Inv s) {root : Nat} {k : Nat × Nat} :
    k ∈ qpsOf s root ↔ dkey s (k.2, k.1) ∧ k.1 = root := by
  unfold qpsOf dkey
  simp only [List.mem_filter, decide_eq_true_eq]
  rw [show k = (k.1, k.2) from rfl, hi.rev k.2 k.1]

theorem walkDoubles_unfold (fuel root : Nat) (s : Store) :
    walkDoubles (fuel + 1) root s =
      (if root + 1 ≥ W32 then throw .panic
      else do
        let s1 ← walkLoop1 (walkDoubles fuel) (pqsOf s root) s
        let s2 ← walkLoop2 (walkDoubles fuel) (qpsOf s root) s1
        let s3 ← walkRec (walkDoubles fuel) root (pqsOf s root) s2
        walkRec (walkDoubles fuel) root (qpsOf s root) s3) := rfl

/-- `walk_doubles(root)` is monotone, unconditionally -/
theorem walkDoubles_mono : ∀ (fuel root : Nat) (s s' : Store),
    walkDoubles fuel root s = .ok s' → Mono s s' := by
  intro fuel
  induction fuel with
  | zero => intro root s s' h; simp [walkDoubles, throw_ne_ok] at h
  | succ fuel ih =>
    intro root s s' h
    rw [walkDoubles_unfold] at h
    split at h
    · simp [throw_ne_ok] at h
    · simp only [bind_eq_ok] at h
      obtain ⟨s1, hs1, s2, hs2, s3, hs3, h⟩ := h
      exact (((walkLoop1_mono ih _ _ _ hs1).1.trans (walkLoop2_mono ih _ _ _ hs2).1).trans
        (walkRec_mono ih root _ _ _ hs3)).trans (walkRec_mono ih root _ _ _ h)

/-- `add` is monotone except for the double it may store -/
theorem add_mono {r : Relation} {pq : Option (Nat × Nat)} {s s' : Store}
    (h : add r pq s = .ok s') : ∀ k, pkey s k → pkey s' k := by
  unfold add at h
  split at h
  · simp [throw_ne_ok] at h
  · split at h
    · exact (addCycle_mono h).1.pmono
    · split at h
      · simp only [bind_eq_ok] at h
        obtain ⟨res, hres, h⟩ := h
        obtain ⟨hm, _, _, _⟩ := combineSingle_mono (done := res.1) (s' := res.2) hres
        split at h
        · simp only [pure_eq_ok] at h
          rw [← h]; exact fun k hk => hm.pmono k hk
        · simp only [bind_eq_ok] at h
          obtain ⟨b, _, h⟩ := h
          split at h
          · simp [throw_ne_ok] at h
          · have := walkDoubles_mono _ _ _ _ h
            exact fun k hk => this.pmono k ((mono_setPartial _ _ _).pmono k (hm.pmono k hk))
      · split at h
        · simp only [pure_eq_ok] at h
          rw [← h]; exact fun _ hk => hk
        · split at h
          · simp [throw_ne_ok] at h
          · simp only [bind_eq_ok] at h
            obtain ⟨res, hres, h⟩ := h
            obtain ⟨hm, _, _⟩ := combineDouble_mono (fun root s s' h => walkDoubles_mono _ root s s' h)
              (done := res.1) (s' := res.2) hres
            split at h
            · simp only [pure_eq_ok] at h
              rw [← h]; exact fun k hk => hm.pmono k hk
            · simp only [bind_eq_ok, pure_eq_ok] at h
              obtain ⟨b, _, h⟩ := h
              rw [← h]
              exact fun k hk => hm.pmono k hk

end Ymq.Relations
