/-
Driver of the models of `pollard_rho::rho` and `pollard_rho::rho_semiprime` (Ymq/Model/PollardRho.lean).

  rho <n>            -> `none` | `some <a1,a2,..> <b>` | `panic`     (n: any Uint; same request as harness/src/ops_rho.rs)
  rho_semiprime <n>  -> `none` | `some <a> <b>` | `panic`            (n: a u64)

The follow-up requests of the trace replay of C01/C03 use `rho <n>` with the answer the real run
recorded (trace event `rho:<n>:<a_s>:<b>` / `rho:<n>:none`).
-/
import Ymq.Drv.Util
import Ymq.Model.PollardRho

namespace Ymq.Drv
open Ymq.PollardRho

def showRho : Option (Option (List Nat × Nat)) → String
  | none => "panic"
  | some none => "none"
  | some (some (as, b)) => s!"some {showList as} {b}"

def showRhoPair : Option (Option (Nat × Nat)) → String
  | none => "panic"
  | some none => "none"
  | some (some (a, b)) => s!"some {a} {b}"

def handlePollardRho : Handler
  | ["rho", n] => do
    let n ← parseNat n
    if n ≥ 2 ^ 1024 then none else
    some (showRho (rho n))
  | ["rho_semiprime", n] => do
    let n ← parseNat n
    if n ≥ Ymq.Mg64.W then none else
    some (showRhoPair (rhoSemiprime n))
  | _ => none

end Ymq.Drv
