/-
Unit-level variant of the protocol model (Ymq/Model/Sched.lean) that keeps the unit boundaries, so that the two ways in
which the source reacts to a poll answered `true` can both be expressed (generated list `leavesLoop` of
Ymq/Gen/SchedShape.lean): `break` / `return` of the driver ends the worker's LOOP; `return` of the per-unit closure
(par_iter closures of siqs / mpqs / classgroup, `do_curve` of ecm) ends the UNIT only — the iteration goes on and the
next unit polls again. A worker is its current unit's remaining actions and the list of units still to do; taking the next
unit is a step of its own. Everything else is as in `step`. No Mathlib import.
-/
import Ymq.Model.SchedShape

namespace Ymq.Sched
open Ymq.Gen.SchedShape

variable {ρ σ : Type}

structure UWorker (ρ : Type) where
  cur : List (Act ρ)
  rest : List (List (Act ρ))

structure UCfg (ρ σ : Type) where
  store : σ
  log : List ρ
  done : Bool
  ws : List (UWorker ρ)

def stepU (leaves : Bool) (add : σ → ρ → σ) (enough : σ → Bool) (c : UCfg ρ σ) (w : Nat) (stale abort : Bool) :
    UCfg ρ σ :=
  match c.ws[w]? with
  | none => c
  | some ⟨[], []⟩ => c
  | some ⟨[], u :: us⟩ => { c with ws := c.ws.set w ⟨u, us⟩ }
  | some ⟨Act.poll :: l, rest⟩ =>
    if abort then { c with ws := c.ws.set w (if leaves then ⟨[], []⟩ else ⟨[], rest⟩) }
    else if c.done && !stale then { c with ws := c.ws.set w ⟨[], []⟩ }
    else { c with ws := c.ws.set w ⟨l, rest⟩ }
  | some ⟨Act.check :: l, rest⟩ =>
    if c.done && !stale then { c with ws := c.ws.set w ⟨[], []⟩ }
    else { c with ws := c.ws.set w ⟨l, rest⟩ }
  | some ⟨Act.add r :: l, rest⟩ =>
    { c with store := add c.store r, log := c.log ++ [r], ws := c.ws.set w ⟨l, rest⟩ }
  | some ⟨Act.publish :: l, rest⟩ =>
    { c with done := c.done || enough c.store, ws := c.ws.set w ⟨l, rest⟩ }

def runU (leaves : Bool) (add : σ → ρ → σ) (enough : σ → Bool) (c : UCfg ρ σ) :
    List (Nat × Bool × Bool) → UCfg ρ σ
  | [] => c
  | (w, st, ab) :: sched => runU leaves add enough (stepU leaves add enough c w st ab) sched

def initU (sh : Shape) (s0 : σ) (progs : List (List (List (List ρ)))) : UCfg ρ σ :=
  { store := s0, log := [], done := false, ws := progs.map (fun prog => ⟨[], prog.map (compileUnit sh)⟩) }

/-- adds a worker performs before it reaches the next poll of its current unit (or the unit's end) -/
def addsBefore : List (Act ρ) → Nat
  | [] => 0
  | Act.poll :: _ => 0
  | Act.add _ :: l => 1 + addsBefore l
  | Act.check :: l => addsBefore l
  | Act.publish :: l => addsBefore l

def finishedU (c : UCfg ρ σ) : Bool := c.ws.all (fun w => w.cur.isEmpty && w.rest.isEmpty)

end Ymq.Sched
