/- Termination of the main loop of `gcd_internal`: the product `x * y` shrinks by a factor 3/4 in
every iteration that continues. -/
import Ymq.Lemmas.GcdReduceInv
import Ymq.Lemmas.GcdLoop

namespace Ymq.Gcd

/-- what `reduce64` guarantees under the precondition of its caller (`x` has its top bit set,
`x >= y >= 2^32`): at least one step is performed, so the reduced vector `(u, v)` satisfies
`u <= y`, `2 v <= u`; the rows have entries of opposite signs. -/
theorem reduce64_pre {x y : Nat} {a b c d : Int} (hx : x < W) (hx63 : 2 ^ 63 ≤ x) (hyx : y ≤ x)
    (hy32 : 2 ^ 32 ≤ y) (h : reduce64 x y = some (a, b, c, d)) :
    ∃ u v : Nat, a * x + b * y = u ∧ c * x + d * y = v ∧ u ≤ y ∧ 2 * v ≤ u ∧
      |a| < 2 ^ 36 ∧ |b| < 2 ^ 36 ∧ |c| < 2 ^ 36 ∧ |d| < 2 ^ 36 ∧ a * b ≤ 0 ∧ c * d ≤ 0 ∧
      Unimod a b c d ∧ 2 ^ 24 ≤ u ∧ |a| * u ≤ 2 * y ∧ |c| * u ≤ 2 * y ∧ |b| * u ≤ 2 * x ∧
      |d| * u ≤ 2 * x := by
  obtain ⟨a', b', c', d', u, v, hr, hinv, hexit⟩ := reduce64_spec x y hx (by omega)
  rw [h] at hr
  simp only [Option.some.injEq, Prod.mk.injEq] at hr
  obtain ⟨rfl, rfl, rfl, rfl⟩ := hr
  have hxI : (0 : Int) < x := by exact_mod_cast (by omega : 0 < x)
  have hyI : (0 : Int) < y := by exact_mod_cast (by omega : 0 < y)
  have hphase : u ≤ y ∧ 2 * v ≤ u ∧ 2 ^ 24 ≤ u := by
    rcases hinv.phase with ⟨_, _, hc, hd, rfl, rfl⟩ | ⟨_, _, _, _, _, _, hlt⟩ | ⟨h1, h2, h3⟩
    · -- still in the initial state: impossible, the loop performs at least one iteration
      exfalso
      subst hc hd
      rcases hexit with hg | ⟨_, hb⟩
      · apply hg; constructor <;> omega
      · have hq : u / v < 2 ^ 32 := by
          rw [Nat.div_lt_iff_lt_mul (by omega)]
          unfold W at hx
          calc u < 2 ^ 64 := hx
            _ = 2 ^ 32 * 2 ^ 32 := by norm_num
            _ ≤ 2 ^ 32 * v := Nat.mul_le_mul_left _ hy32
        have h1 : bits (u / v + 1) ≤ 33 := bits_le_of_lt (by omega)
        have h2 : bits (max (0 : Int).natAbs (1 : Int).natAbs) ≤ 1 := bits_le_of_lt (by decide)
        omega
    · omega
    · exact ⟨by omega, h2, h3⟩
  have hU0 : (0 : Int) ≤ u := Int.natCast_nonneg _
  have hV0 : (0 : Int) ≤ v := Int.natCast_nonneg _
  have h2I : 2 * (v : Int) ≤ u := by exact_mod_cast hphase.2.1
  have huyI : (u : Int) ≤ y := by exact_mod_cast hphase.1
  have hyxI : (y : Int) ≤ x := by exact_mod_cast hyx
  have hXx : |d * (u : Int) - b * v| = x := by
    have e : d * (u : Int) - b * v = (a * d - b * c) * x := by
      rw [← hinv.relu, ← hinv.relv]; ring
    rw [e]
    rcases hinv.det with hd | hd <;> rw [hd] <;> simp [abs_of_nonneg (le_of_lt hxI)]
  have hXy : |c * (u : Int) - a * v| = y := by
    have e : c * (u : Int) - a * v = -((a * d - b * c) * y) := by
      rw [← hinv.relu, ← hinv.relv]; ring
    rw [e]
    rcases hinv.det with hd | hd <;> rw [hd] <;> simp [abs_of_nonneg (le_of_lt hyI)]
  obtain ⟨kd, kb⟩ := col_entry_bound hU0 hV0 h2I hinv.colbd hXx (le_trans huyI hyxI)
  obtain ⟨kc, ka⟩ := col_entry_bound hU0 hV0 h2I hinv.colac hXy huyI
  refine ⟨u, v, hinv.relu, hinv.relv, hphase.1, hphase.2.1, hinv.ba, hinv.bb, hinv.bc, hinv.bd, ?_, ?_,
    hinv.det, hphase.2.2, ka, kc, kb, kd⟩
  · -- a x + b y = u ≤ y ≤ x forces opposite signs
    by_contra hpos
    have hpos : 0 < a * b := by omega
    have hu : a * x + b * y ≤ y := by rw [hinv.relu]; exact_mod_cast hphase.1
    have hu0 : 0 ≤ a * x + b * y := by rw [hinv.relu]; exact Int.natCast_nonneg _
    rcases lt_trichotomy a 0 with ha | ha | ha
    · have hb : b < 0 := by nlinarith
      nlinarith
    · subst ha; simp at hpos
    · have hb : 0 < b := by nlinarith
      have : (1 : Int) ≤ a := by omega
      have : (1 : Int) ≤ b := by omega
      nlinarith
  · by_contra hpos
    have hpos : 0 < c * d := by omega
    have hv : c * x + d * y ≤ y := by rw [hinv.relv]; exact_mod_cast (by omega : v ≤ y)
    have hv0 : 0 ≤ c * x + d * y := by rw [hinv.relv]; exact Int.natCast_nonneg _
    rcases lt_trichotomy c 0 with hc | hc | hc
    · have hd : d < 0 := by nlinarith
      nlinarith
    · subst hc; simp at hpos
    · have hd : 0 < d := by nlinarith
      have : (1 : Int) ≤ c := by omega
      have : (1 : Int) ≤ d := by omega
      nlinarith

/-- applying a row with entries of opposite signs to the full operands: the result is the
reduced top value scaled by `2^k`, up to an error below `2^36 * 2^k` -/
theorem dot_bound {a b : Int} {T S xl yl K : Nat} {u : Nat} (hab : a * b ≤ 0)
    (ha : |a| < 2 ^ 36) (hb : |b| < 2 ^ 36) (hxl : xl < K) (hyl : yl < K)
    (hu : a * T + b * S = u) :
    |a * ((T * K + xl : Nat) : Int) + b * ((S * K + yl : Nat) : Int)| < ((u : Int) + 2 ^ 36) * K := by
  have e : a * ((T * K + xl : Nat) : Int) + b * ((S * K + yl : Nat) : Int)
      = (u : Int) * K + (a * xl + b * yl) := by
    push_cast; rw [← hu]; ring
  rw [e]
  have hK : (0 : Int) < K := by exact_mod_cast (by omega : 0 < K)
  have hxl' : (xl : Int) < K := by exact_mod_cast hxl
  have hyl' : (yl : Int) < K := by exact_mod_cast hyl
  have hxl0 : (0 : Int) ≤ xl := Int.natCast_nonneg _
  have hyl0 : (0 : Int) ≤ yl := Int.natCast_nonneg _
  have hu0 : (0 : Int) ≤ u := Int.natCast_nonneg _
  have ha' := abs_lt.1 ha
  have hb' := abs_lt.1 hb
  have huK : (0 : Int) ≤ u * K := mul_nonneg hu0 (le_of_lt hK)
  rw [abs_lt]
  rcases le_total 0 a with ha0 | ha0
  · have hb0 : b ≤ 0 ∨ a = 0 := by
      by_contra hcon; rw [not_or] at hcon
      have : 0 < a := lt_of_le_of_ne ha0 (Ne.symm hcon.2)
      have : 0 < b := not_le.1 hcon.1
      nlinarith
    rcases hb0 with hb0 | rfl
    · constructor <;> nlinarith
    · rcases le_total 0 b with hb0 | hb0 <;> constructor <;> nlinarith
  · have hb0 : 0 ≤ b ∨ a = 0 := by
      by_contra hcon; rw [not_or] at hcon
      have : a < 0 := lt_of_le_of_ne ha0 hcon.2
      have : b < 0 := not_le.1 hcon.1
      nlinarith
    rcases hb0 with hb0 | rfl
    · constructor <;> nlinarith
    · rcases le_total 0 b with hb0 | hb0 <;> constructor <;> nlinarith

/-- the arithmetic core of termination: the reduced pair is smaller by a factor 3/4 -/
theorem lehmer_measure_arith {X Y u v : Nat} (hX : 9223372036854775808 ≤ X) (hYX : Y ≤ X) (hY : 4294967296 ≤ Y)
    (hu : u ≤ Y) (hv : 2 * v ≤ u) :
    4 * ((u + 68719476736) * (v + 68719476736)) ≤ 3 * (X * Y) := by
  have h1 : 4 * ((u + 68719476736) * (v + 68719476736))
      ≤ (Y + 68719476736) * (2 * Y + 274877906944) := by
    have : 4 * ((u + 68719476736) * (v + 68719476736))
        = (u + 68719476736) * (4 * v + 274877906944) := by ring
    rw [this]
    exact Nat.mul_le_mul (by omega) (by omega)
  have e : (Y + 68719476736) * (2 * Y + 274877906944)
      = 2 * (Y * Y) + 412316860416 * Y + 18889465931478580854784 := by ring
  have hP1 : Y * Y ≤ X * Y := Nat.mul_le_mul_right _ hYX
  have hP2 : 9223372036854775808 * Y ≤ X * Y := Nat.mul_le_mul_right _ hX
  rw [e] at h1
  generalize Y * Y = Q at *
  generalize X * Y = P at *
  linarith


theorem two_mod_le {x y : Nat} (hy : 0 < y) (hyx : y ≤ x) : 2 * (x % y) ≤ x := by
  have h1 := Nat.div_add_mod x y
  have h2 : x % y < y := Nat.mod_lt _ hy
  have h3 : 1 ≤ x / y := Nat.div_pos hyx hy
  have h4 : y ≤ y * (x / y) := Nat.le_mul_of_pos_right _ h3
  omega

/-- quotient step: the product at least halves, operands stay in range -/
theorem fallbackStep_measure {N : Nat} {ext : Bool} {s s' : St} (h : fallbackStep N K ext s = some s')
    (hy0 : s.y ≠ 0) (hyx : s.y ≤ s.x) (hyM : s.y < M N) :
    2 * (s'.x * s'.y) ≤ s.x * s.y ∧ s'.x < M N ∧ s'.y < M N := by
  have hypos : 0 < s.y := Nat.pos_of_ne_zero hy0
  have hmod := two_mod_le hypos hyx
  have hmodlt : s.x % s.y < s.y := Nat.mod_lt _ hypos
  unfold fallbackStep at h
  cases ext
  · simp at h; subst h
    simp only
    refine ⟨?_, hyM, by omega⟩
    calc 2 * (s.y * (s.x % s.y)) = s.y * (2 * (s.x % s.y)) := by ring
      _ ≤ s.y * s.x := Nat.mul_le_mul_left _ hmod
      _ = s.x * s.y := Nat.mul_comm _ _
  · simp only [if_true] at h
    split at h
    · simp at h
    · rename_i qy hqy
      obtain ⟨rfl, _⟩ := chkU_some hqy
      have hr : s.x - s.x / s.y * s.y = s.x % s.y := by
        have := Nat.div_add_mod s.x s.y
        have e : s.x / s.y * s.y = s.y * (s.x / s.y) := Nat.mul_comm _ _
        omega
      rw [hr] at h
      split at h
      · simp at h
      · split at h
        · rename_i hbr
          have h2r : s.y < s.x % s.y * 2 := Nat.lt_of_lt_of_le hbr (Nat.mod_le _ _)
          split at h
          · simp at h
          · split at h
            · simp at h
            · split at h
              · simp at h; subst h
                simp only
                refine ⟨?_, hyM, by omega⟩
                calc 2 * (s.y * (s.y - s.x % s.y)) = s.y * (2 * (s.y - s.x % s.y)) := by ring
                  _ ≤ s.y * s.x := Nat.mul_le_mul_left _ (by omega)
                  _ = s.x * s.y := Nat.mul_comm _ _
              · simp at h
        · split at h
          · simp at h; subst h
            simp only
            refine ⟨?_, hyM, by omega⟩
            calc 2 * (s.y * (s.x % s.y)) = s.y * (2 * (s.x % s.y)) := by ring
              _ ≤ s.y * s.x := Nat.mul_le_mul_left _ hmod
              _ = s.x * s.y := Nat.mul_comm _ _
          · simp at h

/-- the parts of a Lehmer step -/
theorem lehmerStep_parts {N : Nat} {ext : Bool} {s s' : St} {bts xtop ytop : Nat}
    (h : lehmerStep N K ext s bts xtop ytop = some s') :
    ∃ a b c d negx negy, reduce64 xtop ytop = some (a, b, c, d) ∧
      dotProduct N ((bts + 63) / 64) a s.x b s.y = some (s'.x, negx) ∧
      dotProduct N ((bts + 63) / 64) c s.x d s.y = some (s'.y, negy) := by
  unfold lehmerStep at h
  split at h
  · simp at h
  · rename_i a b c d hred
    simp only at h
    split at h
    · rename_i axby negx cxdy negy hd1 hd2
      split at h
      · split at h
        · split at h
          · simp at h; subst h
            exact ⟨a, b, c, d, negx, negy, hred, hd1, hd2⟩
          · simp at h
        · simp at h
      · simp at h; subst h
        exact ⟨a, b, c, d, negx, negy, hred, hd1, hd2⟩
    · simp at h


theorem aux66 {u xtop : Nat} (h1 : u ≤ xtop) (h2 : xtop < 2 ^ 64) : u + 68719476736 ≤ 2 ^ 66 := by omega

/-- Lehmer step: the product shrinks by 3/4, the new operands are below `2^66 * 2^k` -/
theorem lehmerStep_measure {N : Nat} {ext : Bool} {s s' : St} {bts xtop ytop k xl yl : Nat}
    (h : lehmerStep N K ext s bts xtop ytop = some s')
    (hx : s.x = xtop * 2 ^ k + xl) (hy : s.y = ytop * 2 ^ k + yl) (hxl : xl < 2 ^ k) (hyl : yl < 2 ^ k)
    (hxt : xtop < W) (h63 : 2 ^ 63 ≤ xtop) (hyx : ytop ≤ xtop) (h32 : 2 ^ 32 ≤ ytop)
    (hxs : s.x < W ^ ((bts + 63) / 64)) (hys : s.y < W ^ ((bts + 63) / 64)) :
    4 * (s'.x * s'.y) ≤ 3 * (s.x * s.y) ∧ s'.x < 2 ^ 66 * 2 ^ k ∧ s'.y < 2 ^ 66 * 2 ^ k := by
  obtain ⟨a, b, c, d, negx, negy, hred, hd1, hd2⟩ := lehmerStep_parts h
  obtain ⟨u, v, ru, rv, huy, hvu, ba, bb, bc, bd, hab, hcd, _⟩ := reduce64_pre hxt h63 hyx h32 hred
  have e1 := dotProduct_some hd1 hxs hys
  have e2 := dotProduct_some hd2 hxs hys
  have b1 := dot_bound (K := 2 ^ k) hab ba bb hxl hyl ru
  have b2 := dot_bound (K := 2 ^ k) hcd bc bd hxl hyl rv
  rw [← hx, ← hy] at b1 b2
  have hE : (2 : Int) ^ 36 = ((68719476736 : Nat) : Int) := by norm_num
  have x1 : s'.x < (u + 68719476736) * 2 ^ k := by
    have : ((s'.x : Nat) : Int) = |a * s.x + b * s.y| := by
      rw [e1]; cases negx <;> simp
    rw [← this, hE] at b1
    exact_mod_cast b1
  have y1 : s'.y < (v + 68719476736) * 2 ^ k := by
    have : ((s'.y : Nat) : Int) = |c * s.x + d * s.y| := by
      rw [e2]; cases negy <;> simp
    rw [← this, hE] at b2
    exact_mod_cast b2
  have harith := lehmer_measure_arith (X := xtop) (Y := ytop) (u := u) (v := v)
    (by norm_num at h63 ⊢; exact h63) hyx (by norm_num at h32 ⊢; exact h32) huy hvu
  have hW : xtop < 2 ^ 64 := by rw [← W_eq]; exact hxt
  refine ⟨?_, ?_, ?_⟩
  · have hprod : s'.x * s'.y ≤ ((u + 68719476736) * 2 ^ k) * ((v + 68719476736) * 2 ^ k) :=
      Nat.mul_le_mul (Nat.le_of_lt x1) (Nat.le_of_lt y1)
    have hxy : (xtop * 2 ^ k) * (ytop * 2 ^ k) ≤ s.x * s.y := by
      rw [hx, hy]; exact Nat.mul_le_mul (Nat.le_add_right _ _) (Nat.le_add_right _ _)
    calc 4 * (s'.x * s'.y) ≤ 4 * (((u + 68719476736) * 2 ^ k) * ((v + 68719476736) * 2 ^ k)) :=
          Nat.mul_le_mul_left _ hprod
      _ = (4 * ((u + 68719476736) * (v + 68719476736))) * (2 ^ k * 2 ^ k) := by ring
      _ ≤ (3 * (xtop * ytop)) * (2 ^ k * 2 ^ k) := Nat.mul_le_mul_right _ harith
      _ = 3 * ((xtop * 2 ^ k) * (ytop * 2 ^ k)) := by ring
      _ ≤ 3 * (s.x * s.y) := Nat.mul_le_mul_left _ hxy
  · refine Nat.lt_of_lt_of_le x1 (Nat.mul_le_mul_right _ ?_)
    exact aux66 (by omega) hW
  · refine Nat.lt_of_lt_of_le y1 (Nat.mul_le_mul_right _ ?_)
    exact aux66 (by omega) hW


theorem bits_mono {x y : Nat} (h : y ≤ x) : bits y ≤ bits x :=
  bits_le_of_lt (Nat.lt_of_le_of_lt h (lt_two_pow_bits x))

theorem swapSt_facts (s0 : St) : (swapSt s0).y ≤ (swapSt s0).x ∧
    (swapSt s0).x * (swapSt s0).y = s0.x * s0.y ∧
    (∀ B, s0.x < B → s0.y < B → (swapSt s0).x < B ∧ (swapSt s0).y < B) := by
  unfold swapSt
  split
  · rename_i h; exact ⟨h, Nat.mul_comm _ _, fun B h1 h2 => ⟨h2, h1⟩⟩
  · rename_i h; exact ⟨by omega, rfl, fun B h1 h2 => ⟨h1, h2⟩⟩

/-- the top words of the operands in the Lehmer branch -/
theorem top_facts {N x y : Nat} (hyx : y ≤ x) (h64 : 64 ≤ bits x) (hN : bits x ≤ 64 * N) :
    ∃ xtop ytop xl yl, top64 (toDigits N x) (bits x) = some xtop ∧
      top64 (toDigits N y) (bits x) = some ytop ∧
      x = xtop * 2 ^ (bits x - 64) + xl ∧ y = ytop * 2 ^ (bits x - 64) + yl ∧
      xl < 2 ^ (bits x - 64) ∧ yl < 2 ^ (bits x - 64) ∧ xtop < W ∧ 2 ^ 63 ≤ xtop ∧ ytop ≤ xtop := by
  have hx0 : x ≠ 0 := by intro h0; rw [h0] at h64; simp [bits] at h64
  have hlt := lt_two_pow_bits x
  have hge := two_pow_le_of_bits hx0
  generalize hl : bits x = l at *
  have hkp : 0 < 2 ^ (l - 64) := Nat.pow_pos (by decide)
  have e1 : 2 ^ l = 2 ^ 64 * 2 ^ (l - 64) := by rw [← Nat.pow_add]; congr 1; omega
  have e2 : 2 ^ (l - 1) = 2 ^ 63 * 2 ^ (l - 64) := by rw [← Nat.pow_add]; congr 1; omega
  have hxt : x / 2 ^ (l - 64) < W := by
    rw [Nat.div_lt_iff_lt_mul hkp, W_eq, ← e1]; exact hlt
  have hyt : y / 2 ^ (l - 64) ≤ x / 2 ^ (l - 64) := Nat.div_le_div_right hyx
  refine ⟨x / 2 ^ (l - 64), y / 2 ^ (l - 64), x % 2 ^ (l - 64), y % 2 ^ (l - 64), ?_, ?_, ?_, ?_,
    Nat.mod_lt _ hkp, Nat.mod_lt _ hkp, hxt, ?_, hyt⟩
  · rw [top64_toDigits N x l h64 hN, Nat.mod_eq_of_lt hxt]
  · rw [top64_toDigits N y l h64 hN, Nat.mod_eq_of_lt (Nat.lt_of_le_of_lt hyt hxt)]
  · rw [Nat.mul_comm]; exact (Nat.div_add_mod x _).symm
  · rw [Nat.mul_comm]; exact (Nat.div_add_mod y _).symm
  · rw [Nat.le_div_iff_mul_le hkp, ← e2]; exact hge


/-- every iteration that continues shrinks `x * y` by a factor 3/4 and keeps the operands in range -/
theorem gcdStep_measure {N : Nat} {ext : Bool} {s0 s' : St}
    (h : gcdStep N K ext s0 = some (.next s')) (hx : s0.x < M N) (hy : s0.y < M N) :
    4 * (s'.x * s'.y) ≤ 3 * (s0.x * s0.y) ∧ s'.x < M N ∧ s'.y < M N := by
  obtain ⟨hyx, hprod, hrange⟩ := swapSt_facts s0
  obtain ⟨hxM, hyM⟩ := hrange (M N) hx hy
  rw [← hprod]
  unfold gcdStep at h
  simp only at h
  generalize swapSt s0 = s at *
  split at h
  · simp at h
  · rename_i hlx
    split at h
    · simp at h
    · rename_i hly
      have hy0 : s.y ≠ 0 := fun h0 => hly (bits_eq_zero.2 h0)
      split at h
      · split at h
        · split at h
          · simp at h
          · split at h <;> simp at h
        · simp at h
      · rename_i hsmall
        have hbm := bits_mono hyx
        have hmax : max (bits s.x) (bits s.y) = bits s.x := Nat.max_eq_left hbm
        rw [hmax] at h
        split at h
        · rename_i xtop ytop hxt hyt
          split at h
          · -- multiprecision quotient
            simp only [Option.map_eq_some_iff, Step.next.injEq] at h
            obtain ⟨s'', hfb, rfl⟩ := h
            obtain ⟨h1, h2, h3⟩ := fallbackStep_measure hfb hy0 hyx hyM
            exact ⟨by omega, h2, h3⟩
          · -- Lehmer step
            rename_i hcond
            simp only [Option.map_eq_some_iff, Step.next.injEq] at h
            obtain ⟨s'', hl, rfl⟩ := h
            have h64 : 64 ≤ bits s.x := by omega
            have hbN : bits s.x + 36 < N * 64 := by omega
            obtain ⟨xt, yt, xl, yl, t1, t2, ex, ey, hxl, hyl, hxtW, h63, hytx⟩ :=
              top_facts (N := N) hyx h64 (by omega)
            rw [hxt] at t1; rw [hyt] at t2
            simp only [Option.some.injEq] at t1 t2
            subst t1 t2
            have h32 : 2 ^ 32 ≤ ytop := by omega
            have hxs : s.x < W ^ ((bits s.x + 63) / 64) := lt_W_pow_of_bits (Nat.le_refl _)
            have hys : s.y < W ^ ((bits s.x + 63) / 64) := lt_W_pow_of_bits hbm
            obtain ⟨m1, m2, m3⟩ := lehmerStep_measure hl ex ey hxl hyl hxtW h63 hytx h32 hxs hys
            have hpow : 2 ^ 66 * 2 ^ (bits s.x - 64) ≤ M N := by
              unfold M
              rw [← Nat.pow_add]
              exact Nat.pow_le_pow_right (by decide) (by omega)
            exact ⟨m1, by omega, by omega⟩
        · simp at h

/-- an iteration whose operands have product `0` returns -/
theorem gcdStep_zero {N : Nat} {ext : Bool} {s0 s' : St} (h : gcdStep N K ext s0 = some (.next s'))
    : s0.x * s0.y ≠ 0 := by
  obtain ⟨_, hprod, _⟩ := swapSt_facts s0
  rw [← hprod]
  unfold gcdStep at h
  simp only at h
  generalize swapSt s0 = s at *
  split at h
  · simp at h
  · rename_i hlx
    split at h
    · simp at h
    · rename_i hly
      have hx0 : s.x ≠ 0 := fun h0 => hlx (bits_eq_zero.2 h0)
      have hy0 : s.y ≠ 0 := fun h0 => hly (bits_eq_zero.2 h0)
      exact Nat.mul_ne_zero hx0 hy0

/-- more fuel than `f + 1` does not change the result once `x * y * 3^f < 4^f` -/
theorem gcdLoop_stable {N : Nat} {ext : Bool} : ∀ (f : Nat) (s : St), s.x < M N → s.y < M N →
    s.x * s.y * 3 ^ f < 4 ^ f → ∀ f', f + 1 ≤ f' → gcdLoop N K ext f' s = gcdLoop N K ext (f + 1) s := by
  intro f
  induction f with
  | zero =>
    intro s hx hy hm f' hf'
    obtain ⟨f'', rfl⟩ : ∃ f'', f' = f'' + 1 := ⟨f' - 1, by omega⟩
    have hm0 : s.x * s.y = 0 := by simpa using hm
    unfold gcdLoop
    cases hst : gcdStep N K ext s with
    | none => rfl
    | some st =>
      cases st with
      | ret d u v => rfl
      | next s' => exact absurd hm0 (gcdStep_zero hst)
  | succ f ih =>
    intro s hx hy hm f' hf'
    obtain ⟨f'', rfl⟩ : ∃ f'', f' = f'' + 1 := ⟨f' - 1, by omega⟩
    rw [gcdLoop, gcdLoop]
    cases hst : gcdStep N K ext s with
    | none => rfl
    | some st =>
      cases st with
      | ret d u v => rfl
      | next s' =>
        simp only
        obtain ⟨m1, m2, m3⟩ := gcdStep_measure hst hx hy
        refine ih s' m2 m3 ?_ f'' (by omega)
        have e3 : 3 ^ (f + 1) = 3 ^ f * 3 := Nat.pow_succ _ _
        have e4 : 4 ^ (f + 1) = 4 ^ f * 4 := Nat.pow_succ _ _
        rw [e3, e4] at hm
        have : 4 * (s'.x * s'.y) * 3 ^ f ≤ 3 * (s.x * s.y) * 3 ^ f := Nat.mul_le_mul_right _ m1
        have e5 : 3 * (s.x * s.y) * 3 ^ f = s.x * s.y * (3 ^ f * 3) := by ring
        have e6 : 4 * (s'.x * s'.y) * 3 ^ f = 4 * (s'.x * s'.y * 3 ^ f) := by ring
        omega


theorem fuel_arith (n p : Nat) :
    n * p * 3 ^ (3 * (bits n + bits p)) < 4 ^ (3 * (bits n + bits p)) := by
  generalize ht : bits n + bits p = t
  have h1 := lt_two_pow_bits n
  have h2 := lt_two_pow_bits p
  have hnp : n * p < 2 ^ t := by
    rw [← ht, Nat.pow_add]
    rcases Nat.eq_zero_or_pos p with hp | hp
    · subst hp; simp
    · calc n * p < 2 ^ bits n * p := Nat.mul_lt_mul_of_pos_right h1 hp
        _ ≤ 2 ^ bits n * 2 ^ bits p := Nat.mul_le_mul_left _ (Nat.le_of_lt h2)
  have e3 : 3 ^ (3 * t) = 27 ^ t := by rw [Nat.pow_mul]
  have e4 : 4 ^ (3 * t) = 64 ^ t := by rw [Nat.pow_mul]
  rw [e3, e4]
  calc n * p * 27 ^ t < 2 ^ t * 27 ^ t := Nat.mul_lt_mul_of_pos_right hnp (Nat.pow_pos (by decide))
    _ = 54 ^ t := by rw [← Nat.mul_pow]
    _ ≤ 64 ^ t := Nat.pow_le_pow_left (by decide) t

/-- explicit fuel bound: more fuel than `3 (bits n + bits p) + 1` never changes the result -/
theorem gcdLoop_fuel {N : Nat} {ext : Bool} {n p : Nat} (hn : n < M N) (hp : p < M N) (f : Nat)
    (hf : 3 * (bits n + bits p) + 1 ≤ f) :
    gcdLoop N K ext f (initSt n p) = gcdLoop N K ext (3 * (bits n + bits p) + 1) (initSt n p) :=
  gcdLoop_stable (3 * (bits n + bits p)) (initSt n p) hn hp (fuel_arith n p) f hf

theorem gcdFuel_ge {N n p : Nat} (hn : n < M N) (hp : p < M N) :
    3 * (bits n + bits p) + 1 ≤ gcdFuel N := by
  have h1 : bits n ≤ 64 * N := bits_le_of_lt hn
  have h2 : bits p ≤ 64 * N := bits_le_of_lt hp
  unfold gcdFuel; omega


end Ymq.Gcd
