//! One ECM curve run end to end (C15/C16): src/ecm.rs `ecm_curve` through its hook, on an explicit curve
//! `(twisted, d)` with generator `(x : y : z)`.
//!
//! `ecm_curve` / `ecm_curve_raw` call the real routine; `ecm_stage1` / `ecm_tables` recompose the real
//! primitives (`scalar64_chainmul`, `scalar1024_chainmul`, `double`, `to_extended`, `addext`) in the order of
//! the routine so that the intermediate points of the model can be compared (the routine itself does not
//! expose them). Residues travel as ordinary integers in [0, n).
use crate::util::*;
use yamaquasi::arith_montgomery::{MInt, ZmodN};
use yamaquasi::ecm::verif_hooks as eh;
use yamaquasi::ecm::verif_hooks_curve_run as er;
use yamaquasi::ecm::verif_hooks_stage2 as es;
use yamaquasi::ecm::{Curve, Point, SmoothBase};
use yamaquasi::Uint;

fn res(zn: &ZmodN, s: &str) -> Option<MInt> {
    let x = uint_of(s)?;
    Some(zn.from_int(x % zn.n))
}

fn pt(zn: &ZmodN, p: &Point) -> String {
    eh::xyz(p).iter().map(|x| zn.to_int(*x).to_string()).collect::<Vec<_>>().join(" ")
}

fn pts(zn: &ZmodN, l: &[Point]) -> String {
    l.iter().map(|p| pt(zn, p)).collect::<Vec<_>>().join(" | ")
}

fn show_pair(r: Option<(Uint, Uint)>) -> String {
    match r {
        None => "none".to_string(),
        Some((p, q)) => format!("{p} {q}"),
    }
}

fn curve_of(a: &[&str]) -> Option<(ZmodN, Curve)> {
    let zn = ZmodN::new(uint_of(a[0])?);
    let g = eh::point(res(&zn, a[3])?, res(&zn, a[4])?, res(&zn, a[5])?);
    let c = eh::curve(zn.clone(), bool_of(a[1])?, res(&zn, a[2])?, g);
    Some((zn, c))
}

pub fn handle(op: &str, a: &[&str]) -> Option<String> {
    match (op, a) {
        ("ecm_curve", [_, _, _, _, _, _, b1, b2]) => {
            let (zn, c) = curve_of(a)?;
            let sb = SmoothBase::new(b1.parse().ok()?, true);
            Some(show_pair(es::vh_ecm_curve(&sb, &zn, &c, u64_of(b2)? as f64)))
        }
        ("ecm_curve_raw", [_, _, _, _, _, _, fs, ls, b2]) => {
            let (zn, c) = curve_of(a)?;
            let sb = er::smoothbase_from(list_of(fs)?, list_of(ls)?);
            Some(show_pair(es::vh_ecm_curve(&sb, &zn, &c, u64_of(b2)? as f64)))
        }
        ("ecm_stage1", [_, _, _, _, _, _, b1]) => {
            let (zn, c) = curve_of(a)?;
            let sb = SmoothBase::new(b1.parse().ok()?, true);
            let (fs, ls) = eh::smoothbase_parts(&sb);
            let mut g = c.gen().clone();
            for &f in fs {
                g = c.scalar64_chainmul(f, &g);
            }
            for f in ls {
                g = c.scalar1024_chainmul(f, &g);
            }
            Some(pt(&zn, &g))
        }
        ("ecm_tables", [_, _, _, _, _, _, d1, d2]) => {
            let (zn, c) = curve_of(a)?;
            let (d1, d2) = (u64_of(d1)?, u64_of(d2)?);
            let g = c.gen().clone();
            // baby steps
            let bs: Vec<u64> = (1..d1 / 2).filter(|&b| num_integer::Integer::gcd(&b, &d1) == 1).collect();
            let g2 = eh::double(&c, &g);
            let g4 = eh::double(&c, &g2);
            let mut gaps = vec![eh::to_extended(&c, &g2), eh::to_extended(&c, &g4)];
            let mut bg = eh::to_extended(&c, &g);
            let mut bexp = 1;
            assert_eq!(bs[0], 1);
            let mut bsteps = vec![g.clone()];
            for &b in &bs[1..] {
                let gap = b - bexp;
                while gaps.len() < gap as usize / 2 {
                    let gap2 = eh::addext(&c, &gaps[0], &gaps[gaps.len() - 1]);
                    gaps.push(gap2);
                }
                bg = eh::addext(&c, &bg, &gaps[gap as usize / 2 - 1]);
                bsteps.push(er::to_proj(&bg));
                bexp = b;
            }
            // giant steps
            let dg = c.scalar64_chainmul(d1, &g);
            let dg2 = eh::double(&c, &dg);
            let dgext = eh::to_extended(&c, &dg);
            let mut gg = eh::to_extended(&c, &dg2);
            let mut gsteps = vec![dg, dg2];
            for _ in 2..d2 {
                gg = eh::addext(&c, &gg, &dgext);
                gsteps.push(er::to_proj(&gg));
            }
            // normalisation
            let mut steps: Vec<[MInt; 3]> = bsteps.iter().chain(gsteps.iter()).map(eh::xyz).collect();
            let l = steps.len();
            let mut u = steps[0][2];
            for i in 1..l {
                steps[i][1] = zn.mul(&steps[i][1], &u);
                u = zn.mul(&u, &steps[i][2]);
            }
            u = steps[l - 1][2];
            for i in 2..=l {
                steps[l - i][1] = zn.mul(&steps[l - i][1], &u);
                u = zn.mul(&u, &steps[l - i][2]);
            }
            let ys: Vec<String> = steps.iter().map(|s| zn.to_int(s[1]).to_string()).collect();
            Some(format!("{} ; {} ; {}", pts(&zn, &bsteps), pts(&zn, &gsteps), ys.join(",")))
        }
        _ => None,
    }
}
