import Ymq.Props.C04
import Ymq.Props.C04Relations
import Ymq.Props.C04Shape
#print axioms Ymq.C04.sched_inv
#print axioms Ymq.C04.sched_done_monotone
#print axioms Ymq.C04.sched_bounded_work
#print axioms Ymq.C04.sched_progress
#print axioms Ymq.C04.sched_relations_valid
#print axioms Ymq.C04.sched_no_panic
#print axioms Ymq.C04Shape.sched_inv_shape
#print axioms Ymq.C04Shape.shape_adds_exactly
#print axioms Ymq.C04Shape.source_shapes_ok
#print axioms Ymq.C04Shape.sched_inv_any_programs
#print axioms Ymq.C04Shape.qs_adds_exactly
#print axioms Ymq.C04Shape.qs_block_interleaving
#print axioms Ymq.C04Shape.ecm_flag_sound
#print axioms Ymq.C04Shape.source_named_ok
#print axioms Ymq.C04Shape.source_fork_ok
#print axioms Ymq.C04Shape.source_ecm_unit_ok
#print axioms Ymq.C04Shape.sched_inv_units
