/-
P-1 polynomial-evaluation grid (C16): the executable test `pm1IsGridDeg` against its existential
specification, the cover lemma, the degree `pm1Deg d1 = φ(d1) + 1`, and `hitsUpTo`.
-/
import Ymq.Lemmas.Stage2Cover
import Mathlib.Data.Nat.Totient

namespace Ymq.Stage2
open Ymq.Gen

theorem pm1Baby_iff {d1 r : Nat} (h6 : 6 ∣ d1) (hd : 0 < d1) :
    isPm1Baby d1 r = true ↔ 0 < r ∧ r ≤ d1 + 1 ∧ Nat.gcd r d1 = 1 := by
  have hev : 2 ∣ d1 := Nat.dvd_trans (by decide) h6
  have h3 : 3 ∣ d1 := Nat.dvd_trans (by decide) h6
  have h6' : 6 ≤ d1 := Nat.le_of_dvd hd h6
  unfold isPm1Baby
  delta Stage2Arms.pm1Baby
  simp only [isPm1BabyOf]
  constructor
  · intro h
    simp at h
    rcases h with h | h
    · subst h; simp
    · omega
  · rintro ⟨h0, h1, hg⟩
    have ho := odd_of_coprime_even hev hg
    have hn := not3_of_coprime h3 hg
    rcases Nat.lt_or_ge 1 r with hb | hb
    · have : (r - 1) % 2 = 0 := by omega
      have h2 : r - 2 < d1 := by omega
      simp [hb, this, h2, hn, hg]
    · have : r = 1 := by omega
      simp [this]

theorem pm1IsQ_iff {d2 deg q : Nat} (hdeg : 1 ≤ deg) : pm1IsQDeg d2 deg q = true ↔ deg + q + 1 ≤ d2 := by
  unfold pm1IsQDeg
  delta Stage2Arms.pm1ValsOff Stage2Arms.pm1Neg
  simp; omega

/-- `m = |q*d1 - r|` for an evaluated multiplier `q` (`deg + q + 1 ≤ d2`) and a baby step `r`. -/
def Pm1Grid (d1 d2 deg m : Nat) : Prop :=
  ∃ q r, deg + q + 1 ≤ d2 ∧ isPm1Baby d1 r = true ∧ (m + r = q * d1 ∨ m + q * d1 = r)

theorem pm1IsGridDeg_sound {d1 d2 deg m : Nat} (hd : 0 < d1) (hdeg : 1 ≤ deg) (h : pm1IsGridDeg d1 d2 deg m = true) :
    Pm1Grid d1 d2 deg m := by
  unfold pm1IsGridDeg at h
  simp only [List.any_cons, List.any_nil, Bool.or_false, Bool.or_eq_true, Bool.and_eq_true, beq_iff_eq] at h
  have key1 : ∀ r, isPm1Baby d1 r = true → (m + r) % d1 = 0 → pm1IsQDeg d2 deg ((m + r) / d1) = true →
      Pm1Grid d1 d2 deg m := fun r hb hm hq =>
    ⟨(m + r) / d1, r, (pm1IsQ_iff hdeg).mp hq, hb, Or.inl (Nat.div_mul_cancel (Nat.dvd_of_mod_eq_zero hm)).symm⟩
  have key2 : ∀ r, m ≤ r → isPm1Baby d1 r = true → (r - m) % d1 = 0 → pm1IsQDeg d2 deg ((r - m) / d1) = true →
      Pm1Grid d1 d2 deg m := fun r hle hb hm hq => by
    refine ⟨(r - m) / d1, r, (pm1IsQ_iff hdeg).mp hq, hb, Or.inr ?_⟩
    rw [Nat.div_mul_cancel (Nat.dvd_of_mod_eq_zero hm)]; omega
  rcases h with (⟨⟨hb, hm⟩, hq⟩ | ⟨⟨hb, hm⟩, hq⟩) | (⟨⟨hb, hm⟩, hq⟩ | ⟨⟨hb, hm⟩, hq⟩)
  · exact key1 _ hb hm hq
  · exact key1 _ hb hm hq
  · exact key2 _ (Nat.le_refl _) hb hm hq
  · exact key2 _ (by omega) hb hm hq

theorem pm1IsGridDeg_complete {d1 d2 deg m : Nat} (h6 : 6 ∣ d1) (hd : 0 < d1) (hdeg : 1 ≤ deg) (h : Pm1Grid d1 d2 deg m) :
    pm1IsGridDeg d1 d2 deg m = true := by
  obtain ⟨q, r, hq, hb, hm⟩ := h
  have h6' : 6 ≤ d1 := Nat.le_of_dvd hd h6
  obtain ⟨hr0, hr1, _⟩ := (pm1Baby_iff h6 hd).mp hb
  unfold pm1IsGridDeg
  simp only [List.any_cons, List.any_nil, Bool.or_false, Bool.or_eq_true, Bool.and_eq_true, beq_iff_eq]
  rcases hm with hm | hm
  · left
    -- r ≡ -m (mod d1) and 1 ≤ r ≤ d1 + 1: r is r0 or r0 + d1
    have hmod : (m + r) % d1 = 0 := by rw [hm]; exact Nat.mul_mod_left _ _
    have hdiv : (m + r) / d1 = q := by rw [hm]; exact Nat.mul_div_cancel _ hd
    have hqq : pm1IsQDeg d2 deg ((m + r) / d1) = true := by rw [hdiv]; exact (pm1IsQ_iff hdeg).mpr hq
    have ha := Nat.mod_lt m hd
    have hdm := Nat.div_add_mod m d1
    -- (m % d1 + r) is a multiple of d1 lying in [1, 2 d1]
    have hmod2 : (m % d1 + r) % d1 = 0 := by
      rw [Nat.add_mod, Nat.mod_mod, ← Nat.add_mod]; exact hmod
    obtain ⟨k, hk⟩ := Nat.dvd_of_mod_eq_zero hmod2
    have hk12 : k = 1 ∨ k = 2 := by
      rcases k with _ | _ | _ | k
      · omega
      · left; rfl
      · right; rfl
      · exfalso
        have : d1 * 3 ≤ d1 * (k + 1 + 1 + 1) := Nat.mul_le_mul_left _ (by omega)
        omega
    rcases Nat.eq_zero_or_pos (m % d1) with ha0 | ha0
    · -- r0 = 0, r = d1 = r0 + d1
      have hr0' : (d1 - m % d1) % d1 = 0 := by rw [ha0]; simp
      have : (d1 - m % d1) % d1 + d1 = r := by
        rcases hk12 with rfl | rfl <;> omega
      right
      rw [this]
      exact ⟨⟨hb, hmod⟩, hqq⟩
    · have hr0' : (d1 - m % d1) % d1 = d1 - m % d1 := Nat.mod_eq_of_lt (by omega)
      rcases hk12 with rfl | rfl
      · left
        have : (d1 - m % d1) % d1 = r := by omega
        rw [this]
        exact ⟨⟨hb, hmod⟩, hqq⟩
      · right
        have : (d1 - m % d1) % d1 + d1 = r := by omega
        rw [this]
        exact ⟨⟨hb, hmod⟩, hqq⟩
  · right
    have hq01 : q = 0 ∨ q = 1 := by
      rcases q with _ | _ | q
      · left; rfl
      · right; rfl
      · exfalso
        have : 2 * d1 ≤ (q + 1 + 1) * d1 := Nat.mul_le_mul_right _ (by omega)
        omega
    have hsub : r - m = q * d1 := by omega
    have hmod : (r - m) % d1 = 0 := by rw [hsub]; exact Nat.mul_mod_left _ _
    have hdiv : (r - m) / d1 = q := by rw [hsub]; exact Nat.mul_div_cancel _ hd
    have hqq : pm1IsQDeg d2 deg ((r - m) / d1) = true := by rw [hdiv]; exact (pm1IsQ_iff hdeg).mpr hq
    rcases hq01 with rfl | rfl
    · left
      have : r = m := by omega
      subst this
      exact ⟨⟨hb, hmod⟩, hqq⟩
    · right
      have : r = m + d1 := by omega
      subst this
      exact ⟨⟨hb, hmod⟩, hqq⟩

theorem pm1IsGridDeg_iff {d1 d2 deg m : Nat} (h6 : 6 ∣ d1) (hd : 0 < d1) (hdeg : 1 ≤ deg) :
    pm1IsGridDeg d1 d2 deg m = true ↔ Pm1Grid d1 d2 deg m :=
  ⟨pm1IsGridDeg_sound hd hdeg, pm1IsGridDeg_complete h6 hd hdeg⟩

/-- Every `l` coprime to `d1` with `1 ≤ l < (d2 - 1 - deg) * d1` is `q*d1 - r` on the grid. -/
theorem pm1_cover_spec {d1 d2 deg l : Nat} (h6 : 6 ∣ d1) (hd : 0 < d1) (hl : Nat.gcd l d1 = 1)
    (hhi : l < (d2 - 1 - deg) * d1) :
    ∃ q r, deg + q + 1 ≤ d2 ∧ isPm1Baby d1 r = true ∧ l + r = q * d1 := by
  have hev : 2 ∣ d1 := Nat.dvd_trans (by decide) h6
  have h6' : 6 ≤ d1 := Nat.le_of_dvd hd h6
  obtain ⟨hg, h0, _, hlt⟩ := coprime_mod_facts hev (by omega) hl
  have hdm := Nat.div_add_mod l d1
  generalize l / d1 = c at hdm ⊢
  generalize l % d1 = a at hdm hg h0 hlt ⊢
  refine ⟨c + 1, d1 - a, ?_, ?_, ?_⟩
  · by_contra hcon
    have : d2 - 1 - deg ≤ c := by omega
    have h3 : (d2 - 1 - deg) * d1 ≤ c * d1 := Nat.mul_le_mul_right _ this
    have h4 : c * d1 = d1 * c := Nat.mul_comm _ _
    omega
  · exact (pm1Baby_iff h6 hd).mpr ⟨by omega, by omega, by rw [Nat.gcd_self_sub_left (by omega)]; exact hg⟩
  · have : (c + 1) * d1 = d1 * c + d1 := by ring
    omega

/-- every grid value is below the upper end, or is one of the small values `r - q*d1 ≤ d1 + 1` -/
theorem pm1_grid_le {d1 d2 deg m : Nat} (h6 : 6 ∣ d1) (hd : 0 < d1) (h : Pm1Grid d1 d2 deg m) :
    m + 1 ≤ (d2 - 1 - deg) * d1 ∨ m ≤ d1 + 1 := by
  obtain ⟨q, r, hq, hb, hm⟩ := h
  obtain ⟨hr0, hr1, _⟩ := (pm1Baby_iff h6 hd).mp hb
  rcases hm with hm | hm
  · left
    have h3 : q * d1 ≤ (d2 - 1 - deg) * d1 := Nat.mul_le_mul_right _ (by omega)
    omega
  · right; omega

/-! ### the polynomial degree -/

theorem filter_range_length_eq_card (p : Nat → Bool) (n : Nat) :
    ((List.range n).filter p).length = ((Finset.range n).filter (fun x => p x = true)).card := by
  induction n with
  | zero => simp
  | succ n ih =>
    rw [List.range_succ, List.filter_append, List.length_append, ih, Finset.range_add_one,
      Finset.filter_insert]
    by_cases hp : p n = true
    · simp [hp]
    · simp [hp]

/-- the number of baby steps of `pm1_stage2_polyeval` is `φ(d1) + 1` (the residues coprime to `d1`
in `[1, d1)` and `d1 + 1`). -/
theorem pm1Deg_eq {d1 : Nat} (h6 : 6 ∣ d1) (hd : 0 < d1) : pm1Deg d1 = Nat.totient d1 + 1 := by
  have h6' : 6 ≤ d1 := Nat.le_of_dvd hd h6
  have hstep : Stage2Arms.pm1Baby.2 = 2 := by delta Stage2Arms.pm1Baby; rfl
  unfold pm1Deg
  rw [hstep, show d1 + 2 + 1 = d1 + 1 + 1 + 1 from rfl, List.range_succ, List.range_succ, List.range_succ]
  simp only [List.filter_append, List.length_append]
  have e0 : ((List.range d1).filter (isPm1Baby d1)).length = Nat.totient d1 := by
    rw [filter_range_length_eq_card, Nat.totient_eq_card_coprime]
    congr 1
    ext x
    simp only [Finset.mem_filter, Finset.mem_range]
    constructor
    · rintro ⟨hx, hb⟩
      obtain ⟨_, _, hg⟩ := (pm1Baby_iff h6 hd).mp hb
      exact ⟨hx, by rw [Nat.Coprime, Nat.gcd_comm]; exact hg⟩
    · rintro ⟨hx, hc⟩
      refine ⟨hx, (pm1Baby_iff h6 hd).mpr ⟨?_, by omega, by rw [Nat.gcd_comm]; exact hc⟩⟩
      rcases Nat.eq_zero_or_pos x with rfl | h
      · rw [Nat.Coprime, Nat.gcd_zero_right] at hc; omega
      · exact h
  have e1 : isPm1Baby d1 d1 = false := by
    rw [Bool.eq_false_iff]; intro h
    obtain ⟨_, _, hg⟩ := (pm1Baby_iff h6 hd).mp h
    rw [Nat.gcd_self] at hg; omega
  have e2 : isPm1Baby d1 (d1 + 1) = true :=
    (pm1Baby_iff h6 hd).mpr ⟨by omega, by omega, by simp⟩
  have e3 : isPm1Baby d1 (d1 + 1 + 1) = false := by
    rw [Bool.eq_false_iff]; intro h
    obtain ⟨_, h1, _⟩ := (pm1Baby_iff h6 hd).mp h
    omega
  simp [e0, e1, e2, e3]

/-! ### `anyBelow`, `hitsUpTo` -/

theorem anyBelow_iff (p : Nat → Bool) (n : Nat) : anyBelow p n = true ↔ ∃ k, k < n ∧ p k = true := by
  induction n with
  | zero => simp [anyBelow]
  | succ n ih =>
    simp only [anyBelow, Bool.or_eq_true, ih]
    constructor
    · rintro (h | ⟨k, hk, hp⟩)
      · exact ⟨n, by omega, h⟩
      · exact ⟨k, by omega, hp⟩
    · rintro ⟨k, hk, hp⟩
      rcases Nat.lt_or_ge k n with h | h
      · exact Or.inr ⟨k, h, hp⟩
      · have : k = n := by omega
        subst this; exact Or.inl hp

/-- `hitsUpTo` decides "some positive multiple of `l` is a grid value" when grid values are `≤ maxv`. -/
theorem hitsUpTo_iff {isGrid : Nat → Bool} {maxv l : Nat} (hl : 0 < l)
    (hmax : ∀ m, isGrid m = true → m ≤ maxv) :
    hitsUpTo isGrid maxv l = true ↔ ∃ m, 0 < m ∧ l ∣ m ∧ isGrid m = true := by
  unfold hitsUpTo
  rw [anyBelow_iff]
  constructor
  · rintro ⟨k, _, hp⟩
    exact ⟨(k + 1) * l, Nat.mul_pos (by omega) hl, ⟨k + 1, Nat.mul_comm _ _⟩, hp⟩
  · rintro ⟨m, hm0, ⟨c, rfl⟩, hp⟩
    have hc : 0 < c := by
      rcases Nat.eq_zero_or_pos c with rfl | h
      · simp at hm0
      · exact h
    refine ⟨c - 1, ?_, ?_⟩
    · have := hmax _ hp
      have h2 : c ≤ maxv / l := by
        rw [Nat.le_div_iff_mul_le hl, Nat.mul_comm]; exact this
      omega
    · have : c - 1 + 1 = c := by omega
      rw [this, Nat.mul_comm]; exact hp

end Ymq.Stage2
