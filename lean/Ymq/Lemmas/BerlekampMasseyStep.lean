/-
The loop invariant of the Berlekamp–Massey model and its preservation by one turn of the loop
(`swapIf`, `stepOne` / `stepTwo`, the trailing degree scan): no panic site is reached and the
measure `df + dg` decreases.
-/
import Ymq.Lemmas.BerlekampMasseyPoly

namespace Ymq.BM
open Polynomial

variable {p : ℕ} {o : Ops} {κ : ZMod p} {n : ℕ} {S : (ZMod p)[X]}

/-- The loop invariant at the head of the loop (before the swap).
`gh` is the comment `u * seq = f mod x^N`, `v * seq = g mod x^N` of the source, with the ghost
cofactors `a`, `b` of `x^n` and the determinant `a v - b u` (a non-zero constant), which is what
makes the returned cofactor primitive. `du`, `dv` are upper bounds of the degrees of `u`, `v`
(`dv` is not always the exact degree: the scan of lines 673/690 never lowers it), `df`, `dg` are
exact unless the vector is zero (then the degree is 0). `b1`, `b2` are the degree bookkeeping of
Euclid's algorithm (`deg t_i + deg r_{i-1} = n`) as inequalities; with `hm` they give
`du ≤ n - n/2` at the return. -/
structure Inv (p n : ℕ) (S : (ZMod p)[X]) (s : St) : Prop where
  lu : s.u.length = n
  lv : s.v.length = n
  lf : s.f.length = n
  lg : s.g.length = n
  ru : Red p s.u
  rv : Red p s.v
  rf : Red p s.f
  rg : Red p s.g
  zu : ∀ i, s.du < i → gd s.u i = 0
  zv : ∀ i, s.dv < i → gd s.v i = 0
  zf : ∀ i, s.df < i → gd s.f i = 0
  zg : ∀ i, s.dg < i → gd s.g i = 0
  dfn : s.df < n
  dgn : s.dg < n
  b1 : s.du + s.dg ≤ n
  b2 : s.dv + s.df ≤ n
  tf : gd s.f s.df ≠ 0 ∨ s.df = 0
  tg : gd s.g s.dg ≠ 0 ∨ s.dg = 0
  hm : n / 2 ≤ s.df ∨ n / 2 ≤ s.dg
  gh : ∃ a b : (ZMod p)[X], ∃ c : ZMod p, c ≠ 0 ∧
    toPoly p s.f = a * X ^ n + toPoly p s.u * S ∧
    toPoly p s.g = b * X ^ n + toPoly p s.v * S ∧
    a * toPoly p s.v - b * toPoly p s.u = C c

theorem inv_swap {s : St} (h : Inv p n S s) : Inv p n S (swapIf s) := by
  unfold swapIf
  split
  · obtain ⟨a, b, c, hc, e1, e2, e3⟩ := h.gh
    exact
      { lu := h.lv, lv := h.lu, lf := h.lg, lg := h.lf, ru := h.rv, rv := h.ru, rf := h.rg,
        rg := h.rf, zu := h.zv, zv := h.zu, zf := h.zg, zg := h.zf, dfn := h.dgn, dgn := h.dfn,
        b1 := h.b2, b2 := h.b1, tf := h.tg, tg := h.tf
        hm := h.hm.symm
        gh := ⟨b, a, -c, neg_ne_zero.mpr hc, e2, e1, by
          rw [map_neg]; linear_combination -e3⟩ }
  · exact h

theorem swap_le (s : St) : (swapIf s).df ≤ (swapIf s).dg := by
  unfold swapIf
  split
  · show s.dg ≤ s.df; omega
  · omega

theorem swap_sum (s : St) : (swapIf s).df + (swapIf s).dg = s.df + s.dg := by
  unfold swapIf
  split
  · show s.dg + s.df = s.df + s.dg; omega
  · rfl

/-- what `stepOne` / `stepTwo` establish (before the trailing scan of `dg`) -/
structure Mid (p n : ℕ) (s s' : St) : Prop where
  eu : s'.u = s.u
  ef : s'.f = s.f
  edu : s'.du = s.du
  edf : s'.df = s.df
  edg : s'.dg = s.dg
  lv : s'.v.length = n
  lg : s'.g.length = n
  rv : Red p s'.v
  rg : Red p s'.g
  zv : ∀ i, s'.dv < i → gd s'.v i = 0
  zg : ∀ i, s.dg ≤ i → gd s'.g i = 0
  bv : s'.dv + s.df ≤ n
  pq : ∃ Q : (ZMod p)[X], toPoly p s'.g = toPoly p s.g - Q * toPoly p s.f ∧
    toPoly p s'.v = toPoly p s.v - Q * toPoly p s.u

theorem gd_zero_of_sub (a a' b : List ℕ) (Q : (ZMod p)[X])
    (e : toPoly p a' = toPoly p a - Q * toPoly p b) (ra : Red p a') (i : ℕ)
    (h1 : gd a i = 0) (h2 : (Q * toPoly p b).coeff i = 0) : gd a' i = 0 := by
  have := congrArg (fun P => P.coeff i) e
  simp only [coeff_sub, coeff_toPoly, h2, sub_zero] at this
  rw [← cast_eq_zero_of_lt (ra i)]
  unfold co at this
  rw [this, h1]; simp

theorem co_eq_of_sub (a a' b : List ℕ) (Q : (ZMod p)[X])
    (e : toPoly p a' = toPoly p a - Q * toPoly p b) (i : ℕ) :
    co p a' i = co p a i - (Q * toPoly p b).coeff i := by
  have := congrArg (fun P => P.coeff i) e
  simpa only [coeff_sub, coeff_toPoly] using this

theorem co_zero {l : List ℕ} {i : ℕ} (h : gd l i = 0) : co p l i = 0 := by
  unfold co; rw [h]; simp

/-- the degree scan after an update `v' = v - Q u` -/
theorem scan_after (v1 : List ℕ) (dv top : ℕ) (hlen : top < v1.length) (hdv : dv ≤ v1.length)
    (hz : ∀ i, dv < i → top < i → gd v1 i = 0) :
    ∃ r, scanDeg v1 (top + 1 - dv) dv dv = some r ∧ r ≤ max dv top ∧ ∀ i, r < i → gd v1 i = 0 := by
  obtain ⟨r, e1, e2⟩ := scanDeg_spec v1 (top + 1 - dv) dv dv (by omega)
  refine ⟨r, e1, ?_, ?_⟩
  · rcases e2 with ⟨h1, _⟩ | ⟨h1, h2, _⟩ <;> omega
  · intro i hi
    rcases e2 with ⟨h1, h2⟩ | ⟨h1, h2, h3⟩
    · by_cases hit : i < dv + (top + 1 - dv)
      · exact h2 i (by omega) hit
      · exact hz i (by omega) (by omega)
    · by_cases hit : i < dv + (top + 1 - dv)
      · exact h3 i hi hit
      · exact hz i (by omega) (by omega)

section step

theorem stepOne_spec (ok : OpsOK o p κ) (hn : 2 ≤ n) {s : St} (h : Inv p n S s)
    (hle : s.df ≤ s.dg) (hdf : n / 2 ≤ s.df) :
    ∃ s', stepOne o s = some s' ∧ Mid p n s s' := by
  have hdf1 : 1 ≤ s.df := by omega
  have fne : gd s.f s.df ≠ 0 := h.tf.resolve_right (by omega)
  have hdfn := h.dfn
  have hdgn := h.dgn
  have hb1 := h.b1
  have hb2 := h.b2
  obtain ⟨i0, a1, a2, a3⟩ := ok.inv (gd s.f s.df) (Nat.pos_of_ne_zero fne) (h.rf _)
  obtain ⟨q, q1, q2, q3⟩ := ok.mul (gd s.g s.dg) i0 (h.rg _) a2
  obtain ⟨g1, c1, c2, c3, c4⟩ := updOne_spec ok s.f s.g h.rf h.rg (s.dg - s.df) s.df q q2
    (by rw [h.lg]; omega) (by rw [h.lf, h.lg]) h.zf
  have cz : ∀ i, s.dg ≤ i → gd g1 i = 0 := by
    intro i hi
    rw [← cast_eq_zero_of_lt (c3 i)]
    have e := co_eq_of_sub s.g g1 s.f _ c4 i
    rw [coeff_shift, if_pos (by omega), coeff_toPoly] at e
    unfold co at e
    rw [e]
    by_cases hid : i = s.dg
    · subst hid
      have : s.dg - (s.dg - s.df) = s.df := by omega
      rw [this, q3]
      linear_combination (-(gd s.g s.dg : ZMod p)) * a3
    · rw [h.zg i (by omega), h.zf (i - (s.dg - s.df)) (by omega)]; simp
  obtain ⟨v1, d1, d2, d3, d4⟩ := updOne_spec ok s.u s.v h.ru h.rv (s.dg - s.df) s.du q q2
    (by rw [h.lv]; omega) (by rw [h.lu, h.lv]) h.zu
  have vz : ∀ i, s.dv < i → s.du + (s.dg - s.df) < i → gd v1 i = 0 := by
    intro i h1 h2
    refine gd_zero_of_sub s.v v1 s.u _ d4 d3 i (h.zv i h1) ?_
    rw [coeff_shift, if_pos (by omega), coeff_toPoly, co_zero (h.zu _ (by omega))]; simp
  obtain ⟨dv', e1, e2, e3⟩ := scan_after v1 s.dv (s.du + (s.dg - s.df)) (by rw [d2, h.lv]; omega)
    (by rw [d2, h.lv]; omega) vz
  refine ⟨{ s with g := g1, v := v1, dv := dv' }, ?_, ?_⟩
  · have hg : s.g[s.dg]? = some (gd s.g s.dg) := getElem?_of_lt _ _ (by rw [h.lg]; omega)
    have hf : s.f[s.df]? = some (gd s.f s.df) := getElem?_of_lt _ _ (by rw [h.lf]; omega)
    have hz : g1[s.dg]? = some (gd g1 s.dg) := getElem?_of_lt _ _ (by rw [c2, h.lg]; omega)
    simp [stepOne, hg, hf, a1, q1, c1, hz, cz s.dg (le_refl _), d1, e1]
  · exact
      { eu := rfl, ef := rfl, edu := rfl, edf := rfl, edg := rfl
        lv := by rw [d2, h.lv]
        lg := by rw [c2, h.lg]
        rv := d3, rg := c3, zv := e3, zg := cz
        bv := by show dv' + s.df ≤ n; omega
        pq := ⟨_, c4, d4⟩ }

theorem stepTwo_spec (ok : OpsOK o p κ) (htwo : o.two = true) (_hn : 2 ≤ n) {s : St}
    (h : Inv p n S s) (hlt : s.df < s.dg) (hdf : n / 2 ≤ s.df) (hdf2 : 1 < s.df) :
    ∃ s', stepTwo o s = some s' ∧ Mid p n s s' := by
  have fne : gd s.f s.df ≠ 0 := h.tf.resolve_right (by omega)
  have hdfn := h.dfn
  have hdgn := h.dgn
  have hb1 := h.b1
  have hb2 := h.b2
  obtain ⟨i0, a1, a2, a3⟩ := ok.inv (gd s.f s.df) (Nat.pos_of_ne_zero fne) (h.rf _)
  obtain ⟨i1, j1, j2, j3⟩ := ok.mul (gd s.f (s.df - 1)) i0 (h.rf _) a2
  obtain ⟨q1, k1, k2, k3⟩ := ok.mul (gd s.g s.dg) i0 (h.rg _) a2
  obtain ⟨q0a, l1, l2, l3⟩ := ok.mul (gd s.g (s.dg - 1)) i0 (h.rg _) a2
  obtain ⟨t, m1, m2, m3⟩ := ok.mul q1 i1 k2 j2
  obtain ⟨q0, n1, n2, n3⟩ := ok.sub q0a t l2 m2
  have hd : s.dg - s.df - 1 + s.df + 1 = s.dg := by omega
  obtain ⟨g3, c1, c2, c3, c4⟩ := updTwo_spec ok htwo s.f s.g h.rf h.rg (s.dg - s.df - 1) s.df q0 q1
    n2 k2 (by rw [h.lg]; omega) (by rw [h.lf, h.lg]) h.zf
  have cz : ∀ i, s.dg - 1 ≤ i → gd g3 i = 0 := by
    intro i hi
    rw [← cast_eq_zero_of_lt (c3 i)]
    have e := co_eq_of_sub s.g g3 s.f _ c4 i
    rw [coeff_shift2, if_pos (by omega), if_pos (by omega), coeff_toPoly, coeff_toPoly] at e
    unfold co at e
    rw [e]
    by_cases hid : i = s.dg
    · subst hid
      have x1 : s.dg - (s.dg - s.df - 1 + 1) = s.df := by omega
      have x2 : s.dg - (s.dg - s.df - 1) = s.df + 1 := by omega
      rw [x1, x2, h.zf (s.df + 1) (by omega), k3]
      linear_combination (-(gd s.g s.dg : ZMod p)) * a3
    · by_cases hid1 : i = s.dg - 1
      · subst hid1
        have x1 : s.dg - 1 - (s.dg - s.df - 1 + 1) = s.df - 1 := by omega
        have x2 : s.dg - 1 - (s.dg - s.df - 1) = s.df := by omega
        rw [x1, x2, n3, l3, m3, k3, j3]
        linear_combination (-((gd s.g (s.dg - 1) : ZMod p) -
          κ * κ * (gd s.g s.dg : ZMod p) * (gd s.f (s.df - 1) : ZMod p) * (i0 : ZMod p))) * a3
      · rw [h.zg i (by omega), h.zf (i - (s.dg - s.df - 1 + 1)) (by omega),
          h.zf (i - (s.dg - s.df - 1)) (by omega)]; simp
  obtain ⟨v3, d1, d2, d3, d4⟩ := updTwo_spec ok htwo s.u s.v h.ru h.rv (s.dg - s.df - 1) s.du q0 q1
    n2 k2 (by rw [h.lv]; omega) (by rw [h.lu, h.lv]) h.zu
  have vz : ∀ i, s.dv < i → s.du + (s.dg - s.df - 1) + 1 < i → gd v3 i = 0 := by
    intro i h1 h2
    refine gd_zero_of_sub s.v v3 s.u _ d4 d3 i (h.zv i h1) ?_
    rw [coeff_shift2, if_pos (by omega), if_pos (by omega), coeff_toPoly, coeff_toPoly,
      co_zero (h.zu _ (by omega)), co_zero (h.zu _ (by omega))]; simp
  obtain ⟨dv', e1, e2, e3⟩ := scan_after v3 s.dv (s.du + (s.dg - s.df - 1) + 1)
    (by rw [d2, h.lv]; omega) (by rw [d2, h.lv]; omega) vz
  refine ⟨{ s with g := g3, v := v3, dv := dv' }, ?_, ?_⟩
  · have hg : s.g[s.dg]? = some (gd s.g s.dg) := getElem?_of_lt _ _ (by rw [h.lg]; omega)
    have hg1 : s.g[s.dg - 1]? = some (gd s.g (s.dg - 1)) :=
      getElem?_of_lt _ _ (by rw [h.lg]; omega)
    have hf : s.f[s.df]? = some (gd s.f s.df) := getElem?_of_lt _ _ (by rw [h.lf]; omega)
    have hf1 : s.f[s.df - 1]? = some (gd s.f (s.df - 1)) :=
      getElem?_of_lt _ _ (by rw [h.lf]; omega)
    have hz : g3[s.dg]? = some (gd g3 s.dg) := getElem?_of_lt _ _ (by rw [c2, h.lg]; omega)
    have hz1 : g3[s.dg - 1]? = some (gd g3 (s.dg - 1)) :=
      getElem?_of_lt _ _ (by rw [c2, h.lg]; omega)
    have ec : s.du + (s.dg - s.df - 1) + 2 - s.dv = s.du + (s.dg - s.df - 1) + 1 + 1 - s.dv := by
      omega
    simp [stepTwo, hg, hg1, hf, hf1, a1, j1, k1, l1, m1, n1, c1, hz, hz1, cz s.dg (by omega),
      cz (s.dg - 1) (le_refl _), d1, ec, e1]
  · exact
      { eu := rfl, ef := rfl, edu := rfl, edf := rfl, edg := rfl
        lv := by rw [d2, h.lv]
        lg := by rw [c2, h.lg]
        rv := d3, rg := c3, zv := e3
        zg := fun i hi => cz i (by omega)
        bv := by show dv' + s.df ≤ n; omega
        pq := ⟨_, c4, d4⟩ }

/-- one turn of the loop after the swap: no panic, the invariant is kept, `dg` decreases -/
theorem step_spec (ok : OpsOK o p κ) (hn : 2 ≤ n) {s : St} (h : Inv p n S s)
    (hle : s.df ≤ s.dg) (hdf : n / 2 ≤ s.df) :
    ∃ s', step o s = some s' ∧ Inv p n S s' ∧ s'.df = s.df ∧ s'.dg < s.dg := by
  have hmid : ∃ s1, (if o.two ∧ s.dg > s.df ∧ s.df > 1 then stepTwo o s else stepOne o s) = some s1 ∧
      Mid p n s s1 := by
    split
    · rename_i hc
      exact stepTwo_spec ok hc.1 hn h hc.2.1 hdf hc.2.2
    · exact stepOne_spec ok hn h hle hdf
  obtain ⟨s1, r1, m⟩ := hmid
  have hdg1 : 1 ≤ s.dg := by omega
  obtain ⟨dg', t1, t2, t3, t4⟩ := lowerDeg_spec s1.g s1.dg (by rw [m.lg, m.edg]; exact h.dgn)
  rw [m.edg] at t2 t3
  have hlt : dg' < s.dg := by
    rcases t4 with t4 | t4
    · by_contra hc
      have : dg' = s.dg := by omega
      rw [this] at t4
      exact t4 (m.zg s.dg (le_refl _))
    · omega
  obtain ⟨Q, pg, pv⟩ := m.pq
  obtain ⟨a, b, c, hc, g1, g2, g3⟩ := h.gh
  have hb1 := h.b1
  have hb2 := h.b2
  have hbv := m.bv
  refine ⟨{ s1 with dg := dg' }, ?_, ?_, m.edf, hlt⟩
  · by_cases hc : o.two = true ∧ s.dg > s.df ∧ s.df > 1
    · rw [if_pos hc] at r1
      simp [step, hc, r1, t1]
    · rw [if_neg hc] at r1
      simp [step, hc, r1, t1]
  · exact
      { lu := by show s1.u.length = n; rw [m.eu]; exact h.lu
        lv := m.lv
        lf := by show s1.f.length = n; rw [m.ef]; exact h.lf
        lg := m.lg
        ru := by show Red p s1.u; rw [m.eu]; exact h.ru
        rv := m.rv
        rf := by show Red p s1.f; rw [m.ef]; exact h.rf
        rg := m.rg
        zu := by show ∀ i, s1.du < i → gd s1.u i = 0; rw [m.eu, m.edu]; exact h.zu
        zv := m.zv
        zf := by show ∀ i, s1.df < i → gd s1.f i = 0; rw [m.ef, m.edf]; exact h.zf
        zg := by
          intro i hi
          by_cases hid : i ≤ s.dg
          · exact t3 i hi hid
          · exact m.zg i (by omega)
        dfn := by show s1.df < n; rw [m.edf]; exact h.dfn
        dgn := by show dg' < n; have := h.dgn; omega
        b1 := by show s1.du + dg' ≤ n; rw [m.edu]; omega
        b2 := by show s1.dv + s1.df ≤ n; rw [m.edf]; exact m.bv
        tf := by show gd s1.f s1.df ≠ 0 ∨ s1.df = 0; rw [m.ef, m.edf]; exact h.tf
        tg := t4
        hm := by
          left
          show n / 2 ≤ s1.df
          rw [m.edf]; exact hdf
        gh := by
          refine ⟨a, b - Q * a, c, hc, ?_, ?_, ?_⟩
          · show toPoly p s1.f = a * X ^ n + toPoly p s1.u * S
            rw [m.ef, m.eu]; exact g1
          · show toPoly p s1.g = (b - Q * a) * X ^ n + toPoly p s1.v * S
            rw [pg, pv, g1, g2]; ring
          · show a * toPoly p s1.v - (b - Q * a) * toPoly p s1.u = C c
            rw [pv, m.eu, ← g3]; ring }

end step

end Ymq.BM
