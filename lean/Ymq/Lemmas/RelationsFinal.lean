/-
`try_factor`, the chunked products of `relations::combine`, and the exponent accumulation of
`final_step` (C11).
-/
import Ymq.Lemmas.Relations

namespace Ymq.Relations

/-! ### `try_factor` -/

theorem bits_gt_one (p : Nat) : bits p > 1 ↔ 2 ≤ p := by
  unfold bits bitlen
  split
  · rename_i h; subst h; simp
  · rename_i h
    have := Nat.le_log2 (k := 1) h
    simp only [pow_one] at this
    omega

theorem splitBy_spec {n g : Nat} (hdvd : g ∣ n) (h1 : 1 < g) (hlt : g < n) :
    splitBy n g = .ok (some (g, n / g)) ∧ g * (n / g) = n ∧ 1 < n / g := by
  have hmul : g * (n / g) = n := Nat.mul_div_cancel' hdvd
  have hq : 1 < n / g := by
    by_contra hle
    have : n / g ≤ 1 := by omega
    have : g * (n / g) ≤ g * 1 := Nat.mul_le_mul_left _ this
    omega
  refine ⟨?_, hmul, hq⟩
  unfold splitBy
  simp only
  rw [if_neg (by rw [hmul]; simp), if_neg (by rw [bits_gt_one, bits_gt_one]; simp; omega)]
  rfl

theorem gcd_proper {n m : Nat} (hm0 : m ≠ 0) (hm2 : m < 2 * n) (hmn : m ≠ n) (_hg : 1 < Nat.gcd n m) :
    Nat.gcd n m ∣ n ∧ Nat.gcd n m < n := by
  have hn : 0 < n := by omega
  refine ⟨Nat.gcd_dvd_left _ _, lt_of_le_of_ne (Nat.le_of_dvd hn (Nat.gcd_dvd_left _ _)) ?_⟩
  intro heq
  have : n ∣ m := by
    have := Nat.gcd_dvd_right n m
    rwa [heq] at this
  exact hmn (Nat.eq_of_dvd_of_lt_two_mul hm0 this hm2)

/-- `try_factor` on reduced operands: never panics, every returned pair is a proper
factorisation. (The congruence `a² ≡ b²` is not even needed for properness.) -/
theorem tryFactor_proper' {n a b : Nat} (ha : a < n) (hb : b < n) :
    ∃ res, tryFactor n a b = .ok res ∧
      ∀ p q, res = some (p, q) → p * q = n ∧ 1 < p ∧ 1 < q := by
  unfold tryFactor
  split
  · rename_i hc
    obtain ⟨h1, h2, h3⟩ := hc
    obtain ⟨hd, hl⟩ := gcd_proper h2 (by omega) h1 h3
    obtain ⟨e, hmul, hq⟩ := splitBy_spec hd h3 hl
    refine ⟨_, e, ?_⟩
    intro p q hpq
    simp only [Option.some.injEq, Prod.mk.injEq] at hpq
    rw [← hpq.1, ← hpq.2]
    exact ⟨hmul, h3, hq⟩
  · split
    · rename_i hab
      rw [if_neg (by omega)]
      split
      · rename_i h3
        obtain ⟨hd, hl⟩ := gcd_proper (m := n + a - b) (by omega) (by omega) (by omega) h3
        obtain ⟨e, hmul, hq⟩ := splitBy_spec hd h3 hl
        refine ⟨_, e, ?_⟩
        intro p q hpq
        simp only [Option.some.injEq, Prod.mk.injEq] at hpq
        rw [← hpq.1, ← hpq.2]
        exact ⟨hmul, h3, hq⟩
      · exact ⟨none, rfl, by intro p q h; cases h⟩
    · exact ⟨none, rfl, by intro p q h; cases h⟩

/-! ### `combine` (free function): a = ∏ xs, b = ∏ p^(k/2) -/

def xprod : List Nat → Nat
  | [] => 1
  | x :: t => x * xprod t

/-- `∏ (p as u64)^(k/2)` over the entries with `p ≠ -1` -/
def halfProd : List (Int × Nat) → Nat
  | [] => 1
  | (p, k) :: t => if p = -1 then halfProd t else toU64 p ^ (k / 2) * halfProd t

theorem fromInt_ok {n x y : Nat} (h : fromInt n x = .ok y) : y = x ∧ x < n := by
  unfold fromInt at h
  split at h
  · simp only [pure_eq_ok] at h; exact ⟨h.symm, by assumption⟩
  · simp [throw_ne_ok] at h

theorem prodXs_spec (n : Nat) : ∀ (xs : List Nat) (a0 a : Nat), prodXs n xs a0 = .ok a →
    a ≡ a0 * xprod xs [MOD n] ∧ (a0 < n → a < n) := by
  intro xs
  induction xs with
  | nil =>
    intro a0 a h
    simp only [prodXs, pure_eq_ok] at h
    subst h; simp [xprod, Nat.ModEq]
  | cons x t ih =>
    intro a0 a h
    simp only [prodXs, bind_eq_ok] at h
    obtain ⟨xm, hxm, h⟩ := h
    obtain ⟨rfl, hx⟩ := fromInt_ok hxm
    obtain ⟨h1, h2⟩ := ih _ _ h
    refine ⟨h1.trans ?_, fun _ => h2 (Nat.mod_lt _ (by omega))⟩
    have : a0 * xm % n * xprod t ≡ a0 * xm * xprod t [MOD n] :=
      Nat.ModEq.mul_right _ (Nat.mod_modEq _ _)
    refine this.trans ?_
    rw [show xprod (xm :: t) = xm * xprod t from rfl, mul_assoc]

theorem chunkLoop_spec (n maxchunk pu : Nat) : ∀ (i b chunk b' chunk' : Nat),
    chunkLoop n maxchunk pu i b chunk = .ok (b', chunk') →
    b' * chunk' ≡ b * chunk * pu ^ i [MOD n] := by
  intro i
  induction i with
  | zero =>
    intro b chunk b' chunk' h
    simp only [chunkLoop, pure_eq_ok, Prod.mk.injEq] at h
    rw [← h.1, ← h.2]; simp [Nat.ModEq]
  | succ i ih =>
    intro b chunk b' chunk' h
    unfold chunkLoop at h
    simp only at h
    split at h
    · simp [throw_ne_ok] at h
    · split at h
      · simp only [bind_eq_ok] at h
        obtain ⟨cm, hcm, h⟩ := h
        obtain ⟨rfl, _⟩ := fromInt_ok hcm
        refine (ih _ _ _ _ h).trans ?_
        have : b * cm % n * pu * pu ^ i ≡ b * cm * pu * pu ^ i [MOD n] :=
          Nat.ModEq.mul_right _ (Nat.ModEq.mul_right _ (Nat.mod_modEq _ _))
        refine this.trans ?_
        rw [pow_succ]; ring_nf; rfl
      · refine (ih _ _ _ _ h).trans ?_
        rw [pow_succ]; ring_nf; rfl

theorem factorsLoop_spec (n maxchunk : Nat) : ∀ (fs : List (Int × Nat)) (b chunk b' chunk' : Nat),
    factorsLoop n maxchunk fs b chunk = .ok (b', chunk') →
    b' * chunk' ≡ b * chunk * halfProd fs [MOD n] := by
  intro fs
  induction fs with
  | nil =>
    intro b chunk b' chunk' h
    simp only [factorsLoop, pure_eq_ok, Prod.mk.injEq] at h
    rw [← h.1, ← h.2]; simp [halfProd, Nat.ModEq]
  | cons f t ih =>
    obtain ⟨p, k⟩ := f
    intro b chunk b' chunk' h
    unfold factorsLoop at h
    split at h
    · rename_i hp
      refine (ih _ _ _ _ h).trans ?_
      simp [halfProd, hp, Nat.ModEq]
    · rename_i hp
      split at h
      · simp [throw_ne_ok] at h
      · simp only [bind_eq_ok] at h
        obtain ⟨bc, hbc, h⟩ := h
        have h1 := chunkLoop_spec n maxchunk (toU64 p) (k / 2) b chunk bc.1 bc.2 hbc
        refine (ih _ _ _ _ h).trans ?_
        have := Nat.ModEq.mul_right (halfProd t) h1
        refine this.trans ?_
        simp only [halfProd, if_neg hp]
        ring_nf; rfl

theorem combineAB_spec {n : Nat} {xs : List Nat} {fs : List (Int × Nat)} {a b : Nat}
    (h : combineAB n xs fs = .ok (a, b)) (hn : 0 < n) :
    a ≡ xprod xs [MOD n] ∧ b ≡ halfProd fs [MOD n] ∧ a < n ∧ b < n := by
  unfold combineAB at h
  simp only [bind_eq_ok, pure_eq_ok, Prod.mk.injEq] at h
  obtain ⟨a', ha, bc, hbc, cm, hcm, rfl, rfl⟩ := h
  obtain ⟨rfl, _⟩ := fromInt_ok hcm
  obtain ⟨h1, h2⟩ := prodXs_spec n xs _ _ ha
  have h3 := factorsLoop_spec n _ fs _ _ _ _ hbc
  have hone : 1 % n ≡ 1 [MOD n] := Nat.mod_modEq _ _
  refine ⟨?_, ?_, h2 (Nat.mod_lt _ hn), Nat.mod_lt _ hn⟩
  · refine h1.trans ?_
    have := Nat.ModEq.mul_right (xprod xs) hone
    simpa using this
  · refine (Nat.mod_modEq _ _).trans (h3.trans ?_)
    have := Nat.ModEq.mul_right (halfProd fs) (Nat.ModEq.mul_right 1 hone)
    simpa using this

/-- all exponents even (sign entries included) and every base `-1` or a non-negative `i64` -/
def EvenF (fs : List (Int × Nat)) : Prop :=
  ∀ f ∈ fs, f.2 % 2 = 0 ∧ (f.1 = -1 ∨ (0 ≤ f.1 ∧ f.1 < (I63 : Int)))

theorem EvenF_nil : EvenF [] := by intro f hf; cases hf

theorem EvenF_cons {f : Int × Nat} {t : List (Int × Nat)} :
    EvenF (f :: t) ↔ (f.2 % 2 = 0 ∧ (f.1 = -1 ∨ (0 ≤ f.1 ∧ f.1 < (I63 : Int)))) ∧ EvenF t := by
  simp [EvenF]

theorem EvenF_append {a b : List (Int × Nat)} : EvenF (a ++ b) ↔ EvenF a ∧ EvenF b := by
  simp only [EvenF, List.mem_append]
  constructor
  · intro h; exact ⟨fun f hf => h f (Or.inl hf), fun f hf => h f (Or.inr hf)⟩
  · rintro ⟨h1, h2⟩ f (hf | hf)
    · exact h1 f hf
    · exact h2 f hf

/-- with even exponents, the square of the half product is the full product -/
theorem halfProd_sq {fs : List (Int × Nat)} (h : EvenF fs) :
    ((halfProd fs : Nat) : Int) * (halfProd fs : Nat) = fprod fs := by
  induction fs with
  | nil => simp [halfProd]
  | cons f t ih =>
    obtain ⟨p, k⟩ := f
    rw [EvenF_cons] at h
    obtain ⟨⟨hk, hp⟩, ht⟩ := h
    simp only at hk hp
    have ih' := ih ht
    have hk2 : k = 2 * (k / 2) := by omega
    by_cases hm : p = -1
    · subst hm
      simp only [halfProd, if_true, fprod_cons]
      rw [ih', Even.neg_one_pow (Nat.even_iff.mpr hk), one_mul]
    · rcases hp with hp | ⟨hp0, hp1⟩
      · exact absurd hp hm
      · have hu : (toU64 p : Int) = p := toU64_nonneg hp0 (lt_trans hp1 (by decide))
        simp only [halfProd, if_neg hm, fprod_cons]
        push_cast
        rw [hu]
        conv_rhs => rw [hk2, pow_mul']
        rw [← ih']
        ring

/-! ### exponent accumulation -/

/-- `∏ slots[i] ^ exps[i]` -/
def slotProd : List Int → List Nat → Int
  | f :: fs, e :: es => f ^ e * slotProd fs es
  | _, _ => 1

theorem slotProd_zero : ∀ (slots : List Int), slotProd slots (slots.map fun _ => 0) = 1 := by
  intro slots
  induction slots with
  | nil => rfl
  | cons f t ih => simp [slotProd, ih]

theorem slotProd_set : ∀ (slots : List Int) (exps : List Nat) (f : Int) (idx e k : Nat),
    slotIndex f slots = some idx → exps[idx]? = some e →
    slotProd slots (exps.set idx (e + k)) = slotProd slots exps * f ^ k := by
  intro slots
  induction slots with
  | nil => intro exps f idx e k h; simp [slotIndex] at h
  | cons g t ih =>
    intro exps f idx e k h he
    cases exps with
    | nil => simp at he
    | cons e0 es =>
      unfold slotIndex at h
      split at h
      · rename_i hg
        simp only [Option.some.injEq] at h
        subst h; subst hg
        simp only [List.getElem?_cons_zero, Option.some.injEq] at he
        subst he
        simp only [List.set_cons_zero, slotProd, pow_add]; ring
      · cases hsi : slotIndex f t with
        | none => rw [hsi] at h; simp at h
        | some j =>
          rw [hsi] at h
          simp only [Option.map_some, Option.some.injEq] at h
          subst h
          simp only [List.getElem?_cons_succ] at he
          simp only [List.set_cons_succ, slotProd]
          rw [ih es f j e k hsi he]; ring

theorem slotIndex_mem : ∀ (slots : List Int) (f : Int) (idx : Nat),
    slotIndex f slots = some idx → f ∈ slots := by
  intro slots
  induction slots with
  | nil => intro f idx h; simp [slotIndex] at h
  | cons g t ih =>
    intro f idx h
    unfold slotIndex at h
    split at h
    · rename_i hg; subst hg; exact List.mem_cons_self
    · cases hsi : slotIndex f t with
      | none => rw [hsi] at h; simp at h
      | some j => exact List.mem_cons_of_mem _ (ih f j hsi)

theorem accFactors_spec (slots : List Int) : ∀ (fs : List (Int × Nat)) (exps : List Nat)
    (extra : List (Int × Nat)) (exps' : List Nat) (extra' : List (Int × Nat)),
    accFactors slots fs exps extra = .ok (exps', extra') →
    (∀ f ∈ fs, f.1 = -1 ∨ (0 ≤ f.1 ∧ f.1 < (I63 : Int))) → EvenF extra →
    exps'.length = exps.length ∧ EvenF extra' ∧
      slotProd slots exps' * fprod extra' = slotProd slots exps * fprod extra * fprod fs := by
  intro fs
  induction fs with
  | nil =>
    intro exps extra exps' extra' h _ hev
    simp only [accFactors, pure_eq_ok, Prod.mk.injEq] at h
    rw [← h.1, ← h.2]; simp [hev]
  | cons f t ih =>
    obtain ⟨p, k⟩ := f
    intro exps extra exps' extra' h hpr hev
    have hpt : ∀ f ∈ t, f.1 = -1 ∨ (0 ≤ f.1 ∧ f.1 < (I63 : Int)) :=
      fun f hf => hpr f (List.mem_cons_of_mem _ hf)
    unfold accFactors at h
    split at h
    · rename_i idx hidx
      split at h
      · simp [throw_ne_ok] at h
      · rename_i e he
        split at h
        · obtain ⟨h1, h2, h3⟩ := ih _ _ _ _ h hpt hev
          refine ⟨by rw [h1, List.length_set], h2, ?_⟩
          rw [h3, slotProd_set slots exps p idx e k hidx he, fprod_cons]; ring
        · simp [throw_ne_ok] at h
    · split at h
      · simp [throw_ne_ok] at h
      · rename_i hk
        simp only [not_not] at hk
        have hev' : EvenF (extra ++ [(p, k)]) := by
          rw [EvenF_append]
          exact ⟨hev, EvenF_cons.mpr ⟨⟨hk, hpr (p, k) List.mem_cons_self⟩, EvenF_nil⟩⟩
        obtain ⟨h1, h2, h3⟩ := ih _ _ _ _ h hpt hev'
        refine ⟨h1, h2, ?_⟩
        rw [h3, fprod_append, fprod_cons, fprod_cons, fprod_nil]; ring

/-- a relation the final step accepts: complete, a congruence, bases `-1` or non-negative `i64` -/
def FinalRel (n : Nat) (r : Relation) : Prop :=
  r.cofactor = 1 ∧ Valid n r ∧ ∀ f ∈ r.factors, f.1 = -1 ∨ (0 ≤ f.1 ∧ f.1 < (I63 : Int))

theorem accRels_spec (n : Nat) (slots : List Int) (rels : List Relation)
    (hrels : ∀ r ∈ rels, FinalRel n r) : ∀ (eq xs exps : List Nat) (extra : List (Int × Nat))
    (xs' exps' : List Nat) (extra' : List (Int × Nat)),
    accRels slots rels eq xs exps extra = .ok (xs', exps', extra') → EvenF extra →
    ((xprod xs : Nat) : Int) * (xprod xs : Nat) ≡ slotProd slots exps * fprod extra [ZMOD n] →
    EvenF extra' ∧
    ((xprod xs' : Nat) : Int) * (xprod xs' : Nat) ≡ slotProd slots exps' * fprod extra' [ZMOD n] := by
  intro eq
  induction eq with
  | nil =>
    intro xs exps extra xs' exps' extra' h hev hcong
    simp only [accRels, pure_eq_ok, Prod.mk.injEq] at h
    obtain ⟨rfl, rfl, rfl⟩ := h
    exact ⟨hev, hcong⟩
  | cons i t ih =>
    intro xs exps extra xs' exps' extra' h hev hcong
    unfold accRels at h
    split at h
    · simp [throw_ne_ok] at h
    · rename_i r hr
      simp only [bind_eq_ok] at h
      obtain ⟨ee, hee, h⟩ := h
      obtain ⟨hc1, hv, hpr⟩ := hrels r (List.mem_of_getElem? hr)
      obtain ⟨_, h2, h3⟩ := accFactors_spec slots _ _ _ ee.1 ee.2 hee hpr hev
      refine ih _ _ _ _ _ _ h h2 ?_
      rw [h3]
      have hx : xprod (xs ++ [r.x]) = xprod xs * r.x := by
        clear * -
        induction xs with
        | nil => simp [xprod]
        | cons a t ih => simp only [List.cons_append, xprod, ih]; ring
      rw [hx]
      push_cast
      unfold Valid at hv
      rw [hc1] at hv
      have := hcong.mul hv
      refine (show ((xprod xs : Nat) : Int) * r.x * ((xprod xs : Nat) * r.x) =
        (xprod xs : Nat) * (xprod xs : Nat) * ((r.x : Int) * r.x) by ring) ▸ this.trans ?_
      simp

theorem expFactors_spec : ∀ (slots : List Int) (exps : List Nat) (fs : List (Int × Nat)),
    expFactors slots exps = .ok fs → (∀ f ∈ slots, f = -1 ∨ (0 ≤ f ∧ f < (I63 : Int))) →
    fprod fs = slotProd slots exps ∧ EvenF fs := by
  intro slots
  induction slots with
  | nil =>
    intro exps fs h _
    simp only [expFactors, pure_eq_ok] at h
    subst h; exact ⟨rfl, EvenF_nil⟩
  | cons f t ih =>
    intro exps fs h hs
    have hst : ∀ f ∈ t, f = -1 ∨ (0 ≤ f ∧ f < (I63 : Int)) :=
      fun g hg => hs g (List.mem_cons_of_mem _ hg)
    cases exps with
    | nil =>
      simp only [expFactors, pure_eq_ok] at h
      subst h; exact ⟨rfl, EvenF_nil⟩
    | cons e es =>
      unfold expFactors at h
      split at h
      · split at h
        · simp [throw_ne_ok] at h
        · rename_i hev
          simp only [not_not] at hev
          simp only [bind_eq_ok, pure_eq_ok] at h
          obtain ⟨l, hl, rfl⟩ := h
          obtain ⟨h1, h2⟩ := ih es l hl hst
          exact ⟨by rw [fprod_cons, h1]; rfl,
            EvenF_cons.mpr ⟨⟨hev, hs f List.mem_cons_self⟩, h2⟩⟩
      · rename_i he
        have he0 : e = 0 := by omega
        obtain ⟨h1, h2⟩ := ih es fs h hst
        exact ⟨by rw [h1, he0]; simp [slotProd], h2⟩

/-- The accumulated kernel combination: when the slot exponents are all even (`expFactors`
returns) the pair handed to `try_factor` satisfies `a² ≡ b² (mod n)`, `a, b < n`. -/
theorem kernel_square {n : Nat} (hn : 0 < n) {slots : List Int} {rels : List Relation}
    {eq : List Nat} (hrels : ∀ r ∈ rels, FinalRel n r)
    (hslots : ∀ f ∈ slots, f = -1 ∨ (0 ≤ f ∧ f < (I63 : Int)))
    {acc : List Nat × List Nat × List (Int × Nat)} {fs : List (Int × Nat)} {ab : Nat × Nat}
    (hacc : accRels slots rels eq [] (slots.map fun _ => 0) [] = .ok acc)
    (hfs : expFactors slots acc.2.1 = .ok fs)
    (hab : combineAB n acc.1 (acc.2.2 ++ fs) = .ok ab) :
    ab.1 * ab.1 % n = ab.2 * ab.2 % n ∧ ab.1 < n ∧ ab.2 < n := by
  obtain ⟨h1, h2⟩ := accRels_spec n slots rels hrels eq [] _ [] acc.1 acc.2.1 acc.2.2 hacc EvenF_nil
    (by rw [slotProd_zero]; simp [xprod, Int.ModEq])
  obtain ⟨h3, h4⟩ := expFactors_spec slots _ fs hfs hslots
  obtain ⟨ha, hb, ha', hb'⟩ := combineAB_spec (a := ab.1) (b := ab.2) hab hn
  refine ⟨?_, ha', hb'⟩
  have hev : EvenF (acc.2.2 ++ fs) := EvenF_append.mpr ⟨h1, h4⟩
  have hsq := halfProd_sq hev
  have haZ : ((ab.1 : Nat) : Int) ≡ (xprod acc.1 : Nat) [ZMOD n] := Int.natCast_modEq_iff.mpr ha
  have hbZ : ((ab.2 : Nat) : Int) ≡ (halfProd (acc.2.2 ++ fs) : Nat) [ZMOD n] :=
    Int.natCast_modEq_iff.mpr hb
  have hfin : ((ab.1 * ab.1 : Nat) : Int) ≡ ((ab.2 * ab.2 : Nat) : Int) [ZMOD n] := by
    push_cast
    refine (haZ.mul haZ).trans (h2.trans ?_)
    have e : slotProd slots acc.2.1 * fprod acc.2.2 =
        ((halfProd (acc.2.2 ++ fs) : Nat) : Int) * (halfProd (acc.2.2 ++ fs) : Nat) := by
      rw [hsq, fprod_append, h3, mul_comm]
    rw [e]
    exact (hbZ.mul hbZ).symm
  exact Int.natCast_modEq_iff.mp hfin

end Ymq.Relations

namespace Ymq.Relations

/-! ### `final_step` returns proper divisors only, whatever the kernel vectors are -/

theorem insertNat_mem {x d : Nat} : ∀ {l : List Nat}, d ∈ insertNat x l → d = x ∨ d ∈ l := by
  intro l
  induction l with
  | nil => intro h; simp [insertNat] at h; exact Or.inl h
  | cons y t ih =>
    intro h
    unfold insertNat at h
    split at h
    · rcases List.mem_cons.mp h with h | h
      · exact Or.inl h
      · exact Or.inr h
    · split at h
      · exact Or.inr h
      · rcases List.mem_cons.mp h with h | h
        · exact Or.inr (by rw [h]; exact List.mem_cons_self)
        · rcases ih h with h | h
          · exact Or.inl h
          · exact Or.inr (List.mem_cons_of_mem _ h)

theorem sortDedup_mem {d : Nat} {l : List Nat} (h : d ∈ sortDedup l) : d ∈ l := by
  unfold sortDedup at h
  have : ∀ (l acc : List Nat), d ∈ l.foldl (fun acc x => insertNat x acc) acc → d ∈ acc ∨ d ∈ l := by
    intro l
    induction l with
    | nil => intro acc h; exact Or.inl h
    | cons x t ih =>
      intro acc h
      simp only [List.foldl_cons] at h
      rcases ih _ h with h | h
      · rcases insertNat_mem h with h | h
        · exact Or.inr (by rw [h]; exact List.mem_cons_self)
        · exact Or.inl h
      · exact Or.inr (List.mem_cons_of_mem _ h)
  rcases this l [] h with h | h
  · cases h
  · exact h

/-- one kernel iteration: a returned pair is a proper factorisation -/
theorem kernelStep_proper {n : Nat} {slots : List Int} {rels : List Relation} {eq : List Nat}
    {a b p q : Nat} (h : kernelStep n slots rels eq = .ok (a, b, some (p, q))) :
    p * q = n ∧ 1 < p ∧ 1 < q := by
  unfold kernelStep at h
  simp only [bind_eq_ok] at h
  obtain ⟨acc, _, fs, _, ab, hab, h⟩ := h
  split at h
  · simp [throw_ne_ok] at h
  · simp only [bind_eq_ok, pure_eq_ok, Prod.mk.injEq] at h
    obtain ⟨d, hd, rfl, rfl, rfl⟩ := h
    by_cases hn : 0 < n
    · obtain ⟨_, _, ha, hb⟩ := combineAB_spec (a := ab.1) (b := ab.2) hab hn
      obtain ⟨res, h1, h2⟩ := tryFactor_proper' ha hb
      rw [h1] at hd
      cases hd
      exact h2 p q rfl
    · exfalso
      unfold combineAB at hab
      simp only [bind_eq_ok] at hab
      obtain ⟨_, _, _, _, cm, hcm, _⟩ := hab
      have := (fromInt_ok hcm).2
      omega

def ProperDiv (n d : Nat) : Prop := 1 < d ∧ d < n ∧ d ∣ n

theorem proper_of_split {n p q : Nat} (h : p * q = n) (hp : 1 < p) (hq : 1 < q) :
    ProperDiv n p ∧ ProperDiv n q := by
  refine ⟨⟨hp, ?_, ⟨q, h.symm⟩⟩, ⟨hq, ?_, ⟨p, by rw [← h, Nat.mul_comm]⟩⟩⟩
  · rw [← h]; exact (Nat.lt_mul_iff_one_lt_right (by omega)).mpr hq
  · rw [← h]; exact (Nat.lt_mul_iff_one_lt_left (by omega)).mpr hp

theorem kernelLoop_mem {n : Nat} {slots : List Int} {rels : List Relation} {isPrime : Nat → Bool} :
    ∀ (kernel : List (List Nat)) (divs out : List Nat),
      kernelLoop n slots rels isPrime kernel divs = .ok out →
      ∀ d ∈ out, d ∈ divs ∨ ProperDiv n d := by
  intro kernel
  induction kernel with
  | nil =>
    intro divs out h d hd
    simp only [kernelLoop, pure_eq_ok] at h
    rw [← h] at hd; exact Or.inl hd
  | cons eq t ih =>
    intro divs out h d hd
    simp only [kernelLoop, bind_eq_ok] at h
    obtain ⟨r, hr, h⟩ := h
    split at h
    · exact ih divs out h d hd
    · rename_i p q hpq
      have hstep : kernelStep n slots rels eq = .ok (r.1, r.2.1, some (p, q)) := by
        rw [hr, ← hpq]
      obtain ⟨hm, hp, hq⟩ := kernelStep_proper hstep
      obtain ⟨pp, pq⟩ := proper_of_split hm hp hq
      have hnew : ∀ d ∈ divs ++ [p, q], d ∈ divs ∨ ProperDiv n d := by
        intro d hd
        simp only [List.mem_append, List.mem_cons, List.not_mem_nil, or_false] at hd
        rcases hd with hd | hd | hd
        · exact Or.inl hd
        · rw [hd]; exact Or.inr pp
        · rw [hd]; exact Or.inr pq
      split at h
      · simp only [pure_eq_ok] at h
        rw [← h] at hd
        exact hnew d hd
      · rcases ih _ out h d hd with h1 | h1
        · exact hnew d h1
        · exact Or.inr h1

/-- `final_step` (everything around the kernel solver): whatever relations and whatever kernel
vectors it is given, every element of the returned list is a proper divisor of `n`. -/
theorem finalStep_proper {n : Nat} {fb : List Nat} {rels : List Relation}
    {kernel : List (List Nat)} {isPrime : Nat → Bool} {slots : List Int} {cnt : Nat}
    {divs : List Nat} (h : finalStep n fb rels kernel isPrime = .ok (slots, cnt, divs)) :
    ∀ d ∈ divs, ProperDiv n d := by
  unfold finalStep at h
  simp only [bind_eq_ok] at h
  obtain ⟨_, _, occs0, _, filt, _, h⟩ := h
  split at h
  · simp [throw_ne_ok] at h
  · simp only [bind_eq_ok, pure_eq_ok, Prod.mk.injEq] at h
    obtain ⟨out, hout, _, _, rfl⟩ := h
    intro d hd
    rcases kernelLoop_mem _ _ _ hout d (sortDedup_mem hd) with h1 | h1
    · cases h1
    · exact h1

end Ymq.Relations
