/- C20: one of the large finite checks, in its own module so that lake checks them in parallel.
Restated as a property theorem in Ymq/Props/C20.lean. -/
import Ymq.Lemmas.ParamsDefs

namespace Ymq.C20.Dec
open Ymq.Checked Ymq.Gen Ymq.Gen.Params Ymq.C20

theorem fbase_request : ∀ sz, sz ≤ 520 → ∀ d m8 : Bool,
    Holds (siqs.fb_size sz d m8) FbRequestOk ∧ Holds (params.factor_base_size sz) FbRequestOk ∧
    Holds (params.qs_fb_size sz d) FbRequestOk ∧ Holds (params.mpqs_fb_size sz d) FbRequestOk ∧
    Holds (params.clsgrp_fb_size sz d) FbRequestOk := by decide +kernel

end Ymq.C20.Dec
