//! Berlekamp-Massey (C19): matrix/intsparse.rs `berlekamp_massey`, `berlekamp_massey_big`.
//!
//! `bm <p> <s0,s1,...>`      -> `-` (empty vector) | `c0,c1,...`   (u64 / Montgomery variant)
//! `bm_big <p> <s0,s1,...>`  -> the same for `berlekamp_massey_big::<U256, U512>` (the instantiation
//!                              `ker_p256` uses for moduli of 182 bits and more)
use crate::util::*;
use bnum::types::{U256, U512};
use yamaquasi::matrix::intsparse;

pub fn handle(op: &str, a: &[&str]) -> Option<String> {
    match (op, a) {
        ("bm", [p, seq]) => Some(show_list(&intsparse::berlekamp_massey(
            u64_of(p)?,
            &list_of::<u64>(seq)?,
        ))),
        ("bm_big", [p, seq]) => {
            let p: U256 = p.parse().ok()?;
            let seq = list_of::<U256>(seq)?;
            Some(show_list(&intsparse::berlekamp_massey_big::<U256, U512>(p, &seq)))
        }
        _ => None,
    }
}
