"""C17 — prime enumeration is exact and smoothness exponents cover every prime power.

fbase::primes, fbase::PrimeSieve, ecm::SmoothBase::new, pollard_pm1::PM1Base::new and the stage-1
exponent stream of pollard_pm1::pm1_impl.
Request lines: see lean/Ymq/Drv/Primes.lean and harness/src/ops_primes.rs.
"""
# SIZE AUDIT (quick tier)  [measured with seed 1]
# Widths in the code: fbase::primes(n) sieves up to max(100, n * bitlen n) in u32 (overflow from n = 153391690; callers go to
# 2*fb_size + 40, 70000, 50000); PrimeSieve = 65536 blocks of 2^16 numbers, u32 primes up to 4294967291; SmoothBase::new(b1: usize)
# casts b1 to u32 and switches its prime source at 65536 and its block kind at 4096 (ecm() passes B1 = 200 .. 350e6); pm1_impl takes
# b1: u64 with `largeblocks = b1 >= 65536` (pm1 passes B1 = 600 .. 300e6, among them 1<<20, 4<<20, 16<<20 = 2^24). The theorems are
# unconditional up to B1 = 2^24 (smoothbase_divides_16M), under the named gap hypothesis up to 65535*65536.
#
# op                quick max            thorough max   supported / used by the code        boundaries reached by quick BEFORE this audit
# primes            70000 (+4 overflow   10^6           < 153391690 (gigabytes near the     every k <= 20000; 2^e-1, 2^e, 2^e+1 for e <= 14; 32767,
#                   k in chk, no oracle)                top: not exercised); callers <~ 10^6 32768, 65536, 70000; u32 overflow 153391690.. (chk): never
#                                                                                           65535, 2^17, 2^18, 2^20 (bit length of k changes)
# primesieve_block  all 65536 blocks (walk) + 253 blocks element-wise incl. 0..39, 255..257, 4095/4096, 32767/32768, 65533..65535, end
#                   markers 65536, 65537, 65540: the whole domain, complete
# sb_new            10^6                 10^7           < 65535*65536; ecm() to 350e6       every B1 <= 5000; +-150 around 4096 and 65536; prime-power
# pm1_exponents     10^6                 10^7           < 4294967291; pm1 to 300e6          neighbours to 10^6; 2^17+-1; 103 / 85 random values in
#                                                                                           200000..10^6. Never above 10^6: not 2^20 (= pm1's 1<<20),
#                                                                                           not ecm's 1.5e6 / 3e6, not pm1's 4<<20, not 2^24 (limit of
#                                                                                           the unconditional theorems and pm1's 16<<20)
# Added by the audit (boundary_cases, yielded first in both tiers): primes(k) at 65535, 2^17+-1, 2^18+-1 (model-compared) and 2^20;
# sb_new at 2^20-1, 2^20, 2^20+1 (both block kinds), 1500000, 3000000, 4194304, 16777216; pm1_exponents at 1048576, 2000000, 4194304,
# 16777216 (model-compared up to 2e6); thorough adds 2^24+1, 2^25 and 60e6 / 45e6. Not reachable in any tier: B1 >= 10^8 (answers of
# hundreds of megabytes), primes(k) near the u32 overflow (gigabytes), B1 >= 65535*65536 (a complete sieve walk per request).
from vlib.pipeline import Case

PID = "C17"
GEN = []
LEAN = ["Ymq.Props.C17"]
AUDIT = "Ymq.Audit.C17"
THEOREMS = ["Ymq.C17." + t for t in (
    "primes_sound primes_sound_domain primes_len primes_exact_upto primes_exact primes_small_exact primes_zero_one "
    "offsets_invariant block_spec blocks_tile sieve_end blockAt_spec "
    "smoothbase_pack_divides HGap_16M smoothbase_divides smoothbase_divides_16M "
    "pm1_block_divides pm1_stage1_divides pm1_stage1_divides_thr pm1_stage1_overflow_992 pm1_stage1_overflow_992_model "
    "pm1base_divides").split()]
HYPOTHESES = [
    "HRosser (theorem primes_exact; primes_exact_upto takes it up to k only): the k-th prime is < k * bitlen(k) for every k >= 2 "
    "(Rosser-Schoenfeld type bound, p_k < k (ln k + ln ln k) for k >= 6). Proved inside Lean for k <= 564 (primes_small_exact is "
    "unconditional there); without it primes_sound/primes_len give the exact list of all primes below the sieve bound, truncated to n",
    "HGap b1 (theorem smoothbase_divides, only for b1 >= 65536): every 2^16-wide block with index <= b1/65536 + 1 contains a prime "
    "(maximal prime gap below 2^32 is 336). Proved inside Lean for the first 258 blocks, i.e. every B1 <= 2^24 (smoothbase_divides_16M "
    "is unconditional); checked for all 65536 blocks of the implementation by primesieve_walk (empty_blocks=0)",
    "no longer a hypothesis: HSmall (block 0 of the sieve model = all primes below 2^16) is theorem Ymq.Primes.primes_6542 "
    "(pi(65536) = 6542 computed in the kernel with a verified trial-division test)",
]
PROFILES = ["release", "chk"]
TIMEOUT = 25.0
RULE = ("boundary family first (both tiers): primes(k) at 65535, 2^17+-1, 2^18+-1, 2^20; SmoothBase::new at 2^20-1, 2^20, 2^20+1, 1500000, "
        "3000000, 4194304 and 2^24, pm1 stage 1 at 2^20, 2000000, 4194304 and 2^24 (values ecm()/pm1() really pass; 2^24 is the limit of the "
        "unconditional theorems; thorough: also 2^24+1, 2^25, 45e6 / 60e6); then "
        "primes(k): every k <= 20000 (oracle; model-compared for k <= 800 and a sample beyond), the full list for k = 20000, boundary k of the "
        "bound formula, the u32-overflow k in the checked profile; PrimeSieve: blocks 0..39, 200 sampled, the last 3 and the end markers "
        "element-wise against an independent segmented sieve, the complete walk of 65536 blocks (count, order, emptiness, end); "
        "SmoothBase::new: every B1 <= 5000 with and without large blocks, every B1 within 150 of 4096 and 65536, prime-power neighbours, "
        "random B1 up to 10^6 (10^7 thorough); pm1 stage-1 stream: every B1 in 4..5000, both sides of 65536, random to 10^6; distinct by request line")
MODELLED = [
    "fbase::primes (bound max(100, n*bitlen n) in u32 with its overflow, odd-only sieve, early break, p*p > bound skip, first marked multiple 3p, "
    "final truncate) — Ymq/Model/Primes.lean",
    "fbase::PrimeSieve::{new, next} (block 0 = primes(6542) with the assert on 65521, offsets p-1-65535%p, 3-way unrolled marking loop, offset "
    "update o-65536 with its underflow site, block values (count<<16)+idx, end at block 65536) — Ymq/Model/Primes.lean",
    "ecm::SmoothBase::new (both prime sources incl. indexing an empty block, extra factors 16 and 3, the three flush rules, u64 and U1024 overflow "
    "sites, casts b1 as u32) — Ymq/Model/SmoothBase.lean",
    "pollard_pm1::PM1Base::new — Ymq/Model/SmoothBase.lean",
    "pollard_pm1::pm1_impl stage 1: exponents passed to exp_modn / exp_modn_large (flush rule of the u64 block, flush threshold of the U1024 "
    "block as a parameter, stop at the first prime > b1, loop over sieve blocks) — Ymq/Model/SmoothBase.lean",
]
UNMODELLED = [
    "the data-dependent exits of pm1 stage 1 (g == 1, factor found by check_gcd_factors) are not modelled; the harness drives pm1_impl with a "
    "63-bit safe prime for which they never fire and records the exponents at the entry of exp_modn/exp_modn_large (hook)",
    "bnum U1024 multiplication and bits() are modelled as Nat multiplication / bit length (overflow = panic site); memory safety of "
    "get_unchecked_mut in PrimeSieve::next is not modelled (the index bound o + 2p < 65536 holds by the loop condition)",
    "Vec allocation sizes (primes(n) with n close to 2^32/28 allocates gigabytes) are not modelled or exercised",
]

HM = (1 << 61) - 1
PI_2_32 = 203280221          # number of primes below 2^32 (literature; recomputed by the walk itself on the implementation side)
LAST_P32 = 4294967291
SAFE_R = 4611686018427385619  # the harness runs pm1_impl modulo 2*SAFE_R + 1


def hash_list(l, h=0):
    for x in l:
        h = (h * 1000003 + x) % HM
    return h


# ---------------------------------------------------------------- independent prime tables

def sieve_upto(n):
    s = bytearray([1]) * (n + 1)
    s[0:2] = b"\x00\x00"
    i = 2
    while i * i <= n:
        if s[i]:
            s[i * i::i] = bytes(len(range(i * i, n + 1, i)))
        i += 1
    return [i for i in range(n + 1) if s[i]]


_P = {"lim": 0, "list": []}


def primes_upto(n):
    """all primes <= n (cached, grown on demand)"""
    if n > _P["lim"]:
        lim = max(n, 2 * _P["lim"], 1 << 16)
        _P["list"] = sieve_upto(lim)
        _P["lim"] = lim
    return _P["list"]


_PREFIX = {"h": [0], "k": 0}


def prefix_hash(k):
    """hash of the first k primes (incremental cache)"""
    ps = primes_upto(400000)
    while len(ps) < k:
        ps = primes_upto(2 * _P["lim"])
    hs = _PREFIX["h"]
    while len(hs) <= k:
        hs.append((hs[-1] * 1000003 + ps[len(hs) - 1]) % HM)
    return hs[k]


def segment(b):
    """primes of [65536 b, 65536 (b+1)) by an independent segmented sieve"""
    if b == 0:
        return [p for p in primes_upto(65535) if p < 65536]
    lo = b << 16
    seg = bytearray([1]) * 65536
    for p in primes_upto(65535):
        if p >= 65536:
            break
        if p * p >= lo + 65536:
            break
        st = (-lo) % p
        seg[st::p] = bytes(len(range(st, 65536, p)))
    return [lo + i for i in range(65536) if seg[i]]


# ---------------------------------------------------------------- generators

def primes_cases(tier, rng, extended):
    top = 20000 if tier == "quick" else 1000000
    yield Case(f"primes_list {20000}", tag="primes")
    yield Case("primes_list 0", tag="primes")
    yield Case("primes_list 1", tag="primes")
    yield Case("primes_list 2", tag="primes")
    ks = set(range(0, 801))
    for _ in range(150 if not extended else 3000):
        ks.add(rng.randrange(800, 20001))
    for e in range(1, 15):
        ks.update({(1 << e) - 1, 1 << e, (1 << e) + 1})
    ks.update({20, 21, 24, 25, 26, 6541, 6542, 6543, 20000})
    for k in range(0, 20001):
        yield Case(f"primes {k}", k=(k in ks), tag="primes")
    if tier != "quick":
        for k in (32767, 32768, 65535, 65536, 70000, 131071, 131072, 10 ** 5, 524287, 524288, 10 ** 6):
            yield Case(f"primes {k}", tag="primes")
        for _ in range(300):
            yield Case(f"primes {rng.randrange(20000, top + 1)}", k=False, tag="primes")
    else:
        for k in (32767, 32768, 65536, 70000):
            yield Case(f"primes {k}", tag="primes")
    # n * bitlen(n) overflows u32: panic in the checked profile (the release profile wraps: not in the domain of the property)
    for k in (153391690, 153391700, 268435456, 4294967295):
        yield Case(f"primes {k}", o=False, profiles=["chk"], tag="primes-overflow")


def sieve_cases(tier, rng, extended):
    yield Case("primesieve_seq 6", tag="sieve")
    yield Case("primesieve_seq 0", tag="sieve")
    quick = tier == "quick"
    bs = set(range(0, 40))
    nsample = 200 if quick else 3000
    if extended:
        nsample *= 5
    for _ in range(nsample):
        bs.add(rng.randrange(40, 65533))
    bs.update({255, 256, 257, 4095, 4096, 32767, 32768, 65533, 65534, 65535})
    ksel = set(range(0, 8)) | {255, 256, 32768, 65533, 65534, 65535}
    srt = sorted(bs)
    for b in rng.sample(srt, 24):
        ksel.add(b)
    # ascending order: the harness walks one sieve through all of them.  The checked profile stops early in the
    # quick tier (its walk is done by the release profile), except for the blocks the model is compared on.
    for b in srt:
        prof = None
        if quick and b >= 3000 and b not in ksel:
            prof = ["release"]
        yield Case(f"primesieve_block {b}", k=(b in ksel), profiles=prof, timeout=(150.0 if b >= 60000 else None), tag="sieve")
    # the end markers continue the same walk; the complete walk then starts from a fresh sieve
    for b in (65536, 65537, 65540):
        yield Case(f"primesieve_block {b}", timeout=150.0, tag="sieve")
    yield Case("primesieve_walk", k=False, profiles=(["release"] if quick else None), timeout=400.0, tag="sieve")


def prime_power_neighbours(limit):
    out = set()
    for p in (2, 3, 5, 7, 11, 13, 17, 19, 23, 29, 31, 37, 61, 63, 64, 97, 251, 256, 257, 509, 1021):
        q = p
        while q <= limit:
            out.update({q - 1, q, q + 1})
            q *= p
    return {x for x in out if 2 <= x <= limit}


def b1_values(tier, rng, extended, lo):
    top = 10 ** 6 if tier == "quick" else 10 ** 7
    vals = set(range(lo, 5001))
    vals.update(range(4096 - 150, 4096 + 151))
    vals.update(range(65536 - 150, 65536 + 151))
    vals.update(x for x in prime_power_neighbours(top) if x >= lo)
    n = 120 if tier == "quick" else 240
    if extended:
        n *= 8
    for _ in range(n):
        c = rng.randrange(8)
        if c < 2:
            vals.add(rng.randrange(5000, 70000))
        elif c < 4:
            vals.add(rng.randrange(65536, 200000))
        elif c < 7 or tier == "quick":
            vals.add(rng.randrange(70000, 10 ** 6 + 1))
        else:
            vals.add(rng.randrange(10 ** 6, top + 1))
    vals.update({10 ** 5, 500000, 10 ** 6, top})
    return sorted(vals)


def model_compared(b1, rng, extended, nb):
    """which B1 are also run through the Lean model (all of them in the extended search)"""
    if extended or b1 <= 600 or abs(b1 - 4096) <= 25 or abs(b1 - 65536) <= 12 or b1 in nb or b1 in (10 ** 5, 500000, 10 ** 6):
        return True
    if b1 <= 5000:
        return b1 % 6 == 0
    return b1 <= 300000 and rng.randrange(8) == 0


def smooth_cases(tier, rng, extended):
    for b1 in (0, 1):
        for lg in (0, 1):
            yield Case(f"sb_new {b1} {lg}", tag="smoothbase")
    nb = prime_power_neighbours(70000)
    for b1 in b1_values(tier, rng, extended, 2):
        k = model_compared(b1, rng, extended, nb)
        for lg in (0, 1):
            yield Case(f"sb_new {b1} {lg}", k=k, tag="smoothbase")


def pm1_cases(tier, rng, extended):
    yield Case("pm1base", tag="pm1base")
    for b1 in (0, 1, 2, 3):
        yield Case(f"pm1_exponents {b1}", o=False, tag="pm1")      # assert!(b1 > 3)
    nb = prime_power_neighbours(70000)
    for b1 in b1_values(tier, rng, extended, 4):
        yield Case(f"pm1_exponents {b1}", k=model_compared(b1, rng, extended, nb), tag="pm1")


def boundary_cases(rng, tier):
    """size audit: B1 and k above the caps of the random families (10^6 quick, 10^7 thorough), at the values the library really
    passes and at the limit 2^24 of the unconditional theorems. Deterministic (the stream `rng` is not used)."""
    for k in (65535, 131071, 131072, 131073, 262143, 262144, 262145):
        yield Case(f"primes {k}", tag="primes")
    yield Case(f"primes {1 << 20}", k=False, tag="primes")
    for b1 in ((1 << 20) - 1, 1 << 20, (1 << 20) + 1):
        for lg in (0, 1):
            yield Case(f"sb_new {b1} {lg}", tag="smoothbase")
    yield Case("sb_new 1500000 1", tag="smoothbase")
    for b1 in (3000000, 4 << 20, 1 << 24):
        yield Case(f"sb_new {b1} 1", k=False, timeout=120.0, tag="smoothbase")
    for b1 in (1 << 20, 2000000):
        yield Case(f"pm1_exponents {b1}", tag="pm1")
    for b1 in (4 << 20, 1 << 24):
        yield Case(f"pm1_exponents {b1}", k=False, timeout=120.0, tag="pm1")
    if tier != "quick":
        for b1 in ((1 << 24) + 1, 1 << 25, 60000000):
            yield Case(f"sb_new {b1} 1", k=False, timeout=300.0, tag="smoothbase")
        for b1 in ((1 << 24) + 1, 1 << 25, 45000000):
            yield Case(f"pm1_exponents {b1}", k=False, timeout=300.0, tag="pm1")


def cases(tier, rng, extended=False):
    yield from boundary_cases(rng, tier)
    yield from primes_cases(tier, rng, extended)
    yield from smooth_cases(tier, rng, extended)
    yield from pm1_cases(tier, rng, extended)
    yield from sieve_cases(tier, rng, extended)


def corpus_case(line):
    if line.startswith("!chk "):
        return Case(line[5:], o=False, profiles=["chk"])
    if line.startswith("!noo "):
        return Case(line[5:], o=False)
    if line.startswith("!nok "):
        return Case(line[5:], k=False)
    return Case(line)


# ---------------------------------------------------------------- oracle

def parse_list(s):
    return [] if s == "-" else [int(x) for x in s.split(",")]


def required_powers(b1, include_equal):
    """(p, q): q the largest power of the prime p below b1 (q = p when p = b1 and include_equal)"""
    top = b1 if include_equal else b1 - 1
    out = []
    for p in primes_upto(max(top, 2)):
        if p > top:
            break
        q = p
        while q * p < b1:
            q *= p
        out.append((p, q))
    return out


def product(xs):
    xs = list(xs)
    if not xs:
        return 1
    while len(xs) > 1:
        xs = [xs[i] * xs[i + 1] if i + 1 < len(xs) else xs[i] for i in range(0, len(xs), 2)]
    return xs[0]


def missing_power(blocks, b1, include_equal):
    """None when every prime power below b1 (and every prime <= b1 if include_equal) divides prod(blocks), else a
    prime power that does not.
    Fast path: the blocks of a correct implementation are products of powers of consecutive primes, so they are
    factored by walking the prime list once (with a look-ahead of 8 primes; whatever is left of a block after that is
    ignored).  This gives lower bounds for the valuations: if they already meet every requirement the answer is None.
    Otherwise the exact general path decides (bounded cost): the product E of all blocks is tested against the first 300
    required prime powers and a deterministic sample of 300 others, then against the product of all of them."""
    req = required_powers(b1, include_equal)
    plist = [p for p, _ in req]
    n = len(plist)
    val = {}
    j = 0
    for blk in blocks:
        r = blk
        if r == 0:
            return (0, 0)
        while r > 1 and j < n:
            p = plist[j]
            if r % p != 0:
                for t in range(j + 1, min(j + 9, n)):
                    if r % plist[t] == 0:
                        j = t
                        break
                else:
                    break               # foreign factor left: ignored (lower bound)
                p = plist[j]
            while r % p == 0:
                r //= p
                val[p] = val.get(p, 0) + 1
            j += 1
    miss = None
    for p, q in req:
        e = 0
        t = q
        while t > 1:
            t //= p
            e += 1
        if val.get(p, 0) < e:
            miss = (p, q)
            break
    if miss is None:
        return None
    E = product(blocks)
    if E % miss[1]:
        return miss
    import random as _r
    rr = _r.Random(b1)
    sample = req[:300] + (rr.sample(req[300:], min(300, len(req) - 300)) if len(req) > 300 else [])
    for p, q in sorted(sample):
        if E % q:
            return (p, q)
    L = product(q for _, q in req)
    if E % L == 0:
        return None
    lo, hi = 0, len(req)          # binary search for one missing prime power: prod(req[lo:hi]) does not divide E
    while hi - lo > 1:
        mid = (lo + hi) // 2
        if E % product(q for _, q in req[lo:mid]):
            hi = mid
        else:
            lo = mid
    return req[lo]


_MEMO = {}


_FAILS = {}
FAIL_BUDGET = 40


def oracle(case, ans):
    # both profiles usually give the same answer: judge it once
    key = (case.line, hash(ans), len(ans))
    if key not in _MEMO:
        # once an op has failed FAIL_BUDGET times the verdict is settled (VIOLATION with the shortest failing request as
        # replay); further answers of that op are not analysed (the general path of the oracle is slow on garbage)
        if _FAILS.get(case.op, 0) >= FAIL_BUDGET:
            return None
        if len(_MEMO) > 200000:
            _MEMO.clear()
        _MEMO[key] = oracle1(case, ans)
        if _MEMO[key]:
            _FAILS[case.op] = _FAILS.get(case.op, 0) + 1
    return _MEMO[key]


def oracle1(case, ans):
    op, a = case.op, case.args
    if ans in ("panic", "abort", "hang", "?") or ans.startswith("unexpected"):
        return f"no value returned ({ans})"
    if op == "primes_list":
        k = int(a[0])
        got = parse_list(ans)
        ps = primes_upto(400000)
        return None if got == ps[:k] else f"primes({k}) is not the list of the first {k} primes"
    if op == "primes":
        k = int(a[0])
        ps = primes_upto(400000)
        while len(ps) < k:
            ps = primes_upto(2 * _P["lim"])
        last = str(ps[k - 1]) if k else "-"
        want = f"n={k} last={last} h={prefix_hash(k)}"
        return None if ans == want else f"primes({k}): summary {ans} != {want}"
    if op == "primesieve_block":
        b = int(a[0])
        got = parse_list(ans)
        want = segment(b) if b < 65536 else []
        if got != want:
            extra = sorted(set(got) - set(want))[:3]
            miss = sorted(set(want) - set(got))[:3]
            return f"block {b}: not the primes of [65536*{b}, 65536*{b + 1}) (missing {miss}, extra {extra}, order ok={got == sorted(got)})"
        return None
    if op == "primesieve_seq":
        b = int(a[0])
        parts = []
        for i in range(b + 1):
            s = segment(i)
            parts.append(f"{len(s)}:{s[0]}:{s[-1]}:{hash_list(s)}")
        offs = [(-(65536 * (b + 1))) % p if b + 1 > 1 else p - 1 - 65535 % p for p in segment(0)]
        want = ",".join(parts) + f"|{hash_list(offs)}|{b + 1}"
        return None if ans == want else "sequential walk: block summaries / offsets / counter differ from the independent sieve"
    if op == "primesieve_walk":
        want = f"blocks=65536 count={PI_2_32} increasing=true last={LAST_P32} empty_blocks=0 end=0,0,0"
        return None if ans == want else f"walk: {ans} != {want}"
    if op == "sb_new":
        b1 = int(a[0])
        f, l = ans.split("|")
        f, l = parse_list(f), parse_list(l)
        if any(x >= 1 << 64 for x in f) or any(x >= 1 << 1024 for x in l):
            return "block out of range"
        m = missing_power(f + l, b1, False)
        return None if m is None else f"SmoothBase::new({b1}): prime power {m[1]} (prime {m[0]}) < B1 does not divide the product of the blocks"
    if op == "pm1_exponents":
        b1 = int(a[0])
        evs = [] if ans == "-" else ans.split(",")
        vals = []
        for e in evs:
            v = int(e[1:])
            if (e[0] == "s" and v >= 1 << 64) or (e[0] == "l" and v >= 1 << 1024) or e[0] not in "sl":
                return "exponent block out of range"
            vals.append(v)
        m = missing_power(vals, b1, True)
        return None if m is None else f"pm1 stage 1 (B1={b1}): prime power {m[1]} (prime {m[0]}) does not divide the accumulated exponent"
    if op == "pm1base":
        f, l = ans.split("|")
        f = parse_list(f)
        if any(x >= 1 << 32 for x in f):
            return "block out of range"
        prod = 1
        for x in f:
            prod *= x
        for p in primes_upto(500):
            if p >= 500:
                break
            q = p
            while q * p < 1024:
                q *= p
            if prod % q:
                return f"PM1Base: {q} does not divide the product of the factor blocks"
        lar = [p for p in primes_upto(900000) if p >= 500][:65536]
        want = f"{len(lar)}:{lar[0]}:{lar[-1]}:{hash_list(lar)}"
        return None if l == want else "PM1Base: larges are not the 65536 primes following 500"
    return "unknown op"


# ---------------------------------------------------------------- distribution

def sb_rules(b1, use_large):
    """which flush rules of SmoothBase::new fire for this input (labels the input distribution only):
    1 = small-prime rule, 2f/2l = full buffer to factors / to the large buffer, 3 = large buffer pushed,
    ff/fl = final buffer to factors / large, fL = final large block pushed"""
    if b1 > 200000 or b1 >= 1 << 32:
        return "-"
    fired = set()
    buf, lg = 1, 1
    for p in primes_upto(max(b1, 2)):
        if p >= b1:
            break
        pw = p
        while pw * p < b1:
            pw *= p
        if p == 2:
            pw *= 16
        if p == 3:
            pw *= 3
        if p < 256 and buf > 1 << 32:
            fired.add("1")
            buf = 1
        if (1 << (64 - buf.bit_length())) <= pw:
            if p < 4096 or not use_large:
                fired.add("2f")
            else:
                fired.add("2l")
                lg *= buf
            buf = 1
        if lg.bit_length() > 960:
            fired.add("3")
            lg = 1
        buf *= pw
    if buf > 1:
        if b1 < 4096 or not use_large:
            fired.add("ff")
        else:
            fired.add("fl")
            lg *= buf
    if lg > 1:
        fired.add("fL")
    return "+".join(sorted(fired)) or "none"


def klass(case, ans):
    op, a = case.op, case.args
    bad = ""
    if ans in ("panic", "abort", "hang", "?") or ans.startswith("unexpected"):
        bad = "/" + ans
    if op in ("primes", "primes_list"):
        k = int(a[0])
        if k < 2:
            c = "k<2"
        elif k * k.bit_length() <= 100:
            c = "bound=100"
        elif k * k.bit_length() >= 1 << 32:
            c = "u32-overflow"
        else:
            c = "bound=k*bitlen"
        return f"{op}/{c}{bad}"
    if op == "primesieve_block":
        b = int(a[0])
        c = "block0" if b == 0 else ("end" if b >= 65536 else ("last" if b >= 65533 else "sieved"))
        return f"{op}/{c}{bad}"
    if op == "sb_new":
        b1 = int(a[0])
        src = "primes()" if b1 < 65536 else "PrimeSieve"
        if bad:
            return f"{op}/{src}{bad}"
        f, l = ans.split("|")
        shape = ("larges" if l != "-" else "no-larges") + ("/b1<4096" if b1 < 4096 else "/b1>=4096") + ("/use_large" if a[1] in ("1", "true") else "/no_large")
        return f"{op}/{src}/{shape}/rules={sb_rules(b1, a[1] in ('1', 'true'))}"
    if op == "pm1_exponents":
        b1 = int(a[0])
        return f"{op}/{'small-blocks' if b1 < 65536 else 'large-blocks'}{bad}"
    return op + bad


def nontrivial(case, ans):
    return True


def finding_key(case, ans, profile):
    return None


CLAIM = ("Lean theorems about executable models of fbase::primes, PrimeSieve, SmoothBase::new, PM1Base::new and the stage-1 exponent stream of "
         "pm1_impl: primes(n) is the increasing list of all primes below the sieve bound truncated to n entries (= the first n primes for n <= 564 "
         "outright, for every n under the named Rosser-type hypothesis); call b+1 of the segmented sieve returns exactly the primes of "
         "[65536 b, 65536 (b+1)) for every b < 65536 (block 0 = all primes below 2^16 is proved, pi(65536) = 6542 computed in the kernel), the "
         "offsets are the canonical ones for every block, nothing after block 65535; SmoothBase::new (B1 <= 2^24 outright, B1 < 65535*65536 "
         "under the named prime-gap hypothesis), pm1 stage 1 (every 4 <= B1 < 4294967291) and PM1Base never overflow u64 / u32 / 1024 bits and "
         "the product of their blocks is divisible by every prime power below B1 (pm1: also every prime <= B1); the pre-fix flush threshold "
         "1024-32 of pm1 overflows for B1 = 65536 (witness theorem, replayed on the code with the fix reverted). Models are tied to the code by "
         "differential runs in the release and checked profiles; a Python oracle with its own sieve judges every implementation answer.")
LEVEL_NOTE = ("Trusted: Lean kernel; hand-written models' correspondence to the Rust code (sampled, both profiles); Python integers in the oracle. "
              "Named hypotheses (not axioms): HRosser beyond k = 564, HGap beyond B1 = 2^24 — see hypotheses_of_theorems. The pm1 stream is the one "
              "for a modulus on which the data-dependent early exits of stage 1 never fire (the harness uses a 63-bit safe prime).")
TECHNIQUE = "Lean 4 proof about a hand model + differential correspondence check + spec oracle"
