import Ymq.Model.Dividers
import Mathlib.Tactic.Ring
import Mathlib.Tactic.Linarith
import Mathlib.Algebra.Order.Ring.Nat
import Mathlib.Data.Nat.Prime.Basic
import Mathlib.Data.Nat.ModEq

namespace Ymq.Dividers
open Ymq.Limbs (W)

/-- the shape of both multipliers: `M = ⌊⌊2^127/p⌋ / 2^t⌋ + 1` satisfies
`2^127 < M·2^t·p ≤ 2^127 + 2^t·p`. -/
theorem recip_bounds_raw (p t : Nat) (hp : 0 < p) :
    2 ^ 127 < (2 ^ 127 / p / 2 ^ t + 1) * 2 ^ t * p ∧
    (2 ^ 127 / p / 2 ^ t + 1) * 2 ^ t * p ≤ 2 ^ 127 + 2 ^ t * p := by
  have h2t : 0 < 2 ^ t := Nat.two_pow_pos t
  have e1 := Nat.div_add_mod (2 ^ 127) p
  have l1 := Nat.mod_lt (2 ^ 127) hp
  generalize 2 ^ 127 / p = m at *
  generalize 2 ^ 127 % p = r at *
  have e2 := Nat.div_add_mod m (2 ^ t)
  have l2 := Nat.mod_lt m h2t
  generalize m / 2 ^ t = a at *
  generalize m % 2 ^ t = b at *
  generalize 2 ^ t = T at *
  generalize (2:Nat) ^ 127 = K at *
  constructor
  · -- (a+1)*T ≥ m+1, so *(p) ≥ (m+1) p > K
    have : m + 1 ≤ (a + 1) * T := by nlinarith
    have : (m + 1) * p ≤ (a + 1) * T * p := Nat.mul_le_mul_right p this
    nlinarith
  · have : (a + 1) * T ≤ m + T := by nlinarith
    have : (a + 1) * T * p ≤ (m + T) * p := Nat.mul_le_mul_right p this
    nlinarith

/-- scaled version: with `s = 127 - t`, `2^s < M·p ≤ 2^s + p`. -/
theorem recip_bounds (p t : Nat) (hp : 0 < p) (ht : t ≤ 127) :
    2 ^ (127 - t) < (2 ^ 127 / p / 2 ^ t + 1) * p ∧
    (2 ^ 127 / p / 2 ^ t + 1) * p ≤ 2 ^ (127 - t) + p := by
  obtain ⟨h1, h2⟩ := recip_bounds_raw p t hp
  have h2t : 0 < 2 ^ t := Nat.two_pow_pos t
  have e : (2:Nat) ^ 127 = 2 ^ (127 - t) * 2 ^ t := by
    rw [← Nat.pow_add]; congr 1; omega
  generalize 2 ^ 127 / p / 2 ^ t + 1 = M at *
  rw [e] at h1 h2
  generalize 2 ^ (127 - t) = S at *
  generalize 2 ^ t = T at *
  constructor
  · have : S * T < M * p * T := by nlinarith
    exact Nat.lt_of_mul_lt_mul_right this
  · have : M * p * T ≤ (S + p) * T := by nlinarith
    exact Nat.le_of_mul_le_mul_right this h2t

/-- exact quotient: if `2^s < M·p` and `n·(M·p - 2^s) < 2^s` then `⌊n·M / 2^s⌋ = ⌊n / p⌋`. -/
theorem recip_div_exact (p M S n : Nat) (hp : 0 < p) (h1 : S < M * p)
    (h2 : n * (M * p - S) < S) : n * M / S = n / p := by
  have e1 := Nat.div_add_mod n p
  have l1 := Nat.mod_lt n hp
  generalize n / p = q at *
  generalize n % p = r at *
  obtain ⟨e, he⟩ : ∃ e, M * p = S + e := ⟨M * p - S, by omega⟩
  have he' : M * p - S = e := by omega
  rw [he'] at h2
  apply Nat.div_eq_of_lt_le
  · -- q * S ≤ n * M  ⟸ q*S*p ≤ n*M*p = n*S + n*e
    have : q * S * p ≤ n * M * p := by
      have : n * M * p = n * S + n * e := by rw [Nat.mul_assoc, he]; ring
      rw [this]; nlinarith
    exact Nat.le_of_mul_le_mul_right this hp
  · have : n * M * p < (q + 1) * S * p := by
      have e3 : n * M * p = n * S + n * e := by rw [Nat.mul_assoc, he]; ring
      rw [e3]
      have : (n + 1) * S ≤ (q + 1) * p * S := Nat.mul_le_mul_right S (by nlinarith)
      nlinarith
    exact Nat.lt_of_mul_lt_mul_right this

/-- estimate that can overshoot by one: if `2^s < M·p` and `n·(M·p - 2^s) < 2·2^s` then
`q' = ⌊n·M / 2^s⌋` satisfies `⌊n/p⌋ ≤ q'` and `q'·p ≤ n + 1`. -/
theorem recip_div_over (p M S n : Nat) (hp : 0 < p) (hS : 0 < S) (h1 : S < M * p)
    (h2 : n * (M * p - S) < 2 * S) : n / p ≤ n * M / S ∧ n * M / S * p ≤ n + 1 := by
  have e1 := Nat.div_add_mod n p
  have l1 := Nat.mod_lt n hp
  obtain ⟨e, he⟩ : ∃ e, M * p = S + e := ⟨M * p - S, by omega⟩
  have he' : M * p - S = e := by omega
  rw [he'] at h2
  have e3 : n * M * p = n * S + n * e := by rw [Nat.mul_assoc, he]; ring
  constructor
  · rw [Nat.le_div_iff_mul_le hS]
    generalize n / p = q at *
    generalize n % p = r at *
    have : q * S * p ≤ n * M * p := by rw [e3]; nlinarith
    exact Nat.le_of_mul_le_mul_right this hp
  · have e2 := Nat.div_add_mod (n * M) S
    have l2 := Nat.mod_lt (n * M) hS
    generalize n * M / S = q' at *
    generalize n * M % S = r' at *
    have : q' * p * S < (n + 2) * S := by nlinarith
    have := Nat.lt_of_mul_lt_mul_right this
    omega


theorem W_eq : W = 2 ^ 64 := by decide

theorem bitlen_bounds (x : Nat) (hx : x ≠ 0) : 2 ^ (bitlen x - 1) ≤ x ∧ x < 2 ^ bitlen x := by
  unfold bitlen
  simp only [hx, if_false, Nat.add_sub_cancel]
  exact ⟨Nat.log2_self_le hx, Nat.lt_log2_self⟩

/-- `(2^64 - 1) % p + 1 = 2^64 % p` unless `p ∣ 2^64`. -/
theorem r64_eq (p : Nat) (hp : 0 < p) (hnd : W % p ≠ 0) : (W - 1) % p + 1 = W % p := by
  have e := Nat.div_add_mod (W - 1) p
  have l := Nat.mod_lt (W - 1) hp
  have hW : 0 < W := by decide
  generalize (W - 1) / p = a at *
  generalize (W - 1) % p = b at *
  have hWe : W = p * a + (b + 1) := by omega
  by_cases hb : b + 1 < p
  · rw [hWe, Nat.mul_add_mod, Nat.mod_eq_of_lt hb]
  · exfalso; apply hnd
    have : W = p * (a + 1) := by rw [hWe]; have : b + 1 = p := by omega
                                 rw [this]; ring
    rw [this]; exact Nat.mul_mod_right _ _


/-- What the correctness proofs need to know about a constructed divider with `p ≥ 3`. -/
structure Good (d : Div) : Prop where
  p3 : 3 ≤ d.p
  p30 : d.p < 2 ^ 30
  s64 : d.s64 < 30
  m_lo : 2 ^ (64 + d.s64) < d.m64 * d.p
  m_hi : d.m64 * d.p ≤ 2 ^ (64 + d.s64) + d.p
  m63 : 2 ^ 63 < d.m64
  m64 : d.m64 < 2 ^ 64
  r64 : d.r64 = W % d.p
  r64nz : W % d.p ≠ 0
  mq : (d.m64 - 1) / 2 ^ d.s64 = W / d.p
  s16 : d.s16 < 47
  m16_lo : 2 ^ d.s16 < d.m16 * d.p
  m16_hi : d.m16 * d.p ≤ 2 ^ d.s16 + d.p
  m16 : 2 ^ 16 < d.m16
  m16' : d.m16 ≤ 2 ^ 17

/-- top `k` bits of `m` when `m` has exactly `sz` bits -/
theorem top_bits (m sz k : Nat) (hk : 1 ≤ k) (hks : k ≤ sz) (hlo : 2 ^ (sz - 1) ≤ m) (hhi : m < 2 ^ sz) :
    2 ^ (k - 1) ≤ m / 2 ^ (sz - k) ∧ m / 2 ^ (sz - k) < 2 ^ k := by
  have hpos : 0 < 2 ^ (sz - k) := Nat.two_pow_pos _
  constructor
  · rw [Nat.le_div_iff_mul_le hpos, ← Nat.pow_add]
    have : k - 1 + (sz - k) = sz - 1 := by omega
    rw [this]; exact hlo
  · rw [Nat.div_lt_iff_lt_mul hpos, ← Nat.pow_add]
    have : k + (sz - k) = sz := by omega
    rw [this]; exact hhi

theorem new_good (p : Nat) (d : Div) (h : new p = some d) (h2 : p ≠ 2) : d.p = p ∧ Good d := by
  unfold new at h
  simp only [] at h
  split_ifs at h with c1 c2 c3 c4 c5 c6 c7 c8
  have hp30 : p < 2 ^ 30 := by
    have : p / 2 ^ 30 = 0 := by simpa using c1
    rcases Nat.div_eq_zero_iff.mp this with h | h
    · simp at h
    · exact h
  have hp0 : 0 < p := Nat.pos_of_ne_zero c2
  have hm0 : 2 ^ 127 / p ≠ 0 := by
    have : 1 ≤ 2 ^ 127 / p := by
      rw [Nat.le_div_iff_mul_le hp0]; omega
    omega
  obtain ⟨blo, bhi⟩ := bitlen_bounds _ hm0
  generalize hsz : bitlen (2 ^ 127 / p) = sz at *
  have hsz127 : sz ≤ 127 := by omega
  -- p ≥ 3
  have hp3 : 3 ≤ p := by
    by_contra hlt
    have hp1 : p = 1 := by omega
    subst hp1
    have : (2:Nat) ^ sz ≤ 2 ^ 127 := Nat.pow_le_pow_right (by decide) hsz127
    simp at bhi
    omega
  have hm97 : 2 ^ 97 ≤ 2 ^ 127 / p := by
    rw [Nat.le_div_iff_mul_le hp0]
    calc 2 ^ 97 * p ≤ 2 ^ 97 * 2 ^ 30 := Nat.mul_le_mul_left _ (le_of_lt hp30)
      _ = 2 ^ 127 := by norm_num
  have hm126 : 2 ^ 127 / p < 2 ^ 126 := by
    rw [Nat.div_lt_iff_lt_mul hp0]
    calc 2 ^ 127 < 2 ^ 126 * 3 := by norm_num
      _ ≤ 2 ^ 126 * p := Nat.mul_le_mul_left _ hp3
  have hsz98 : 98 ≤ sz := by
    by_contra hlt
    have : (2:Nat) ^ sz ≤ 2 ^ 97 := Nat.pow_le_pow_right (by decide) (by omega)
    omega
  have hsz126 : sz ≤ 126 := by
    by_contra hlt
    have : (2:Nat) ^ 126 ≤ 2 ^ (sz - 1) := Nat.pow_le_pow_right (by decide) (by omega)
    omega
  obtain ⟨t64lo, t64hi⟩ := top_bits _ sz 64 (by omega) (by omega) blo bhi
  obtain ⟨t17lo, t17hi⟩ := top_bits _ sz 17 (by omega) (by omega) blo bhi
  have hW : W = 2 ^ 64 := W_eq
  have e64 : 2 ^ 127 / p / 2 ^ (sz - 64) % W = 2 ^ 127 / p / 2 ^ (sz - 64) := by
    rw [hW]; exact Nat.mod_eq_of_lt t64hi
  have e17 : 2 ^ 127 / p / 2 ^ (sz - 17) % 2 ^ 32 = 2 ^ 127 / p / 2 ^ (sz - 17) := by
    apply Nat.mod_eq_of_lt
    calc _ < 2 ^ 17 := t17hi
      _ < 2 ^ 32 := by norm_num
  rw [e64] at c4 c7 h
  rw [e17] at c8 h
  -- the quotient (m64 - 1) >> s64 is 2^64 / p
  have hmq : (2 ^ 127 / p / 2 ^ (sz - 64) + 1 - 1) / 2 ^ (127 - sz) = W / p := by
    rw [Nat.add_sub_cancel, Nat.div_div_eq_div_mul, ← Nat.pow_add]
    have : sz - 64 + (127 - sz) = 63 := by omega
    rw [this, Nat.div_div_eq_div_mul, Nat.mul_comm, ← Nat.div_div_eq_div_mul, hW]
    norm_num
  rw [hmq] at c7
  have hWpos : 0 < W := by rw [hW]; norm_num
  have hnd : W % p ≠ 0 := by
    intro h0
    apply c7
    have : W / p * p = W := by
      have := Nat.div_add_mod W p; rw [h0] at this; rw [Nat.mul_comm]; omega
    rw [this, Nat.mod_self, Nat.sub_zero, Nat.mod_self]
    omega
  have hr := r64_eq p hp0 hnd
  have hrlt : W % p < p := Nat.mod_lt _ hp0
  have er : ((W - 1) % p + 1) % 2 ^ 32 = W % p := by
    rw [hr]; apply Nat.mod_eq_of_lt; omega
  have es64 : (127 - sz) % 2 ^ 16 = 127 - sz := Nat.mod_eq_of_lt (by omega)
  have es16 : (127 + 17 - sz) % 2 ^ 16 = 144 - sz := by
    rw [Nat.mod_eq_of_lt (by omega)]
  rw [er, es64, es16] at h
  obtain ⟨b64lo, b64hi⟩ := recip_bounds p (sz - 64) hp0 (by omega)
  obtain ⟨b17lo, b17hi⟩ := recip_bounds p (sz - 17) hp0 (by omega)
  have x64 : 127 - (sz - 64) = 64 + (127 - sz) := by omega
  have x17 : 127 - (sz - 17) = 144 - sz := by omega
  rw [x64] at b64lo b64hi
  rw [x17] at b17lo b17hi
  injection h with h
  subst h
  refine ⟨rfl, ?_⟩
  constructor <;> simp only [] <;> try first | assumption | omega

theorem new_two : new 2 = some { p := 2, m64 := 2 ^ 63, r64 := 0, s64 := 0, m16 := 1, s16 := 1 } := by
  decide

theorem new_some (p : Nat) (hp3 : 3 ≤ p) (hp30 : p < 2 ^ 30) (hnd : W % p ≠ 0) :
    ∃ d, new p = some d := by
  have hp0 : 0 < p := by omega
  have hm0 : 2 ^ 127 / p ≠ 0 := by
    have : 1 ≤ 2 ^ 127 / p := by
      rw [Nat.le_div_iff_mul_le hp0]; omega
    omega
  obtain ⟨blo, bhi⟩ := bitlen_bounds _ hm0
  have hm97 : 2 ^ 97 ≤ 2 ^ 127 / p := by
    rw [Nat.le_div_iff_mul_le hp0]
    calc 2 ^ 97 * p ≤ 2 ^ 97 * 2 ^ 30 := Nat.mul_le_mul_left _ (le_of_lt hp30)
      _ = 2 ^ 127 := by norm_num
  have hm126 : 2 ^ 127 / p < 2 ^ 126 := by
    rw [Nat.div_lt_iff_lt_mul hp0]
    calc 2 ^ 127 < 2 ^ 126 * 3 := by norm_num
      _ ≤ 2 ^ 126 * p := Nat.mul_le_mul_left _ hp3
  unfold new
  simp only []
  generalize hsz : bitlen (2 ^ 127 / p) = sz at *
  have hsz98 : 98 ≤ sz := by
    by_contra hlt
    have : (2:Nat) ^ sz ≤ 2 ^ 97 := Nat.pow_le_pow_right (by decide) (by omega)
    omega
  have hsz126 : sz ≤ 126 := by
    by_contra hlt
    have : (2:Nat) ^ 126 ≤ 2 ^ (sz - 1) := Nat.pow_le_pow_right (by decide) (by omega)
    omega
  obtain ⟨t64lo, t64hi⟩ := top_bits _ sz 64 (by omega) (by omega) blo bhi
  obtain ⟨t17lo, t17hi⟩ := top_bits _ sz 17 (by omega) (by omega) blo bhi
  have hW : W = 2 ^ 64 := W_eq
  have e64 : 2 ^ 127 / p / 2 ^ (sz - 64) % W = 2 ^ 127 / p / 2 ^ (sz - 64) := by
    rw [hW]; exact Nat.mod_eq_of_lt t64hi
  have e17 : 2 ^ 127 / p / 2 ^ (sz - 17) % 2 ^ 32 = 2 ^ 127 / p / 2 ^ (sz - 17) := by
    apply Nat.mod_eq_of_lt
    calc _ < 2 ^ 17 := t17hi
      _ < 2 ^ 32 := by norm_num
  rw [e64, e17]
  have hmq : (2 ^ 127 / p / 2 ^ (sz - 64) + 1 - 1) / 2 ^ (127 - sz) = W / p := by
    rw [Nat.add_sub_cancel, Nat.div_div_eq_div_mul, ← Nat.pow_add]
    have : sz - 64 + (127 - sz) = 63 := by omega
    rw [this, Nat.div_div_eq_div_mul, Nat.mul_comm, ← Nat.div_div_eq_div_mul, hW]
    norm_num
  rw [hmq]
  obtain ⟨b64lo, b64hi⟩ := recip_bounds p (sz - 64) hp0 (by omega)
  have x64 : 127 - (sz - 64) = 64 + (127 - sz) := by omega
  rw [x64] at b64lo b64hi
  have hr := r64_eq p hp0 hnd
  have hrlt : W % p < p := Nat.mod_lt _ hp0
  have hWpos : 0 < W := by rw [hW]; norm_num
  have hmp : (W - W / p * p % W) % W = (W - 1) % p + 1 := by
    rw [hr]
    have e := Nat.div_add_mod W p
    have e1 : W / p * p = W - W % p := by rw [Nat.mul_comm]; omega
    have e2 : (W - W % p) % W = W - W % p := Nat.mod_eq_of_lt (by omega)
    have e3 : W - (W - W % p) = W % p := by omega
    rw [e1, e2, e3]; exact Nat.mod_eq_of_lt (by omega)
  have c1 : ¬ (p / 2 ^ 30 ≠ 0) := fun h => h (Nat.div_eq_of_lt hp30)
  have c5 : ¬ (2 ^ 127 / p / 2 ^ (sz - 64) + 1 ≥ W) := by
    intro c5
    -- top = 2^64 - 1 is impossible
    generalize 2 ^ 127 / p / 2 ^ (sz - 64) = top at *
    have htop : top + 1 = W := by omega
    rw [htop, hW] at b64lo b64hi
    have hS : (2:Nat) ^ (127 - sz) < 2 ^ 30 := Nat.pow_lt_pow_right (by decide) (by omega)
    rw [Nat.pow_add] at b64lo b64hi
    generalize (2:Nat) ^ (127 - sz) = S at *
    have : S < p := by
      by_contra hle
      have : 2 ^ 64 * p ≤ 2 ^ 64 * S := Nat.mul_le_mul_left _ (by omega)
      omega
    nlinarith
  have c8 : ¬ ((W - W / p * p % W) % W ≠ (W - 1) % p + 1) := fun h => h hmp
  rw [if_neg c1, if_neg (by omega : ¬ p = 2), if_neg (by omega : ¬ p = 0),
    if_neg (by omega : ¬ sz < 64), if_neg c5, if_neg (by omega : ¬ sz > 127),
    if_neg (by omega : ¬ 127 - sz ≥ 64), if_neg c8,
    if_neg (by omega : ¬ 2 ^ 127 / p / 2 ^ (sz - 17) + 1 ≥ 2 ^ 32)]
  exact ⟨_, rfl⟩

/-- the quotient estimate computed by `divmod64`/`modu63`: `(n·m64 >> 64) >> s64 = ⌊n·m64 / 2^(64+s64)⌋` -/
theorem himul_eq (d : Div) (n : Nat) (hn : n < 2 ^ 64) (hm : d.m64 < 2 ^ 64) :
    n * d.m64 / W % W / 2 ^ d.s64 = n * d.m64 / 2 ^ (64 + d.s64) := by
  have hW : W = 2 ^ 64 := W_eq
  have : n * d.m64 / W < W := by
    rw [Nat.div_lt_iff_lt_mul (by rw [hW]; norm_num), hW]
    exact Nat.mul_lt_mul'' hn hm
  rw [Nat.mod_eq_of_lt this, Nat.div_div_eq_div_mul, hW, ← Nat.pow_add]

/-- `2·2^(64+s64) ≥ 2^64·p` -/
theorem Good.S_ge {d : Div} (g : Good d) : 2 ^ 63 * d.p ≤ 2 ^ (64 + d.s64) := by
  have h1 := g.m_hi
  have h2 := g.m63
  have : (2 ^ 63 + 1) * d.p ≤ d.m64 * d.p := Nat.mul_le_mul_right _ (by omega)
  nlinarith

theorem Good.e_le {d : Div} (g : Good d) : d.m64 * d.p - 2 ^ (64 + d.s64) ≤ d.p := by
  have := g.m_hi; omega

theorem divmod64_good (d : Div) (g : Good d) (n : Nat) (hn : n < 2 ^ 64) :
    divmod64 d n = some (n / d.p, n % d.p) := by
  have hW : W = 2 ^ 64 := W_eq
  have hp0 : 0 < d.p := by have := g.p3; omega
  unfold divmod64
  simp only []
  rw [himul_eq d n hn g.m64, if_neg (by have := g.s64; omega)]
  have hS := g.S_ge
  have he := g.e_le
  have hpos : 0 < 2 ^ (64 + d.s64) := Nat.two_pow_pos _
  have h2 : n * (d.m64 * d.p - 2 ^ (64 + d.s64)) < 2 * 2 ^ (64 + d.s64) := by
    calc n * (d.m64 * d.p - 2 ^ (64 + d.s64)) ≤ n * d.p := Nat.mul_le_mul_left _ he
      _ < 2 ^ 64 * d.p := Nat.mul_lt_mul_of_pos_right hn hp0
      _ = 2 * (2 ^ 63 * d.p) := by ring
      _ ≤ 2 * 2 ^ (64 + d.s64) := Nat.mul_le_mul_left _ hS
  obtain ⟨hlo, hhi⟩ := recip_div_over d.p d.m64 _ n hp0 hpos g.m_lo h2
  generalize n * d.m64 / 2 ^ (64 + d.s64) = q at *
  have hqpW : q * d.p < W := by
    by_contra hge
    have hq : q * d.p = W := by omega
    exact g.r64nz (by rw [← hq]; exact Nat.mul_mod_left _ _)
  rw [if_neg (by omega)]
  have e := Nat.div_add_mod n d.p
  have l := Nat.mod_lt n hp0
  by_cases hgt : q * d.p > n
  · rw [if_pos hgt]
    have hq1 : q * d.p = n + 1 := by omega
    have hq0 : q ≠ 0 := by rintro rfl; simp at hq1
    rw [if_neg hq0, if_neg (by omega)]
    have hu : n / d.p = q - 1 ∧ n % d.p = d.p - 1 := by
      rw [Nat.div_mod_unique hp0]
      constructor
      · have : q = (q - 1) + 1 := by omega
        rw [this] at hq1
        have : ((q - 1) + 1) * d.p = d.p * (q - 1) + d.p := by ring
        omega
      · omega
    rw [hu.1, hu.2]
    have : q * d.p - n = 1 := by omega
    rw [this]
  · rw [if_neg hgt]
    have hq : q = n / d.p := by
      apply Nat.le_antisymm
      · rw [Nat.le_div_iff_mul_le hp0]; omega
      · exact hlo
    subst hq
    have : n - n / d.p * d.p = n % d.p := by
      rw [Nat.mul_comm]; omega
    rw [this]

theorem modu63_good (d : Div) (g : Good d) (n : Nat) (hn : n < 2 ^ 63) :
    modu63 d n = some (n % d.p) := by
  have hW : W = 2 ^ 64 := W_eq
  have hp0 : 0 < d.p := by have := g.p3; omega
  unfold modu63
  simp only []
  rw [if_neg (by rw [Nat.div_eq_of_lt hn]; simp),
    himul_eq d n (by omega) g.m64, if_neg (by have := g.s64; omega)]
  have hS := g.S_ge
  have he := g.e_le
  have h2 : n * (d.m64 * d.p - 2 ^ (64 + d.s64)) < 2 ^ (64 + d.s64) := by
    calc n * (d.m64 * d.p - 2 ^ (64 + d.s64)) ≤ n * d.p := Nat.mul_le_mul_left _ he
      _ < 2 ^ 63 * d.p := Nat.mul_lt_mul_of_pos_right hn hp0
      _ ≤ 2 ^ (64 + d.s64) := hS
  rw [recip_div_exact d.p d.m64 _ n hp0 g.m_lo h2]
  have e := Nat.div_add_mod n d.p
  have hle : n / d.p * d.p ≤ n := Nat.div_mul_le_self _ _
  rw [if_neg (by omega), if_neg (by omega)]
  have : n - n / d.p * d.p = n % d.p := by
    rw [Nat.mul_comm]; omega
  rw [this]

theorem modu16_good (d : Div) (g : Good d) (n : Nat) (hn : n < 2 ^ 16) :
    modu16 d n = some (n % d.p) := by
  have hW : W = 2 ^ 64 := W_eq
  have hp0 : 0 < d.p := by have := g.p3; omega
  unfold modu16
  simp only []
  have hnm : n * d.m16 < W := by
    rw [hW]
    calc n * d.m16 < 2 ^ 16 * 2 ^ 17 := Nat.mul_lt_mul_of_lt_of_le hn g.m16' (by norm_num)
      _ < 2 ^ 64 := by norm_num
  rw [if_neg (by have := g.p3; omega), if_neg (by omega), if_neg (by have := g.s16; omega)]
  -- 2^s16 ≥ 2^16·p
  have hS : 2 ^ 16 * d.p ≤ 2 ^ d.s16 := by
    have h1 := g.m16_hi
    have h2 := g.m16
    have : (2 ^ 16 + 1) * d.p ≤ d.m16 * d.p := Nat.mul_le_mul_right _ (by omega)
    nlinarith
  have he : d.m16 * d.p - 2 ^ d.s16 ≤ d.p := by have := g.m16_hi; omega
  have h2 : n * (d.m16 * d.p - 2 ^ d.s16) < 2 ^ d.s16 := by
    calc n * (d.m16 * d.p - 2 ^ d.s16) ≤ n * d.p := Nat.mul_le_mul_left _ he
      _ < 2 ^ 16 * d.p := Nat.mul_lt_mul_of_pos_right hn hp0
      _ ≤ 2 ^ d.s16 := hS
  rw [recip_div_exact d.p d.m16 _ n hp0 g.m16_lo h2]
  have e := Nat.div_add_mod n d.p
  have hle : n / d.p * d.p ≤ n := Nat.div_mul_le_self _ _
  have hq16 : n / d.p < 2 ^ 16 := lt_of_le_of_lt (Nat.div_le_self _ _) hn
  rw [Nat.mod_eq_of_lt hq16]
  by_cases hp16 : d.p < 2 ^ 16
  · rw [Nat.mod_eq_of_lt hp16, if_neg (by omega), if_neg (by omega)]
    have : n - n / d.p * d.p = n % d.p := by
      rw [Nat.mul_comm]; omega
    rw [this]
  · have hq0 : n / d.p = 0 := Nat.div_eq_of_lt (by omega)
    rw [hq0]
    simp only [Nat.zero_mul, Nat.sub_zero]
    rw [if_neg (by omega), if_neg (by omega), Nat.mod_eq_of_lt (by omega)]

/-- the divider returned for `p = 2` -/
def d2 : Div := { p := 2, m64 := 2 ^ 63, r64 := 0, s64 := 0, m16 := 1, s16 := 1 }

/-- a divider returned by the constructor -/
def Ok (d : Div) : Prop := d = d2 ∨ Good d

theorem new_ok (p : Nat) (d : Div) (h : new p = some d) : d.p = p ∧ Ok d := by
  by_cases h2 : p = 2
  · subst h2
    rw [new_two] at h
    injection h with h
    subst h
    exact ⟨rfl, Or.inl rfl⟩
  · obtain ⟨h1, h3⟩ := new_good p d h h2
    exact ⟨h1, Or.inr h3⟩

theorem Ok.p_pos {d : Div} (h : Ok d) : 0 < d.p := by
  rcases h with rfl | g
  · decide
  · have := g.p3; omega

theorem Ok.p30 {d : Div} (h : Ok d) : d.p < 2 ^ 30 := by
  rcases h with rfl | g
  · decide
  · exact g.p30

theorem Ok.r64 {d : Div} (h : Ok d) : d.r64 = W % d.p := by
  rcases h with rfl | g
  · decide
  · exact g.r64

theorem divmod64_ok (d : Div) (h : Ok d) (n : Nat) (hn : n < 2 ^ 64) :
    divmod64 d n = some (n / d.p, n % d.p) := by
  rcases h with rfl | g
  · unfold divmod64 d2
    simp only [W_eq]
    have h1 : n * 2 ^ 63 / 2 ^ 64 % 2 ^ 64 / 2 ^ 0 = n / 2 := by omega
    rw [h1, if_neg (by decide), if_neg (by omega), if_neg (by omega)]
    congr 2
    omega
  · exact divmod64_good d g n hn

theorem modu63_ok (d : Div) (h : Ok d) (n : Nat) (hn : n < 2 ^ 63) :
    modu63 d n = some (n % d.p) := by
  rcases h with rfl | g
  · unfold modu63 d2
    simp only [W_eq]
    have h1 : n * 2 ^ 63 / 2 ^ 64 % 2 ^ 64 / 2 ^ 0 = n / 2 := by omega
    rw [h1, if_neg (by omega), if_neg (by decide), if_neg (by omega), if_neg (by omega)]
    congr 1
    omega
  · exact modu63_good d g n hn

theorem modu16_ok (d : Div) (h : Ok d) (n : Nat) (hn : n < 2 ^ 16) :
    modu16 d n = some (n % d.p) := by
  rcases h with rfl | g
  · unfold modu16 d2
    simp
  · exact modu16_good d g n hn

theorem modi64_ok (d : Div) (h : Ok d) (n : Int) (hlo : -2 ^ 63 ≤ n) (hhi : n < 2 ^ 63) :
    ∃ r, modi64 d n = some r ∧ (r : Int) = n % (d.p : Int) := by
  have hp0 := h.p_pos
  unfold modi64
  by_cases hneg : n < 0
  · rw [if_pos hneg]
    obtain ⟨a, ha⟩ : ∃ a : Nat, n = -(a : Int) := ⟨(-n).toNat, by omega⟩
    subst ha
    have hto : (- -(a : Int)).toNat = a := by omega
    rw [hto, divmod64_ok d h a (by omega)]
    simp only []
    have e := Nat.div_add_mod a d.p
    have l := Nat.mod_lt a hp0
    by_cases hm : a % d.p = 0
    · rw [if_pos hm]
      refine ⟨0, rfl, ?_⟩
      have : (d.p : Int) ∣ -(a : Int) := by
        rw [Int.dvd_neg]; exact Int.natCast_dvd_natCast.mpr (Nat.dvd_of_mod_eq_zero hm)
      rw [Int.emod_eq_zero_of_dvd this]; rfl
    · rw [if_neg hm, if_neg (by omega)]
      refine ⟨_, rfl, ?_⟩
      have e2 : -(a : Int) = ((d.p - a % d.p : Nat) : Int) + (d.p : Int) * (-(a / d.p : Nat) - 1) := by
        have : ((d.p - a % d.p : Nat) : Int) = (d.p : Int) - ((a % d.p : Nat) : Int) := by omega
        rw [this]
        have e' : (a : Int) = (d.p : Int) * ((a / d.p : Nat) : Int) + ((a % d.p : Nat) : Int) := by
          exact_mod_cast e.symm
        rw [e']
        push_cast
        ring_nf
      rw [e2, Int.add_mul_emod_self_left, Int.emod_eq_of_lt (by omega) (by omega)]
  · rw [if_neg hneg]
    obtain ⟨a, ha⟩ : ∃ a : Nat, n = (a : Int) := ⟨n.toNat, by omega⟩
    subst ha
    rw [Int.toNat_natCast, modu63_ok d h a (by omega)]
    exact ⟨_, rfl, by push_cast; rfl⟩

/-- one folding step: `hiw·2^64 + low` is replaced by a 64-bit number in the same class mod p -/
theorem fold64_ok (d : Div) (h : Ok d) (hiw low : Nat) (hh : hiw < W) (hl : low < W) :
    ∃ r, fold64 d hiw low = some r ∧ r < W ∧ r % d.p = (hiw * W + low) % d.p := by
  have hW : W = 2 ^ 64 := W_eq
  have hp0 := h.p_pos
  have hp30 := h.p30
  have hr := h.r64
  have hrlt : d.r64 < d.p := by rw [hr]; exact Nat.mod_lt _ hp0
  have hWr : W ≡ d.r64 [MOD d.p] := by rw [hr]; exact (Nat.mod_modEq W d.p).symm
  unfold fold64
  simp only []
  generalize hrr : d.r64 = r64 at *
  have hpr : hiw * r64 + low < W * (r64 + 1) := by nlinarith
  have hprWW : hiw * r64 + low < W * W := by
    calc hiw * r64 + low < W * (r64 + 1) := hpr
      _ ≤ W * W := Nat.mul_le_mul_left _ (by omega)
  rw [if_neg (by omega)]
  have hph : (hiw * r64 + low) / W ≤ r64 := by
    have : (hiw * r64 + low) / W < r64 + 1 := by
      rw [Nat.div_lt_iff_lt_mul (by omega), Nat.mul_comm (r64 + 1) W]; exact hpr
    omega
  have hphW : (hiw * r64 + low) / W % W = (hiw * r64 + low) / W := Nat.mod_eq_of_lt (by omega)
  rw [hphW]
  have e := Nat.div_add_mod (hiw * r64 + low) W
  have l := Nat.mod_lt (hiw * r64 + low) (by omega : 0 < W)
  generalize (hiw * r64 + low) / W = ph at *
  generalize hlo : (hiw * r64 + low) % W = lo at *
  have hhi : ph * r64 < 2 ^ 60 := by
    calc ph * r64 ≤ r64 * r64 := Nat.mul_le_mul_right _ hph
      _ < 2 ^ 30 * 2 ^ 30 := Nat.mul_lt_mul'' (by omega) (by omega)
      _ = 2 ^ 60 := by norm_num
  rw [if_neg (by omega)]
  -- the class of lo + ph*r64
  have hcls : lo + ph * r64 ≡ hiw * W + low [MOD d.p] := by
    have h1 : lo + ph * r64 ≡ lo + ph * W [MOD d.p] :=
      Nat.ModEq.add_left _ (Nat.ModEq.mul_left _ hWr.symm)
    have h2 : lo + ph * W = hiw * r64 + low := by rw [← e]; ring
    have h3 : hiw * r64 + low ≡ hiw * W + low [MOD d.p] :=
      Nat.ModEq.add_right _ (Nat.ModEq.mul_left _ hWr.symm)
    rw [h2] at h1
    exact h1.trans h3
  by_cases hc : lo + ph * r64 ≥ W
  · rw [if_pos hc]
    have hres : (lo + ph * r64) % W = lo + ph * r64 - W := by
      rw [Nat.mod_eq_sub_mod hc]; exact Nat.mod_eq_of_lt (by omega)
    rw [hres, if_neg (by omega)]
    refine ⟨_, rfl, by omega, ?_⟩
    have h4 : lo + ph * r64 - W + r64 ≡ lo + ph * r64 - W + W [MOD d.p] :=
      Nat.ModEq.add_left _ hWr.symm
    have h5 : lo + ph * r64 - W + W = lo + ph * r64 := by omega
    rw [h5] at h4
    exact h4.trans hcls
  · rw [if_neg hc]
    exact ⟨_, rfl, by omega, hcls⟩

theorem modU128_ok (d : Div) (h : Ok d) (n : Nat) (hn : n < 2 ^ 128) :
    modU128 d n = some (n % d.p) := by
  have hW : W = 2 ^ 64 := W_eq
  have hWpos : 0 < W := by omega
  unfold modU128
  simp only []
  have e := Nat.div_add_mod n W
  have l := Nat.mod_lt n hWpos
  have hn1 : n / W < W := by
    rw [Nat.div_lt_iff_lt_mul hWpos, hW]; omega
  rw [Nat.mod_eq_of_lt hn1]
  by_cases h0 : n / W = 0
  · rw [if_pos h0, divmod64_ok d h _ (by omega)]
    simp only [Option.map_some]
    have : n % W = n := by rw [h0] at e; omega
    rw [this]
  · rw [if_neg h0]
    obtain ⟨r, hr, hrW, hrp⟩ := fold64_ok d h (n / W) (n % W) hn1 l
    rw [hr]
    simp only []
    rw [divmod64_ok d h r (by omega)]
    simp only [Option.map_some]
    rw [hrp]
    have : n / W * W + n % W = n := by rw [Nat.mul_comm]; exact e
    rw [this]

/-- `p` divides `2^64` exactly when it is a power of two -/
theorem W_mod_ne_zero_iff (p : Nat) (hp30 : p < 2 ^ 30) : W % p ≠ 0 ↔ ∀ k, p ≠ 2 ^ k := by
  have hW : W = 2 ^ 64 := W_eq
  constructor
  · intro h k hk
    apply h
    subst hk
    have hk30 : k < 30 := (Nat.pow_lt_pow_iff_right (by decide)).mp hp30
    rw [hW]
    exact Nat.mod_eq_zero_of_dvd (Nat.pow_dvd_pow 2 (by omega))
  · intro h h0
    have hd : p ∣ 2 ^ 64 := by rw [← hW]; exact Nat.dvd_of_mod_eq_zero h0
    obtain ⟨k, _, hk⟩ := (Nat.dvd_prime_pow Nat.prime_two).mp hd
    exact h k hk

end Ymq.Dividers
