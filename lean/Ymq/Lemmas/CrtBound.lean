/-
C10: the value reconstructed by `_crt` at the call sites of `convolve_modn_ntt` is below `P/2`
(`crt_call_bound`): `w = (2·bits(n) + logsize)/58 + 1` primes above `2^58` (decided on the translated table).
-/
import Ymq.Lemmas.NttPipeline

namespace Ymq.Crt
open Ymq.Mg64 (W)
open Ymq.Gen.Params Ymq.Checked

theorem mzp_w_eq (nbits logsize w : Nat) (h : arith_fft.mzp_w nbits logsize = some w) :
    w = (2 * nbits + logsize) / 58 + 1 := by
  unfold arith_fft.mzp_w at h
  simp only [Option.bind_eq_some_iff] at h
  obtain ⟨need, ⟨t1, h1, h2⟩, w', ⟨t2, h3, h4⟩, h5⟩ := h
  unfold cmul at h1; unfold cadd at h2 h4; unfold cdiv at h3
  split_ifs at h1 h2 h3 h4
  simp only [Option.some.injEq] at h1 h2 h3 h4
  split_ifs at h5 with hle
  simp only [Option.bind_eq_some_iff] at h5
  obtain ⟨b, _, h6⟩ := h5
  split_ifs at h6
  simp only [Option.some.injEq] at h6
  rw [← h6, ← h4, ← h3, ← h2, ← h1]

/-- the product of the first `w` primes exceeds `2^(58w)` -/
theorem pprod_big : ∀ w ∈ List.range 27,
    2 ^ (58 * w) ≤ (NTT_PRIME_VALUES.take w).foldl (· * ·) 1 := by decide +kernel

/-- **`V < P/2` at the `_crt` call sites of `convolve_modn_ntt`**: a coefficient of the cyclic product of
`size ≤ 2^logsize` terms of two operands with entries `< n` is below half the product of the primes
selected by `MultiZmodP::new(zn, logsize)` -/
theorem crt_call_bound (n logsize : Nat) (m : Mzp) (hm : new n logsize = some m) (size V : Nat)
    (hs : size ≤ 2 ^ logsize) (hV : V ≤ size * (n * n)) : 2 * V < m.pprod ∨ n = 0 := by
  rcases Nat.eq_zero_or_pos n with h0 | hn
  · exact Or.inr h0
  left
  obtain ⟨w, hw, ew, epp, _, _⟩ := new_fields n logsize m hm
  have hw26 := mzp_w_le _ _ _ hw
  have hweq := mzp_w_eq _ _ _ hw
  have hbig := pprod_big w (List.mem_range.2 (by omega))
  rw [epp]
  refine lt_of_lt_of_le ?_ hbig
  have hnb : n < 2 ^ Ymq.Checked.bitlen n := Ymq.PolyMul.bitlen_lt n
  set nb := Ymq.Checked.bitlen n with hnbdef
  have hnn : n * n < 2 ^ nb * 2 ^ nb := Nat.mul_lt_mul'' hnb hnb
  have h58 : 2 * nb + logsize + 1 ≤ 58 * w := by rw [hweq]; omega
  calc 2 * V ≤ 2 * (size * (n * n)) := Nat.mul_le_mul_left _ hV
    _ ≤ 2 * (2 ^ logsize * (n * n)) := Nat.mul_le_mul_left _ (Nat.mul_le_mul_right _ hs)
    _ < 2 * (2 ^ logsize * (2 ^ nb * 2 ^ nb)) :=
        Nat.mul_lt_mul_of_pos_left (Nat.mul_lt_mul_of_pos_left hnn (Nat.pow_pos (by decide))) (by decide)
    _ = 2 ^ (2 * nb + logsize + 1) := by
        rw [pow_succ, pow_add, show 2 * nb = nb + nb by omega, pow_add]; ring
    _ ≤ 2 ^ (58 * w) := Nat.pow_le_pow_right (by decide) h58

end Ymq.Crt
