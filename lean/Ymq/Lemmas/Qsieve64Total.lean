/-
C03/qs64, part (b), continued: candidates, the pending-cofactor map, the block loop and the set-up
reach no panic site; `qsRels_total`.
-/
import Ymq.Lemmas.Qsieve64NoPanic
import Mathlib.Tactic.Linarith

namespace Ymq.Qsieve64
open Ymq.Relations

/-! ### trial division terminates -/

theorem Ok_two_le {d : Dividers.Div} (h : Dividers.Ok d) : 2 ≤ d.p := by
  rcases h with rfl | g
  · decide
  · have := g.p3; omega

theorem divLoop_total {d : Dividers.Div} (hd : Dividers.Ok d) : ∀ (f v e : Nat), 0 < v → v < 2 ^ f →
    v < 2 ^ 64 → ∃ r, divLoop d (f + 1) v e = .ok r := by
  intro f
  induction f with
  | zero => intro v e h0 h1 _; omega
  | succ f ih =>
    intro v e h0 h1 h64
    unfold divLoop
    rw [Dividers.divmod64_ok d hd v h64]
    simp only [liftO, bind, Except.bind, pure, Except.pure]
    have hp2 := Ok_two_le hd
    by_cases hr : v % d.p = 0
    · rw [if_pos hr]
      have hdv : d.p ∣ v := Nat.dvd_of_mod_eq_zero hr
      have hpos : 0 < v / d.p := Nat.div_pos (Nat.le_of_dvd h0 hdv) (by omega)
      have hlt : v / d.p < 2 ^ f := by
        rw [Nat.div_lt_iff_lt_mul (by omega)]
        have : 2 ^ (f + 1) = 2 ^ f * 2 := pow_succ 2 f
        have : 2 ^ f * 2 ≤ 2 ^ f * d.p := Nat.mul_le_mul_left _ hp2
        omega
      exact ih _ _ hpos hlt (lt_of_le_of_lt (Nat.div_le_self _ _) h64)
    · rw [if_neg hr]; exact ⟨_, rfl⟩

theorem divLoop_exp (d : Dividers.Div) : ∀ (f v e v' e' : Nat),
    divLoop d f v e = .ok (v', e') → e' ≤ e + f := by
  intro f
  induction f with
  | zero => intro v e v' e' h; simp [divLoop, throw_ne_ok] at h
  | succ f ih =>
    intro v e v' e' h
    unfold divLoop at h
    simp only [bind_eq_ok] at h
    obtain ⟨qr, _, h⟩ := h
    split at h
    · have := ih _ _ _ _ h; omega
    · rw [pure_eq_ok] at h
      injection h with h1 h2
      omega

/-- sum of the exponents of a factor list -/
def sumExp (fs : List (Int × Nat)) : Nat := (fs.map (·.2)).sum

theorem sumExp_append (a b : List (Int × Nat)) : sumExp (a ++ b) = sumExp a + sumExp b := by
  simp [sumExp]

theorem trialLoop_total : ∀ (fb : List FbEntry), (∀ e ∈ fb, EntryOK e) →
    ∀ (v : Nat) (fs : List (Int × Nat)), 0 < v → v < 2 ^ 64 →
    ∃ cof fs', trialLoop fb v fs = .ok (cof, fs') ∧ 0 < cof ∧ sumExp fs' ≤ sumExp fs + 65 * fb.length := by
  intro fb
  induction fb with
  | nil => intro _ v fs h0 _; exact ⟨v, fs, rfl, h0, by simp⟩
  | cons e t ih =>
    intro hfb v fs h0 h64
    have hE := hfb e List.mem_cons_self
    obtain ⟨⟨v1, e1⟩, hr⟩ := divLoop_total hE.1 64 v 0 h0 h64 h64
    obtain ⟨h1, _, h3⟩ := divLoop_spec hE.1 65 v 0 v1 e1 h64 hr
    have hexp := divLoop_exp e.div 65 v 0 v1 e1 hr
    have hv1 : 0 < v1 := by
      rcases Nat.eq_zero_or_pos v1 with h | h
      · subst h; simp at h1; omega
      · exact h
    obtain ⟨cof, fs', g1, g2, g3⟩ := ih (fun e' he' => hfb e' (List.mem_cons_of_mem _ he')) v1
      (if e1 > 0 then fs ++ [((e.p : Int), e1)] else fs) hv1 (lt_of_le_of_lt h3 h64)
    refine ⟨cof, fs', ?_, g2, ?_⟩
    · unfold trialLoop
      simp only [hr, bind, Except.bind]
      exact g1
    · have : sumExp (if e1 > 0 then fs ++ [((e.p : Int), e1)] else fs) ≤ sumExp fs + 65 := by
        split
        · rw [sumExp_append]; simp [sumExp]; omega
        · omega
      simp only [List.length_cons]
      omega

/-! ### `combine` of two pending relations never overflows -/

theorem bump_total (p : Int) (k : Nat) : ∀ (fs : List (Int × Nat)), sumExp fs + k < W64 →
    ∃ fs', bump p k fs = .ok fs' ∧ sumExp fs' ≤ sumExp fs + k := by
  intro fs
  induction fs with
  | nil => intro _; exact ⟨[], rfl, by simp [sumExp]⟩
  | cons f t ih =>
    obtain ⟨p', k'⟩ := f
    intro h
    have hs : sumExp ((p', k') :: t) = k' + sumExp t := by simp [sumExp]
    rw [hs] at h
    unfold bump
    by_cases hp : p' = p
    · rw [if_pos hp, if_pos (by omega)]
      refine ⟨_, rfl, ?_⟩
      rw [hs]; simp [sumExp]; omega
    · rw [if_neg hp]
      obtain ⟨t', h1, h2⟩ := ih (by omega)
      rw [h1]
      refine ⟨_, rfl, ?_⟩
      rw [hs]; simp [sumExp] at h2 ⊢; omega

theorem mergeFactors_total : ∀ (l acc : List (Int × Nat)), sumExp acc + sumExp l < W64 →
    ∃ out, mergeFactors acc l = .ok out := by
  intro l
  induction l with
  | nil => intro acc _; exact ⟨acc, rfl⟩
  | cons f t ih =>
    obtain ⟨p, k⟩ := f
    intro acc h
    have hs : sumExp ((p, k) :: t) = k + sumExp t := by simp [sumExp]
    rw [hs] at h
    unfold mergeFactors
    split
    · obtain ⟨acc', h1, h2⟩ := bump_total p k acc (by omega)
      rw [h1]
      simp only [bind, Except.bind]
      exact ih acc' (by omega)
    · have h1 : sumExp [(p, k)] = k := by simp [sumExp]
      exact ih _ (by rw [sumExp_append, h1]; omega)

theorem combine_total {n : Nat} {r1 r2 : Relation} (hn : n ≠ 0) (hc : r1.cofactor = r2.cofactor)
    (hc0 : r1.cofactor ≠ 0) (hl1 : r1.cyclelen = 1) (hl2 : r2.cyclelen = 1)
    (hs : sumExp r1.factors + sumExp r2.factors < W64) : ∃ r, combine n r1 r2 = .ok r := by
  obtain ⟨fs, hfs⟩ := mergeFactors_total r2.factors r1.factors hs
  unfold combine
  rw [hfs]
  simp only [bind, Except.bind]
  rw [if_neg (by rw [← hc]; exact hc0), if_pos (by rw [hc]; exact Nat.mod_self _), if_neg hn,
    if_pos (by rw [hl1, hl2]; decide)]
  exact ⟨_, rfl⟩

/-! ### candidates -/

/-- what the no-panic argument uses about the context -/
structure CtxNP (c : Ctx) : Prop where
  ok : CtxOK c
  n0 : c.n ≠ 0
  ns32 : c.nsqrt < 2 ^ 32
  hi : c.nk < (c.nsqrt + 1) * (c.nsqrt + 1)
  nsq : ∀ s : Nat, c.nk ≠ s * s
  bs : c.bsize ≤ 16384
  fb : FbOK c.nk c.fb

theorem V_ne_zero {c : Ctx} (h : CtxNP c) (offset : Int) (i : Nat) : V c offset i ≠ 0 := by
  intro hv
  unfold V at hv
  have h1 : ((c.nsqrt : Int) + ((i : Int) + offset)) * ((c.nsqrt : Int) + ((i : Int) + offset)) =
      (c.nk : Int) := by omega
  rw [← Int.natAbs_mul_self'] at h1
  exact h.nsq _ (by exact_mod_cast h1.symm)

theorem V_bounds {c : Ctx} (h : CtxNP c) {offset : Int} {i : Nat} (ho1 : -(2 ^ 20 : Int) ≤ offset)
    (ho2 : offset ≤ (2 ^ 20 : Int)) (hi : i < 2 ^ 15) :
    -(2 ^ 56 : Int) ≤ V c offset i ∧ V c offset i ≤ (2 ^ 56 : Int) := by
  have hns : (c.nsqrt : Int) < 2 ^ 32 := by exact_mod_cast h.ns32
  have hns0 : (0 : Int) ≤ (c.nsqrt : Int) := Int.natCast_nonneg _
  have hc1 : (c.c : Int) + (c.nsqrt : Int) * (c.nsqrt : Int) = (c.nk : Int) := by
    exact_mod_cast h.ok.c_eq
  have hc2 : (c.c : Int) ≤ 2 * (c.nsqrt : Int) := by
    have h1 := h.hi
    have h2 := h.ok.c_eq
    have : (c.nsqrt + 1) * (c.nsqrt + 1) = c.nsqrt * c.nsqrt + 2 * c.nsqrt + 1 := by ring
    have : c.c ≤ 2 * c.nsqrt := by omega
    exact_mod_cast this
  have hc0 : (0 : Int) ≤ (c.c : Int) := Int.natCast_nonneg _
  have hi' : (i : Int) < 2 ^ 15 := by exact_mod_cast hi
  have hi0 : (0 : Int) ≤ (i : Int) := Int.natCast_nonneg _
  obtain ⟨x, hx⟩ : ∃ x : Int, x = (i : Int) + offset := ⟨_, rfl⟩
  have hx1 : -(2 ^ 21 : Int) ≤ x := by omega
  have hx2 : x ≤ (2 ^ 21 : Int) := by omega
  have hV : V c offset i = x * x + 2 * ((c.nsqrt : Int) * x) - (c.c : Int) := by
    unfold V; rw [← hx, ← hc1]; ring
  have hxx : x * x ≤ 2 ^ 42 := by nlinarith
  have hxx0 : 0 ≤ x * x := mul_self_nonneg x
  have hnx1 : (c.nsqrt : Int) * x ≤ 2 ^ 53 := by nlinarith
  have hnx2 : -(2 ^ 53 : Int) ≤ (c.nsqrt : Int) * x := by nlinarith
  rw [hV]
  constructor <;> omega

theorem absI64_ok {v : Int} (h1 : -(2 ^ 62 : Int) ≤ v) (h2 : v ≤ 2 ^ 62) : absI64 v = .ok |v| := by
  have hI : (I63 : Int) = 2 ^ 63 := by decide
  unfold absI64
  split
  · rename_i hneg
    rw [chkI64_ok]
    exact ⟨abs_of_neg hneg, by omega, by omega⟩
  · rename_i hpos
    rw [pure_eq_ok, abs_of_nonneg (by omega)]

/-- bound on the exponents of a relation built by `candidate` -/
def expBound : Nat := 1 + 65 * 46

theorem candidate_total {c : Ctx} (h : CtxNP c) {offset : Int} {i : Nat}
    (ho1 : -(2 ^ 20 : Int) ≤ offset) (ho2 : offset ≤ (2 ^ 20 : Int)) (hi : i < 2 ^ 15) :
    ∃ r, candidate c offset i = .ok r ∧
      ∀ rel, r = some rel → rel.cofactor ≠ 0 ∧ rel.cyclelen = 1 ∧ sumExp rel.factors ≤ expBound := by
  have hI : (I63 : Int) = 2 ^ 63 := by decide
  have hns : (c.nsqrt : Int) < 2 ^ 32 := by exact_mod_cast h.ns32
  have hns0 : (0 : Int) ≤ (c.nsqrt : Int) := Int.natCast_nonneg _
  have hb : (c.b : Int) = 2 * (c.nsqrt : Int) := by exact_mod_cast h.ok.b_eq
  have hcc : (c.c : Int) + (c.nsqrt : Int) * (c.nsqrt : Int) = (c.nk : Int) := by
    exact_mod_cast h.ok.c_eq
  have hc2 : (c.c : Int) ≤ 2 * (c.nsqrt : Int) := by
    have h1 := h.hi
    have h2 := h.ok.c_eq
    have : (c.nsqrt + 1) * (c.nsqrt + 1) = c.nsqrt * c.nsqrt + 2 * c.nsqrt + 1 := by ring
    have : c.c ≤ 2 * c.nsqrt := by omega
    exact_mod_cast this
  have hc0 : (0 : Int) ≤ (c.c : Int) := Int.natCast_nonneg _
  have hi' : (i : Int) < 2 ^ 15 := by exact_mod_cast hi
  have hi0 : (0 : Int) ≤ (i : Int) := Int.natCast_nonneg _
  obtain ⟨hV1, hV2⟩ := V_bounds h ho1 ho2 hi
  have hV0 := V_ne_zero h offset i
  have hVeq : ((i : Int) + offset + (c.b : Int)) * ((i : Int) + offset) - (c.c : Int) = V c offset i := by
    unfold V; rw [hb, ← hcc]; ring
  have hm : ((i : Int) + offset + (c.b : Int)) * ((i : Int) + offset) = V c offset i + (c.c : Int) := by
    rw [← hVeq]; ring
  unfold candidate
  rw [toI64_small h.ok.ns63, toI64_small h.ok.b63, toI64_small h.ok.c63]
  have c1 : chkI64 ((i : Int) + offset) = .ok ((i : Int) + offset) := by
    rw [chkI64_ok]; exact ⟨rfl, by omega, by omega⟩
  have c2 : chkI64 ((c.nsqrt : Int) + ((i : Int) + offset)) = .ok ((c.nsqrt : Int) + ((i : Int) + offset)) := by
    rw [chkI64_ok]; exact ⟨rfl, by omega, by omega⟩
  have c3 : chkI64 ((i : Int) + offset + (c.b : Int)) = .ok ((i : Int) + offset + (c.b : Int)) := by
    rw [chkI64_ok]; exact ⟨rfl, by omega, by omega⟩
  have c4 : chkI64 (((i : Int) + offset + (c.b : Int)) * ((i : Int) + offset)) =
      .ok (((i : Int) + offset + (c.b : Int)) * ((i : Int) + offset)) := by
    rw [chkI64_ok, hm]; exact ⟨rfl, by omega, by omega⟩
  have c5 : chkI64 (((i : Int) + offset + (c.b : Int)) * ((i : Int) + offset) - (c.c : Int)) =
      .ok (V c offset i) := by
    rw [chkI64_ok, hVeq]; exact ⟨rfl, by omega, by omega⟩
  have c6 := absI64_ok (v := V c offset i) (by omega) (by omega)
  have habs0 : 0 < |V c offset i| := abs_pos.mpr hV0
  have habs1 : |V c offset i| ≤ 2 ^ 56 := abs_le.mpr ⟨hV1, hV2⟩
  have hW : (W64 : Int) = 2 ^ 64 := by decide
  have hU : ((toU64 |V c offset i| : Nat) : Int) = |V c offset i| :=
    toU64_nonneg (le_of_lt habs0) (by omega)
  have hU0 : 0 < toU64 |V c offset i| := by
    have : (0 : Int) < ((toU64 |V c offset i| : Nat) : Int) := by rw [hU]; exact habs0
    exact_mod_cast this
  have hU64 : toU64 |V c offset i| < 2 ^ 64 := by
    have : ((toU64 |V c offset i| : Nat) : Int) < 2 ^ 64 := by rw [hU]; omega
    exact_mod_cast this
  obtain ⟨cof, fs', g1, g2, g3⟩ := trialLoop_total c.fb (fun e he => (h.fb.fact e he).ok)
    (toU64 |V c offset i|) (if V c offset i < 0 then [(-1, 1)] else []) hU0 hU64
  simp only [c1, c2, c3, c4, c5, c6, g1, bind, Except.bind]
  have hlen := h.fb.len
  have hs0 : sumExp (if V c offset i < 0 then [((-1 : Int), 1)] else []) ≤ 1 := by
    split <;> simp [sumExp]
  split
  · exact ⟨none, rfl, fun rel hrel => by cases hrel⟩
  · refine ⟨_, rfl, ?_⟩
    intro rel hrel
    simp only [Option.some.injEq] at hrel
    subst hrel
    refine ⟨by show cof ≠ 0; omega, rfl, ?_⟩
    show sumExp fs' ≤ expBound
    unfold expBound
    omega

/-! ### the scan state -/

structure StNP (st : St) : Prop where
  larges : ∀ kr ∈ st.larges, kr.2.cofactor = kr.1 ∧ kr.1 ≠ 0 ∧ kr.2.cyclelen = 1 ∧
    sumExp kr.2.factors ≤ expBound

theorem process_total {c : Ctx} (hn : c.n ≠ 0) {rel : Relation} {st : St} (hst : StNP st)
    (hc0 : rel.cofactor ≠ 0) (hl : rel.cyclelen = 1) (hs : sumExp rel.factors ≤ expBound) :
    ∃ st', process c rel st = .ok st' ∧ StNP st' := by
  unfold process
  split
  · exact ⟨_, rfl, ⟨hst.larges⟩⟩
  · split
    · rename_i r0 hlook
      obtain ⟨g1, _, g3, g4⟩ := hst.larges _ (alookup_mem hlook)
      obtain ⟨rr, hrr⟩ := combine_total hn g1.symm hc0 hl g3 (by
        have : 2 * expBound < W64 := by decide
        omega)
      rw [hrr]
      exact ⟨_, rfl, ⟨hst.larges⟩⟩
    · refine ⟨_, rfl, ⟨?_⟩⟩
      intro kr hkr
      rcases List.mem_cons.mp hkr with hkr | hkr
      · subst hkr
        exact ⟨rfl, hc0, hl, hs⟩
      · exact hst.larges kr hkr

theorem scanLoop_total {c : Ctx} (h : CtxNP c) {offset : Int} (ho1 : -(2 ^ 20 : Int) ≤ offset)
    (ho2 : offset ≤ (2 ^ 20 : Int)) (target : Nat) : ∀ (l : List Nat) (i : Nat) (st : St),
    i + l.length ≤ 2 ^ 15 → StNP st → ∃ st', scanLoop c offset target l i st = .ok st' ∧ StNP st' := by
  intro l
  induction l with
  | nil => intro i st _ hst; exact ⟨st, rfl, hst⟩
  | cons sz t ih =>
    intro i st hlen hst
    simp only [List.length_cons] at hlen
    unfold scanLoop
    split
    · obtain ⟨r, hr, hfacts⟩ := candidate_total h ho1 ho2 (i := i) (by omega)
      rw [hr]
      simp only [bind, Except.bind]
      cases r with
      | none => exact ih _ _ (by omega) hst
      | some rel =>
        obtain ⟨g1, g2, g3⟩ := hfacts rel rfl
        obtain ⟨st1, hp, hst1⟩ := process_total h.n0 hst g1 g2 g3
        simp only [hp]
        exact ih _ _ (by omega) hst1
    · exact ih _ _ (by omega) hst

theorem bitlen_maxlarge : bitlen maxlarge = 13 := by decide

theorem targetOf_total (n : Nat) : ∃ t, targetOf n = .ok t := by
  unfold targetOf
  simp only [bitlen_maxlarge]
  rw [if_neg (by omega), if_neg (by omega)]
  exact ⟨_, rfl⟩

theorem blockOffset_bounds {c : Ctx} (hbs : c.bsize ≤ 16384) {blk : Nat} (hblk : blk < 64) :
    -(2 ^ 20 : Int) ≤ blockOffset c blk ∧ blockOffset c blk ≤ (2 ^ 20 : Int) := by
  unfold blockOffset
  have h1 : (c.bsize : Int) ≤ 16384 := by exact_mod_cast hbs
  have h0 : (0 : Int) ≤ (c.bsize : Int) := Int.natCast_nonneg _
  have h2 : (blk : Int) < 64 := by exact_mod_cast hblk
  have h3 : (0 : Int) ≤ (blk : Int) := Int.natCast_nonneg _
  split
  · constructor <;> nlinarith
  · constructor <;> nlinarith

theorem runBlock_total {c : Ctx} (h : CtxNP c) {blk : Nat} (hblk : blk < 64) {st : St}
    (hst : StNP st) : ∃ st', runBlock c blk st = .ok st' ∧ StNP st' := by
  obtain ⟨ho1, ho2⟩ := blockOffset_bounds h.bs hblk
  have hsmall : Small c (blockOffset c blk) := ⟨by omega, by omega, h.ns32⟩
  have hsz : (Array.replicate (2 * c.bsize) (0 : Nat)).size = 2 * c.bsize := by simp
  have hbs := h.bs
  obtain ⟨iv, g1, g2⟩ := sieveAll_ok hsmall c.fb [] (Array.replicate (2 * c.bsize) 0)
    h.fb.fact (by
      intro i hi
      rw [hsz] at hi
      rw [List.nil_append]
      obtain ⟨hV1, hV2⟩ := V_bounds h ho1 ho2 (i := i) (by omega)
      refine wt_le _ _ h.fb.nodup (fun p hp => ?_) (V_ne_zero h _ _) (by omega)
      rw [List.mem_map] at hp
      obtain ⟨e, he, rfl⟩ := hp
      exact (h.fb.fact e he).prime) (by
      intro i hi
      rw [hsz] at hi
      simp [Array.getD_eq_getD_getElem?, hi])
  obtain ⟨t, ht⟩ := targetOf_total c.n
  unfold runBlock
  simp only [g1, ht, bind, Except.bind]
  refine scanLoop_total h ho1 ho2 t _ 0 st ?_ hst
  rw [Array.length_toList, g2, hsz]
  omega

theorem blockLoop_total {c : Ctx} (h : CtxNP c) : ∀ (l : List Nat) (st : St),
    (∀ blk ∈ l, blk < 64) → StNP st → ∃ st', blockLoop c l st = .ok st' := by
  intro l
  induction l with
  | nil => intro st _ _; exact ⟨st, rfl⟩
  | cons blk t ih =>
    intro st hl hst
    obtain ⟨st1, g1, g2⟩ := runBlock_total h (hl blk List.mem_cons_self) hst
    unfold blockLoop
    simp only [g1, bind, Except.bind]
    split
    · exact ⟨_, rfl⟩
    · exact ih st1 (fun b hb => hl b (List.mem_cons_of_mem _ hb)) g2

/-! ### set-up and the whole run -/

theorem setup_total {n k : Nat} (h64 : n * k < 2 ^ 64) (hsq : ∀ s : Nat, n * k ≠ s * s) :
    ∃ s, setup n k = .ok s := by
  have hk : k ≠ 0 := by
    intro hk; subst hk; exact hsq 0 (by simp)
  have hn : n < 2 ^ 64 := lt_of_le_of_lt (Nat.le_mul_of_pos_right n (Nat.pos_of_ne_zero hk)) h64
  have h0 := (Arith.isqrt_spec' n).1
  have h1 := (Arith.isqrt_spec' (n * k)).1
  obtain ⟨fb, hfb⟩ := new64_total (n * k)
  unfold setup
  simp only [W64_eq]
  rw [if_neg (by omega)]
  split
  · exact ⟨_, rfl⟩
  rw [if_neg (by omega), hfb]
  simp only [bind, Except.bind]
  rw [if_neg (by omega), if_neg (fun h => hsq _ h.1), if_neg (fun h => hsq _ h.1),
    if_neg (fun h => hsq _ h.1)]
  have h32 : Arith.isqrt (n * k) < 2 ^ 32 := by
    by_contra hge
    have h2 : 2 ^ 32 ≤ Arith.isqrt (n * k) := by omega
    have := Nat.mul_le_mul h2 h2
    omega
  rw [if_neg (by omega), if_neg (by omega)]
  exact ⟨_, rfl⟩

theorem SetupRun.ctxNP {n k : Nat} {c : Ctx} (h : SetupRun n k c) (hsq : ∀ s : Nat, n * k ≠ s * s) :
    CtxNP c := by
  refine ⟨h.ctxOK, ?_, h.ns32, ?_, ?_, ?_, ?_⟩
  · rw [h.en]; intro hn; subst hn; exact hsq 0 (by simp)
  · rw [h.enk]; exact h.sq_le.2
  · rw [h.enk]; exact hsq
  · rw [h.ebs]; split <;> omega
  · rw [h.enk]; exact new64_fbOK h.fb

/-- `qsieve` reaches `relations::final_step` (or an early `return`) without meeting any panic site,
whenever `n·k` fits a `u64` and is not a perfect square. -/
theorem qsRels_total {n k : Nat} (h64 : n * k < 2 ^ 64) (hsq : ∀ s : Nat, n * k ≠ s * s) :
    ∃ o, qsRels n k = .ok o := by
  obtain ⟨s, hs⟩ := setup_total h64 hsq
  unfold qsRels
  simp only [hs, bind, Except.bind]
  cases s with
  | early a b => exact ⟨_, rfl⟩
  | run c =>
    have hnp := (setup_run hs).ctxNP hsq
    obtain ⟨st, hst⟩ := blockLoop_total hnp (List.range 64) { rels := [], larges := [] }
      (fun b hb => List.mem_range.mp hb) ⟨fun kr hkr => by cases hkr⟩
    simp only [hst]
    exact ⟨_, rfl⟩

end Ymq.Qsieve64
