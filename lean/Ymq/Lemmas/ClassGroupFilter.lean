/-
Soundness of the relation filter (model of `RelFilterSparse`, Ymq/Model/ClassGroupFilter.lean):
whatever strategy the filter follows (choice of pivots, trimming, overflow exits, removal of
duplicates), every row it keeps is a consequence of the input relations and every saved relation
`p = ∏ l^e` holds: for any assignment `g` of elements of an abelian group to primes that kills the
input relations, the kept rows are killed and `g p = Σ e • g l` for every saved relation.
-/
import Ymq.Model.ClassGroupFilter
import Mathlib.Algebra.Group.Basic
import Mathlib.Algebra.BigOperators.Group.List.Basic
import Mathlib.Algebra.Module.Basic
import Mathlib.Tactic.Abel
import Mathlib.Tactic.Module

namespace Ymq.ClassGroup.Filter
open Ymq.ClassGroup

variable {G : Type*} [AddCommGroup G]

/-- value of a row under `g` -/
def rowVal (g : Nat → G) (r : Row) : G := (r.map fun pe => pe.2 • g pe.1).sum

@[simp] theorem rowVal_nil (g : Nat → G) : rowVal g [] = 0 := by simp [rowVal]

@[simp] theorem rowVal_cons (g : Nat → G) (x : Nat × Int) (t : Row) :
    rowVal g (x :: t) = x.2 • g x.1 + rowVal g t := by simp [rowVal]

theorem rowVal_append (g : Nat → G) (a b : Row) : rowVal g (a ++ b) = rowVal g a + rowVal g b := by
  simp [rowVal]

theorem rowVal_reverse (g : Nat → G) (a : Row) : rowVal g a.reverse = rowVal g a := by
  induction a with
  | nil => simp
  | cons x t ih => simp [rowVal_append, ih, add_comm]

theorem rowVal_neg (g : Nat → G) (a : Row) :
    rowVal g (a.map fun pe => (pe.1, -pe.2)) = -rowVal g a := by
  induction a with
  | nil => simp
  | cons x t ih => simp [ih, add_comm]

/-! ### sorting keeps the value and the members -/

theorem rowVal_insertBy (g : Nat → G) (lt : Nat × Int → Nat × Int → Bool) (x : Nat × Int) (l : Row) :
    rowVal g (insertBy lt x l) = x.2 • g x.1 + rowVal g l := by
  induction l with
  | nil => simp [insertBy]
  | cons y t ih =>
    simp only [insertBy]
    split
    · simp
    · simp only [rowVal_cons, ih]; abel

theorem rowVal_sortBy (g : Nat → G) (lt : Nat × Int → Nat × Int → Bool) (l : Row) :
    rowVal g (sortBy lt l) = rowVal g l := by
  unfold sortBy
  induction l with
  | nil => simp
  | cons x t ih => simp only [List.foldr_cons, rowVal_insertBy, ih, rowVal_cons]

theorem mem_insertBy {α} {lt : α → α → Bool} {x y : α} {l : List α} (h : y ∈ insertBy lt x l) :
    y = x ∨ y ∈ l := by
  induction l with
  | nil => simp [insertBy] at h; exact Or.inl h
  | cons z t ih =>
    simp only [insertBy] at h
    split at h
    · simp only [List.mem_cons] at h ⊢; exact h
    · simp only [List.mem_cons] at h ⊢
      rcases h with h | h
      · exact Or.inr (Or.inl h)
      · rcases ih h with h | h
        · exact Or.inl h
        · exact Or.inr (Or.inr h)

theorem mem_sortBy {α} {lt : α → α → Bool} {y : α} {l : List α} (h : y ∈ sortBy lt l) : y ∈ l := by
  unfold sortBy at h
  induction l with
  | nil => simp at h
  | cons x t ih =>
    simp only [List.foldr_cons] at h
    rcases mem_insertBy h with h | h
    · exact h ▸ List.mem_cons_self
    · exact List.mem_cons_of_mem _ (ih h)

theorem mem_dedup {α} [BEq α] {y : α} : ∀ {l : List α}, y ∈ dedup l → y ∈ l
  | [], h => by simp [dedup] at h
  | [x], h => by simpa [dedup] using h
  | x :: z :: t, h => by
    simp only [dedup] at h
    split at h
    · exact List.mem_cons_of_mem _ (mem_dedup h)
    · rcases List.mem_cons.1 h with h | h
      · exact h ▸ List.mem_cons_self
      · exact List.mem_cons_of_mem _ (mem_dedup h)

/-! ### the merge of `rowsub` -/

theorem chk32_eq {z e : Int} (h : chk32 z = some e) : e = z := by
  unfold chk32 at h
  split at h
  · exact (Option.some.inj h).symm
  · simp at h

theorem merge_val (g : Nat → G) (nc : Int) : ∀ (f : Nat) (ri rj res : Row) (added : List Nat) (out : Row)
    (ad : List Nat), ri.length + rj.length < f → merge nc f ri rj res added = .ok out ad →
    rowVal g out = rowVal g res + rowVal g ri + nc • rowVal g rj
  | 0, _, _, _, _, _, _, hf, _ => by omega
  | f + 1, [], [], res, added, out, ad, _, h => by
    simp only [merge, Merge.ok.injEq] at h
    rw [← h.1, rowVal_reverse]; simp
  | f + 1, (pi, ei) :: ti, [], res, added, out, ad, hf, h => by
    simp only [merge] at h
    have := merge_val g nc f ti [] ((pi, ei) :: res) added out ad (by simp at hf ⊢; omega) h
    rw [this]; simp only [rowVal_cons, rowVal_nil]; module
  | f + 1, [], (pj, ej) :: tj, res, added, out, ad, hf, h => by
    simp only [merge] at h
    split at h
    · simp at h
    · rename_i e he
      have := merge_val g nc f [] tj ((pj, e) :: res) (pj :: added) out ad (by simp at hf ⊢; omega) h
      rw [this, chk32_eq he]
      simp only [rowVal_cons, rowVal_nil]; module
  | f + 1, (pi, ei) :: ti, (pj, ej) :: tj, res, added, out, ad, hf, h => by
    simp only [merge] at h
    split at h
    · have := merge_val g nc f ti ((pj, ej) :: tj) ((pi, ei) :: res) added out ad
        (by simp at hf ⊢; omega) h
      rw [this]; simp only [rowVal_cons]; module
    · split at h
      · split at h
        · simp at h
        · rename_i e he
          have := merge_val g nc f ((pi, ei) :: ti) tj ((pj, e) :: res) (pj :: added) out ad
            (by simp at hf ⊢; omega) h
          rw [this, chk32_eq he]
          simp only [rowVal_cons]; module
      · rename_i h1 h2
        have hpp : pi = pj := by omega
        split at h
        · simp at h
        · rename_i m hm
          split at h
          · simp at h
          · rename_i e he
            have := merge_val g nc f ti tj (if e ≠ 0 then (pi, e) :: res else res) added out ad
              (by simp at hf ⊢; omega) h
            rw [this]
            have hev : e = ei + ej * nc := by rw [chk32_eq he, chk32_eq hm]
            have hres : rowVal g (if e ≠ 0 then (pi, e) :: res else res) = e • g pi + rowVal g res := by
              by_cases h0 : e = 0
              · simp [h0]
              · simp [h0]
            rw [hres, hev, ← hpp]
            simp only [rowVal_cons]; module

/-! ### invariant -/

/-- every kept row is killed by `g`, every saved relation `p = rel` holds under `g` -/
def FInv (g : Nat → G) (s : FSt) : Prop :=
  (∀ r ∈ s.rows, rowVal g r = 0) ∧ (∀ pr ∈ s.removed, g pr.1 = rowVal g pr.2)

theorem addIndex_inv {g : Nat → G} {s : FSt} (i p : Nat) (h : FInv g s) : FInv g (s.addIndex i p) := h

theorem addIndex_fold_inv {g : Nat → G} (i : Nat) : ∀ (l : List Nat) (s : FSt), FInv g s →
    FInv g (l.foldl (fun s p => s.addIndex i p) s)
  | [], _, h => h
  | p :: t, s, h => addIndex_fold_inv i t (s.addIndex i p) (addIndex_inv i p h)

theorem addIndex_fold_rows (i : Nat) : ∀ (l : List Nat) (s : FSt),
    (l.foldl (fun s p => s.addIndex i p) s).rows = s.rows ∧
    (l.foldl (fun s p => s.addIndex i p) s).removed = s.removed
  | [], _ => ⟨rfl, rfl⟩
  | p :: t, s => by
    have := addIndex_fold_rows i t (s.addIndex i p)
    simpa [FSt.addIndex] using this

theorem set_inv {g : Nat → G} {s : FSt} {i : Nat} {r : Row} (h : FInv g s) (hr : rowVal g r = 0)
    {s' : FSt} (hrows : s'.rows = s.rows.set i r) (hrem : s'.removed = s.removed) : FInv g s' := by
  refine ⟨?_, by rw [hrem]; exact h.2⟩
  intro x hx
  rw [hrows] at hx
  rcases List.mem_or_eq_of_mem_set hx with hx | hx
  · exact h.1 x hx
  · rw [hx]; exact hr

theorem removeRow_inv {g : Nat → G} {s s' : FSt} {idx : Nat} (h : FInv g s)
    (hs : s.removeRow idx = some s') : FInv g s' := by
  unfold FSt.removeRow at hs
  split at hs
  · simp at hs
  · split at hs
    · simp only [Option.some.injEq] at hs; subst hs; exact h
    · split at hs
      · simp at hs
      · split at hs
        · simp at hs
        · simp only [Option.some.injEq] at hs
          subst hs
          exact set_inv h (rowVal_nil g) rfl rfl

theorem setRow_inv {g : Nat → G} {s s' : FSt} {i li : Nat} {res : Row} (h : FInv g s)
    (hr : rowVal g res = 0) (hs : s.setRow i li res = .ok s') : FInv g s' := by
  unfold FSt.setRow at hs
  split at hs
  · simp at hs
  · split at hs
    · simp at hs
    · simp only [Out.ok.injEq] at hs
      subst hs
      exact set_inv h hr rfl rfl

theorem setRow_not_ovf {s s' : FSt} {i li : Nat} {res : Row} : s.setRow i li res ≠ .ovf s' := by
  unfold FSt.setRow
  split
  · simp
  · split <;> simp

theorem getElem?_mem' {α} {l : List α} {i : Nat} {x : α} (h : l[i]? = some x) : x ∈ l :=
  List.mem_of_getElem? h

theorem rowsub_inv {g : Nat → G} {s : FSt} {i j : Nat} {c : Int} (h : FInv g s) :
    (∀ s', s.rowsub i j c = .ok s' → FInv g s') ∧ (∀ s', s.rowsub i j c = .ovf s' → FInv g s') := by
  unfold FSt.rowsub
  split
  · exact ⟨fun _ h => by simp at h, fun _ h => by simp at h⟩
  · split
    · rename_i ri rj nc hri hrj hnc
      have hvi : rowVal g ri = 0 := h.1 ri (getElem?_mem' hri)
      have hvj : rowVal g rj = 0 := h.1 rj (getElem?_mem' hrj)
      split
      · rename_i added hm
        refine ⟨fun _ h => by simp at h, ?_⟩
        intro s' hs'
        simp only [Out.ovf.injEq] at hs'
        subst hs'
        exact addIndex_fold_inv i _ _ h
      · rename_i res added hm
        have hval := merge_val g nc _ ri rj [] [] res added (by omega) hm
        simp only [rowVal_nil, hvi, hvj, smul_zero, add_zero] at hval
        refine ⟨?_, ?_⟩
        · intro s' hs'
          exact setRow_inv (addIndex_fold_inv (g := g) i added s h) hval hs'
        · intro s' hs'
          exact absurd hs' setRow_not_ovf
    · exact ⟨fun _ h => by simp at h, fun _ h => by simp at h⟩

/-- value of a row split at the first entry with prime `p` -/
theorem rowVal_erase (g : Nat → G) (p : Nat) : ∀ rel : Row,
    rowVal g rel = ((rel.lookup p).getD 0) • g p + rowVal g (rel.eraseP fun pe => pe.1 = p)
  | [] => by simp
  | (q, e) :: t => by
    by_cases hq : q = p
    · subst hq
      simp [List.lookup]
    · have hne : (p == q) = false := by simpa using fun h => hq h.symm
      have h1 : ((q, e) :: t).lookup p = t.lookup p := by simp [List.lookup, hne]
      have h2 : ((q, e) :: t).eraseP (fun pe => pe.1 = p) = (q, e) :: t.eraseP (fun pe => pe.1 = p) :=
        List.eraseP_cons_of_neg (by simpa using hq)
      rw [h1, h2, rowVal_cons, rowVal_cons, rowVal_erase g p t]; abel

theorem saveRemoved_inv {g : Nat → G} {s s' : FSt} {p : Nat} {rel : Row} (h : FInv g s)
    (hrel : rowVal g rel = 0) (hs : s.saveRemoved p rel = some s') : FInv g s' := by
  unfold FSt.saveRemoved at hs
  simp only at hs
  split at hs
  · simp at hs
  · rename_i hci
    simp only [Option.some.injEq] at hs
    subst hs
    refine ⟨h.1, ?_⟩
    intro pr hpr
    simp only [List.mem_append, List.mem_singleton] at hpr
    rcases hpr with hpr | hpr
    · exact h.2 pr hpr
    · subst hpr
      have hsplit := rowVal_erase g p rel
      rw [hrel] at hsplit
      simp only
      have hci' : ((rel.lookup p).getD 0) = 1 ∨ ((rel.lookup p).getD 0) = -1 := by
        have : ((rel.lookup p).getD 0).natAbs = 1 := by
          by_contra hne; exact hci hne
        omega
      rcases hci' with h1 | h1
      · rw [if_pos h1, rowVal_neg]
        rw [h1, one_smul] at hsplit
        exact eq_neg_of_add_eq_zero_left hsplit.symm
      · rw [if_neg (by omega)]
        rw [h1, neg_smul, one_smul] at hsplit
        have : -g p + rowVal g (List.eraseP (fun pe => decide (pe.1 = p)) rel) = 0 := hsplit.symm
        exact (neg_add_eq_zero.1 this)

theorem pivot_inv {g : Nat → G} {s : FSt} {p : Nat} (h : FInv g s) :
    (∀ s', s.pivot p = .ok s' → FInv g s') ∧ (∀ s', s.pivot p = .ovf s' → FInv g s') := by
  unfold FSt.pivot
  split
  · exact ⟨fun _ h => by simp at h, fun _ h => by simp at h⟩
  · rename_i nz _
    simp only
    split
    · exact ⟨fun _ h => by simp at h, fun _ h => by simp at h⟩
    · refine ⟨fun _ h => by simp at h, ?_⟩
      intro s' hs'
      simp only [Out.ovf.injEq] at hs'
      subst hs'; exact h
    · rename_i idx _
      split
      · exact ⟨fun _ h => by simp at h, fun _ h => by simp at h⟩
      · rename_i ci _
        -- the elimination loop keeps the invariant
        have hfold : ∀ (l : List Nat) (acc : Out),
            (∀ s0, acc = .ok s0 → FInv g s0) → (∀ s0, acc = .ovf s0 → FInv g s0) →
            (∀ s0, l.foldl (fun (acc : Out) (j : Nat) =>
              match acc with
              | .ok s =>
                if j = idx then .ok s
                else match s.coeff j p with
                  | none => .panic
                  | some cj =>
                    if cj = 0 then .ok s
                    else match chk32 (cj * ci) with
                      | none => .panic
                      | some c => s.rowsub j idx c
              | o => o) acc = .ok s0 → FInv g s0) ∧
            (∀ s0, l.foldl (fun (acc : Out) (j : Nat) =>
              match acc with
              | .ok s =>
                if j = idx then .ok s
                else match s.coeff j p with
                  | none => .panic
                  | some cj =>
                    if cj = 0 then .ok s
                    else match chk32 (cj * ci) with
                      | none => .panic
                      | some c => s.rowsub j idx c
              | o => o) acc = .ovf s0 → FInv g s0) := by
          intro l
          induction l with
          | nil => intro acc h1 h2; exact ⟨h1, h2⟩
          | cons j t ih =>
            intro acc h1 h2
            simp only [List.foldl_cons]
            apply ih
            · intro s0 hs0
              cases acc with
              | panic => simp at hs0
              | ovf sa => simp at hs0
              | ok sa =>
                have hsa := h1 sa rfl
                simp only at hs0
                split at hs0
                · simp only [Out.ok.injEq] at hs0; subst hs0; exact hsa
                · split at hs0
                  · simp at hs0
                  · split at hs0
                    · simp only [Out.ok.injEq] at hs0; subst hs0; exact hsa
                    · split at hs0
                      · simp at hs0
                      · exact (rowsub_inv hsa).1 s0 hs0
            · intro s0 hs0
              cases acc with
              | panic => simp at hs0
              | ovf sa =>
                simp only [Out.ovf.injEq] at hs0
                subst hs0; exact h2 sa rfl
              | ok sa =>
                have hsa := h1 sa rfl
                simp only at hs0
                split at hs0
                · simp at hs0
                · split at hs0
                  · simp at hs0
                  · split at hs0
                    · simp at hs0
                    · split at hs0
                      · simp at hs0
                      · exact (rowsub_inv hsa).2 s0 hs0
        have hf := hfold nz (.ok s) (fun s0 hs0 => by simp only [Out.ok.injEq] at hs0; subst hs0; exact h)
          (fun s0 hs0 => by simp at hs0)
        split
        · exact ⟨fun _ h => by simp at h, fun _ h => by simp at h⟩
        · rename_i s1 hs1
          refine ⟨fun _ h => by simp at h, ?_⟩
          intro s' hs'
          simp only [Out.ovf.injEq] at hs'
          subst hs'
          exact hf.2 s1 hs1
        · rename_i s1 hs1
          have hinv1 := hf.1 s1 hs1
          split
          · exact ⟨fun _ h => by simp at h, fun _ h => by simp at h⟩
          · rename_i ri hri
            have hri0 : rowVal g ri = 0 := hinv1.1 ri (getElem?_mem' hri)
            split
            · exact ⟨fun _ h => by simp at h, fun _ h => by simp at h⟩
            · rename_i s2 hs2
              have hinv2 := removeRow_inv hinv1 hs2
              split
              · exact ⟨fun _ h => by simp at h, fun _ h => by simp at h⟩
              · rename_i s3 hs3
                refine ⟨?_, fun _ h => by simp at h⟩
                intro s' hs'
                simp only [Out.ok.injEq] at hs'
                subst hs'
                exact saveRemoved_inv (s := { s2 with weight := mErase p s2.weight, nonzero := mErase p s2.nonzero })
                  hinv2 hri0 hs3

theorem pivotLoop_inv {g : Nat → G} : ∀ (fuel : Nat) (b : Bool) (s : FSt), FInv g s →
    (∀ s', FSt.pivotLoop fuel b s = .ok s' → FInv g s') ∧
    (∀ s', FSt.pivotLoop fuel b s = .ovf s' → FInv g s')
  | 0, _, _, _ => ⟨fun _ h => by simp [FSt.pivotLoop] at h, fun _ h => by simp [FSt.pivotLoop] at h⟩
  | fuel + 1, false, s, h => by
    rw [FSt.pivotLoop]
    split
    · refine ⟨fun _ h => by simp at h, ?_⟩
      intro s' hs'; simp only [Out.ovf.injEq] at hs'; subst hs'; exact h
    · split
      · exact pivotLoop_inv fuel true _ h
      · exact pivotLoop_inv fuel true _ h
  | fuel + 1, true, s, h => by
    rw [FSt.pivotLoop]
    split
    · exact pivotLoop_inv fuel false _ h
    · simp only
      split
      · split
        · exact ⟨fun _ h => by simp at h, fun _ h => by simp at h⟩
        · split
          · exact pivotLoop_inv fuel true _ h
          · split
            · exact pivot_inv (s := { s with nextelims := s.nextelims.dropLast }) h
            · exact pivotLoop_inv fuel true _ h
      · exact pivotLoop_inv fuel true _ h

theorem trim_inv {g : Nat → G} {s s' : FSt} {count t : Nat} (h : FInv g s)
    (hs : s.trim count = some (s', t)) : FInv g s' := by
  unfold FSt.trim at hs
  simp only at hs
  split at hs
  · simp at hs
  · have hfold : ∀ (thr : Nat) (l : List Nat) (acc : Option FSt), (∀ s0, acc = some s0 → FInv g s0) →
        ∀ s0, l.foldl (fun (acc : Option FSt) (idx : Nat) =>
          match acc with
          | none => none
          | some s => match s.rows[idx]? with
            | none => none
            | some r => if r.length ≥ thr then s.removeRow idx else some s) acc = some s0 → FInv g s0 := by
      intro thr l
      induction l with
      | nil => intro acc h1 s0 hs0; exact h1 s0 hs0
      | cons i t ih =>
        intro acc h1
        simp only [List.foldl_cons]
        apply ih
        intro s0 hs0
        cases acc with
        | none => simp at hs0
        | some sa =>
          have hsa := h1 sa rfl
          simp only at hs0
          split at hs0
          · simp at hs0
          · split at hs0
            · exact removeRow_inv hsa hs0
            · simp only [Option.some.injEq] at hs0; subst hs0; exact hsa
    split at hs
    · simp at hs
    · rename_i s1 hs1
      simp only [Option.some.injEq, Prod.mk.injEq] at hs
      obtain ⟨rfl, _⟩ := hs
      exact hfold _ _ (some s) (fun s0 hs0 => by simp only [Option.some.injEq] at hs0; subst hs0; exact h) s1 hs1

theorem mem_swapRemove {α} {l : List α} {i : Nat} {x : α} (h : x ∈ swapRemove l i) : x ∈ l := by
  unfold swapRemove at h
  split at h
  · exact h
  · rename_i last hlast
    split at h
    · exact List.mem_of_mem_dropLast h
    · have := List.mem_of_mem_dropLast h
      rcases List.mem_or_eq_of_mem_set this with h1 | h1
      · exact h1
      · rw [h1]; exact List.mem_of_getLast? hlast

theorem mem_dropEmpty : ∀ (fuel i n0 : Nat) (rows : List Row) (x : Row),
    x ∈ dropEmpty fuel i n0 rows → x ∈ rows
  | 0, _, _, _, _, h => by simpa [dropEmpty] using h
  | fuel + 1, i, n0, rows, x, h => by
    rw [dropEmpty] at h
    split at h
    · exact h
    · split at h
      · exact mem_swapRemove (mem_dropEmpty fuel i n0 _ x h)
      · exact mem_dropEmpty fuel (i + 1) n0 rows x h

theorem removeDuplicates_inv {g : Nat → G} {s : FSt} (h : FInv g s) : FInv g s.removeDuplicates.1 := by
  unfold FSt.removeDuplicates
  refine ⟨?_, h.2⟩
  intro r hr
  simp only at hr
  have h1 := mem_sortBy (mem_dedup hr)
  obtain ⟨r0, hr0, rfl⟩ := List.mem_map.1 h1
  have hv : rowVal g r0 = 0 := h.1 r0 (mem_dropEmpty _ _ _ _ _ hr0)
  split
  · split
    · rw [rowVal_neg, hv, neg_zero]
    · exact hv
  · exact hv

theorem maybeTrim_inv {g : Nat → G} {s s' : FSt} (h : FInv g s) (hs : maybeTrim s = some s') :
    FInv g s' := by
  unfold maybeTrim at hs
  split at hs
  · split at hs
    · simp at hs
    · rename_i s2 t hs2
      simp only [Option.some.injEq] at hs
      subst hs
      exact trim_inv h hs2
  · simp only [Option.some.injEq] at hs; subst hs; exact h

theorem filterLoop_inv {g : Nat → G} : ∀ (fuel : Nat) (s s' : FSt), FInv g s →
    filterLoop fuel s = some s' → FInv g s'
  | 0, _, _, _, h => by simp [filterLoop] at h
  | fuel + 1, s, s', hinv, h => by
    rw [filterLoop] at h
    have hp := pivotLoop_inv (g := g) s.pivotFuel false s hinv
    unfold FSt.pivotOne at h
    split at h
    · simp at h
    · rename_i s1 hs1
      simp only [Option.some.injEq] at h; subst h
      exact hp.2 s1 hs1
    · rename_i s1 hs1
      have h1 := hp.1 s1 hs1
      split at h
      · simp at h
      · rename_i s2 hs2
        exact filterLoop_inv fuel s2 s' (maybeTrim_inv h1 hs2) h

/-- the rows built by `new` are the input relations, sorted -/
theorem new_inv {g : Nat → G} (rels : List Rel) (hin : ∀ r ∈ rels, rowVal g (relRow r) = 0) :
    FInv g (FSt.new rels) := by
  unfold FSt.new
  refine ⟨?_, by simp⟩
  intro row hrow
  simp only [List.mem_filterMap] at hrow
  obtain ⟨r, hr, hrr⟩ := hrow
  unfold rowOf at hrr
  split at hrr
  · simp at hrr
  · simp only [Option.some.injEq] at hrr
    rw [← hrr, rowVal_sortBy]
    exact hin r hr

end Ymq.ClassGroup.Filter
