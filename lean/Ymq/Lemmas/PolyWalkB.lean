/-
SIQS (C12): the coefficient `B` of the polynomial number `idx` of a family is the sum of the CRT
roots selected by the Gray code of `idx`.
-/
import Ymq.Lemmas.PolySiqsExact
import Ymq.Lemmas.PolyCrt
namespace Ymq.PolyWalkB
open Ymq.SiqsPoly Ymq.PolyInv Ymq.PolyBits Ymq.PolySiqs Ymq.PolyCrt

/-- `B` for the choice `g` over the stored pairs (`I256`) -/
def bsumZ (g : Nat → Bool) : Nat → List (Int × Int) → Int
  | _, [] => 0
  | k, pr :: rest => (if g k then pr.2 else pr.1) + bsumZ g (k + 1) rest

theorem bsumZ_congr (g g' : Nat → Bool) : ∀ (l : List (Int × Int)) (k : Nat), (∀ j, k ≤ j → g j = g' j) →
    bsumZ g k l = bsumZ g' k l := by
  intro l
  induction l with
  | nil => intro k _; rfl
  | cons x xs ih =>
    intro k h
    simp only [bsumZ]
    rw [h k (le_refl _), ih (k + 1) (fun j hj => h j (by omega))]

theorem bsumZ_flip (g g' : Nat → Bool) : ∀ (l : List (Int × Int)) (k0 t : Nat) (ht : t < l.length),
    (∀ j, g' j = (g j ^^ decide (k0 + t = j))) →
    bsumZ g' k0 l = bsumZ g k0 l + (if g (k0 + t) then l[t].1 - l[t].2 else l[t].2 - l[t].1) := by
  intro l
  induction l with
  | nil => intro k0 t ht; simp at ht
  | cons x xs ih =>
    intro k0 t ht h
    simp only [bsumZ]
    cases t with
    | zero =>
      have htail : bsumZ g' (k0 + 1) xs = bsumZ g (k0 + 1) xs := by
        apply bsumZ_congr
        intro j hj
        rw [h j]
        have : decide (k0 + 0 = j) = false := by simp; omega
        rw [this]; simp
      have hk : g' k0 = !g k0 := by rw [h k0]; simp
      rw [htail, hk]
      simp only [Nat.add_zero, List.getElem_cons_zero]
      cases g k0 <;> simp <;> ring
    | succ t =>
      have hk : g' k0 = g k0 := by
        rw [h k0]
        have : decide (k0 + (t + 1) = k0) = false := by simp
        rw [this]; simp
      have := ih (k0 + 1) t (by simpa using ht) (by
        intro j; rw [h j]
        have : (k0 + (t + 1) = j) ↔ (k0 + 1 + t = j) := by omega
        simp only [this])
      rw [hk, this]
      simp only [List.getElem_cons_succ]
      have e : k0 + 1 + t = k0 + (t + 1) := by omega
      rw [e]; ring

theorem bsumZ_false : ∀ (l : List (Int × Int)) (k : Nat), bsumZ (fun _ => false) k l = (l.map (·.1)).sum := by
  intro l
  induction l with
  | nil => intro k; rfl
  | cons x xs ih => intro k; simp [bsumZ, ih]

theorem bsumZ_cast (g : Nat → Bool) : ∀ (prs : List (Nat × Nat)) (k : Nat),
    bsumZ g k (prs.map fun pr => ((pr.1 : Int), (pr.2 : Int))) = ((bsum g k prs : Nat) : Int) := by
  intro prs
  induction prs with
  | nil => intro k; rfl
  | cons x xs ih =>
    intro k
    simp only [List.map_cons, bsumZ, bsum, ih]
    split <;> push_cast <;> rfl

/-- Gray code -/
def grayBits (idx : Nat) (j : Nat) : Bool := (idx ^^^ (idx >>> 1)).testBit j

/-- the `B` update of `Poly::next` -/
theorem next_b {s : Sieve} {pa : APrep} {pol pol' : Poly} (h : next s pa pol = some pol') :
    pol.idx + 1 < 2 ^ 64 ∧ pol'.idx = pol.idx + 1 ∧
    ∃ r0 r1, pa.roots[tz64 ((pol.idx ^^^ pol.idx >>> 1) ^^^ (pol.idx + 1 ^^^ (pol.idx + 1) >>> 1))]? = some (r0, r1) ∧
      pol'.b = if ((pol.idx ^^^ pol.idx >>> 1) >>>
          tz64 ((pol.idx ^^^ pol.idx >>> 1) ^^^ (pol.idx + 1 ^^^ (pol.idx + 1) >>> 1))) % 2 = 0
        then pol.b + r1 - r0 else pol.b + r0 - r1 := by
  unfold next at h
  dsimp only at h
  split at h
  · cases h
  · rename_i h64
    split at h
    · cases h
    · split at h
      · cases h
      · split at h
        · cases h
        · rename_i r0 r1 hroots
          refine ⟨by omega, ?_⟩
          split at h
          · rename_i hup
            split at h
            · cases h
            · rename_i t ht1
              split at h
              · cases h
              · rename_i b hb1
                obtain ⟨_, _, _, _, _, hb, hidx, _⟩ := finish_some h
                refine ⟨hidx, r0, r1, hroots, ?_⟩
                rw [if_pos hup, hb]
                simp only
                rw [chk256_some hb1, chk256_some ht1]
          · rename_i hup
            split at h
            · cases h
            · rename_i t ht1
              split at h
              · cases h
              · rename_i b hb1
                split at h
                · cases h
                · obtain ⟨_, _, _, _, _, hb, hidx, _⟩ := finish_some h
                  refine ⟨hidx, r0, r1, hroots, ?_⟩
                  rw [if_neg hup, hb]
                  simp only
                  rw [chk256_some hb1, chk256_some ht1]

/-- the first `B` -/
theorem first_b {s : Sieve} {pa : APrep} {pol : Poly} (h : first s pa = some pol)
    (hne : pa.factors.isEmpty = false) : pol.idx = 0 ∧ pol.b = (pa.roots.map (·.1)).sum := by
  unfold first at h
  dsimp only at h
  rw [hne] at h
  simp only [Bool.false_eq_true, if_false] at h
  split at h
  · cases h
  · rename_i b hb
    split at h
    · cases h
    · obtain ⟨_, _, _, _, _, hb', hidx, _⟩ := finish_some h
      exact ⟨hidx, by rw [hb']; exact chk256_some hb⟩

/-- `B` of the polynomial number `idx` is the sum of the roots selected by the Gray code of `idx` -/
theorem polyAt_b {s : Sieve} {pa : APrep} (hne : pa.factors.isEmpty = false) :
    ∀ (idx : Nat) (pol : Poly), polyAt s pa idx = some pol →
      pol.idx = idx ∧ pol.b = bsumZ (grayBits idx) 0 pa.roots := by
  intro idx
  induction idx with
  | zero =>
    intro pol h
    obtain ⟨hidx, hb⟩ := first_b h hne
    refine ⟨hidx, ?_⟩
    rw [hb, ← bsumZ_false pa.roots 0]
    apply bsumZ_congr
    intro j _
    simp [grayBits]
  | succ i ih =>
    intro pol h
    simp only [polyAt] at h
    split at h
    · cases h
    · rename_i prev hprev
      obtain ⟨hpi, hpb⟩ := ih prev hprev
      obtain ⟨h64, hidx, r0, r1, hroots, hb⟩ := next_b h
      rw [hpi] at h64 hidx hroots hb
      refine ⟨hidx, ?_⟩
      obtain ⟨hbit, hlt, hng, htest⟩ := gray_step_aux i h64
      set bit := tz64 ((i ^^^ i >>> 1) ^^^ (i + 1 ^^^ (i + 1) >>> 1)) with hbitdef
      have hbr : bit < pa.roots.length := by
        by_contra hc
        rw [List.getElem?_eq_none (by omega)] at hroots; cases hroots
      have hr : pa.roots[bit] = (r0, r1) := by
        rw [List.getElem?_eq_getElem hbr] at hroots; exact Option.some.inj hroots
      have hflip := bsumZ_flip (grayBits i) (grayBits (i + 1)) pa.roots 0 bit hbr (by
        intro j
        simp only [grayBits, Nat.zero_add]
        exact htest j)
      rw [hflip, hb, hpb, hr]
      simp only [Nat.zero_add]
      have htb : grayBits i bit = decide (((i ^^^ i >>> 1) >>> bit) % 2 = 1) := by
        simp only [grayBits, Nat.testBit_eq_decide_div_mod_eq, Nat.shiftRight_eq_div_pow]
      by_cases hup : ((i ^^^ i >>> 1) >>> bit) % 2 = 0
      · have : grayBits i bit = false := by rw [htb]; exact decide_eq_false (by omega)
        rw [if_pos hup, this]; simp; ring
      · have : grayBits i bit = true := by rw [htb]; exact decide_eq_true (by omega)
        rw [if_neg hup, this]; simp; ring

end Ymq.PolyWalkB
