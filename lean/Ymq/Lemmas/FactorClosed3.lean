/-
Closing the oracle contract of the `Factor` control-flow model, third pass: two more fields become
"the field IS the model of the whole function" —

  `UsesPerfectPower o`  ⟵  `PerfectPowerModel o`: `(o.pp t n).1 = (Arith.perfectPower n).join`
                            (Ymq/Model/Arith.lean, C08; ALL answers, `None` included)
  `UsesRho64 o`         ⟵  `RhoModel o`: `(o.rho t n).1 = (PollardRho.rho n).join`
                            (Ymq/Model/PollardRho.lean over the word-exact `rho64` of C16: the budget
                            table, the nine polynomials, first success)

`.join` maps "the real function does not return" (outer `none` of a model) to `None`; the no-panic
theorems (C08 `perfect_power_no_panic`, C03Rho `rho_no_panic_call_site`) show that this case does not
occur for the arguments `factor_impl` passes. Both functions are deterministic, so the premises are
tested on every real run: the follow-up requests of the C01 trace replay re-ask the recorded `pp` and
`rho` answers to the models (props/c01_rho.py `model_followups`).
-/
import Ymq.Lemmas.FactorClosed2
import Ymq.Props.C03Rho

namespace Ymq.Factor

variable {σ : Type}

/-- the `pp` field IS the model of `arith::perfect_power` (every answer, `None` included) -/
def PerfectPowerModel (o : Oracle σ) : Prop :=
  ∀ t n, (o.pp t n).1 = (Ymq.Arith.perfectPower n).join

/-- the `rho` field IS the model of `pollard_rho::rho` (every answer, `None` included) -/
def RhoModel (o : Oracle σ) : Prop :=
  ∀ t n, (o.rho t n).1 = (Ymq.PollardRho.rho n).join

theorem join_eq_some {α} {x : Option (Option α)} {r : α} (h : x.join = some r) : x = some (some r) := by
  cases x with
  | none => simp at h
  | some y => simp only [Option.join_some] at h; rw [h]

theorem usesPerfectPower_of_model' {o : Oracle σ} (h : PerfectPowerModel o) : UsesPerfectPower o := by
  intro t n r hr
  rw [h t n] at hr
  exact join_eq_some hr

theorem usesRho64_of_model' {o : Oracle σ} (h : RhoModel o) : UsesRho64 o := by
  intro t n as b hr
  rw [h t n] at hr
  obtain ⟨c, iters, a, h64, has, _⟩ := Ymq.C03Rho.rho_uses_rho64 n as b (join_eq_some hr)
  exact ⟨c, iters, a, h64, has⟩

/-- what the whole-function model of `perfect_power` gives beyond the `pp` clause: after a `None`
answer the argument is not an e-th power for any tried exponent — in particular not a square, so no
square reaches `rho` / `squfof` / `qsieve64` / the sieves -/
theorem pp_none_not_power {o : Oracle σ} (h : PerfectPowerModel o) (t : σ) (n : Nat)
    (hn : n < 2 ^ 1024) (hnone : (o.pp t n).1 = none) :
    ∀ e ∈ Ymq.Arith.ppExps, ¬ ∃ r, r ^ e = n := by
  obtain ⟨res, hres⟩ := Ymq.C08.perfect_power_no_panic n hn
  rw [h t n, hres] at hnone
  simp only [Option.join_some] at hnone
  subst hnone
  exact Ymq.C08.perfect_power_spec n none hres

/-! ### call sites of `rho`: the guarded oracle of version 3 -/

/-- what holds at every call of `pollard_rho::rho` inside `factor_impl` -/
def RhoGuard (n : Nat) : Prop := NoSmall n ∧ n ≠ 1

instance : DecidablePred RhoGuard := fun n => by unfold RhoGuard NoSmall; infer_instance

/-- `o` with the `rho` field silenced outside `RhoGuard` -/
def guardRho (o : Oracle σ) : Oracle σ :=
  { o with rho := fun t n => if RhoGuard n then o.rho t n else (none, (o.rho t n).2) }

theorem factorStep_guardRho (o : Oracle σ) (rec : Nat → St σ → Res (St σ)) (n : Nat)
    (hns : NoSmall n) (alg : Algo) (s : St σ) :
    factorStep (guardRho o) rec n alg s = factorStep o rec n alg s := by
  by_cases h1 : n = 1
  · unfold factorStep; rw [if_pos h1, if_pos h1]
  · have hr : ∀ t, (guardRho o).rho t n = o.rho t n := fun t => if_pos ⟨hns, h1⟩
    have hauto : ∀ s, autoRho (guardRho o) rec n s = autoRho o rec n s := by
      intro s; unfold autoRho; rw [hr]
    have harm : ∀ a s, armPhase (guardRho o) rec n a s = armPhase o rec n a s := by
      intro a s
      cases a <;> first | rfl | (unfold armPhase; simp only [hr])
    have hap : ∀ s, autoPhase (guardRho o) rec n alg s = autoPhase o rec n alg s := by
      intro s; unfold autoPhase; rw [hauto]; rfl
    have hcp : ∀ s, compositePhase (guardRho o) rec n alg s = compositePhase o rec n alg s := by
      intro s; unfold compositePhase; rw [hap]
      cases autoPhase o rec n alg s with
      | inl r => rfl
      | inr p => obtain ⟨a, s1⟩ := p; simp only [harm]; rfl
    unfold factorStep
    rw [if_neg h1, if_neg h1]
    show (match (o.pp s.os n).1 with
      | some (p, k) => ppResult s k (rec p { s with os := (o.pp s.os n).2, factors := [] })
      | none =>
        if (o.prime (o.pp s.os n).2 n).1 = true then
          Res.ok ({ s with os := (o.prime (o.pp s.os n).2 n).2 }.push n)
        else compositePhase (guardRho o) rec n alg { s with os := (o.prime (o.pp s.os n).2 n).2 }) = _
    rw [hcp]
    rfl

/-- the guarded oracle of version 3: `rho` only inside `RhoGuard`, `qs64` / `squfof` only inside `Guard` -/
def guardOracle3 (o : Oracle σ) : Oracle σ := guardOracle (guardRho o)

theorem factorImpl_guard3_eq (o : Oracle σ) (hok : OracleOK (guardOracle3 o)) (alg : Algo) :
    ∀ (fuel n : Nat) (s : St σ), NoSmall n →
      factorImpl o fuel n alg s = factorImpl (guardOracle3 o) fuel n alg s := by
  intro fuel
  induction fuel with
  | zero => intro n s _; rw [factorImpl_zero, factorImpl_zero]
  | succ fuel ih =>
    intro n s hns
    rw [factorImpl_succ, factorImpl_succ, ← factorStep_guardRho o _ n hns alg s]
    exact factorStep_congr (o := guardRho o) hok hns (fun m hm s' => ih m s' (hns.dvd hm)) alg s

theorem factor_guard3_eq (o : Oracle σ) (hok : OracleOK (guardOracle3 o)) (fuel n : Nat) (alg : Algo)
    (os : σ) : factor o fuel n alg os = factor (guardOracle3 o) fuel n alg os := by
  rw [factor_eq, factor_eq]
  by_cases h0 : n = 0
  · rw [if_pos h0, if_pos h0]
  · rw [if_neg h0, if_neg h0]
    by_cases hb : bits n > 500
    · rw [if_pos hb, if_pos hb]
    · rw [if_neg hb, if_neg hb]
      unfold factorRun
      rw [factorImpl_guard3_eq o hok alg fuel _ _ (trialDiv_noSmall h0 (by omega))]
      rfl


theorem usesRho64_guardRho {o : Oracle σ} (h : UsesRho64 o) : UsesRho64 (guardRho o) := by
  intro t n as b hr
  change (if RhoGuard n then o.rho t n else (none, (o.rho t n).2)).1 = some (as, b) at hr
  by_cases hg : RhoGuard n
  · rw [if_pos hg] at hr; exact h t n as b hr
  · rw [if_neg hg] at hr; simp at hr

/-- **the contract at the call sites, from the models, version 3** -/
theorem oracleOK_guard3 {o : Oracle σ} (hpp : PerfectPowerModel o) (hfs : UsesFinalStep o)
    (hqs : Qs64Model o) (hrho : RhoModel o) (hpm1 : UsesPm1 o) (hecm : UsesEcmExits o)
    (hsq : SqufofModel Ymq.Squfof.exactSeed o) (hun : UsesUnexpectedFactor o) (hres : ResidualOK o) :
    OracleOK (guardOracle3 o) :=
  oracleOK_guard (o := guardRho o) Ymq.Squfof.exactSeed_ok
    (fun t n r h => usesPerfectPower_of_model' hpp t n r h) (fun t alg n ds h => hfs t alg n ds h)
    (fun t n a b h => hqs t n a b h) (usesRho64_guardRho (usesRho64_of_model' hrho))
    ⟨fun t n as b h => hpm1.1 t n as b h, fun t n as b h => hpm1.2 t n as b h⟩
    ⟨fun t n a b h => hecm.1 t n a b h, fun t n a b h => hecm.2.1 t n a b h,
      fun t n a b h => hecm.2.2 t n a b h⟩
    (fun t n a b h => hsq t n a b h) (fun t alg n d h => hun t alg n d h)
    ⟨fun s alg n d hn h => hres.unexpectedNotWhole s alg n d hn h⟩

/-- inside `guardOracle3` the `rho` field answers only on arguments where the model of
`pollard_rho::rho` returns normally (no panic site of `rho64` reached) -/
theorem guard3_rho_returns {o : Oracle σ} (t : σ) (n : Nat) (as : List Nat) (b : Nat)
    (h : ((guardOracle3 o).rho t n).1 = some (as, b)) : ∃ r, Ymq.PollardRho.rho n = some r := by
  change (if RhoGuard n then o.rho t n else (none, (o.rho t n).2)).1 = some (as, b) at h
  by_cases hg : RhoGuard n
  · exact Ymq.C03Rho.rho_no_panic_call_site n hg.1 hg.2
  · rw [if_neg hg] at h; simp at h

/-- on an outer `some` (the model returned normally) `.join` loses nothing -/
theorem join_eq_iff_of_some {α} {x : Option (Option α)} (hx : ∃ y, x = some y) (r : Option α) :
    x.join = r ↔ x = some r := by
  obtain ⟨y, rfl⟩ := hx
  simp only [Option.join_some, Option.some.injEq]

/-- the model of `pollard_rho::rho` returns normally (no panic site of `rho64`, no refusal of
`mg_2adic_inv`) on EVERY call-site argument -/
theorem rho_total_on_guard {n : Nat} (hg : RhoGuard n) : ∃ r, Ymq.PollardRho.rho n = some r :=
  Ymq.C03Rho.rho_no_panic_call_site n hg.1 hg.2

/-- on the call-site guard the `.join` of `RhoModel` is harmless: "panic read as `None`" cannot occur -/
theorem rho_join_iff_on_guard {n : Nat} (hg : RhoGuard n) (r : Option (List Nat × Nat)) :
    (Ymq.PollardRho.rho n).join = r ↔ Ymq.PollardRho.rho n = some r :=
  join_eq_iff_of_some (rho_total_on_guard hg) r

/-- below the size limit of `factor` the `.join` of `PerfectPowerModel` is harmless -/
theorem pp_join_iff_small {n : Nat} (hn : n < 2 ^ 1024) (r : Option (Nat × Nat)) :
    (Ymq.Arith.perfectPower n).join = r ↔ Ymq.Arith.perfectPower n = some r :=
  join_eq_iff_of_some (Ymq.C08.perfect_power_no_panic n hn) r

end Ymq.Factor
