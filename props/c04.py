"""C04 — results do not depend on thread count or thread interleaving."""
# SIZE AUDIT (quick tier), measured on cases('quick', Random(1)): bit length of n handed to threads_run (= factor() with a thread pool)
# sizes the code supports: factor() refuses above 500 bits; qs/mpqs/siqs take u64-sized n through the same Uint code (no u64 fast
# path in the sieves' drivers) and are practical to ~200 bits in a check; ecm / auto run on ZmodN of 1..8 words; the pool is used by
# qs, mpqs, siqs (workers adding to the shared relation store) and by ecm (curves in parallel; ecm_auto inside auto above 128 bits).
#   selector  quick max  thorough max  supported     boundary lengths reached by quick BEFORE this audit (count)
#   siqs      176        184           448           63 (9), 64 (3), 80 (9); 65: none; 128/129: none
#   mpqs      99         100           448           63 (9), 64 (3), 80 (9); 65: none
#   qs        96         96            400           63 (3), 64 (6), 80 (9); 65: none
#   auto      130        130           500           129 (6); nothing above 130: the threaded ecm_auto never ran on 3..8 words
#   ecm       100        100           500           none: the threaded curve loop only ever ran on 2-word moduli (70 / 100 bits)
# Added: boundary_cases (both tiers, first, own rng stream; ~50 runs, about 3 s per profile): siqs / mpqs / qs on balanced semiprimes
# of exactly 65 bits (first size that does not fit one word), siqs at 129; ecm with pools on 65, 129, 193, 257, 449, 500 bits and auto
# on 65, 257, 385, 500 bits (a 22..30-bit factor times a prime, so the run ends in milliseconds), each with its single-threaded baseline.
from vlib.pipeline import Case
from vlib import gen
from props import factor_common as fc
from props import sched_trace as strace

PID = "C04"
GEN = ["primality", "sched"]
LEAN = ["Ymq.Props.C04", "Ymq.Props.C04Relations", "Ymq.Props.C04Shape"]
AUDIT = "Ymq.Audit.C04"
THEOREMS = ["Ymq.C04.sched_inv", "Ymq.C04.sched_done_monotone", "Ymq.C04.sched_bounded_work", "Ymq.C04.sched_progress",
            "Ymq.C04.sched_relations_valid", "Ymq.C04.sched_no_panic",
            "Ymq.C04Shape.sched_inv_shape", "Ymq.C04Shape.sched_inv_any_programs", "Ymq.C04Shape.shape_adds_exactly", "Ymq.C04Shape.source_shapes_ok",
            "Ymq.C04Shape.qs_adds_exactly", "Ymq.C04Shape.qs_block_interleaving", "Ymq.C04Shape.ecm_flag_sound",
            "Ymq.C04Shape.source_named_ok", "Ymq.C04Shape.source_fork_ok", "Ymq.C04Shape.source_ecm_unit_ok",
            "Ymq.C04Shape.sched_inv_units"]
PROFILES = ["release", "chk"]
TIMEOUT = 180.0
RULE = ("boundary family first, in both tiers: pools on siqs/mpqs/qs at exactly 65 bits, siqs at 129, ecm at 65..500 and auto at 65..500 bits "
        "(small factor times a prime: every ZmodN word count), each against its single-threaded baseline; then: "
        "real runs of qs/mpqs/siqs/auto/ecm with thread pools of 1,2,3,4,8,16 threads and a seeded yield/sleep before every "
        "relation-store lock acquisition and completion check; inputs of 60-140 bits (small ones finish within a few polynomials, "
        "so workers contend on completion; larger ones use single and forced double large primes); the write-lock order of all "
        "adds is recorded; non-trivial = a run in which at least two threads added relations; distinct by request line")
MODELLED = ["second generation (same translator): classgroup() (two more shapes in the generated list), classical QS (ForkShape: two adding arms "
            "joined, then poll, completion decision, exit) and one ECM curve as a unit (entry test, report + flag); qs_adds_exactly / "
            "qs_block_interleaving (per large block pair exactly the two arms' relations, interleaved in lock order), ecm_flag_sound (flag set "
            "=> something reported by a curve of the input), source_named_ok / source_fork_ok / source_ecm_unit_ok (decide on the generated data); "
            "tie: op sched_trace (real qsieve / ecm / classgroup called directly, polls and adds-between-polls recorded) against op sched_model "
            "(the generated shapes run with the model's step function), with and without pools",
            "the worker programs of siqs() and mpqs(), thread-pool and sequential branch: the order of abort polls, flag reads, adds "
            "and completion decisions inside a work unit is read from src/siqs.rs and src/mpqs.rs by translate/sched.py on every run "
            "(Ymq/Gen/SchedShape.lean); sched_inv_shape holds for every shape, shape_adds_exactly / source_shapes_ok are obligations on "
            "the generated data",
            "the shared-store protocol (atomic adds, Relaxed completion flag, finite work lists) in Ymq/Model/Sched.lean, generic in "
            "the store; the relation store itself is C11's model (Ymq/Model/Relations.lean), replayed on the recorded history"]
UNMODELLED = ["RwLock, rayon and the memory model are trusted runtime: deadlock- and race-freedom of the primitives is not proved",
              "that a multi-threaded run is complete whenever the single-threaded one is depends on which relations are found "
              "(heuristic): explored by comparing with the known factorisation, not proved"]
HYPOTHESES = ["InputOK: the relations handed to add by the work units satisfy the callers' contract of C11 (true congruences with consistent cofactor data)"]
_baseline = {}
_stats = {"runs": 0, "multi_thread_runs": 0, "adds": 0, "stores": 0, "max_threads_seen": 0}


def _fork(rng, label):
    """own stream for the boundary family: depends on the run's seed, leaves the stream of the older families untouched"""
    import random
    return random.Random(f"{label}:{rng.getstate()[1][:4]}")


def _exact_product(rng, bits, pbits):
    """primes p (pbits bits) and q with p*q of EXACTLY `bits` bits"""
    while True:
        p, q = gen.rand_prime(rng, pbits), gen.rand_prime(rng, bits - pbits + rng.randrange(2))
        if p != q and (p * q).bit_length() == bits:
            return sorted([p, q])


# (selector, exact bit length of n, bit length of the smaller prime): inputs that finish in milliseconds at every size class
BOUNDARY_SPEC = [("siqs", 65, 32), ("mpqs", 65, 32), ("qs", 65, 32), ("siqs", 129, 64), ("auto", 65, 32),
                 ("ecm", 65, 24), ("ecm", 129, 30), ("ecm", 193, 30), ("ecm", 257, 30), ("ecm", 449, 22), ("ecm", 500, 22),
                 ("auto", 257, 30), ("auto", 385, 22), ("auto", 500, 22)]


def boundary_cases(rng, tier):
    """thread pools at the size classes the random families never reach (see SIZE AUDIT); same judgement as everywhere:
    the run with a pool must be complete whenever its single-threaded baseline is"""
    for alg, bits, pb in BOUNDARY_SPEC:
        fs = _exact_product(rng, bits, pb)
        n = fc.prod(fs)
        tag = ",".join(map(str, fs))
        yield Case(f"threads_run {n} {alg} 0 0", k=False, tag=tag)
        for t in (rng.sample([2, 3, 4], 1) + rng.sample([8, 16], 1)) if tier == "quick" else (1, 2, 3, 4, 8, 16):
            jit = rng.getrandbits(32) | 1 if alg != "mpqs" or t > 4 else 0      # (jitter on a 2-thread mpqs run costs a second)
            yield Case(f"threads_run {n} {alg} {t} {jit}", k=False, tag=tag)


def cases(tier, rng, extended=False):
    quick = tier == "quick"
    yield from boundary_cases(_fork(rng, "C04-boundary"), tier)
    # protocol traces of classical QS / ECM / class groups called directly, with and without pools (props/sched_trace.py):
    # the Lean model built from the generated shapes must reproduce every deterministic trace (K, through followup)
    yield from strace.cases(_fork(rng, "C04-trace"), tier, ["-", "0", "1"] if quick else ["-", "0", "1", "4"],
                            {"qs": [0, 2, 4], "ecm": [0, 2, 4], "cg": [0, 2, 3]}, "trace")
    reps = 4 if quick else 20
    if extended:
        reps *= 3
    for _ in range(reps):
        # 175-185 bits: the relation count sits close to the factor-base size when the completion test fires,
        # so the `gap`/`target` top-up logic (several completion checks by different workers) is exercised
        for alg, bitlist in (("siqs", [64, 80, 100, 120] + ([rng.choice([176, 180, 184])] if _ == 0 else [])),
                             ("mpqs", [64, 80, 100]), ("qs", [64, 80, 96]),
                             ("auto", [90, 130]), ("ecm", [70, 100])):
            for bits in bitlist:
                fs = [gen.rand_prime(rng, bits // 2), gen.rand_prime(rng, bits - bits // 2)]
                if rng.random() < 0.3:
                    fs = [gen.rand_prime(rng, bits // 3), gen.rand_prime(rng, bits // 3), gen.rand_prime(rng, bits - 2 * (bits // 3))]
                n = fc.prod(fs)
                tlist = rng.sample([1, 2, 3, 4, 8, 16], 2 if quick else 4)
                toks = []
                if alg in ("siqs", "mpqs", "qs") and rng.random() < 0.4:
                    toks.append(f"dbl={rng.choice([0, 1])}")
                if alg in ("siqs", "mpqs", "qs") and rng.random() < 0.3:
                    toks.append(f"lf={rng.choice([10, 50, 200])}")
                # baseline: the single-threaded run with the same preferences (no pool, no jitter)
                yield Case(" ".join([f"threads_run {n} {alg} 0 0"] + toks), k=False, tag=",".join(map(str, sorted(fs))),
                           profiles=["release"] if bits >= 170 else None)
                for t in tlist:
                    jit = rng.getrandbits(32) | 1 if rng.random() < 0.8 else 0
                    pr = None if rng.random() < 0.25 and bits < 170 else ["release"]
                    yield Case(" ".join([f"threads_run {n} {alg} {t} {jit}"] + toks), k=False,
                               tag=",".join(map(str, sorted(fs))), profiles=pr)


def split_answer(ans):
    parts = ans.split(" | ", 2)
    if len(parts) != 3:
        return ans.split(" ")[0], None, None
    return parts[0].strip(), parts[1].strip(), parts[2].strip()


def segments(hist):
    """split the recorded history into per-store segments: (n, fbsize, maxlarge, [add tokens], final dump or None)"""
    segs = []
    if hist in (None, "-"):
        return segs
    cur = None
    for tok in hist.split(";"):
        if tok.startswith("new|"):
            _, n, fb, ml = tok.split("|")
            cur = [n, fb, ml, [], None]
            segs.append(cur)
        elif tok.startswith("final|"):
            if cur is not None:
                cur[4] = tok[len("final|"):]
        elif cur is not None:
            cur[3].append(tok)
    return segs


def oracle(case, ans):
    if case.op == "sched_trace":
        return strace.oracle(case, ans)
    res, trace, hist = split_answer(ans)
    n = int(case.args[0])
    expected = sorted(int(x) for x in case.tag.split(","))
    _stats["runs"] += 1
    if not res.startswith("ok") and res != "failure":
        return f"multi-threaded run did not return cleanly: {res}"
    tids = set()
    for seg in segments(hist):
        _stats["stores"] += 1
        _stats["adds"] += len(seg[3])
        tids |= {t.split("|", 1)[0] for t in seg[3]}
    _stats["max_threads_seen"] = max(_stats["max_threads_seen"], len(tids))
    if len(tids) >= 2:
        _stats["multi_thread_runs"] += 1
    key = (case.args[0], case.args[1], " ".join(case.args[4:]))
    fs = None
    if res != "failure":
        body = res[2:].strip()
        fs = [] if body in ("-", "") else [int(x) for x in body.split(",")]
        if fc.prod(fs) != n or fs != sorted(fs) or any(f < 2 for f in fs):
            return f"invalid factorisation {fs}"
    complete = fs == expected
    if case.args[2] == "0":
        _baseline[key] = complete
        _stats["baseline_complete"] = _stats.get("baseline_complete", 0) + (1 if complete else 0)
        _stats["baseline_incomplete"] = _stats.get("baseline_incomplete", 0) + (0 if complete else 1)
        return None
    if _baseline.get(key, True) and not complete:
        return (f"run with {case.args[2]} threads returned {res[:80]} but the single-threaded run with the same "
                f"preferences is complete ({expected})")
    return None


def followup(case, ans):
    if case.op == "sched_trace":
        return strace.model_requests(case, ans)
    res, trace, hist = split_answer(ans)
    out = []
    if trace is not None and (res.startswith("ok") or res == "failure"):
        out.append((f"factor_replay {case.args[0]} {case.args[1]} {trace}", res))
    for seg in segments(hist):
        n, fb, ml, adds, final = seg
        if ml == "0" or not adds:
            continue            # dummy store of qsieve64 / nothing added
        # sequential replay of the linearised history: real RelationSet (harness) vs Lean model (driver)
        req = f"rs_history {n} {fb} {ml} {';'.join(adds)}"
        _final_by_req[req] = final
        out.append((req, None))
    return out


_final_by_req = {}
_lin = {"checked": 0, "no_final": 0}


def followup_oracle(case, line, ans):
    """linearizability on the real code: the final store of the concurrent run must equal the
    sequential replay (real RelationSet, one thread) of its write-lock-order history"""
    if not line.startswith("rs_history"):
        return None
    final = _final_by_req.get(line)
    if final is None:
        _lin["no_final"] += 1
        return None
    if " | " not in ans:
        return f"sequential replay of the recorded history failed: {ans[:120]}"
    tail = ans.split(" | ", 1)[1].strip()
    _lin["checked"] += 1
    if tail != final.strip():
        return ("final store of the concurrent run differs from the sequential replay of its lock-order history: "
                f"run={final[:160]} replay={tail[:160]}")
    if "panic@" in ans.split(" | ", 1)[0]:
        return "an add of the recorded history panics when replayed sequentially"
    return None


case_answers = {}


def klass(case, ans):
    if case.op == "sched_trace":
        return strace.klass(case, ans)
    res, trace, hist = split_answer(ans)
    case_answers[case.line] = ans
    tids = set()
    for seg in segments(hist):
        tids |= {t.split("|", 1)[0] for t in seg[3]}
    return f"{case.args[1]}/threads={case.args[2]}/jitter={'on' if case.args[3] != '0' else 'off'}/writers={min(len(tids), 4)}/{res.split(' ')[0]}"


def nontrivial(case, ans):
    if case.op == "sched_trace":
        return strace.nontrivial(case, ans)
    res, trace, hist = split_answer(ans)
    tids = set()
    for seg in segments(hist):
        tids |= {t.split("|", 1)[0] for t in seg[3]}
    return len(tids) >= 2


def extra_coverage():
    return {"threaded_runs": dict(_stats), "final_store_vs_sequential_replay": dict(_lin)}


CLAIM = ("Lean theorems over ALL schedules of the shared-store protocol (arbitrary interleaving of atomic adds, arbitrarily stale "
         "completion-flag reads): the store equals the sequential replay of the lock-order history, contains only relations the work "
         "units produce, keeps every add-preserved invariant (instantiated with C11's relation-store invariant), the flag is monotone, "
         "total work is bounded by the finite work lists and some worker can always progress. Tie to the code: real runs with 1-16 "
         "threads and seeded jitter record the write-lock order of all adds; the real final store must equal the sequential replay of "
         "that history by the real RelationSet, and C11's Lean model must agree with both. Completeness relative to the single-threaded "
         "run and freedom from deadlock in RwLock/rayon cannot be theorems: explored. PARTIAL.")
LEVEL_NOTE = ("Trusted: Lean kernel (+3 standard axioms); the protocol model is hand-written and tied by history replay; RwLock/rayon/"
              "memory model trusted; observed interleavings are a sample (seeded jitter), the theorem quantifies over all.")
TECHNIQUE = "Lean 4 proof over all schedules of a protocol model + lock-order history replay (real store vs sequential replay vs Lean model)"
