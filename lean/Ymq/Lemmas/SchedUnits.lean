/- Lemmas on the unit-level protocol model (Ymq/Model/SchedUnits.lean): C05. -/
import Ymq.Model.SchedUnits
import Ymq.Lemmas.SchedShape2
namespace Ymq.Sched
open Ymq.Gen.SchedShape
variable {ρ σ : Type}

theorem sum_map_set {α : Type} (f : α → Nat) : ∀ (l : List α) (i : Nat) (a x : α), l[i]? = some a →
    ((l.set i x).map f).sum + f a = (l.map f).sum + f x
  | [], i, a, x, h => by simp at h
  | y :: ys, 0, a, x, h => by
    simp only [List.getElem?_cons_zero, Option.some.injEq] at h; subst h
    simp only [List.set_cons_zero, List.map_cons, List.sum_cons]; omega
  | y :: ys, i + 1, a, x, h => by
    have := sum_map_set f ys i a x (by simpa using h)
    simp only [List.set_cons_succ, List.map_cons, List.sum_cons]; omega

theorem addsBefore_le (l : List (Act ρ)) : addsBefore l ≤ (pendingAdds l).length := by
  induction l with
  | nil => simp [addsBefore, pendingAdds]
  | cons a l ih => cases a <;> simp [addsBefore, pendingAdds] <;> omega

theorem pendingAdds_tail_le (a : Act ρ) (l : List (Act ρ)) : (pendingAdds l).length ≤ (pendingAdds (a :: l)).length := by
  cases a <;> simp [pendingAdds]

/-- every worker's current unit has at most `B` adds left; every unit still to do has at most `B` adds and none before its poll -/
def InvU (B : Nat) (c : UCfg ρ σ) : Prop :=
  ∀ w ∈ c.ws, (pendingAdds w.cur).length ≤ B ∧ ∀ u ∈ w.rest, addsBefore u = 0 ∧ (pendingAdds u).length ≤ B

def potU (c : UCfg ρ σ) : Nat := (c.ws.map (fun w => addsBefore w.cur)).sum

theorem invU_set (B : Nat) (c : UCfg ρ σ) (h : InvU B c) (w : Nat) (old new : UWorker ρ) (hw : c.ws[w]? = some old)
    (hcur : (pendingAdds new.cur).length ≤ B) (hrest : ∀ u ∈ new.rest, u ∈ old.rest)
    (c' : UCfg ρ σ) (hc' : c'.ws = c.ws.set w new) : InvU B c' := by
  intro x hx
  rw [hc'] at hx
  rcases List.mem_or_eq_of_mem_set hx with hx | hx
  · exact h x hx
  · subst hx
    exact ⟨hcur, fun u hu => (h old (List.mem_of_getElem? hw)).2 u (hrest u hu)⟩

theorem potU_set (c c' : UCfg ρ σ) (w : Nat) (old new : UWorker ρ) (hw : c.ws[w]? = some old)
    (hc' : c'.ws = c.ws.set w new) : potU c' + addsBefore old.cur = potU c + addsBefore new.cur := by
  unfold potU
  rw [hc']
  exact sum_map_set (fun w => addsBefore w.cur) c.ws w old new hw

def StepOk (B : Nat) (c c' : UCfg ρ σ) : Prop :=
  InvU B c' ∧ c'.log.length + potU c' ≤ c.log.length + potU c ∧ c'.ws.length = c.ws.length

/-- one step under an abort request: the log grows only by what the potential pays for -/
theorem stepU_abort (leaves : Bool) (add : σ → ρ → σ) (enough : σ → Bool) (B : Nat) (c : UCfg ρ σ) (h : InvU B c)
    (w : Nat) (st : Bool) : StepOk B c (stepU leaves add enough c w st true) := by
  unfold StepOk stepU
  split
  · exact ⟨h, Nat.le_refl _, rfl⟩
  · exact ⟨h, Nat.le_refl _, rfl⟩
  · rename_i u us hw
    have hu := (h _ (List.mem_of_getElem? hw)).2 u List.mem_cons_self
    refine ⟨invU_set B c h w _ ⟨u, us⟩ hw hu.2 (fun x hx => List.mem_cons_of_mem _ hx) _ rfl, ?_, by simp⟩
    have := potU_set c { c with ws := c.ws.set w ⟨u, us⟩ } w _ ⟨u, us⟩ hw rfl
    simp only [addsBefore, hu.1] at this
    simp only; omega
  · rename_i l rest hw
    simp only [if_true]
    cases leaves
    · refine ⟨invU_set B c h w _ ⟨[], rest⟩ hw (by simp [pendingAdds]) (fun x hx => hx) _ (by simp), ?_, by simp⟩
      have := potU_set c { c with ws := c.ws.set w ⟨[], rest⟩ } w _ ⟨[], rest⟩ hw rfl
      simp only [addsBefore] at this
      simp; omega
    · refine ⟨invU_set B c h w _ ⟨[], []⟩ hw (by simp [pendingAdds]) (fun x hx => by simp at hx) _ (by simp), ?_, by simp⟩
      have := potU_set c { c with ws := c.ws.set w ⟨[], []⟩ } w _ ⟨[], []⟩ hw rfl
      simp only [addsBefore] at this
      simp; omega
  · rename_i l rest hw
    have hcur := (h _ (List.mem_of_getElem? hw)).1
    split
    · refine ⟨invU_set B c h w _ ⟨[], []⟩ hw (by simp [pendingAdds]) (fun x hx => by simp at hx) _ rfl, ?_, by simp⟩
      have := potU_set c { c with ws := c.ws.set w ⟨[], []⟩ } w _ ⟨[], []⟩ hw rfl
      simp only [addsBefore] at this
      simp only; omega
    · refine ⟨invU_set B c h w _ ⟨l, rest⟩ hw (Nat.le_trans (pendingAdds_tail_le _ l) hcur) (fun x hx => hx) _ rfl, ?_, by simp⟩
      have := potU_set c { c with ws := c.ws.set w ⟨l, rest⟩ } w _ ⟨l, rest⟩ hw rfl
      simp only [addsBefore] at this
      simp only; omega
  · rename_i r l rest hw
    have hcur := (h _ (List.mem_of_getElem? hw)).1
    refine ⟨invU_set B c h w _ ⟨l, rest⟩ hw (Nat.le_trans (pendingAdds_tail_le _ l) hcur) (fun x hx => hx) _ rfl, ?_, by simp⟩
    have := potU_set c { c with store := add c.store r, log := c.log ++ [r], ws := c.ws.set w ⟨l, rest⟩ } w _ ⟨l, rest⟩ hw rfl
    simp only [addsBefore] at this
    simp only [List.length_append, List.length_singleton]; omega
  · rename_i l rest hw
    have hcur := (h _ (List.mem_of_getElem? hw)).1
    refine ⟨invU_set B c h w _ ⟨l, rest⟩ hw (Nat.le_trans (pendingAdds_tail_le _ l) hcur) (fun x hx => hx) _ rfl, ?_, by simp⟩
    have := potU_set c { c with done := c.done || enough c.store, ws := c.ws.set w ⟨l, rest⟩ } w _ ⟨l, rest⟩ hw rfl
    simp only [addsBefore] at this
    simp only; omega


theorem runU_abort (leaves : Bool) (add : σ → ρ → σ) (enough : σ → Bool) (B : Nat) :
    ∀ (sched : List (Nat × Bool × Bool)) (c : UCfg ρ σ), InvU B c → allAbort sched →
      StepOk B c (runU leaves add enough c sched) := by
  intro sched
  induction sched with
  | nil => intro c h _; exact ⟨h, Nat.le_refl _, rfl⟩
  | cons a sched ih =>
    intro c h hab
    obtain ⟨w, st, ab⟩ := a
    obtain ⟨hab1, hab2⟩ := hab
    subst hab1
    obtain ⟨s1, s2, s3⟩ := stepU_abort leaves add enough B c h w st
    obtain ⟨r1, r2, r3⟩ := ih _ s1 hab2
    exact ⟨r1, by simp only [runU]; omega, by simp only [runU]; omega⟩

/-- the invariant holds along EVERY schedule (whatever the abort answers) -/
theorem stepU_inv (leaves : Bool) (add : σ → ρ → σ) (enough : σ → Bool) (B : Nat) (c : UCfg ρ σ) (h : InvU B c)
    (w : Nat) (st ab : Bool) :
    InvU B (stepU leaves add enough c w st ab) ∧ (stepU leaves add enough c w st ab).ws.length = c.ws.length := by
  cases ab
  · unfold stepU
    split
    · exact ⟨h, rfl⟩
    · exact ⟨h, rfl⟩
    · rename_i u us hw
      have hu := (h _ (List.mem_of_getElem? hw)).2 u List.mem_cons_self
      exact ⟨invU_set B c h w _ ⟨u, us⟩ hw hu.2 (fun x hx => List.mem_cons_of_mem _ hx) _ rfl, by simp⟩
    · rename_i l rest hw
      have hcur := (h _ (List.mem_of_getElem? hw)).1
      simp only [Bool.false_eq_true, if_false]
      split
      · exact ⟨invU_set B c h w _ ⟨[], []⟩ hw (by simp [pendingAdds]) (fun x hx => by simp at hx) _ rfl, by simp⟩
      · exact ⟨invU_set B c h w _ ⟨l, rest⟩ hw (Nat.le_trans (pendingAdds_tail_le _ l) hcur) (fun x hx => hx) _ rfl, by simp⟩
    · rename_i l rest hw
      have hcur := (h _ (List.mem_of_getElem? hw)).1
      split
      · exact ⟨invU_set B c h w _ ⟨[], []⟩ hw (by simp [pendingAdds]) (fun x hx => by simp at hx) _ rfl, by simp⟩
      · exact ⟨invU_set B c h w _ ⟨l, rest⟩ hw (Nat.le_trans (pendingAdds_tail_le _ l) hcur) (fun x hx => hx) _ rfl, by simp⟩
    · rename_i r l rest hw
      have hcur := (h _ (List.mem_of_getElem? hw)).1
      exact ⟨invU_set B c h w _ ⟨l, rest⟩ hw (Nat.le_trans (pendingAdds_tail_le _ l) hcur) (fun x hx => hx) _ rfl, by simp⟩
    · rename_i l rest hw
      have hcur := (h _ (List.mem_of_getElem? hw)).1
      exact ⟨invU_set B c h w _ ⟨l, rest⟩ hw (Nat.le_trans (pendingAdds_tail_le _ l) hcur) (fun x hx => hx) _ rfl, by simp⟩
  · obtain ⟨s1, _, s3⟩ := stepU_abort leaves add enough B c h w st
    exact ⟨s1, s3⟩

theorem runU_inv (leaves : Bool) (add : σ → ρ → σ) (enough : σ → Bool) (B : Nat) :
    ∀ (sched : List (Nat × Bool × Bool)) (c : UCfg ρ σ), InvU B c →
      InvU B (runU leaves add enough c sched) ∧ (runU leaves add enough c sched).ws.length = c.ws.length := by
  intro sched
  induction sched with
  | nil => intro c h; exact ⟨h, rfl⟩
  | cons a sched ih =>
    intro c h
    obtain ⟨w, st, ab⟩ := a
    obtain ⟨s1, s3⟩ := stepU_inv leaves add enough B c h w st ab
    obtain ⟨r1, r3⟩ := ih _ s1
    exact ⟨r1, by simp only [runU]; omega⟩

/-- a unit whose `pre` polls performs no add before that poll (the `pre` of a unit has no polynomial at hand) -/
theorem addsBefore_expand_nil (ks : List K) (tail : List (Act ρ)) (h : ks.contains K.poll = true) :
    addsBefore (expand ks ([] : List ρ) ++ tail) = 0 := by
  induction ks with
  | nil => simp at h
  | cons k ks ih =>
    unfold expand at *
    rw [List.flatMap_cons, List.append_assoc]
    cases k with
    | poll => simp [expandK, addsBefore]
    | check =>
      have := ih (by simpa using h)
      simpa [expandK, addsBefore] using this
    | add =>
      have := ih (by simpa using h)
      simpa [expandK, addsBefore] using this
    | publish =>
      have := ih (by simpa using h)
      simpa [expandK, addsBefore] using this

theorem invU_init (sh : Shape) (hp : sh.pre.contains K.poll = true) (s0 : σ) (progs : List (List (List (List ρ)))) (B : Nat)
    (hB : ∀ prog ∈ progs, ∀ u ∈ prog, (pendingAdds (compileUnit sh u)).length ≤ B) :
    InvU B (initU sh s0 progs) := by
  intro w hw
  simp only [initU, List.mem_map] at hw
  obtain ⟨prog, hprog, rfl⟩ := hw
  refine ⟨by simp [pendingAdds], ?_⟩
  intro u hu
  obtain ⟨v, hv, rfl⟩ := List.mem_map.mp hu
  exact ⟨by unfold compileUnit; exact addsBefore_expand_nil _ _ hp, hB prog hprog v hv⟩

theorem potU_le (B : Nat) (c : UCfg ρ σ) (h : InvU B c) : potU c ≤ c.ws.length * B := by
  unfold potU
  apply sum_map_le_length_mul
  intro w hw
  exact Nat.le_trans (addsBefore_le _) (h w hw).1

/-- a property of workers that survives performing an action, taking the next unit and leaving a unit / the loop holds for
every worker after any step -/
theorem stepU_all (Q : UWorker ρ → Prop) (htail : ∀ a l rest, Q ⟨a :: l, rest⟩ → Q ⟨l, rest⟩)
    (hload : ∀ u us, Q ⟨[], u :: us⟩ → Q ⟨u, us⟩) (hdrop : ∀ cur rest, Q ⟨cur, rest⟩ → Q ⟨[], rest⟩) (hnil : Q ⟨[], []⟩)
    (leaves : Bool) (add : σ → ρ → σ) (enough : σ → Bool) (c : UCfg ρ σ) (h : ∀ w ∈ c.ws, Q w) (w : Nat) (st ab : Bool) :
    ∀ x ∈ (stepU leaves add enough c w st ab).ws, Q x := by
  have key : ∀ (old new : UWorker ρ), c.ws[w]? = some old → Q new → ∀ x ∈ c.ws.set w new, Q x := by
    intro old new _ hn x hx
    rcases List.mem_or_eq_of_mem_set hx with hx | hx
    · exact h x hx
    · subst hx; exact hn
  unfold stepU
  split
  · exact h
  · exact h
  · rename_i u us hw
    exact key _ _ hw (hload u us (h _ (List.mem_of_getElem? hw)))
  · rename_i l rest hw
    have hq := h _ (List.mem_of_getElem? hw)
    split
    · cases leaves
      · exact key _ _ hw (hdrop _ _ hq)
      · exact key _ _ hw hnil
    · split
      · exact key _ _ hw hnil
      · exact key _ _ hw (htail _ _ _ hq)
  · rename_i l rest hw
    have hq := h _ (List.mem_of_getElem? hw)
    split
    · exact key _ _ hw hnil
    · exact key _ _ hw (htail _ _ _ hq)
  · rename_i r l rest hw
    exact key _ _ hw (htail _ _ _ (h _ (List.mem_of_getElem? hw)))
  · rename_i l rest hw
    exact key _ _ hw (htail _ _ _ (h _ (List.mem_of_getElem? hw)))

/-- the store stays the replay of the log; what enters the log was pending in some worker's current unit -/
theorem stepU_log (leaves : Bool) (add : σ → ρ → σ) (enough : σ → Bool) (s0 : σ) (c : UCfg ρ σ)
    (h : c.store = c.log.foldl add s0) (w : Nat) (st ab : Bool) :
    (stepU leaves add enough c w st ab).store = (stepU leaves add enough c w st ab).log.foldl add s0 ∧
    ∀ r ∈ (stepU leaves add enough c w st ab).log, r ∈ c.log ∨ ∃ x ∈ c.ws, r ∈ pendingAdds x.cur := by
  unfold stepU
  split
  · exact ⟨h, fun r hr => Or.inl hr⟩
  · exact ⟨h, fun r hr => Or.inl hr⟩
  · exact ⟨h, fun r hr => Or.inl hr⟩
  · split
    · exact ⟨h, fun r hr => Or.inl hr⟩
    · split <;> exact ⟨h, fun r hr => Or.inl hr⟩
  · split <;> exact ⟨h, fun r hr => Or.inl hr⟩
  · rename_i r l rest hw
    refine ⟨by simp [List.foldl_append, h], ?_⟩
    intro x hx
    simp only [List.mem_append, List.mem_singleton] at hx
    rcases hx with hx | hx
    · exact Or.inl hx
    · subst hx
      exact Or.inr ⟨_, List.mem_of_getElem? hw, by simp [pendingAdds]⟩
  · exact ⟨h, fun r hr => Or.inl hr⟩

/-- everything a worker may still add has the property `G` -/
def PendU (G : ρ → Prop) (x : UWorker ρ) : Prop :=
  (∀ r ∈ pendingAdds x.cur, G r) ∧ ∀ u ∈ x.rest, ∀ r ∈ pendingAdds u, G r

theorem runU_spec (leaves : Bool) (add : σ → ρ → σ) (enough : σ → Bool) (s0 : σ) (G : ρ → Prop) :
    ∀ (sched : List (Nat × Bool × Bool)) (c : UCfg ρ σ), c.store = c.log.foldl add s0 → (∀ r ∈ c.log, G r) →
      (∀ x ∈ c.ws, PendU G x) →
      let c' := runU leaves add enough c sched
      c'.store = c'.log.foldl add s0 ∧ ∀ r ∈ c'.log, G r := by
  intro sched
  induction sched with
  | nil => intro c h1 h2 _; exact ⟨h1, h2⟩
  | cons a sched ih =>
    intro c h1 h2 h3
    obtain ⟨w, st, ab⟩ := a
    obtain ⟨l1, l2⟩ := stepU_log leaves add enough s0 c h1 w st ab
    have h3' := stepU_all (PendU G)
      (by
        intro a l rest hq
        refine ⟨fun r hr => hq.1 r ?_, hq.2⟩
        cases a <;> simp [pendingAdds, hr])
      (by
        intro u us hq
        exact ⟨fun r hr => hq.2 u List.mem_cons_self r hr, fun v hv => hq.2 v (List.mem_cons_of_mem _ hv)⟩)
      (by intro cur rest hq; exact ⟨by simp [pendingAdds], hq.2⟩)
      ⟨by simp [pendingAdds], by simp⟩ leaves add enough c h3 w st ab
    refine ih _ l1 ?_ h3'
    intro r hr
    rcases l2 r hr with hr | ⟨x, hx, hrx⟩
    · exact h2 r hr
    · exact (h3 x hx).1 r hrx

theorem foldl_inv (add : σ → ρ → σ) (Inv : σ → Prop) (Good : ρ → Prop) (hadd : ∀ s r, Inv s → Good r → Inv (add s r)) :
    ∀ (l : List ρ) (s : σ), Inv s → (∀ r ∈ l, Good r) → Inv (l.foldl add s) := by
  intro l
  induction l with
  | nil => intro s h _; exact h
  | cons x xs ih =>
    intro s h hg
    exact ih _ (hadd s x h (hg x List.mem_cons_self)) (fun r hr => hg r (List.mem_cons_of_mem _ hr))

end Ymq.Sched
