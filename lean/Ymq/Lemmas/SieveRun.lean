/-
C13 helper lemmas: runs of blocks, factor bases built from a sorted list of primes, sequences of
arbitrary `add`s.
-/
import Ymq.Lemmas.SieveSmooths

namespace Ymq.Sieve

theorem runBlocks_spec {fb : FB} {nS : Nat} {rS1 rS2 rL1 rL2 : Array Nat} (hfb : fb.WF)
    (hnS : fb.ibl[16]? = some nS) :
    ∀ (b B : Nat) (s s' : State), Inv fb nS rS1 rS2 rL1 rL2 B s → runBlocks fb b s = some s' →
      Inv fb nS rS1 rS2 rL1 rL2 (B + b) s' ∧ s'.blkNo = s.blkNo + b ∧ s'.nblocks = s.nblocks ∧
        s'.offset = s.offset + b * BLOCK := by
  intro b
  induction b with
  | zero =>
    intro B s s' hinv h
    simp only [runBlocks, Option.some.injEq] at h
    subst h
    exact ⟨hinv, rfl, rfl, by simp⟩
  | succ b ih =>
    intro B s s' hinv h
    simp only [runBlocks, Option.bind_eq_bind, Option.bind_eq_some_iff] at h
    obtain ⟨s1, h1, s2, h2, h3⟩ := h
    obtain ⟨i1, b1, n1, o1⟩ := ih B s s1 hinv h1
    obtain ⟨i2, _, b2, n2, o2, _, _, _⟩ := sieveBlock_spec hfb hnS i1 h2
    obtain ⟨i3, b3, n3, o3⟩ := nextBlock_spec i2 h3
    refine ⟨by rw [← Nat.add_assoc]; exact i3, by omega, by rw [n3, n2, n1], ?_⟩
    rw [o3, o2, o1]; push_cast; ring

/-! ### factor bases from a sorted list of primes -/

theorem countP_sorted (P : Nat → Bool) (hdc : ∀ a b, a ≤ b → P b = true → P a = true) :
    ∀ (L : List Nat), L.Pairwise (· < ·) → ∀ (i : Nat) (hi : i < L.length), (i < L.countP P ↔ P L[i] = true) := by
  intro L
  induction L with
  | nil => intro _ i hi; simp at hi
  | cons a L ih =>
    intro hs i hi
    rw [List.pairwise_cons] at hs
    by_cases hpa : P a = true
    · rw [List.countP_cons_of_pos hpa]
      cases i with
      | zero => simp [hpa]
      | succ j =>
        simp only [List.length_cons, Nat.add_lt_add_iff_right] at hi
        simp only [List.getElem_cons_succ, Nat.add_lt_add_iff_right]
        exact ih hs.2 j hi
    · rw [List.countP_cons_of_neg hpa]
      have hall : ∀ b ∈ L, ¬ P b = true := fun b hb hpb => hpa (hdc a b (le_of_lt (hs.1 b hb)) hpb)
      have h0 : L.countP P = 0 := by
        rw [List.countP_eq_zero]; exact hall
      rw [h0]
      cases i with
      | zero => simp [hpa]
      | succ j =>
        simp only [List.length_cons, Nat.add_lt_add_iff_right] at hi
        simp only [List.getElem_cons_succ]
        constructor
        · intro h; omega
        · intro h; exact absurd h (hall _ (List.getElem_mem hi))

/-- the factor bases of the correspondence check (and of `FBase::new`, see the `sv_fb` stream):
a strictly increasing array of numbers in `[2, 2^24)` with the documented `idx_by_log`. -/
theorem FB.ofPrimes_WF (ps : Array Nat) (hs : ps.toList.Pairwise (· < ·))
    (hr : ∀ p ∈ ps.toList, 2 ≤ p ∧ p < 2 ^ 24) : (FB.ofPrimes ps).WF := by
  have hibl : ∀ (l v : Nat), (FB.ofPrimes ps).ibl[l]? = some v →
      l < 26 ∧ v = ps.toList.countP (fun p => decide (bitlen p < l)) := by
    intro l v h
    simp only [FB.ofPrimes, mkIbl, Array.getElem?_map, Option.map_eq_some_iff] at h
    obtain ⟨l', hl', rfl⟩ := h
    have := Array.getElem?_eq_some_iff.1 hl'
    obtain ⟨hlt, he⟩ := this
    simp only [Array.size_range] at hlt
    simp only [Array.getElem_range] at he
    subst he
    exact ⟨hlt, rfl⟩
  have hget : ∀ (i p : Nat), (FB.ofPrimes ps).primes[i]? = some p → ∃ hi : i < ps.toList.length, ps.toList[i] = p := by
    intro i p h
    simp only [FB.ofPrimes] at h
    obtain ⟨hi, he⟩ := Array.getElem?_eq_some_iff.1 h
    exact ⟨by simpa using hi, by simpa using he⟩
  refine { ibl_spec := ?_, ibl_some := ?_, ibl_le := ?_, ge2 := ?_, lt24 := ?_, sorted := ?_ }
  · intro l i v p hv hp
    obtain ⟨_, rfl⟩ := hibl l v hv
    obtain ⟨hi, rfl⟩ := hget i p hp
    rw [countP_sorted (fun p => decide (bitlen p < l))
      (fun a b hab hb => by
        simp only [decide_eq_true_eq] at hb ⊢
        exact lt_of_le_of_lt (bitlen_mono hab) hb) ps.toList hs i hi]
    simp
  · intro l hl
    refine ⟨ps.toList.countP (fun p => decide (bitlen p < l)), ?_⟩
    simp only [FB.ofPrimes, mkIbl, Array.getElem?_map]
    rw [Array.getElem?_eq_getElem (by simpa using hl)]
    simp
  · intro l v hv
    obtain ⟨_, rfl⟩ := hibl l v hv
    simpa [FB.ofPrimes] using List.countP_le_length (l := ps.toList) (p := fun p => decide (bitlen p < l))
  · intro i p hp
    obtain ⟨hi, rfl⟩ := hget i p hp
    exact (hr _ (List.getElem_mem hi)).1
  · intro i p hp
    obtain ⟨hi, rfl⟩ := hget i p hp
    exact (hr _ (List.getElem_mem hi)).2
  · intro i j p q hij hp hq
    obtain ⟨hi, rfl⟩ := hget i p hp
    obtain ⟨hj, rfl⟩ := hget j q hq
    exact List.pairwise_iff_getElem.1 hs i j hi hj hij

/-! ### arbitrary sequences of adds -/

theorem Table.foldl_pairs_rec :
    ∀ (adds : List (Nat × Nat)) (t t' : Table), t.WF →
      adds.foldlM (fun t a => t.add a.1 a.2) t = some t' →
      Table.Rec t t' (fun a => a ∈ adds) := by
  intro adds
  induction adds with
  | nil =>
    intro t t' hwf h
    simp at h; subst h
    exact (Table.Rec.refl t hwf).mono (by simp)
  | cons x xs ih =>
    intro t t' hwf h
    rw [List.foldlM_cons] at h
    simp only [bind, Option.bind_eq_some_iff] at h
    obtain ⟨t1, h1, h2⟩ := h
    have r1 := Table.add_rec hwf h1
    have r2 := ih t1 t' r1.1 h2
    refine (r1.trans r2).mono ?_
    intro a ha
    rcases List.mem_cons.1 ha with rfl | ha
    · left; rfl
    · right; exact ha

theorem Table.foldl_pairs_sound :
    ∀ (adds : List (Nat × Nat)) (t t' : Table), t.WF →
      adds.foldlM (fun t a => t.add a.1 a.2) t = some t' →
      ∀ o p8, t'.Has o p8 → t.Has o p8 ∨ ∃ a ∈ adds, o % BLOCK = a.1 % BLOCK ∧ p8 = a.2 % 256 := by
  intro adds
  induction adds with
  | nil => intro t t' _ h o p8 hh; simp at h; subst h; exact Or.inl hh
  | cons x xs ih =>
    intro t t' hwf h o p8 hh
    rw [List.foldlM_cons] at h
    simp only [bind, Option.bind_eq_some_iff] at h
    obtain ⟨t1, h1, h2⟩ := h
    obtain ⟨w, _, s, _⟩ := Table.add_spec hwf h1
    rcases ih t1 t' w h2 o p8 hh with h3 | ⟨y, hy, hy2⟩
    · rcases s o p8 h3 with h4 | ⟨h4, h5⟩
      · exact Or.inl h4
      · exact Or.inr ⟨x, List.mem_cons_self, h4, h5⟩
    · exact Or.inr ⟨y, List.mem_cons_of_mem _ hy, hy2⟩

theorem LTable.foldl_pairs_spec :
    ∀ (adds : List (Nat × Nat)) (t t' : LTable), t.WF →
      adds.foldlM (fun t a => t.add a.1 a.2) t = some t' →
      t'.WF ∧ (∀ o p, t.Has o p → t'.Has o p) ∧ (∀ a ∈ adds, t'.Has a.1 (a.2 % 65536)) ∧
      (∀ o p, t'.Has o p → t.Has o p ∨ ∃ a ∈ adds, o % BLOCK = a.1 % BLOCK ∧ p = a.2 % 65536) := by
  intro adds
  induction adds with
  | nil =>
    intro t t' hwf h
    simp at h; subst h
    exact ⟨hwf, fun _ _ h => h, by simp, fun _ _ h => Or.inl h⟩
  | cons x xs ih =>
    intro t t' hwf h
    rw [List.foldlM_cons] at h
    simp only [bind, Option.bind_eq_some_iff] at h
    obtain ⟨t1, h1, h2⟩ := h
    obtain ⟨w1, m1, n1, s1⟩ := LTable.add_spec hwf h1
    obtain ⟨w2, m2, n2, s2⟩ := ih t1 t' w1 h2
    refine ⟨w2, fun o p h => m2 o p (m1 o p h), ?_, ?_⟩
    · intro y hy
      rcases List.mem_cons.1 hy with rfl | hy
      · exact m2 _ _ n1
      · exact n2 y hy
    · intro o p hh
      rcases s2 o p hh with h3 | ⟨y, hy, hy2⟩
      · rcases s1 o p h3 with h4 | ⟨h4, h5⟩
        · exact Or.inl h4
        · exact Or.inr ⟨x, List.mem_cons_self, h4, h5⟩
      · exact Or.inr ⟨y, List.mem_cons_of_mem _ hy, hy2⟩

/-- after `reset` every lookup is empty, whatever the arrays contain. -/
theorem Table.reset_lookup (t : Table) (base r : Nat) (l : List Nat) (h : t.reset.lookup base r = some l) :
    l = [] := by
  unfold Table.lookup at h
  simp only [Option.bind_eq_bind, Option.bind_eq_some_iff, Option.some.injEq] at h
  obtain ⟨bk, hbk, rfl⟩ := h
  have hbk' : bk = [] := by
    unfold Table.bucket at hbk
    simp only [Table.reset, Array.getElem?_replicate] at hbk
    split at hbk
    · simp at hbk
    · rename_i blen hbl
      split at hbl
      · have := Option.some.inj hbl; subst this
        simpa using hbk.symm
      · simp at hbl
  subst hbk'
  simp [Table.ovList, Table.reset]

theorem LTable.reset_lookup (t : LTable) (blkNo r : Nat) (l : List Nat) (h : t.reset.lookup blkNo r = some l) :
    l = [] := by
  unfold LTable.lookup at h
  simp only [Option.bind_eq_bind, Option.bind_eq_some_iff, Option.some.injEq] at h
  obtain ⟨bk, hbk, rfl⟩ := h
  have hbk' : bk = [] := by
    unfold LTable.bucket at hbk
    simp only [LTable.reset, Array.getElem?_replicate] at hbk
    split at hbk
    · simp at hbk
    · rename_i len hbl
      split at hbl
      · have := Option.some.inj hbl; subst this
        simpa using hbk.symm
      · simp at hbl
  subst hbk'
  simp [LTable.reset]

/-- the signed form of the cursor invariant: `c = (o - b·32768) mod p`. -/
theorem cursor_int {c b p o : Nat} (hc : c < p) (h : (c + b * BLOCK) % p = o) :
    (c : Int) = ((o : Int) - (b : Int) * 32768) % (p : Int) := by
  have hdm := Nat.div_add_mod (c + b * BLOCK) p
  rw [h] at hdm
  have e : (o : Int) - (b : Int) * 32768 = (c : Int) + (p : Int) * (-(((c + b * BLOCK) / p : Nat) : Int)) := by
    have : ((p * ((c + b * BLOCK) / p) + o : Nat) : Int) = ((c + b * BLOCK : Nat) : Int) := by rw [hdm]
    simp only [BLOCK] at this ⊢
    push_cast at this ⊢
    linarith
  rw [e, Int.add_mul_emod_self_left]
  exact (Int.emod_eq_of_lt (by omega) (by omega)).symm

end Ymq.Sieve
