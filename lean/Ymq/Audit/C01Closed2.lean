import Ymq.Props.C01Closed2

#print axioms Ymq.C01.oracleOK_of_models_v2
#print axioms Ymq.C01.factor_exact_closed_v2
#print axioms Ymq.C01.factor_total_closed_v2
#print axioms Ymq.C01.trial_divided_noSmall
#print axioms Ymq.C01.squfofModel_exactSeed
#print axioms Ymq.C01.qs64_model_violates_oracleOK_clause
