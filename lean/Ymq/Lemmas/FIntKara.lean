/-
C10: the Karatsuba routine inside `FInt::mul` (model `kmul`, `mulBasicRows`, `macRowChk`, `midCarry`,
`karaCombine` in Ymq/Model/FInt.lean) computes the exact product of the word vectors and reaches no
panic site (`kmul_spec`), on the domain `kOk` (every power of two, every length `≤ 16`, …).
-/
import Ymq.Lemmas.FIntBasic
import Mathlib.Tactic.Ring
import Mathlib.Tactic.Linarith
import Mathlib.Tactic.NormNum

namespace Ymq.FInt
open Ymq.Limbs

theorem W_val : W = 18446744073709551616 := rfl

/-- on words, no overflow check of the inner loop of `mulbasic` fires and the row is `macRow` -/
theorem macRowChk_eq (a : Nat) (ha : a < W) : ∀ (ys zs : List Nat) (c : Nat), Wf ys → Wf zs → c < W →
    macRowChk a ys zs c = some (macRow a ys zs c) := by
  intro ys
  induction ys with
  | nil => intro zs c _ _ _; cases zs <;> simp [macRowChk, macRow]
  | cons y ys ih =>
    intro zs c hy hz hc
    cases zs with
    | nil => simp [macRowChk, macRow]
    | cons z zs =>
      obtain ⟨hy0, hys⟩ := Wf_cons.1 hy
      obtain ⟨hz0, hzs⟩ := Wf_cons.1 hz
      have hay : a * y ≤ (W - 1) * (W - 1) := Nat.mul_le_mul (by omega) (by omega)
      rw [W_val] at ha hy0 hz0 hc hay
      have hay' : a * y ≤ 340282366920938463426481119284349108225 := by norm_num at hay; exact hay
      unfold macRowChk macRow
      simp only
      generalize a * y = P at hay' ⊢
      have h128 : (2 : Nat) ^ 128 = 340282366920938463463374607431768211456 := by norm_num
      rw [if_neg (by rw [h128]; omega)]
      have hcarry : (P + c) / W + (z + (P + c) % W) / W = (P + z + c) / W := by rw [W_val]; omega
      have hlow : (z + (P + c) % W) % W = (P + z + c) % W := by rw [W_val]; omega
      have hclt : (P + z + c) / W < W := by rw [W_val]; omega
      rw [hcarry, hlow, if_neg (by omega), ih zs _ hys hzs hclt]

theorem zeros_drop (k j : Nat) : (zeros k).drop j = zeros (k - j) := by
  unfold zeros; simp

theorem val_zeros_append (k : Nat) (l : List Nat) : val (zeros k ++ l) = W ^ k * val l := by
  rw [val_append, val_zeros, zeros_length, Nat.zero_add]

/-- the rows of `mulbasic` from row `i` on add `W^i·ps·q` to `z`, whose words from `i + |q|` on are still zero -/
theorem mulBasicRows_spec : ∀ (ps q : List Nat) (i : Nat) (z : List Nat), Wf ps → Wf q → Wf z →
    i + ps.length + q.length ≤ z.length → z.drop (i + q.length) = zeros (z.length - (i + q.length)) →
    ∃ z', mulBasicRows ps q i z = some z' ∧ z'.length = z.length ∧ Wf z' ∧
      val z' = val z + W ^ i * (val ps * val q) := by
  intro ps
  induction ps with
  | nil => intro q i z _ _ hz _ _; exact ⟨z, rfl, rfl, hz, by simp [val]⟩
  | cons a ps ih =>
    intro q i z hp hq hz hlen hzero
    obtain ⟨ha, hps⟩ := Wf_cons.1 hp
    simp only [List.length_cons] at hlen
    unfold mulBasicRows
    rw [if_neg (by omega)]
    set seg := (z.drop i).take q.length with hseg
    have lseg : seg.length = q.length := by rw [hseg, List.length_take, List.length_drop]; omega
    have wseg : Wf seg := Wf_take (Wf_drop hz i) _
    rw [macRowChk_eq a ha q seg 0 hq wseg W_pos]
    simp only
    obtain ⟨m1, m2, m3⟩ := macRow_spec a q seg 0 lseg.symm
    set r := (macRow a q seg 0).1 with hr
    set c := (macRow a q seg 0).2 with hc
    -- the carry is a word
    have hcW : c < W := by
      by_contra hcon
      have h1 := val_lt hq
      have h2 := val_lt wseg
      rw [lseg] at h2
      have : W ^ q.length * W ≤ W ^ q.length * c := Nat.mul_le_mul_left _ (by omega)
      have : a * val q ≤ (W - 1) * val q := Nat.mul_le_mul_right _ (by omega)
      have hW1 : (W - 1) * val q + val q = W * val q := by
        have := W_pos
        have : W - 1 + 1 = W := by omega
        calc (W - 1) * val q + val q = (W - 1 + 1) * val q := by ring
          _ = W * val q := by rw [this]
      have : W * val q ≤ W * W ^ q.length := Nat.mul_le_mul_left _ (le_of_lt h1)
      nlinarith
    set z1 := z.take i ++ r ++ [c] ++ z.drop (i + q.length + 1) with hz1
    have lz1 : z1.length = z.length := by
      rw [hz1]; simp only [List.length_append, List.length_take, List.length_drop, List.length_cons, List.length_nil, m2]
      omega
    have wz1 : Wf z1 := by
      rw [hz1]
      refine Wf_append.2 ⟨Wf_append.2 ⟨Wf_append.2 ⟨Wf_take hz i, m3⟩, ?_⟩, Wf_drop hz _⟩
      intro x hx; rw [List.mem_singleton.1 hx]; exact hcW
    have l1 : (z.take i ++ r ++ [c]).length = i + 1 + q.length := by
      simp only [List.length_append, List.length_take, List.length_cons, List.length_nil, m2]; omega
    have htail : z.drop (i + q.length + 1) = zeros (z.length - (i + q.length) - 1) := by
      rw [← List.drop_drop, hzero, zeros_drop]
    have hzero1 : z1.drop (i + 1 + q.length) = zeros (z1.length - (i + 1 + q.length)) := by
      have : z1.drop (i + 1 + q.length) = z.drop (i + q.length + 1) := by rw [hz1, ← l1, List.drop_left]
      rw [this, htail, lz1]
      congr 1; omega
    obtain ⟨z', e, lz', wz', vz'⟩ := ih q (i + 1) z1 hps hq wz1 (by rw [lz1]; omega) hzero1
    refine ⟨z', e, by rw [lz', lz1], wz', ?_⟩
    rw [vz']
    -- value of z and of z1
    have hv : val z = val (z.take i) + W ^ i * val seg := by
      rw [val_take_drop z i, val_take_drop (z.drop i) q.length, ← hseg, List.drop_drop, hzero, val_zeros,
        Nat.mul_zero, Nat.add_zero]
    have hv1 : val z1 = val (z.take i) + W ^ i * (val r + W ^ q.length * c) := by
      rw [hz1, val_append, val_append, val_append, htail, val_zeros]
      simp only [List.length_append, List.length_take, List.length_cons, List.length_nil, m2, val, Nat.mul_zero,
        Nat.add_zero]
      rw [Nat.min_eq_left (by omega)]
      ring
    rw [hv1, hv, m1, val_cons, pow_succ]
    ring


/-- domain of `kmul`: halving stays even down to at most 16 words (fuel `f`) -/
def kOk : Nat → Nat → Bool
  | 0, _ => false
  | f + 1, n => decide (n ≤ 16) || (decide (n % 2 = 0) && kOk f (n / 2))

theorem addc_carry_le (xs ys : List Nat) (c : Nat) (h : xs.length = ys.length) (hx : Wf xs) (hy : Wf ys)
    (hc : c ≤ 1) : (addc xs ys c).2 ≤ 1 := by
  obtain ⟨e1, _, _⟩ := addc_spec xs ys c h
  have h1 := val_lt hx
  have h2 := val_lt hy
  rw [← h] at h2
  by_contra hcon
  have : W ^ xs.length * 2 ≤ W ^ xs.length * (addc xs ys c).2 := Nat.mul_le_mul_left _ (by omega)
  omega

/-- `_add_slices(&mut x[half..], y)` for `|x| = 2·half`, `|y| = half` -/
theorem add_upper (x y : List Nat) (half : Nat) (hx : x.length = 2 * half) (hy : y.length = half)
    (wx : Wf x) (wy : Wf y) :
    val (x.take half ++ (addc (x.drop half) y 0).1) + W ^ (2 * half) * (addc (x.drop half) y 0).2 =
        val x + W ^ half * val y ∧
      (x.take half ++ (addc (x.drop half) y 0).1).length = 2 * half ∧
      Wf (x.take half ++ (addc (x.drop half) y 0).1) ∧ (addc (x.drop half) y 0).2 ≤ 1 := by
  have ld : (x.drop half).length = y.length := by rw [List.length_drop, hx, hy]; omega
  obtain ⟨e1, e2, e3⟩ := addc_spec (x.drop half) y 0 ld
  have lt : (x.take half).length = half := by rw [List.length_take, hx]; omega
  refine ⟨?_, by rw [List.length_append, lt, e2, ld, hy]; omega, Wf_append.2 ⟨Wf_take wx _, e3⟩,
    addc_carry_le _ _ _ ld (Wf_drop wx _) wy (by omega)⟩
  rw [val_append, lt, val_take_drop x half]
  rw [ld, hy] at e1
  have : W ^ (2 * half) = W ^ half * W ^ half := by rw [← pow_add]; congr 1; omega
  rw [this]
  have h : W ^ half * (val (addc (x.drop half) y 0).1 + W ^ half * (addc (x.drop half) y 0).2) =
      W ^ half * (val (x.drop half) + val y + 0) := by rw [e1]
  linarith [h]


/-- the middle product with its carries: `(sp1 + cp·B)(sq1 + cq·B)` from `zmid = sp1·sq1` -/
theorem mid_carry (sp1 sq1 zmid : List Nat) (cp cq half : Nat) (lp : sp1.length = half) (lq : sq1.length = half)
    (lz : zmid.length = 2 * half) (wp : Wf sp1) (wq : Wf sq1) (wz : Wf zmid) (hcp : cp ≤ 1) (hcq : cq ≤ 1)
    (hv : val zmid = val sp1 * val sq1) :
    val (midCarry zmid sp1 sq1 cp cq half).1 + W ^ (2 * half) * (midCarry zmid sp1 sq1 cp cq half).2 =
        (val sp1 + W ^ half * cp) * (val sq1 + W ^ half * cq) ∧
      (midCarry zmid sp1 sq1 cp cq half).1.length = 2 * half ∧ Wf (midCarry zmid sp1 sq1 cp cq half).1 ∧
      (midCarry zmid sp1 sq1 cp cq half).2 ≤ 3 := by
  unfold midCarry
  simp only
  have hBB : W ^ (2 * half) = W ^ half * W ^ half := by rw [← pow_add]; congr 1; omega
  have hcp' : cp = 0 ∨ cp = 1 := by omega
  have hcq' : cq = 0 ∨ cq = 1 := by omega
  rcases hcp' with rfl | rfl <;> rcases hcq' with rfl | rfl
  · simp only [zero_ne_one, false_and, if_false, Nat.mul_zero, Nat.add_zero]
    exact ⟨hv, lz, wz, by omega⟩
  · simp only [zero_ne_one, false_and, if_false, if_true, Nat.mul_zero, Nat.add_zero, Nat.zero_add, Nat.mul_one]
    obtain ⟨a1, a2, a3, a4⟩ := add_upper zmid sp1 half lz lp wz wp
    refine ⟨?_, a2, a3, by omega⟩
    rw [a1, hv]; ring
  · simp only [zero_ne_one, and_false, if_false, if_true, Nat.mul_zero, Nat.add_zero, Nat.zero_add, Nat.mul_one]
    obtain ⟨a1, a2, a3, a4⟩ := add_upper zmid sq1 half lz lq wz wq
    refine ⟨?_, a2, a3, by omega⟩
    rw [a1, hv]; ring
  · simp only [and_self, if_true, Nat.mul_one]
    obtain ⟨a1, a2, a3, a4⟩ := add_upper zmid sp1 half lz lp wz wp
    obtain ⟨b1, b2, b3, b4⟩ := add_upper _ sq1 half a2 lq a3 wq
    refine ⟨?_, b2, b3, by omega⟩
    rw [hBB] at a1 b1 ⊢
    rw [hv] at a1
    linarith [a1, b1]


/-- the word above the middle term: `carrymid - (carrylo + carryhi)` does not underflow and is `0` or `1` -/
theorem kara_top (B P0 P1 Q0 Q1 m2v m2c s2v c1 c2 : Nat) (hP0 : P0 < B) (hP1 : P1 < B) (hQ0 : Q0 < B)
    (hQ1 : Q1 < B) (hs : s2v < B * B)
    (em : m2v + B * B * m2c = (P0 + P1) * (Q0 + Q1))
    (es : s2v + P0 * Q0 + P1 * Q1 = m2v + B * B * (c1 + c2)) :
    c1 + c2 ≤ m2c ∧ m2c - (c1 + c2) ≤ 1 ∧ s2v + B * B * (m2c - (c1 + c2)) = P0 * Q1 + P1 * Q0 := by
  have h1 : s2v + B * B * m2c = P0 * Q1 + P1 * Q0 + B * B * (c1 + c2) := by
    have : (P0 + P1) * (Q0 + Q1) = P0 * Q0 + P1 * Q1 + (P0 * Q1 + P1 * Q0) := by ring
    linarith [em, es, this]
  have hX : P0 * Q1 + P1 * Q0 < 2 * (B * B) := by
    have a := Nat.mul_lt_mul'' hP0 hQ1
    have b := Nat.mul_lt_mul'' hP1 hQ0
    omega
  have hle : c1 + c2 ≤ m2c := by
    by_contra hcon
    have : B * B * (m2c + 1) ≤ B * B * (c1 + c2) := Nat.mul_le_mul_left _ (by omega)
    rw [Nat.mul_add, Nat.mul_one] at this
    omega
  obtain ⟨t, ht⟩ : ∃ t, m2c = c1 + c2 + t := ⟨m2c - (c1 + c2), by omega⟩
  have hsub : m2c - (c1 + c2) = t := by omega
  rw [hsub]
  rw [ht, Nat.mul_add] at h1
  have h2 : s2v + B * B * t = P0 * Q1 + P1 * Q0 := by omega
  refine ⟨hle, ?_, h2⟩
  by_contra hcon
  have : B * B * 2 ≤ B * B * t := Nat.mul_le_mul_left _ (by omega)
  omega

/-- the final recombination: no carry leaves the `2n` words -/
theorem kara_final (B P0 P1 Q0 Q1 zlo zhi a1v a1c hiv hic : Nat) (hP0 : P0 < B) (hP1 : P1 < B) (hQ0 : Q0 < B)
    (hQ1 : Q1 < B)
    (ez : zlo + B * B * zhi = B * (P0 * Q1 + P1 * Q0))
    (e1 : a1v + B * B * a1c = zlo + P0 * Q0)
    (e2 : hiv + B * B * hic = zhi + P1 * Q1 + a1c) :
    hic = 0 ∧ a1v + B * B * hiv = (P0 + B * P1) * (Q0 + B * Q1) := by
  have htot : a1v + B * B * hiv + B * B * (B * B) * hic = (P0 + B * P1) * (Q0 + B * Q1) := by
    have h2 : B * B * (hiv + B * B * hic) = B * B * (zhi + P1 * Q1 + a1c) := by rw [e2]
    have : (P0 + B * P1) * (Q0 + B * Q1) = P0 * Q0 + B * (P0 * Q1 + P1 * Q0) + B * B * (P1 * Q1) := by ring
    linarith [ez, e1, h2, this]
  have hP : P0 + B * P1 < B * B := by
    have : B * P1 + B ≤ B * B := by
      have := Nat.mul_le_mul_left B (show P1 + 1 ≤ B by omega)
      rw [Nat.mul_add, Nat.mul_one] at this
      exact this
    omega
  have hQ : Q0 + B * Q1 < B * B := by
    have : B * Q1 + B ≤ B * B := by
      have := Nat.mul_le_mul_left B (show Q1 + 1 ≤ B by omega)
      rw [Nat.mul_add, Nat.mul_one] at this
      exact this
    omega
  have hPQ : (P0 + B * P1) * (Q0 + B * Q1) < B * B * (B * B) := Nat.mul_lt_mul'' hP hQ
  have h0 : hic = 0 := by
    by_contra hcon
    have : B * B * (B * B) * 1 ≤ B * B * (B * B) * hic := Nat.mul_le_mul_left _ (by omega)
    omega
  rw [h0, Nat.mul_zero, Nat.add_zero] at htot
  exact ⟨h0, htot⟩


/-- the recombination step is exact and reaches no panic site -/
theorem karaCombine_spec (m2 : List Nat × Nat) (blo bhi : List Nat) (half : Nat) (P0 P1 Q0 Q1 : Nat)
    (hh : 1 ≤ half) (lm : m2.1.length = 2 * half) (lb : blo.length = 2 * half) (lh : bhi.length = 2 * half)
    (wm : Wf m2.1) (wb : Wf blo) (wh : Wf bhi)
    (hP0 : P0 < W ^ half) (hP1 : P1 < W ^ half) (hQ0 : Q0 < W ^ half) (hQ1 : Q1 < W ^ half)
    (em : val m2.1 + W ^ (2 * half) * m2.2 = (P0 + P1) * (Q0 + Q1))
    (eb : val blo = P0 * Q0) (eh : val bhi = P1 * Q1) :
    ∃ z, karaCombine m2 blo bhi half (2 * half) = some z ∧ z.length = 2 * (2 * half) ∧ Wf z ∧
      val z = (P0 + W ^ half * P1) * (Q0 + W ^ half * Q1) := by
  set B := W ^ half with hB
  have hBB : W ^ (2 * half) = B * B := by rw [hB, ← pow_add]; congr 1; omega
  unfold karaCombine
  simp only
  obtain ⟨s11, s12, s13, s14⟩ := subSlices_spec m2.1 blo 0 (by rw [lm, lb]) wm wb (by omega)
  set s1 := subSlices m2.1 blo 0 with hs1
  obtain ⟨s21, s22, s23, s24⟩ := subSlices_spec s1.1 bhi 0 (by rw [s12, lm, lh]) s13 wh (by omega)
  set s2 := subSlices s1.1 bhi 0 with hs2
  rw [lm, hBB] at s11
  rw [s12, lm, hBB] at s21
  rw [s12, lm] at s22
  rw [hBB] at em
  have hs2lt : val s2.1 < B * B := by have := val_lt s23; rwa [s22, hBB] at this
  obtain ⟨t1, t2, t3⟩ := kara_top B P0 P1 Q0 Q1 (val m2.1) m2.2 (val s2.1) s1.2 s2.2 hP0 hP1 hQ0 hQ1 hs2lt em
    (by rw [← eb, ← eh]; linarith [s11, s21])
  rw [if_neg (by omega), if_neg (by omega)]
  set top := m2.2 - (s1.2 + s2.2) with htop
  set z := zeros half ++ s2.1 ++ [top] ++ zeros (half - 1) with hz
  have lz : z.length = 2 * (2 * half) := by
    rw [hz]; simp only [List.length_append, zeros_length, s22, List.length_cons, List.length_nil]; omega
  have wz : Wf z := by
    rw [hz]
    refine Wf_append.2 ⟨Wf_append.2 ⟨Wf_append.2 ⟨Wf_zeros _, s23⟩, ?_⟩, Wf_zeros _⟩
    intro x hx; rw [List.mem_singleton.1 hx]; have := W_gt; omega
  have vz : val z = B * (P0 * Q1 + P1 * Q0) := by
    rw [hz, val_append, val_append, val_append, val_zeros, val_zeros]
    simp only [List.length_append, zeros_length, s22, List.length_cons, List.length_nil, val, Nat.mul_zero,
      Nat.add_zero, Nat.zero_add]
    rw [← t3, hB, pow_add, show W ^ (2 * half) = W ^ half * W ^ half by rw [← pow_add]; congr 1; omega]
    ring
  have ltk : (z.take (2 * half)).length = 2 * half := by rw [List.length_take, lz]; omega
  have ldr : (z.drop (2 * half)).length = 2 * half := by rw [List.length_drop, lz]; omega
  obtain ⟨a11, a12, a13⟩ := addc_spec (z.take (2 * half)) blo 0 (by rw [ltk, lb])
  obtain ⟨a21, a22, a23⟩ := addc_spec (z.drop (2 * half)) bhi 0 (by rw [ldr, lh])
  have c1le := addc_carry_le (z.take (2 * half)) blo 0 (by rw [ltk, lb]) (Wf_take wz _) wb (by omega)
  set a1 := addc (z.take (2 * half)) blo 0 with ha1
  set a2 := addc (z.drop (2 * half)) bhi 0 with ha2
  rw [ltk, hBB] at a11
  rw [ltk] at a12
  rw [ldr, hBB] at a21
  rw [ldr] at a22
  have vsplit : val z = val (z.take (2 * half)) + B * B * val (z.drop (2 * half)) := by
    rw [val_take_drop z (2 * half), hBB]
  -- the propagated carry
  obtain ⟨r1, r2, r3, _⟩ := addRipple_spec a2.1 1 a23 (by have := W_pos; omega)
  rw [a22, hBB] at r1
  have hhi : ∃ hv hc hl, (if a1.2 = 1 then ((addRipple a2.1 1).1, a2.2 + (addRipple a2.1 1).2) else a2) = (hl, hc) ∧
      val hl = hv ∧ hl.length = 2 * half ∧ Wf hl ∧ hv + B * B * hc = val (z.drop (2 * half)) + val bhi + a1.2 := by
    by_cases hc1 : a1.2 = 1
    · rw [if_pos hc1]
      refine ⟨_, _, _, rfl, rfl, by rw [r2, a22], r3, ?_⟩
      rw [hc1, Nat.mul_add]
      linarith [r1, a21]
    · rw [if_neg hc1]
      have : a1.2 = 0 := by omega
      refine ⟨_, _, _, rfl, rfl, a22, a23, ?_⟩
      rw [this]; linarith [a21]
  obtain ⟨hv, hc, hl, ehi, evh, lhl, whl, eqh⟩ := hhi
  rw [ehi]
  simp only
  obtain ⟨f1, f2⟩ := kara_final B P0 P1 Q0 Q1 (val (z.take (2 * half))) (val (z.drop (2 * half))) (val a1.1) a1.2
    hv hc hP0 hP1 hQ0 hQ1 (by rw [← vsplit, vz]) (by rw [← eb]; linarith [a11]) (by rw [← eh]; exact eqh)
  rw [if_neg (by omega)]
  refine ⟨a1.1 ++ hl, rfl, by rw [List.length_append, a12, lhl]; omega, Wf_append.2 ⟨a13, whl⟩, ?_⟩
  rw [val_append, a12, hBB, evh, f2]

/-- **the Karatsuba routine inside `FInt::mul` is the exact product of the word vectors**: for operands of
`n` words each in the domain `kOk` (halving stays even down to `≤ 16` words; every power of two, every
`n ≤ 16`), scratch of at least `4n` words: no panic site is reached (slice splits, the overflow checks of
`mulbasic`, `carrymid - (carrylo + carryhi)` and its `debug_assert!`, `debug_assert!(carry2 == 0)`) and
the `2n` result words are the product. -/
theorem kmul_spec : ∀ (f tl : Nat) (p q : List Nat), kOk f p.length = true → q.length = p.length →
    4 * p.length ≤ tl → Wf p → Wf q →
    ∃ z, kmul f tl p q = some z ∧ z.length = 2 * p.length ∧ Wf z ∧ val z = val p * val q := by
  intro f
  induction f with
  | zero => intro tl p q hk; simp [kOk] at hk
  | succ f ih =>
    intro tl p q hk hlen htl wp wq
    unfold kmul
    simp only
    rw [if_neg (by omega)]
    by_cases h16 : p.length ≤ 16
    · rw [if_pos h16]
      obtain ⟨z, e, lz, wz, vz⟩ := mulBasicRows_spec p q 0 (zeros (2 * p.length)) wp wq (Wf_zeros _)
        (by rw [zeros_length]; omega) (by rw [zeros_drop, zeros_length])
      refine ⟨z, e, by rw [lz, zeros_length], wz, ?_⟩
      rw [vz, val_zeros, pow_zero]; ring
    · rw [if_neg h16]
      unfold kOk at hk
      simp only [Bool.or_eq_true, Bool.and_eq_true, decide_eq_true_eq] at hk
      obtain ⟨heven, hk'⟩ : p.length % 2 = 0 ∧ kOk f (p.length / 2) = true := by
        rcases hk with h | h
        · omega
        · exact h
      set n := p.length with hn
      set half := n / 2 with hhalf
      have hn2 : n = 2 * half := by omega
      rw [if_neg (by omega), if_neg (by omega)]
      set p0 := p.take half with hp0
      set p1 := p.drop half with hp1
      set q0 := q.take half with hq0
      set q1 := q.drop half with hq1
      have lp0 : p0.length = half := by rw [hp0, List.length_take]; omega
      have lp1 : p1.length = half := by rw [hp1, List.length_drop]; omega
      have lq0 : q0.length = half := by rw [hq0, List.length_take]; omega
      have lq1 : q1.length = half := by rw [hq1, List.length_drop]; omega
      have wp0 : Wf p0 := Wf_take wp _
      have wp1 : Wf p1 := Wf_drop wp _
      have wq0 : Wf q0 := Wf_take wq _
      have wq1 : Wf q1 := Wf_drop wq _
      have vp : val p = val p0 + W ^ half * val p1 := val_take_drop p half
      have vq : val q = val q0 + W ^ half * val q1 := val_take_drop q half
      have bp0 : val p0 < W ^ half := by have := val_lt wp0; rwa [lp0] at this
      have bp1 : val p1 < W ^ half := by have := val_lt wp1; rwa [lp1] at this
      have bq0 : val q0 < W ^ half := by have := val_lt wq0; rwa [lq0] at this
      have bq1 : val q1 < W ^ half := by have := val_lt wq1; rwa [lq1] at this
      obtain ⟨sp1, sp2, sp3⟩ := addc_spec p0 p1 0 (by rw [lp0, lp1])
      obtain ⟨sq1, sq2, sq3⟩ := addc_spec q0 q1 0 (by rw [lq0, lq1])
      have cpl := addc_carry_le p0 p1 0 (by rw [lp0, lp1]) wp0 wp1 (by omega)
      have cql := addc_carry_le q0 q1 0 (by rw [lq0, lq1]) wq0 wq1 (by omega)
      rw [lp0] at sp1 sp2; rw [lq0] at sq1 sq2
      set sp := addc p0 p1 0 with hsp
      set sq := addc q0 q1 0 with hsq
      obtain ⟨zmid, em, lzm, wzm, vzm⟩ := ih tl sp.1 sq.1 (by rw [sp2]; exact hk') (by rw [sp2, sq2])
        (by rw [sp2]; omega) sp3 sq3
      rw [em]
      simp only
      rw [sp2] at lzm
      obtain ⟨blo, elo, llo, wlo, vlo⟩ := ih (tl - 2 * n) p0 q0 (by rw [lp0]; exact hk') (by rw [lp0, lq0])
        (by rw [lp0]; omega) wp0 wq0
      obtain ⟨bhi, ehi, lhi, whi, vhi⟩ := ih (tl - 2 * n) p1 q1 (by rw [lp1]; exact hk') (by rw [lp1, lq1])
        (by rw [lp1]; omega) wp1 wq1
      rw [elo, ehi]
      simp only
      rw [lp0] at llo; rw [lp1] at lhi
      obtain ⟨mv, ml, mw, mc⟩ := mid_carry sp.1 sq.1 zmid sp.2 sq.2 half sp2 sq2 lzm sp3 sq3 wzm cpl cql vzm
      obtain ⟨z, ez, lz, wz, vz⟩ := karaCombine_spec (midCarry zmid sp.1 sq.1 sp.2 sq.2 half) blo bhi half
        (val p0) (val p1) (val q0) (val q1) (by omega) ml llo lhi mw wlo whi bp0 bp1 bq0 bq1
        (by rw [mv, sp1, sq1]; ring) vlo vhi
      rw [hn2]
      exact ⟨z, ez, lz, wz, by rw [vz, vp, vq]⟩

theorem kOk_pow2 (a : Nat) : kOk (a + 1) (2 ^ a) = true := by
  induction a with
  | zero => decide
  | succ a ih =>
    unfold kOk
    have hp : 0 < 2 ^ a := Nat.pow_pos (by decide)
    have h1 : 2 ^ (a + 1) % 2 = 0 := by rw [pow_succ]; omega
    have h2 : 2 ^ (a + 1) / 2 = 2 ^ a := by rw [pow_succ]; omega
    simp [h1, h2, ih]

theorem kOk_mono : ∀ (f g n : Nat), f ≤ g → kOk f n = true → kOk g n = true := by
  intro f
  induction f with
  | zero => intro g n _ h; simp [kOk] at h
  | succ f ih =>
    intro g n hfg h
    cases g with
    | zero => omega
    | succ g =>
      unfold kOk at h ⊢
      simp only [Bool.or_eq_true, Bool.and_eq_true, decide_eq_true_eq] at h ⊢
      rcases h with h | ⟨h1, h2⟩
      · exact Or.inl h
      · exact Or.inr ⟨h1, ih g _ (by omega) h2⟩

end Ymq.FInt
