/-
C14 "small", helper lemmas part 2 (core only): entrywise (`testBit`) descriptions of `identity`,
`symmetric`, `transpose`, `maskRows`/`mask`, `reverseLane`, `reverse`, and the counting facts on
`popcount`.
-/
import Ymq.Lemmas.Gf2SmallBasic
namespace Ymq.Gf2Small

/-! ### generic helpers -/

theorem length_map_range (n : Nat) (f : Nat → Nat) : ((List.range n).map f).length = n := by
  simp

/-- two matrices of length `n` with the same rows below `n` are equal -/
theorem mat_ext {n : Nat} {a b : Mat} (ha : a.length = n) (hb : b.length = n)
    (h : ∀ i, i < n → row a i = row b i) : a = b := by
  apply List.ext_getElem (by omega)
  intro i h1 h2
  have := h i (by omega)
  simpa [row, List.getD_eq_getElem?_getD, List.getElem?_eq_getElem h1, List.getElem?_eq_getElem h2] using this

theorem testBit_of_lt_of_ge {w n j : Nat} (hw : w < 2 ^ n) (hj : n ≤ j) : w.testBit j = false :=
  Nat.testBit_lt_two_pow (Nat.lt_of_lt_of_le hw (Nat.pow_le_pow_right (by omega) hj))

/-! ### identity -/

theorem length_identity (n : Nat) : (identity n).length = n := by
  simp [identity]

theorem row_identity {n i : Nat} (h : i < n) : row (identity n) i = 1 <<< i := by
  unfold identity
  rw [row_map_range n _ h]

theorem testBit_row_identity {n i : Nat} (h : i < n) (j : Nat) :
    (row (identity n) i).testBit j = decide (i = j) := by
  rw [row_identity h, Nat.one_shiftLeft, Nat.testBit_two_pow]

/-! ### symmetric -/

theorem symmetric_iff (n : Nat) (m : Mat) :
    symmetric n m = true ↔
      ∀ i j, i < n → j < n → (row m i).testBit j = (row m j).testBit i := by
  unfold symmetric
  simp only [List.all_eq_true, List.mem_range, beq_iff_eq]
  constructor
  · intro h i j hi hj
    rcases Nat.lt_trichotomy i j with hlt | heq | hgt
    · exact (h j hj i hlt).symm
    · subst heq; rfl
    · exact h i hi j hgt
  · intro h i hi j hj
    exact h i j hi (by omega)

/-! ### transpose -/

theorem length_transpose (n : Nat) (m : Mat) : (transpose n m).length = n := by
  simp [transpose]

theorem testBit_transpose {n : Nat} (m : Mat) {i : Nat} (hi : i < n) (j : Nat) :
    (row (transpose n m) i).testBit j = (decide (j < n) && (row m j).testBit i) := by
  unfold transpose
  rw [row_map_range n _ hi, testBit_ofBits]

theorem row_transpose_lt {n : Nat} (m : Mat) (i : Nat) : row (transpose n m) i < 2 ^ n := by
  by_cases hi : i < n
  · unfold transpose
    rw [row_map_range n _ hi]
    exact ofBits_lt _ _
  · rw [row_of_ge (by rw [length_transpose]; omega)]
    exact Nat.two_pow_pos n

theorem transpose_transpose {n : Nat} {m : Mat} (hl : m.length = n)
    (hw : ∀ i, i < n → row m i < 2 ^ n) : transpose n (transpose n m) = m := by
  apply mat_ext (length_transpose _ _) hl
  intro i hi
  apply Nat.eq_of_testBit_eq
  intro j
  rw [testBit_transpose _ hi]
  by_cases hj : j < n
  · rw [testBit_transpose _ hj]
    simp [hi, hj]
  · rw [testBit_of_lt_of_ge (hw i hi) (by omega)]
    simp [hj]

theorem symmetric_iff_transpose {n : Nat} {m : Mat} (hl : m.length = n)
    (hw : ∀ i, i < n → row m i < 2 ^ n) : symmetric n m = true ↔ transpose n m = m := by
  rw [symmetric_iff]
  constructor
  · intro h
    apply mat_ext (length_transpose _ _) hl
    intro i hi
    apply Nat.eq_of_testBit_eq
    intro j
    rw [testBit_transpose _ hi]
    by_cases hj : j < n
    · rw [h i j hi hj]; simp [hj]
    · rw [testBit_of_lt_of_ge (hw i hi) (by omega)]
      simp [hj]
  · intro h i j hi hj
    have := testBit_transpose m hi j
    rw [h] at this
    rw [this]; simp [hj]

/-! ### mask -/

theorem length_maskRows (n : Nat) (m : Mat) (mk : Nat) : (maskRows n m mk).length = n := by
  simp [maskRows]

theorem row_maskRows {n : Nat} (m : Mat) (mk : Nat) {i : Nat} (hi : i < n) :
    row (maskRows n m mk) i = if mk.testBit i then row m i &&& mk else 0 := by
  unfold maskRows
  rw [row_map_range n _ hi]

theorem testBit_maskRows {n : Nat} (m : Mat) (mk : Nat) {i : Nat} (hi : i < n) (j : Nat) :
    (row (maskRows n m mk) i).testBit j =
      (mk.testBit i && (mk.testBit j && (row m i).testBit j)) := by
  rw [row_maskRows m mk hi]
  by_cases h : mk.testBit i = true
  · rw [if_pos h, Nat.testBit_and, h, Bool.true_and, Bool.and_comm]
  · simp only [Bool.not_eq_true] at h
    simp [h]

theorem symmetric_maskRows {n : Nat} {m : Mat} (mk : Nat) (h : symmetric n m = true) :
    symmetric n (maskRows n m mk) = true := by
  rw [symmetric_iff] at h ⊢
  intro i j hi hj
  rw [testBit_maskRows m mk hi, testBit_maskRows m mk hj, h i j hi hj]
  cases mk.testBit i <;> cases mk.testBit j <;> simp

/-- `SmallMat::mask` never fails its debug_assert -/
theorem mask_eq (n : Nat) (dbg : Bool) (m : Mat) (mk : Nat) :
    mask n dbg m mk = some (maskRows n m mk) := by
  unfold mask
  by_cases h : symmetric n m = true
  · simp [h, symmetric_maskRows mk h]
  · simp only [Bool.not_eq_true] at h
    simp [h]

/-! ### reverseLane, reverse -/

theorem testBit_reverseLane (n l j : Nat) :
    (reverseLane n l).testBit j = (decide (j < n) && l.testBit (n - 1 - j)) := by
  unfold reverseLane
  rw [testBit_ofBits]

theorem reverseLane_lt (n l : Nat) : reverseLane n l < 2 ^ n := ofBits_lt _ _

theorem reverseLane_reverseLane {n l : Nat} (h : l < 2 ^ n) :
    reverseLane n (reverseLane n l) = l := by
  apply Nat.eq_of_testBit_eq
  intro j
  rw [testBit_reverseLane, testBit_reverseLane]
  by_cases hj : j < n
  · have h1 : n - 1 - j < n := by omega
    have h2 : n - 1 - (n - 1 - j) = j := by omega
    simp [hj, h1, h2]
  · rw [testBit_of_lt_of_ge (j := j) h (by omega)]
    simp [hj]

theorem length_reverse (n : Nat) (m : Mat) : (reverse n m).length = n := by
  simp [reverse]

theorem row_reverse {n : Nat} (m : Mat) {i : Nat} (hi : i < n) :
    row (reverse n m) i = reverseLane n (row m (n - 1 - i)) := by
  unfold reverse
  rw [row_map_range n _ hi]

theorem testBit_reverse {n : Nat} (m : Mat) {i : Nat} (hi : i < n) (j : Nat) :
    (row (reverse n m) i).testBit j =
      (decide (j < n) && (row m (n - 1 - i)).testBit (n - 1 - j)) := by
  rw [row_reverse m hi, testBit_reverseLane]

theorem reverse_reverse {n : Nat} {m : Mat} (hl : m.length = n)
    (hw : ∀ i, i < n → row m i < 2 ^ n) : reverse n (reverse n m) = m := by
  apply mat_ext (length_reverse _ _) hl
  intro i hi
  have h1 : n - 1 - i < n := by omega
  have h2 : n - 1 - (n - 1 - i) = i := by omega
  rw [row_reverse _ hi, row_reverse _ h1, h2, reverseLane_reverseLane (hw i hi)]

theorem symmetric_reverse {n : Nat} {m : Mat} (h : symmetric n m = true) :
    symmetric n (reverse n m) = true := by
  rw [symmetric_iff] at h ⊢
  intro i j hi hj
  rw [testBit_reverse m hi, testBit_reverse m hj]
  rw [h (n - 1 - i) (n - 1 - j) (by omega) (by omega)]
  simp [hi, hj]

/-! ### popcount -/

theorem popcount_succ (n w : Nat) :
    popcount (n + 1) w = popcount n w + (if w.testBit n then 1 else 0) := by
  unfold popcount
  rw [List.range_succ, List.filter_append, List.length_append]
  by_cases h : w.testBit n = true
  · simp [h]
  · simp only [Bool.not_eq_true] at h
    simp [h]

theorem popcount_congr {n w w' : Nat} (h : ∀ i, i < n → w.testBit i = w'.testBit i) :
    popcount n w = popcount n w' := by
  induction n with
  | zero => simp [popcount]
  | succ n ih =>
    rw [popcount_succ, popcount_succ, ih (fun i hi => h i (by omega)), h n (by omega)]

theorem popcount_le (n w : Nat) : popcount n w ≤ n := by
  induction n with
  | zero => simp [popcount]
  | succ n ih =>
    rw [popcount_succ]
    split <;> omega

theorem testBit_or_bit (w i j : Nat) :
    (w ||| (1 <<< i)).testBit j = (w.testBit j || decide (i = j)) := by
  rw [Nat.testBit_or, Nat.one_shiftLeft, Nat.testBit_two_pow]

theorem popcount_or_bit {n w i : Nat} (hi : i < n) (h : w.testBit i = false) :
    popcount n (w ||| (1 <<< i)) = popcount n w + 1 := by
  induction n with
  | zero => omega
  | succ n ih =>
    rw [popcount_succ, popcount_succ]
    by_cases hin : i = n
    · subst hin
      have hc : popcount i (w ||| (1 <<< i)) = popcount i w := by
        apply popcount_congr
        intro k hk
        rw [testBit_or_bit]
        have : ¬ i = k := by omega
        simp [this]
      rw [hc, testBit_or_bit, h]
      simp
    · rw [ih (by omega), testBit_or_bit]
      have : ¬ i = n := hin
      simp only [this, decide_false, Bool.or_false]
      omega

theorem popcount_zero (n : Nat) : popcount n 0 = 0 := by
  simp [popcount]

theorem popcount_eq_n_iff_bits (n w : Nat) :
    popcount n w = n ↔ ∀ i, i < n → w.testBit i = true := by
  induction n with
  | zero => simp [popcount]
  | succ n ih =>
    rw [popcount_succ]
    have hle := popcount_le n w
    constructor
    · intro h i hi
      by_cases hb : w.testBit n = true
      · rw [if_pos hb] at h
        by_cases hin : i = n
        · subst hin; exact hb
        · exact ih.mp (by omega) i (by omega)
      · rw [if_neg hb] at h; omega
    · intro h
      rw [if_pos (h n (by omega)), ih.mpr (fun i hi => h i (by omega))]

theorem popcount_eq_n_iff {n w : Nat} (hw : w < 2 ^ n) : popcount n w = n ↔ w = 2 ^ n - 1 := by
  rw [popcount_eq_n_iff_bits]
  constructor
  · intro h
    apply Nat.eq_of_testBit_eq
    intro j
    rw [Nat.testBit_two_pow_sub_one]
    by_cases hj : j < n
    · rw [h j hj]; simp [hj]
    · rw [testBit_of_lt_of_ge hw (by omega)]; simp [hj]
  · intro h i hi
    rw [h, Nat.testBit_two_pow_sub_one]
    simp [hi]

end Ymq.Gf2Small
