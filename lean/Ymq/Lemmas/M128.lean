/-
Lemmas about the model of the 128-bit Montgomery type `M128` (Ymq/Model/M128.lean):
`mul256` is the exact 256-bit product without overflow, `mul` (modulus above 64 bits) is a
Montgomery product with `R = 2^128`, `add`/`sub` are modular addition/subtraction.
-/
import Ymq.Model.M128
import Ymq.Lemmas.Mg64
import Ymq.Lemmas.MillerTz
import Mathlib.Data.Nat.ModEq
import Mathlib.Tactic.Ring
import Mathlib.Tactic.Linarith

namespace Ymq.M128
open Ymq.Mg64 (W)

theorem W2_eq : W2 = W * W := by decide
theorem W_pos : 0 < W := by decide
theorem W2_pos : 0 < W2 := by decide

/-- `mul256` is the exact 256-bit product and none of its checked additions overflows -/
theorem mul256_spec (x y : Nat) (hx : x < W2) (hy : y < W2) :
    mul256 x y = some (x * y % W2, x * y / W2) := by
  have hx1 : x / W < W := by rw [Nat.div_lt_iff_lt_mul W_pos, ← W2_eq]; exact hx
  have hy1 : y / W < W := by rw [Nat.div_lt_iff_lt_mul W_pos, ← W2_eq]; exact hy
  have ex := Nat.div_add_mod x W
  have ey := Nat.div_add_mod y W
  have hx0 : x % W < W := Nat.mod_lt _ W_pos
  have hy0 : y % W < W := Nat.mod_lt _ W_pos
  unfold mul256
  simp only [Nat.mod_eq_of_lt hx1, Nat.mod_eq_of_lt hy1]
  generalize x % W = x0 at *
  generalize x / W = x1 at *
  generalize y % W = y0 at *
  generalize y / W = y1 at *
  have em := Nat.div_add_mod (x0 * y1 + x1 * y0) W2
  have hmid : (x0 * y1 + x1 * y0) % W2 < W2 := Nat.mod_lt _ W2_pos
  generalize (x0 * y1 + x1 * y0) % W2 = mid at *
  generalize hc : (x0 * y1 + x1 * y0) / W2 = c at *
  have emw : mid * W = W2 * (mid / W) + mid * W % W2 := by
    have h1 := Nat.div_add_mod (mid * W) W2
    have h2 : mid * W / W2 = mid / W := by
      rw [W2_eq, Nat.mul_comm mid W, Nat.mul_div_mul_left _ _ W_pos]
    rw [h2] at h1; omega
  have hmw : mid * W % W2 < W2 := Nat.mod_lt _ W2_pos
  generalize mid * W % W2 = mw at *
  have es := Nat.div_add_mod (x0 * y0 + mw) W2
  have hs0 : (x0 * y0 + mw) % W2 < W2 := Nat.mod_lt _ W2_pos
  generalize hs0' : (x0 * y0 + mw) % W2 = s0 at *
  generalize hc' : (x0 * y0 + mw) / W2 = c' at *
  generalize hmd : mid / W = md at *
  -- the product
  have hprod : x * y = s0 + W2 * (x1 * y1 + c * W + md + c') := by
    rw [← ex, ← ey, W2_eq] at *
    nlinarith
  have hxy : x * y < W2 * W2 := Nat.mul_lt_mul'' hx hy
  have hhi : x1 * y1 + c * W + md + c' < W2 := by
    by_contra h
    have : W2 * W2 ≤ W2 * (x1 * y1 + c * W + md + c') := Nat.mul_le_mul_left _ (by omega)
    omega
  have hres : (x * y % W2, x * y / W2) = (s0, x1 * y1 + c * W + md + c') := by
    rw [hprod, Nat.add_mul_mod_self_left, Nat.mod_eq_of_lt hs0, Nat.add_mul_div_left _ _ W2_pos,
      Nat.div_eq_of_lt hs0, Nat.zero_add]
  rw [hres]
  have hW2' := W2_eq
  have hcle : c ≤ 1 := by
    have h1 : x0 * y1 < W * W := Nat.mul_lt_mul'' hx0 hy1
    have h2 : x1 * y0 < W * W := Nat.mul_lt_mul'' hx1 hy0
    by_contra h
    have : W2 * 2 ≤ W2 * c := Nat.mul_le_mul_left _ (by omega)
    omega
  have hcle' : c' ≤ 1 := by
    have h1 : x0 * y0 < W * W := Nat.mul_lt_mul'' hx0 hy0
    by_contra h
    have : W2 * 2 ≤ W2 * c' := Nat.mul_le_mul_left _ (by omega)
    omega
  have hc01 : c = 0 ∨ c = 1 := by omega
  have hc01' : c' = 0 ∨ c' = 1 := by omega
  rcases hc01 with h | h <;> rcases hc01' with h' | h' <;> subst h <;> subst h' <;>
    simp only [Nat.zero_mul, Nat.one_mul, Nat.add_zero] at hhi ⊢
  · have h1 : ¬ (x1 * y1 ≥ W2) := by omega
    have h2 : ¬ (x1 * y1 + md ≥ W2) := by omega
    simp [h1, h2]
  · have h1 : ¬ (x1 * y1 ≥ W2) := by omega
    have h2 : ¬ (x1 * y1 + md ≥ W2) := by omega
    have h3 : ¬ (x1 * y1 + md + 1 ≥ W2) := by omega
    simp [h1, h2, h3]
  · have h1 : ¬ (x1 * y1 + W ≥ W2) := by omega
    have h2 : ¬ (x1 * y1 + W + md ≥ W2) := by omega
    simp [h1, h2]
  · have h1 : ¬ (x1 * y1 + W ≥ W2) := by omega
    have h2 : ¬ (x1 * y1 + W + md ≥ W2) := by omega
    have h3 : ¬ (x1 * y1 + W + md + 1 ≥ W2) := by omega
    simp [h1, h2, h3]


/-- generic form of `Ymq.Mg64.redc_low_word_cancels` for an arbitrary word base `B` -/
theorem low_cancel (B n ninv lo : Nat) (hB : 0 < B) (hninv : (n * ninv + 1) % B = 0)
    (hlo0 : lo ≠ 0) (hlo : lo < B) : lo + (lo * ninv % B * n) % B = B := by
  have h1 : (lo + lo * ninv % B * n) % B = 0 := by
    have : (lo + lo * ninv % B * n) % B = (lo * (n * ninv + 1)) % B := by
      have e : lo * (n * ninv + 1) = lo + lo * ninv * n := by ring
      rw [e, Nat.add_mod, Nat.mul_mod (lo * ninv % B) n B, Nat.mod_mod, ← Nat.mul_mod, ← Nat.add_mod]
    rw [this, Nat.mul_mod, hninv, Nat.mul_zero, Nat.zero_mod]
  have h2 : (lo + (lo * ninv % B * n) % B) % B = 0 := by
    rw [Nat.add_mod, Nat.mod_mod, ← Nat.add_mod]; exact h1
  have h3 : (lo * ninv % B * n) % B < B := Nat.mod_lt _ hB
  have h4 : 0 < lo := Nat.pos_of_ne_zero hlo0
  obtain ⟨k, hk⟩ := Nat.dvd_of_mod_eq_zero h2
  have : k = 1 := by
    rcases k with _ | _ | k
    · omega
    · rfl
    · exfalso
      have : B * (k + 1 + 1) ≥ 2 * B := by nlinarith
      omega
  subst this; omega

/-- `M128::mul` for a modulus of more than 64 bits: Montgomery product with `R = 2^128`. -/
theorem mul_spec_big (n ninv x y : Nat) (hnW : W ≤ n) (hn2 : n < W2)
    (hninv : (n * ninv + 1) % W2 = 0) (hx : x < n) (hy : y < W2) :
    ∃ r, mul n ninv x y = some r ∧ r < n ∧ r * W2 % n = x * y % n := by
  have hW := W_pos
  have hB := W2_pos
  have hn : 0 < n := by omega
  have hndiv : ¬ (n / W = 0) := by
    intro h
    have := (Nat.div_eq_zero_iff).1 h
    omega
  have hT : x * y < n * W2 := Nat.mul_lt_mul'' hx hy
  have hhi : x * y / W2 < n := by rw [Nat.div_lt_iff_lt_mul hB]; exact hT
  unfold mul
  simp only [hndiv, if_false, mul256_spec x y (lt_trans hx hn2) hy]
  by_cases hlo : x * y % W2 = 0
  · simp only [hlo, if_true]
    refine ⟨_, rfl, hhi, ?_⟩
    have := Nat.div_add_mod (x * y) W2
    rw [hlo] at this
    have e : x * y / W2 * W2 = x * y := by rw [Nat.mul_comm]; omega
    rw [e]
  · simp only [hlo, if_false]
    have hk := low_cancel W2 n ninv (x * y % W2) hB hninv hlo (Nat.mod_lt _ hB)
    generalize hm : x * y % W2 * ninv % W2 = m at hk
    have hmB : m < W2 := by rw [← hm]; exact Nat.mod_lt _ hB
    rw [mul256_spec m n hmB hn2]
    simp only []
    have hmn : m * n < W2 * n := Nat.mul_lt_mul_of_pos_right hmB hn
    have hmhi : m * n / W2 < n := by
      rw [Nat.div_lt_iff_lt_mul hB, Nat.mul_comm n W2]; exact hmn
    have h1 : ¬ n < m * n / W2 + 1 := by omega
    simp only [h1, if_false]
    have hsum : (x * y / W2 + m * n / W2 + 1) * W2 = x * y + m * n := by
      have e1 := Nat.div_add_mod (x * y) W2
      have e2 := Nat.div_add_mod (m * n) W2
      nlinarith
    have hlt2 : x * y / W2 + m * n / W2 + 1 < 2 * n := by
      have : (x * y / W2 + m * n / W2 + 1) * W2 < 2 * n * W2 := by rw [hsum]; nlinarith
      exact Nat.lt_of_mul_lt_mul_right this
    by_cases hge : x * y / W2 ≥ n - m * n / W2 - 1
    · simp only [hge, if_true]
      refine ⟨_, rfl, by omega, ?_⟩
      have : (x * y / W2 - (n - m * n / W2 - 1)) * W2 + n * W2 = x * y + m * n := by
        have : x * y / W2 - (n - m * n / W2 - 1) + n = x * y / W2 + m * n / W2 + 1 := by omega
        rw [← hsum, ← this]; ring
      have h2 : (x * y / W2 - (n - m * n / W2 - 1)) * W2 % n =
          ((x * y / W2 - (n - m * n / W2 - 1)) * W2 + n * W2) % n := by
        rw [Nat.add_mul_mod_self_left]
      rw [h2, this, Nat.add_mul_mod_self_right]
    · simp only [hge, if_false]
      have h3 : ¬ (x * y / W2 + m * n / W2 + 1 ≥ W2) := by omega
      simp only [h3, if_false]
      refine ⟨_, rfl, by omega, ?_⟩
      rw [hsum, Nat.add_mul_mod_self_right]

/-- `M128::add` -/
theorem add_spec (n x y : Nat) (hn2 : n < W2) (hx : x < n) (hy : y < n) :
    ∃ r, add n x y = some r ∧ r < n ∧ r % n = (x + y) % n := by
  unfold add
  have h1 : ¬ n < y := by omega
  simp only [h1, if_false]
  by_cases h : x ≥ n - y
  · simp only [h, if_true]
    refine ⟨_, rfl, by omega, ?_⟩
    have : x + y = x - (n - y) + n := by omega
    rw [this, Nat.add_mod_right]
  · have h2 : ¬ (x + y ≥ W2) := by omega
    simp only [h, h2, if_false]
    exact ⟨_, rfl, by omega, rfl⟩

/-- `M128::sub` -/
theorem sub_spec (n x y : Nat) (hn2 : n < W2) (hx : x < n) (hy : y < n) :
    ∃ r, sub n x y = some r ∧ r < n ∧ (r + y) % n = x % n := by
  unfold sub
  by_cases h : x ≥ y
  · simp only [h, if_true]
    exact ⟨_, rfl, by omega, by rw [Nat.sub_add_cancel h]⟩
  · have h1 : ¬ n < y := by omega
    have h2 : ¬ (x + (n - y) ≥ W2) := by omega
    simp only [h, h1, h2, if_false]
    refine ⟨_, rfl, by omega, ?_⟩
    have : x + (n - y) + y = x + n := by omega
    rw [this, Nat.add_mod_right]

/-! ### the 2-adic inverse -/

theorem invLoop_sound : ∀ f n x x', x < W2 → invLoop f n x = some x' → x' < W2 ∧ n * x' % W2 = 1 := by
  intro f
  induction f with
  | zero => intro n x x' _ h; simp [invLoop] at h
  | succ f ih =>
    intro n x x' hx h
    unfold invLoop at h
    simp only [] at h
    by_cases h0 : n * x % W2 = 0
    · simp [h0] at h
    · simp only [h0, if_false] at h
      by_cases h1 : n * x % W2 - 1 = 0
      · simp only [h1, if_true] at h
        cases h
        exact ⟨hx, by omega⟩
      · simp only [h1, if_false] at h
        by_cases h2 : x + 2 ^ tz128 (n * x % W2 - 1) ≥ W2
        · simp [h2] at h
        · simp only [h2, if_false] at h
          exact ih n _ x' (by omega) h

/-- soundness of `M128::inv_2adic`: a returned value is the negated inverse of `n` modulo `R` -/
theorem inv2adic_sound (n v : Nat) (h : inv2adic n = some v) :
    if n < W then (n * v + 1) % W = 0 else (n * v + 1) % W2 = 0 := by
  unfold inv2adic at h
  by_cases hodd : n % 2 = 1
  · simp only [hodd, ne_eq, not_true_eq_false, if_false] at h
    obtain ⟨x0, hx0, hx0W, hx0inv⟩ := Ymq.Mg64.mg2adicInv_odd (n % W) (by
      have : W = 2 * (W / 2) := by decide
      rw [this, Nat.mod_mul_right_mod]; exact hodd)
    rw [hx0] at h
    simp only [] at h
    by_cases hs : n < W
    · have hd : n / W = 0 := Nat.div_eq_of_lt hs
      simp only [hd, if_true] at h
      cases h
      simp only [hs, if_true]
      rwa [Nat.mod_eq_of_lt hs] at hx0inv
    · have hd : ¬ (n / W = 0) := by
        intro h0
        have := (Nat.div_eq_zero_iff).1 h0
        have hW : 0 < W := by decide
        omega
      simp only [hd, if_false] at h
      simp only [hs, if_false]
      cases hl : invLoop 130 n x0 with
      | none => rw [hl] at h; cases h
      | some x =>
        rw [hl] at h
        simp only [] at h
        have hWW2 : W < W2 := by decide
        obtain ⟨hxlt, hxinv⟩ := invLoop_sound 130 n x0 x (lt_trans hx0W hWW2) hl
        have hx : x ≠ 0 := by
          intro hx; rw [hx] at hxinv; simp at hxinv
        simp only [hxinv, not_true_eq_false, if_false, hx] at h
        cases h
        have e : n * (W2 - x) + 1 + n * x = n * W2 + 1 := by
          rw [Nat.mul_sub]; have := Nat.mul_le_mul_left n (Nat.le_of_lt hxlt); omega
        have h1 : n * (W2 - x) + 1 + n * x ≡ 0 + 1 [MOD W2] := by
          rw [e]; unfold Nat.ModEq; rw [Nat.mul_add_mod_self_right]
        have h2 : n * x ≡ 1 [MOD W2] := by unfold Nat.ModEq; rw [hxinv]; rfl
        exact Nat.ModEq.add_right_cancel h2 h1
  · simp [hodd] at h

end Ymq.M128
