/-
C04 / C05 for the worker programs of siqs() and mpqs() AS THE SOURCE SHAPES THEM.

The protocol theorems of Props/C04.lean and Props/C05Sched.lean are about arbitrary configurations of
the scheduling model; their two statements about initial configurations use the hand-written program
`compile` (poll, check, adds, publish per unit). Here the programs are built from the shapes that
translate/sched.py reads in src/siqs.rs and src/mpqs.rs on every run (Ymq/Gen/SchedShape.lean):

* `sched_inv_shape`        whatever the shape, every schedule and every pattern of stale reads leaves the
                           store equal to the sequential replay of the lock-order history, made of relations
                           of the workers' own polynomials only, and keeps any invariant `add` preserves;
* `sched_inv_any_programs` the same for arbitrary action lists (covers classical QS's fork-join by over-approximation);
* `shape_adds_exactly`     with the side condition `addsOnce`, a worker's program adds exactly the relations
                           of its polynomials, once each, in order (nothing is dropped or duplicated by the
                           loop structure);
* `abort_bounded_shape`    with the side condition `pollsPerUnit`: the abort predicate may start answering
                           `true` at ANY moment (after any schedule prefix); from then on the workers perform
                           at most two work units' worth of actions each before all of them have stopped,
                           however many units are left;
* `source_shapes_ok`       the four shapes generated from the current source meet the side conditions (by
                           `decide` on the generated data: this is the obligation that breaks when a poll, a
                           flag read, the add or the completion decision is moved or deleted in the source);
* `siqs_mt_*`, `mpqs_mt_*`, … the instances; `source_ecm_shape_ok`, `ecm_abort_bounded`, `ecm_unit_length` for the
  curve loop of ecm.rs (a unit = one curve: read `done`, poll, work, publish; no shared store).

Second generation (same translator, src/classgroup.rs, src/qsieve.rs, src/ecm.rs):
* classgroup() has the worker structure of siqs(): its two shapes `cgMt`, `cgSt` are in the generated list `all`, so
  `sched_inv_shape`, `shape_adds_exactly`, `abort_bounded_shape`, `source_shapes_ok` cover them; `cg_mt_abort_bounded`,
  `cg_st_abort_bounded` are the instances (a unit = one A value). What reaches the store there is the prefix of a polynomial's
  relations that the store itself accepts before it is complete (`if rels.done() { break; }` under the lock, pinned by the translator).
* classical QS: ONE coordinating thread; a unit = one large block PAIR = the forward and the backward arm (only adds), joined, then
  poll, completion decision, exit test (`ForkShape`). `qs_adds_exactly` + `qs_block_interleaving`: per pair exactly the two arms'
  relations, interleaved in lock order with a pool, forward then backward without; `qs_abort_bounded`, `qs_unit_length`;
  `source_fork_ok` pins the generated data (the poll is the first thing after the join).
* ECM read as a unit (`ecmUnit`): entry test `done || abort`, then for a reporting curve the report and the flag;
  `ecm_unit_abort_bounded`, `ecm_flag_sound` (flag set => something was reported, by a curve of the input), `source_ecm_unit_ok`
  (the flag is declared, read in exit conditions, set to true: no other use).
* `source_named_ok`: for EVERY driver, and in particular wherever a true poll only leaves the unit (closure `return`; generated list
  `leavesLoop`), the poll is in `pre` before any add: later units run their entry test and nothing else.

What this does not model: the cost of an action (the time between two polls is measured on the real code
by the C05 check), `prepare_a` / `batch_inversion` (no protocol action). In the model a true poll ends the WORKER; in the
source it ends the unit for the drivers listed `false` in `leavesLoop` — the difference is the entry tests of the remaining
units (no add, no sieving: `source_named_ok`), which the step bounds here do not count. `abort_unit_bounded` (last section) is the
statement on the unit-level model (Ymq/Model/SchedUnits.lean) that has both reactions: relations added after the request are at
most one unit's worth per worker, for either reaction, for every shape that polls in `pre`; `ecm_unit_abort_faithful` its ECM instance.
-/
import Ymq.Lemmas.SchedShape
import Ymq.Lemmas.SchedShape2
import Ymq.Lemmas.SchedUnits
import Ymq.Props.C04
import Ymq.Props.C05Sched

namespace Ymq.C04Shape
open Ymq.Sched Ymq.Gen.SchedShape

variable {ρ σ : Type}

theorem sched_inv_shape (add : σ → ρ → σ) (enough : σ → Bool) (Inv : σ → Prop) (Good : ρ → Prop)
    (hadd : ∀ s r, Inv s → Good r → Inv (add s r)) (sh : Shape)
    (s0 : σ) (progs : List (List (List (List ρ)))) (h0 : Inv s0)
    (hgood : ∀ prog ∈ progs, ∀ u ∈ prog, ∀ p ∈ u, ∀ r ∈ p, Good r) (sched : List (Nat × Bool × Bool)) :
    let c := run add enough (initShape sh s0 progs) sched
    c.store = c.log.foldl add s0 ∧ Inv c.store ∧ (∀ r ∈ c.log, Good r) ∧
      (∀ r ∈ c.log, ∃ prog ∈ progs, ∃ u ∈ prog, ∃ p ∈ u, r ∈ p) := by
  have hpend : ∀ r ∈ pend (initShape sh s0 progs : Cfg ρ σ), ∃ prog ∈ progs, ∃ u ∈ prog, ∃ p ∈ u, r ∈ p := by
    intro r hr
    simp only [pend, initShape, List.mem_flatMap, List.mem_map] at hr
    obtain ⟨l, ⟨prog, hp, rfl⟩, hr⟩ := hr
    obtain ⟨u, hu, p, hpp, hrp⟩ := mem_pendingAdds_compileShape sh prog r hr
    exact ⟨prog, hp, u, hu, p, hpp, hrp⟩
  have := run_spec add enough Inv Good hadd sched (initShape sh s0 progs) s0 (by simp [initShape]) h0
    (by simp [initShape])
    (fun r hr => by
      obtain ⟨prog, hp, u, hu, p, hpp, hrp⟩ := hpend r hr
      exact hgood prog hp u hu p hpp r hrp)
  obtain ⟨a1, a2, a3, _, a5⟩ := this
  refine ⟨a1, a2, a3, ?_⟩
  intro r hr
  rcases a5 r hr with h | h
  · simp [initShape] at h
  · exact hpend r h

/-- The same for ANY worker programs (arbitrary lists of actions, not built from a shape): this is what covers
drivers whose loop structure is not one of the translated shapes — classical QS runs, per large block, a
forward and a backward block sieve as a fork-join pair and polls in the joining thread; a barrier only
removes schedules, so every real execution is still a schedule of the barrier-free programs. -/
theorem sched_inv_any_programs (add : σ → ρ → σ) (enough : σ → Bool) (Inv : σ → Prop) (Good : ρ → Prop)
    (hadd : ∀ s r, Inv s → Good r → Inv (add s r))
    (s0 : σ) (pcs : List (List (Act ρ))) (done0 : Bool) (h0 : Inv s0)
    (hgood : ∀ l ∈ pcs, ∀ r ∈ pendingAdds l, Good r) (sched : List (Nat × Bool × Bool)) :
    let c := run add enough { store := s0, log := [], done := done0, pcs := pcs } sched
    c.store = c.log.foldl add s0 ∧ Inv c.store ∧ (∀ r ∈ c.log, Good r) ∧
      (∀ r ∈ c.log, ∃ l ∈ pcs, r ∈ pendingAdds l) := by
  have hpend : ∀ r ∈ pend ({ store := s0, log := [], done := done0, pcs := pcs } : Cfg ρ σ),
      ∃ l ∈ pcs, r ∈ pendingAdds l := by
    intro r hr
    simp only [pend, List.mem_flatMap] at hr
    exact hr
  have := run_spec add enough Inv Good hadd sched { store := s0, log := [], done := done0, pcs := pcs } s0
    (by simp) h0 (by simp)
    (fun r hr => by
      obtain ⟨l, hl, hrl⟩ := hpend r hr
      exact hgood l hl r hrl)
  obtain ⟨a1, a2, a3, _, a5⟩ := this
  refine ⟨a1, a2, a3, ?_⟩
  intro r hr
  rcases a5 r hr with h | h
  · simp at h
  · exact hpend r h

theorem shape_adds_exactly (sh : Shape) (h : addsOnce sh = true) (prog : List (List (List ρ))) :
    pendingAdds (compileShape sh prog) = prog.flatten.flatten := by
  unfold addsOnce at h
  simp only [Bool.and_eq_true, beq_iff_eq] at h
  exact pendingAdds_compileShape sh h.1.1 prog

theorem abort_bounded_shape (add : σ → ρ → σ) (enough : σ → Bool) (sh : Shape)
    (hp : pollsPerUnit sh = true) (s0 : σ) (progs : List (List (List (List ρ)))) (B : Nat)
    (hB : ∀ prog ∈ progs, ∀ u ∈ prog, (compileUnit sh u).length ≤ B)
    (before after : List (Nat × Bool × Bool))
    (heff : allEffective add enough (run add enough (initShape sh s0 progs) before) after)
    (hab : allAbort after) :
    after.length ≤ progs.length * (2 * B) := by
  have hinv := suffixInv_run add enough sh progs before _ (suffixInv_init sh s0 progs)
  have h1 := abort_steps_bounded add enough after _ heff hab
  have h2 := abortBudget_le_of_suffixInv sh hp B progs hB _ hinv
  omega

/-- the obligations on the shapes generated from the current source -/
theorem source_shapes_ok :
    ∀ x ∈ Ymq.Gen.SchedShape.all,
      pollsPerUnit x.2 = true ∧ addsOnce x.2 = true ∧ publishesPerPoly x.2 = true := by decide

/-- in the thread-pool branches the poll comes before any work of the unit: a worker that starts a
unit after the abort request performs no add -/
theorem source_mt_poll_first :
    siqsMt.pre.contains K.poll = true ∧ mpqsMt.pre.contains K.poll = true ∧
      siqsMt.pre.contains K.add = false ∧ mpqsMt.pre.contains K.add = false := by decide

theorem siqs_mt_abort_bounded (add : σ → ρ → σ) (enough : σ → Bool) (s0 : σ)
    (progs : List (List (List (List ρ)))) (B : Nat)
    (hB : ∀ prog ∈ progs, ∀ u ∈ prog, (compileUnit siqsMt u).length ≤ B)
    (before after : List (Nat × Bool × Bool))
    (heff : allEffective add enough (run add enough (initShape siqsMt s0 progs) before) after)
    (hab : allAbort after) : after.length ≤ progs.length * (2 * B) :=
  abort_bounded_shape add enough siqsMt (by decide) s0 progs B hB before after heff hab

theorem mpqs_mt_abort_bounded (add : σ → ρ → σ) (enough : σ → Bool) (s0 : σ)
    (progs : List (List (List (List ρ)))) (B : Nat)
    (hB : ∀ prog ∈ progs, ∀ u ∈ prog, (compileUnit mpqsMt u).length ≤ B)
    (before after : List (Nat × Bool × Bool))
    (heff : allEffective add enough (run add enough (initShape mpqsMt s0 progs) before) after)
    (hab : allAbort after) : after.length ≤ progs.length * (2 * B) :=
  abort_bounded_shape add enough mpqsMt (by decide) s0 progs B hB before after heff hab

theorem siqs_st_abort_bounded (add : σ → ρ → σ) (enough : σ → Bool) (s0 : σ)
    (prog : List (List (List ρ))) (B : Nat)
    (hB : ∀ u ∈ prog, (compileUnit siqsSt u).length ≤ B)
    (before after : List (Nat × Bool × Bool))
    (heff : allEffective add enough (run add enough (initShape siqsSt s0 [prog]) before) after)
    (hab : allAbort after) : after.length ≤ 2 * B := by
  have := abort_bounded_shape add enough siqsSt (by decide) s0 [prog] B
    (by intro p hp u hu; simp at hp; subst hp; exact hB u hu) before after heff hab
  simpa using this

theorem mpqs_st_abort_bounded (add : σ → ρ → σ) (enough : σ → Bool) (s0 : σ)
    (prog : List (List (List ρ))) (B : Nat)
    (hB : ∀ u ∈ prog, (compileUnit mpqsSt u).length ≤ B)
    (before after : List (Nat × Bool × Bool))
    (heff : allEffective add enough (run add enough (initShape mpqsSt s0 [prog]) before) after)
    (hab : allAbort after) : after.length ≤ 2 * B := by
  have := abort_bounded_shape add enough mpqsSt (by decide) s0 [prog] B
    (by intro p hp u hu; simp at hp; subst hp; exact hB u hu) before after heff hab
  simpa using this

/-- ECM: one curve polls the abort predicate (after reading `done`) before it does anything else; a curve adds
nothing to a shared store and only ever publishes completion -/
theorem source_ecm_shape_ok :
    pollsPerUnit ecmCurve = true ∧ ecmCurve.pre.take 2 = [K.check, K.poll] ∧
      ecmCurve.pre.contains K.add = false ∧ ecmCurve.body = [] ∧ ecmCurve.post = [] := by decide

/-- ECM with a pool: each worker owns a list of curves (seeds); after the abort request at most two
curves' worth of protocol actions per worker remain (the cost of a curve is measured, not modelled) -/
theorem ecm_abort_bounded (add : σ → ρ → σ) (enough : σ → Bool) (s0 : σ)
    (progs : List (List (List (List ρ)))) (B : Nat)
    (hB : ∀ prog ∈ progs, ∀ u ∈ prog, (compileUnit ecmCurve u).length ≤ B)
    (before after : List (Nat × Bool × Bool))
    (heff : allEffective add enough (run add enough (initShape ecmCurve s0 progs) before) after)
    (hab : allAbort after) : after.length ≤ progs.length * (2 * B) :=
  abort_bounded_shape add enough ecmCurve (by decide) s0 progs B hB before after heff hab

/-- a curve's program does not depend on relations: its length is the number of protocol actions read in
the source, so `B` above can be taken to be that number -/
theorem ecm_unit_length (u : List (List ρ)) : (compileUnit ecmCurve u).length = ecmCurve.pre.length := by
  have hb : ecmCurve.body = [] := by decide
  have hp : ecmCurve.post = [] := by decide
  have hadd : ecmCurve.pre.contains K.add = false := by decide
  unfold compileUnit
  rw [hb, hp]
  have h1 : ∀ (l : List (List ρ)), l.flatMap (expand ([] : List K)) = [] := by
    intro l; induction l with
    | nil => rfl
    | cons x xs ih => simp [List.flatMap_cons, expand, ih]
  have h2 : ∀ ks : List K, ks.contains K.add = false → (expand ks ([] : List ρ)).length = ks.length := by
    intro ks
    induction ks with
    | nil => intro _; rfl
    | cons k ks ih =>
      intro h
      have hk : k ≠ K.add := by
        intro hk; subst hk; simp at h
      have hks : ks.contains K.add = false := by
        simp only [List.contains_cons, Bool.or_eq_false_iff] at h
        exact h.2
      have := ih hks
      unfold expand at *
      rw [List.flatMap_cons, List.length_append, this]
      cases k <;> simp [expandK] at hk ⊢ <;> omega
  rw [h1, show expand ([] : List K) ([] : List ρ) = [] from rfl]
  simp [h2 _ hadd]

/-! ### non-vacuity: two SIQS workers, two A values each, two polynomials per A; the abort answer turns
`true` while worker 0 is inside its first A: it finishes that A (bounded by its unit), reaches the poll
of its second A and stops; worker 1 stops at the poll of its first A. 10 actions in a unit of the
largest size here; 11 steps after the flip, within 2 * (2 * 10). -/

example :
    let progs : List (List (List (List Nat))) := [[[[2, 4], [6]], [[1], [3]]], [[[8], [10, 12]], [[5], []]]]
    let c0 := run (· + ·) (fun _ => false) (initShape siqsMt 0 progs)
      [(0, false, false), (0, false, false), (0, false, false), (0, false, false), (0, false, false)]
    let after := [(0, false, true), (1, false, true), (0, false, true), (1, false, true), (0, false, true),
      (1, false, true), (0, false, true), (0, false, true), (0, false, true), (0, false, true), (0, false, true)]
    let c := run (· + ·) (fun _ => false) c0 after
    c0.log = [2] ∧ c.log = [2, 4, 6] ∧ finished c = true ∧ after.length = 11 ∧
      (∀ prog ∈ progs, ∀ u ∈ prog, (compileUnit siqsMt u).length ≤ 10) := by decide

example : (compileShape siqsMt [[[2, 4], [6]]] : List (Act Nat)) =
    [Act.check, Act.check, Act.poll, Act.check, Act.add 2, Act.add 4, Act.publish,
     Act.check, Act.add 6, Act.publish] := by decide

/-! ## classgroup, classical QS, ECM as a unit -/

/-- the shapes of the second generation with the names used in `leavesLoop` -/
def named : List (String × Shape) := namedShapes

/-- obligations on the generated data, every driver: the names line up with the generated list of poll reactions; every unit
polls; relations are added once per polynomial / arm / reporting curve and nowhere else; and wherever a true poll only leaves
the UNIT (closure `return`: siqs, mpqs, classgroup with a pool; an ECM curve) the poll sits in `pre` before any add, so the
units that follow an abort request run their `pre` up to the poll and nothing else -/
theorem source_named_ok :
    named.map Prod.fst = leavesLoop.map Prod.fst ∧
    ∀ x ∈ named.zip leavesLoop,
      pollsPerUnit x.1.2 = true ∧ addsOnce x.1.2 = true ∧ (x.2.2 = false → pollFirst x.1.2 = true) := by decide

/-- classical QS, generated data: two arms that only add (per small block); after the join FIRST the poll, then the completion
decision on the store and the exit it guards; identical with and without a pool apart from the fork; both leave the loop -/
theorem source_fork_ok :
    forkOk qsMtFork = true ∧ forkOk qsStFork = true ∧ qsMtFork.forked = true ∧ qsStFork.forked = false ∧
      qsMtFork.after = [K.poll, K.publish, K.check] ∧ qsStFork.after = qsMtFork.after := by decide

/-- ECM, generated data: a curve starts with `done || abort` and nothing else; reporting a factor is the only thing that sets the
flag; the flag is declared, read in exit conditions and set to true — no other use -/
theorem source_ecm_unit_ok :
    ecmUnit.pre = [K.check, K.poll] ∧ ecmUnit.body = [K.add, K.publish] ∧ ecmUnit.post = [] ∧
      (∀ u ∈ ecmDoneUses, u = Use.decl ∨ u = Use.exitCond ∨ u = Use.setTrue) ∧
      ecmDoneUses.count Use.decl = 1 ∧ ecmDoneUses.count Use.exitCond = 1 ∧
      ecmDoneUses.count Use.setTrue = ecmCurve.pre.count K.publish := by decide


/-- classgroup with a pool / sequential: instances of `abort_bounded_shape` (a unit = one A value) -/
theorem cg_mt_abort_bounded (add : σ → ρ → σ) (enough : σ → Bool) (s0 : σ)
    (progs : List (List (List (List ρ)))) (B : Nat)
    (hB : ∀ prog ∈ progs, ∀ u ∈ prog, (compileUnit cgMt u).length ≤ B)
    (before after : List (Nat × Bool × Bool))
    (heff : allEffective add enough (run add enough (initShape cgMt s0 progs) before) after)
    (hab : allAbort after) : after.length ≤ progs.length * (2 * B) :=
  abort_bounded_shape add enough cgMt (by decide) s0 progs B hB before after heff hab

theorem cg_st_abort_bounded (add : σ → ρ → σ) (enough : σ → Bool) (s0 : σ)
    (prog : List (List (List ρ))) (B : Nat)
    (hB : ∀ u ∈ prog, (compileUnit cgSt u).length ≤ B)
    (before after : List (Nat × Bool × Bool))
    (heff : allEffective add enough (run add enough (initShape cgSt s0 [prog]) before) after)
    (hab : allAbort after) : after.length ≤ 2 * B := by
  have := abort_bounded_shape add enough cgSt (by decide) s0 [prog] B
    (by intro p hp u hu; simp at hp; subst hp; exact hB u hu) before after heff hab
  simpa using this

/-- **classical QS adds exactly the relations of its arms**: per large block, without a pool the forward arm's relations then
the backward arm's; with a pool the interleaving of the two (lock order) — see `qs_block_interleaving` -/
theorem qs_adds_exactly (f : ForkShape) (blocks : List (List ρ × List ρ × List Bool)) :
    pendingAdds (compileFork f blocks) =
      blocks.flatMap (fun b => if f.forked then merge b.1 b.2.1 b.2.2 else b.1 ++ b.2.1) := by
  unfold compileFork
  rw [pendingAdds_compileShape (forkShape f) (by simp [forkShape])]
  induction blocks with
  | nil => rfl
  | cons b bs ih =>
    simp only [List.map_cons, List.flatten_cons, List.flatMap_cons, List.flatten_append, ih]
    congr 1
    unfold forkUnit
    split <;> simp

/-- an interleaving drops and duplicates nothing and keeps the order of each arm -/
theorem qs_block_interleaving (a b : List ρ) (ch : List Bool) :
    (merge a b ch).Perm (a ++ b) ∧ a.Sublist (merge a b ch) ∧ b.Sublist (merge a b ch) :=
  ⟨merge_perm a b ch, merge_sublist_left a b ch, merge_sublist_right a b ch⟩

/-- **classical QS, bounded work after an abort request** (a unit = one large block PAIR: both arms, the poll, the completion
test): the predicate may start answering `true` after any prefix; from then on the coordinating thread — and with it the
two arms, which only exist inside a unit — performs at most two units' worth of actions: the rest of the pair being sieved
and, when the poll of that pair was already passed, the next pair up to its poll. However many large blocks are left. -/
theorem qs_abort_bounded (add : σ → ρ → σ) (enough : σ → Bool) (f : ForkShape)
    (hp : f.after.contains K.poll = true) (s0 : σ) (blocks : List (List ρ × List ρ × List Bool)) (B : Nat)
    (hB : ∀ b ∈ blocks, (compileUnit (forkShape f) (forkUnit f b)).length ≤ B)
    (before after : List (Nat × Bool × Bool))
    (heff : allEffective add enough (run add enough (initFork f s0 blocks) before) after)
    (hab : allAbort after) : after.length ≤ 2 * B := by
  have := abort_bounded_shape add enough (forkShape f) (by simpa [pollsPerUnit, forkShape] using hp) s0
    [blocks.map (forkUnit f)] B
    (by
      intro p hp' u hu
      simp at hp'; subst hp'
      obtain ⟨b, hb, rfl⟩ := List.mem_map.mp hu
      exact hB b hb) before after heff hab
  simpa using this

/-- the length of a unit of the generated QS shapes: the relations of both arms plus the three actions after the join -/
theorem qs_unit_length (b : List ρ × List ρ × List Bool) :
    (compileUnit (forkShape qsMtFork) (forkUnit qsMtFork b)).length = b.1.length + b.2.1.length + 3 ∧
    (compileUnit (forkShape qsStFork) (forkUnit qsStFork b)).length = b.1.length + b.2.1.length + 3 := by
  have hm := (merge_perm b.1 b.2.1 b.2.2).length_eq
  constructor
  · simp [compileUnit, forkShape, forkUnit, qsMtFork, expand, expandK, hm]
  · simp [compileUnit, forkShape, forkUnit, qsStFork, expand, expandK]
    omega

/-- **ECM, bounded work after an abort request** (a unit = one curve): each worker owns a list of curves, `some r` = the curve
reports `r`; after the predicate starts answering `true` at most 8 protocol actions per worker remain in the model, where a true
poll ends the worker. In the source a true poll ends the CURVE (`leavesLoop` says so): every later curve still runs its entry
test `done || abort` and, by `source_named_ok` (`pollFirst`), nothing else. -/
theorem ecm_unit_abort_bounded (add : σ → ρ → σ) (enough : σ → Bool) (s0 : σ)
    (progs : List (List (Option ρ))) (before after : List (Nat × Bool × Bool))
    (heff : allEffective add enough
      (run add enough (initShape ecmUnit s0 (progs.map (fun p => p.map curveUnit))) before) after)
    (hab : allAbort after) : after.length ≤ progs.length * 8 := by
  have := abort_bounded_shape add enough ecmUnit (by decide) s0 (progs.map (fun p => p.map curveUnit)) 4
    (by
      intro prog hprog u hu
      obtain ⟨p, _, rfl⟩ := List.mem_map.mp hprog
      obtain ⟨o, _, rfl⟩ := List.mem_map.mp hu
      cases o <;> simp [compileUnit, curveUnit, ecmUnit, expand, expandK]) before after heff hab
  simpa using this

/-- **ECM's found-factor flag is sound**: with the reports as the store, in every reachable configuration (any schedule, any
stale reads, any abort answers) the flag is set only if some curve has reported, and everything reported is the report of
one of the curves handed to the workers. So a curve skipped because it saw the flag never makes ecm() answer `None`. -/
theorem ecm_flag_sound (progs : List (List (Option ρ))) (sched : List (Nat × Bool × Bool)) :
    let c := run (fun s r => s ++ [r]) (fun s => !s.isEmpty)
      (initShape ecmUnit ([] : List ρ) (progs.map (fun p => p.map curveUnit))) sched
    (c.done = true → c.log ≠ []) ∧ c.store = c.log ∧ (∀ r ∈ c.log, ∃ prog ∈ progs, some r ∈ prog) := by
  intro c
  have h1 := sched_inv_shape (fun (s : List ρ) r => s ++ [r]) (fun s => !s.isEmpty) (fun _ => True) (fun _ => True)
    (fun _ _ _ _ => trivial) ecmUnit ([] : List ρ) (progs.map (fun p => p.map curveUnit)) trivial
    (fun _ _ _ _ _ _ _ _ => trivial) sched
  obtain ⟨hs, _, _, hmem⟩ := h1
  have hstore : c.store = c.log := by
    show (run _ _ _ sched).store = (run _ _ _ sched).log
    rw [hs, foldl_snoc]; simp
  refine ⟨?_, hstore, ?_⟩
  · intro hd
    have := run_done_enough (fun (s : List ρ) r => s ++ [r]) (fun s => !s.isEmpty)
      (by intro s r _; simp) sched
      (initShape ecmUnit ([] : List ρ) (progs.map (fun p => p.map curveUnit)))
      (by simp [initShape]) hd
    intro hnil
    rw [hstore] at this
    simp [hnil] at this
  · intro r hr
    obtain ⟨prog, hprog, u, hu, p, hp, hrp⟩ := hmem r hr
    obtain ⟨q, hq, rfl⟩ := List.mem_map.mp hprog
    obtain ⟨o, ho, rfl⟩ := List.mem_map.mp hu
    cases o with
    | none => simp [curveUnit] at hp
    | some x =>
      simp only [curveUnit, List.mem_singleton] at hp
      subst hp
      simp only [List.mem_singleton] at hrp
      subst hrp
      exact ⟨q, hq, ho⟩


/-! ### non-vacuity of the second generation -/

/-- classical QS with a pool, two large blocks: the first pair's adds interleave (backward arm first), then poll, completion
decision, exit test; the abort answer turns `true` while the first pair is being sieved: the pair is finished (2 more adds), the
poll stops the loop, the second pair is never started: 3 steps, within 2 * 6 -/
example :
    let blocks : List (List Nat × List Nat × List Bool) := [([2, 4], [6], [false, true]), ([1], [3], [])]
    let c0 := run (· + ·) (fun _ => false) (initFork qsMtFork 0 blocks) [(0, false, false)]
    let after := [(0, false, true), (0, false, true), (0, false, true)]
    let c := run (· + ·) (fun _ => false) c0 after
    (compileFork qsMtFork blocks : List (Act Nat)) =
      [Act.add 6, Act.add 2, Act.add 4, Act.poll, Act.publish, Act.check, Act.add 1, Act.add 3, Act.poll, Act.publish, Act.check] ∧
    (compileFork qsStFork blocks : List (Act Nat)) =
      [Act.add 2, Act.add 4, Act.add 6, Act.poll, Act.publish, Act.check, Act.add 1, Act.add 3, Act.poll, Act.publish, Act.check] ∧
    c0.log = [6] ∧ c.log = [6, 2, 4] ∧ finished c = true ∧ after.length = 3 ∧ allAbort after ∧
      (∀ b ∈ blocks, (compileUnit (forkShape qsMtFork) (forkUnit qsMtFork b)).length ≤ 6) := by
  refine ⟨by decide, by decide, by decide, by decide, by decide, by decide, by simp [allAbort], by decide⟩

example : qsMtFork.after.contains K.poll = true ∧ qsStFork.after.contains K.poll = true := by decide

/-- classgroup with a pool: two workers, the abort answer turns `true` while worker 0 is inside its first A value -/
example :
    let progs : List (List (List (List Nat))) := [[[[2, 4], [6]], [[1], [3]]], [[[8], [10, 12]], [[5], []]]]
    let c0 := run (· + ·) (fun _ => false) (initShape cgMt 0 progs) [(0, false, false), (0, false, false), (0, false, false), (0, false, false)]
    let after := [(0, false, true), (1, false, true), (0, false, true), (1, false, true), (0, false, true),
      (0, false, true), (0, false, true), (0, false, true), (0, false, true), (0, false, true)]
    let c := run (· + ·) (fun _ => false) c0 after
    c0.log = [2] ∧ c.log = [2, 4, 6] ∧ finished c = true ∧ after.length = 10 ∧
      (∀ prog ∈ progs, ∀ u ∈ prog, (compileUnit cgMt u).length ≤ 9) := by decide

example : (compileShape cgSt [[[2, 4], [6]]] : List (Act Nat)) =
    [Act.check, Act.add 2, Act.add 4, Act.publish, Act.check, Act.add 6, Act.publish, Act.check, Act.poll] := by decide

/-- ECM with a pool: worker 0 owns curves (nothing, report 7), worker 1 owns (nothing, report 9, nothing): worker 0 reports 7 and sets
the flag; worker 1, inside its first curve's entry test, sees the flag and stops: `9` is never reported, the flag is set and the
log is not empty -/
example :
    let progs : List (List (Option Nat)) := [[none, some 7], [none, some 9, none]]
    let c := run (fun s r => s ++ [r]) (fun s => !s.isEmpty) (initShape ecmUnit ([] : List Nat) (progs.map (fun p => p.map curveUnit)))
      [(0, false, false), (0, false, false), (0, false, false), (0, false, false), (0, false, false), (0, false, false), (1, false, false)]
    c.log = [7] ∧ c.done = true ∧ finished c = true := by decide

example :
    let progs : List (List (Option Nat)) := [[none, some 7], [none, some 9, none]]
    let after := [(0, false, true), (1, false, true), (0, false, true), (1, false, true)]
    (compileShape ecmUnit (([none, some 7] : List (Option Nat)).map curveUnit)) = [Act.check, Act.poll, Act.check, Act.poll, Act.add 7, Act.publish] ∧
    finished (run (fun s r => s ++ [r]) (fun s => !s.isEmpty) (initShape ecmUnit ([] : List Nat) (progs.map (fun p => p.map curveUnit))) after) = true ∧
      after.length ≤ progs.length * 8 := by decide

example : (merge [1, 2, 3] [10, 20] [false, true, true, false] : List Nat) = [10, 1, 2, 20, 3] := by decide


/-! ## the unit-faithful statement: a true poll may end the unit only -/

/-- **Abort request on the unit-level model** (Ymq/Model/SchedUnits.lean: unit boundaries kept; `leaves = false`: a poll answered
`true` ends the UNIT, the worker goes on to its next unit and polls again — the par_iter closures of siqs / mpqs / classgroup and
ECM's do_curve; `leaves = true`: it ends the loop). For every shape whose `pre` polls (generated data: `source_named_ok`), every
schedule prefix `before`, every later schedule on which the predicate answers `true`, with or without stale flag reads and
WITHOUT any assumption on how many steps are taken: the relations added after the request are at most `B` per worker, where `B`
bounds the relations of ONE unit — the remainder of the unit each worker is in; no later unit adds anything, however many remain. -/
theorem abort_unit_bounded (leaves : Bool) (add : σ → ρ → σ) (enough : σ → Bool) (sh : Shape)
    (hp : sh.pre.contains K.poll = true) (s0 : σ) (progs : List (List (List (List ρ)))) (B : Nat)
    (hB : ∀ prog ∈ progs, ∀ u ∈ prog, (pendingAdds (compileUnit sh u)).length ≤ B)
    (before after : List (Nat × Bool × Bool)) (hab : allAbort after) :
    (runU leaves add enough (runU leaves add enough (initU sh s0 progs) before) after).log.length ≤
      (runU leaves add enough (initU sh s0 progs) before).log.length + progs.length * B := by
  have h0 := invU_init sh hp s0 progs B hB
  obtain ⟨i1, l1⟩ := runU_inv leaves add enough B before _ h0
  obtain ⟨_, r2, _⟩ := runU_abort leaves add enough B after _ i1 hab
  have hp' := potU_le B _ i1
  rw [l1] at hp'
  have hl : (initU sh s0 progs : UCfg ρ σ).ws.length = progs.length := by simp [initU]
  rw [hl] at hp'
  omega

/-- ECM: after an abort request each worker reports at most once more (the curve it is in), whatever the number of curves left -/
theorem ecm_unit_abort_faithful (add : σ → ρ → σ) (enough : σ → Bool) (s0 : σ) (progs : List (List (Option ρ)))
    (before after : List (Nat × Bool × Bool)) (hab : allAbort after) :
    (runU false add enough (runU false add enough (initU ecmUnit s0 (progs.map (fun p => p.map curveUnit))) before) after).log.length ≤
      (runU false add enough (initU ecmUnit s0 (progs.map (fun p => p.map curveUnit))) before).log.length + progs.length := by
  have := abort_unit_bounded false add enough ecmUnit (by decide) s0 (progs.map (fun p => p.map curveUnit)) 1
    (by
      intro prog hprog u hu
      obtain ⟨p, _, rfl⟩ := List.mem_map.mp hprog
      obtain ⟨o, _, rfl⟩ := List.mem_map.mp hu
      cases o <;> simp [compileUnit, curveUnit, ecmUnit, expand, expandK, pendingAdds]) before after hab
  simpa using this

/-- non-vacuity: one SIQS worker with a pool, two A values; the request arrives inside the first A (after `add 2`): the worker
finishes that A (4, 6), takes the second A, runs its entry test (check, check, poll -> `true`: leaves the UNIT) and is finished:
1 and 3 are never added; 2 relations after the request, within 1 * 3 -/
example :
    let progs : List (List (List (List Nat))) := [[[[2, 4], [6]], [[1], [3]]]]
    let c0 := runU false (· + ·) (fun _ => false) (initU siqsMt 0 progs)
      [(0, false, false), (0, false, false), (0, false, false), (0, false, false), (0, false, false), (0, false, false)]
    let after := [(0, false, true), (0, false, true), (0, false, true), (0, false, true), (0, false, true),
      (0, false, true), (0, false, true), (0, false, true), (0, false, true)]
    let c := runU false (· + ·) (fun _ => false) c0 after
    c0.log = [2] ∧ c.log = [2, 4, 6] ∧ finishedU c = true ∧ allAbort after ∧
      (∀ prog ∈ progs, ∀ u ∈ prog, (pendingAdds (compileUnit siqsMt u)).length ≤ 3) := by
  refine ⟨by decide, by decide, by decide, by simp [allAbort], by decide⟩


/-- **`sched_inv_shape` on the unit-level model** (both reactions to a true poll, `leaves` arbitrary): whatever the shape, the
schedule, the stale reads and the abort answers, the store is the sequential replay of the lock-order history, which consists of
relations of the workers' own polynomials only, and every invariant `add` preserves is kept -/
theorem sched_inv_units (leaves : Bool) (add : σ → ρ → σ) (enough : σ → Bool) (Inv : σ → Prop) (Good : ρ → Prop)
    (hadd : ∀ s r, Inv s → Good r → Inv (add s r)) (sh : Shape)
    (s0 : σ) (progs : List (List (List (List ρ)))) (h0 : Inv s0)
    (hgood : ∀ prog ∈ progs, ∀ u ∈ prog, ∀ p ∈ u, ∀ r ∈ p, Good r) (sched : List (Nat × Bool × Bool)) :
    let c := runU leaves add enough (initU sh s0 progs) sched
    c.store = c.log.foldl add s0 ∧ Inv c.store ∧ (∀ r ∈ c.log, Good r) ∧
      (∀ r ∈ c.log, ∃ prog ∈ progs, ∃ u ∈ prog, ∃ p ∈ u, r ∈ p) := by
  intro c
  have h := runU_spec leaves add enough s0 (fun r => Good r ∧ ∃ prog ∈ progs, ∃ u ∈ prog, ∃ p ∈ u, r ∈ p) sched
    (initU sh s0 progs) (by simp [initU]) (by simp [initU])
    (by
      intro x hx
      simp only [initU, List.mem_map] at hx
      obtain ⟨prog, hprog, rfl⟩ := hx
      refine ⟨by simp [pendingAdds], ?_⟩
      intro u hu r hr
      obtain ⟨v, hv, rfl⟩ := List.mem_map.mp hu
      obtain ⟨u', hu', p, hp, hrp⟩ := mem_pendingAdds_compileShape sh [v] r (by simpa [compileShape] using hr)
      simp only [List.mem_singleton] at hu'
      subst hu'
      exact ⟨hgood prog hprog _ hv p hp r hrp, prog, hprog, _, hv, p, hp, hrp⟩)
  obtain ⟨a1, a2⟩ := h
  refine ⟨a1, ?_, fun r hr => (a2 r hr).1, fun r hr => (a2 r hr).2⟩
  show Inv c.store
  rw [a1]
  exact foldl_inv add Inv Good hadd _ s0 h0 (fun r hr => (a2 r hr).1)

example :
    let c := runU false (· + ·) (fun s => s ≥ 6) (initU cgMt 0 [[[[2, 4], [6]]], [[[1], [3]]]])
      [(0, false, false), (1, false, false), (0, false, false), (0, false, false), (1, false, false), (0, false, false), (0, false, false),
       (1, false, false), (1, false, false), (1, false, false), (0, false, false), (0, false, false), (1, false, false), (0, false, false), (1, false, false)]
    c.log = [2, 1, 4] ∧ c.store = 7 ∧ c.done = true ∧ finishedU c = true := by decide

end Ymq.C04Shape
