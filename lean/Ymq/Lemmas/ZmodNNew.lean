/-
Lemmas about the model of `ZmodN`, part 5: the constructor `ZmodN::new`.
Uses `mg2adicInv_odd` (termination and correctness of the 2-adic inverse loop, proved for C06
in Ymq/Lemmas/MillerTz.lean): the loop in `ZmodN::new` is the same code applied to `n.digits()[0]`.
-/
import Ymq.Lemmas.ZmodNOps
import Ymq.Lemmas.MillerTz

namespace Ymq.ZmodN
open Ymq.Limbs

theorem W_eq_mg : Ymq.Mg64.W = W := rfl

theorem nwordsAux_lt : ∀ f x, x < W ^ f → x < W ^ (nwordsAux f x) := by
  intro f
  induction f with
  | zero => intro x h; simpa [nwordsAux] using h
  | succ f ih =>
    intro x h
    unfold nwordsAux
    by_cases h0 : x = 0
    · simp [h0]
    · simp only [h0, if_false]
      have h1 : x / W < W ^ f := by
        rw [Nat.div_lt_iff_lt_mul W_pos]; rwa [pow_succ] at h
      have := ih _ h1
      rw [Nat.add_comm, pow_succ]
      rwa [Nat.div_lt_iff_lt_mul W_pos] at this

theorem nwordsAux_le : ∀ f x j, x < W ^ j → nwordsAux f x ≤ j := by
  intro f
  induction f with
  | zero => intro x j _; simp [nwordsAux]
  | succ f ih =>
    intro x j h
    unfold nwordsAux
    by_cases h0 : x = 0
    · simp [h0]
    · simp only [h0, if_false]
      cases j with
      | zero => simp at h; omega
      | succ j =>
        have h1 : x / W < W ^ j := by
          rw [Nat.div_lt_iff_lt_mul W_pos]; rwa [pow_succ] at h
        have := ih _ j h1
        omega

theorem nwordsAux_pos (f x : Nat) (hx : x ≠ 0) : 1 ≤ nwordsAux (f + 1) x := by
  unfold nwordsAux; simp [hx]

/-- `ZmodN::new(n)` succeeds for every odd `n < 2^512` and returns a well-formed context. -/
theorem new_valid' (n : Nat) (hodd : n % 2 = 1) (hlt : n < 2 ^ 512) :
    ∃ c, new n = some c ∧ Valid c ∧ c.n = n ∧ c.k = nwords n := by
  have hW8 : (2 : Nat) ^ 512 = W ^ 8 := by rw [← two_pow_64]
  have hn8 : n < W ^ 8 := by rw [← hW8]; exact hlt
  have hn0 : n ≠ 0 := by omega
  have hnp : 0 < n := by omega
  obtain ⟨v, hv1, hv2, hv3⟩ := Ymq.Mg64.mg2adicInv_odd (n % W) (by
    have : W = 2 * (W / 2) := by decide
    rw [this, Nat.mod_mul_right_mod]; exact hodd)
  rw [W_eq_mg] at hv2 hv3
  have hk8 : nwords n ≤ 8 := nwordsAux_le _ _ _ hn8
  have hk1 : 1 ≤ nwords n := nwordsAux_pos _ _ hn0
  have hnk : n < W ^ nwords n := by
    apply nwordsAux_lt
    exact lt_of_lt_of_le hn8 (Nat.pow_le_pow_right W_pos (by omega))
  have hR : 2 ^ (32 * nwords n) * 2 ^ (32 * nwords n) = W ^ nwords n := by
    have e : 32 * nwords n + 32 * nwords n = 64 * nwords n := by ring
    rw [← pow_add, e, two_pow_64]
  have hr8 : W ^ nwords n % n < W ^ 8 := lt_trans (Nat.mod_lt _ hnp) hn8
  have hr28 : W ^ nwords n % n * (W ^ nwords n % n) % n < W ^ 8 := lt_trans (Nat.mod_lt _ hnp) hn8
  unfold new
  have c1 : ¬ (n % 2 ≠ 1) := by omega
  have c2 : ¬ ¬ (n < 2 ^ (64 * MW)) := by
    rw [show 64 * MW = 512 from rfl]; exact not_not.2 hlt
  simp only [c1, c2, if_false, hv1, hR]
  refine ⟨_, rfl, ?_, rfl, rfl⟩
  exact {
    kpos := hk1
    kle := hk8
    nodd := hodd
    nlt := hnk
    hninv := by
      show (n * v + 1) % W = 0
      have h1 : n % W * v + 1 ≡ n * v + 1 [MOD W] := ((Nat.mod_modEq n W).mul_right v).add_right 1
      have h2 : n * v + 1 ≡ 0 [MOD W] := h1.symm.trans hv3
      simpa [Nat.ModEq] using h2
    rlen := fromUint_length _
    rwf := fromUint_Wf _
    rval := fromUint_val hr8
    r2len := fromUint_length _
    r2wf := fromUint_Wf _
    r2val := by
      show val (fromUint _) = _
      rw [fromUint_val hr28, ← Nat.mul_mod]
  }

end Ymq.ZmodN
