/-
C01 ∘ (C03/qs64, C03/squfof): the closed factor theorems of Props/C01Closed.lean, second version.
Two oracle hypotheses are replaced by "the field answers as the MODEL of the whole function does":

  old premise                         new premise
  `UsesQs64 o`        (the pair comes out of `final_step` for SOME relations)
                                      `Qs64Model o`: `(o.qs64 t n).1 = some (a, b)` only if the
                                      model `Qsieve64.qsieve n k kernel isPrime` returns `(a, b)`
                                      for some multiplier `k < 30`, kernel vectors, primality answers
  `UsesSqufofExit o`  (one of two exits, with the NAMED FACT `0 < p_prev < n`)
                                      `SqufofModel exactSeed o`: only if the model
                                      `Squfof.squfof exactSeed n` returns `(a, b)`

Neither new premise restricts `n`. The models do return improper pairs for tiny arguments
(`qsieve(6) = (1, 6)`; `squfof(p) = (p, 1)` for primes `p ≤ 47`), so `OracleOK o` is NOT a consequence;
what is proved instead is that `factor` never calls them on such arguments:
`factor o = factor (guardOracle o)` (`factor_guard_eq`: trial division strips the primes `≤ 199`, every
recursive argument divides the stripped value, so every argument of the two fields is `≥ 211`; the
arms assert 64 bits) and `OracleOK (guardOracle o)`. No premise on the `none` answers of `pp` is
needed: the models handle perfect squares themselves (their first exits).
Helper definitions and lemmas: Ymq/Lemmas/FactorClosed2.lean. The old theorems are unchanged.

STILL ASSUMED in the v2 theorems (unchanged from v1 unless said):
* `UsesPerfectPower`, `UsesFinalStep`, `UsesRho64`, `UsesPm1`, `UsesEcmExits`, `UsesUnexpectedFactor`:
  "the field returns an output of the model", tied to the code by the K streams of C08/C11/C16;
* `ResidualOK o`: an `UnexpectedFactor(d)` is not the sieved number itself;
* `Qs64Model`, `SqufofModel`: tied to the code by the K streams of C03 (`qs64`, `qs64_rels`, `squfof`);
  inside `Qs64Model` the multiplier is only known to be `< 30` (`select_multiplier` uses `f64`), the
  kernel vectors and primality answers are arbitrary; inside `SqufofModel` the seed is the exact
  floor square root — for any other seed within 1 of it (`SeedOK`, the IEEE fact about
  `(n as f64).sqrt()`) the run is the same (`squfofModel_exactSeed`);
* `prime` and `abort` stay arbitrary.
GONE: the abstract relations / kernel of `UsesQs64`; the named fact `0 < p_prev < n` of `UsesSqufofExit`.
-/
import Ymq.Lemmas.FactorClosed2
import Ymq.Props.C01Closed

namespace Ymq.C01
open Ymq.Factor

variable {σ : Type}

/-- every admissible seed gives the same SQUFOF run, so the premise may as well name the exact one -/
theorem squfofModel_exactSeed {seed : Nat → Nat} (hs : Ymq.Squfof.SeedOK seed) (o : Oracle σ)
    (h : SqufofModel seed o) : SqufofModel Ymq.Squfof.exactSeed o := by
  intro t n a b hq
  rw [← Ymq.C03Squfof.squfof_seed_irrelevant hs Ymq.Squfof.exactSeed_ok n]
  exact h t n a b hq

/-- **`oracleOK_of_models_v2`**: for every oracle whose fields return outputs of the models — the
`qs64` and `squfof` fields outputs of the models of the WHOLE functions — the contract `OracleOK`
holds for `guardOracle o` (= `o` with those two fields silenced outside `51 ≤ n`, `bits n ≤ 64`), and
`factor` cannot tell `o` from `guardOracle o`, for any fuel, input, selector and oracle state. -/
theorem oracleOK_of_models_v2 (o : Oracle σ) (hpp : UsesPerfectPower o) (hfs : UsesFinalStep o)
    (hqs : Qs64Model o) (hrho : UsesRho64 o) (hpm1 : UsesPm1 o) (hecm : UsesEcmExits o)
    (hsq : SqufofModel Ymq.Squfof.exactSeed o) (hun : UsesUnexpectedFactor o) (hres : ResidualOK o) :
    OracleOK (guardOracle o) ∧
      ∀ fuel n alg os, factor o fuel n alg os = factor (guardOracle o) fuel n alg os := by
  have hok := oracleOK_guard Ymq.Squfof.exactSeed_ok hpp hfs hqs hrho hpm1 hecm hsq hun hres
  exact ⟨hok, fun fuel n alg os => factor_guard_eq o hok fuel n alg os⟩

/-- **`factor_exact_closed_v2`**: a list returned by `factor` multiplies to exactly `n`, is sorted,
every element divides `n` and is `≥ 2` (for `n ≥ 1`) — with `qsieve64::qsieve` and `squfof::squfof`
inside the model. -/
theorem factor_exact_closed_v2 (o : Oracle σ) (hpp : UsesPerfectPower o) (hfs : UsesFinalStep o)
    (hqs : Qs64Model o) (hrho : UsesRho64 o) (hpm1 : UsesPm1 o) (hecm : UsesEcmExits o)
    (hsq : SqufofModel Ymq.Squfof.exactSeed o) (hun : UsesUnexpectedFactor o) (hres : ResidualOK o)
    (fuel n : Nat) (alg : Algo) (os : σ) (l : List Nat)
    (h : factor o fuel n alg os = .ok l) :
    l.prod = n ∧ l.Pairwise (· ≤ ·) ∧ ∀ x ∈ l, x ∣ n ∧ (1 ≤ n → 2 ≤ x) := by
  obtain ⟨hok, heq⟩ := oracleOK_of_models_v2 o hpp hfs hqs hrho hpm1 hecm hsq hun hres
  rw [heq] at h
  exact factor_exact (guardOracle o) hok fuel n alg os l h

/-- **`factor_total_closed_v2`**: selector precondition met and enough fuel (both on the
trial-divided value) ⟹ a list with product `n` or the declared failure; no panic site of lib.rs —
with `qsieve64::qsieve` and `squfof::squfof` inside the model. -/
theorem factor_total_closed_v2 (o : Oracle σ) (hpp : UsesPerfectPower o) (hfs : UsesFinalStep o)
    (hqs : Qs64Model o) (hrho : UsesRho64 o) (hpm1 : UsesPm1 o) (hecm : UsesEcmExits o)
    (hsq : SqufofModel Ymq.Squfof.exactSeed o) (hun : UsesUnexpectedFactor o) (hres : ResidualOK o)
    (fuel n : Nat) (alg : Algo) (os : σ)
    (hsel : SelectorPre alg (trialDivideBy 1100 Ymq.Gen.Primality.smallPrimes n []).1)
    (hfuel : bits (trialDivideBy 1100 Ymq.Gen.Primality.smallPrimes n []).1 ≤ fuel) :
    (∃ l, factor o fuel n alg os = .ok l ∧ l.prod = n) ∨ factor o fuel n alg os = .failure := by
  obtain ⟨hok, heq⟩ := oracleOK_of_models_v2 o hpp hfs hqs hrho hpm1 hecm hsq hun hres
  rw [heq]
  exact Ymq.C03.factor_total (guardOracle o) hok fuel n alg os hsel hfuel

/-- the call-site fact behind the v2 theorems, stated on its own: the value `factor` hands to
`factor_impl` has no prime factor `≤ 199`, hence is 1 or at least 211 -/
theorem trial_divided_noSmall (n : Nat) (h0 : n ≠ 0) (hb : bits n ≤ 500) :
    (∀ p ∈ Ymq.Gen.Primality.smallPrimes, ¬ p ∣ (trialDivideBy 1100 Ymq.Gen.Primality.smallPrimes n []).1) ∧
    ((trialDivideBy 1100 Ymq.Gen.Primality.smallPrimes n []).1 = 1 ∨
      211 ≤ (trialDivideBy 1100 Ymq.Gen.Primality.smallPrimes n []).1) := by
  have h := trialDiv_noSmall h0 hb
  rw [trialDiv_def] at h
  refine ⟨h, ?_⟩
  by_cases h1 : (trialDivideBy 1100 Ymq.Gen.Primality.smallPrimes n []).1 = 1
  · exact Or.inl h1
  · exact Or.inr (h.ge h1)

/-- the premises cannot be weakened to "OracleOK o": an oracle that IS the qsieve64 model violates the
`qs64` clause at `n = 6` (never reached by `factor`) -/
theorem qs64_model_violates_oracleOK_clause :
    (Ymq.Qsieve64.qsieve 6 6 [] (fun _ => true)).toOption = some (some (1, 6)) ∧ ¬ PairOK 6 1 6 :=
  ⟨Ymq.C03Qs64.qs64_improper_when_n_eq_k, fun h => by have := h.2.1; omega⟩

/-! ### non-vacuity: oracles whose `qs64` / `squfof` fields ARE the models -/

open Ymq.Factor.Closed

/-- `Option` view of a model run (`.error` = the real function does not return) -/
def qs64Of : Ymq.Relations.M (Option (Nat × Nat)) → Option (Nat × Nat)
  | .ok r => r
  | .error _ => none

/-- `modelOracle` of Props/C01Closed.lean with its two constant-`None` fields replaced by the models,
WITHOUT any guard on `n`: `qsieve` with multiplier 1 and no kernel vector (then only its two early
exits answer `Some`: the whole sieve cannot be evaluated by the kernel), `squfof` with the exact seed -/
def modelOracle2 : Oracle Unit :=
  { modelOracle with
    qs64 := fun s n => (qs64Of (Ymq.Qsieve64.qsieve n 1 [] (fun _ => true)), s)
    squfof := fun s n => ((Ymq.Squfof.squfof Ymq.Squfof.exactSeed n).getD none, s) }

theorem model2_qs64 : Qs64Model modelOracle2 := by
  intro t n a b h
  refine ⟨1, [], fun _ => true, by decide, ?_⟩
  change qs64Of (Ymq.Qsieve64.qsieve n 1 [] (fun _ => true)) = some (a, b) at h
  cases hr : Ymq.Qsieve64.qsieve n 1 [] (fun _ => true) with
  | error e => rw [hr] at h; simp [qs64Of] at h
  | ok r => rw [hr] at h; simp only [qs64Of] at h; rw [h]

theorem model2_squfof : SqufofModel Ymq.Squfof.exactSeed modelOracle2 := by
  intro t n a b h
  change (Ymq.Squfof.squfof Ymq.Squfof.exactSeed n).getD none = some (a, b) at h
  cases hr : Ymq.Squfof.squfof Ymq.Squfof.exactSeed n with
  | none => rw [hr] at h; simp at h
  | some r => rw [hr] at h; simp only [Option.getD_some] at h; rw [h]

/-- every premise of the v2 theorems holds for it … -/
example : OracleOK (guardOracle modelOracle2) ∧
    ∀ fuel n alg os, factor modelOracle2 fuel n alg os = factor (guardOracle modelOracle2) fuel n alg os :=
  oracleOK_of_models_v2 modelOracle2 model_pp model_finalStep model2_qs64 model_rho model_pm1 model_ecm
    model2_squfof model_unexpected ⟨model_residual.unexpectedNotWhole⟩

/-- … although the v1 contract fails for it: its `squfof` field returns the trivial split `(2, 1)` -/
example : ¬ OracleOK modelOracle2 := by
  intro h
  have := h.squfof () 2 2 1 (by decide) (by decide +kernel)
  exact absurd this.2.2 (by decide)

/-- `factor(4·58447, Algo::Squfof)`: trial division, then the UNGUARDED SQUFOF model splits 211·277 -/
example : factor modelOracle2 20 233788 .squfof () = .ok [2, 2, 211, 277] := by decide +kernel

example : [2, 2, 211, 277].prod = 233788 ∧ [2, 2, 211, 277].Pairwise (· ≤ ·) ∧
    ∀ x ∈ [2, 2, 211, 277], x ∣ 233788 ∧ (1 ≤ 233788 → 2 ≤ x) :=
  factor_exact_closed_v2 modelOracle2 model_pp model_finalStep model2_qs64 model_rho model_pm1 model_ecm
    model2_squfof model_unexpected ⟨model_residual.unexpectedNotWhole⟩ 20 233788 .squfof () _
    (by decide +kernel)

example : (∃ l, factor modelOracle2 20 233788 .squfof () = .ok l ∧ l.prod = 233788) ∨
    factor modelOracle2 20 233788 .squfof () = .failure :=
  factor_total_closed_v2 modelOracle2 model_pp model_finalStep model2_qs64 model_rho model_pm1 model_ecm
    model2_squfof model_unexpected ⟨model_residual.unexpectedNotWhole⟩ 20 233788 .squfof ()
    (fun _ => by decide +kernel) (by decide +kernel)

/-- the same oracle with a `perfect_power` that never answers (`UsesPerfectPower` holds trivially):
then a square reaches the `Qs64` arm and the qsieve64 MODEL splits it (its first early exit) -/
def modelOracle3 : Oracle Unit := { modelOracle2 with pp := fun s _ => (none, s) }

theorem model3_pp : UsesPerfectPower modelOracle3 := by
  intro t n r h
  change (none : Option (Nat × Nat)) = some r at h
  cases h

example : factor modelOracle3 20 (4 * 44521) .qs64 () = .ok [2, 2, 211, 211] := by decide +kernel

example : [2, 2, 211, 211].prod = 4 * 44521 ∧ [2, 2, 211, 211].Pairwise (· ≤ ·) ∧
    ∀ x ∈ [2, 2, 211, 211], x ∣ 4 * 44521 ∧ (1 ≤ 4 * 44521 → 2 ≤ x) :=
  factor_exact_closed_v2 modelOracle3 model3_pp model_finalStep model2_qs64 model_rho model_pm1 model_ecm
    model2_squfof model_unexpected ⟨model_residual.unexpectedNotWhole⟩ 20 (4 * 44521) .qs64 () _
    (by decide +kernel)

example : (∃ l, factor modelOracle3 20 (4 * 44521) .qs64 () = .ok l ∧ l.prod = 4 * 44521) ∨
    factor modelOracle3 20 (4 * 44521) .qs64 () = .failure :=
  factor_total_closed_v2 modelOracle3 model3_pp model_finalStep model2_qs64 model_rho model_pm1 model_ecm
    model2_squfof model_unexpected ⟨model_residual.unexpectedNotWhole⟩ 20 (4 * 44521) .qs64 ()
    (fun _ => by decide +kernel) (by decide +kernel)

end Ymq.C01
