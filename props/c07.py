"""C07 — Montgomery modular arithmetic equals ordinary arithmetic modulo n.

64-bit routines (mg_*), the multiword ring ZmodN and the private 128-bit type M128.
Request lines: see lean/Ymq/Drv/Mg64.lean and lean/Ymq/Drv/ZmodN.lean.
"""
# SIZE AUDIT (quick tier), measured on cases('quick', Random(1)): bit length of the modulus n per op
#   op                          quick max   thorough max   code supports                  boundary classes reached in quick
#   mg_2adic_inv/redc/mul/inv   64          64             u64 (odd n < 2^64)             31,32,33,62,63,64 bits: >= 7 cases each (random styles);
#                                                                                         since the audit also 1 per op deterministically (boundary_cases)
#   m128_inv_2adic/r_r2/add/    128         128            u128 (odd n < 2^128; R = 2^64  62,63,64,65,126,127,128: all reached by the random styles, 65 bits
#     sub/mul                                              for n < 2^64)                  only 4..23 times per op -> now also deterministic
#   zn_new/mul/mulmod/redc/     512         512            ZmodN: odd n < 2^512 (8 words) every 64k-1, 64k, 64k+1 (k = 1..7), 499, 500 reached by every op, but
#     from_int/to_int/from_to                              (factor() refuses > 500 bits)  64k+1 (top word = 1) only 1..60 times per op (zn_inv at 129 bits: once)
#   zn_add/sub/redc_large       512 (chk)   512 (chk)      same; 501..512 chk only        -> now 3 moduli x every op at each of 2,31..33,63..65,...,447..449,499,500
#   zn_inv/zn_gcd               500         500            n <= 500 bits here (C09)       bits, and 501, 511, 512 in the band conventions (oracle off)
#   mint_lt/add/sub             sz 1..8 words, full words   8 words                        all sizes
# Verdict: no size class was missing in quick (quick = thorough / 10 in count only); the boundary family makes the classes
# independent of the seed.
import math
import random
from vlib.pipeline import Case
from vlib import gen

PID = "C07"
GEN = []
LEAN = ["Ymq.Props.C07"]
AUDIT = "Ymq.Audit.C07"
THEOREMS = ["Ymq.C07." + t for t in (
    "mgRedc_spec mgMul_spec mg2adicInv_spec mgInv_spec new_spec mulmod_spec mintMulmod_spec mulmod_overflow_carry_zero "
    "add_spec sub_spec add_spec_partial sub_spec_partial add_512bit_counterexample "
    "redc_spec redc_spec_partial from_int_spec to_int_spec from_to_int redc_large_spec inv_spec gcd_spec "
    "M128_mul_spec M128_add_sub_spec M128_eq_ZmodN M128_inv2adic_spec M128_r_r2_spec").split()]
HYPOTHESES = ["inv_mod_spec (theorem inv_spec): arith_gcd::inv_mod(a, n) returns the inverse i < n of a modulo n, "
              "or fails only when gcd(a, n) != 1 (this is property C09; ZmodN::inv/gcd are thin wrappers around arith_gcd)"]
PROFILES = ["release", "chk"]
W = 1 << 64
M64 = W - 1
RULE = ("first, in both tiers, a deterministic boundary family: every op at moduli of exactly 2, 31..33, 63..65, 127..129, ..., 447..449, 499, 500 bits "
        "(2^B-s, 2^(B-1)+s, random) and 501/511/512 bits (band conventions), M128 at 63..66/96/126..128 bits, mg_* at 2/31..33/62..64 bits; then "
        "moduli: k = 1..8 words x styles {2^B-s, 2^(B-1)+s, all-ones, 2^j+1, single-bit words, random, mixed patterns, small top word}, "
        "B = min(64k, 500); a separate band of 501..512-bit moduli (oracle off, model compared); operands {0, 1, n-1, n/2, near n, random, "
        "near-n pairs that force the overflow path of _mint_mulmod}; redc inputs x < n*R random / maximal / with all-ones words above the "
        "current row (family of the old carry defect); non-trivial = some operand outside {0,1}; distinct by request line")
MODELLED = [
    "arith_montgomery::{mg_2adic_inv, mg_redc, mg_mul} word-exact (Ymq/Model/Mg64.lean); mg_inv = mg_redc + arith::inv_mod64 "
    "(C08's step-by-step i128 extended-Euclid model, Ymq/Model/Arith.lean) + mg_mul (Ymq/Model/Mg64Inv.lean)",
    "arith_montgomery::ZmodN::{new, from_int, to_int, mul, add, sub, redc, redc_large, inv, gcd}, mint_lt, mint_add, mint_sub, "
    "mint_mulmod/_mint_mulmod word-exact incl. every debug_assert/assert/overflow/index panic site (Ymq/Model/ZmodN.lean on the "
    "shared limb library Ymq/Model/Limbs.lean); the arrays z (mulmod) and m (redc) are modelled by their live window",
    "ecm128::M128::{inv_2adic, r_r2, add, sub, mul, mul256} as u128 arithmetic with explicit wrap/overflow (Ymq/Model/M128.lean)",
]
UNMODELLED = [
    "u128 arithmetic of rustc/LLVM is taken to be arithmetic mod 2^128",
    "bnum U1024 operators used by ZmodN (%, *, <<, <, bits, digits, from_digits, casts) are modelled as the mathematical Nat operations, not verified",
    "arith_gcd::inv_mod / big_gcd (property C09) are a parameter of the model of ZmodN::inv (theorem hypothesis inv_mod_spec) and Nat.gcd "
    "for ZmodN::gcd; the driver instantiates them with a reference extended Euclid, so zn_inv/zn_gcd lines check the wrapper only",
    "memory safety of get_unchecked: the model indexes the same words but does not model undefined behaviour",
    "mul256 is a nested fn of M128::mul and is exercised only through it",
]


# ---------------------------------------------------------------- plain-integer reference

def ninv_of(n, bits=64):
    return (-pow(n, -1, 1 << bits)) % (1 << bits)


def nwords(n):
    return max(1, (n.bit_length() + 63) // 64)


def cios(n, k, x, y):
    """value of the z window of _mint_mulmod after the k rows (Nat recurrence, for classification only)"""
    ninv = ninv_of(n)
    a = 0
    for i in range(k):
        t = a + ((x >> (64 * i)) & M64) * y
        m = (t & M64) * ninv & M64
        a = (t + m * n) >> 64
    return a


def redc_trace(n, k, x):
    """word-level walk of ZmodN::redc: returns (number of rows whose carry rippled through at least one
    all-ones word, carry left the array?)"""
    ninv = ninv_of(n)
    m = [(x >> (64 * i)) & M64 for i in range(16)]
    nd = [(n >> (64 * i)) & M64 for i in range(k)]
    ripples = 0
    for i in range(k):
        mn = m[i] * ninv & M64
        c = 0
        for j in range(k):
            t = mn * nd[j] + m[i + j] + c
            m[i + j] = t & M64
            c = t >> 64
        t = m[i + k] + c
        m[i + k] = t & M64
        c = t >> 64
        idx = i + k + 1
        steps = 0
        while c:
            if idx >= 16:
                return ripples, True
            t = m[idx] + 1
            m[idx] = t & M64
            c = t >> 64
            idx += 1
            steps += 1
        if steps >= 2:
            ripples += 1
    return ripples, False


# ---------------------------------------------------------------- generators

SMALL = [1, 3, 5, 7, 9, 15, 17, 59, 189, 255, 257, 65537]


def modulus(rng, k, band=False):
    """odd modulus with exactly k words; at most 500 bits unless band (501..512 bits, k = 8)"""
    top = 512 if band else min(64 * k, 500)
    low = 501 if band else 64 * (k - 1) + 1          # minimal bit length
    if k == 1:
        low = 2
    style = rng.choice(["top-minus", "half-plus", "ones", "pow2+1", "bitwords", "rand", "mixed", "small-top"])
    s = rng.choice(SMALL + [rng.getrandbits(20) | 1])
    if style == "top-minus":
        n = (1 << top) - s
    elif style == "half-plus":
        n = (1 << (top - 1)) + s
    elif style == "ones":
        n = (1 << rng.randrange(max(low, top - 3), top + 1)) - 1
    elif style == "pow2+1":
        n = (1 << rng.randrange(low - 1 if low > 2 else 1, top)) + 1
    elif style == "bitwords":
        n = sum(1 << (64 * i + rng.randrange(64)) for i in range(k - 1)) | (1 << rng.randrange(low - 1, top)) | 1
    elif style == "rand":
        b = rng.randrange(low, top + 1)
        n = rng.getrandbits(b) | (1 << (b - 1)) | 1
    elif style == "mixed":
        n = gen.rand_words(rng, k, "mixed") & ((1 << top) - 1)
        n |= (1 << rng.randrange(low - 1, top)) | 1
    else:
        b = rng.randrange(low, min(top, low + 8) + 1)
        n = rng.getrandbits(b) | (1 << (b - 1)) | 1
    n |= 1
    if n < 3:
        n = 3
    assert n % 2 == 1 and nwords(n) == k and n.bit_length() <= top, (style, k, n)
    return n


def residue(rng, n):
    c = rng.randrange(10)
    if c == 0:
        return 0
    if c == 1:
        return 1 % n
    if c == 2:
        return n - 1
    if c == 3:
        return n // 2
    if c in (4, 5):
        return (n - 1 - rng.getrandbits(rng.choice([3, 8, 70]))) % n
    if c == 6:
        return gen.rand_words(rng, nwords(n)) % n
    return rng.randrange(n)


def redc_input(rng, n, k):
    R = 1 << (64 * k)
    c = rng.randrange(8)
    if c == 0:
        return rng.randrange(n * R)
    if c == 1:
        return n * R - 1 - rng.getrandbits(rng.choice([1, 64, 64 * k]))
    if c == 2:
        return rng.getrandbits(64 * k)                       # to_int shape
    if c == 3:
        return residue(rng, n) * R + rng.choice([0, 1, R - 1, rng.getrandbits(64 * k)])
    # all-ones words above the rows: high part close to n (n = 2^(64k) - s has all-ones words), or explicit ones
    hi = (n - 1 - rng.getrandbits(rng.choice([0, 1, 8, 64]))) % n
    ones = ((1 << (64 * rng.randrange(1, k + 1))) - 1) << (64 * rng.randrange(0, k))
    hi2 = (hi | ones)
    if hi2 < n:
        hi = hi2
    lo = rng.choice([R - 1, rng.getrandbits(64 * k), gen.rand_words(rng, k, "mixed")])
    return hi * R + lo


def words_of(x, length):
    return ",".join(str((x >> (64 * i)) & M64) for i in range(length)) if length else "-"


def zn_cases(rng, n, k, band, count):
    """count request lines for one modulus"""
    R = 1 << (64 * k)
    chk_only = ["chk"] if band else None      # ops whose release/chk behaviour differs for 512-bit moduli
    o = not band
    out = []
    for _ in range(count):
        c = rng.randrange(20)
        x, y = residue(rng, n), residue(rng, n)
        if c < 6:
            if rng.randrange(3) == 0:
                # both operands close to n: with n close to R this is the overflow path of _mint_mulmod
                x = (n - 1 - rng.getrandbits(rng.choice([1, 4, 32]))) % n
                y = (n - 1 - rng.getrandbits(rng.choice([1, 4, 32]))) % n
            out.append(Case(f"zn_mul {n} {x} {y}", o=o))
            if c == 0:
                out.append(Case(f"zn_mulmod {n} {x} {y}", o=o))
        elif c < 8:
            out.append(Case(f"zn_add {n} {x} {y}", o=o, profiles=chk_only))
        elif c < 10:
            out.append(Case(f"zn_sub {n} {x} {y}", o=o, profiles=chk_only))
        elif c < 14:
            out.append(Case(f"zn_redc {n} {redc_input(rng, n, k)}", o=o))
        elif c == 14:
            hi = redc_input(rng, n, k)
            if k == 8:
                hi >>= 64 * rng.randrange(1, 4)            # keep the slice below 24 words
            lo = rng.choice([R - 1, 0, rng.getrandbits(64 * k)])
            xx = hi * R + lo
            need = max(k, (xx.bit_length() + 63) // 64)
            length = rng.randrange(need, min(k + 16, 23) + 1) if need <= min(k + 16, 23) else need
            out.append(Case(f"zn_redc_large {n} {words_of(xx, length)}", o=o, profiles=chk_only))
        elif c == 15:
            out.append(Case(f"zn_from_int {n} {x}", o=o))
        elif c == 16:
            out.append(Case(f"zn_to_int {n} {x}", o=o))
        elif c == 17:
            out.append(Case(f"zn_from_to {n} {x}", o=o))
        elif c == 18:
            if not band and n.bit_length() <= 500:
                if rng.randrange(3) == 0 and n > 15:
                    # operand sharing a factor with n when n has a small factor, else random
                    for p in (3, 5, 7, 11, 13):
                        if n % p == 0:
                            x = (x - x % p) % n
                            break
                out.append(Case(f"zn_inv {n} {x}", o=o))
                out.append(Case(f"zn_gcd {n} {x}", o=o))
        else:
            out.append(Case(f"zn_new {n}", o=o))
    return out


def m128_cases(rng, count):
    out = []
    for _ in range(count):
        k = rng.choice([1, 2, 2, 2])
        n = modulus(rng, k)
        R = 1 << (64 * k)
        ninv = ninv_of(n, 64 * k)
        x, y = residue(rng, n), residue(rng, n)
        c = rng.randrange(8)
        if c == 0:
            if rng.randrange(4) == 0:
                # n whose inverse modulo 2^128 is a small odd number (the start value of the loop then overshoots)
                inv = rng.randrange(3, 1 << rng.choice([3, 8, 30, 62]), 2)
                j = (-pow(1 << 128, -1, inv)) % inv
                if j and ((j << 128) + 1) // inv >= W:
                    n = ((j << 128) + 1) // inv
            out.append(Case(f"m128_inv_2adic {n}"))
        elif c == 1:
            out.append(Case(f"m128_r_r2 {n} {ninv}"))
        elif c == 2:
            out.append(Case(f"m128_add {n} {x} {y}"))
            out.append(Case(f"zn_add {n} {x} {y}"))
        elif c == 3:
            out.append(Case(f"m128_sub {n} {x} {y}"))
            out.append(Case(f"zn_sub {n} {x} {y}"))
        else:
            if rng.randrange(3) == 0:
                x = (n - 1 - rng.getrandbits(4)) % n
                y = (n - 1 - rng.getrandbits(4)) % n
            # same operands to the general ring: the two answers are checked against the same value
            out.append(Case(f"m128_mul {n} {ninv} {x} {y}"))
            out.append(Case(f"zn_mul {n} {x} {y}"))
    return out


def raw_cases(rng, count):
    """the limb helpers called directly through the hook (in-domain shapes only)"""
    out = []
    for _ in range(count):
        sz = rng.randrange(1, 9)
        n = modulus(rng, sz) if sz < 8 else modulus(rng, 8, band=rng.randrange(2) == 0)
        x, y = residue(rng, n), residue(rng, n)
        c = rng.randrange(3)
        if c == 0:
            a = rng.choice([x, x + y, n, n - 1, y])
            if a >> (64 * 8):
                a = x
            out.append(Case(f"mint_lt {words_of(a, 8)} {words_of(n, 16)} {sz}"))
        elif c == 1:
            if sz == 8 and (x + y) >> 512:
                y = 0
            out.append(Case(f"mint_add {words_of(x, 8)} {words_of(y, 8)} {sz}"))
        else:
            if x < y and sz < 8:
                a, b = x + n, y                           # the (x + n) - y shape of ZmodN::sub
            else:
                a, b = max(x, y), min(x, y)
            out.append(Case(f"mint_sub {words_of(a, 8)} {words_of(b, 8)} {sz}"))
    return out


def outside_domain(rng, count):
    """inputs outside the documented domain: the model predicts the checked profile (panic sites)"""
    out = []
    for _ in range(count):
        k = rng.randrange(1, 9)
        n = modulus(rng, k)
        R = 1 << (64 * k)
        c = rng.randrange(8)
        big = n + rng.getrandbits(rng.choice([1, 8, 64]))
        if big >> 512:
            big = n
        if c == 0:
            out.append(Case(f"zn_mul {n} {big} {residue(rng, n)}", o=False, profiles=["chk"]))
        elif c == 1:
            out.append(Case(f"zn_add {n} {residue(rng, n)} {big}", o=False, profiles=["chk"]))
        elif c == 2:
            out.append(Case(f"zn_sub {n} {big} {residue(rng, n)}", o=False, profiles=["chk"]))
        elif c == 3:
            xx = n * R + rng.getrandbits(rng.choice([1, 64, 64 * k]))
            if xx >> 1024:
                xx = n * R
            out.append(Case(f"zn_redc {n} {xx}", o=False, profiles=["chk"]))
        elif c == 4:
            out.append(Case(f"zn_new {rng.choice([0, 2, n + 1, 1 << 512, (1 << 512) + 1, (1 << 600) + 1])}", o=False))
        elif c == 5:
            length = rng.choice([0, k - 1, k + 17, 23, 24, 25])
            xx = rng.getrandbits(64 * max(length, 1))
            out.append(Case(f"zn_redc_large {n} {words_of(xx, max(length, 0))}", o=False, profiles=["chk"]))
        elif c == 6:
            out.append(Case(f"zn_from_int {n} {rng.choice([n, big, (1 << 512) + 5, (1 << 1023) + 1])}", o=False, profiles=["chk"]))
        else:
            out.append(Case(f"zn_mulmod {n} {rng.getrandbits(512)} {residue(rng, n)}", o=False))
    return out


def mg64_cases(rng, N):
    for i in range(N):
        n = gen.odd_modulus(rng, 1)
        ninv = ninv_of(n)
        c = i % 4
        if c == 0:
            yield Case(f"mg_2adic_inv {n}")
        elif c == 1:
            x = gen.residue(rng, n) * W + rng.choice([0, 1, W - 1, rng.getrandbits(64)])
            yield Case(f"mg_redc {n} {ninv} {x}")
        else:
            yield Case(f"mg_mul {n} {ninv} {gen.residue(rng, n)} {gen.residue(rng, n)}")
    # mg_inv: moduli below and above 2^63 (inv_mod64 repair dd3553b), composite moduli with non-units
    for i in range(N // 2):
        c = rng.randrange(6)
        if c == 0:
            n = (1 << 63) + (rng.getrandbits(62) | 1)
        elif c == 1:
            n = W - rng.choice(SMALL + [rng.getrandbits(16) | 1])
            n |= 1
        elif c == 2:
            # composite with small factors
            n = rng.choice([3, 5, 9, 15, 21, 105, 3 ** 5, 5 * 7 * 11 * 13]) * (rng.getrandbits(rng.choice([1, 20, 50])) | 1)
            n = n if n < W else 15
        else:
            n = gen.odd_modulus(rng, 1)
        ninv = ninv_of(n)
        r2 = W * W % n
        c = rng.randrange(8)
        if c == 0:
            x = 0
        elif c == 1:
            # a multiple of a divisor of n when there is a small one
            x = gen.residue(rng, n)
            for p in (3, 5, 7, 11, 13):
                if n % p == 0:
                    x = (x - x % p) % n
                    break
        elif c == 2:
            x = rng.getrandbits(64)              # any u64, not necessarily reduced
        elif c == 3:
            x = W % n                            # Montgomery form of 1
        else:
            x = gen.residue(rng, n)
        yield Case(f"mg_inv {n} {ninv} {r2} {x}")
    # outside the documented domain (wrong ninv): only the checked profile has a defined answer
    for i in range(50):
        n = gen.odd_modulus(rng, 1)
        yield Case(f"mg_redc {n} {rng.getrandbits(64)} {rng.randrange(n * W)}", o=False, profiles=["chk"])


def _fork(rng, label):
    """own stream for the boundary family: depends on the run's seed, leaves the stream of the older families untouched"""
    return random.Random(f"{label}:{rng.getstate()[1][:4]}")


# bit lengths of the modulus around every word boundary of the limb arithmetic and at the ends of the supported range
ZN_BOUNDARY_BITS = [2, 31, 32, 33] + [64 * k + d for k in range(1, 8) for d in (-1, 0, 1)] + [499, 500]
ZN_BAND_BITS = [501, 511, 512]
M128_BOUNDARY_BITS = [2, 32, 63, 64, 65, 66, 96, 126, 127, 128]
MG_BOUNDARY_BITS = [2, 31, 32, 33, 62, 63, 64]


def exact_moduli(rng, bits):
    """odd moduli of exactly `bits` bits: all-ones top, minimal, random"""
    if bits == 2:
        return [3]
    s = rng.choice([1, 3, 5, 59, 189])
    ns = [(1 << bits) - s, (1 << (bits - 1)) + s, rng.getrandbits(bits) | (1 << (bits - 1)) | 1]
    assert all(n % 2 == 1 and n.bit_length() == bits for n in ns)
    return ns


def one_of_each(rng, n, band):
    """every zn_* op once on the modulus n, with the operand shapes of zn_cases (near n, maximal redc input, ...)"""
    k = nwords(n)
    R = 1 << (64 * k)
    chk_only = ["chk"] if band else None
    o = not band
    near = lambda: (n - 1 - rng.getrandbits(rng.choice([1, 4, 32]))) % n
    x, y = residue(rng, n), residue(rng, n)
    yield Case(f"zn_new {n}", o=o)
    yield Case(f"zn_mul {n} {near()} {near()}", o=o)
    yield Case(f"zn_mul {n} {rng.randrange(n)} {rng.randrange(n)}", o=o)
    yield Case(f"zn_mulmod {n} {near()} {near()}", o=o)
    yield Case(f"zn_add {n} {near()} {rng.randrange(n)}", o=o, profiles=chk_only)
    yield Case(f"zn_sub {n} {x} {near()}", o=o, profiles=chk_only)
    yield Case(f"zn_redc {n} {n * R - 1 - rng.getrandbits(rng.choice([1, 64]))}", o=o)
    yield Case(f"zn_redc {n} {redc_input(rng, n, k)}", o=o)
    hi = rng.randrange(n) >> (64 if k == 8 else 0)
    xx = hi * R + rng.getrandbits(64 * k)
    need = max(k, (xx.bit_length() + 63) // 64)
    yield Case(f"zn_redc_large {n} {words_of(xx, need + rng.randrange(0, 3))}", o=o, profiles=chk_only)
    yield Case(f"zn_from_int {n} {rng.randrange(n)}", o=o)
    yield Case(f"zn_to_int {n} {rng.randrange(n)}", o=o)
    yield Case(f"zn_from_to {n} {near()}", o=o)
    if not band:
        u = rng.randrange(1, n)
        yield Case(f"zn_inv {n} {u}", o=o)
        yield Case(f"zn_gcd {n} {u}", o=o)


def boundary_cases(rng, tier):
    """deterministic size classes (both tiers, yielded first): each op at every word boundary of its modulus"""
    for bits in ZN_BOUNDARY_BITS:
        for n in exact_moduli(rng, bits):
            yield from one_of_each(rng, n, False)
    for bits in ZN_BAND_BITS:
        for n in exact_moduli(rng, bits):
            yield from one_of_each(rng, n, True)
    for bits in M128_BOUNDARY_BITS:
        for n in exact_moduli(rng, bits):
            ninv = ninv_of(n, 64 * nwords(n))
            x, y = (n - 1 - rng.getrandbits(4)) % n, rng.randrange(n)
            yield Case(f"m128_inv_2adic {n}")
            yield Case(f"m128_r_r2 {n} {ninv}")
            yield Case(f"m128_add {n} {x} {y}")
            yield Case(f"m128_sub {n} {y} {x}")
            yield Case(f"m128_mul {n} {ninv} {x} {y}")
            yield Case(f"zn_mul {n} {x} {y}")
    for bits in MG_BOUNDARY_BITS:
        for n in exact_moduli(rng, bits):
            ninv = ninv_of(n)
            x, y = (n - 1 - rng.getrandbits(4)) % n, rng.randrange(n)
            yield Case(f"mg_2adic_inv {n}")
            yield Case(f"mg_redc {n} {ninv} {x * W + (W - 1)}")
            yield Case(f"mg_mul {n} {ninv} {x} {y}")
            yield Case(f"mg_inv {n} {ninv} {W * W % n} {y}")


def cases(tier, rng, extended=False):
    scale = 1 if tier == "quick" else 10   # the pipeline keeps all cases in memory (~0.5 GB per unit)
    if extended:
        scale *= 10
    yield from boundary_cases(_fork(rng, "C07-boundary"), tier)
    yield from mg64_cases(rng, 4000 * scale)
    # multiword ring: moduli x ops
    for _ in range(700 * scale):
        for k in range(1, 9):
            n = modulus(rng, k)
            yield from zn_cases(rng, n, k, False, 12)
    for _ in range(40 * scale):
        n = modulus(rng, 8, band=True)
        yield from zn_cases(rng, n, 8, True, 8)
    yield from m128_cases(rng, 2500 * scale)
    yield from raw_cases(rng, 1500 * scale)
    yield from outside_domain(rng, 400 * scale)


def corpus_case(line):
    # corpus lines are in-domain unless marked: `!chk ` prefix = checked profile only, no oracle
    if line.startswith("!chk "):
        return Case(line[5:], o=False, profiles=["chk"])
    if line.startswith("!noo "):
        return Case(line[5:], o=False)
    return Case(line)


# ---------------------------------------------------------------- oracle

def _int(ans):
    return int(ans) if ans.isdigit() else None


def oracle(case, ans):
    op = case.op
    a = case.args
    if op == "mg_inv":
        n, _, r2, x = [int(t) for t in a]
        if math.gcd(x, n) != 1:
            return None if ans == "none" else "mg_inv of a non-unit must be None"
        # input x = a*R, output R/a = R^2/x (mod n), fully reduced
        want = pow(x, -1, n) * W * W % n if n > 1 else 0
        if r2 != W * W % n:
            want = pow(x, -1, n) * r2 % n if n > 1 else 0
        return None if ans == f"some {want}" else "mg_inv != R^2/x mod n"
    if op.startswith("mg_"):
        v = [int(x) for x in a]
        r = _int(ans)
        if r is None:
            return f"no value returned ({ans})"
        if op == "mg_2adic_inv":
            return None if (v[0] * r + 1) % W == 0 and r < W else "n*ninv != -1 mod 2^64"
        if op == "mg_redc":
            n, _, x = v
            return None if r < n and (r * W - x) % n == 0 else "r*2^64 != x mod n or r >= n"
        n, _, x, y = v
        return None if r < n and (r * W - x * y) % n == 0 else "r*2^64 != x*y mod n or r >= n"
    if op.startswith("mint_"):
        xs = [int(w) for w in a[0].split(",")]
        ys = [int(w) for w in a[1].split(",")]
        sz = int(a[2])
        vx = sum(w << (64 * i) for i, w in enumerate(xs))
        vy = sum(w << (64 * i) for i, w in enumerate(ys))
        if op == "mint_lt":
            return None if ans == ("true" if vx < vy else "false") else "mint_lt != (x < n)"
        if ans in ("panic", "abort", "hang", "?"):
            return f"no value returned ({ans})"
        vr = sum(int(w) << (64 * i) for i, w in enumerate(ans.split(",")))
        want = vx + vy if op == "mint_add" else vx - vy
        return None if vr == want else f"{op}: value {vr} != {want}"
    n = int(a[0])
    if op.startswith("m128_"):
        R = W if n < W else 1 << 128
        Rinv = pow(R, -1, n)
        if op == "m128_inv_2adic":
            r = _int(ans)
            if r is None:
                return f"no value returned ({ans})"
            return None if r < R and (n * r + 1) % R == 0 else "n*ninv != -1 mod R"
        if op == "m128_r_r2":
            return None if ans == f"{R % n} {R * R % n}" else "r, r2 != R mod n, R^2 mod n"
        r = _int(ans)
        if r is None:
            return f"no value returned ({ans})"
        if op == "m128_add":
            return None if r == (int(a[1]) + int(a[2])) % n else "x+y mod n"
        if op == "m128_sub":
            return None if r == (int(a[1]) - int(a[2])) % n else "x-y mod n"
        x, y = int(a[2]), int(a[3])
        return None if r == x * y * Rinv % n else "r != x*y/R mod n"
    # zn_*
    k = nwords(n)
    R = 1 << (64 * k)
    if op == "zn_new":
        want = f"{k} {ninv_of(n)} {R % n} {R * R % n}"
        return None if ans == want else f"context != {want[:80]}"
    Rinv = pow(R, -1, n)
    if op == "zn_inv":
        x = int(a[1])
        if math.gcd(x, n) != 1:
            return None if ans == "none" else "inv of a non-unit must be None"
        want = pow(x, -1, n) * R * R % n
        return None if ans == f"some {want}" else "inv != R^2/x mod n"
    r = _int(ans)
    if r is None:
        return f"no value returned ({ans})"
    if op == "zn_gcd":
        return None if r == math.gcd(n, int(a[1])) else "gcd"
    if op == "zn_mul":
        return None if r == int(a[1]) * int(a[2]) * Rinv % n else "r != x*y/R mod n"
    if op == "zn_mulmod":
        return None if r < 2 * n and (r * R - int(a[1]) * int(a[2])) % n == 0 else "mulmod: r*R != x*y mod n or r >= 2n"
    if op == "zn_add":
        return None if r == (int(a[1]) + int(a[2])) % n else "r != x+y mod n"
    if op == "zn_sub":
        return None if r == (int(a[1]) - int(a[2])) % n else "r != x-y mod n"
    if op == "zn_redc":
        return None if r == int(a[1]) * Rinv % n else "r != x/R mod n"
    if op == "zn_redc_large":
        xx = sum(int(w) << (64 * i) for i, w in enumerate(a[1].split(","))) if a[1] != "-" else 0
        return None if r == xx * Rinv % n else "r != x/R mod n"
    if op == "zn_from_int":
        return None if r == int(a[1]) * R % n else "r != x*R mod n"
    if op == "zn_to_int":
        return None if r == int(a[1]) * Rinv % n else "r != x/R mod n"
    if op == "zn_from_to":
        return None if r == int(a[1]) else "to_int(from_int(x)) != x"
    return "unknown op"


# ---------------------------------------------------------------- distribution

def klass(case, ans):
    op = case.op
    bad = "" if (ans.replace(" ", "").replace(",", "").isdigit() or ans in ("true", "false", "none") or ans.startswith("some ")) else "/" + ans
    if op == "mg_inv":
        n = int(case.args[0])
        return f"mg_inv/{'n>=2^63' if n >> 63 else 'n<2^63'}/" + ans.split(" ")[0]
    if op.startswith("mg_") or op.startswith("mint_"):
        return op + bad
    a = case.args
    n = int(a[0])
    if op.startswith("m128_"):
        return f"{op}/{'R64' if n < W else 'R128'}" + bad
    if n % 2 == 0 or n >> 512:
        return op + "/bad-modulus" + bad
    k = nwords(n)
    band = "/501-512bit" if n.bit_length() > 500 else ""
    tag = ""
    if op in ("zn_mul", "zn_mulmod") and not bad:
        x, y = int(a[1]), int(a[2])
        if x < n and y < n:
            A = cios(n, k, x, y)
            tag = "/overflow" if A >> (64 * k) else ("/final-sub" if A >= n else "/no-sub")
    elif op == "zn_redc" and not bad:
        x = int(a[1])
        if x < n << (64 * k):
            rip, _ = redc_trace(n, k, x)
            tag = "/carry-ripple" if rip else "/plain"
    elif op == "zn_add" and not bad:
        tag = "/sub" if int(a[1]) + int(a[2]) >= n else "/no-sub"
    elif op == "zn_sub" and not bad:
        tag = "/borrow" if int(a[1]) < int(a[2]) else "/no-borrow"
    elif op == "zn_inv":
        tag = "/" + ans.split(" ")[0] if not bad else ""
    return f"{op}/k{k}{band}{tag}{bad}"


def nontrivial(case, ans):
    if case.op in ("mg_2adic_inv", "zn_new", "m128_inv_2adic", "m128_r_r2"):
        return True
    return any(len(x) > 1 for x in case.args[1:])


CLAIM = ("Lean theorems, for all inputs, about word-exact models of the 64-bit routines (mg_2adic_inv, mg_redc, mg_mul, mg_inv), of the multiword ring ZmodN "
         "(new, mul = CIOS multiply-reduce + conditional subtraction, add, sub, redc, from_int, to_int, redc_large, inv relative to C09) and of the "
         "128-bit type M128 (inv_2adic, r_r2, mul, add, sub, and its equality with ZmodN on 1- and 2-word moduli): on the documented domain no panic site is "
         "reached, results are fully reduced and equal x*y/R, x+-y, x/R, x*R, x (round trip) modulo n; the res[SIZE]=1 branch of _mint_mulmod is "
         "proved unreachable. The models are tied to the code by differential runs in the release and checked profiles; a Python big-integer "
         "oracle checks every in-domain implementation answer. The hypothesis of inv_spec about arith_gcd::inv_mod is discharged for moduli "
         "below 2^500 by Ymq.C09.zmodn_inv_spec / zmodn_gcd_spec (Ymq/Props/C07C09.lean, built on C09's model of arith_gcd).")
LEVEL_NOTE = ("Trusted: Lean kernel (+propext, Classical.choice, Quot.sound); the hand-written models' correspondence to the Rust code (sampled by the "
              "harness in both profiles, not proved); Python integers in the oracle. The word-level refinement is proved in full (no Nat-level "
              "shortcut): all ZmodN theorems are about the limb-by-limb model. add/sub/redc/redc_large are proved for n < 2^511 (covers the documented "
              "500-bit range); for 512-bit moduli add/sub are wrong/panic (theorem add_512bit_counterexample) and that band is only compared, not "
              "oracle-checked here (it belongs to C03). bnum operators are modelled as Nat arithmetic; arith_gcd (inv_mod, big_gcd) enters as a named "
              "hypothesis of inv_spec here; Ymq/Props/C07C09.lean (C09's second pass) instantiates it with the C09 model and removes the hypothesis for n < 2^500. "
              "Since /repo fix a69b7e9 the library entry point factor() refuses inputs above 500 bits, so the 501..512-bit band of ZmodN (where add/sub fail for "
              "512-bit n) is no longer reachable through factor(); the public ZmodN constructor still admits it. mg_inv relies on C08's model/theorem of inv_mod64. M128::inv_2adic is proved total and correct for the code after the /repo fix a0db7d0 (before it, the checked profile overflowed for n = (2^129+1)/3).")
TECHNIQUE = "Lean 4 proof about a hand model + differential correspondence check + spec oracle"
