/-
C10: the column loop of `MultiZmodP::_crt` and the whole routine (model `Ymq.Crt.crt`, `w ≥ 2`):
`crtColumns_spec` (the `u128` column sums never overflow and the words written are the low words of
`qp + Σ_j xs_j·crt_p_modn[j]`), `crt_spec` (no panic site: `mg_mul64` by C07's `mgMul_spec`, the quotient
estimate by `qEstimate_spec`, `pprods_modn[q]`, `assert!(carry == 0)`), `new_crtOk` (the tables built
by the model of `MultiZmodP::new` meet the requirements).
-/
import Ymq.Lemmas.CrtEstimate
import Ymq.Props.C07
import Ymq.Lemmas.PolySeries

namespace Ymq.Crt
open Finset
open Ymq.Mg64 (W)

theorem valWords_append (a b : List Nat) : valWords (a ++ b) = valWords a + W ^ a.length * valWords b := by
  induction a with
  | nil => simp [valWords]
  | cons x xs ih => simp only [List.cons_append, valWords, ih, List.length_cons, pow_succ]; ring

theorem mod_pow_succ (x i : Nat) : x % W ^ (i + 1) = x % W ^ i + W ^ i * dig x i := by
  unfold dig
  rw [pow_succ, Nat.mod_mul]

/-- one column of `_crt`: the 128-bit sum does not overflow -/
theorem column_sum (m : Mzp) (xs : List Nat) (hw : m.w ≤ 26) (hxs : ∀ j, j < m.w → xs.getD j 0 < 2 ^ 59)
    (i s0 : Nat) (hs0 : s0 < 2 ^ 66) :
    (List.range m.w).foldlM (fun z j =>
        let t := z + xs.getD j 0 * dig (m.crtPModn.getD j 0) i
        if t ≥ 2 ^ 128 then none else some t) s0 =
      some (s0 + ∑ j ∈ range m.w, xs.getD j 0 * dig (m.crtPModn.getD j 0) i) := by
  suffices h : ∀ k, k ≤ m.w → (List.range k).foldlM (fun z j =>
        let t := z + xs.getD j 0 * dig (m.crtPModn.getD j 0) i
        if t ≥ 2 ^ 128 then none else some t) s0 =
      some (s0 + ∑ j ∈ range k, xs.getD j 0 * dig (m.crtPModn.getD j 0) i) ∧
      ∑ j ∈ range k, xs.getD j 0 * dig (m.crtPModn.getD j 0) i ≤ k * (2 ^ 59 * W) from (h m.w le_rfl).1
  intro k
  induction k with
  | zero => intro _; simp
  | succ k ih =>
    intro hk
    obtain ⟨e, hb⟩ := ih (by omega)
    have hWpos : 0 < W := by decide
    have hterm : xs.getD k 0 * dig (m.crtPModn.getD k 0) i ≤ 2 ^ 59 * W :=
      Nat.mul_le_mul (le_of_lt (hxs k (by omega))) (le_of_lt (Nat.mod_lt _ hWpos))
    have hle : ∑ j ∈ range (k + 1), xs.getD j 0 * dig (m.crtPModn.getD j 0) i ≤ (k + 1) * (2 ^ 59 * W) := by
      rw [sum_range_succ, Nat.add_mul, Nat.one_mul]; omega
    refine ⟨?_, hle⟩
    rw [List.range_succ, List.foldlM_append, e]
    simp only [Option.bind_eq_bind, Option.bind_some, List.foldlM_cons, List.foldlM_nil]
    have hlt : s0 + ∑ j ∈ range k, xs.getD j 0 * dig (m.crtPModn.getD j 0) i +
        xs.getD k 0 * dig (m.crtPModn.getD k 0) i < 2 ^ 128 := by
      have h26 : (k + 1) * (2 ^ 59 * W) ≤ 26 * (2 ^ 59 * W) := Nat.mul_le_mul_right _ (by omega)
      have hW : W = 18446744073709551616 := rfl
      rw [sum_range_succ] at hle
      rw [hW] at h26 hle
      norm_num at h26 hle hs0 ⊢
      omega
    rw [if_neg (by omega), sum_range_succ]
    simp [Nat.add_assoc]

/-- the truncated sum of column loop `_crt`: `(qp mod W^i) + Σ_j xs_j·(c_j mod W^i)` -/
def truncSum (m : Mzp) (xs : List Nat) (qp i : Nat) : Nat :=
  qp % W ^ i + ∑ j ∈ range m.w, xs.getD j 0 * (m.crtPModn.getD j 0 % W ^ i)

theorem truncSum_succ (m : Mzp) (xs : List Nat) (qp i : Nat) :
    truncSum m xs qp (i + 1) =
      truncSum m xs qp i + W ^ i * (dig qp i + ∑ j ∈ range m.w, xs.getD j 0 * dig (m.crtPModn.getD j 0) i) := by
  unfold truncSum
  rw [mod_pow_succ qp i, Nat.mul_add, Finset.mul_sum, ← Nat.add_assoc]
  have : ∑ j ∈ range m.w, xs.getD j 0 * (m.crtPModn.getD j 0 % W ^ (i + 1)) =
      ∑ j ∈ range m.w, xs.getD j 0 * (m.crtPModn.getD j 0 % W ^ i) +
        ∑ j ∈ range m.w, W ^ i * (xs.getD j 0 * dig (m.crtPModn.getD j 0) i) := by
    rw [← Finset.sum_add_distrib]
    apply Finset.sum_congr rfl
    intro j _
    rw [mod_pow_succ]; ring
  rw [this]; ring

/-- **the column loop of `_crt`** writes the low words of `qp + Σ_j xs_j·crt_p_modn[j]` exactly -/
theorem crtColumns_spec (m : Mzp) (xs : List Nat) (qp : Nat) (hw : m.w ≤ 26)
    (hxs : ∀ j, j < m.w → xs.getD j 0 < 2 ^ 59) :
    ∀ (c i carry : Nat) (acc : List Nat), acc.length = i → carry < 2 ^ 65 →
      valWords acc.reverse + W ^ i * carry = truncSum m xs qp i →
      ∃ ws carry', crtColumns m xs qp c i carry acc = some (ws, carry') ∧ ws.length = i + c ∧
        valWords ws + W ^ (i + c) * carry' = truncSum m xs qp (i + c) := by
  intro c
  induction c with
  | zero =>
    intro i carry acc hl _ hv
    exact ⟨acc.reverse, carry, rfl, by simp [hl], hv⟩
  | succ c ih =>
    intro i carry acc hl hc hv
    have hWpos : 0 < W := by decide
    have hW : W = 18446744073709551616 := rfl
    have hdig : dig qp i < W := Nat.mod_lt _ hWpos
    unfold crtColumns
    rw [column_sum m xs hw hxs i (carry + dig qp i) (by rw [hW] at hdig; norm_num at hc ⊢; omega)]
    simp only
    set z := carry + dig qp i + ∑ j ∈ range m.w, xs.getD j 0 * dig (m.crtPModn.getD j 0) i with hz
    have hzlt : z / W < 2 ^ 65 := by
      have hb := sum_range_le m.w (fun j => xs.getD j 0 * dig (m.crtPModn.getD j 0) i) (2 ^ 59 * W)
        (fun j hj => Nat.mul_le_mul (le_of_lt (hxs j hj)) (le_of_lt (Nat.mod_lt _ hWpos)))
      have h26 : m.w * (2 ^ 59 * W) ≤ 26 * (2 ^ 59 * W) := Nat.mul_le_mul_right _ hw
      have hlit : 26 * (2 ^ 59 * W) = 276479423123262501563991868538311671808 := by rw [hW]; norm_num
      have hb' : ∑ j ∈ range m.w, xs.getD j 0 * dig (m.crtPModn.getD j 0) i ≤
          276479423123262501563991868538311671808 := by rw [← hlit]; exact le_trans hb h26
      rw [Nat.div_lt_iff_lt_mul hWpos, hz]
      have h65 : (2 : Nat) ^ 65 = 36893488147419103232 := by norm_num
      rw [h65] at hc ⊢
      rw [hW] at hdig ⊢
      omega
    obtain ⟨ws, carry', e, lws, vws⟩ := ih (i + 1) (z / W) (z % W :: acc) (by simp [hl]) hzlt (by
      rw [List.reverse_cons, valWords_append, List.length_reverse, hl, truncSum_succ, ← hv]
      simp only [valWords, Nat.mul_zero, Nat.add_zero]
      have := Nat.div_add_mod z W
      rw [pow_succ]
      have hz' : dig qp i + ∑ j ∈ range m.w, xs.getD j 0 * dig (m.crtPModn.getD j 0) i = z - carry := by omega
      have hcz : carry ≤ z := by omega
      rw [hz']
      have : W ^ i * (z % W) + W ^ i * W * (z / W) = W ^ i * z := by
        rw [Nat.mul_assoc, ← Nat.mul_add, Nat.add_comm, this]
      have h2 : W ^ i * carry + W ^ i * (z - carry) = W ^ i * z := by
        rw [← Nat.mul_add]; congr 1; omega
      omega)
    exact ⟨ws, carry', e, by rw [lws]; omega, by rw [show i + (c + 1) = i + 1 + c by omega]; exact vws⟩


/-- what `_crt` needs of the tables of a `MultiZmodP` (beyond `EstOk`) -/
structure CrtOk (m : Mzp) : Prop where
  est : EstOk m
  pr : ∀ j, j < m.w → 0 < m.primes.getD j 0 ∧ m.primes.getD j 0 < 2 ^ 59 ∧
    (m.primes.getD j 0 * (m.primes.getD j 0 - 2) + 1) % W = 0
  pinv : ∀ j, j < m.w → m.crtPinv.getD j 0 < W
  modn_lt : ∀ j, j < m.w → m.crtPModn.getD j 0 < m.n
  n_lt : m.n < W ^ m.kw
  pprods : ∀ q, q < m.w → ∃ qp, m.pprodsModn[q]? = some qp ∧ qp < m.n

theorem mapM_range {Q : Nat → Nat → Prop} (f : Nat → Option Nat) :
    ∀ w, (∀ i, i < w → ∃ r, f i = some r ∧ Q i r) →
      ∃ l, (List.range w).mapM f = some l ∧ l.length = w ∧ ∀ i, i < w → Q i (l.getD i 0) := by
  intro w
  induction w with
  | zero => intro _; exact ⟨[], rfl, rfl, fun i hi => by omega⟩
  | succ w ih =>
    intro h
    obtain ⟨l, e, ll, hl⟩ := ih (fun i hi => h i (by omega))
    obtain ⟨r, er, hr⟩ := h w (by omega)
    refine ⟨l ++ [r], ?_, by simp [ll], ?_⟩
    · rw [List.range_succ, List.mapM_append, e]
      simp [er]
    · intro i hi
      by_cases hiw : i < w
      · rw [List.getD_eq_getElem?_getD, List.getElem?_append_left (by omega), ← List.getD_eq_getElem?_getD]; exact hl i hiw
      · have : i = w := by omega
        subst this
        rw [List.getD_eq_getElem?_getD, List.getElem?_append_right (by omega), ll]; simpa using hr

/-- **`_crt` (model `Ymq.Crt.crt`), `w ≥ 2`**: for residues `x_j < p_j` the routine reaches no panic site
(`mg_mul64`, the quotient estimate, `pprods_modn[q]`, the `u128` column sums, `assert!(carry == 0)`):
the scaled residues `xs_j = x_j·crt_pinv[j]/R mod p_j` exist, and whenever they reconstruct
`Σ xs_j·(P/p_j) = V + q·P` with `2V < P`, `q < w`, the `kw + 1` words written are exactly
`pprods_modn[q] + Σ_j xs_j·crt_p_modn[j]`. -/
theorem crt_spec (m : Mzp) (ok : CrtOk m) (hw2 : 2 ≤ m.w) (x : List Nat) (hx : x.length = m.w)
    (hxr : ∀ j, j < m.w → x.getD j 0 < m.primes.getD j 0) :
    ∃ xs : List Nat, xs.length = m.w ∧
      (∀ j, j < m.w → xs.getD j 0 < m.primes.getD j 0 ∧
        xs.getD j 0 * W % m.primes.getD j 0 = x.getD j 0 * m.crtPinv.getD j 0 % m.primes.getD j 0) ∧
      ∀ q V, V + q * m.pprod = ∑ j ∈ range m.w, xs.getD j 0 * m.crtP.getD j 0 → 2 * V < m.pprod → q < m.w →
        ∃ ws, crt m x = some ws ∧ ws.length = m.kw + 1 ∧
          valWords ws = m.pprodsModn.getD q 0 + ∑ j ∈ range m.w, xs.getD j 0 * m.crtPModn.getD j 0 := by
  obtain ⟨est, pr, pinv, modn, nlt, pprods⟩ := ok
  have hWv : W = 18446744073709551616 := rfl
  have hw26 := est.w_le
  obtain ⟨xs, exs, lxs, hxs⟩ := mapM_range
    (Q := fun j r => r < m.primes.getD j 0 ∧ r * W % m.primes.getD j 0 =
      x.getD j 0 * m.crtPinv.getD j 0 % m.primes.getD j 0)
    (fun i => mgMul64 (m.primes.getD i 0) (x.getD i 0) (m.crtPinv.getD i 0)) m.w (by
      intro i hi
      obtain ⟨p0, p59, pinvk⟩ := pr i hi
      obtain ⟨r, hr, hlt, hmod⟩ := Ymq.C07.mgMul_spec (m.primes.getD i 0) (m.primes.getD i 0 - 2) (x.getD i 0)
        (m.crtPinv.getD i 0) p0 (by
          have h59 : (2 : Nat) ^ 59 = 576460752303423488 := by norm_num
          rw [h59] at p59; rw [hWv]; omega) pinvk (hxr i hi) (pinv i hi)
      exact ⟨r, hr, hlt, hmod⟩)
  refine ⟨xs, lxs, hxs, ?_⟩
  intro q V hS hV hq
  have hxs59 : ∀ j, j < m.w → xs.getD j 0 < 2 ^ 59 := fun j hj =>
    lt_trans (hxs j hj).1 (pr j hj).2.1
  have hqe := qEstimate_spec m est xs hxs59 q V hS hV (by omega)
  obtain ⟨qp, eqp, hqp⟩ := pprods q hq
  have hgetq : m.pprodsModn.getD q 0 = qp := by
    rw [List.getD_eq_getElem?_getD, eqp]; rfl
  obtain ⟨ws, carry, ecol, lws, vws⟩ := crtColumns_spec m xs qp hw26 hxs59 (m.kw + 1) 0 0 [] rfl (by norm_num)
    (by simp [valWords, truncSum, Nat.mod_one])
  rw [Nat.zero_add] at lws vws
  -- the full sum fits kw + 1 words
  have hWpos : 0 < W := by decide
  have hT : truncSum m xs qp (m.kw + 1) = qp + ∑ j ∈ range m.w, xs.getD j 0 * m.crtPModn.getD j 0 := by
    unfold truncSum
    have hpow : W ^ m.kw ≤ W ^ (m.kw + 1) := Nat.pow_le_pow_right hWpos (by omega)
    rw [Nat.mod_eq_of_lt (by omega)]
    congr 1
    apply Finset.sum_congr rfl
    intro j hj
    rw [Nat.mod_eq_of_lt (by have := modn j (by simpa using hj); omega)]
  have hsum : ∑ j ∈ range m.w, xs.getD j 0 * m.crtPModn.getD j 0 ≤ m.w * (2 ^ 59 * m.n) :=
    sum_range_le m.w _ _ (fun j hj => Nat.mul_le_mul (le_of_lt (hxs59 j hj)) (le_of_lt (modn j hj)))
  have hTlt : qp + ∑ j ∈ range m.w, xs.getD j 0 * m.crtPModn.getD j 0 < W ^ (m.kw + 1) := by
    have h1 : ∑ j ∈ range m.w, xs.getD j 0 * m.crtPModn.getD j 0 ≤ 26 * (2 ^ 59 * m.n) :=
      le_trans hsum (Nat.mul_le_mul_right _ hw26)
    have h1' : 26 * (2 ^ 59 * m.n) = 14987979559889010688 * m.n := by
      rw [← Nat.mul_assoc]; norm_num
    rw [h1'] at h1
    rw [pow_succ]
    generalize W ^ m.kw = K at nlt ⊢
    rw [hWv]
    omega
  have hcarry : carry = 0 := by
    by_contra hcon
    have : W ^ (m.kw + 1) * 1 ≤ W ^ (m.kw + 1) * carry := Nat.mul_le_mul_left _ (by omega)
    rw [hT] at vws
    omega
  rw [hcarry, Nat.mul_zero, Nat.add_zero, hT] at vws
  refine ⟨ws, ?_, lws, by rw [vws, hgetq]⟩
  unfold crt
  rw [if_neg (by omega), if_neg (by omega), exs]
  simp only
  rw [hqe]
  simp only
  rw [eqp]
  simp only
  rw [ecol, hcarry]
  simp


/-! ### the tables of `MultiZmodP::new` meet `CrtOk` -/

theorem pprodModn_lt (n P : Nat) (hn : 0 < n) : pprodModn n P < n := by
  unfold pprodModn
  have := Nat.mod_lt P hn
  split_ifs <;> omega

theorem pprodModn_neg (n P : Nat) (hn : 0 < n) : (pprodModn n P + P) % n = 0 := by
  unfold pprodModn
  have hr := Nat.mod_lt P hn
  have hd := Nat.div_add_mod P n
  split_ifs with h
  · have : P % n = 0 := by omega
    rw [Nat.zero_add, this]
  · have : n - P % n + P = n * (P / n + 1) := by rw [Nat.mul_add, Nat.mul_one]; omega
    rw [this, Nat.mul_mod_right]

theorem new_fields2 (n logsize : Nat) (m : Mzp) (h : new n logsize = some m) :
    ∃ w, m.w = w ∧ m.n = n ∧ m.kw = (Ymq.Checked.bitlen n + 63) / 64 ∧
      m.primes = Ymq.Gen.Params.NTT_PRIME_VALUES.take w ∧
      (List.range w).mapM (fun i => Ymq.PolySpec.invMod
        (prodExcept (Ymq.Gen.Params.NTT_PRIME_VALUES.take w) i % (Ymq.Gen.Params.NTT_PRIME_VALUES.take w).getD i 1)
        ((Ymq.Gen.Params.NTT_PRIME_VALUES.take w).getD i 1)) = some m.crtPinv ∧
      m.crtPModn = m.crtP.map (· % n) ∧
      ∃ pm, (pm < n ∨ n = 0) ∧ pm = pprodModn n m.pprod ∧
        m.pprodsModn = 0 :: pm :: pprodsLoop n pm (w - 2) pm [] := by
  unfold new at h
  simp only at h
  repeat' split at h
  all_goals first
    | contradiction
    | (simp only [Option.some.injEq] at h
       subst h
       refine ⟨_, rfl, rfl, rfl, rfl, ‹_›, rfl, _, ?_, rfl, rfl⟩
       rcases Nat.eq_zero_or_pos n with h0 | h0
       · exact Or.inr h0
       · exact Or.inl (pprodModn_lt _ _ h0))


theorem table_primes_ok : ∀ j ∈ List.range 26, 0 < Ymq.Gen.Params.NTT_PRIME_VALUES.getD j 0 ∧
    Ymq.Gen.Params.NTT_PRIME_VALUES.getD j 0 < 2 ^ 59 ∧
    (Ymq.Gen.Params.NTT_PRIME_VALUES.getD j 0 * (Ymq.Gen.Params.NTT_PRIME_VALUES.getD j 0 - 2) + 1) % W = 0 := by
  decide +kernel

theorem mapM_range_inv (f : Nat → Option Nat) : ∀ (w : Nat) (l : List Nat), (List.range w).mapM f = some l →
    l.length = w ∧ ∀ j, j < w → f j = some (l.getD j 0) := by
  intro w
  induction w with
  | zero => intro l h; simp at h; subst h; exact ⟨rfl, fun j hj => by omega⟩
  | succ w ih =>
    intro l h
    rw [List.range_succ, List.mapM_append] at h
    simp only [Option.bind_eq_bind, Option.bind_eq_some_iff, List.mapM_cons, List.mapM_nil, Option.pure_def,
      Option.some.injEq] at h
    obtain ⟨l1, h1, l2, ⟨r, hr, a, ha, hl2⟩, hl⟩ := h
    obtain ⟨ll1, hl1⟩ := ih l1 h1
    subst ha hl2 hl
    refine ⟨by simp [ll1], ?_⟩
    intro j hj
    by_cases hjw : j < w
    · rw [List.getD_eq_getElem?_getD, List.getElem?_append_left (by omega), ← List.getD_eq_getElem?_getD]
      exact hl1 j hjw
    · have : j = w := by omega
      subst this
      rw [List.getD_eq_getElem?_getD, List.getElem?_append_right (by omega), ll1]
      simpa using hr

theorem invMod_lt (x n i : Nat) (hn : 0 < n) (h : Ymq.PolySpec.invMod x n = some i) : i < n := by
  unfold Ymq.PolySpec.invMod at h
  simp only at h
  split_ifs at h
  simp only [Option.some.injEq] at h
  rw [← h]
  have h1 : (0 : Int) ≤ (Ymq.PolySpec.xgcdAux (2 * n.log2 + 4) (↑(x % n)) (↑n) 1 0).2 % (n : Int) :=
    Int.emod_nonneg _ (by omega)
  have h2 : (Ymq.PolySpec.xgcdAux (2 * n.log2 + 4) (↑(x % n)) (↑n) 1 0).2 % (n : Int) < (n : Int) :=
    Int.emod_lt_of_pos _ (by omega)
  omega

theorem pprodsLoop_spec (n pm : Nat) (hpm : pm < n) : ∀ (c pk : Nat) (acc : List Nat), pk < n →
    (∀ a ∈ acc, a < n) → (pprodsLoop n pm c pk acc).length = acc.length + c ∧
      ∀ a ∈ pprodsLoop n pm c pk acc, a < n := by
  intro c
  induction c with
  | zero => intro pk acc _ hacc; simp [pprodsLoop]; exact hacc
  | succ c ih =>
    intro pk acc hpk hacc
    unfold pprodsLoop
    simp only
    have hlt : (if pk + pm ≥ n then pk + pm - n else pk + pm) < n := by split_ifs <;> omega
    obtain ⟨h1, h2⟩ := ih _ ((if pk + pm ≥ n then pk + pm - n else pk + pm) :: acc) hlt (by
      intro a ha
      rcases List.mem_cons.1 ha with rfl | ha
      · exact hlt
      · exact hacc a ha)
    exact ⟨by rw [h1, List.length_cons]; omega, h2⟩

/-- **the tables of `MultiZmodP::new` meet the requirements of `_crt`** (`n > 0`, `w ≥ 2` primes) -/
theorem new_crtOk (n logsize : Nat) (m : Mzp) (h : new n logsize = some m) (hn : 0 < n) (hw2 : 2 ≤ m.w) :
    CrtOk m := by
  have est := new_estOk n logsize m h hw2
  obtain ⟨w, ew, en, ekw, epr, einv, emodn, pm, hpm, _, epp⟩ := new_fields2 n logsize m h
  have hw26 : w ≤ 26 := by rw [← ew]; exact est.w_le
  have hprime : ∀ j, j < m.w → m.primes.getD j 0 = Ymq.Gen.Params.NTT_PRIME_VALUES.getD j 0 := by
    intro j hj
    rw [epr, List.getD_eq_getElem?_getD, List.getD_eq_getElem?_getD, List.getElem?_take_of_lt (by omega)]
  have hprime1 : ∀ j, j < m.w → (Ymq.Gen.Params.NTT_PRIME_VALUES.take w).getD j 1 =
      Ymq.Gen.Params.NTT_PRIME_VALUES.getD j 0 := by
    intro j hj
    have hlen : Ymq.Gen.Params.NTT_PRIME_VALUES.length = 26 := by decide
    rw [List.getD_eq_getElem?_getD, List.getD_eq_getElem?_getD, List.getElem?_take_of_lt (by omega),
      List.getElem?_eq_getElem (by omega)]
    rfl
  refine ⟨est, ?_, ?_, ?_, ?_, ?_⟩
  · intro j hj
    rw [hprime j hj]
    exact table_primes_ok j (List.mem_range.2 (by omega))
  · intro j hj
    obtain ⟨_, hf⟩ := mapM_range_inv _ w m.crtPinv einv
    have := hf j (by omega)
    rw [hprime1 j hj] at this
    obtain ⟨p0, p59, _⟩ := table_primes_ok j (List.mem_range.2 (by omega))
    have hlt := invMod_lt _ _ _ p0 this.symm.symm
    have h59 : (2 : Nat) ^ 59 = 576460752303423488 := by norm_num
    have hWv : W = 18446744073709551616 := rfl
    rw [h59] at p59; rw [hWv]; omega
  · intro j _
    rw [emodn, en, List.getD_eq_getElem?_getD, List.getElem?_map]
    cases m.crtP[j]? with
    | none => simpa using hn
    | some v => simpa using Nat.mod_lt v hn
  · rw [en, ekw]
    have h1 := Ymq.PolyMul.bitlen_lt n
    have hW : W = 2 ^ 64 := by decide
    rw [hW, ← pow_mul]
    exact lt_of_lt_of_le h1 (Nat.pow_le_pow_right (by decide) (by omega))
  · intro q hq
    have hpm' : pm < n := by omega
    obtain ⟨l1, l2⟩ := pprodsLoop_spec n pm hpm' (w - 2) pm [] hpm' (fun a ha => by cases ha)
    have hlen : m.pprodsModn.length = w := by
      rw [epp]; simp only [List.length_cons, l1, List.length_nil]; omega
    have hq' : q < m.pprodsModn.length := by omega
    refine ⟨m.pprodsModn[q], List.getElem?_eq_getElem hq', ?_⟩
    have hmem : m.pprodsModn[q] ∈ (0 :: pm :: pprodsLoop n pm (w - 2) pm []) := by
      have := List.getElem_mem hq'
      rw [← epp]; exact this
    rw [en]
    rcases List.mem_cons.1 hmem with h0 | hmem
    · rw [h0]; exact hn
    · rcases List.mem_cons.1 hmem with h0 | hmem
      · rw [h0]; exact hpm'
      · exact l2 _ hmem

end Ymq.Crt
