/- C20: one of the large finite checks, in its own module so that lake checks them in parallel.
Restated as a property theorem in Ymq/Props/C20.lean. -/
import Ymq.Lemmas.ParamsDefs

namespace Ymq.C20.Dec
open Ymq.Checked Ymq.Gen Ymq.Gen.Params Ymq.C20

theorem convolve_total : ∀ bits, bits ≤ CONVOLVE_MAX_BITS → ∀ k, k ≤ 19 →
    Holds (arith_fft.convolve_dispatch bits (2 ^ k)) fun _ => True := by decide +kernel

theorem convolve_packing : ∀ bits, bits ≤ CONVOLVE_MAX_BITS → ∀ k, k ≤ 19 → 1 ≤ k →
    Holds (arith_fft.convolve_dispatch bits (2 ^ k)) (DispatchOk bits k) := by decide +kernel

end Ymq.C20.Dec
