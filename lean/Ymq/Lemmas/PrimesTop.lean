/-
`fbase::primes` as a whole (C17) and its relation with `Nat.nth Nat.Prime`; the `n`-th block of the
`PrimeSieve` model; the driver's shortcut `blockAt`.
-/
import Mathlib.Data.Nat.Nth
import Mathlib.Data.Nat.PrimeFin
import Ymq.Lemmas.PrimesStream

namespace Ymq.Primes

theorem primesBelow_three : primesBelow 3 = [2] := by
  simp [primesBelow, List.range_succ, Nat.not_prime_zero, Nat.not_prime_one, Nat.prime_two]

/-- `primes n` is the list of all primes below `2·(bound/2)`, truncated to `n` entries -/
theorem primes_eq (n bnd : Nat) (h : bound n = some bnd) :
    primes n = some ((primesBelow (2 * (bnd / 2))).take n) := by
  have h100 : 100 ≤ bnd := by
    unfold bound at h
    split at h
    · simp only [Option.some.injEq] at h; omega
    · exact absurd h (by simp)
  have hloop := primesLoop_spec n bnd (bnd / 2) (by omega) (bnd / 2) 1
    (Array.replicate (bnd / 2) false) #[2] (by simp) (by omega) (by omega) (by omega)
    (markInv_init bnd (bnd / 2)) (by rw [primesBelow_three])
  have heven : ¬ (2 * (bnd / 2)).Prime := by
    intro hp
    have := Nat.Prime.eq_one_or_self_of_dvd hp 2 ⟨bnd / 2, rfl⟩
    omega
  unfold primes
  rw [h]
  simp only
  rw [hloop, primesBelow_succ_of_not_prime _ heven]

/-- the sorted list of the primes below `m` is `nth Prime 0, nth Prime 1, …` -/
theorem primesBelow_eq_map_nth (m : Nat) :
    primesBelow m = (List.range (Nat.count Nat.Prime m)).map (Nat.nth Nat.Prime) := by
  induction m with
  | zero => simp [primesBelow]
  | succ m ih =>
    rw [primesBelow_succ, Nat.count_succ]
    by_cases hp : m.Prime
    · rw [if_pos hp, if_pos hp, List.range_succ, List.map_append, ← ih]
      simp [Nat.nth_count hp]
    · rw [if_neg hp, if_neg hp, Nat.add_zero, ih]

/-- if the `k`-th prime is below `m`, the first `k` entries of `primesBelow m` are the first `k` primes -/
theorem take_primesBelow (m k : Nat) (h : k = 0 ∨ Nat.nth Nat.Prime (k - 1) < m) :
    (primesBelow m).take k = (List.range k).map (Nat.nth Nat.Prime) := by
  rw [primesBelow_eq_map_nth, ← List.map_take]
  congr 1
  rcases h with rfl | h
  · simp
  · have : k - 1 < Nat.count Nat.Prime m :=
      (Nat.lt_nth_iff_count_lt Nat.infinite_setOfPred_prime).mpr h
    rw [List.take_range]
    congr 1
    omega

/-! ### the n-th block -/

/-- `k` further calls from a sieve that is about to produce block `c` -/
theorem nth_spec (k : Nat) : ∀ (c : Nat) (ps : PrimeSieve), Good ps c → 1 ≤ c → c + k < 65536 →
    ∃ ps', PrimeSieve.nth k ps = some (primesFrom (65536 * (c + k)) 65536, ps') ∧
      Good ps' (c + k + 1) := by
  induction k with
  | zero =>
    intro c ps h h1 hc
    exact next_spec ps c h h1 hc
  | succ k ih =>
    intro c ps h h1 hc
    obtain ⟨ps1, hn, hg⟩ := next_spec ps c h h1 (by omega)
    obtain ⟨ps', hn', hg'⟩ := ih (c + 1) ps1 hg (by omega) (by omega)
    refine ⟨ps', ?_, by rw [show c + (k + 1) + 1 = c + 1 + k + 1 by omega]; exact hg'⟩
    rw [PrimeSieve.nth, hn]
    simp only
    rw [hn', show c + 1 + k = c + (k + 1) by omega]

/-- after the last block every call returns the empty block and leaves the state unchanged -/
theorem nth_end (k : Nat) (ps : PrimeSieve) (h : ps.bc = 65536) :
    PrimeSieve.nth k ps = some ([], ps) := by
  induction k with
  | zero => exact next_end ps h
  | succ k ih =>
    rw [PrimeSieve.nth, next_end ps h]
    exact ih

end Ymq.Primes

namespace Ymq.Primes

theorem primesBelow_eq_primesFrom_zero (n : Nat) : primesBelow n = primesFrom 0 n := by
  have h := primesBelow_append 0 n
  rw [Nat.zero_add] at h
  rw [h]
  simp [primesBelow]

end Ymq.Primes
