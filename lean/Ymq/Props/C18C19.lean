/-
Hand-off from the Smith form of C19 to the class group reported by C18.

`relationcls::group_structure_dense` ends with
    r.reduce();                                   -- SmithNormalForm::reduce (C19)
    g.h = r.h;  for i in 0..r.gens.len() { let d = r.rows[i][i]; if d != 1 { g.invariants.push(d as u128) } }
This file models those last lines on C19's model state (`Ymq.Snf.St`) and chains
C19 `snf_diag` (when `reduce` returns, the matrix is diagonal and its diagonal multiplies to `h`)
with C18 `invariants_multiply` (dropping the entries equal to 1 keeps the product):
whenever the model of `reduce` returns, the reported cyclic factors multiply to the reported class
number and none of them is 0 or 1.

Two facts about the state returned by `reduce` are NAMED HYPOTHESES here (they are checked on every
real run by the correspondence stream — `cg_full_model` runs `invariantsOk` on the real output — but
C19 has no theorem for them): the matrix is square (`rows.len() == gens.len()`, the loop above is
indexed by `gens`), and the diagonal entries are non-negative (they are residues modulo `h` or `h`
itself, so that `d as u128` does not wrap).
-/
import Ymq.Props.C18
import Ymq.Props.C19

namespace Ymq.C18C19
open Ymq.ClassGroup Ymq.Snf

/-- `d as u128` for an `i128` value (two's complement reinterpretation of a negative value) -/
def asU128 (d : Int) : Nat := if 0 ≤ d then d.toNat else (d + 2 ^ 128).toNat

/-- the last loop of `group_structure_dense`: `(g.h, g.invariants)`; `none` = index out of range -/
def reported (s : St) : Option (Nat × List Nat) :=
  match mapOpt (fun i => get2 s.rows i i) (List.range s.gens.length) with
  | none => none
  | some ds => some (s.h, (ds.filter (· ≠ 1)).map asU128)

theorem prod_toNat : ∀ l : List Int, (∀ d ∈ l, 0 ≤ d) → ((l.map Int.toNat).prod : Int) = l.prod
  | [], _ => by simp
  | x :: t, h => by
    have hx : 0 ≤ x := h x List.mem_cons_self
    have ih := prod_toNat t (fun d hd => h d (List.mem_cons_of_mem _ hd))
    simp only [List.map_cons, List.prod_cons, Nat.cast_mul, ih]
    rw [Int.toNat_of_nonneg hx]

theorem filter_map_comm (l : List Int) (hnn : ∀ d ∈ l, 0 ≤ d) :
    (l.filter (· ≠ 1)).map asU128 = invariantsOf (l.map Int.toNat) := by
  unfold invariantsOf
  induction l with
  | nil => simp
  | cons x t ih =>
    have hx : 0 ≤ x := hnn x List.mem_cons_self
    have iht := ih (fun d hd => hnn d (List.mem_cons_of_mem _ hd))
    have hone : (x.toNat = 1) ↔ x = 1 := by omega
    by_cases h1 : x = 1
    · subst h1
      simp only [ne_eq, not_true_eq_false, decide_false, Bool.false_eq_true, not_false_eq_true,
        List.filter_cons_of_neg, List.map_cons] at iht ⊢
      rw [List.filter_cons_of_neg (by simp)]
      exact iht
    · rw [List.filter_cons_of_pos (by simpa using h1), List.map_cons, List.map_cons,
        List.filter_cons_of_pos (by simpa using (fun h => h1 (hone.1 h))), iht]
      congr 1
      unfold asU128
      rw [if_pos hx]

/-- **Chain C19 ∘ C18.** If the model of `SmithNormalForm::reduce` returns a state `s'` (no assertion
failed) with `0 < h < 2^125`, square and with a non-negative diagonal (named hypotheses, see the file
header), then the class group handed back by `group_structure_dense` reports `h = s'.h` and cyclic
factors that multiply to `h`, none equal to 0 or 1 — the executable check `invariantsOk` the driver
runs on every real result returns `true`. -/
theorem reported_invariants_multiply (s s' : St) (hred : s.reduce = some s') (h0 : 0 < s'.h)
    (h1 : s'.h < 2 ^ 125) (hsq : s'.rows.length = s'.gens.length)
    (hnn : ∀ ds, diagList s'.rows = some ds → ∀ d ∈ ds, 0 ≤ d) :
    ∃ invs, reported s' = some (s'.h, invs) ∧ invs.prod = s'.h ∧ invariantsOk s'.h invs = true := by
  obtain ⟨_, ds, hds, hprod⟩ := Ymq.C19.snf_diag s s' hred h0 h1
  have hnn' := hnn ds hds
  have hrep : reported s' = some (s'.h, invariantsOf (ds.map Int.toNat)) := by
    unfold reported
    unfold diagList at hds
    rw [← hsq, hds]
    simp only
    rw [filter_map_comm ds hnn']
  have hp : (ds.map Int.toNat).prod = s'.h := by
    have := prod_toNat ds hnn'
    rw [hprod] at this
    exact_mod_cast this
  have hinv := Ymq.C18.invariants_multiply (ds.map Int.toNat) s'.h hp
  refine ⟨_, hrep, hinv, ?_⟩
  rw [Ymq.C18.invariantsOk_spec]
  refine ⟨hinv, ?_⟩
  intro d hd
  unfold invariantsOf at hd
  obtain ⟨hmem, hne⟩ := List.mem_filter.1 hd
  refine ⟨by simpa using hne, ?_⟩
  -- a zero factor would make the product of the whole diagonal zero
  intro hz
  subst hz
  have : (ds.map Int.toNat).prod = 0 := List.prod_eq_zero hmem
  omega

/-- non-vacuity: the diagonal state `h = 60`, `rows = [[2, 0], [0, 30]]` (what the real code returns for
`D = -10148`, K corpus) reports `(60, [2, 30])` -/
example : reported { rows := [[2, 0], [0, 30]], q := [], gens := [37, 3], removed := [], h := 60, qm := 0, qe := 0 }
    = some (60, [2, 30]) := by decide

end Ymq.C18C19
