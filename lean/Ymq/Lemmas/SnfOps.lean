/-
Row operations of the model of `SmithNormalForm` (Ymq/Model/Snf.lean) on the `i128` path
(`0 < h < 2^63`): `normalize`, `submul_n` (one source row), `eliminate`. Each of them replaces rows
by invertible `Z/h`-combinations: the relation module `rowSpan` is unchanged, `q`, `gens`, `h` are
untouched.
-/
import Ymq.Lemmas.SnfBasic
import Ymq.Lemmas.SnfEgcd
import Mathlib.Tactic.LinearCombination

namespace Ymq.Snf
open Ymq.Arith (chk128 extendedGcd)

/-- the part of the state that row operations never touch -/
def SameFrame (s s' : St) : Prop :=
  s'.q = s.q ∧ s'.gens = s.gens ∧ s'.h = s.h ∧ s'.qm = s.qm ∧ s'.qe = s.qe ∧ s'.removed = s.removed ∧
    s'.rows.length = s.rows.length

theorem SameFrame.refl (s : St) : SameFrame s s := ⟨rfl, rfl, rfl, rfl, rfl, rfl, rfl⟩

theorem SameFrame.trans {a b c : St} (h1 : SameFrame a b) (h2 : SameFrame b c) : SameFrame a c := by
  obtain ⟨a1, a2, a3, a4, a5, a6, a7⟩ := h1
  obtain ⟨b1, b2, b3, b4, b5, b6, b7⟩ := h2
  exact ⟨by rw [b1, a1], by rw [b2, a2], by rw [b3, a3], by rw [b4, a4], by rw [b5, a5], by rw [b6, a6],
    by rw [b7, a7]⟩

theorem small_of_sameFrame {s s' : St} (h : SameFrame s s') (hs : s.small = true) : s'.small = true := by
  unfold St.small at *
  rw [h.2.2.1]; exact hs

theorem isUnit_of_gcd_one (x : Int) (h : Nat) (hx : Int.gcd x h = 1) : IsUnit ((x : Int) : ZMod h) := by
  have hc : Nat.Coprime x.natAbs h := by
    simpa [Int.gcd] using hx
  have hu : IsUnit ((x.natAbs : Nat) : ZMod h) := (ZMod.isUnit_iff_coprime _ _).mpr hc
  rcases Int.natAbs_eq x with e | e
  · rw [e]; simpa using hu
  · rw [e]; simpa using hu.neg

/-- entries of a row below its length, as `ZMod` values -/
theorem rowVec_apply (h n : Nat) (row : List Int) (c : Fin n) (hc : (c : Nat) < row.length) :
    rowVec h n row c = ((row[(c : Nat)] : Int) : ZMod h) := by
  simp [rowVec, List.getD_eq_getElem?_getD, List.getElem?_eq_getElem hc]

/-- **normalize** (`0 < h < 2^63`): row `i` is multiplied by a unit of `Z/h`. -/
theorem normalize_spec (s s' : St) (i k : Nat) (hs : s.small = true) (h : s.normalize i k = some s') :
    SameFrame s s' ∧ rowSpan s.h s.gens.length s'.rows = rowSpan s.h s.gens.length s.rows := by
  unfold St.normalize at h
  simp only [] at h
  split at h
  · exact absurd h (by simp)
  · rename_i a _
    split at h
    · exact absurd h (by simp)
    · rename_i g x0 _ _
      split at h
      · have e : s = s' := Option.some.inj h
        rw [← e]
        exact ⟨SameFrame.refl s, rfl⟩
      · split at h
        · exact absurd h (by simp)
        · split at h
          · exact absurd h (by simp)
          · split at h
            · exact absurd h (by simp)
            · rename_i x1 _
              split at h
              · exact absurd h (by simp)
              · split at h
                · exact absurd h (by simp)
                · rename_i hgcd
                  split at h
                  · exact absurd h (by simp)
                  · rename_i row hrow
                    split at h
                    · exact absurd h (by simp)
                    · rename_i row' hrow'
                      have := (Option.some.inj h).symm; subst this
                      have hgcd1 : Int.gcd (x1 % (s.h : Int)) (s.h : Int) = 1 := by
                        by_contra hne; exact hgcd hne
                      set x := x1 % (s.h : Int) with hx
                      have hi : i < s.rows.length := by
                        by_contra hne
                        rw [List.getElem?_eq_none (by omega)] at hrow
                        exact absurd hrow (by simp)
                      have hrowi : s.rows[i] = row := by
                        rw [List.getElem?_eq_getElem hi] at hrow
                        exact Option.some.inj hrow
                      obtain ⟨hl, hn, hent⟩ := updRange_some _ 0 s.gens.length row 0 row' hrow'
                      have hu : IsUnit ((x : Int) : ZMod s.h) := isUnit_of_gcd_one x s.h (by simpa using hgcd1)
                      -- the new row is x • old row
                      have hvec : rowVec s.h s.gens.length row' = ((x : Int) : ZMod s.h) • rowVec s.h s.gens.length row := by
                        funext c
                        have hc : (c : Nat) < row.length := by have := c.2; omega
                        have hc' : (c : Nat) < row'.length := by omega
                        rw [Pi.smul_apply, rowVec_apply _ _ _ _ hc', rowVec_apply _ _ _ _ hc, smul_eq_mul]
                        have := (hent c hc hc').1 ⟨Nat.zero_le _, by have := c.2; omega⟩
                        rw [mulMod_small s hs _ _ _ this]; ring
                      refine ⟨⟨rfl, rfl, rfl, rfl, rfl, rfl, by simp⟩, ?_⟩
                      apply rowSpan_set _ _ _ _ hi
                      · rw [hvec]
                        apply Submodule.smul_mem
                        exact rowVec_mem_rowSpan _ _ _ _ (by rw [← hrowi]; exact List.getElem_mem _)
                      · rw [hrowi]
                        obtain ⟨u, hu'⟩ := hu
                        have : rowVec s.h s.gens.length row = (↑u⁻¹ : ZMod s.h) • rowVec s.h s.gens.length row' := by
                          rw [hvec, ← hu', smul_smul]; simp
                        rw [this]
                        apply Submodule.smul_mem
                        apply rowVec_mem_rowSpan
                        exact mem_set_self' _ _ hi _

/-! ### submul_n with one source row -/

theorem get2_some {M : Mat} {i j : Nat} {v : Int} (h : get2 M i j = some v) :
    ∃ (hi : i < M.length) (hj : j < M[i].length), M[i][j] = v := by
  unfold get2 at h
  split at h
  · exact absurd h (by simp)
  · rename_i r hr
    have hi : i < M.length := by
      by_contra hne
      rw [List.getElem?_eq_none (by omega)] at hr
      exact absurd hr (by simp)
    have e : M[i] = r := by
      rw [List.getElem?_eq_getElem hi] at hr
      exact Option.some.inj hr
    have hj : j < r.length := by
      by_contra hne
      rw [List.getElem?_eq_none (by omega)] at h
      exact absurd h (by simp)
    rw [List.getElem?_eq_getElem hj] at h
    subst e
    exact ⟨hi, hj, Option.some.inj h⟩

theorem subProducts_one {rows : Mat} {j idx : Nat} {mm x0 x : Int}
    (h : subProducts chk128 rows j idx [mm] 0 x0 = some x) :
    ∃ r, get2 rows j idx = some r ∧ x = x0 - mm * r := by
  unfold subProducts at h
  simp only [Nat.add_zero] at h
  split at h
  · exact absurd h (by simp)
  · rename_i r hr
    split at h
    · exact absurd h (by simp)
    · rename_i t ht
      split at h
      · exact absurd h (by simp)
      · rename_i x' hx'
        unfold subProducts at h
        have := Option.some.inj h
        exact ⟨r, hr, by rw [← this, chk128_some hx', chk128_some ht]⟩

/-- the echelon precondition of `submul_n` for one source row: the entries of row `j` left of column
`j` vanish modulo `h` -/
theorem echelonOk_one (s : St) (j : Nat) (h : s.echelonOk j 1 = true) :
    ∀ c, c < j → ∃ v, get2 s.rows j c = some v ∧ (v = 0 ∨ v = (s.h : Int)) := by
  intro c hc
  unfold St.echelonOk at h
  simp only [List.range_one, List.all_cons, List.all_nil, Bool.and_true, Nat.add_zero] at h
  rw [List.all_eq_true] at h
  have := h c (List.mem_range.mpr hc)
  split at this
  · rename_i v hv
    exact ⟨v, hv, by simpa using this⟩
  · exact absurd this (by simp)

/-- **submul_n** with one source row (`0 < h < 2^63`): `row_i -= m · row_j` modulo `h`. -/
theorem submul1_spec (s s' : St) (i j : Nat) (mm : Int) (hs : s.small = true) (hij : i ≠ j)
    (h : s.submulN i j [mm] = some s') :
    SameFrame s s' ∧ rowSpan s.h s.gens.length s'.rows = rowSpan s.h s.gens.length s.rows := by
  unfold St.submulN at h
  simp only [List.length_singleton, Nat.one_ne_zero, if_false] at h
  split at h
  · exact absurd h (by simp)
  · rename_i hech
    split at h
    · exact absurd h (by simp)
    · rename_i hjn
      have hsm : decide (0 < s.h ∧ s.h < 2 ^ 63 / 1) = true := by
        have := hs
        unfold St.small at this
        simpa using this
      simp only [hsm, if_true] at h
      split at h
      · exact absurd h (by simp)
      · rename_i row hrow
        split at h
        · exact absurd h (by simp)
        · rename_i row' hrow'
          have := (Option.some.inj h).symm; subst this
          have hech' : s.echelonOk j 1 = true := by simpa using hech
          have hi : i < s.rows.length := by
            by_contra hne
            rw [List.getElem?_eq_none (by omega)] at hrow
            exact absurd hrow (by simp)
          have hrowi : s.rows[i] = row := by
            rw [List.getElem?_eq_getElem hi] at hrow
            exact Option.some.inj hrow
          obtain ⟨hl, hn, hent⟩ := updRange_some _ j s.gens.length row 0 row' hrow'
          have hjlt : j < s.gens.length := by omega
          -- row j exists and is long enough
          have hjrow : ∃ (hj : j < s.rows.length), s.gens.length ≤ s.rows[j].length := by
            have hjr : j < row.length := by omega
            have := (hent j hjr (by omega)).1 ⟨by omega, by omega⟩
            simp only [Nat.zero_add] at this
            split at this
            · exact absurd this (by simp)
            · rename_i x hx
              obtain ⟨r, hr, _⟩ := subProducts_one hx
              obtain ⟨hj, _, _⟩ := get2_some hr
              refine ⟨hj, ?_⟩
              by_contra hne
              have hlast : s.gens.length - 1 < row.length := by omega
              have := (hent (s.gens.length - 1) hlast (by omega)).1 ⟨by omega, by omega⟩
              simp only [Nat.zero_add] at this
              split at this
              · exact absurd this (by simp)
              · rename_i x2 hx2
                obtain ⟨r2, hr2, _⟩ := subProducts_one hx2
                obtain ⟨_, hj2, _⟩ := get2_some hr2
                omega
          obtain ⟨hj, hjlen⟩ := hjrow
          have hvec : rowVec s.h s.gens.length row' =
              rowVec s.h s.gens.length row - ((mm : Int) : ZMod s.h) • rowVec s.h s.gens.length s.rows[j] := by
            funext c
            have hc : (c : Nat) < row.length := by have := c.2; omega
            have hc' : (c : Nat) < row'.length := by omega
            have hcj : (c : Nat) < s.rows[j].length := by have := c.2; omega
            rw [Pi.sub_apply, Pi.smul_apply, rowVec_apply _ _ _ _ hc', rowVec_apply _ _ _ _ hc,
              rowVec_apply _ _ _ _ hcj, smul_eq_mul]
            by_cases hcr : j ≤ (c : Nat)
            · have := (hent c hc hc').1 ⟨by omega, by have := c.2; omega⟩
              simp only [Nat.zero_add] at this
              split at this
              · exact absurd this (by simp)
              · rename_i x hx
                obtain ⟨r, hr, hxr⟩ := subProducts_one hx
                obtain ⟨_, _, hv⟩ := get2_some hr
                rw [modh128_cast s x _ this, hxr, ← hv]
                push_cast; ring
            · have hun := (hent c hc hc').2 (by omega)
              obtain ⟨v, hv, hv0⟩ := echelonOk_one s j hech' c (by omega)
              obtain ⟨_, _, hv'⟩ := get2_some hv
              have hz : ((s.rows[j][(c : Nat)] : Int) : ZMod s.h) = 0 := by
                rw [hv']
                rcases hv0 with e | e
                · rw [e]; simp
                · rw [e]; simp
              rw [hun, hz]; ring
          refine ⟨⟨rfl, rfl, rfl, rfl, rfl, rfl, by simp⟩, ?_⟩
          apply rowSpan_set _ _ _ _ hi
          · rw [hvec]
            apply Submodule.sub_mem
            · exact rowVec_mem_rowSpan _ _ _ _ (by rw [← hrowi]; exact List.getElem_mem _)
            · apply Submodule.smul_mem
              exact rowVec_mem_rowSpan _ _ _ _ (List.getElem_mem _)
          · rw [hrowi]
            have : rowVec s.h s.gens.length row =
                rowVec s.h s.gens.length row' + ((mm : Int) : ZMod s.h) • rowVec s.h s.gens.length s.rows[j] := by
              rw [hvec, sub_add_cancel]
            rw [this]
            apply Submodule.add_mem
            · exact rowVec_mem_rowSpan _ _ _ _ (mem_set_self' _ _ hi _)
            · apply Submodule.smul_mem
              apply rowVec_mem_rowSpan
              have e : s.rows[j] = (s.rows.set i row')[j]'(by simpa using hj) := by
                rw [List.getElem_set_of_ne hij]
              rw [e]; exact List.getElem_mem _

/-! ### eliminate -/

theorem lin2_small {p x q y v : Int} {h : Nat} (hv : (lin2 chk128 p x q y).map (· % (h : Int)) = some v) :
    ((v : Int) : ZMod h) = (p : ZMod h) * (x : ZMod h) + (q : ZMod h) * (y : ZMod h) := by
  unfold lin2 at hv
  split at hv
  · rename_i u w hu hw
    cases hc : chk128 (u + w) with
    | none => rw [hc] at hv; exact absurd hv (by simp)
    | some t =>
      rw [hc] at hv
      have e : v = t % (h : Int) := (Option.some.inj hv).symm
      rw [e, chk128_some hc, chk128_some hu, chk128_some hw]
      rw [show (((p * x + q * y) % (h : Int) : Int) : ZMod h) = ((p * x + q * y : Int) : ZMod h) from by
        rw [ZMod.intCast_eq_intCast_iff', Int.emod_emod]]
      push_cast; ring
  · exact absurd hv (by simp)

/-- the general step of `eliminate` in the `i128` path: one column of the two rows -/
theorem elim_entry {h : Nat} {p q : Int} {other : List Int} {idx : Nat} {x v : Int}
    (hv : (match other[idx]? with
          | none => none
          | some y => if x = 0 ∧ y = 0 then some x else
              (lin2 chk128 p x q y).map (· % (h : Int))) = some v) :
    ∃ (ho : idx < other.length),
      ((v : Int) : ZMod h) = (p : ZMod h) * (x : ZMod h) + (q : ZMod h) * ((other[idx] : Int) : ZMod h) := by
  split at hv
  · exact absurd hv (by simp)
  · rename_i y hy
    have ho : idx < other.length := by
      by_contra hne
      rw [List.getElem?_eq_none (by omega)] at hy
      exact absurd hy (by simp)
    have ey : other[idx] = y := by
      rw [List.getElem?_eq_getElem ho] at hy
      exact Option.some.inj hy
    refine ⟨ho, ?_⟩
    rw [ey]
    split at hv
    · rename_i h0
      have := (Option.some.inj hv).symm
      rw [this, h0.1, h0.2]; simp
    · exact lin2_small hv

/-- **eliminate** (`0 < h < 2^63`): either `row_j -= m · row_i`, or the two rows are replaced by
`(a·row_i + b·row_j, c·row_i + d·row_j)` with `a·d - b·c = 1` (Bezout coefficients of the two
entries of column `k`). -/
theorem eliminate_spec (s s' : St) (i j k : Nat) (hs : s.small = true) (h : s.eliminate i j k = some s') :
    SameFrame s s' ∧ rowSpan s.h s.gens.length s'.rows = rowSpan s.h s.gens.length s.rows := by
  unfold St.eliminate at h
  split at h
  · exact absurd h (by simp)
  · rename_i hij
    split at h
    · rename_i xi xj hxi hxj
      split at h
      · have e : s = s' := Option.some.inj h
        rw [← e]; exact ⟨SameFrame.refl s, rfl⟩
      · rename_i hxj0
        split at h
        · exact submul1_spec s s' j i _ hs (Ne.symm hij) h
        · split at h
          · exact absurd h (by simp)
          · rename_i g a b hegcd
            split at h
            · exact absurd h (by simp)
            · rename_i hg0
              split at h
              · exact absurd h (by simp)
              · rename_i nxj hnxj
                simp only [] at h
                split at h
                · rename_i ri rj hri hrj
                  split at h
                  · rename_i ri' rj' hnewI hnewJ
                    have := (Option.some.inj h).symm; subst this
                    -- Bezout data
                    obtain ⟨hbez, _, hgi, hgj⟩ := extendedGcd_bezout hegcd
                    have enxj : nxj = 0 - xj := chk128_some hnxj
                    obtain ⟨d, hd⟩ := hgi
                    obtain ⟨c0, hc0⟩ := hgj
                    have hdd : Int.tdiv xi g = d := by
                      rw [hd, Int.mul_tdiv_cancel_left _ hg0]
                    have hcc : Int.tdiv nxj g = -c0 := by
                      rw [enxj, hc0, show (0 : Int) - g * c0 = g * (-c0) by ring, Int.mul_tdiv_cancel_left _ hg0]
                    rw [hdd, hcc] at hnewJ
                    have hdet : a * d - b * (-c0) = 1 := by
                      have : (a * d - b * (-c0)) * g = g := by
                        have : a * (g * d) + b * (g * c0) = g := by rw [← hd, ← hc0]; exact hbez
                        linarith
                      exact Int.eq_one_of_mul_eq_self_left hg0 this
                    -- rows i and j
                    have hi : i < s.rows.length := by
                      by_contra hne
                      rw [List.getElem?_eq_none (by omega)] at hri
                      exact absurd hri (by simp)
                    have hj : j < s.rows.length := by
                      by_contra hne
                      rw [List.getElem?_eq_none (by omega)] at hrj
                      exact absurd hrj (by simp)
                    have eri : s.rows[i] = ri := by
                      rw [List.getElem?_eq_getElem hi] at hri; exact Option.some.inj hri
                    have erj : s.rows[j] = rj := by
                      rw [List.getElem?_eq_getElem hj] at hrj; exact Option.some.inj hrj
                    obtain ⟨hlI, hnI, hentI⟩ := updRange_some _ 0 s.gens.length ri 0 ri' hnewI
                    obtain ⟨hlJ, hnJ, hentJ⟩ := updRange_some _ 0 s.gens.length rj 0 rj' hnewJ
                    have hvI : rowVec s.h s.gens.length ri' =
                        ((a : Int) : ZMod s.h) • rowVec s.h s.gens.length ri +
                        ((b : Int) : ZMod s.h) • rowVec s.h s.gens.length rj := by
                      funext col
                      have hc1 : (col : Nat) < ri.length := by have := col.2; omega
                      have hc2 : (col : Nat) < ri'.length := by omega
                      have hc3 : (col : Nat) < rj.length := by have := col.2; omega
                      have := (hentI col hc1 hc2).1 ⟨Nat.zero_le _, by have := col.2; omega⟩
                      simp only [Nat.zero_add] at this
                      obtain ⟨_, hv⟩ := elim_entry this
                      rw [Pi.add_apply, Pi.smul_apply, Pi.smul_apply, rowVec_apply _ _ _ _ hc2,
                        rowVec_apply _ _ _ _ hc1, rowVec_apply _ _ _ _ hc3, smul_eq_mul, smul_eq_mul, hv]
                    have hvJ : rowVec s.h s.gens.length rj' =
                        (((-c0 : Int)) : ZMod s.h) • rowVec s.h s.gens.length ri +
                        ((d : Int) : ZMod s.h) • rowVec s.h s.gens.length rj := by
                      funext col
                      have hc1 : (col : Nat) < rj.length := by have := col.2; omega
                      have hc2 : (col : Nat) < rj'.length := by omega
                      have hc3 : (col : Nat) < ri.length := by have := col.2; omega
                      have := (hentJ col hc1 hc2).1 ⟨Nat.zero_le _, by have := col.2; omega⟩
                      simp only [Nat.zero_add] at this
                      -- the roles of x and y are exchanged in the update of row j
                      have hsw : (match ri[(col : Nat)]? with
                          | none => none
                          | some x => if rj[(col : Nat)] = 0 ∧ x = 0 then some rj[(col : Nat)] else
                              (lin2 chk128 d rj[(col : Nat)] (-c0) x).map (· % (s.h : Int))) = some rj'[(col : Nat)] := by
                        rw [← this]
                        cases hx : ri[(col : Nat)]? with
                        | none => rfl
                        | some x =>
                          simp only []
                          have e1 : (rj[(col : Nat)] = 0 ∧ x = 0) ↔ (x = 0 ∧ rj[(col : Nat)] = 0) := And.comm
                          by_cases hz : x = 0 ∧ rj[(col : Nat)] = 0
                          · rw [if_pos hz, if_pos (e1.mpr hz)]
                          · rw [if_neg hz, if_neg (fun hh => hz (e1.mp hh))]
                            have e2 : lin2 chk128 d rj[(col : Nat)] (-c0) x = lin2 chk128 (-c0) x d rj[(col : Nat)] := by
                              unfold lin2
                              cases h1 : chk128 (d * rj[(col : Nat)]) with
                              | none => cases h2 : chk128 (-c0 * x) <;> rfl
                              | some u =>
                                cases h2 : chk128 (-c0 * x) with
                                | none => rfl
                                | some w => simp only []; rw [add_comm]
                            rw [e2]
                      obtain ⟨_, hv⟩ := elim_entry hsw
                      rw [Pi.add_apply, Pi.smul_apply, Pi.smul_apply, rowVec_apply _ _ _ _ hc2,
                        rowVec_apply _ _ _ _ hc1, rowVec_apply _ _ _ _ hc3, smul_eq_mul, smul_eq_mul, hv]
                      ring
                    have hdetZ : ((a : Int) : ZMod s.h) * ((d : Int) : ZMod s.h) -
                        ((b : Int) : ZMod s.h) * (((-c0 : Int)) : ZMod s.h) = 1 := by
                      have := congrArg (fun z : Int => (z : ZMod s.h)) hdet
                      simpa using this
                    refine ⟨⟨rfl, rfl, rfl, rfl, rfl, rfl, by simp⟩, ?_⟩
                    have hmemI : rowVec s.h s.gens.length ri ∈ rowSpan s.h s.gens.length s.rows :=
                      rowVec_mem_rowSpan _ _ _ _ (by rw [← eri]; exact List.getElem_mem _)
                    have hmemJ : rowVec s.h s.gens.length rj ∈ rowSpan s.h s.gens.length s.rows :=
                      rowVec_mem_rowSpan _ _ _ _ (by rw [← erj]; exact List.getElem_mem _)
                    have hmemI' : rowVec s.h s.gens.length ri' ∈
                        rowSpan s.h s.gens.length ((s.rows.set i ri').set j rj') := by
                      exact rowVec_mem_rowSpan _ _ _ _ (mem_set_set _ _ _ hi hij _ _)
                    have hmemJ' : rowVec s.h s.gens.length rj' ∈
                        rowSpan s.h s.gens.length ((s.rows.set i ri').set j rj') :=
                      rowVec_mem_rowSpan _ _ _ _ (mem_set_self' _ _ (by simpa using hj) _)
                    apply rowSpan_set2 _ _ _ _ _ hi hj hij
                    · rw [hvI]
                      exact Submodule.add_mem _ (Submodule.smul_mem _ _ hmemI) (Submodule.smul_mem _ _ hmemJ)
                    · rw [hvJ]
                      exact Submodule.add_mem _ (Submodule.smul_mem _ _ hmemI) (Submodule.smul_mem _ _ hmemJ)
                    · -- row_i = d • new_i - b • new_j
                      rw [eri]
                      have : rowVec s.h s.gens.length ri =
                          ((d : Int) : ZMod s.h) • rowVec s.h s.gens.length ri' -
                          ((b : Int) : ZMod s.h) • rowVec s.h s.gens.length rj' := by
                        rw [hvI, hvJ]
                        funext col
                        simp only [Pi.add_apply, Pi.sub_apply, Pi.smul_apply, smul_eq_mul]
                        linear_combination (-(rowVec s.h s.gens.length ri col)) * hdetZ
                      rw [this]
                      exact Submodule.sub_mem _ (Submodule.smul_mem _ _ hmemI') (Submodule.smul_mem _ _ hmemJ')
                    · -- row_j = -c • new_i + a • new_j
                      rw [erj]
                      have : rowVec s.h s.gens.length rj =
                          ((a : Int) : ZMod s.h) • rowVec s.h s.gens.length rj' -
                          (((-c0 : Int)) : ZMod s.h) • rowVec s.h s.gens.length ri' := by
                        rw [hvI, hvJ]
                        funext col
                        simp only [Pi.add_apply, Pi.sub_apply, Pi.smul_apply, smul_eq_mul]
                        linear_combination (-(rowVec s.h s.gens.length rj col)) * hdetZ
                      rw [this]
                      exact Submodule.sub_mem _ (Submodule.smul_mem _ _ hmemJ') (Submodule.smul_mem _ _ hmemI')
                  · exact absurd h (by simp)
                · exact absurd h (by simp)
    · exact absurd h (by simp)

end Ymq.Snf
