//! Relation store, packed relations, final combination (C11).
//! Same request lines and answers as lean/Ymq/Drv/Relations.lean.
use crate::util::*;
use std::panic::{catch_unwind, AssertUnwindSafe};
use yamaquasi::arith_montgomery::ZmodN;
use yamaquasi::relations::verif_hooks as vh;
use yamaquasi::relations::{self, Relation, RelationSet};
use yamaquasi::{Algo, Preferences, Uint, Verbosity};

pub fn parse_factors(s: &str) -> Option<Vec<(i64, u64)>> {
    if s == "-" {
        return Some(vec![]);
    }
    s.split('*')
        .map(|t| {
            let (p, k) = t.split_once('^')?;
            let p: i64 = if p == "m1" { -1 } else { p.parse().ok()? };
            Some((p, k.parse().ok()?))
        })
        .collect()
}

pub fn parse_rel(s: &str) -> Option<Relation> {
    let f: Vec<&str> = s.split(':').collect();
    if f.len() != 4 {
        return None;
    }
    Some(Relation {
        x: uint_of(f[0])?,
        cofactor: f[1].parse().ok()?,
        cyclelen: f[2].parse().ok()?,
        factors: parse_factors(f[3])?,
    })
}

pub fn parse_pq(s: &str) -> Option<Option<(u64, u64)>> {
    if s == "-" {
        return Some(None);
    }
    let (p, q) = s.split_once(',')?;
    Some(Some((p.parse().ok()?, q.parse().ok()?)))
}

/// item = `<rel>|<pq>` or `<tid>|<rel>|<pq>`
pub fn parse_item(s: &str) -> Option<(Relation, Option<(u64, u64)>)> {
    let f: Vec<&str> = s.split('|').collect();
    match f.len() {
        2 => Some((parse_rel(f[0])?, parse_pq(f[1])?)),
        3 => Some((parse_rel(f[1])?, parse_pq(f[2])?)),
        _ => None,
    }
}

pub fn parse_history(s: &str) -> Option<Vec<(Relation, Option<(u64, u64)>)>> {
    if s == "-" {
        return Some(vec![]);
    }
    // `new|<n>|<fbsize>|<maxlarge>` tokens of the recorded history are skipped
    s.split(';')
        .filter(|t| !t.starts_with("new|") && !t.starts_with("final|"))
        .map(parse_item)
        .collect()
}

fn cap3(v: usize) -> String {
    v.min(3).to_string()
}

pub fn show_store(s: &RelationSet) -> String {
    vh::store_dump(s)
}

/// Runs a history on a real `RelationSet`; same answer grammar as the Lean driver.
pub fn run_history(
    n: Uint,
    fbsize: usize,
    maxlarge: u64,
    h: Vec<(Relation, Option<(u64, u64)>)>,
) -> String {
    let mut s = RelationSet::new(n, fbsize, maxlarge);
    let mut recs: Vec<String> = Vec::with_capacity(h.len());
    for (i, (r, pq)) in h.into_iter().enumerate() {
        // observable state before
        let kind = if r.cofactor == 1 {
            'c'
        } else if r.cofactor < maxlarge {
            's'
        } else {
            match pq {
                None => 'x',
                Some((p, q)) => {
                    if p == q {
                        'q'
                    } else {
                        'd'
                    }
                }
            }
        };
        let keys: Vec<u64> = match (kind, pq) {
            ('s', _) => vec![r.cofactor],
            ('d', Some((p, q))) | ('q', Some((p, q))) => vec![p, q],
            _ => vec![],
        };
        let before: Vec<Option<Vec<u8>>> = keys.iter().map(|&k| vh::partial_get(&s, k)).collect();
        let (np0, nd0, _) = vh::sizes(&s);
        let nc0 = s.cycles.len();
        let ok = catch_unwind(AssertUnwindSafe(|| s.add(r, pq))).is_ok();
        if !ok {
            return format!("panic@{i}");
        }
        let (np1, nd1, _) = vh::sizes(&s);
        let nc1 = s.cycles.len();
        let hp = before.get(0).map_or(false, |b| b.is_some());
        let hq = before.get(1).map_or(false, |b| b.is_some());
        let rep = keys
            .iter()
            .zip(before.iter())
            .any(|(&k, b)| b.is_some() && vh::partial_get(&s, k) != *b);
        let dd = if nd1 > nd0 {
            "+".to_string()
        } else {
            cap3(nd0 - nd1)
        };
        let b01 = |b: bool| if b { '1' } else { '0' };
        let mut rec = format!(
            "{kind}{}{}{}.{}.{}.{dd}",
            b01(hp),
            b01(hq),
            b01(rep),
            cap3(nc1.saturating_sub(nc0)),
            cap3(np1.saturating_sub(np0)),
        );
        for c in &s.cycles[nc0.min(nc1)..] {
            rec.push('=');
            rec.push_str(&vh::rel_token(c));
        }
        recs.push(rec);
    }
    format!("{} | {}", recs.join(";"), show_store(&s))
}

/// `sieve_history <alg> <n> [threads=<t>] [dbl=<0|1>] [fb=<size>] [lf=<factor>]`:
/// runs the real sieve with the add-history observer on, takes the store that received most adds,
/// and answers `<result> || <n> <fbsize> <maxlarge> <items> || <answer of rs_history on that history>`
/// (the last part is computed by replaying the recorded history on a fresh real `RelationSet`).
fn sieve_history(a: &[&str]) -> Option<String> {
    use std::str::FromStr;
    let alg = Algo::from_str(a.first()?).ok()?;
    let n = uint_of(a.get(1)?)?;
    let mut prefs = Preferences::default();
    prefs.verbosity = Verbosity::Silent;
    prefs.threads = Some(1);
    for kv in &a[2..] {
        let (k, v) = kv.split_once('=')?;
        match k {
            "threads" => prefs.threads = Some(v.parse().ok()?),
            "dbl" => prefs.use_double = Some(v == "1"),
            "fb" => prefs.fb_size = Some(v.parse().ok()?),
            "lf" => prefs.large_factor = Some(v.parse().ok()?),
            _ => return None,
        }
    }
    vh::history_start();
    let r = catch_unwind(AssertUnwindSafe(|| yamaquasi::factor(n, alg, &prefs)));
    let h = vh::history_take();
    let res = match r {
        Ok(Ok(v)) => format!("ok {}", show_list(&v)),
        Ok(Err(_)) => "failure".to_string(),
        Err(_) => "panic".to_string(),
    };
    // segments: (params, items)
    let mut segs: Vec<(String, Vec<&str>)> = vec![];
    for t in &h {
        if let Some(p) = t.strip_prefix("new|") {
            segs.push((p.replace('|', " "), vec![]));
        } else if t.starts_with("final|") {
            continue;
        } else if let Some(last) = segs.last_mut() {
            last.1.push(t.as_str());
        }
    }
    let Some((params, items)) = segs.into_iter().max_by_key(|s| s.1.len()) else {
        return Some(format!("{res} || - || -"));
    };
    if items.is_empty() {
        return Some(format!("{res} || - || -"));
    }
    let p: Vec<&str> = params.split(' ').collect();
    let hist = items.join(";");
    let expected = run_history(
        uint_of(p[0])?,
        p[1].parse().ok()?,
        p[2].parse().ok()?,
        parse_history(&hist)?,
    );
    Some(format!("{res} || {params} {hist} || {expected}"))
}

/// `sieve_final <alg> <n> [threads=..] [dbl=..] [fb=..] [lf=..]`: runs the real sieve with the
/// `final_step` observers on and answers
/// `<result> || <n> <fb primes> <rels> <kernel> || <divisors>` for the last `final_step` call
/// (`-` for empty lists; kernel = index lists joined by `;`).
fn sieve_final(a: &[&str]) -> Option<String> {
    use std::str::FromStr;
    let alg = Algo::from_str(a.first()?).ok()?;
    let n = uint_of(a.get(1)?)?;
    let mut prefs = Preferences::default();
    prefs.verbosity = Verbosity::Silent;
    prefs.threads = Some(1);
    for kv in &a[2..] {
        let (k, v) = kv.split_once('=')?;
        match k {
            "threads" => prefs.threads = Some(v.parse().ok()?),
            "dbl" => prefs.use_double = Some(v == "1"),
            "fb" => prefs.fb_size = Some(v.parse().ok()?),
            "lf" => prefs.large_factor = Some(v.parse().ok()?),
            _ => return None,
        }
    }
    vh::final_start();
    let r = catch_unwind(AssertUnwindSafe(|| yamaquasi::factor(n, alg, &prefs)));
    let log = vh::final_take();
    let res = match r {
        Ok(Ok(v)) => format!("ok {}", show_list(&v)),
        Ok(Err(_)) => "failure".to_string(),
        Err(_) => "panic".to_string(),
    };
    // last complete (step, kernel, divs) triple
    let mut best: Option<(usize, usize, usize)> = None;
    for i in 0..log.len() {
        if log[i].starts_with("step|")
            && i + 2 < log.len()
            && log[i + 1].starts_with("kernel|")
            && log[i + 2].starts_with("divs|")
        {
            best = Some((i, i + 1, i + 2));
        }
    }
    let Some((i, j, k)) = best else {
        return Some(format!("{res} || - || -"));
    };
    let dash = |s: &str| if s.is_empty() { "-".to_string() } else { s.to_string() };
    let st: Vec<&str> = log[i].splitn(4, '|').collect();
    let kernel = dash(&log[j]["kernel|".len()..]);
    let divs = dash(&log[k]["divs|".len()..]);
    Some(format!(
        "{res} || {} {} {} {kernel} || {divs}",
        st[1],
        dash(st[2]),
        dash(st[3])
    ))
}

/// `final_step <n> <fbsize> <rel;rel;..>`: the real `final_step` on a constructed relation set, with the
/// factor base `FBase::new(n, fbsize)`. Answer: `<divisors> || <fb primes> || <kernel>` (`-` = empty;
/// kernel = the vectors the real kernel solver returned, as index lists joined by `;`).
fn final_step_op(a: &[&str]) -> Option<String> {
    use bnum::cast::CastFrom;
    let n = uint_of(a.first()?)?;
    let fbsize: u32 = a.get(1)?.parse().ok()?;
    let rels: Vec<Relation> = if *a.get(2)? == "-" {
        vec![]
    } else {
        a[2].split(';').map(parse_rel).collect::<Option<Vec<_>>>()?
    };
    let fb = yamaquasi::fbase::FBase::new(yamaquasi::Int::cast_from(n), fbsize);
    vh::final_start();
    let r = catch_unwind(AssertUnwindSafe(|| {
        relations::final_step(&n, &fb, &rels, Verbosity::Silent)
    }));
    let log = vh::final_take();
    let Ok(divs) = r else {
        return Some("panic".to_string());
    };
    let kernel = log
        .iter()
        .rev()
        .find_map(|t| t.strip_prefix("kernel|"))
        .unwrap_or("");
    let dash = |s: &str| if s.is_empty() { "-".to_string() } else { s.to_string() };
    Some(format!(
        "{} || {} || {}",
        show_list(&divs),
        show_list(&fb.primes),
        dash(kernel)
    ))
}

pub fn handle(op: &str, a: &[&str]) -> Option<String> {
    if op == "final_step" {
        return final_step_op(a);
    }
    if op == "sieve_history" {
        return sieve_history(a);
    }
    if op == "sieve_final" {
        return sieve_final(a);
    }
    match (op, a) {
        ("rel_verify", [n, r]) => Some(parse_rel(r)?.verify(&uint_of(n)?).to_string()),
        ("rs_combine", [n, r1, r2]) => {
            let s = RelationSet::new(uint_of(n)?, 0, 0);
            Some(vh::rel_token(&s.combine(&parse_rel(r1)?, &parse_rel(r2)?)))
        }
        ("rel_pack", [r]) => Some(show_list(&vh::pack_bytes(parse_rel(r)?))),
        ("rel_roundtrip", [r]) => Some(vh::rel_token(&vh::unpack_bytes(&vh::pack_bytes(
            parse_rel(r)?,
        )))),
        ("rel_unpack", [b]) => Some(vh::rel_token(&vh::unpack_bytes(&list_of::<u8>(b)?))),
        ("try_factor", [n, x, y]) => {
            Some(match relations::try_factor(&uint_of(n)?, uint_of(x)?, uint_of(y)?) {
                None => "none".to_string(),
                Some((p, q)) => format!("{p},{q}"),
            })
        }
        ("final_combine", [n, xs, f]) => {
            let zn = ZmodN::new(uint_of(n)?);
            let xs: Vec<Uint> = if *xs == "-" {
                vec![]
            } else {
                xs.split(',').map(uint_of).collect::<Option<Vec<_>>>()?
            };
            let (x, y) = relations::combine(&zn, &xs, &parse_factors(f)?);
            Some(format!("{x},{y}"))
        }
        // same as rs_history but only the counters are reported (long chains: the store dump is quadratic)
        ("rs_history_stats", [n, fbsize, maxlarge, h]) => {
            let full = run_history(
                uint_of(n)?,
                fbsize.parse().ok()?,
                u64_of(maxlarge)?,
                parse_history(h)?,
            );
            if full.starts_with("panic") {
                return Some(full);
            }
            let tail = full.rsplit(" | ").next()?;
            let cycles = tail.split(' ').next()?;
            let stats = tail.rsplit(' ').next()?;
            Some(format!("{cycles} {stats}"))
        }
        // `rs_history_stack`: same request; the Lean driver answers it with its explicit-stack model
        ("rs_history", [n, fbsize, maxlarge, h]) | ("rs_history_stack", [n, fbsize, maxlarge, h]) => Some(run_history(
            uint_of(n)?,
            fbsize.parse().ok()?,
            u64_of(maxlarge)?,
            parse_history(h)?,
        )),
        _ => None,
    }
}
