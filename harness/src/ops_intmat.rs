//! Integer determinants, lattice indices, Smith forms (C19): matrix/intdense.rs, matrix/intsparse.rs.
//!
//! encodings: dense matrix = rows joined by `;`, entries by `,` (`-` = no rows);
//! sparse rows = rows joined by `;`, a row is `-` or `col:coef,col:coef,...`;
//! an f64 argument is given by its IEEE bit pattern (decimal u64).
use crate::util::*;
use bnum::types::{I256, I4096, U256};
use std::str::FromStr;
use yamaquasi::matrix::intdense::{self, verif_hooks as hd, GFpEchelonBuilder, GramBuilder, SmithNormalForm};
use yamaquasi::matrix::intsparse::{self, verif_hooks as hs, SparseMat};

fn mat_of<T: FromStr>(s: &str) -> Option<Vec<Vec<T>>> {
    if s == "-" {
        return Some(vec![]);
    }
    s.split(';').map(|r| list_of::<T>(r)).collect()
}

fn show_mat<T: ToString>(m: &[Vec<T>]) -> String {
    if m.is_empty() {
        return "-".to_string();
    }
    m.iter().map(|r| show_list(r)).collect::<Vec<_>>().join(";")
}

fn sparse_of(s: &str) -> Option<Vec<Vec<(u32, i32)>>> {
    if s == "-" {
        return Some(vec![]);
    }
    s.split(';')
        .map(|r| {
            if r == "-" {
                return Some(vec![]);
            }
            r.split(',')
                .map(|e| {
                    let (j, c) = e.split_once(':')?;
                    Some((j.parse().ok()?, c.parse().ok()?))
                })
                .collect()
        })
        .collect()
}

fn f64_of(s: &str) -> Option<f64> {
    Some(f64::from_bits(u64_of(s)?))
}

fn refs(m: &[Vec<i64>]) -> Vec<&[i64]> {
    m.iter().map(|v| &v[..]).collect()
}

fn show_removed(r: &[(u32, Vec<(u32, i128)>)]) -> String {
    if r.is_empty() {
        return "-".to_string();
    }
    r.iter()
        .map(|(p, v)| {
            let body = if v.is_empty() {
                "-".to_string()
            } else {
                v.iter().map(|(l, e)| format!("{}:{}", l, e)).collect::<Vec<_>>().join(",")
            };
            format!("{}={}", p, body)
        })
        .collect::<Vec<_>>()
        .join("|")
}

fn snf_state(h: &str, gens: &str, rows: &str, q: &str) -> Option<SmithNormalForm> {
    let h = u128_of(h)?;
    Some(SmithNormalForm {
        rows: mat_of::<i128>(rows)?,
        q: mat_of::<i128>(q)?,
        gens: list_of::<u32>(gens)?,
        removed: vec![],
        h,
        hinv: hd::snf_divider(h),
        verbose: false,
    })
}

fn show_snf(s: &SmithNormalForm) -> String {
    format!(
        "{} {} {} {}",
        show_list(&s.gens),
        show_mat(&s.rows),
        show_mat(&s.q),
        show_removed(&s.removed)
    )
}

fn pool(threads: usize) -> rayon::ThreadPool {
    rayon::ThreadPoolBuilder::new().num_threads(threads).build().unwrap()
}

fn p4_of(s: &str) -> Option<[u64; 4]> {
    let l: Vec<u64> = list_of(s)?;
    l.try_into().ok()
}

pub fn handle(op: &str, a: &[&str]) -> Option<String> {
    match (op, a) {
        // ---------------------------------------------------------------- CRT
        ("im_crt", [m, p]) => Some(hd::crt(&list_of::<u64>(m)?, &list_of::<u64>(p)?).to_string()),
        ("im_crt_sparse", [m, p]) => Some(hs::crt(&list_of::<u64>(m)?, &list_of::<u64>(p)?).to_string()),
        // ---------------------------------------------------------------- echelon builder
        // answer: add results, indices, basis, factors (natural representation), det or `-`
        ("im_echelon", [p, m]) => {
            let rows = mat_of::<i64>(m)?;
            let mut b = GFpEchelonBuilder::new(u64_of(p)?);
            let adds: Vec<u8> = rows.iter().map(|r| b.add(r) as u8).collect();
            let (_, _, idx, basis, fac) = hd::echelon_parts(&b);
            let basis: Vec<Vec<u64>> =
                basis.iter().map(|r| r.iter().map(|&x| hd::echelon_redc(&b, x)).collect()).collect();
            let fac: Vec<u64> = fac.iter().map(|&x| hd::echelon_redc(&b, x)).collect();
            let det = if !basis.is_empty() && fac.len() == basis[0].len() {
                b.det().to_string()
            } else {
                "-".to_string()
            };
            Some(format!("{} {} {} {} {}", show_list(&adds), show_list(&idx), show_mat(&basis), show_list(&fac), det))
        }
        // one `add` on a builder whose state is given as stored (Montgomery form words): reaches the
        // panic sites of `add` that no sequence of `add` calls on a fresh builder reaches
        ("im_ech_raw", [p, ind, basis, fac, row]) => {
            let ind: Vec<usize> = list_of(ind)?;
            let basis = mat_of::<u64>(basis)?;
            let fac: Vec<u64> = list_of(fac)?;
            let row: Vec<i64> = list_of(row)?;
            let mut b = hd::echelon_from_parts(u64_of(p)?, ind, basis, fac);
            let r = b.add(&row);
            let (_, _, idx, basis, fac) = hd::echelon_parts(&b);
            Some(format!("{} {} {} {}", r as u8, show_list(&idx), show_mat(&basis), show_list(&fac)))
        }
        // determinant mod p through add/det only (panics like the real caller would)
        ("im_detp", [p, m]) => {
            let rows = mat_of::<i64>(m)?;
            let mut b = GFpEchelonBuilder::new(u64_of(p)?);
            for r in rows.iter() {
                if !b.add(r) {
                    return Some("0".to_string());
                }
            }
            Some(b.det().to_string())
        }
        // the cycle walk of `det` on an arbitrary index vector: factors are all 1 (Montgomery r)
        ("im_perm_sign", [perm]) => {
            let ind: Vec<usize> = list_of(perm)?;
            let p: u64 = 65537;
            let n = ind.len();
            let b0 = GFpEchelonBuilder::new(p);
            let (_, r, _, _, _) = hd::echelon_parts(&b0);
            let b = hd::echelon_from_parts(p, ind, vec![vec![0u64; n]; n], vec![r; n]);
            let d = b.det();
            Some(if d == 1 { "1".to_string() } else if d == p - 1 { "-1".to_string() } else { format!("bad {}", d) })
        }
        // ---------------------------------------------------------------- dense determinant
        ("im_det", [m, est, bits]) => {
            let rows = mat_of::<i64>(m)?;
            let est = f64_of(est)?;
            if est.round() != bits.parse::<f64>().ok()? {
                return Some("bad-bits".to_string());
            }
            Some(intdense::det_matz(refs(&rows), est).to_string())
        }
        // estimate from Gram-Schmidt as the callers do; answer `dependent` when a row is rejected
        ("im_det_gram", [m]) => {
            let rows = mat_of::<i64>(m)?;
            let mut g = GramBuilder::default();
            g.threshold = Some(0.01);
            for r in rows.iter() {
                if !g.add(r) {
                    return Some("dependent".to_string());
                }
            }
            Some(intdense::det_matz(refs(&rows), g.detlog2_estimate()).to_string())
        }
        // CRTDetBuilder: fixed rows, then one det call per candidate row on the same builder
        ("im_crtdet", [m, cands, ests, bits]) => {
            let rows = mat_of::<i64>(m)?;
            let cands = mat_of::<i64>(cands)?;
            let ests: Vec<u64> = list_of(ests)?;
            let bits: Vec<f64> = list_of(bits)?;
            if ests.len() != cands.len() || bits.len() != cands.len() {
                return None;
            }
            let ests: Vec<f64> = ests.iter().map(|&e| f64::from_bits(e)).collect();
            for (e, b) in ests.iter().zip(&bits) {
                if e.round() != *b {
                    return Some("bad-bits".to_string());
                }
            }
            let calls: Vec<(&[i64], f64)> = cands.iter().map(|v| &v[..]).zip(ests.iter().copied()).collect();
            let r = hd::crt_det_builder(refs(&rows), &calls);
            Some(show_list(&r))
        }
        ("im_lattice_index", [m, hmin, hmax]) => {
            let rows = mat_of::<i64>(m)?;
            Some(intdense::compute_lattice_index(&rows, f64_of(hmin)?, f64_of(hmax)?).to_string())
        }
        // single column, window bounds given as exact fractions num/den (den a power of two)
        ("im_lattice_index1", [col, lo_n, lo_d, hi_n, hi_d]) => {
            let col: Vec<i64> = list_of(col)?;
            let rows: Vec<Vec<i64>> = col.iter().map(|&x| vec![x]).collect();
            let lo = u64_of(lo_n)? as f64 / u64_of(lo_d)? as f64;
            let hi = u64_of(hi_n)? as f64 / u64_of(hi_d)? as f64;
            Some(intdense::compute_lattice_index(&rows, lo, hi).to_string())
        }
        // ---------------------------------------------------------------- Smith normal form
        ("snf_divider", [h]) => {
            let (qm, qe) = hd::snf_divider(u128_of(h)?);
            Some(format!("{} {}", qm, qe))
        }
        ("snf_modh128", [h, x]) => {
            let s = snf_state(h, "-", "-", "-")?;
            Some(hd::snf_modh128(&s, x.parse::<i128>().ok()?).to_string())
        }
        ("snf_modh256", [h, x]) => {
            let s = snf_state(h, "-", "-", "-")?;
            Some(hd::snf_modh256(&s, I256::from_str(x).ok()?).to_string())
        }
        ("snf_normalize", [h, gens, rows, q, i, k]) => {
            let mut s = snf_state(h, gens, rows, q)?;
            hd::snf_normalize(&mut s, i.parse().ok()?, k.parse().ok()?);
            Some(show_snf(&s))
        }
        ("snf_colsub", [h, gens, rows, q, i, j, k]) => {
            let mut s = snf_state(h, gens, rows, q)?;
            hd::snf_colsub(&mut s, i.parse().ok()?, j.parse().ok()?, k.parse().ok()?);
            Some(show_snf(&s))
        }
        ("snf_colswap", [h, gens, rows, q, i, j]) => {
            let mut s = snf_state(h, gens, rows, q)?;
            hd::snf_colswap(&mut s, i.parse().ok()?, j.parse().ok()?);
            Some(show_snf(&s))
        }
        ("snf_submul", [h, gens, rows, q, i, j, ms]) => {
            let mut s = snf_state(h, gens, rows, q)?;
            let ms: Vec<i128> = list_of(ms)?;
            let (i, j) = (i.parse().ok()?, j.parse().ok()?);
            if let Ok(m1) = <[i128; 1]>::try_from(ms.clone()) {
                hd::snf_submul_1(&mut s, i, j, &m1);
            } else if let Ok(m8) = <[i128; 8]>::try_from(ms) {
                hd::snf_submul_8(&mut s, i, j, &m8);
            } else {
                return None;
            }
            Some(show_snf(&s))
        }
        ("snf_eliminate", [h, gens, rows, q, i, j, k]) => {
            let mut s = snf_state(h, gens, rows, q)?;
            hd::snf_eliminate(&mut s, i.parse().ok()?, j.parse().ok()?, k.parse().ok()?);
            Some(show_snf(&s))
        }
        ("snf_eliminate_block", [h, gens, rows, q, j, start, end, upper]) => {
            let mut s = snf_state(h, gens, rows, q)?;
            let (start, end): (usize, usize) = (start.parse().ok()?, end.parse().ok()?);
            hd::snf_eliminate_block(&mut s, j.parse().ok()?, start..end, bool_of(upper)?);
            Some(show_snf(&s))
        }
        ("snf_reduce_rows", [h, gens, rows]) => {
            let mut s = snf_state(h, gens, rows, "-")?;
            hd::snf_reduce_rows(&mut s);
            Some(show_snf(&s))
        }
        ("snf_reduce_cols", [h, gens, rows]) => {
            let mut s = snf_state(h, gens, rows, "-")?;
            hd::snf_reduce_cols(&mut s);
            Some(show_snf(&s))
        }
        ("snf_reduce", [h, gens, rows]) => {
            let mut s = snf_state(h, gens, rows, "-")?;
            s.reduce();
            Some(show_snf(&s))
        }
        // SmithNormalForm::new on sparse relations: answer h, gens, dense rows
        ("im_snf_new", [rels, hmin, hmax]) => {
            let rels = sparse_of(rels)?;
            let s = SmithNormalForm::new(&rels, vec![], f64_of(hmin)?, f64_of(hmax)?);
            Some(format!("{} {} {}", s.h, show_list(&s.gens), show_mat(&s.rows)))
        }
        // new + reduce: answer h and the final state; `refused-reduce h` when reduce() panics
        // (a panic inside new(), i.e. in compute_lattice_index, answers `panic`)
        ("im_snf", [rels, hmin, hmax]) => {
            let rels = sparse_of(rels)?;
            let mut s = SmithNormalForm::new(&rels, vec![], f64_of(hmin)?, f64_of(hmax)?);
            let h = s.h;
            let r = std::panic::catch_unwind(std::panic::AssertUnwindSafe(move || {
                s.reduce();
                s
            }));
            Some(match r {
                Ok(s) => format!("{} {}", s.h, show_snf(&s)),
                Err(_) => format!("refused-reduce {}", h),
            })
        }
        // ---------------------------------------------------------------- sparse matrices
        ("im_sparse_norm", [rows]) => Some(hs::norm(&SparseMat::new(sparse_of(rows)?)).to_string()),
        ("im_sparse_primes", [rows]) => {
            Some(show_list(&hs::select_crtprimes(&SparseMat::new(sparse_of(rows)?))))
        }
        ("im_mulp4", [rows, p4, v]) => {
            let m = SparseMat::new(sparse_of(rows)?);
            let v: Vec<u64> = list_of(v)?;
            let v4: Vec<[u64; 4]> = v.chunks(4).map(|c| c.try_into().ok()).collect::<Option<_>>()?;
            let out = hs::mulp4(&m, p4_of(p4)?, &v4);
            let flat: Vec<u64> = out.iter().flat_map(|c| c.iter().copied()).collect();
            Some(show_list(&flat))
        }
        ("im_detp4", [rows, p4]) => {
            let m = SparseMat::new(sparse_of(rows)?);
            Some(show_list(&m.detp4(p4_of(p4)?)))
        }
        ("im_det_sparse", [rows]) => Some(SparseMat::new(sparse_of(rows)?).detz(None).to_string()),
        ("im_det_sparse_par", [rows, threads]) => {
            let tp = pool(threads.parse().ok()?);
            Some(SparseMat::new(sparse_of(rows)?).detz(Some(&tp)).to_string())
        }
        ("im_ker_p256", [rows, p]) => {
            let m = SparseMat::new(sparse_of(rows)?);
            Some(match m.ker_p256(U256::from_str(p).ok()?) {
                None => "none".to_string(),
                Some(v) => show_list(&v),
            })
        }
        ("im_bm", [p, seq]) => Some(show_list(&intsparse::berlekamp_massey(u64_of(p)?, &list_of::<u64>(seq)?))),
        ("im_bm_big", [p, seq]) => {
            let p = u128_of(p)?;
            let seq: Vec<u128> = list_of(seq)?;
            Some(show_list(&intsparse::berlekamp_massey_big::<u128, U256>(p, &seq)))
        }
        // diagnostic for the finding keys: the row selections of the sparse lattice index with their detz values
        ("im_sparse_lattice_trace", [dim, rows, count]) => {
            let rows = sparse_of(rows)?;
            let t = hs::lattice_index_selections(dim.parse().ok()?, &rows, count.parse().ok()?);
            Some(
                t.iter()
                    .map(|(sel, d)| format!("{}={}", show_list(sel), d))
                    .collect::<Vec<_>>()
                    .join("|"),
            )
        }
        ("im_sparse_lattice_index", [dim, rows, hmin, hmax, threads]) => {
            let rows = sparse_of(rows)?;
            let t: usize = threads.parse().ok()?;
            let tp = if t > 0 { Some(pool(t)) } else { None };
            Some(
                intsparse::compute_lattice_index(dim.parse().ok()?, &rows, f64_of(hmin)?, f64_of(hmax)?, tp.as_ref())
                    .to_string(),
            )
        }
        _ => None,
    }
}

#[allow(dead_code)]
fn _unused(_: I4096) {}
