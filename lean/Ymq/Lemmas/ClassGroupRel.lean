/-
Totality of the relation construction of `sieve_block_poly` (model `relationOf` of
Ymq/Model/ClassGroup.lean): on a positive definite polynomial of the right discriminant, with a
factor base whose stored roots are square roots of the discriminant, no `debug_assert!`/`unwrap`
of the conversion loop, of `Poly::factors` or of the evaluation can fire.
Also: the relation store never loses a complete relation.
-/
import Ymq.Lemmas.ClassGroupSign
import Ymq.Lemmas.ClassGroupStore

namespace Ymq.ClassGroup

/-! ### evaluation identities -/

/-- type 2 (`A x² + B x + C`): `y² - 4 A P(x) = B² - 4AC` with `y = 2Ax + B` -/
theorem polyEval_type2 (a b c x : Int) :
    (polyEval false a b c x).2 * (polyEval false a b c x).2 - 4 * a * (polyEval false a b c x).1
      = b * b - 4 * a * c := by
  simp only [polyEval, Bool.false_eq_true, if_false]
  ring

/-- type 1 (`A x² + 2B x + C`): `y² - 4 A P(x) = 4 (B² - AC)` with `y = 2(Ax + B)` -/
theorem polyEval_type1 (a b c x : Int) :
    (polyEval true a b c x).2 * (polyEval true a b c x).2 - 4 * a * (polyEval true a b c x).1
      = 4 * (b * b - a * c) := by
  simp only [polyEval, if_true]
  ring

/-- discriminant of the form behind the polynomial -/
def polyDisc (type1 : Bool) (a b c : Int) : Int := if type1 then 4 * (b * b - a * c) else b * b - 4 * a * c

theorem polyEval_disc (type1 : Bool) (a b c x : Int) :
    (polyEval type1 a b c x).2 * (polyEval type1 a b c x).2 - 4 * a * (polyEval type1 a b c x).1
      = polyDisc type1 a b c := by
  cases type1
  · simpa [polyDisc] using polyEval_type2 a b c x
  · simpa [polyDisc] using polyEval_type1 a b c x

/-- positive definite: `A > 0`, `D < 0` give `P(x) > 0` (the `debug_assert!(v.is_positive())`) -/
theorem polyEval_pos (type1 : Bool) (a b c x : Int) (ha : 0 < a) (hD : polyDisc type1 a b c < 0) :
    0 < (polyEval type1 a b c x).1 := by
  have h := polyEval_disc type1 a b c x
  have hsq : 0 ≤ (polyEval type1 a b c x).2 * (polyEval type1 a b c x).2 := mul_self_nonneg _
  by_contra hv
  have hv' : (polyEval type1 a b c x).1 ≤ 0 := not_lt.1 hv
  have : 4 * a * (polyEval type1 a b c x).1 ≤ 0 := by nlinarith
  linarith

/-! ### trial division -/

theorem divLoop_spec : ∀ (f p v e v' e' : Nat), divLoop f p v e = (v', e') →
    e ≤ e' ∧ v = v' * p ^ (e' - e)
  | 0, p, v, e, v', e', h => by
    simp only [divLoop, Prod.mk.injEq] at h
    obtain ⟨rfl, rfl⟩ := h
    simp
  | f + 1, p, v, e, v', e', h => by
    rw [divLoop] at h
    split at h
    · rename_i hc
      obtain ⟨h1, h2⟩ := divLoop_spec f p (v / p) (e + 1) v' e' h
      refine ⟨by omega, ?_⟩
      have hv : v = v / p * p := by
        have := Nat.div_add_mod v p
        rw [hc.2.2] at this
        rw [Nat.mul_comm]; omega
      have he : e' - e = (e' - (e + 1)) + 1 := by omega
      rw [he, pow_succ, ← Nat.mul_assoc, ← h2]
      exact hv
    · simp only [Prod.mk.injEq] at h
      obtain ⟨rfl, rfl⟩ := h
      simp

/-- every integer factor found by `cofactor` is one of the candidates and divides the value -/
theorem trialDivide_spec : ∀ (facs : List Nat) (v : Nat),
    (∀ pe ∈ (trialDivide facs v).1, pe.1 ∈ facs ∧ pe.1 ∣ v) ∧ (trialDivide facs v).2 ∣ v
  | [], v => by simp [trialDivide]
  | p :: ps, v => by
    rw [trialDivide]
    cases hd : divLoop (v.log2 + 1) p v 0 with
    | mk v' e =>
      obtain ⟨_, hv⟩ := divLoop_spec _ _ _ _ _ _ hd
      have hv'v : v' ∣ v := ⟨p ^ (e - 0), hv⟩
      obtain ⟨ih1, ih2⟩ := trialDivide_spec ps v'
      simp only
      cases hr : trialDivide ps v' with
      | mk fs cof =>
        rw [hr] at ih1 ih2
        simp only at ih1 ih2 ⊢
        refine ⟨?_, Dvd.dvd.trans ih2 hv'v⟩
        intro pe hpe
        have hrest : ∀ pe ∈ fs, pe.1 ∈ p :: ps ∧ pe.1 ∣ v := fun pe h =>
          ⟨List.mem_cons_of_mem _ (ih1 pe h).1, Dvd.dvd.trans (ih1 pe h).2 hv'v⟩
        split at hpe
        · rename_i he
          rcases List.mem_cons.1 hpe with rfl | h
          · refine ⟨List.mem_cons_self, ?_⟩
            simp only
            have : e - 0 = (e - 1) + 1 := by omega
            rw [hv, this, pow_succ]
            exact ⟨v' * p ^ (e - 1), by ring⟩
          · exact hrest pe h
        · exact hrest pe hpe

/-! ### conversion loop -/

/-- what the factor base must satisfy for a candidate prime: it is 2, or a conductor prime (the
relation is then rejected), or an odd prime whose stored root gives the normalised root -/
def FbOk (D : Int) (type1 : Bool) (conductor : List Nat) (fb : List (Nat × Nat)) (p : Nat) : Prop :=
  p = 2 ∨ p ∈ conductor ∨
    (p.Prime ∧ ∃ r ref, fb.lookup p = some r ∧ bPlus p r type1 = some ref ∧ IsBPlus D p ref)

theorem convFactors_no_panic {D : Int} {type1 : Bool} {bx : Int} {conductor : List Nat}
    {fb : List (Nat × Nat)} : ∀ intfacs : List (Nat × Nat),
    (∀ pe ∈ intfacs, FbOk D type1 conductor fb pe.1 ∧ ((pe.1 : Int) ∣ bx * bx - D)) →
    (convFactors type1 bx conductor fb intfacs = .reject ∨
      ∃ fs, convFactors type1 bx conductor fb intfacs = .ok fs)
  | [], _ => Or.inr ⟨[], rfl⟩
  | (p, e) :: rest, h => by
    have ih := convFactors_no_panic rest (fun pe hpe => h pe (List.mem_cons_of_mem _ hpe))
    obtain ⟨hfb, hdvd⟩ := h (p, e) List.mem_cons_self
    simp only at hfb hdvd
    rw [convFactors]
    by_cases h2 : p = 2
    · rw [if_pos h2]
      rcases ih with ih | ⟨fs, ih⟩
      · left; rw [ih]
      · right; rw [ih]; exact ⟨_, rfl⟩
    · rw [if_neg h2]
      by_cases hc : conductor.contains p = true
      · rw [if_pos hc]; left; rfl
      · rw [if_neg hc]
        rcases hfb with hfb | hfb | ⟨hp, r, ref, hl, hbp, hB⟩
        · exact absurd hfb h2
        · exact absurd (List.contains_iff_mem.2 hfb) hc
        · simp only [hl, hbp]
          have hs : signedExp p ref bx e = some (e : Int) ∨ signedExp p ref bx e = some (-(e : Int)) := by
            unfold signedExp
            simp only
            rcases modSigned_cases hp hB hdvd with hm | hm
            · left; rw [if_pos hm]
            · by_cases hm' : modSigned bx p = ref
              · left; rw [if_pos hm']
              · right; rw [if_neg hm', if_pos hm]
          rcases hs with hs | hs <;> rw [hs] <;> simp only
          · rcases ih with ih | ⟨fs, ih⟩
            · left; rw [ih]
            · right; rw [ih]; exact ⟨_, rfl⟩
          · rcases ih with ih | ⟨fs, ih⟩
            · left; rw [ih]
            · right; rw [ih]; exact ⟨_, rfl⟩

/-! ### Poly::factors, both polynomial types -/

theorem polyFactors_ok {D : Int} {type1 : Bool} {b : Int} (hb : 0 ≤ b) : ∀ afs : List (Nat × Nat),
    (∀ pr ∈ afs, pr.1.Prime ∧ (∃ ref, bPlus pr.1 pr.2 type1 = some ref ∧ IsBPlus D pr.1 ref) ∧
      ((pr.1 : Int) ∣ (if type1 then 2 * b else b) * (if type1 then 2 * b else b) - D)) →
    ∃ l, polyFactors type1 b afs = some l ∧ l.map Prod.fst = afs.map Prod.fst ∧
      ∀ x ∈ l, x.2 = 1 ∨ x.2 = -1
  | [], _ => ⟨[], by simp [polyFactors], by simp, by simp⟩
  | (p, r) :: fs, h => by
    obtain ⟨hp, ⟨ref, href, hB⟩, hbp⟩ := h (p, r) List.mem_cons_self
    simp only at hp href hB hbp
    obtain ⟨l, hl, hl1, hl2⟩ := polyFactors_ok hb fs (fun pr hpr => h pr (List.mem_cons_of_mem _ hpr))
    -- the value compared is `y mod p` for `y = 2B` resp. `B`
    have hy0 : 0 ≤ (if type1 then 2 * b else b) := by split <;> omega
    have hms : modSigned (if type1 then 2 * b else b) p
        = (if type1 then (2 * b.natAbs) % p else b.natAbs % p) := by
      unfold modSigned
      simp only
      rw [if_neg (by omega)]
      cases type1
      · simp
      · simp only [if_true]
        congr 1
        omega
    have hcases := modSigned_cases hp hB hbp
    rw [hms] at hcases
    have hle : ref ≤ p := hB.1
    have hlt : (if type1 then (2 * b.natAbs) % p else b.natAbs % p) < p := by
      split <;> exact Nat.mod_lt _ hp.pos
    rw [polyFactors]
    simp only [if_neg (not_lt.2 hb), href, hl, Option.bind_eq_bind, Option.bind_some]
    by_cases hc' : (if type1 then (2 * b.natAbs) % p else b.natAbs % p) = ref
    · refine ⟨(p, 1) :: l, by rw [if_pos hc'], by simp [hl1], ?_⟩
      intro x hx
      rcases List.mem_cons.1 hx with rfl | hx
      · left; rfl
      · exact hl2 x hx
    · have hc : (if type1 then (2 * b.natAbs) % p else b.natAbs % p) = p - ref := by
        rcases hcases with hc | hc
        · exact absurd hc hc'
        · exact hc
      refine ⟨(p, -1) :: l, by rw [if_neg hc', if_pos (by omega)], by simp [hl1], ?_⟩
      intro x hx
      rcases List.mem_cons.1 hx with rfl | hx
      · right; rfl
      · exact hl2 x hx

/-! ### the whole candidate -/

/-- No panic site of the relation construction is reachable: positive definite polynomial
(`A > 0`) of discriminant `D < 0` with `B ≥ 0`; every candidate prime reported by the sieve is 2,
a conductor prime or a factor-base prime with a correct root; every prime of `A` divides `A` and
has a correct root. The result is a relation, a skip, or (for a wrong `try_factor64` pair) `badpq`. -/
theorem relationOf_ne_panic (D : Int) (type1 : Bool) (a b c x : Int) (maxprime maxlarge : Nat)
    (double : Bool) (conductor : List Nat) (fb : List (Nat × Nat)) (facs : List Nat)
    (afs : List (Nat × Nat)) (lp lq : Nat)
    (ha : 0 < a) (hb : 0 ≤ b) (hdisc : polyDisc type1 a b c = D) (hD : D < 0)
    (hfacs : ∀ p ∈ facs, FbOk D type1 conductor fb p)
    (hafs : ∀ pr ∈ afs, pr.1.Prime ∧ ((pr.1 : Int) ∣ a) ∧
      ∃ ref, bPlus pr.1 pr.2 type1 = some ref ∧ IsBPlus D pr.1 ref) :
    relationOf type1 a b c x maxprime maxlarge double conductor fb facs afs lp lq ≠ .panic := by
  have hvpos := polyEval_pos type1 a b c x ha (by rw [hdisc]; exact hD)
  have hid := polyEval_disc type1 a b c x
  rw [hdisc] at hid
  unfold relationOf
  cases hev : polyEval type1 a b c x with
  | mk v bx =>
    rw [hev] at hvpos hid
    simp only at hvpos hid ⊢
    rw [if_neg (not_le.2 hvpos)]
    cases htd : trialDivide facs v.toNat with
    | mk intfacs cof =>
      simp only
      have hspec := (trialDivide_spec facs v.toNat).1
      rw [htd] at hspec
      simp only at hspec
      -- the conversion loop does not panic
      have hconv := convFactors_no_panic (D := D) (type1 := type1) (bx := bx) (conductor := conductor)
        (fb := fb) intfacs (by
          intro pe hpe
          obtain ⟨h1, h2⟩ := hspec pe hpe
          refine ⟨hfacs _ h1, ?_⟩
          -- p | v, and bx² - D = 4 a v
          have hv : (pe.1 : Int) ∣ v := by
            have : ((pe.1 : Nat) : Int) ∣ ((v.toNat : Nat) : Int) := Int.natCast_dvd_natCast.2 h2
            rwa [Int.toNat_of_nonneg (le_of_lt hvpos)] at this
          have : bx * bx - D = 4 * a * v := by linarith
          rw [this]
          exact Dvd.dvd.mul_left hv _)
      -- Poly::factors does not panic
      have hpoly := polyFactors_ok (D := D) (type1 := type1) hb afs (by
        intro pr hpr
        obtain ⟨hp, hpa, href⟩ := hafs pr hpr
        refine ⟨hp, href, ?_⟩
        have : (if type1 then 2 * b else b) * (if type1 then 2 * b else b) - D = 4 * a * c := by
          rw [← hdisc]
          unfold polyDisc
          cases type1
          · simp
          · simp only [if_true]; ring
        rw [this]
        exact Dvd.dvd.mul_right (Dvd.dvd.mul_left hpa _) _)
      obtain ⟨qf, hqf, _, _⟩ := hpoly
      split
      · simp
      · split
        · simp
        · split
          · simp
          · split
            · simp
            · rename_i p q _
              split
              · simp
              · rcases hconv with hconv | ⟨fs, hconv⟩
                · rw [hconv]; simp
                · rw [hconv, hqf]; simp

/-! ### nothing is lost: complete relations are emitted at once and stay emitted -/

/-- the emitted list only grows -/
def Grows (s s' : CSet) : Prop := ∃ l, s'.emittedRev = l ++ s.emittedRev

theorem Grows.refl (s : CSet) : Grows s s := ⟨[], rfl⟩

theorem Grows.trans {a b c : CSet} (h1 : Grows a b) (h2 : Grows b c) : Grows a c := by
  obtain ⟨l1, h1⟩ := h1
  obtain ⟨l2, h2⟩ := h2
  exact ⟨l2 ++ l1, by rw [h2, h1, List.append_assoc]⟩

theorem emit_grows (s : CSet) (r : Rel) (n : Nat) : Grows s (emit s r n) := ⟨[r], rfl⟩

theorem emitPath_grows : ∀ (path : List Nat) (s : CSet), Grows s (emitPath s path)
  | [], s => by simpa [emitPath] using Grows.refl s
  | [_], s => by simpa [emitPath] using Grows.refl s
  | p :: q :: t, s => by
    rw [emitPath]
    refine Grows.trans ?_ (emitPath_grows (q :: t) _)
    split
    · exact ⟨[_], rfl⟩
    · exact Grows.refl s

theorem updateTree_grows {fuel s p q s'} (h : updateTree fuel s p q = some s') : Grows s s' :=
  ⟨[], by simpa using (updateTree_frame fuel s p q s' h).1⟩

theorem extendTree_grows {s1 hasp hasq p q s'} (h : extendTree s1 hasp hasq p q = some s') :
    Grows s1 s' := by
  unfold extendTree at h
  split at h
  · simp at h
  · rename_i s2 hs2
    have g1 : Grows s1 s2 := by
      split at hs2
      · exact updateTree_grows hs2
      · simp only [Option.some.injEq] at hs2; subst hs2; exact Grows.refl _
    split at h
    · exact g1.trans (updateTree_grows h)
    · simp only [Option.some.injEq] at h; subst h; exact g1

theorem addPathSorted_grows {s p q r s'} (h : addPathSorted s p q r = some s') : Grows s s' := by
  unfold addPathSorted at h
  split at h
  · simp only [Option.some.injEq] at h
    subst h
    exact ((emitPath_grows _ s).trans (emitPath_grows _ _)).trans (emit_grows _ _ _)
  · have := extendTree_grows h
    obtain ⟨l, hl⟩ := this
    exact ⟨l, hl⟩

theorem add_grows {s r s'} (h : add s r = some s') : Grows s s' := by
  unfold add at h
  split at h
  · simp only [Option.some.injEq] at h; subst h; exact emit_grows _ _ _
  · split at h
    · unfold addPath at h
      split at h
      · obtain ⟨l, hl⟩ := addPathSorted_grows h; exact ⟨l, hl⟩
      · obtain ⟨l, hl⟩ := addPathSorted_grows h; exact ⟨l, hl⟩
    · simp only [Option.some.injEq] at h; subst h; exact Grows.refl _
  · split at h
    · simp at h
    · unfold addPath at h
      split at h
      · obtain ⟨l, hl⟩ := addPathSorted_grows h; exact ⟨l, hl⟩
      · obtain ⟨l, hl⟩ := addPathSorted_grows h; exact ⟨l, hl⟩
  · simp only [Option.some.injEq] at h; subst h; exact Grows.refl _

theorem run_grows : ∀ (rs : List Rel) (s s' : CSet), run s rs = some s' → Grows s s'
  | [], s, s', h => by simp only [run, Option.some.injEq] at h; subst h; exact Grows.refl _
  | r :: rs, s, s', h => by
    rw [run] at h
    split at h
    · simp at h
    · rename_i s1 h1
      exact (add_grows h1).trans (run_grows rs s1 s' h)

/-- every complete relation (no large prime) of the history is emitted -/
theorem run_complete : ∀ (rs : List Rel) (s s' : CSet), run s rs = some s' →
    ∀ r ∈ rs, r.large1 = none → r.large2 = none → r ∈ s'.emittedRev
  | [], _, _, _, r, hr, _, _ => by simp at hr
  | x :: rs, s, s', h, r, hr, h1, h2 => by
    rw [run] at h
    split at h
    · simp at h
    · rename_i s1 hs1
      rcases List.mem_cons.1 hr with rfl | hr
      · -- emitted by this very call, kept afterwards
        have : r ∈ s1.emittedRev := by
          unfold add at hs1
          rw [h1, h2] at hs1
          simp only [Option.some.injEq] at hs1
          subst hs1
          simp [emit]
        obtain ⟨l, hl⟩ := run_grows rs s1 s' h
        rw [hl]
        exact List.mem_append_right _ this
      · exact run_complete rs s1 s' h r hr h1 h2

end Ymq.ClassGroup
