/-
C14 "small", helper lemmas part 9 (Mathlib): the call site of `kernel_lanczos`.
* `Selected n M rk S`: `S` has `rk = rank M` bits and selects linearly independent rows of `M`;
  `rank` and `rank_reverse` both return such a pair (`rank_selected`, `rankReverse_selected`);
* `rank_masked_of_symmetric` (Montgomery's lemma bridged to the model): for a symmetric `G` and a
  `Selected` pair, `rank (G.mask(S)) = (rk, S)`: the masked matrix is in the domain of `pseudoinverse`;
* `pipeline_total`: the whole sequence reaches no panic site and returns Montgomery's pseudo-inverse.
-/
import Ymq.Lemmas.Gf2SmallDomain
import Ymq.Lemmas.Gf2SmallMontgomery
import Ymq.Model.Gf2Genblock

namespace Ymq.Gf2Small
open Module
open scoped Matrix

structure Selected (n : Nat) (M : Mat) (rk S : Nat) : Prop where
  pc : popcount n S = rk
  lt : S < 2 ^ n
  rank : (toMat n M).rank = rk
  indep : LinearIndependent (ZMod 2) (selRows n M S)

theorem rank_selected {n : Nat} (dbg : Bool) {M : Mat} (hw : ∀ k, k < n → row M k < 2 ^ n) :
    ∃ rk S, rank n dbg M = some (rk, S) ∧ Selected n M rk S := by
  obtain ⟨rk, S, hr, hF⟩ := rank_spec_aux dbg hw
  exact ⟨rk, S, hr, hF.pc, hF.maskLt, hF.matrix_rank, hF.independent⟩

/-! ### `rank_reverse` -/

theorem toMat_reverse (n : Nat) (M : Mat) :
    toMat n (reverse n M) = (toMat n M).submatrix Fin.revPerm Fin.revPerm := by
  funext i j
  show vec n (row (reverse n M) i) j = vec n (row M (Fin.rev i)) (Fin.rev j)
  simp only [vec]
  rw [testBit_reverse M i.2 j]
  have h1 : ((Fin.rev i : Fin n) : Nat) = n - 1 - i := by rw [Fin.val_rev]; omega
  have h2 : ((Fin.rev j : Fin n) : Nat) = n - 1 - j := by rw [Fin.val_rev]; omega
  rw [h1, h2]
  simp [j.2]

theorem reverse_lt {n : Nat} (M : Mat) {k : Nat} (hk : k < n) : row (reverse n M) k < 2 ^ n := by
  rw [row_reverse M hk]; exact reverseLane_lt n _

theorem testBit_reverseLane_rev {n : Nat} (mk : Nat) (a : Fin n) :
    (reverseLane n mk).testBit a = mk.testBit (Fin.rev a) := by
  rw [testBit_reverseLane]
  have h1 : ((Fin.rev a : Fin n) : Nat) = n - 1 - a := by rw [Fin.val_rev]; omega
  rw [h1]; simp [a.2]

/-- the rows selected by the reversed mask, seen from the other end -/
def revEquiv (n mk : Nat) :
    {t : Fin n // (reverseLane n mk).testBit t = true} ≃ {t : Fin n // mk.testBit t = true} :=
  Equiv.subtypeEquiv Fin.revPerm (fun a => by rw [testBit_reverseLane_rev]; rfl)

theorem rankReverse_selected {n : Nat} (dbg : Bool) {M : Mat} (hw : ∀ k, k < n → row M k < 2 ^ n) :
    ∃ rk S, rankReverse n dbg M = some (rk, S) ∧ Selected n M rk S := by
  obtain ⟨rk, mk, hr, hS⟩ := rank_selected dbg (M := reverse n M) (fun k hk => reverse_lt M hk)
  refine ⟨rk, reverseLane n mk, by unfold rankReverse; rw [hr], ?_, reverseLane_lt n mk, ?_, ?_⟩
  · rw [← hS.pc, ← card_subtype_eq_popcount, ← card_subtype_eq_popcount]
    exact Fintype.card_congr (revEquiv n mk)
  · rw [← hS.rank, toMat_reverse, Matrix.rank_submatrix]
  · have h1 := (linearIndependent_equiv (revEquiv n mk)).mpr hS.indep
    apply LinearIndependent.of_comp (LinearMap.funLeft (ZMod 2) (ZMod 2) (Fin.rev : Fin n → Fin n))
    convert h1 using 1
    funext s j
    show toMat n M s.1 (Fin.rev j) = toMat n (reverse n M) (Fin.rev s.1) j
    rw [toMat_reverse]
    show _ = toMat n M (Fin.rev (Fin.rev s.1)) (Fin.rev j)
    rw [Fin.rev_rev]

/-! ### Montgomery's lemma for the model -/

theorem isSymm_toMat {n : Nat} {G : Mat} (h : symmetric n G = true) : (toMat n G).IsSymm := by
  apply Matrix.IsSymm.ext
  intro i j
  show vec n (row G j) i = vec n (row G i) j
  simp only [vec]
  rw [(symmetric_iff n G).mp h j i j.2 i.2]

theorem maskRows_lt {n : Nat} {G : Mat} (S : Nat) (hw : ∀ k, k < n → row G k < 2 ^ n) {k : Nat} (hk : k < n) :
    row (maskRows n G S) k < 2 ^ n := by
  rw [row_maskRows G S hk]
  split
  · exact Nat.lt_of_le_of_lt Nat.and_le_left (hw k hk)
  · exact Nat.two_pow_pos n

theorem supported_maskRows (n : Nat) (G : Mat) (S : Nat) : Supported n (maskRows n G S) S :=
  ⟨fun k hk hS => by rw [row_maskRows G S hk, hS]; rfl,
   fun k hk t ht => by
    rw [testBit_maskRows G S hk t] at ht
    simp only [Bool.and_eq_true] at ht
    exact ht.2.1⟩

/-- a symmetric matrix masked by a selection of `rank M` independent rows has that selection as its
own rank selection: the principal submatrix is invertible -/
theorem rank_masked_of_symmetric {n : Nat} (dbg : Bool) {G : Mat} {rk S : Nat}
    (hw : ∀ k, k < n → row G k < 2 ^ n) (hsym : symmetric n G = true) (hS : Selected n G rk S) :
    rank n dbg (maskRows n G S) = some (rk, S) := by
  have hmont : LinearIndependent (ZMod 2) (fun (s : {t : Fin n // S.testBit t = true}) (j : Fin n) =>
      if S.testBit j = true then toMat n G s.1 j else 0) :=
    montgomery_masked_independent (toMat n G) (isSymm_toMat hsym)
      (fun t : Fin n => S.testBit t = true) hS.indep
      (by rw [card_subtype_eq_popcount, hS.pc, hS.rank])
  have hfam : selRows n (maskRows n G S) S =
      fun (s : {t : Fin n // S.testBit t = true}) (j : Fin n) =>
        if S.testBit j = true then toMat n G s.1 j else 0 := by
    funext t j
    show vec n (row (maskRows n G S) t.1) j = if S.testBit j = true then vec n (row G t.1) j else 0
    simp only [vec]
    rw [testBit_maskRows G S t.1.2 j, t.2]
    cases S.testBit j <;> simp
  have hli : LinearIndependent (ZMod 2) (selRows n (maskRows n G S) S) := by
    rw [hfam]; exact hmont
  have := rank_of_independent_rows dbg (fun k hk => maskRows_lt S hw hk) hS.lt
    (supported_maskRows n G S).rowsZero hli
  have hpc : popcount n S = rk := hS.pc
  subst hpc
  exact this

/-- the call site of `kernel_lanczos` on a symmetric Gram matrix: no panic site is reached (either
profile, either direction) and the result is Montgomery's pseudo-inverse -/
theorem pipeline_total {n : Nat} (dbg rev : Bool) {G : Mat} (hn : n ≤ 256)
    (hw : ∀ k, k < n → row G k < 2 ^ n) (hsym : symmetric n G = true) :
    ∃ rk S W, Ymq.Gf2Genblock.pipeline n dbg rev G = some (rk, S, W) ∧ Selected n G rk S ∧
      rank n dbg (maskRows n G S) = some (rk, S) ∧
      W.length = n ∧ (∀ k, k < n → row W k < 2 ^ n) ∧ Supported n W S ∧
      toMat n W * toMat n (maskRows n G S) = toMat n (maskedId n S) := by
  have hsel : ∃ rk S, (if rev then rankReverse n dbg G else rank n dbg G) = some (rk, S) ∧ Selected n G rk S := by
    cases rev with
    | true => simpa using rankReverse_selected dbg hw
    | false => simpa using rank_selected dbg hw
  obtain ⟨rk, S, hr, hS⟩ := hsel
  have hmask := rank_masked_of_symmetric dbg hw hsym hS
  obtain ⟨rows2, hB, hp⟩ := pseudoinverse_total dbg hn (fun k hk => maskRows_lt S hw hk) hmask
    (supported_maskRows n G S)
  obtain ⟨hl, hlt, hSup, hmul⟩ := hB.result
  have hpost := rank_of_left_inverse dbg hS.lt hlt hSup hmul
  rw [hS.pc] at hpost
  have hgoal : Ymq.Gf2Genblock.pipeline n dbg rev G = some (rk, S, rows2.map (·.2)) := by
    unfold Ymq.Gf2Genblock.pipeline
    rw [hr]
    show (match mask n dbg G S with
      | none => none
      | some t => match pseudoinverse n dbg t with
        | none => none
        | some w => if (dbg && rank n dbg w != some (rk, S)) = true then none else some (rk, S, w)) = _
    rw [mask_eq]
    show (match pseudoinverse n dbg (maskRows n G S) with
        | none => none
        | some w => if (dbg && rank n dbg w != some (rk, S)) = true then none else some (rk, S, w)) = _
    rw [hp]
    show (if (dbg && rank n dbg (rows2.map (·.2)) != some (rk, S)) = true then none
      else some (rk, S, rows2.map (·.2))) = _
    rw [hpost, bne_self_eq_false, Bool.and_false, if_neg (by simp)]

  refine ⟨rk, S, rows2.map (·.2), ?_, ?_, ?_, ?_, ?_, ?_, ?_⟩
  · exact hgoal
  · exact hS
  · exact hmask
  · exact hl
  · exact hlt
  · exact hSup
  · exact hmul

end Ymq.Gf2Small
