#!/usr/bin/env python3
"""Census of the explicit panic sites of /repo/src (non-test code) and of how each is covered.

A site is an occurrence of assert!/assert_eq!/assert_ne!/debug_assert*!/panic!/unreachable!/unimplemented!/todo!/
.unwrap()/.expect( outside `#[cfg(test)]` modules, `#[test]` functions, the verif_hooks modules and src/bin.
(Implicit sites — indexing, arithmetic overflow in the checked profile, stack depth — are not syntactic and are
not counted; they are what the no_panic theorems model as `none` and what the two-profile exploration looks for.)

Each site is attributed to its enclosing function. A function counts as MODELLED when its name (or Type::name) is
mentioned in a Lean model file (lean/Ymq/Model/*.lean, lean/Ymq/Gen/*.lean) — every model file names the Rust
functions it follows — and as EXPLORED otherwise (reached only through the differential / oracle runs of the
properties that drive its callers). The mapping is textual: it says where the models are, it proves nothing.
usage: vlib/panic_census.py [--md]"""
import os, re, sys, json, glob
ROOT = os.path.dirname(os.path.dirname(os.path.abspath(__file__)))
REPO = os.environ.get("YMQ_REPO", "/repo")
SITE = re.compile(r"\b(debug_assert(?:_eq|_ne)?!|assert(?:_eq|_ne)?!|panic!|unreachable!|unimplemented!|todo!)|\.(unwrap\(\)|expect\()")


def strip(s):
    s = re.sub(r"/\*.*?\*/", lambda m: re.sub(r"[^\n]", " ", m.group(0)), s, flags=re.S)
    s = re.sub(r"//[^\n]*", "", s)
    # string literals (keep length)
    return re.sub(r'"(?:\\.|[^"\\])*"', lambda m: '"' + " " * (len(m.group(0)) - 2) + '"', s)


def match_brace(s, i):
    d = 0
    while i < len(s):
        if s[i] == "{":
            d += 1
        elif s[i] == "}":
            d -= 1
            if d == 0:
                return i + 1
        i += 1
    return len(s)


def blank(s, a, b):
    return s[:a] + re.sub(r"[^\n]", " ", s[a:b]) + s[b:]


def census():
    model_text = ""
    for f in glob.glob(os.path.join(ROOT, "lean/Ymq/Model/*.lean")) + glob.glob(os.path.join(ROOT, "lean/Ymq/Gen/*.lean")) + \
            glob.glob(os.path.join(ROOT, "translate/*.py")):
        model_text += open(f).read()
    # a model header may name several methods at once: `Type::{new, add, det}` -> Type::new Type::add Type::det
    model_text = re.sub(r"(\b\w+)::\{([^}]*)\}", lambda m: " ".join(m.group(1) + "::" + x.strip() for x in m.group(2).split(",")), model_text)
    rows = {}
    for path in sorted(glob.glob(os.path.join(REPO, "src/**/*.rs"), recursive=True)):
        rel = os.path.relpath(path, REPO)
        if rel.startswith("src/bin/"):
            continue
        s = strip(open(path).read())
        # drop test modules, test functions, verification hooks
        for pat in (r"#\[cfg\(test\)\]\s*(?:pub\s+)?mod\s+\w+\s*\{", r"#\[test\]\s*(?:#\[[^\]]*\]\s*)*fn\s+\w+[^{]*\{",
                    r"#\[cfg\(yamaquasi_verif\)\]\s*pub\s+mod\s+\w+\s*\{"):
            while True:
                m = re.search(pat, s)
                if not m:
                    break
                s = blank(s, m.start(), match_brace(s, m.end() - 1))
        s = re.sub(r"#\[cfg\(yamaquasi_verif\)\]\s*[^;{]*;", lambda m: re.sub(r"[^\n]", " ", m.group(0)), s)
        # functions (innermost enclosing wins)
        fns = []
        impls = []
        for m in re.finditer(r"\bimpl\b[^{;]*\{", s):
            hdr = re.sub(r"<[^<>]*>", "", re.sub(r"<[^<>]*>", "", m.group(0)))
            ty = re.findall(r"\b([A-Z]\w*)\b", hdr.split(" for ")[-1])
            impls.append((m.start(), match_brace(s, m.end() - 1), ty[0] if ty else "?"))
        for m in re.finditer(r"\bfn\s+(\w+)\s*(?:<(?:[^<>{(]|<[^<>]*>)*>)?\s*\(", s):
            # end of the parameter list, then `{` (a body) or `;` (a declaration)
            d, i = 0, m.end() - 1
            while i < len(s):
                if s[i] == "(":
                    d += 1
                elif s[i] == ")":
                    d -= 1
                    if d == 0:
                        break
                i += 1
            b = s.find("{", i)
            semi = s.find(";", i)
            if b < 0 or (0 <= semi < b and "where" not in s[i:semi]):
                continue
            enc = [t for t in impls if t[0] <= m.start() < t[1]]
            ty = max(enc, key=lambda t: t[0])[2] + "::" if enc else ""
            fns.append((m.start(), match_brace(s, b), ty + m.group(1)))
        per = {}
        for m in SITE.finditer(s):
            kind = m.group(1) or "." + m.group(2)
            enc = [f for f in fns if f[0] <= m.start() < f[1]]
            name = max(enc, key=lambda f: f[0])[2] if enc else "<top>"
            per.setdefault(name, []).append(kind)
        for name, kinds in per.items():
            short = name.split("::")[-1]
            generic = short in ("new", "from", "len", "get", "add", "sub", "mul", "next", "eval", "default", "fmt", "from_str", "<top>")
            modelled = bool(re.search(r"\b" + re.escape(name) + r"\b", model_text)) or \
                (not generic and bool(re.search(r"\b" + re.escape(short) + r"\b", model_text)))
            rows[(rel, name)] = (len(kinds), sum(1 for k in kinds if k.startswith("debug_assert")), modelled)
    return rows


def main():
    rows = census()
    files = {}
    for (rel, name), (n, dbg, mod) in rows.items():
        f = files.setdefault(rel, [0, 0, 0, 0, []])
        f[0] += n
        f[1] += dbg
        f[2] += n if mod else 0
        f[3] += 1
        if not mod:
            f[4].append(f"{name}({n})")
    tot = [sum(f[i] for f in files.values()) for i in range(3)]
    if "--md" in sys.argv:
        print("| file | explicit panic sites | of which debug_assert | in functions a Lean model follows | functions left to exploration (sites) |")
        print("|---|---|---|---|---|")
        for rel, f in sorted(files.items()):
            rest = ", ".join(sorted(f[4], key=lambda x: -int(x[x.index("(") + 1:-1]))[:6]) + (" …" if len(f[4]) > 6 else "")
            print(f"| {rel} | {f[0]} | {f[1]} | {f[2]} | {rest or '—'} |")
        print(f"| **total** | {tot[0]} | {tot[1]} | {tot[2]} | |")
    else:
        json.dump({"total_sites": tot[0], "debug_assert_sites": tot[1], "sites_in_modelled_functions": tot[2],
                   "per_file": {rel: {"sites": f[0], "modelled": f[2], "unmodelled_functions": f[4]} for rel, f in sorted(files.items())}},
                  sys.stdout, indent=1)


if __name__ == "__main__":
    main()
