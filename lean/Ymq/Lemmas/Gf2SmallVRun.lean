/-
C14 "small", helper lemmas part 21 (Mathlib): base case of `VInv` and the unconditional loop-level
statements for the checked profile.
-/
import Ymq.Lemmas.Gf2SmallVStep

namespace Ymq.Gf2Small
open Ymq.Gf2 Ymq.Gf2Genblock Ymq.Gf2Lanczos
open scoped Matrix

theorem lanczosInit_shape {dbg : Bool} {b : SparseOpt} {Y0 ay : List Nat} {st : LState}
    (h : lanczosInit dbg b Y0 = some (st, ay)) :
    ∃ ginv y, st = LState.mk [ay] [ay] [ginv] [M64] y := by
  unfold lanczosInit at h
  split at h
  · cases h
  split at h
  · cases h
  split at h
  · cases h
  split at h
  · rename_i ginv _
    split at h
    · cases h
    split at h
    · cases h
    · rename_i y _
      simp only [Option.some.injEq, Prod.mk.injEq] at h
      obtain ⟨h1, h2⟩ := h
      subst h2
      exact ⟨ginv, y, h1.symm⟩
  · cases h

/-- base case of the extended invariant -/
theorem lanczosInit_vinv {k : Nat} {cols : List (List Nat)} (hM : MatOK k cols) (hn0 : 0 < cols.length)
    (dbg : Bool) {Y0 ay : List Nat} {st : LState} (hY0 : BlockOK cols.length Y0)
    (h : lanczosInit dbg (qsOptimize k cols) Y0 = some (st, ay)) :
    VInv k cols st [ay] [ay] [M64] := by
  have hayOK := (lanczosInit_wf hM dbg hY0 h).2
  obtain ⟨ginv, y, rfl⟩ := lanczosInit_shape h
  exact {
    lenVh := rfl
    lastW := rfl
    lastV := rfl
    wvLast := by
      show CM cols.length ay = CM cols.length ay * projS M64
      rw [projS_M64, Matrix.mul_one]
    vOrth := fun l hl => by simp at hl
    recur := fun j hj => by simp at hj
    cc := fun m hm X _ _ => by
      have : m = 0 := by simp at hm; omega
      subst this; rfl
    dd := fun m hm X _ _ => by
      have : m = 0 := by simp at hm; omega
      subst this
      show _ * (1 - projS (pc [M64] 0 0)) = 0
      rw [pc_self, projS_M64, sub_self, Matrix.mul_zero]
    masksRel := fun l h1 h2 => by simp at h2; omega
    purged := fun j w hjw he => by
      exfalso
      have hj0 : j = 0 := by
        have := (List.getElem?_eq_some_iff.mp hjw).1
        simp at this; omega
      subst hj0
      simp only [List.getElem?_cons_zero, Option.some.injEq] at hjw
      subst hjw
      have := hayOK.1
      cases hw : ay with
      | nil => rw [hw] at this; simp at this; omega
      | cons a l => rw [hw] at he; simp at he }

/-- checked profile, unconditional: the loop returns or runs out of fuel; it never panics -/
theorem lanczosLoop_checked {k : Nat} {cols : List (List Nat)} (hM : MatOK k cols) (hn0 : 0 < cols.length)
    {Y0 ay : List Nat} (hay : mulAabOpt (qsOptimize k cols) Y0 = some ay) (hayOK : BlockOK cols.length ay)
    (fuel : Nat) :
    ∀ (st : LState) (hist vhist : List (List Nat)) (Ss : List Nat) (acc : List (Nat × List Nat × List Nat)),
    LInv k cols Y0 st hist Ss → VInv k cols st hist vhist Ss →
    lanczosLoop true (qsOptimize k cols) ay fuel st acc = none →
    ∃ st', IterN true (qsOptimize k cols) ay fuel st st' := by
  induction fuel with
  | zero => intro st _ _ _ _ _ _ _; exact ⟨st, .zero st⟩
  | succ fuel ih =>
    intro st hist vhist Ss acc hInv hV hnone
    unfold lanczosLoop at hnone
    rcases lanczosStep_checked_of_VInv hM hay hayOK hInv hV with
      ⟨st', hs, hy, hsub⟩ | ⟨st', mk, w, hs, hInv', next, next0, hF⟩
    · rw [hs] at hnone
      simp only [] at hnone
      obtain ⟨ayy, hayy, hz⟩ := afterLoop_ok hM hInv hy hsub
      rw [hayy] at hnone
      simp only [] at hnone
      split at hnone
      · rename_i hcond
        simp only [Bool.true_and, List.any_eq_true, Bool.and_eq_true, Bool.not_eq_true', bne_iff_ne, ne_eq] at hcond
        obtain ⟨w, hw, hne, hnz⟩ := hcond
        exact absurd (hz w hw hne) hnz
      · cases hnone
    · rw [hs] at hnone
      simp only [] at hnone
      obtain ⟨st'', hit⟩ := ih st' _ _ _ _ hInv' (VInv_step hM hn0 hInv hV hF) hnone
      exact ⟨st'', .succ hs hit⟩

/-- the invariants hold at every state reached by continuing iterations -/
theorem IterN_inv {k : Nat} {cols : List (List Nat)} (hM : MatOK k cols) (hn0 : 0 < cols.length)
    {Y0 ay : List Nat} (hay : mulAabOpt (qsOptimize k cols) Y0 = some ay) (hayOK : BlockOK cols.length ay)
    {n : Nat} {st st' : LState} (hit : IterN true (qsOptimize k cols) ay n st st') :
    ∀ (hist vhist : List (List Nat)) (Ss : List Nat), LInv k cols Y0 st hist Ss → VInv k cols st hist vhist Ss →
    ∃ hist' vhist' Ss', LInv k cols Y0 st' hist' Ss' ∧ VInv k cols st' hist' vhist' Ss' := by
  induction hit with
  | zero st => intro hist vhist Ss h1 h2; exact ⟨hist, vhist, Ss, h1, h2⟩
  | succ hs _ ih =>
    intro hist vhist Ss hInv hV
    rcases lanczosStep_checked_of_VInv hM hay hayOK hInv hV with
      ⟨st1, hs1, _, _⟩ | ⟨st1, mk1, w, hs1, hInv', next, next0, hF⟩
    · rw [hs1] at hs; cases hs
    · rw [hs1] at hs
      injection hs with e1 e2
      subst e1
      exact ih _ _ _ hInv' (VInv_step hM hn0 hInv hV hF)

end Ymq.Gf2Small
